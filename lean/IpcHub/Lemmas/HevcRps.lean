/-
Short-term reference picture sets with inter prediction: the delta-step form the Go decoder stores
and reconstructs (FFmpeg's scheme) agrees with the delta arrays of H.265 7.4.8, so that the number of
flags read for the next predicted set (NumDeltaPocs) is the standard's.
-/
import IpcHub.Lemmas.HevcBody
namespace IpcHub.Hevc
open IpcHub.Bits IpcHub.BitSyntax IpcHub.HevcSyntax

/-- strictly decreasing from `p`, every element ≥ −2^15 -/
def Desc : Int → List Int → Prop
  | _, [] => True
  | p, x :: xs => x < p ∧ -32768 ≤ x ∧ Desc x xs

/-- strictly increasing from `p`, every element ≤ 2^15 − 1 -/
def Asc : Int → List Int → Prop
  | _, [] => True
  | p, x :: xs => p < x ∧ x ≤ 32767 ∧ Asc x xs

/-- DeltaPocS0 strictly decreasing in −2^15 … −1, DeltaPocS1 strictly increasing in 1 … 2^15 − 1 (7.4.8) -/
def Good (a : RpsArrays) : Prop := Desc 0 (a.s0.map (·.1)) ∧ Asc 0 (a.s1.map (·.1)) ∧ a.s0.length + a.s1.length ≤ 15

/-- the stored delta-step form `m` represents the delta arrays `a` -/
def Rel (m : StRps) (a : RpsArrays) : Prop :=
  m.numNegativePics = a.s0.length ∧ m.numPositivePics = a.s1.length ∧
  deltaArray (-1) 0 m.s0 = a.s0.map (·.1) ∧ deltaArray 1 0 m.s1 = a.s1.map (·.1)

theorem deltaArray_toSteps_neg (p : Int) (L : List (Int × Nat)) (hp : p ≤ 0) (h : Desc p (L.map (·.1))) :
    deltaArray (-1) p (toSteps (-1) p L) = L.map (·.1) := by
  induction L generalizing p with
  | nil => rfl
  | cons e rest ih =>
    obtain ⟨d, u'⟩ := e
    simp only [List.map_cons, Desc] at h
    obtain ⟨h1, h2, h3⟩ := h
    simp only [toSteps, deltaArray, List.map_cons]
    have e1 : ((-1 * (d - p) - 1) % 65536).toNat = (p - d - 1).toNat := by
      have : (-1 * (d - p) - 1) % 65536 = p - d - 1 := by
        have : -1 * (d - p) - 1 = p - d - 1 := by omega
        rw [this]; exact Int.emod_eq_of_lt (by omega) (by omega)
      rw [this]
    have e2 : p + -1 * Int.ofNat (((p - d - 1).toNat + 1) % 65536) = d := by
      have : ((p - d - 1).toNat + 1) % 65536 = (p - d - 1).toNat + 1 := Nat.mod_eq_of_lt (by omega)
      rw [this]; simp; omega
    rw [e1, e2, ih d (by omega) h3]

theorem deltaArray_toSteps_pos (p : Int) (L : List (Int × Nat)) (hp : 0 ≤ p) (h : Asc p (L.map (·.1))) :
    deltaArray 1 p (toSteps 1 p L) = L.map (·.1) := by
  induction L generalizing p with
  | nil => rfl
  | cons e rest ih =>
    obtain ⟨d, u'⟩ := e
    simp only [List.map_cons, Asc] at h
    obtain ⟨h1, h2, h3⟩ := h
    simp only [toSteps, deltaArray, List.map_cons]
    have e1 : ((1 * (d - p) - 1) % 65536).toNat = (d - p - 1).toNat := by
      have : (1 * (d - p) - 1) % 65536 = d - p - 1 := by
        have : 1 * (d - p) - 1 = d - p - 1 := by omega
        rw [this]; exact Int.emod_eq_of_lt (by omega) (by omega)
      rw [this]
    have e2 : p + 1 * Int.ofNat (((d - p - 1).toNat + 1) % 65536) = d := by
      have : ((d - p - 1).toNat + 1) % 65536 = (d - p - 1).toNat + 1 := Nat.mod_eq_of_lt (by omega)
      rw [this]; simp; omega
    rw [e1, e2, ih d (by omega) h3]

@[simp] theorem length_toSteps (sign p : Int) (L : List (Int × Nat)) : (toSteps sign p L).length = L.length := by
  induction L generalizing p with
  | nil => rfl
  | cons e rest ih => obtain ⟨d, u'⟩ := e; simp [toSteps, ih]


theorem withIdx_zipIdx (deltaRps : Int) (l : List (Int × Bool)) (b : Nat) :
    (withIdx b (l.map (·.1))).map (fun (d, i) => (d + deltaRps, i))
      = (l.zipIdx b).map (fun ((d, _), j) => (d + deltaRps, j)) := by
  induction l generalizing b with
  | nil => rfl
  | cons e rest ih =>
    obtain ⟨d, u'⟩ := e
    simp [withIdx, List.zipIdx_cons, ih]

/-- the flags as the Go arrays hold them -/
def flagsNat (flags : List (Bool × Bool)) : List (Nat × Nat) := flags.map (fun (a, b) => (a.toNat, b.toNat))

theorem flagsNat_getElem? (flags : List (Bool × Bool)) (j : Nat) :
    (flagsNat flags)[j]? = (flags[j]?).map (fun (a, b) => (a.toNat, b.toNat)) := by
  simp [flagsNat]

theorem selectPocs_pick (cond : Int → Bool) (flags : List (Bool × Bool)) (cands : List (Int × Nat)) :
    selectPocs cond (flagsNat flags) cands = (pick cond flags cands).map (fun (d, used) => (d, used.toNat)) := by
  induction cands with
  | nil => rfl
  | cons e rest ih =>
    obtain ⟨d, j⟩ := e
    simp only [selectPocs, pick, flagsNat_getElem?]
    cases hj : flags[j]? with
    | none => simpa using ih
    | some f =>
      obtain ⟨used, useDelta⟩ := f
      cases useDelta <;> cases hc : cond d <;> simp <;> exact ih

/-- the model's reconstruction of a predicted set, expressed through the standard's derivation -/
theorem predictRps_eq (ref : StRps) (prevArr : RpsArrays) (deltaRps : Int) (flags : List (Bool × Bool))
    (hrel : Rel ref prevArr) (hsmall : prevArr.s0.length + prevArr.s1.length < 256) :
    predictRps ref deltaRps (flagsNat flags) =
      (toSteps (-1) 0 ((pick (fun d => d < 0) flags (candidatesS0 prevArr deltaRps)).map (fun (d, used) => (d, used.toNat))),
       toSteps 1 0 ((pick (fun d => d > 0) flags (candidatesS1 prevArr deltaRps)).map (fun (d, used) => (d, used.toNat)))) := by
  obtain ⟨hn, hp, h0, h1⟩ := hrel
  have hnd : (prevArr.s0.length + prevArr.s1.length) % 256 = prevArr.numDeltaPocs := Nat.mod_eq_of_lt hsmall
  simp only [predictRps, h0, h1, hn, hp, hnd, selectPocs_pick, candidatesS0, candidatesS1]
  have a0 := withIdx_zipIdx deltaRps prevArr.s0 0
  have a1 := withIdx_zipIdx deltaRps prevArr.s1 prevArr.s0.length
  simp only [a0, a1]


/-- delta_poc_sX_minus1 in 0 … 2^15 − 1 -/
def wfRpsEntries15 : List (Nat × Bool) → Bool
  | [] => true
  | (d, _) :: rest => decide (d < 32768) && wfRpsEntries15 rest

theorem wfRpsEntries_of15 (l : List (Nat × Bool)) (h : wfRpsEntries15 l = true) : wfRpsEntries l = true := by
  induction l with
  | nil => rfl
  | cons e rest ih =>
    obtain ⟨d, u'⟩ := e
    simp only [wfRpsEntries15, Bool.and_eq_true, decide_eq_true_eq] at h
    simp only [wfRpsEntries, Bool.and_eq_true, decide_eq_true_eq]
    exact ⟨by omega, ih h.2⟩

theorem deltaArray_sums (sign acc : Int) (l : List (Nat × Bool)) (h : wfRpsEntries15 l = true) :
    deltaArray sign acc (l.map (fun (d, u') => (d, u'.toNat))) = (sumsOf sign acc l).map (·.1) := by
  induction l generalizing acc with
  | nil => rfl
  | cons e rest ih =>
    obtain ⟨d, u'⟩ := e
    simp only [wfRpsEntries15, Bool.and_eq_true, decide_eq_true_eq] at h
    have hm : (d + 1) % 65536 = d + 1 := Nat.mod_eq_of_lt (by omega)
    simp only [List.map_cons, deltaArray, sumsOf, hm]
    have : acc + sign * Int.ofNat (d + 1) = acc + sign * (Int.ofNat d + 1) := by simp
    rw [this, ih _ h.2]

@[simp] theorem length_sumsOf (sign acc : Int) (l : List (Nat × Bool)) : (sumsOf sign acc l).length = l.length := by
  induction l generalizing acc with
  | nil => rfl
  | cons e rest ih => obtain ⟨d, u'⟩ := e; simp [sumsOf, ih]

theorem rel_explicit (prevArr : RpsArrays) (s0 s1 : List (Nat × Bool))
    (h0 : wfRpsEntries15 s0 = true) (h1 : wfRpsEntries15 s1 = true) :
    Rel (explicitOf s0 s1) (arraysOf prevArr (.explicit s0 s1)) := by
  refine ⟨?_, ?_, ?_, ?_⟩
  · simp [explicitOf, arraysOf]
  · simp [explicitOf, arraysOf]
  · exact deltaArray_sums (-1) 0 s0 h0
  · exact deltaArray_sums 1 0 s1 h1


/-- use_delta_flag is inferred 1 where used_by_curr_pic_flag is 1 -/
def flagsInferred : List (Bool × Bool) → Bool
  | [] => true
  | (used, useDelta) :: rest => (!used || useDelta) && flagsInferred rest

theorem rpsFlags_enc (cfg : Cfg) (ok : CfgOK cfg) (flags : List (Bool × Bool)) (j : Nat) (r : List Bool)
    (hinf : flagsInferred flags = true) (hj : j + flags.length ≤ 16) :
    rpsFlags cfg flags.length j (encRpsFlags flags ++ r) = .ok (flagsNat flags, r) := by
  induction flags generalizing j with
  | nil => simp [rpsFlags, encRpsFlags, flagsNat]
  | cons f rest ih =>
    obtain ⟨used, useDelta⟩ := f
    simp only [flagsInferred, Bool.and_eq_true] at hinf
    simp only [List.length_cons] at hj
    have hlt : ¬ (j ≥ cfg.maxRefs) := by rw [ok.refs]; omega
    have ih' := ih (j + 1) hinf.2 (by omega)
    have hinf1 := hinf.1
    cases used <;> cases useDelta <;> simp at hinf1 <;>
      simp [rpsFlags, encRpsFlags, readBit_flag, hlt, ih', flagsNat] <;> simp [flagsNat] at ih' ⊢

/-- well-formedness of one set relative to the arrays of the previous one -/
def SetWF (prevArr : RpsArrays) : StRpsSyn → Prop
  | .explicit s0 s1 =>
    wfRpsEntries15 s0 = true ∧ wfRpsEntries15 s1 = true ∧ Good (arraysOf prevArr (.explicit s0 s1))
  | .inter sign abs flags =>
    abs < 32768 ∧ flags.length = prevArr.numDeltaPocs + 1 ∧ flagsInferred flags = true ∧
    (flags.filter (·.2)).length < 16 ∧ Good (arraysOf prevArr (.inter sign abs flags))

theorem length_pick_le (cond : Int → Bool) (flags : List (Bool × Bool)) (cands : List (Int × Nat)) :
    (pick cond flags cands).length ≤ cands.length := by
  induction cands with
  | nil => simp [pick]
  | cons e rest ih =>
    obtain ⟨d, j⟩ := e
    simp only [pick]
    split
    · split <;> simp <;> omega
    · simp; omega


theorem count_flagsNat (flags : List (Bool × Bool)) :
    ((flagsNat flags).filter (fun (_, d) => d = 1)).length = (flags.filter (·.2)).length := by
  induction flags with
  | nil => rfl
  | cons f rest ih =>
    obtain ⟨a, b⟩ := f
    cases b <;> simp_all [flagsNat, List.filter_cons]

/-- the stored form of a predicted set with reconstructed entries S0, S1 -/
def interOf (sign : Bool) (abs : Nat) (flags : List (Bool × Bool)) (S0 S1 : List (Nat × Nat)) : StRps :=
  { interRefPicSetPredictionFlag := 1, deltaRpsSign := sign.toNat, absDeltaRpsMinus1 := abs,
    usedByCurrPicFlag := (flagsNat flags).map (·.1), useDeltaFlag := (flagsNat flags).map (·.2),
    numNegativePics := S0.length, numPositivePics := S1.length, s0 := S0, s1 := S1 }

theorem stRps_inter (cfg : Cfg) (ok : CfgOK cfg) (idx : Nat) (ref : StRps) (prev' : List StRps) (prevArr : RpsArrays)
    (sign : Bool) (abs : Nat) (flags : List (Bool × Bool)) (r : List Bool)
    (hidx : idx ≠ 0) (hrel : Rel ref prevArr) (hgp : Good prevArr) (wf : SetWF prevArr (.inter sign abs flags)) :
    ∃ m, stRps cfg idx (ref :: prev') (encStRps idx (.inter sign abs flags) ++ r) = .ok (m, r) ∧
      Rel m (arraysOf prevArr (.inter sign abs flags)) := by
  obtain ⟨habs, hlen, hinf, hcnt, hgood⟩ := wf
  have hsmall : prevArr.s0.length + prevArr.s1.length < 256 := by have := hgp.2.2; omega
  have hnd : (ref.numNegativePics + ref.numPositivePics) % 256 = prevArr.numDeltaPocs := by
    rw [hrel.1, hrel.2.1]; exact Nat.mod_eq_of_lt hsmall
  have hflags := rpsFlags_enc cfg ok flags 0 r hinf (by rw [hlen]; have := hgp.2.2; unfold RpsArrays.numDeltaPocs; omega)
  rw [hlen] at hflags
  have hnum : ¬ (((flagsNat flags).filter (fun (_, d) => d = 1)).length ≥ cfg.maxDpbSize) := by
    rw [count_flagsNat, ok.dpb]; omega
  have hdr : ((1 : Int) - 2 * Int.ofNat sign.toNat) * (Int.ofNat abs + 1)
      = (1 - 2 * (if sign then 1 else 0)) * (Int.ofNat abs + 1) := by cases sign <;> simp
  have hpred := predictRps_eq ref prevArr ((1 - 2 * (if sign then 1 else 0)) * (Int.ofNat abs + 1)) flags hrel hsmall
  refine ⟨interOf sign abs flags
    (toSteps (-1) 0 ((pick (fun d => d < 0) flags (candidatesS0 prevArr ((1 - 2 * (if sign then 1 else 0)) * (Int.ofNat abs + 1)))).map
      (fun (d, used) => (d, used.toNat))))
    (toSteps 1 0 ((pick (fun d => d > 0) flags (candidatesS1 prevArr ((1 - 2 * (if sign then 1 else 0)) * (Int.ofNat abs + 1)))).map
      (fun (d, used) => (d, used.toNat)))), ?_, ?_⟩
  · simp only [interOf, stRps, encStRps, hidx, ne_eq, not_false_eq_true, if_true, List.append_assoc, bind_apply, readBit_flag,
      Bool.toNat_true, hnd, readUe16_ue abs _ (by omega), hflags, hnum, if_false, ok.rps, hdr, hpred, pure_apply]
  · have h0 := hgood.1
    have h1 := hgood.2.1
    simp only [arraysOf] at h0 h1 ⊢
    refine ⟨?_, ?_, ?_, ?_⟩
    · simp [interOf]
    · simp [interOf]
    · have := deltaArray_toSteps_neg 0
        ((pick (fun d => d < 0) flags (candidatesS0 prevArr ((1 - 2 * (if sign then 1 else 0)) * (Int.ofNat abs + 1)))).map
          (fun (d, used) => (d, used.toNat))) (by omega) (by simpa [List.map_map, Function.comp_def] using h0)
      simpa [interOf, List.map_map, Function.comp_def] using this
    · have := deltaArray_toSteps_pos 0
        ((pick (fun d => d > 0) flags (candidatesS1 prevArr ((1 - 2 * (if sign then 1 else 0)) * (Int.ofNat abs + 1)))).map
          (fun (d, used) => (d, used.toNat))) (by omega) (by simpa [List.map_map, Function.comp_def] using h1)
      simpa [interOf, List.map_map, Function.comp_def] using this


/-- every set well-formed relative to the arrays of its predecessor; the first set is explicitly coded -/
def SetsWF : Nat → RpsArrays → List StRpsSyn → Prop
  | _, _, [] => True
  | idx, prevArr, x :: rest =>
    (idx = 0 → ∃ s0 s1, x = .explicit s0 s1) ∧ SetWF prevArr x ∧ SetsWF (idx + 1) (arraysOf prevArr x) rest

/-- the loop over all sets, explicit or predicted: consumed exactly -/
theorem stRpsLoop_enc (cfg : Cfg) (ok : CfgOK cfg) (l : List StRpsSyn) (idx : Nat) (prev : List StRps) (prevArr : RpsArrays)
    (r : List Bool) (hw : SetsWF idx prevArr l)
    (hinv : idx ≠ 0 → ∃ ref prev', prev = ref :: prev' ∧ Rel ref prevArr ∧ Good prevArr) :
    ∃ res, stRpsLoop cfg l.length idx prev (encStRpsList idx l ++ r) = .ok (res, r) := by
  induction l generalizing idx prev prevArr with
  | nil => exact ⟨prev, by simp [stRpsLoop, encStRpsList]⟩
  | cons x rest ih =>
    obtain ⟨hfirst, hset, hrest⟩ := hw
    cases x with
    | explicit s0 s1 =>
      obtain ⟨h0, h1, hgood⟩ := hset
      have hl : s0.length + s1.length ≤ 15 := by simpa [arraysOf] using hgood.2.2
      have hstep := stRps_explicit cfg ok idx prev s0 s1 (encStRpsList (idx + 1) rest ++ r)
        ⟨by omega, wfRpsEntries_of15 _ h0⟩ ⟨by omega, wfRpsEntries_of15 _ h1⟩
      obtain ⟨res, hres⟩ := ih (idx + 1) (explicitOf s0 s1 :: prev) (arraysOf prevArr (.explicit s0 s1)) hrest
        (fun _ => ⟨_, _, rfl, rel_explicit prevArr s0 s1 h0 h1, hgood⟩)
      exact ⟨res, by simp only [List.length_cons, stRpsLoop, encStRpsList, List.append_assoc, bind_apply, hstep, hres]⟩
    | inter sign abs flags =>
      have hidx : idx ≠ 0 := by
        intro h0
        obtain ⟨s0, s1, he⟩ := hfirst h0
        cases he
      obtain ⟨ref, prev', hp, hrel, hgp⟩ := hinv hidx
      subst hp
      obtain ⟨m, hstep, hrelm⟩ := stRps_inter cfg ok idx ref prev' prevArr sign abs flags (encStRpsList (idx + 1) rest ++ r)
        hidx hrel hgp hset
      obtain ⟨res, hres⟩ := ih (idx + 1) (m :: ref :: prev') (arraysOf prevArr (.inter sign abs flags)) hrest
        (fun _ => ⟨_, _, rfl, hrelm, hset.2.2.2.2⟩)
      exact ⟨res, by simp only [List.length_cons, stRpsLoop, encStRpsList, List.append_assoc, bind_apply, hstep, hres]⟩

end IpcHub.Hevc
