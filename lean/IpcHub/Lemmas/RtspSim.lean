/-
The RTSP session model refines the reference automaton (Spec/RtspAutomaton.lean):
abstraction function, invariant and the simulation step, for Props/C12.lean.
-/
import IpcHub.Lemmas.RtspSession
import IpcHub.Lemmas.RtspTransport
namespace IpcHub.Rtsp
open IpcHub.RtspSpec

/-- where the reference automaton is, for a session state -/
def absPhase (s : Sess) : Phase :=
  if s.closed then .closed
  else match s.status, s.mode with
    | .init, .unknown => .fresh
    | .init, .play => .described
    | .init, .record => .announced
    | .ready, .record => .readyRecord
    | .ready, _ => .readyPlay
    | .playing, _ => .playing
    | .recording, _ => .recording

def mstateOf (s : Sess) : MState :=
  { phase := absPhase s, consumers := s.consumers, published := s.pusher }

/-- the invariant of reachable session states -/
structure SInv (s : Sess) : Prop where
  closedClean : s.closed = true → s.role = .none ∧ s.pusher = false
  initClean : s.closed = false → s.status = .init → s.role = .none ∧ s.pusher = false
  freshNoCtl : s.closed = false → s.status = .init → s.mode = .unknown → s.vControl = [] ∧ s.aControl = []
  ready : s.closed = false → s.status = .ready → s.role = .none ∧ s.pusher = false ∧ s.mode ≠ .unknown ∧ s.tr.type ≠ .unknown
  playing : s.closed = false → s.status = .playing → s.role ≠ .none ∧ s.pusher = false
  recording : s.closed = false → s.status = .recording → s.role = .none ∧ s.pusher = true

theorem sinv_init (ws : Bool) (p : Str) : SInv (Sess.init ws p) := by
  constructor <;> simp [Sess.init]

/-! ### handler summaries -/

theorem onDescribe_sum (s : Sess) (r : Req) (e : Env) :
    (onDescribe s r e (mkResp r)).2.cseq = r.cseq ∧
    (onDescribe s r e (mkResp r)).1.status = s.status ∧ (onDescribe s r e (mkResp r)).1.role = s.role ∧
    (onDescribe s r e (mkResp r)).1.pusher = s.pusher ∧ (onDescribe s r e (mkResp r)).1.closed = s.closed ∧
    (onDescribe s r e (mkResp r)).1.tr = s.tr ∧
    (((onDescribe s r e (mkResp r)).2.code = 200 ∧ (onDescribe s r e (mkResp r)).1.mode = .play) ∨
     ((onDescribe s r e (mkResp r)).2.code ≠ 200 ∧ (onDescribe s r e (mkResp r)).2.code ≠ 455 ∧
      (onDescribe s r e (mkResp r)).1.mode = s.mode ∧ (onDescribe s r e (mkResp r)).1.vControl = s.vControl ∧
      (onDescribe s r e (mkResp r)).1.aControl = s.aControl)) := by
  unfold onDescribe parseSdp
  crushBy (simp [mkResp])

theorem onAnnounce_sum (s : Sess) (r : Req) (e : Env) :
    (onAnnounce s r e (mkResp r)).2.cseq = r.cseq ∧
    (onAnnounce s r e (mkResp r)).1.status = s.status ∧ (onAnnounce s r e (mkResp r)).1.role = s.role ∧
    (onAnnounce s r e (mkResp r)).1.pusher = s.pusher ∧ (onAnnounce s r e (mkResp r)).1.closed = s.closed ∧
    (onAnnounce s r e (mkResp r)).1.tr = s.tr ∧
    (((onAnnounce s r e (mkResp r)).2.code = 200 ∧ (onAnnounce s r e (mkResp r)).1.mode = .record) ∨
     ((onAnnounce s r e (mkResp r)).2.code ≠ 200 ∧ (onAnnounce s r e (mkResp r)).2.code ≠ 455 ∧
      (onAnnounce s r e (mkResp r)).1.mode = s.mode ∧ (onAnnounce s r e (mkResp r)).1.vControl = s.vControl ∧
      (onAnnounce s r e (mkResp r)).1.aControl = s.aControl)) := by
  unfold onAnnounce parseSdp
  crushBy (simp [mkResp])

theorem getControlPath_nil (e : Env) : getControlPath e [] = some [] := rfl

theorem ctrlMatch_nil (sp : Str) (h : sp ≠ []) : ctrlMatch sp [] = false := by
  cases sp with
  | nil => exact absurd rfl h
  | cons c cs => simp [ctrlMatch]

theorem pickTrack_nil (sp : Str) (h : sp ≠ []) : pickTrack sp [] [] = none := by
  simp [pickTrack, ctrlMatch_nil sp h]

theorem toReady_fields (s : Sess) :
    (toReady s).role = s.role ∧ (toReady s).pusher = s.pusher ∧ (toReady s).closed = s.closed ∧
    (toReady s).vControl = s.vControl ∧ (toReady s).aControl = s.aControl ∧ (toReady s).mode = s.mode ∧
    (toReady s).tr = s.tr := by
  unfold toReady
  split <;> simp

theorem toReady_status (s : Sess) :
    (toReady s).status = match s.status with
      | .init => .ready
      | st => st := by
  unfold toReady
  cases h : s.status <;> simp [h, Status.toNat]

/-- what a SETUP does to the part of the state the reference automaton depends on -/
theorem onSetup_sum (s : Sess) (r : Req) (e : Env)
    (hm : s.mode = .unknown → s.vControl = [] ∧ s.aControl = []) (hwf : r.setupPath ≠ []) :
    (onSetup s r e (mkResp r)).2.cseq = r.cseq ∧
    (onSetup s r e (mkResp r)).1.role = s.role ∧ (onSetup s r e (mkResp r)).1.pusher = s.pusher ∧
    (onSetup s r e (mkResp r)).1.closed = s.closed ∧ (onSetup s r e (mkResp r)).1.vControl = s.vControl ∧
    (onSetup s r e (mkResp r)).1.aControl = s.aControl ∧ (onSetup s r e (mkResp r)).1.mode = s.mode ∧
    (onSetup s r e (mkResp r)).2.code ≠ 455 ∧
    (s.tr.type ≠ .unknown → (onSetup s r e (mkResp r)).1.tr.type ≠ .unknown) ∧
    (((onSetup s r e (mkResp r)).2.code = 200 ∧ s.mode ≠ .unknown ∧
        (onSetup s r e (mkResp r)).1.status = (toReady s).status ∧
        (onSetup s r e (mkResp r)).1.tr.type ≠ .unknown ∧
        (s.mode = .play → specSetupAsk r.transport ≠ .record) ∧
        (s.mode = .record → specSetupAsk r.transport ≠ .play)) ∨
     ((onSetup s r e (mkResp r)).2.code ≠ 200 ∧ (onSetup s r e (mkResp r)).1.status = s.status)) := by
  by_cases hmode : s.mode = .unknown
  · -- nothing has been described or announced: no control matches
    obtain ⟨hv, ha⟩ := hm hmode
    have : onSetup s r e (mkResp r) =
        (s, { mkResp r with transport := some r.transport, code := 500, reason := .unknownControl }) := by
      unfold onSetup
      simp [hv, ha, getControlPath_nil, pickTrack_nil r.setupPath hwf]
    rw [this]
    simp [mkResp]
  · unfold onSetup
    cases hvp : getControlPath e s.vControl with
    | none => simp [mkResp]
    | some vPath =>
      cases hap : getControlPath e s.aControl with
      | none => simp [mkResp]
      | some aPath =>
        simp only
        cases hpt : pickTrack r.setupPath aPath vPath with
        | none => simp [mkResp]
        | some track =>
          simp only
          have hty := parseTransport_type s.tr track r.transport
          have hask := parseTransport_mode_ask s.tr track r.transport
          generalize parseTransport s.tr track r.transport = pr at hty hask
          obtain ⟨tr, err⟩ := pr
          simp only at hty hask ⊢
          cases err with
          | true => simp [mkResp]; exact hty.2
          | false =>
            have htyok := hty.1 rfl
            obtain ⟨hrec, hplay⟩ := hask rfl
            have hmne : (s.mode == Mode.unknown) = false := by simpa using hmode
            simp only [hmne, Bool.false_eq_true, ↓reduceIte]
            have tf := toReady_fields { s with tr := tr }
            simp only at tf
            by_cases hmm : (s.mode != tr.mode) = true
            · simp only [hmm, ↓reduceIte]
              simp [mkResp]; exact fun _ => htyok
            · have hmeq : s.mode = tr.mode := by simpa using hmm
              simp only [hmm, Bool.false_eq_true, ↓reduceIte]
              have ask1 : s.mode = .play → specSetupAsk r.transport ≠ .record := by
                intro hp hr; rw [hrec hr] at hmeq; rw [hmeq] at hp; cases hp
              have ask2 : s.mode = .record → specSetupAsk r.transport ≠ .play := by
                intro hp hr; rw [hplay hr] at hmeq; rw [hmeq] at hp; cases hp
              have hst : (toReady { s with tr := tr }).status = (toReady s).status := by
                simp [toReady_status]
              have htr2 : (toReady { s with tr := tr }).tr.type ≠ .unknown := by rw [tf.2.2.2.2.2.2]; exact htyok
              repeat' (first
                | (simp [mkResp, hmode, htyok]; done)
                | (exact ⟨rfl, tf.1, tf.2.1, tf.2.2.1, tf.2.2.2.1, tf.2.2.2.2.1, tf.2.2.2.2.2.1, by simp [mkResp],
                    fun _ => htr2, Or.inl ⟨rfl, hmode, hst, htr2, ask1, ask2⟩⟩)
                | split | (dsimp only))

theorem onRecord_sum (s : Sess) (r : Req) (e : Env) :
    ∃ x, respsOf (onRecord s e (mkResp r)).2 = [x] ∧ x.cseq = r.cseq ∧
      (x.code ≠ 200 → (onRecord s e (mkResp r)).1 = s) ∧
      (s.status = .recording → (onRecord s e (mkResp r)).1 = s ∧ x.code = 200) ∧
      (s.status ≠ .recording → s.mode ≠ .record → x.code = 455) ∧
      (s.status ≠ .recording → x.code = 200 →
        (onRecord s e (mkResp r)).1 = { s with pusher := true, status := .recording } ∧ s.mode = .record) := by
  unfold onRecord
  by_cases h1 : (s.status == Status.recording) = true
  · rw [if_pos h1]
    have : s.status = .recording := by simpa using h1
    exact ⟨mkResp r, rfl, rfl, fun _ => rfl, fun _ => ⟨rfl, rfl⟩, fun h => absurd this h, fun h => absurd this h⟩
  · rw [if_neg h1]
    have hns : s.status ≠ .recording := by simpa using h1
    by_cases h2 : (s.mode != Mode.record || s.tr.type != TType.tcp) = true
    · rw [if_pos h2]
      refine ⟨_, rfl, rfl, fun _ => rfl, fun h => absurd h hns, fun _ _ => rfl, fun _ h => ?_⟩
      simp [mkResp] at h
    · rw [if_neg h2]
      have hm : s.mode = .record := by
        simp only [Bool.or_eq_true, bne_iff_ne, ne_eq, not_or, Decidable.not_not] at h2; exact h2.1
      by_cases h3 : (!e.permPush) = true
      · rw [if_pos h3]
        refine ⟨_, rfl, rfl, fun _ => rfl, fun h => absurd h hns, fun _ h => absurd hm h, fun _ h => ?_⟩
        simp [mkResp] at h
      · rw [if_neg h3]
        refine ⟨mkResp r, rfl, rfl, fun h => ?_, fun h => absurd h hns, fun _ h => absurd hm h, fun _ _ => ⟨rfl, hm⟩⟩
        simp [mkResp] at h

theorem onPlay_sum (cfg : Cfg) (hA : cfg.playAgainResponds = true) (hN : cfg.playingNeedsOk = true)
    (s : Sess) (r : Req) (e : Env) :
    ∃ x, respsOf (onPlay cfg s r e (mkResp r)).2 = [x] ∧ x.cseq = r.cseq ∧
      (onPlay cfg s r e (mkResp r)).1.pusher = s.pusher ∧ (onPlay cfg s r e (mkResp r)).1.closed = s.closed ∧
      (x.code ≠ 200 → (onPlay cfg s r e (mkResp r)).1 = s) ∧
      (s.status = .playing → (onPlay cfg s r e (mkResp r)).1 = s ∧ x.code = 200) ∧
      (s.status ≠ .playing → x.code = 200 →
        (onPlay cfg s r e (mkResp r)).1.status = .playing ∧ (onPlay cfg s r e (mkResp r)).1.role ≠ .none) ∧
      (s.status ≠ .playing → (x.code = 455 ↔ (s.mode ≠ .play ∨ s.tr.type = .unknown))) := by
  unfold onPlay
  by_cases h1 : (s.status == Status.playing) = true
  · rw [if_pos h1]
    have : s.status = .playing := by simpa using h1
    refine ⟨mkResp r, by simp [hA, respsOf], rfl, rfl, rfl, fun _ => rfl, fun _ => ⟨rfl, rfl⟩, fun h => absurd this h,
      fun h => absurd this h⟩
  · rw [if_neg h1]
    have hns : s.status ≠ .playing := by simpa using h1
    by_cases h2 : (s.mode != Mode.play || s.tr.type == TType.unknown) = true
    · rw [if_pos h2]
      have h2' : s.mode ≠ .play ∨ s.tr.type = .unknown := by simpa using h2
      refine ⟨_, rfl, rfl, rfl, rfl, fun _ => rfl, fun h => absurd h hns, fun _ h => ?_, fun _ => ⟨fun _ => h2', fun _ => rfl⟩⟩
      simp [mkResp] at h
    · rw [if_neg h2]
      have h2' : ¬ (s.mode ≠ .play ∨ s.tr.type = .unknown) := by simpa using h2
      have hty : s.tr.type ≠ .unknown := fun h => h2' (Or.inr h)
      cases hl : e.lookup s.path with
      | none =>
        refine ⟨_, rfl, rfl, rfl, rfl, fun _ => rfl, fun h => absurd h hns, fun _ h => ?_, fun _ => ⟨fun h => ?_, fun h => absurd h h2'⟩⟩
        · simp [mkResp] at h
        · simp [mkResp] at h
      | some st =>
        simp only
        by_cases h3 : (!e.permPull) = true
        · rw [if_pos h3]
          refine ⟨_, rfl, rfl, rfl, rfl, fun _ => rfl, fun h => absurd h hns, fun _ h => ?_, fun _ => ⟨fun h => ?_, fun h => absurd h h2'⟩⟩
          · simp [mkResp] at h
          · simp [mkResp] at h
        · rw [if_neg h3]
          have hmodeP : s.mode = .play := Classical.byContradiction fun hc => h2' (Or.inl hc)
          cases hT : s.tr.type with
          | unknown => exact absurd hT hty
          | tcp =>
            simp only [afterPlay, hN]
            refine ⟨_, rfl, rfl, rfl, rfl, fun h => ?_, fun h => absurd h hns, fun _ _ => ⟨by simp, by simp⟩, fun _ => ⟨fun h => ?_, fun h => by rcases h with h | h; exact absurd hmodeP h; cases h⟩⟩
            · simp [mkResp] at h
            · simp [mkResp] at h
          | udp =>
            simp only [afterPlay, hN]
            by_cases h4 : (!e.udpOk) = true
            · rw [if_pos h4]
              refine ⟨_, rfl, rfl, by simp, by simp, fun _ => by simp, fun h => absurd h hns, fun _ h => ?_, fun _ => ⟨fun h => ?_, fun h => by rcases h with h | h; exact absurd hmodeP h; cases h⟩⟩
              · simp [mkResp] at h
              · simp [mkResp] at h
            · rw [if_neg h4]
              refine ⟨_, rfl, rfl, rfl, rfl, fun h => ?_, fun h => absurd h hns, fun _ _ => ⟨by simp, by simp⟩, fun _ => ⟨fun h => ?_, fun h => by rcases h with h | h; exact absurd hmodeP h; cases h⟩⟩
              · simp [mkResp] at h
              · simp [mkResp] at h
          | multicast =>
            simp only [afterPlay, hN]
            cases hmc : st.mc with
            | none =>
              refine ⟨_, rfl, rfl, by simp, by simp, fun _ => by simp, fun h => absurd h hns, fun _ h => ?_, fun _ => ⟨fun h => ?_, fun h => by rcases h with h | h; exact absurd hmodeP h; cases h⟩⟩
              · simp [mkResp] at h
              · simp [mkResp] at h
            | some m =>
              refine ⟨_, rfl, rfl, rfl, rfl, fun h => ?_, fun h => absurd h hns, fun _ _ => ⟨by simp, by simp⟩, fun _ => ⟨fun h => ?_, fun h => by rcases h with h | h; exact absurd hmodeP h; cases h⟩⟩
              · simp [mkResp] at h
              · simp [mkResp] at h

end IpcHub.Rtsp
