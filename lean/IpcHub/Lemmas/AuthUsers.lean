/-
C11 helper lemmas, part A: the user table of the model after any administrative history denotes
exactly the rights "as last saved" of the reference monitor.
-/
import IpcHub.Lemmas.PathMatch2
import IpcHub.Spec.Monitor
namespace IpcHub.Auth
open IpcHub.PathMatch IpcHub.PatternLang IpcHub.Monitor

/-- the model's user table after the administrative history `h` (most recent first) -/
def usersOf (cfg : Cfg) : List AdminOp → List User
  | [] => []
  | .save u upd :: earlier => saveUser cfg (usersOf cfg earlier) u upd
  | .del n :: earlier => delUser cfg (usersOf cfg earlier) n

def recOf (u : User) : Rec := { admin := u.admin, push := u.push, pull := u.pull, password := u.password }

/-- what `User.init` stores for a saved record: an administrator's empty right becomes `*` -/
def Rec.norm (r : Rec) : Rec :=
  { r with push := effectiveRight r.admin r.push, pull := effectiveRight r.admin r.pull }

theorem toNat_ofNat_valid (n : Nat) (h : n.isValidChar) : (Char.ofNat n).toNat = n := by
  simp [Char.ofNat, h, Char.ofNatAux, Char.toNat]

theorem asciiLower_idem (c : Char) : asciiLower (asciiLower c) = asciiLower c := by
  unfold asciiLower
  split
  · rename_i h
    have h1 : 65 ≤ c.toNat := h.1
    have h2 : c.toNat ≤ 90 := h.2
    have hv : (Char.ofNat (c.toNat + 32)).toNat = c.toNat + 32 :=
      toNat_ofNat_valid _ (by left; omega)
    have : ¬ ('A' ≤ Char.ofNat (c.toNat + 32) ∧ Char.ofNat (c.toNat + 32) ≤ 'Z') := by
      intro ⟨_, hb⟩
      have : (Char.ofNat (c.toNat + 32)).toNat ≤ 90 := hb
      omega
    simp [this]
  · rfl

theorem effectiveRight_idem (a : Bool) (r : List Char) :
    effectiveRight a (effectiveRight a r) = effectiveRight a r := by
  unfold effectiveRight
  by_cases h : (a && r.isEmpty) = true <;> simp [h]

theorem effectiveRight_if (a : Bool) (r : List Char) :
    effectiveRight a (if a = true ∧ r = [] then ['*'] else r) = effectiveRight a r := by
  unfold effectiveRight
  cases a <;> cases r <;> simp

theorem if_eq_effectiveRight (a : Bool) (r : List Char) :
    (if a = true ∧ r = [] then ['*'] else r) = effectiveRight a r := by
  unfold effectiveRight
  cases a <;> cases r <;> simp

theorem find?_filter_name (us : List User) (k n : List Char) :
    (us.filter (fun u => u.name ≠ k)).find? (fun u => u.name = n) =
      if n = k then none else us.find? (fun u => u.name = n) := by
  induction us with
  | nil => simp
  | cons a us ih =>
    by_cases hak : a.name = k
    · have hd : (decide (a.name ≠ k)) = false := by simp [hak]
      rw [List.filter_cons, hd]
      simp only [Bool.false_eq_true, if_false]
      rw [ih]
      by_cases hnk : n = k
      · simp [hnk]
      · have : ¬ a.name = n := by rw [hak]; exact fun e => hnk e.symm
        simp only [hnk, if_false, List.find?_cons]
        simp [this]
    · have hd : (decide (a.name ≠ k)) = true := by simp [hak]
      rw [List.filter_cons, hd]
      simp only [if_true, List.find?_cons]
      by_cases han : a.name = n
      · have hnk : ¬ n = k := by rw [← han]; exact hak
        simp [han, hnk]
      · have : decide (a.name = n) = false := by simp [han]
        rw [this]
        exact ih

section
variable (cfg : Cfg) (hlow : ∀ c, cfg.pm.lower (cfg.pm.lower c) = cfg.pm.lower c)
include hlow

theorem lowerStr_idem (s : List Char) : lowerStr cfg (lowerStr cfg s) = lowerStr cfg s := by
  simp [lowerStr, List.map_map, Function.comp_def, hlow]

end

theorem init_name (cfg : Cfg) (u : User) : (User.init cfg u).name = lowerStr cfg u.name := rfl
theorem init_admin (cfg : Cfg) (u : User) : (User.init cfg u).admin = u.admin := rfl
theorem init_password (cfg : Cfg) (u : User) : (User.init cfg u).password = u.password := rfl
theorem init_pull (cfg : Cfg) (u : User) : (User.init cfg u).pull = effectiveRight u.admin u.pull := rfl
theorem init_push (cfg : Cfg) (u : User) : (User.init cfg u).push = effectiveRight u.admin u.push := rfl

theorem init_pullM (cfg : Cfg) (hr : cfg.initResets = true) (u : User) :
    (User.init cfg u).pullM = initMatchers cfg.pm (User.init cfg u).pull := by
  simp [User.init, hr]

theorem init_pushM (cfg : Cfg) (hr : cfg.initResets = true) (u : User) :
    (User.init cfg u).pushM = initMatchers cfg.pm (User.init cfg u).push := by
  simp [User.init, hr]

/-- the invariant tying the model table `us` to the history `h` -/
structure UInv (cfg : Cfg) (h : List AdminOp) (us : List User) : Prop where
  low : ∀ u ∈ us, lowerStr cfg u.name = u.name
  mat : ∀ u ∈ us, u.pullM = initMatchers cfg.pm u.pull ∧ u.pushM = initMatchers cfg.pm u.push
  rel : ∀ n, lowerStr cfg n = n →
    (us.find? (fun u => u.name = n)).map recOf = (lastSaved cfg.pm.lower h n).map Rec.norm

theorem find?_map_preserving {α} (p : α → Bool) (f : α → α) (hf : ∀ a, p (f a) = p a) (l : List α) :
    (l.map f).find? p = (l.find? p).map f := by
  induction l with
  | nil => rfl
  | cons a l ih =>
    simp only [List.map_cons, List.find?_cons, hf]
    cases p a <;> simp [ih]

theorem find?_some_pred {α} (p : α → Bool) (l : List α) (a : α) (h : l.find? p = some a) : p a = true :=
  List.find?_some h

theorem find?_none_of_any_false {α} (p : α → Bool) (l : List α) (h : l.any p = false) : l.find? p = none := by
  induction l with
  | nil => rfl
  | cons a l ih =>
    simp only [List.any_cons, Bool.or_eq_false_iff] at h
    simp [h.1, ih h.2]

theorem find?_isSome_of_any {α} (p : α → Bool) (l : List α) (h : l.any p = true) : ∃ a, l.find? p = some a := by
  induction l with
  | nil => simp at h
  | cons a l ih =>
    simp only [List.any_cons, Bool.or_eq_true] at h
    by_cases ha : p a = true
    · exact ⟨a, by simp [ha]⟩
    · have hl : l.any p = true := by
        rcases h with h | h
        · exact absurd h ha
        · exact h
      obtain ⟨b, hb⟩ := ih hl
      have : p a = false := by simpa using ha
      exact ⟨b, by simp [this, hb]⟩

section
variable (cfg : Cfg) (hlow : ∀ c, cfg.pm.lower (cfg.pm.lower c) = cfg.pm.lower c) (hr : cfg.initResets = true)
include hlow hr

omit hlow hr in
theorem uinv_nil : UInv cfg [] [] :=
  ⟨by simp, by simp, by intro n _; simp [lastSaved]⟩

omit hlow hr in
theorem copyFrom_name (u src : User) (b : Bool) : (u.copyFrom cfg src b).name = lowerStr cfg u.name := rfl

omit hlow hr in
theorem recOf_copyFrom (u nu : User) (b : Bool) :
    recOf (u.copyFrom cfg nu b) =
      { admin := nu.admin, push := effectiveRight nu.admin nu.push, pull := effectiveRight nu.admin nu.pull,
        password := if b then nu.password else u.password } := rfl

theorem uinv_save (h : List AdminOp) (us : List User) (inv : UInv cfg h us) (inp : UserIn) (upd : Bool) :
    UInv cfg (.save inp upd :: h) (saveUser cfg us inp upd) := by
  have hnu_name : (User.init cfg inp.toUser).name = lowerStr cfg inp.name := rfl
  have hnu_low : lowerStr cfg (lowerStr cfg inp.name) = lowerStr cfg inp.name := lowerStr_idem cfg hlow _
  unfold saveUser
  by_cases hex : (us.any fun u => u.name = (User.init cfg inp.toUser).name) = true
  · simp only [hex, if_true]
    refine ⟨?_, ?_, ?_⟩
    · intro u' hu'
      obtain ⟨u, hu, rfl⟩ := List.mem_map.mp hu'
      by_cases hn : u.name = (User.init cfg inp.toUser).name
      · simp only [hn, if_true]
        rw [copyFrom_name cfg, hn, hnu_name, hnu_low, hnu_low]
      · simp only [hn, if_false]; exact inv.low u hu
    · intro u' hu'
      obtain ⟨u, hu, rfl⟩ := List.mem_map.mp hu'
      by_cases hn : u.name = (User.init cfg inp.toUser).name
      · simp only [hn, if_true]
        exact ⟨init_pullM cfg hr _, init_pushM cfg hr _⟩
      · simp only [hn, if_false]; exact inv.mat u hu
    · intro n hn
      -- the update preserves names
      have hpres : ∀ a : User,
          (fun u : User => decide (u.name = n))
            (if a.name = (User.init cfg inp.toUser).name then a.copyFrom cfg (User.init cfg inp.toUser) upd else a)
          = (fun u : User => decide (u.name = n)) a := by
        intro a
        by_cases ha : a.name = (User.init cfg inp.toUser).name
        · simp only [ha, if_true]
          rw [copyFrom_name cfg, ha, hnu_name, hnu_low]
        · simp only [ha, if_false]
      rw [find?_map_preserving _ _ hpres]
      by_cases hnn : n = lowerStr cfg inp.name
      · -- the saved user
        subst hnn
        obtain ⟨u, hu⟩ := find?_isSome_of_any _ _ hex
        rw [hnu_name] at hu
        have hrel := inv.rel _ hnu_low
        rw [hu] at hrel
        rw [hu]
        have hun : u.name = lowerStr cfg inp.name := by
          have := find?_some_pred _ _ _ hu; simpa using this
        simp only [Option.map_some, hun, hnu_name, if_true, recOf_copyFrom]
        simp only [lastSaved, lowerStr] at *
        simp only [hnu_low, if_true, Option.map_some]
        cases hls : lastSaved cfg.pm.lower h (List.map cfg.pm.lower inp.name) with
        | none => rw [hls] at hrel; simp at hrel
        | some old =>
          rw [hls] at hrel
          simp only [Option.map_some, Option.some.injEq] at hrel
          have hpw : u.password = old.password := by
            have := congrArg Rec.password hrel
            simpa [recOf, Rec.norm] using this
          cases upd <;> simp [Rec.norm, User.init, UserIn.toUser, effectiveRight_idem, effectiveRight_if, hpw]
      · -- somebody else
        have hne : ¬ (List.map cfg.pm.lower inp.name = List.map cfg.pm.lower n) := by
          intro e; apply hnn
          have : lowerStr cfg n = n := hn
          simp only [lowerStr] at this ⊢
          rw [← this, e]
        have hrel := inv.rel n hn
        simp only [lastSaved, hne, if_false]
        rw [← hrel]
        cases hf : us.find? (fun u => decide (u.name = n)) with
        | none => simp
        | some u =>
          have hun : u.name = n := by have := find?_some_pred _ _ _ hf; simpa using this
          have : ¬ u.name = (User.init cfg inp.toUser).name := by
            rw [hun, hnu_name]; exact hnn
          simp [this]
  · have hex' : (us.any fun u => u.name = (User.init cfg inp.toUser).name) = false := by simpa using hex
    simp only [hex', Bool.false_eq_true, if_false]
    refine ⟨?_, ?_, ?_⟩
    · intro u hu
      rcases List.mem_append.mp hu with hu | hu
      · exact inv.low u hu
      · simp only [List.mem_singleton] at hu; subst hu
        rw [hnu_name, hnu_low]
    · intro u hu
      rcases List.mem_append.mp hu with hu | hu
      · exact inv.mat u hu
      · simp only [List.mem_singleton] at hu; subst hu
        exact ⟨init_pullM cfg hr _, init_pushM cfg hr _⟩
    · intro n hn
      rw [List.find?_append]
      by_cases hnn : n = lowerStr cfg inp.name
      · subst hnn
        have hnone := find?_none_of_any_false _ _ hex'
        rw [hnu_name] at hnone
        have hrel := inv.rel _ hnu_low
        rw [hnone] at hrel
        rw [hnone]
        simp only [Option.map_none] at hrel
        have hls : lastSaved cfg.pm.lower h (lowerStr cfg inp.name) = none := by
          cases h' : lastSaved cfg.pm.lower h (lowerStr cfg inp.name) with
          | none => rfl
          | some _ => rw [h'] at hrel; simp at hrel
        simp only [lowerStr] at hls hnu_low
        simp only [lastSaved, lowerStr, hnu_low, if_true, hls]
        simp [lowerStr, recOf, Rec.norm, User.init, UserIn.toUser, if_eq_effectiveRight]
      · have hne : ¬ (List.map cfg.pm.lower inp.name = List.map cfg.pm.lower n) := by
          intro e; apply hnn
          have : lowerStr cfg n = n := hn
          simp only [lowerStr] at this ⊢
          rw [← this, e]
        have hrel := inv.rel n hn
        simp only [lastSaved, hne, if_false]
        rw [← hrel]
        have : ¬ (User.init cfg inp.toUser).name = n := by
          rw [hnu_name]; exact fun e => hnn e.symm
        simp [List.find?_cons, this]

theorem uinv_del (h : List AdminOp) (us : List User) (inv : UInv cfg h us) (m : List Char) :
    UInv cfg (.del m :: h) (delUser cfg us m) := by
  unfold delUser
  refine ⟨?_, ?_, ?_⟩
  · intro u hu; exact inv.low u (List.mem_filter.mp hu).1
  · intro u hu; exact inv.mat u (List.mem_filter.mp hu).1
  · intro n hn
    rw [find?_filter_name]
    by_cases hnn : n = lowerStr cfg m
    · subst hnn
      have hl : lowerStr cfg (lowerStr cfg m) = lowerStr cfg m := lowerStr_idem cfg hlow _
      simp only [lowerStr] at hl
      simp [lastSaved, lowerStr, hl]
    · have hne : ¬ (List.map cfg.pm.lower m = List.map cfg.pm.lower n) := by
        intro e; apply hnn
        have : lowerStr cfg n = n := hn
        simp only [lowerStr] at this ⊢
        rw [← this, e]
      have hrel := inv.rel n hn
      simp only [lastSaved, hne, if_false, hnn]
      exact hrel

theorem uinv_usersOf (h : List AdminOp) : UInv cfg h (usersOf cfg h) := by
  induction h with
  | nil => exact uinv_nil cfg
  | cons op h ih =>
    cases op with
    | save u upd => exact uinv_save cfg hlow hr h _ ih u upd
    | del n => exact uinv_del cfg hlow hr h _ ih n

omit hr in
/-- `lastSaved` only looks at the case-folded name -/
theorem lastSaved_lower (h : List AdminOp) (n : List Char) :
    lastSaved cfg.pm.lower h (lowerStr cfg n) = lastSaved cfg.pm.lower h n := by
  have hl : List.map cfg.pm.lower (List.map cfg.pm.lower n) = List.map cfg.pm.lower n := by
    have := lowerStr_idem cfg hlow n; simpa [lowerStr] using this
  induction h with
  | nil => rfl
  | cons op h ih =>
    cases op with
    | del m => simp only [lastSaved, lowerStr, hl]; simp only [lowerStr] at ih; rw [ih]
    | save u upd => simp only [lastSaved, lowerStr, hl]; simp only [lowerStr] at ih; rw [ih]

/-- what a look-up in the model table returns, in terms of the history -/
theorem getUser_usersOf (h : List AdminOp) (n : List Char) :
    (getUser cfg (usersOf cfg h) n).map recOf = (lastSaved cfg.pm.lower h n).map Rec.norm := by
  have inv := uinv_usersOf cfg hlow hr h
  unfold getUser
  rw [← lastSaved_lower cfg hlow h n]
  have := inv.rel (lowerStr cfg n) (lowerStr_idem cfg hlow n)
  simpa using this

end

end IpcHub.Auth
