/-
C06 round trip, H.265 (RFC 7798 single NAL / AP / FU) and AAC (RFC 3640 AAC-hbr).
-/
import IpcHub.Lemmas.DepackRound
namespace IpcHub.DepackRound
open IpcHub.Depack IpcHub.Packetise IpcHub.DepackBytes

theorem writeFrame265_ready (cfg : Cfg) (ok : Bytes → Bool) (st : VSt) (ts : UInt32) (nal : Bytes)
    (hr : st.ready = true) (hne : nal ≠ []) :
    ∃ st', h265WriteFrame cfg ok st ts nal = ⟨st', [frameOf st.base (ts, nal)], .ok⟩ ∧ Keeps st st' ∧ st'.frags = st.frags := by
  cases nal with
  | nil => exact absurd rfl hne
  | cons b bs =>
    simp only [h265WriteFrame, hr, Bool.not_true, Bool.false_and, Bool.and_false, Bool.or_false,
      Bool.false_eq_true, if_false, frameOf]
    exact ⟨_, rfl, ⟨rfl, rfl⟩, rfl⟩

theorem nalOk265_shape {n : Bytes} (h : nalOk265 n = true) :
    ∃ h0 h1 data, n = h0 :: h1 :: data ∧ nalType265 h0 ≤ 47 := by
  match n with
  | [] => simp [nalOk265] at h
  | [_] => simp [nalOk265] at h
  | h0 :: h1 :: data =>
    refine ⟨h0, h1, data, rfl, ?_⟩
    simpa [nalOk265, nalType265] using h

theorem single_step265 (cfg : Cfg) (hc : RoundCfg cfg) (ok : Bytes → Bool) (st : VSt) (s : UInt16) (ts : UInt32) (m : Bool)
    (nal : Bytes) (hr : st.ready = true) (hn : nalOk265 nal = true) :
    ∃ st', h265Step cfg ok st ⟨s, ts, m, nal⟩ = ⟨st', [frameOf st.base (ts, nal)], .ok⟩ ∧ Keeps st st' ∧ st'.frags = st.frags := by
  obtain ⟨h0, h1, data, rfl, ht⟩ := nalOk265_shape hn
  have hlen : ¬ (h0 :: h1 :: data).length < cfg.h265Min := by
    have := hc.h265Min; simp only [List.length_cons]; omega
  have h48 : ¬ nalType265 h0 = 48 := by
    intro h; rw [h] at ht; exact absurd ht (by decide)
  have h49 : ¬ nalType265 h0 = 49 := by
    intro h; rw [h] at ht; exact absurd ht (by decide)
  simp only [h265Step, hlen, if_false, h48, h49]
  exact writeFrame265_ready cfg ok st ts _ hr (by simp)

theorem apLoop_agg (cfg : Cfg) (ok : Bytes → Bool) (ts : UInt32) :
    ∀ (ns : List Bytes) (fuel : Nat) (st : VSt) (acc : List Frame),
      ns ≠ [] → (∀ n ∈ ns, nalOk265 n = true ∧ n.length < 65536) →
      ns.length ≤ fuel → st.ready = true →
      ∃ st', apLoop cfg ok ts fuel st (aggBody ns) acc
          = ⟨st', acc ++ ns.map (fun n => frameOf st.base (ts, n)), .ok⟩ ∧ Keeps st st' ∧ st'.frags = st.frags := by
  intro ns
  induction ns with
  | nil => intro _ _ _ h; exact absurd rfl h
  | cons n ns ih =>
    intro fuel st acc _ hall hfuel hr
    obtain ⟨hok, hlen⟩ := hall n (List.mem_cons_self ..)
    obtain ⟨h0, h1, data, hshape, _⟩ := nalOk265_shape hok
    have hne : n ≠ [] := by rw [hshape]; simp
    have hn1 : 1 ≤ n.length := by rw [hshape]; simp
    cases fuel with
    | zero => simp at hfuel
    | succ fuel =>
      obtain ⟨st1, hw, hk1, hf1⟩ := writeFrame265_ready cfg ok st ts n hr hne
      rw [aggBody_cons]
      simp only [apLoop, be16_hi_lo n.length hlen]
      have hx1 : ¬ n.length < 1 := by omega
      have hx2 : ¬ (n ++ aggBody ns).length < n.length := by simp
      simp only [hx1, if_false, hx2, decide_false, Bool.and_false, Bool.false_eq_true]
      have htake : (n ++ aggBody ns).take n.length ++ List.replicate (n.length - (n ++ aggBody ns).length) (0 : UInt8) = n := by
        simp
      rw [htake, hw]
      simp only
      by_cases hnil : ns = []
      · subst hnil
        simp only [aggBody, List.flatMap_nil, List.append_nil, Nat.le_refl, if_true, List.map_cons, List.map_nil]
        exact ⟨st1, rfl, hk1, hf1⟩
      · have hnot : ¬ (n ++ aggBody ns).length ≤ n.length := by
          intro hle
          have : (aggBody ns).length = 0 := by simp at hle; omega
          exact hnil (aggBody_eq_nil (List.eq_nil_of_length_eq_zero this))
        simp only [hnot, if_false]
        have hdrop : (n ++ aggBody ns).drop n.length = aggBody ns := by simp
        rw [hdrop]
        obtain ⟨st2, hrun, hk2, hf2⟩ := ih fuel st1 (acc ++ [frameOf st.base (ts, n)]) hnil
          (fun x hx => hall x (List.mem_cons_of_mem _ hx)) (by simp at hfuel; omega) hk1.ready
        refine ⟨st2, ?_, hk1.trans hk2, hf2.trans hf1⟩
        rw [hrun, hk1.base]
        simp

theorem ap_step (cfg : Cfg) (hc : RoundCfg cfg) (ok : Bytes → Bool) (st : VSt) (s : UInt16) (ts : UInt32) (m : Bool)
    (ns : List Bytes) (hr : st.ready = true) (hne : ns ≠ [])
    (hall : ∀ n ∈ ns, nalOk265 n = true ∧ n.length < 65536) :
    ∃ st', h265Step cfg ok st ⟨s, ts, m, (apHdr ns).1 :: (apHdr ns).2 :: aggBody ns⟩
        = ⟨st', ns.map (fun n => frameOf st.base (ts, n)), .ok⟩ ∧ Keeps st st' ∧ st'.frags = st.frags := by
  have hlen : ¬ ((apHdr ns).1 :: (apHdr ns).2 :: aggBody ns).length < cfg.h265Min := by
    have := hc.h265Min; simp only [List.length_cons]; omega
  have ht : nalType265 (apHdr ns).1 = 48 := by
    simp only [apHdr]; exact ap_type _
  simp only [h265Step, hlen, if_false, ht, if_true, h265Ap]
  obtain ⟨st', hrun, hk, hf⟩ := apLoop_agg cfg ok ts ns ((aggBody ns).length + 1) st [] hne hall
    (by have := length_le_aggBody ns; omega) hr
  exact ⟨st', by simpa using hrun, hk, hf⟩

theorem fuPayloads_ne (h0 h1 : UInt8) (f : Bool) (d : Bytes) (ds : List Bytes) : fuPayloads h0 h1 f (d :: ds) ≠ [] := by
  cases ds <;> simp [fuPayloads]

theorem fuJoin_append (a : List Pkt) (p : Pkt) : fuJoin (a ++ [p]) = fuJoin a ++ p.payload.drop 3 := by
  simp [fuJoin]

theorem fu_rest (cfg : Cfg) (hc : RoundCfg cfg) (ok : Bytes → Bool) (h0 h1 : UInt8) (ts : UInt32) (m : Bool) :
    ∀ (ds : List Bytes) (s : UInt16) (st : VSt) (l : Pkt),
      ds ≠ [] → st.ready = true → st.frags.getLast? = some l → l.seq = s - 1 →
      ∃ st', vRun cfg ok .h265 st (mkPkts ts m s (fuPayloads h0 h1 false ds))
          = (st', [frameOf st.base (ts, h0 :: h1 :: (fuJoin st.frags ++ ds.flatten))], .ok) ∧ Keeps st st' ∧ st'.frags = [] := by
  intro ds
  induction ds with
  | nil => intro _ _ _ h; exact absurd rfl h
  | cons d ds ih =>
    intro s st l _ hr hlast hseq
    have h49a : ¬ ((49 : UInt8) = 48) := by decide
    cases ds with
    | nil =>
      simp only [fuPayloads, mkPkts]
      have hstep : vStep cfg ok .h265 st ⟨s, ts, m, ((h0 &&& 0x81) ||| 98) :: h1 :: (fuFlags false true ||| ((h0 >>> (1 : UInt8)) &&& 0x3f)) :: d⟩
          = h265WriteFrame cfg ok { st with frags := [] } ts (h0 :: h1 :: (fuJoin st.frags ++ d)) := by
        have hlen1 : ¬ (((h0 &&& 0x81) ||| 98) :: h1 :: (fuFlags false true ||| ((h0 >>> (1 : UInt8)) &&& 0x3f)) :: d).length < cfg.h265Min := by
          have := hc.h265Min; simp only [List.length_cons]; omega
        have hlen2 : ¬ (((h0 &&& 0x81) ||| 98) :: h1 :: (fuFlags false true ||| ((h0 >>> (1 : UInt8)) &&& 0x3f)) :: d).length < cfg.fuMin := by
          have := hc.fuMin; simp only [List.length_cons]; omega
        have hs : ¬ (((fuFlags false true ||| ((h0 >>> (1 : UInt8)) &&& 0x3f)) >>> (7 : UInt8)) &&& 1 = 1) := by
          rw [fu_start_bit]; simp
        have he : (((fuFlags false true ||| ((h0 >>> (1 : UInt8)) &&& 0x3f)) >>> (6 : UInt8)) &&& 1 = 1) := by
          rw [fu_end_bit]
        simp only [vStep, h265Step, hlen1, if_false, fu_ind_type, h49a, if_true, h265Fu, hlen2, hs, hlast, hseq,
          bne_self_eq_false, Bool.false_eq_true, he, fuJoin_append, fu_rebuild h0 false true, List.drop_succ_cons, List.drop_zero]
      obtain ⟨st', hw, hk, hf⟩ := writeFrame265_ready cfg ok { st with frags := [] } ts (h0 :: h1 :: (fuJoin st.frags ++ d)) hr (by simp)
      refine ⟨st', ?_, ⟨hk.ready, hk.base⟩, hf⟩
      simp [vRun, hstep, hw, frameOf]
    | cons d' ds' =>
      rw [show fuPayloads h0 h1 false (d :: d' :: ds') = (((h0 &&& 0x81) ||| 98) :: h1 :: (fuFlags false false ||| ((h0 >>> (1 : UInt8)) &&& 0x3f)) :: d)
            :: fuPayloads h0 h1 false (d' :: ds') from rfl, mkPkts_cons_ne _ _ _ _ _ (fuPayloads_ne h0 h1 false d' ds')]
      let p : Pkt := ⟨s, ts, false, ((h0 &&& 0x81) ||| 98) :: h1 :: (fuFlags false false ||| ((h0 >>> (1 : UInt8)) &&& 0x3f)) :: d⟩
      have hstep : vStep cfg ok .h265 st p = ⟨{ st with frags := st.frags ++ [p] }, [], .ok⟩ := by
        have hlen1 : ¬ (((h0 &&& 0x81) ||| 98) :: h1 :: (fuFlags false false ||| ((h0 >>> (1 : UInt8)) &&& 0x3f)) :: d).length < cfg.h265Min := by
          have := hc.h265Min; simp only [List.length_cons]; omega
        have hlen2 : ¬ (((h0 &&& 0x81) ||| 98) :: h1 :: (fuFlags false false ||| ((h0 >>> (1 : UInt8)) &&& 0x3f)) :: d).length < cfg.fuMin := by
          have := hc.fuMin; simp only [List.length_cons]; omega
        have hs : ¬ (((fuFlags false false ||| ((h0 >>> (1 : UInt8)) &&& 0x3f)) >>> (7 : UInt8)) &&& 1 = 1) := by
          rw [fu_start_bit]; simp
        have he : ¬ (((fuFlags false false ||| ((h0 >>> (1 : UInt8)) &&& 0x3f)) >>> (6 : UInt8)) &&& 1 = 1) := by
          rw [fu_end_bit]; simp
        simp only [p, vStep, h265Step, hlen1, if_false, fu_ind_type, h49a, if_true, h265Fu, hlen2, hs, hlast, hseq,
          bne_self_eq_false, Bool.false_eq_true, he]
      obtain ⟨st', hrun, hk, hf⟩ := ih (s + 1) { st with frags := st.frags ++ [p] } p (by simp) hr (by simp) (by simp [p])
      refine ⟨st', ?_, ⟨hk.ready, hk.base⟩, hf⟩
      rw [vRun_cons cfg ok .h265 st p _ _ _ hstep, hrun]
      simp [fuJoin_append, p, frameOf]

theorem frag_item265 (cfg : Cfg) (hc : RoundCfg cfg) (ok : Bytes → Bool) (st : VSt) (s : UInt16) (ts : UInt32) (m : Bool)
    (nal : Bytes) (cuts : List Nat) (hr : st.ready = true) (hl : legal265 (.frag ts m nal cuts) = true) :
    ∃ st', vRun cfg ok .h265 st (mkPkts ts m s (payloads265 (.frag ts m nal cuts)))
        = (st', [frameOf st.base (ts, nal)], .ok) ∧ Keeps st st' := by
  simp only [legal265, Bool.and_eq_true] at hl
  obtain ⟨hok, hcut⟩ := hl
  obtain ⟨h0, h1, data, rfl, _⟩ := nalOk265_shape hok
  simp only [cutsOk, Bool.and_eq_true, Bool.not_eq_true', List.all_eq_true, decide_eq_true_eq,
    List.length_cons, Nat.add_sub_cancel] at hcut
  obtain ⟨⟨hcne, hcpos⟩, hsum⟩ := hcut
  cases cuts with
  | nil => simp at hcne
  | cons c cs =>
    have hflat := chunks_flatten (c :: cs) data
    simp only [payloads265]
    simp only [chunks] at hflat ⊢
    obtain ⟨d1, ds, hds⟩ : ∃ d1 ds, chunks cs (List.drop c data) = d1 :: ds := by
      cases hch : chunks cs (List.drop c data) with
      | nil => exact absurd hch (chunks_ne_nil _ _)
      | cons d1 ds => exact ⟨d1, ds, rfl⟩
    rw [hds] at hflat ⊢
    rw [show fuPayloads h0 h1 true (List.take c data :: d1 :: ds)
          = (((h0 &&& 0x81) ||| 98) :: h1 :: (fuFlags true false ||| ((h0 >>> (1 : UInt8)) &&& 0x3f)) :: List.take c data)
            :: fuPayloads h0 h1 false (d1 :: ds) from rfl, mkPkts_cons_ne _ _ _ _ _ (fuPayloads_ne h0 h1 false d1 ds)]
    let p : Pkt := ⟨s, ts, false, ((h0 &&& 0x81) ||| 98) :: h1 :: (fuFlags true false ||| ((h0 >>> (1 : UInt8)) &&& 0x3f)) :: List.take c data⟩
    have hstep : vStep cfg ok .h265 st p = ⟨{ st with frags := [p] }, [], .ok⟩ := by
      have hlen1 : ¬ (((h0 &&& 0x81) ||| 98) :: h1 :: (fuFlags true false ||| ((h0 >>> (1 : UInt8)) &&& 0x3f)) :: List.take c data).length < cfg.h265Min := by
        have := hc.h265Min; simp only [List.length_cons]; omega
      have hlen2 : ¬ (((h0 &&& 0x81) ||| 98) :: h1 :: (fuFlags true false ||| ((h0 >>> (1 : UInt8)) &&& 0x3f)) :: List.take c data).length < cfg.fuMin := by
        have := hc.fuMin; simp only [List.length_cons]; omega
      have hs : (((fuFlags true false ||| ((h0 >>> (1 : UInt8)) &&& 0x3f)) >>> (7 : UInt8)) &&& 1 = 1) := by
        rw [fu_start_bit]
      have h49a : ¬ ((49 : UInt8) = 48) := by decide
      simp only [p, vStep, h265Step, hlen1, if_false, fu_ind_type, h49a, if_true, h265Fu, hlen2, hs]
    obtain ⟨st', hrun, hk, _⟩ := fu_rest cfg hc ok h0 h1 ts m (d1 :: ds) (s + 1) { st with frags := [p] } p (by simp)
      hr (by simp) (by simp [p])
    refine ⟨st', ?_, ⟨hk.ready, hk.base⟩⟩
    rw [vRun_cons cfg ok .h265 st p _ _ _ hstep, hrun]
    have hdata : fuJoin [p] ++ (d1 ++ ds.flatten) = data := by
      have : fuJoin [p] = List.take c data := by simp [fuJoin, p]
      rw [this]; simpa using hflat
    simp [frameOf, hdata]

theorem item265 (cfg : Cfg) (hc : RoundCfg cfg) (ok : Bytes → Bool) (st : VSt) (s : UInt16) (it : Item)
    (hr : st.ready = true) (hl : legal265 it = true) :
    ∃ st', vRun cfg ok .h265 st (mkPkts it.ts it.marker s (payloads265 it))
        = (st', it.units.map (frameOf st.base), .ok) ∧ Keeps st st' := by
  cases it with
  | single ts m nal =>
    simp only [legal265] at hl
    obtain ⟨st', hs, hk, _⟩ := single_step265 cfg hc ok st s ts m nal hr hl
    refine ⟨st', ?_, hk⟩
    simp only [payloads265, mkPkts, Item.ts, Item.marker, Item.units, Item.nals, List.map_cons, List.map_nil]
    rw [vRun_cons cfg ok .h265 st _ [] st' _ (by simpa [vStep] using hs)]
    simp [vRun_nil]
  | agg ts m ns =>
    simp only [legal265, Bool.and_eq_true, Bool.not_eq_true', List.all_eq_true, decide_eq_true_eq] at hl
    obtain ⟨hne, hall⟩ := hl
    have hne' : ns ≠ [] := by
      intro h0; rw [h0] at hne; simp at hne
    obtain ⟨st', hs, hk, _⟩ := ap_step cfg hc ok st s ts m ns hr hne' hall
    refine ⟨st', ?_, hk⟩
    simp only [payloads265, mkPkts, Item.ts, Item.marker, Item.units, Item.nals]
    rw [vRun_cons cfg ok .h265 st _ [] st' _ (by simpa [vStep] using hs)]
    simp [vRun_nil, frameOf, Function.comp_def]
  | frag ts m nal cuts =>
    obtain ⟨st', hs, hk⟩ := frag_item265 cfg hc ok st s ts m nal cuts hr hl
    exact ⟨st', by simpa [Item.ts, Item.marker, Item.units, Item.nals] using hs, hk⟩

/-- C06 round trip (H.265), from ANY state whose metadata is ready -/
theorem h265_roundtrip (cfg : Cfg) (hc : RoundCfg cfg) (ok : Bytes → Bool) :
    ∀ (items : List Item) (st : VSt) (s : UInt16), st.ready = true →
      (∀ it ∈ items, legal265 it = true) →
      ∃ st', vRun cfg ok .h265 st (packets265 s items) = (st', (units items).map (frameOf st.base), .ok) ∧ Keeps st st' := by
  intro items
  induction items with
  | nil => intro st s hr _; exact ⟨st, rfl, Keeps.refl hr⟩
  | cons it its ih =>
    intro st s hr hall
    obtain ⟨st1, h1, k1⟩ := item265 cfg hc ok st s it hr (hall it (List.mem_cons_self ..))
    obtain ⟨st2, h2, k2⟩ := ih st1 (s + UInt16.ofNat (payloads265 it).length) k1.ready
      (fun x hx => hall x (List.mem_cons_of_mem _ hx))
    refine ⟨st2, ?_, k1.trans k2⟩
    simp only [packets265, packetsWith] at h2 ⊢
    rw [vRun_append cfg ok .h265 _ _ st st1 _ h1, h2, k1.base]
    simp [units, List.flatMap_cons]

end IpcHub.DepackRound

namespace IpcHub.DepackRound
open IpcHub.Depack IpcHub.Packetise IpcHub.DepackBytes

/-! ### AAC -/

def auHeaders (aus : List Bytes) : Bytes := aus.flatMap (fun a => [hi8 (a.length * 8), lo8 (a.length * 8)])

theorem auHeaders_length (aus : List Bytes) : (auHeaders aus).length = 2 * aus.length := by
  induction aus with
  | nil => rfl
  | cons a as ih => simp [auHeaders, List.flatMap_cons] at ih ⊢; omega

def aacFrame (base : UInt32) (u : UInt32 × Bytes) : Frame := ⟨true, u.1, base, u.2⟩

theorem aacLoop_round (cfg : Cfg) (hi : cfg.aacIndexLength = 3) (base : UInt32) :
    ∀ (aus : List Bytes) (ts : UInt32) (acc : List Frame), (∀ a ∈ aus, a.length < 8192) →
      aacLoop cfg base aus.length (auHeaders aus) aus.flatten ts acc
        = (acc ++ (aacUnits cfg.samplesPerFrame ts aus).map (aacFrame base), .ok) := by
  intro aus
  induction aus with
  | nil => intro ts acc _; simp [aacLoop, aacUnits]
  | cons a as ih =>
    intro ts acc hall
    have ha := hall a (List.mem_cons_self ..)
    have hsz : be16 (hi8 (a.length * 8)) (lo8 (a.length * 8)) >>> cfg.aacIndexLength = a.length := by
      rw [be16_hi_lo _ (by omega), hi, Nat.shiftRight_eq_div_pow]
      omega
    simp only [auHeaders, List.flatMap_cons, List.length_cons, List.flatten_cons, List.cons_append, List.nil_append,
      aacLoop, hsz]
    have h1 : ¬ (a ++ as.flatten).length < a.length := by simp
    simp only [h1, if_false]
    have ht : (a ++ as.flatten).take a.length = a := by simp
    have hd : (a ++ as.flatten).drop a.length = as.flatten := by simp
    rw [ht, hd]
    have := ih (ts + UInt32.ofNat cfg.samplesPerFrame) (acc ++ [⟨true, ts, base, a⟩])
      (fun x hx => hall x (List.mem_cons_of_mem _ hx))
    simp only [auHeaders] at this
    rw [this]
    simp [aacUnits, aacFrame]

/-- C06 round trip (AAC-hbr): one packet with one or several AUs -/
theorem aac_roundtrip (cfg : Cfg) (hi : cfg.aacIndexLength = 3) (base : UInt32) (s : UInt16) (ts : UInt32) (m : Bool)
    (aus : List Bytes) (hl : legalAac aus = true) :
    aacStep cfg base ⟨s, ts, m, aacPayload aus⟩ = ((aacUnits cfg.samplesPerFrame ts aus).map (aacFrame base), .ok) := by
  simp only [legalAac, Bool.and_eq_true, Bool.not_eq_true', List.all_eq_true, decide_eq_true_eq] at hl
  obtain ⟨⟨_, hk⟩, hall⟩ := hl
  have hcount : be16 (hi8 (16 * aus.length)) (lo8 (16 * aus.length)) >>> 4 = aus.length := by
    rw [be16_hi_lo _ (by omega), Nat.shiftRight_eq_div_pow]
    omega
  simp only [aacStep, aacPayload, hcount]
  have hlen := auHeaders_length aus
  have h1 : ¬ (auHeaders aus ++ aus.flatten).length < 2 * aus.length := by
    simp only [List.length_append]; omega
  have ht : (auHeaders aus ++ aus.flatten).take (2 * aus.length) = auHeaders aus := by
    rw [← hlen]; simp
  have hd : (auHeaders aus ++ aus.flatten).drop (2 * aus.length) = aus.flatten := by
    rw [← hlen]; simp
  simp only [auHeaders] at h1 ht hd
  simp only [h1, if_false, ht, hd]
  have := aacLoop_round cfg hi base aus ts [] hall
  simpa [auHeaders] using this

end IpcHub.DepackRound

namespace IpcHub.DepackRound
open IpcHub.Depack IpcHub.Packetise

/-! ### any packet whatsoever keeps a ready depacketizer ready (and never touches the clock base) -/

theorem h264WriteFrame_keeps (cfg : Cfg) (ok : Bytes → Bool) (st : VSt) (ts : UInt32) (p : Bytes) (hr : st.ready = true) :
    Keeps st (h264WriteFrame cfg ok st ts p).st := by
  cases p with
  | nil => exact ⟨hr, rfl⟩
  | cons b bs =>
    simp only [h264WriteFrame]
    (repeat' split) <;> first | exact ⟨hr, rfl⟩ | exact ⟨rfl, rfl⟩

theorem h265WriteFrame_keeps (cfg : Cfg) (ok : Bytes → Bool) (st : VSt) (ts : UInt32) (p : Bytes) (hr : st.ready = true) :
    Keeps st (h265WriteFrame cfg ok st ts p).st := by
  cases p with
  | nil => exact ⟨hr, rfl⟩
  | cons b bs =>
    simp only [h265WriteFrame]
    (repeat' split) <;> first | exact ⟨hr, rfl⟩ | exact ⟨rfl, rfl⟩

theorem stapaLoop_keeps (cfg : Cfg) (ok : Bytes → Bool) (hdr : UInt8) (ts : UInt32) :
    ∀ (fuel : Nat) (st : VSt) (rest : Bytes) (acc : List Frame), st.ready = true →
      Keeps st (stapaLoop cfg ok hdr ts fuel st rest acc).st := by
  intro fuel
  induction fuel with
  | zero => intro st rest acc hr; exact ⟨hr, rfl⟩
  | succ fuel ih =>
    intro st rest acc hr
    match rest with
    | [] => simp only [stapaLoop]; split <;> exact ⟨hr, rfl⟩
    | [_] => simp only [stapaLoop]; split <;> exact ⟨hr, rfl⟩
    | hi :: lo :: tl =>
      simp only [stapaLoop]
      split
      · exact ⟨hr, rfl⟩
      · split
        · exact ⟨hr, rfl⟩
        · have hw := h264WriteFrame_keeps cfg ok st ts
            (if cfg.stapaRewritesNri = true then rewriteNri hdr (tl.take (be16 hi lo) ++ List.replicate (be16 hi lo - tl.length) 0)
              else tl.take (be16 hi lo) ++ List.replicate (be16 hi lo - tl.length) 0) hr
          split
          · split
            · exact hw
            · exact hw.trans (ih _ _ _ hw.ready)
          · exact hw

theorem apLoop_keeps (cfg : Cfg) (ok : Bytes → Bool) (ts : UInt32) :
    ∀ (fuel : Nat) (st : VSt) (rest : Bytes) (acc : List Frame), st.ready = true →
      Keeps st (apLoop cfg ok ts fuel st rest acc).st := by
  intro fuel
  induction fuel with
  | zero => intro st rest acc hr; exact ⟨hr, rfl⟩
  | succ fuel ih =>
    intro st rest acc hr
    match rest with
    | [] => simp only [apLoop]; split <;> exact ⟨hr, rfl⟩
    | [_] => simp only [apLoop]; split <;> exact ⟨hr, rfl⟩
    | hi :: lo :: tl =>
      simp only [apLoop]
      split
      · exact ⟨hr, rfl⟩
      · split
        · exact ⟨hr, rfl⟩
        · have hw := h265WriteFrame_keeps cfg ok st ts (tl.take (be16 hi lo) ++ List.replicate (be16 hi lo - tl.length) 0) hr
          split
          · split
            · exact hw
            · exact hw.trans (ih _ _ _ hw.ready)
          · exact hw

/-- C07: whatever bytes a video packet carries, a ready depacketizer stays ready with the same
    clock base — so the round trip holds again for everything after it -/
theorem vStep_keeps (cfg : Cfg) (ok : Bytes → Bool) (c : VCodec) (st : VSt) (p : Pkt) (hr : st.ready = true) :
    Keeps st (vStep cfg ok c st p).st := by
  cases c with
  | h264 =>
    simp only [vStep, h264Step]
    split
    · exact ⟨hr, rfl⟩
    · match hp : p.payload with
      | [] => exact ⟨hr, rfl⟩
      | b0 :: rest =>
        simp only
        split
        · exact h264WriteFrame_keeps cfg ok st p.ts _ hr
        · split
          · simp only [h264Stapa, hp]; exact stapaLoop_keeps cfg ok b0 p.ts _ _ _ _ hr
          · split
            · simp only [h264FuA]
              (repeat' split) <;> first | exact ⟨hr, rfl⟩ | exact Keeps.trans (b := { st with frags := [] }) ⟨hr, rfl⟩ (h264WriteFrame_keeps cfg ok _ p.ts _ hr)
            · exact ⟨hr, rfl⟩
  | h265 =>
    simp only [vStep, h265Step]
    split
    · exact ⟨hr, rfl⟩
    · match hp : p.payload with
      | [] => exact ⟨hr, rfl⟩
      | b0 :: rest =>
        simp only
        split
        · cases rest with
          | nil => simp only [h265Ap, hp]; split <;> exact ⟨hr, rfl⟩
          | cons b1 rest' => simp only [h265Ap, hp]; exact apLoop_keeps cfg ok p.ts _ _ _ _ hr
        · split
          · simp only [h265Fu]
            (repeat' split) <;> first | exact ⟨hr, rfl⟩ | exact Keeps.trans (b := { st with frags := [] }) ⟨hr, rfl⟩ (h265WriteFrame_keeps cfg ok _ p.ts _ hr)
          · exact h265WriteFrame_keeps cfg ok st p.ts _ hr

theorem vRun_keeps (cfg : Cfg) (ok : Bytes → Bool) (c : VCodec) :
    ∀ (ps : List Pkt) (st : VSt), st.ready = true → Keeps st (vRun cfg ok c st ps).1 := by
  intro ps
  induction ps with
  | nil => intro st hr; exact Keeps.refl hr
  | cons p ps ih =>
    intro st hr
    have hk := vStep_keeps cfg ok c st p hr
    simp only [vRun]
    split
    · exact hk
    · exact hk.trans (ih _ hk.ready)

end IpcHub.DepackRound

namespace IpcHub.DepackRound
open IpcHub.Depack IpcHub.Packetise

/-- C07: with `psUntilReady264`, whatever parameter sets an H.264 depacketizer has stored (garbage
    from a damaged packet or a hostile SDP), the sender's next SPS + PPS — the SPS accepted by the
    decoder — make it ready. -/
theorem ps_recover264 (cfg : Cfg) (hc : RoundCfg cfg) (hp : cfg.psUntilReady264 = true) (ok : Bytes → Bool) (st : VSt)
    (s1 s2 : UInt16) (t1 t2 : UInt32) (m1 m2 : Bool) (b c : UInt8) (bs cs : Bytes)
    (hb : b &&& 0x1f = 7) (hcc : c &&& 0x1f = 8) (hok : ok (b :: bs) = true) :
    (vRun cfg ok .h264 st [⟨s1, t1, m1, b :: bs⟩, ⟨s2, t2, m2, c :: cs⟩]).1.ready = true := by
  by_cases hr : st.ready = true
  · exact (vRun_keeps cfg ok .h264 _ st hr).ready
  · have hr' : st.ready = false := by simpa using hr
    have hl1 : ¬ (b :: bs).length < cfg.h264Min := by have := hc.h264Min; simp only [List.length_cons]; omega
    have hl2 : ¬ (c :: cs).length < cfg.h264Min := by have := hc.h264Min; simp only [List.length_cons]; omega
    have h7 : (7 : UInt8) < 24 := by decide
    have h8 : (8 : UInt8) < 24 := by decide
    have h712 : ¬ ((7 : UInt8) = 12) := by decide
    have h812 : ¬ ((8 : UInt8) = 12) := by decide
    have h87 : ¬ ((8 : UInt8) = 7) := by decide
    simp only [vRun, vStep, h264Step, hl1, hl2, if_false, hb, hcc, h7, h8, if_true, h264WriteFrame, h712, h812, h87,
      hp, hr', Bool.not_false, Bool.and_true, Bool.or_true, Bool.true_and]
    cases hw : st.vmeta.widthKnown <;> cases hpe : st.vmeta.pps.isEmpty <;> cases hse : st.vmeta.sps.isEmpty <;>
      simp [h264MetaReady, hw, hpe, hse, hok, hr', hp]

/-- the two parameter-set packets from the fresh state -/
theorem startup264 (cfg : Cfg) (hc : RoundCfg cfg) (ok : Bytes → Bool)
    (s1 s2 : UInt16) (t1 t2 : UInt32) (m1 m2 : Bool) (b c : UInt8) (bs cs : Bytes)
    (hb : b &&& 0x1f = 7) (hcc : c &&& 0x1f = 8) (hok : ok (b :: bs) = true) :
    vRun cfg ok .h264 {} [⟨s1, t1, m1, b :: bs⟩, ⟨s2, t2, m2, c :: cs⟩]
      = ({ vmeta := { sps := b :: bs, pps := c :: cs }, ready := true }, [⟨false, t2, 0, c :: cs⟩], .ok) := by
  have hl1 : ¬ (bs.length + 1 < cfg.h264Min) := by have := hc.h264Min; omega
  have hl2 : ¬ (cs.length + 1 < cfg.h264Min) := by have := hc.h264Min; omega
  have h7 : (7 : UInt8) < 24 := by decide
  have h8 : (8 : UInt8) < 24 := by decide
  have h712 : ¬ ((7 : UInt8) = 12) := by decide
  have h812 : ¬ ((8 : UInt8) = 12) := by decide
  have h87 : ¬ ((8 : UInt8) = 7) := by decide
  simp [vRun, vStep, h264Step, hl1, hl2, hb, hcc, h7, h8, h264WriteFrame, h712, h812, h87, h264MetaReady, hok]

end IpcHub.DepackRound
