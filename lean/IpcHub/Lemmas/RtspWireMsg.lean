/- Helper lemmas for C14: whole messages — request / response round trips -/
import IpcHub.Lemmas.RtspWireHeader
namespace IpcHub.RtspWire
open IpcHub.RtspSpec (fieldNameOK fieldValueOK tokenChar uriOK decimal)

local notation "Bytes" => List UInt8

/-! ### the header as written -/

theorem insertSorted_perm (kv : Bytes × List Bytes) (l : Header) : (insertSorted kv l).Perm (kv :: l) := by
  induction l with
  | nil => simp [insertSorted]
  | cons x xs ih =>
    simp only [insertSorted]
    split
    · exact List.Perm.refl _
    · exact (List.Perm.cons x ih).trans (List.Perm.swap kv x xs)

theorem sortHeader_perm (h : Header) : (sortHeader h).Perm h := by
  induction h with
  | nil => simp [sortHeader]
  | cons x xs ih =>
    have : sortHeader (x :: xs) = insertSorted x (sortHeader xs) := by simp [sortHeader]
    rw [this]
    exact (insertSorted_perm x _).trans (List.Perm.cons x ih)

/-- the field list `Header.Write` puts on the wire for a message with this body -/
def writtenFields (h : Header) (body : Bytes) : List (Bytes × Bytes) :=
  (sortHeader (setContentLength h body)).map (fun kv => (kv.1, joinValues kv.2))

theorem writeHeader_eq (h : Header) (body : Bytes) :
    writeHeader (setContentLength h body) = IpcHub.RtspSpec.encodeFields (writtenFields h body) := by
  simp [writeHeader, IpcHub.RtspSpec.encodeFields, writtenFields, List.map_map, crlf, IpcHub.RtspSpec.crlf, Function.comp_def]

theorem setContentLength_mem (h : Header) (body : Bytes) (hb : body ≠ []) :
    (fieldContentLength, [itoa body.length]) ∈ setContentLength h body := by
  unfold setContentLength
  have : body.length > 0 := by cases body with
    | nil => exact absurd rfl hb
    | cons x t => simp
  simp only [this, if_true]
  split
  · rename_i hany
    simp only [List.any_eq_true, decide_eq_true_eq] at hany
    obtain ⟨kv, hkv, hk⟩ := hany
    simp only [List.mem_map]
    exact ⟨kv, hkv, by simp [hk]⟩
  · simp

theorem writtenFields_length_field (h : Header) (body : Bytes) (hb : body ≠ []) :
    (fieldContentLength, decimal body.length) ∈ writtenFields h body := by
  unfold writtenFields
  have h1 := setContentLength_mem h body hb
  have h2 := (sortHeader_perm (setContentLength h body)).mem_iff.mpr h1
  simp only [List.mem_map]
  exact ⟨_, h2, by simp [joinValues, itoa_eq_decimal]⟩

/-! ### Header.get on the header that was read -/

theorem Header.find_of_mem (fs : List (Bytes × Bytes)) (g : Bytes → Bytes) (k v : Bytes)
    (hd : (fs.map (fun f => g f.1)).Nodup) (hm : (k, v) ∈ fs) :
    (fs.map (fun f => (g f.1, [f.2]))).find? (fun kv => decide (kv.1 = g k)) = some (g k, [v]) := by
  induction fs with
  | nil => simp at hm
  | cons f t ih =>
    simp only [List.map_cons, List.nodup_cons] at hd
    simp only [List.mem_cons] at hm
    rcases hm with hm | hm
    · subst hm; simp
    · have hne : g f.1 ≠ g k := by
        intro e
        exact hd.1 (by rw [e]; exact List.mem_map.mpr ⟨(k, v), hm, rfl⟩)
      rw [List.map_cons, List.find?_cons]
      simp only [hne, decide_false]
      exact ih hd.2 hm

theorem Header.get_of_mem (fs : List (Bytes × Bytes)) (g : Bytes → Bytes) (k v : Bytes)
    (hd : (fs.map (fun f => g f.1)).Nodup) (hm : (k, v) ∈ fs) :
    Header.get (fs.map (fun f => (g f.1, [f.2]))) (g k) = v := by
  unfold Header.get
  rw [Header.find_of_mem fs g k v hd hm]

theorem Header.get_absent (l : Header) (k : Bytes) (h : ∀ kv ∈ l, kv.1 ≠ k) : Header.get l k = [] := by
  unfold Header.get
  have : l.find? (fun kv => decide (kv.1 = k)) = none := by
    rw [List.find?_eq_none]; intro x hx; simpa using h x hx
  simp [this]

theorem contentLength_written (cfg : Cfg) (mb : Nat) (hmb : cfg.maxBody = some mb) (hmb63 : mb < 2 ^ 63)
    (h : Header) (body : Bytes) (hlen : body.length ≤ mb)
    (hd : ((writtenFields h body).map (fun f => canonKey cfg f.1)).Nodup)
    (hcl : canonKey cfg fieldContentLength = fieldContentLength)
    (hstray : body = [] → ∀ f ∈ writtenFields h body, canonKey cfg f.1 ≠ fieldContentLength) :
    contentLength cfg ((writtenFields h body).map (fun f => (canonKey cfg f.1, [f.2]))) = .ok body.length := by
  rw [contentLength, hmb]
  simp only
  by_cases hb : body = []
  · subst hb
    have : Header.get ((writtenFields h []).map (fun f => (canonKey cfg f.1, [f.2]))) fieldContentLength = [] := by
      apply Header.get_absent
      intro kv hkv
      simp only [List.mem_map] at hkv
      obtain ⟨f, hf, rfl⟩ := hkv
      exact hstray rfl f hf
    simp [this, parseInt]
  · have hm := writtenFields_length_field h body hb
    have hg := Header.get_of_mem (writtenFields h body) (canonKey cfg) fieldContentLength (decimal body.length) hd hm
    rw [hcl] at hg
    have hp := parseInt_decimal body.length 64 (by simp; omega) (by omega)
    rw [hg, hp]
    have h1 : ¬ ((body.length : Int) > mb) := by omega
    have h2 : ¬ ((body.length : Int) < 0) := by omega
    simp only [h1, h2, if_false, Int.toNat_natCast]

/-- the body of a written message is read back exactly (new code path: limit `mb`) -/
theorem readBody_written (cfg : Cfg) (mb : Nat) (hmb : cfg.maxBody = some mb) (hmb63 : mb < 2 ^ 63)
    (h : Header) (body rest : Bytes) (hlen : body.length ≤ mb)
    (hd : ((writtenFields h body).map (fun f => canonKey cfg f.1)).Nodup)
    (hcl : canonKey cfg fieldContentLength = fieldContentLength)
    (hstray : body = [] → ∀ f ∈ writtenFields h body, canonKey cfg f.1 ≠ fieldContentLength) :
    readBody cfg ((writtenFields h body).map (fun f => (canonKey cfg f.1, [f.2]))) (body ++ rest) = .ok (body, rest) := by
  rw [readBody, contentLength_written cfg mb hmb hmb63 h body hlen hd hcl hstray]
  cases hbl : body.length with
  | zero =>
    have : body = [] := List.eq_nil_of_length_eq_zero hbl
    subst this; simp
  | succ n =>
    simp only
    rw [← hbl, readFull_append]

/-! ### request -/

structure TokenFacts (k : Bytes) : Prop where
  ne : k ≠ []
  noLF : (0x0A : UInt8) ∉ k
  noSP : (0x20 : UInt8) ∉ k
  head : headOK k
  last : headOK k.reverse

theorem uriFacts (u : Bytes) (h : uriOK u = true) : TokenFacts u := by
  unfold uriOK at h
  simp only [Bool.and_eq_true, Bool.not_eq_true', List.all_eq_true, decide_eq_true_eq] at h
  obtain ⟨h1, h2⟩ := h
  have hp : ∀ b ∈ u, b < 0x80 ∧ isAsciiSpace b = false ∧ b ≠ 0x0A ∧ b ≠ 0x20 := by
    intro b hb
    have l1 : (0x21 : UInt8).toNat ≤ b.toNat := UInt8.le_iff_toNat_le.mp (h2 b hb).1
    have l2 : b.toNat ≤ (0x7E : UInt8).toNat := UInt8.le_iff_toNat_le.mp (h2 b hb).2
    have e1 : (0x21 : UInt8).toNat = 33 := by decide
    have e2 : (0x7E : UInt8).toNat = 126 := by decide
    rw [e1] at l1; rw [e2] at l2
    have ne : ∀ c : UInt8, c.toNat < 33 ∨ c.toNat > 126 → b ≠ c := by
      intro c hc e; subst e; omega
    refine ⟨UInt8.lt_iff_toNat_lt.mpr (by have : (0x80 : UInt8).toNat = 128 := by decide
                                          omega), ?_, ne 0x0A (by decide), ne 0x20 (by decide)⟩
    unfold isAsciiSpace
    simp [ne 0x20 (by decide), ne 0x09 (by decide), ne 0x0A (by decide), ne 0x0B (by decide), ne 0x0C (by decide), ne 0x0D (by decide)]
  have ho := headOK_of_all u (fun b hb => ⟨(hp b hb).1, (hp b hb).2.1⟩)
  exact { ne := by intro e; subst e; simp at h1
          noLF := fun m => (hp _ m).2.2.1 rfl
          noSP := fun m => (hp _ m).2.2.2 rfl
          head := ho.1, last := ho.2 }

theorem tokenFacts_of_name (k : Bytes) (h : fieldNameOK k = true) : TokenFacts k :=
  let f := nameFacts k h
  { ne := f.ne, noLF := f.noLF, noSP := f.noSP, head := f.head, last := f.last }

def protoBytes : Bytes := [0x52, 0x54, 0x53, 0x50, 0x2F, 0x31, 0x2E, 0x30]

theorem ascii_proto : ascii "RTSP/1.0" = protoBytes := by decide
theorem ascii_proto_line : ascii " RTSP/1.0\r\n" = 0x20 :: protoBytes ++ crlf := by decide

theorem protoFacts : TokenFacts protoBytes := by
  refine { ne := by decide, noLF := by decide, noSP := by decide, head := ?_, last := ?_ }
  · intro b hb; simp [protoBytes] at hb; subst hb; decide
  · intro b hb; simp [protoBytes] at hb; subst hb; decide

/-- the request line `method SP uri SP RTSP/1.0` is split back into its three parts -/
theorem request_line_split (m u : Bytes) (hm : TokenFacts m) (hu : TokenFacts u) :
    let line := m ++ 0x20 :: (u ++ 0x20 :: protoBytes)
    indexByte line 0x20 = m.length ∧
    sliceFrom line ((m.length : Int) + 1) = .ok (u ++ 0x20 :: protoBytes) ∧
    indexByte (u ++ 0x20 :: protoBytes) 0x20 = u.length ∧
    slice line 0 m.length = .ok m ∧
    slice line ((m.length : Int) + 1) ((u.length : Int) + m.length + 1) = .ok u ∧
    sliceFrom line ((u.length : Int) + m.length + 1 + 1) = .ok protoBytes := by
  intro line
  have hlen : line.length = m.length + 1 + (u.length + 1 + 8) := by simp [line, protoBytes]; omega
  refine ⟨indexByte_append_cons m 0x20 _ hm.noSP, ?_, indexByte_append_cons u 0x20 _ hu.noSP, ?_, ?_, ?_⟩
  · have := sliceFrom_ok line (m.length + 1) (by omega)
    rw [show ((m.length : Int) + 1) = ((m.length + 1 : Nat) : Int) by simp, this]
    simp [line]
  · have := slice_ok line 0 m.length (Nat.zero_le _) (by omega)
    simp only [Int.natCast_zero] at this
    rw [this]; simp [line]
  · have := slice_ok line (m.length + 1) (u.length + m.length + 1) (by omega) (by omega)
    rw [show ((m.length : Int) + 1) = ((m.length + 1 : Nat) : Int) by simp,
        show ((u.length : Int) + m.length + 1) = ((u.length + m.length + 1 : Nat) : Int) by simp, this]
    have e : line = ((m ++ [0x20]) ++ u) ++ (0x20 :: protoBytes) := by simp [line]
    rw [e, List.take_left' (by simp; omega), List.drop_left' (by simp)]
  · have := sliceFrom_ok line (u.length + m.length + 1 + 1) (by omega)
    rw [show ((u.length : Int) + m.length + 1 + 1) = ((u.length + m.length + 1 + 1 : Nat) : Int) by simp, this]
    have e : line = (m ++ 0x20 :: u ++ [0x20]) ++ protoBytes := by simp [line]
    rw [e, List.drop_left' (by simp; omega)]

theorem tokenFacts_trim (k : Bytes) (h : TokenFacts k) : trimSpace k = k := trimSpace_id k h.head h.last

/-- request round trip at the model level -/
theorem readRequest_written {U : Type} (cfg : Cfg) (ops : UrlOps U) (ml mb : Nat)
    (hml : cfg.maxLine = some ml) (hmb : cfg.maxBody = some mb) (hmb63 : mb < 2 ^ 63)
    (method : Bytes) (url : U) (proto0 : Bytes) (h : Header) (body rest : Bytes)
    (hm : fieldNameOK method = true) (hdollar : method.head? ≠ some 0x24)
    (hu : uriOK (ops.print url) = true)
    (hparse : ops.parse (ops.print url) = some url)
    (hset : ops.setHost url (ops.host url) = url)
    (hhost : trimSuffixColon (ops.host url) = ops.host url)
    (hstar : ops.print url = [0x2A] → method = methodOptions)
    (hline : method.length + 1 + (ops.print url).length + 9 ≤ ml)
    (hok : FieldsOK cfg (writtenFields h body))
    (hd : ((writtenFields h body).map (fun f => canonKey cfg f.1)).Nodup)
    (hcl : canonKey cfg fieldContentLength = fieldContentLength)
    (hstray : body = [] → ∀ f ∈ writtenFields h body, canonKey cfg f.1 ≠ fieldContentLength)
    (hlen : body.length ≤ mb) :
    readRequest cfg ops (writeRequest ops { method, url, proto := proto0, header := h, body } ++ rest) =
      .ok ({ method, url, proto := protoBytes,
             header := (writtenFields h body).map (fun f => (canonKey cfg f.1, [f.2])), body }, rest) := by
  have hmf := tokenFacts_of_name method hm
  have huf := uriFacts _ hu
  obtain ⟨l1, l2, l3, l4, l5, l6⟩ := request_line_split method (ops.print url) hmf huf
  have e : writeRequest ops { method, url, proto := proto0, header := h, body } ++ rest =
      (method ++ 0x20 :: (ops.print url ++ 0x20 :: protoBytes)) ++ crlf ++
        (IpcHub.RtspSpec.encodeFields (writtenFields h body) ++ (body ++ rest)) := by
    simp [writeRequest, ascii_proto_line, writeHeader_eq]
  have hnoLF : (0x0A : UInt8) ∉ method ++ 0x20 :: (ops.print url ++ 0x20 :: protoBytes) := by
    simp [hmf.noLF, huf.noLF, protoBytes]
  have hlim : ∀ m, cfg.maxLine = some m → (method ++ 0x20 :: (ops.print url ++ 0x20 :: protoBytes)).length ≤ m := by
    intro m hm'; rw [hml] at hm'; simp at hm'; subst hm'; simp [protoBytes]; omega
  unfold readRequest
  rw [e, readLine_crlf cfg _ _ hnoLF hlim]
  simp only [l1, l2, l3]
  have c1 : ¬ (((method.length : Int) < 0) ∨ ((ops.print url).length : Int) < 0) := by omega
  simp only [c1, if_false, l4, l5, l6, tokenFacts_trim _ hmf, tokenFacts_trim _ huf, tokenFacts_trim _ protoFacts]
  have c2 : (method.isEmpty || method.head? == some 0x24) = false := by
    cases hmm : method with
    | nil => exact absurd hmm hmf.ne
    | cons x t =>
      rw [hmm] at hdollar
      simp at hdollar ⊢
      exact hdollar
  have c3 : ¬ (method ≠ methodOptions ∧ ops.print url = [0x2A]) := by
    intro ⟨a, b⟩; exact a (hstar b)
  simp only [c2, Bool.false_eq_true, if_false, c3, hparse]
  have c4 : (if lastIndexByte (ops.host url) 0x3A > lastIndexByte (ops.host url) 0x5D
      then ops.setHost url (trimSuffixColon (ops.host url)) else url) = url := by
    split
    · rw [hhost, hset]
    · rfl
  simp only [c4]
  rw [readHeader_fields cfg _ _ hok hd]
  simp only
  rw [readBody_written cfg mb hmb hmb63 h body rest hlen hd hcl hstray]

end IpcHub.RtspWire
