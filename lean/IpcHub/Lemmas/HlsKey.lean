/-
Lemmas for C10: every segment opened by the video path (a key frame arriving after the fragment
length) begins its video with that key frame.
-/
import IpcHub.Lemmas.HlsFrames
namespace IpcHub.HlsLemmas
open IpcHub.Ts IpcHub.Hls

/-- a segment that is neither the very first one nor opened by the audio-side reap has video,
    and its first video frame is a key frame -/
def KeyStart (c : Hls.Cfg) (s : Seg) : Prop :=
  s.byAudio = false → s.seqHdr = false → ∃ v rest, videoOf c s.frames = v :: rest ∧ v.key = true

def ClosedOk (c : Hls.Cfg) (g : Gen) : Prop := ∀ s ∈ g.deleted ++ g.playlist, KeyStart c s

def KeyInv (c : Hls.Cfg) (g : Gen) : Prop :=
  ClosedOk c g ∧ (∃ s, g.current = some s ∧ KeyStart c s)
  ∧ (∀ a, g.afCache = some a → isAudio c a.head = true)

theorem keyInv_init (c : Hls.Cfg) (b : Bool) : KeyInv c (initWith b) := by
  refine ⟨by simp [ClosedOk, initWith, segmentOpen], ⟨_, rfl, ?_⟩, by simp [initWith, segmentOpen]⟩
  intro _ h; simp at h

/-- flushing a frame into the open segment: closed segments untouched; the open one gets it -/
theorem flush_shape (g g' : Gen) (f : Frame) (h : flushFrame g f = some g') :
    g'.deleted = g.deleted ∧ g'.playlist = g.playlist ∧ g'.afCache = g.afCache
    ∧ ∃ s s', g.current = some s ∧ g'.current = some s' ∧ s'.frames = s.frames ++ [f]
        ∧ s'.byAudio = s.byAudio ∧ s'.seqHdr = s.seqHdr := by
  unfold flushFrame at h
  cases hc : g.current with
  | none => simp [hc] at h
  | some s =>
    simp only [hc] at h
    injection h with h; subst h
    refine ⟨rfl, rfl, rfl, s, _, rfl, rfl, ?_, ?_, ?_⟩ <;>
      (simp only [updateDuration]; split <;> (try split) <;> simp)

theorem keyStart_snoc (c : Hls.Cfg) (s s' : Seg) (f : Frame) (hf : s'.frames = s.frames ++ [f])
    (hb : s'.byAudio = s.byAudio) (hh : s'.seqHdr = s.seqHdr) (h : KeyStart c s) : KeyStart c s' := by
  intro h1 h2
  obtain ⟨v, rest, hv, hk⟩ := h (hb ▸ h1) (hh ▸ h2)
  exact ⟨v, rest ++ videoOf c [f], by rw [hf, videoOf_append, hv]; rfl, hk⟩

theorem keyStart_first (c : Hls.Cfg) (s s' : Seg) (f : Frame) (hf : s'.frames = s.frames ++ [f])
    (hno : videoOf c s.frames = []) (hvid : isAudio c f = false) (hk : f.key = true) : KeyStart c s' := by
  intro _ _
  exact ⟨f, [], by rw [hf, videoOf_append, hno]; simp [videoOf, hvid], hk⟩

/-- flushAudioCache: closed segments untouched, the open one gains no video -/
theorem flushAudio_shape (c : Hls.Cfg) (g g' : Gen) (h : flushAudioCache g = some g')
    (ha : ∀ a, g.afCache = some a → isAudio c a.head = true) :
    g'.deleted = g.deleted ∧ g'.playlist = g.playlist ∧ g'.afCache = none
    ∧ ((∃ s, g.current = some s) → ∃ s s', g.current = some s ∧ g'.current = some s'
        ∧ videoOf c s'.frames = videoOf c s.frames ∧ s'.byAudio = s.byAudio ∧ s'.seqHdr = s.seqHdr
        ∧ (KeyStart c s → KeyStart c s')) := by
  unfold flushAudioCache at h
  cases hc : g.afCache with
  | none =>
    simp [hc] at h; subst h
    exact ⟨rfl, rfl, hc, fun ⟨s, hs⟩ => ⟨s, s, hs, hs, rfl, rfl, rfl, id⟩⟩
  | some a =>
    simp only [hc] at h
    cases hf : flushFrame g { a.head with payload := a.buff } with
    | none => simp [hf] at h
    | some g1 =>
      simp [hf] at h; subst h
      obtain ⟨e1, e2, _, s, s', hs, hs', hfr, hb, hh⟩ := flush_shape g g1 _ hf
      have haud : isAudio c { a.head with payload := a.buff } = true := by
        have := ha a hc; simpa [isAudio] using this
      refine ⟨e1, e2, rfl, fun _ => ⟨s, s', hs, hs', ?_, hb, hh, keyStart_snoc c s s' _ hfr hb hh⟩⟩
      rw [hfr, videoOf_append]; simp [videoOf, haud]

/-- close + open: the closed segment joins the closed ones (or is dropped); a fresh one is open -/
theorem closeOpen_key (c : Hls.Cfg) (g : Gen) (start : Int) (b : Bool) (h : KeyInv c g) :
    ClosedOk c (segmentOpen (segmentClose c g) start b)
    ∧ (∃ s, (segmentOpen (segmentClose c g) start b).current = some s ∧ s.frames = [] ∧ s.byAudio = b)
    ∧ (segmentOpen (segmentClose c g) start b).afCache = g.afCache := by
  obtain ⟨hcl, ⟨s, hs, hks⟩, _⟩ := h
  obtain ⟨s2, hs2, hf2, hb2, _⟩ := closeOpen_current c g start b ⟨s, hs⟩
  refine ⟨?_, ⟨s2, hs2, hf2, hb2⟩, ?_⟩
  · simp only [segmentClose, hs]
    split
    · simpa [ClosedOk, segmentOpen] using hcl
    · have hcat := addSegment_cat c { g with current := none } s
      have hcur : (addSegment c { g with current := none } s).current = none := (addSegment_fields c _ s).2
      intro x hx
      simp only [segmentOpen, hcur] at hx
      rw [hcat] at hx
      rcases List.mem_append.mp hx with hx | hx
      · exact hcl x hx
      · simp at hx; subst hx; exact hks
  · simp only [segmentClose, hs]
    split
    · simp [segmentOpen]
    · have hcur : (addSegment c { g with current := none } s).current = none := (addSegment_fields c _ s).2
      have : (addSegment c { g with current := none } s).afCache = g.afCache := by
        simp only [addSegment]; split <;> rfl
      simp [segmentOpen, hcur, this]

theorem keyInv_cache (c : Hls.Cfg) (g g2 : Gen) (h : KeyInv c g) (h2 : g2.current = g.current)
    (h3 : g2.playlist = g.playlist) (h4 : g2.deleted = g.deleted)
    (h6 : ∀ a, g2.afCache = some a → isAudio c a.head = true) : KeyInv c g2 := by
  obtain ⟨hcl, hcur, _⟩ := h
  exact ⟨by simpa [ClosedOk, h3, h4] using hcl, by rw [h2]; exact hcur, h6⟩

theorem flushAudio_key (c : Hls.Cfg) (g g' : Gen) (h : KeyInv c g) (hf : flushAudioCache g = some g') :
    KeyInv c g' := by
  obtain ⟨hcl, ⟨s, hs, hks⟩, ha⟩ := h
  obtain ⟨e1, e2, e3, hcur⟩ := flushAudio_shape c g g' hf ha
  obtain ⟨s0, s', hs0, hs', _, _, _, hk⟩ := hcur ⟨s, hs⟩
  have : s0 = s := by rw [hs] at hs0; injection hs0 with h; exact h.symm
  subst this
  exact ⟨by simpa [ClosedOk, e1, e2] using hcl, ⟨s', hs', hk hks⟩, by intro a h'; rw [e3] at h'; simp at h'⟩

theorem writeFrame_key (c : Hls.Cfg) (frag rate : Nat) (g g' : Gen) (f : Frame)
    (h : KeyInv c g) (hw : Hls.writeFrame c frag rate g f = some g') : KeyInv c g' := by
  unfold Hls.writeFrame at hw
  split at hw
  · injection hw with hw; subst hw; exact h
  · split at hw
    · injection hw with hw; subst hw; exact h
    · split at hw
      · -- audio
        rename_i hau
        have haud : isAudio c f = true := hau
        have step : ∀ g2 : Gen, KeyInv c g2 →
            (∀ a, g2.afCache = some a →
              (if f.pts - a.head.pts > (c.aacDelay : Int) * 90 then flushAudioCache g2
               else if absOverflow g2 frag then reapSegment c g2 f.pts true else some g2) = some g') →
            (∃ a, g2.afCache = some a) → KeyInv c g' := by
          intro g2 hk2 hrun ⟨a, ha⟩
          have hr := hrun a ha
          split at hr
          · exact flushAudio_key c g2 g' hk2 hr
          · split at hr
            · -- audio-side reap: the new segment is exempt (byAudio)
              obtain ⟨hcl, ⟨s2, hs2, hf2, hb2⟩, hac⟩ := closeOpen_key c g2 f.pts true hk2
              have hk3 : KeyInv c (segmentOpen (segmentClose c g2) f.pts true) :=
                ⟨hcl, ⟨s2, hs2, fun hb => by rw [hb2] at hb; exact absurd hb (by simp)⟩,
                 by intro a' h'; rw [hac] at h'; exact hk2.2.2 a' h'⟩
              exact flushAudio_key c _ g' hk3 hr
            · injection hr with hr; subst hr; exact hk2
        cases hc : g.afCache with
        | none =>
          simp only [hc] at hw
          cases ho : onBufferStart c g f.pts rate with
          | none => simp [ho] at hw
          | some r =>
            obtain ⟨pts, g1⟩ := r
            have hg1 : g1.current = g.current ∧ g1.playlist = g.playlist ∧ g1.deleted = g.deleted := by
              simp only [onBufferStart] at ho
              split at ho
              · simp at ho; obtain ⟨_, rfl⟩ := ho; exact ⟨rfl, rfl, rfl⟩
              · split at ho
                · exact absurd ho (by simp)
                · split at ho <;> (simp at ho; obtain ⟨_, rfl⟩ := ho; exact ⟨rfl, rfl, rfl⟩)
            simp only [ho, Option.map_some, Option.bind_some] at hw
            refine step { g1 with afCache := some { head := { f with dts := pts, pts := pts }, buff := f.payload } }
              (keyInv_cache c g _ h hg1.1 hg1.2.1 hg1.2.2 ?_) ?_ ⟨_, rfl⟩
            · intro a ha; simp at ha; subst ha; simpa [isAudio] using haud
            · intro a ha; simp at ha; subst ha; exact hw
        | some a0 =>
          simp only [hc, Option.bind_some] at hw
          refine step { g with afCache := some { a0 with buff := a0.buff ++ f.header ++ f.payload }, nbSamples := g.nbSamples + 1 }
            (keyInv_cache c g _ h rfl rfl rfl ?_) ?_ ⟨_, rfl⟩
          · intro a ha; simp at ha; subst ha; exact h.2.2 a0 hc
          · intro a ha; simp at ha; subst ha; exact hw
      · -- video
        rename_i hau
        have hvid : isAudio c f = false := by simpa [isAudio] using hau
        split at hw
        · -- a key frame after the fragment length: reap, then the key frame opens the new segment
          rename_i hko
          have hkey : f.key = true := by simp only [Bool.and_eq_true] at hko; exact hko.1
          cases hr : reapSegment c g f.pts false with
          | none => simp [hr] at hw
          | some g3 =>
            simp only [hr, Option.bind_some] at hw
            obtain ⟨hcl, ⟨s2, hs2, hf2, _⟩, hac⟩ := closeOpen_key c g f.pts false h
            have ha2 : ∀ a, (segmentOpen (segmentClose c g) f.pts false).afCache = some a → isAudio c a.head = true := by
              intro a' h'; rw [hac] at h'; exact h.2.2 a' h'
            obtain ⟨e1, e2, e3, hcur⟩ := flushAudio_shape c _ g3 hr ha2
            obtain ⟨s0, s3, hs0, hs3, hv3, _, _, _⟩ := hcur ⟨s2, hs2⟩
            have : s0 = s2 := by rw [hs2] at hs0; injection hs0 with h; exact h.symm
            subst this
            obtain ⟨d1, d2, d3, s4, s5, hs4, hs5, hfr, _, _⟩ := flush_shape g3 g' f hw
            have : s4 = s3 := by rw [hs3] at hs4; injection hs4 with h; exact h.symm
            subst this
            refine ⟨?_, ⟨s5, hs5, keyStart_first c s4 s5 f hfr (by rw [hv3, hf2]; rfl) hvid hkey⟩, ?_⟩
            · simpa [ClosedOk, d1, d2, e1, e2] using hcl
            · intro a h'; rw [d3, e3] at h'; simp at h'
        · simp only [Option.bind_some] at hw
          obtain ⟨hcl, ⟨s, hs, hks⟩, ha⟩ := h
          obtain ⟨d1, d2, d3, s4, s5, hs4, hs5, hfr, hb, hh⟩ := flush_shape g g' f hw
          have : s4 = s := by rw [hs] at hs4; injection hs4 with h; exact h.symm
          subst this
          exact ⟨by simpa [ClosedOk, d1, d2] using hcl, ⟨s5, hs5, keyStart_snoc c s4 s5 f hfr hb hh hks⟩,
            by intro a h'; rw [d3] at h'; exact ha a h'⟩

theorem writeFrames_key (c : Hls.Cfg) (frag rate : Nat) : ∀ (fs : List Frame) (g g' : Gen),
    KeyInv c g → Hls.writeFrames c frag rate g fs = some g' → KeyInv c g' := by
  intro fs
  induction fs with
  | nil => intro g g' h hw; simp [Hls.writeFrames] at hw; subst hw; exact h
  | cons f fs ih =>
    intro g g' h hw
    simp only [Hls.writeFrames] at hw
    cases h1 : Hls.writeFrame c frag rate g f with
    | none => simp [h1] at hw
    | some g1 =>
      simp only [h1, Option.bind_some] at hw
      exact ih g1 g' (writeFrame_key c frag rate g g1 f h h1) hw

end IpcHub.HlsLemmas
