import IpcHub.Lemmas.TablesCrash
import IpcHub.Spec.TableConc
/-! Histories with edits that overlap a flush reduce to crash histories when Flush holds the lock (C18). -/
namespace IpcHub.Tables
open IpcHub.TableSpec
variable {V : Type}

theorem crun_append (o : Ops V) (guarded : Bool) (dflt : List V) (sv : Server V) (xs ys : List (COp V)) :
    Server.crun o guarded dflt sv (xs ++ ys) = Server.crun o guarded dflt (Server.crun o guarded dflt sv xs) ys := by
  simp [Server.crun, List.foldl_append]

theorem abs_crun_append (e : EntrySpec V) (dflt : List V) (a : Abs V) (xs ys : List (COp V)) :
    Abs.crun e dflt a (xs ++ ys) = Abs.crun e dflt (Abs.crun e dflt a xs) ys := by
  simp [Abs.crun, List.foldl_append]

theorem xstep_plain (o : Ops V) (guarded : Bool) (dflt : List V) (sv : Server V) (x : XOp V) :
    Server.xstep o guarded true dflt sv x = Server.crun o guarded dflt sv x.plain := by
  cases x with
  | c y => rfl
  | flushDuring e => rfl

theorem xrun_plain (o : Ops V) (guarded : Bool) (dflt : List V) (xs : List (XOp V)) : ∀ (sv : Server V),
    Server.xrun o guarded true dflt sv xs = Server.crun o guarded dflt sv (xs.flatMap XOp.plain) := by
  induction xs with
  | nil => intro sv; rfl
  | cons x rest ih =>
    intro sv
    have h1 : Server.xrun o guarded true dflt sv (x :: rest) = Server.xrun o guarded true dflt (Server.xstep o guarded true dflt sv x) rest := rfl
    rw [h1, ih, xstep_plain, List.flatMap_cons, crun_append]

theorem abs_xstep_plain (e : EntrySpec V) (dflt : List V) (a : Abs V) (x : XOp V) :
    Abs.xstep e dflt a x = Abs.crun e dflt a x.plain := by
  cases x with
  | c y => rfl
  | flushDuring ed => rfl

theorem abs_xrun_plain (e : EntrySpec V) (dflt : List V) (xs : List (XOp V)) : ∀ (a : Abs V),
    Abs.xrun e dflt a xs = Abs.crun e dflt a (xs.flatMap XOp.plain) := by
  induction xs with
  | nil => intro a; rfl
  | cons x rest ih =>
    intro a
    have h1 : Abs.xrun e dflt a (x :: rest) = Abs.xrun e dflt (Abs.xstep e dflt a x) rest := rfl
    rw [h1, ih, abs_xstep_plain, List.flatMap_cons, abs_crun_append]

/-- the simulation carries over to histories with edits that overlap a flush, when Flush holds the lock -/
theorem sim_xrun (o : Ops V) (L : Laws o) (e : EntrySpec V) (dflt : List V) (guarded : Bool) (h : Hyps o L e dflt)
    (xs : List (XOp V)) (sv : Server V) (a : Abs V) (hs : Sim o L e dflt sv a) :
    Sim o L e dflt (Server.xrun o guarded true dflt sv xs) (Abs.xrun e dflt a xs) := by
  rw [xrun_plain, abs_xrun_plain]
  exact sim_crun o L e dflt guarded h _ sv a hs

end IpcHub.Tables
