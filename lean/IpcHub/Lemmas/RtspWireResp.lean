/- Helper lemmas for C14: response round trip -/
import IpcHub.Lemmas.RtspWireMsg
namespace IpcHub.RtspWire
open IpcHub.RtspSpec (fieldNameOK fieldValueOK tokenChar uriOK decimal digit)

local notation "Bytes" => List UInt8

theorem isDigit_ne_blank (b : UInt8) (h : isDigit b = true) : b ≠ 0x20 := by
  intro e; subst e; revert h; decide

theorem decimal_no_blank (n : Nat) : (0x20 : UInt8) ∉ decimal n := fun m =>
  isDigit_ne_blank _ (decimal_all_digits n _ m) rfl

theorem decimal_three (c : Nat) (h1 : 100 ≤ c) (h2 : c ≤ 999) : (decimal c).length = 3 := by
  rw [decimal]
  have a : ¬ c < 10 := by omega
  simp only [a, if_false]
  rw [decimal]
  have b : ¬ c / 10 < 10 := by omega
  simp only [b, if_false]
  rw [decimal]
  have d : c / 10 / 10 < 10 := by omega
  simp [d]

theorem trimLeftBlanks_digit (s : Bytes) (h : ∀ b, s.head? = some b → b ≠ 0x20) : trimLeftBlanks s = s := by
  cases s with
  | nil => simp [trimLeftBlanks]
  | cons x t =>
    have := h x (by simp)
    unfold trimLeftBlanks
    split
    · rename_i heq; simp at heq; exact absurd heq.1 this
    · rfl

theorem ascii_status_prefix : ascii "RTSP/1.0 " = protoBytes ++ [0x20] := by decide

/-- response round trip at the model level -/
theorem readResponse_written (cfg : Cfg) (ml mb : Nat)
    (hml : cfg.maxLine = some ml) (hmb : cfg.maxBody = some mb) (hmb63 : mb < 2 ^ 63)
    (table : List (Nat × Bytes)) (code : Nat) (status : Bytes) (h : Header) (body rest : Bytes)
    (hc1 : 100 ≤ code) (hc2 : code ≤ 999)
    (hreason : (0x0A : UInt8) ∉ statusTextOf table code status)
    (hline : 13 + (statusTextOf table code status).length ≤ ml)
    (hok : FieldsOK cfg (writtenFields h body))
    (hd : ((writtenFields h body).map (fun f => canonKey cfg f.1)).Nodup)
    (hcl : canonKey cfg fieldContentLength = fieldContentLength)
    (hstray : body = [] → ∀ f ∈ writtenFields h body, canonKey cfg f.1 ≠ fieldContentLength)
    (hlen : body.length ≤ mb) :
    readResponse cfg (writeResponse table code status h body ++ rest) =
      .ok ({ proto := protoBytes, statusCode := code,
             status := decimal code ++ 0x20 :: statusTextOf table code status,
             header := (writtenFields h body).map (fun f => (canonKey cfg f.1, [f.2])), body }, rest) := by
  generalize hr : statusTextOf table code status = reason at *
  have h3 := decimal_three code hc1 hc2
  obtain ⟨st, hst⟩ : ∃ x, x = decimal code ++ 0x20 :: reason := ⟨_, rfl⟩
  obtain ⟨line, hline'⟩ : ∃ x, x = protoBytes ++ 0x20 :: st := ⟨_, rfl⟩
  have e : writeResponse table code status h body ++ rest =
      line ++ crlf ++ (IpcHub.RtspSpec.encodeFields (writtenFields h body) ++ (body ++ rest)) := by
    simp [writeResponse, ascii_status_prefix, writeHeader_eq, itoa_eq_decimal, hr, hline', hst]
  have hnoLF : (0x0A : UInt8) ∉ line := by
    have hd10 : (0x0A : UInt8) ∉ decimal code := fun m => by
      have := decimal_all_digits code _ m; revert this; decide
    simp [hline', hst, protoBytes, hd10, hreason]
  have hlim : ∀ m, cfg.maxLine = some m → line.length ≤ m := by
    intro m hm'; rw [hml] at hm'; simp at hm'; subst hm'
    simp [hline', hst, protoBytes, h3]; omega
  have i1 : indexByte line 0x20 = (8 : Nat) := by
    have := indexByte_append_cons protoBytes 0x20 st (by decide)
    simpa [protoBytes, hline'] using this
  have s1 : slice line 0 (8 : Nat) = .ok protoBytes := by
    have := slice_ok line 0 8 (by omega) (by simp [hline', protoBytes])
    simp only [Int.natCast_zero] at this
    rw [this]; simp [hline', protoBytes]
  have s2 : sliceFrom line ((8 : Nat) + 1) = .ok st := by
    have := sliceFrom_ok line 9 (by simp [hline', protoBytes])
    rw [show (((8:Nat):Int) + 1) = ((9 : Nat) : Int) by simp, this]
    simp [hline', protoBytes]
  have hhead : ∀ b, st.head? = some b → b ≠ 0x20 := by
    intro b hb
    have hne := decimal_ne_nil code
    cases hdc : decimal code with
    | nil => exact absurd hdc hne
    | cons x t =>
      simp [hst, hdc] at hb; subst hb
      exact isDigit_ne_blank _ (decimal_head_digit code _ (by simp [hdc]))
  have t1 := trimLeftBlanks_digit st hhead
  have j1 : indexByte st 0x20 = ((decimal code).length : Nat) := by rw [hst]; exact indexByte_append_cons (decimal code) 0x20 reason (decimal_no_blank code)
  have s3 : slice st 0 ((decimal code).length : Nat) = .ok (decimal code) := by
    have := slice_ok st 0 (decimal code).length (Nat.zero_le _) (by simp [hst])
    simp only [Int.natCast_zero] at this
    rw [this]; simp [hst]
  have pa := parseInt_decimal code 64 (by simp; omega) (by omega)
  unfold readResponse
  rw [e, readLine_crlf cfg _ _ hnoLF hlim]
  simp only [i1]
  have c1 : ¬ (((8 : Nat) : Int) < 0) := by omega
  simp only [c1, if_false, s1, s2, t1, j1]
  have c2 : (((decimal code).length : Nat) : Int) ≠ -1 := by omega
  rw [if_pos c2]
  rw [s3]
  simp only [h3, ne_eq, not_true_eq_false, if_false]
  simp only [atoi, pa]
  have c3 : ¬ ((code : Int) < 0) := by omega
  simp only [c3, if_false]
  rw [readHeader_fields cfg _ _ hok hd]
  simp only
  rw [readBody_written cfg mb hmb hmb63 h body rest hlen hd hcl hstray, hst]

end IpcHub.RtspWire
