import IpcHub.Lemmas.Media
namespace IpcHub.Media

/-! ### the send log: what `send` decided for every packet published while the consumer was attached -/

/-- per-consumer invariant of the send log -/
structure LInv (pub : List Pkt) (c : Cons) : Prop where
  jl : c.joinedAt ≤ pub.length
  /-- what was pushed is exactly what the log says was kept -/
  ls : c.sent = (c.sendLog.filter (fun e => e.2.2)).map (·.1)
  /-- an attached consumer has a log entry for EVERY packet published since it attached, in order -/
  lp : c.registered = true → c.sendLog.map (·.1) = pub.drop c.joinedAt
  /-- a detached one for a prefix of them (nothing is logged, or sent, after the detach) -/
  ld : c.sendLog.map (·.1) <+: pub.drop c.joinedAt

theorem linv_of_same (pub : List Pkt) (c c' : Cons) (h : LInv pub c)
    (h1 : c'.sent = c.sent) (h2 : c'.sendLog = c.sendLog) (h3 : c'.joinedAt = c.joinedAt)
    (h4 : c'.registered = true → c.registered = true) : LInv pub c' :=
  ⟨by rw [h3]; exact h.jl, by rw [h1, h2]; exact h.ls, by intro hr; rw [h2, h3]; exact h.lp (h4 hr),
   by rw [h2, h3]; exact h.ld⟩

theorem linv_send (pub : List Pkt) (m : Nat) (p : Pkt) (key : Bool) (c : Cons) (h : LInv pub c) :
    LInv (pub ++ [p]) (c.send m p key) := by
  have hd := drop_append_one pub p c.joinedAt h.jl
  have hjl : c.joinedAt ≤ (pub ++ [p]).length := by have := h.jl; simp; omega
  unfold Cons.send
  by_cases hr : c.registered = true
  · simp only [hr, Bool.not_true, Bool.false_eq_true, if_false]
    have hp := h.lp hr
    cases nextDiscarding m key c.discarding c.queue.length with
    | false =>
      simp only [Bool.false_eq_true, if_false]
      refine ⟨hjl, ?_, ?_, ?_⟩
      · simp [Cons.keep, List.filter_append, h.ls]
      · intro _; simp only [Cons.keep, List.map_append, List.map_cons, List.map_nil]; rw [hp, hd]
      · simp only [Cons.keep, List.map_append, List.map_cons, List.map_nil]; rw [hp, hd]; exact List.prefix_refl _
    | true =>
      simp only [if_true]
      refine ⟨hjl, ?_, ?_, ?_⟩
      · simp [Cons.drop, List.filter_append, h.ls]
      · intro _; simp only [Cons.drop, List.map_append, List.map_cons, List.map_nil]; rw [hp, hd]
      · simp only [Cons.drop, List.map_append, List.map_cons, List.map_nil]; rw [hp, hd]; exact List.prefix_refl _
  · have hr' : c.registered = false := by simpa using hr
    simp only [hr', Bool.not_false, if_true]
    refine ⟨hjl, h.ls, by intro h'; simp [hr'] at h', ?_⟩
    rw [hd]; exact h.ld.trans (List.prefix_append _ _)

theorem linv_close (pub : List Pkt) (c : Cons) (h : LInv pub c) : LInv pub c.close := by
  unfold Cons.close
  split
  · exact h
  · exact linv_of_same pub c _ h rfl rfl rfl (fun hr => hr)

theorem linv_step1 (pub : List Pkt) (c : Cons) (h : LInv pub c) : LInv pub c.step.1 := by
  unfold Cons.step
  cases c.stepKind <;> simp only [Cons.apply]
  · exact h
  · exact h
  · exact linv_of_same pub c _ h rfl rfl rfl (fun hr => by simp at hr)
  · exact linv_of_same pub c _ h rfl rfl rfl (fun hr => hr)
  · exact linv_of_same pub c _ h rfl rfl rfl (fun hr => by simp at hr)
  · exact linv_of_same pub c _ h rfl rfl rfl (fun hr => hr)
  · exact linv_of_same pub c _ h rfl rfl rfl (fun hr => hr)

/-- the log invariant is preserved by every step of the LTS -/
theorem linv_step (s : St) (l : Label) (h : ∀ c ∈ s.cons, LInv s.published c) :
    ∀ c ∈ (s.step l).cons, LInv (s.step l).published c := by
  cases l with
  | pub p =>
    simp only [St.step]
    split
    · exact h
    · split
      · exact h
      · rename_i cache' key _
        intro c hc
        simp only [List.mem_map] at hc
        obtain ⟨c0, hc0, rfl⟩ := hc
        exact linv_send _ _ _ _ _ (h c0 hc0)
  | join name useGop panicAt =>
    simp only [St.step]
    split
    · exact h
    · split
      · intro c hc
        simp only [List.mem_append, List.mem_singleton] at hc
        rcases hc with hc | rfl
        · exact h c hc
        · apply linv_close
          exact ⟨by simp, by simp, by intro hr; simp at hr, by simp⟩
      · intro c hc
        simp only [List.mem_append, List.mem_singleton] at hc
        rcases hc with hc | rfl
        · exact h c hc
        · exact ⟨by simp, by simp, by intro _; simp, by simp⟩
  | stop name =>
    simp only [St.step]
    intro c hc
    simp only [List.mem_map] at hc
    obtain ⟨c0, hc0, rfl⟩ := hc
    split
    · exact linv_close _ _ (linv_of_same _ c0 _ (h c0 hc0) rfl rfl rfl (fun hr => by simp at hr))
    · exact h c0 hc0
  | close =>
    simp only [St.step]
    split
    · exact h
    · intro c hc
      simp only [List.mem_map] at hc
      obtain ⟨c0, hc0, rfl⟩ := hc
      split
      · exact linv_close _ _ (linv_of_same _ c0 _ (h c0 hc0) rfl rfl rfl (fun hr => by simp at hr))
      · exact h c0 hc0
  | cstep name =>
    simp only [St.step]
    intro c hc
    simp only [List.mem_map] at hc
    obtain ⟨c0, hc0, rfl⟩ := hc
    split
    · exact linv_step1 _ _ (h c0 hc0)
    · exact h c0 hc0
  | stall name =>
    simp only [St.step]
    intro c hc
    simp only [List.mem_map] at hc
    obtain ⟨c0, hc0, rfl⟩ := hc
    split
    · exact linv_of_same _ c0 _ (h c0 hc0) rfl rfl rfl (fun hr => hr)
    · exact h c0 hc0
  | resume name =>
    simp only [St.step]
    intro c hc
    simp only [List.mem_map] at hc
    obtain ⟨c0, hc0, rfl⟩ := hc
    split
    · exact linv_of_same _ c0 _ (h c0 hc0) rfl rfl rfl (fun hr => hr)
    · exact h c0 hc0

theorem linv_run (s : St) (ls : List Label) (h : ∀ c ∈ s.cons, LInv s.published c) :
    ∀ c ∈ (s.run ls).cons, LInv (s.run ls).published c := by
  induction ls generalizing s with
  | nil => exact h
  | cons l ls ih =>
    simp only [St.run, List.foldl_cons]
    exact ih (s.step l) (linv_step s l h)

end IpcHub.Media
