/-
Helper lemmas for Props/C13.lean.
-/
import IpcHub.Model.Writers
import IpcHub.Spec.Interleave
namespace IpcHub.Writers

/-! ### buffered.Conn keeps the order of the bytes -/

theorem flush_inv (c : BConn) : c.flush.sock ++ c.flush.buf = c.sock ++ c.buf := by
  unfold BConn.flush
  split
  · rfl
  · simp

theorem spill_inv (fuel : Nat) (c : BConn) (p : Bytes) :
    (BConn.spill fuel c p).1.sock ++ (BConn.spill fuel c p).1.buf ++ (BConn.spill fuel c p).2
      = c.sock ++ c.buf ++ p := by
  induction fuel generalizing c p with
  | zero => simp [BConn.spill]
  | succ n ih =>
    unfold BConn.spill
    split
    · split
      · rename_i h0
        have : c.buf = [] := by
          cases hb : c.buf with
          | nil => rfl
          | cons a l => simp [hb] at h0
        simp [this]
      · rw [ih, flush_inv]
        simp [List.append_assoc]
    · rfl

theorem write_inv (c : BConn) (p : Bytes) (l : Bool) :
    (c.write p l).sock ++ (c.write p l).buf = c.sock ++ c.buf ++ p := by
  have h := spill_inv (p.length + 2) c p
  unfold BConn.write
  generalize BConn.spill (p.length + 2) c p = r at h
  obtain ⟨c', p'⟩ := r
  simp only at h ⊢
  split
  · simp [← h, List.append_assoc]
  · split
    · rw [flush_inv]; simp [← h, List.append_assoc]
    · rename_i h1 h2
      have : c'.buf = [] := by
        cases hb : c'.buf with
        | nil => rfl
        | cons a l => simp [hb] at h2
      simp [← h, this]

theorem run_inv (c : BConn) (ops : List COp) :
    (c.run ops).sock ++ (c.run ops).buf = c.sock ++ c.buf ++ (payloads ops).flatten := by
  induction ops generalizing c with
  | nil => simp [BConn.run, payloads]
  | cons o r ih =>
    cases o with
    | write p l => simp [BConn.run, payloads, ih, write_inv, List.append_assoc]
    | flush => simp [BConn.run, payloads, ih, flush_inv]

/-! ### every write path a probing caller can reach -/

theorem vpayloads_vplain (ops : List VOp) : payloads (vplain ops) = vpayloads ops := by
  induction ops with
  | nil => rfl
  | cons o r ih => cases o <;> simp [vplain, payloads, vpayloads, ih]

/-- when the type has none of the probed methods, every hand-over is a `Write` -/
theorem runVia_plain (methods : List String) (hm : ∀ v : Via, v = .write ∨ methods.contains v.method = false)
    (c : BConn) (ops : List VOp) : c.runVia methods ops = some (c.run (vplain ops)) := by
  induction ops generalizing c with
  | nil => rfl
  | cons o r ih =>
    cases o with
    | write v p l =>
      have hv : c.writeVia methods v p l = some (c.write p l) := by
        unfold BConn.writeVia
        rcases hm v with h | h
        · simp [h]
        · have h' : ¬ v.method ∈ methods := by simpa using h
          simp [h']
      simp [BConn.runVia, hv, vplain, BConn.run, ih]
    | flush => simp [BConn.runVia, vplain, BConn.run, ih]

/-- a probe that finds its method leaves the model: the run is not described -/
theorem runVia_unmodelled (methods : List String) (v : Via) (hv : v ≠ .write) (hm : methods.contains v.method = true)
    (c : BConn) (p : Bytes) (l : Bool) (r : List VOp) : c.runVia methods (.write v p l :: r) = none := by
  have hm' : v.method ∈ methods := by simpa using hm
  simp [BConn.runVia, BConn.writeVia, hv, hm']

theorem flush_empties (c : BConn) : c.flush.buf = [] := by
  unfold BConn.flush
  split
  · rename_i h
    cases hb : c.buf with
    | nil => rfl
    | cons a l => simp [hb] at h
  · rfl

/-! ### interleaved frames -/

open IpcHub.InterleaveSpec in
/-- a complete frame in front of anything is read back as that frame, leaving the rest -/
theorem nextUnit_frame (ch : UInt8) (p rest : Bytes) (h : p.length < 65536) :
    nextUnit (encodeFrame ch p ++ rest) = some (.frame ch p, rest) := by
  have h1 : p.length / 256 < 256 := by omega
  have h2 : p.length % 256 < 256 := by omega
  have e : (UInt8.ofNat (p.length / 256)).toNat * 256 + (UInt8.ofNat (p.length % 256)).toNat = p.length := by
    simp [UInt8.toNat_ofNat', Nat.mod_eq_of_lt h1, Nat.mod_eq_of_lt h2]
    omega
  simp only [encodeFrame, List.cons_append, List.nil_append, nextUnit]
  rw [e]
  simp

open IpcHub.InterleaveSpec in
theorem messageOk_frame (ch : UInt8) (p : Bytes) (h : p.length < 65536) :
    messageOk (encodeFrame ch p) = true := by
  have := nextUnit_frame ch p [] h
  simp only [List.append_nil] at this
  simp [messageOk, this]

open IpcHub.InterleaveSpec in
/-- `Packet.Write` hands its writer nothing (unsubscribed channel) or exactly the RFC 2326 frame, in two chunks -/
theorem packetWrites_flatten (ch : Int) (data : Bytes) (h : data.length < 65536) :
    (packetWrites ch data).flatten =
      if ch < 0 ∨ ch > 255 then [] else encodeFrame (UInt8.ofNat ch.toNat) data := by
  unfold packetWrites
  split
  · rfl
  · have : data.length / 256 % 256 = data.length / 256 := Nat.mod_eq_of_lt (by omega)
    simp [encodeFrame, this]

end IpcHub.Writers

namespace IpcHub.Writers
open IpcHub.InterleaveSpec

theorem headEnd_bound (s : Bytes) (i h : Nat) (hs : headEnd s i = some h) : 4 ≤ s.length ∧ i + 4 ≤ h ∧ h ≤ i + s.length := by
  induction s generalizing i with
  | nil => simp [headEnd] at hs
  | cons b r ih =>
    simp only [headEnd] at hs
    split at hs
    · rename_i hp
      have hl : ((b :: r).take 4).length = 4 := by
        have := congrArg List.length (beq_iff_eq.mp hp)
        simpa using this
      have : 4 ≤ (b :: r).length := by
        rw [List.length_take] at hl; omega
      cases hs
      exact ⟨this, Nat.le_refl _, by omega⟩
    · obtain ⟨h1, h2, h3⟩ := ih (i + 1) hs
      simp only [List.length_cons]
      omega

theorem headEnd_append (s t : Bytes) (i h : Nat) (hs : headEnd s i = some h) : headEnd (s ++ t) i = some h := by
  induction s generalizing i with
  | nil => simp [headEnd] at hs
  | cons b r ih =>
    simp only [headEnd] at hs
    simp only [List.cons_append, headEnd]
    split at hs
    · rename_i hp
      have hl : 4 ≤ (b :: r).length := (headEnd_bound (b :: r) i h (by simp only [headEnd]; rw [if_pos hp]; exact hs)).1
      have : (b :: (r ++ t)).take 4 = (b :: r).take 4 := by
        rw [← List.cons_append, List.take_append_of_le_length hl]
      rw [this, if_pos hp]
      exact hs
    · rename_i hp
      have hr := headEnd_bound r (i + 1) h hs
      have : (b :: (r ++ t)).take 4 = (b :: r).take 4 := by
        rw [← List.cons_append, List.take_append_of_le_length (by simp only [List.length_cons]; omega)]
      rw [this, if_neg hp]
      exact ih (i + 1) hs

/-- a complete response in front of anything is read back as exactly that response -/
theorem nextUnit_response (raw rest : Bytes) (hw : wfResponse raw = true) :
    nextUnit (raw ++ rest) = some (.response raw, rest) := by
  simp only [wfResponse, Bool.and_eq_true] at hw
  obtain ⟨hpre, hlen⟩ := hw
  cases hh : headEnd raw 0 with
  | none => simp [hh] at hlen
  | some h =>
    simp only [hh, beq_iff_eq] at hlen
    have hb := headEnd_bound raw 0 h hh
    have hpre' : rtspPrefix.isPrefixOf (raw ++ rest) = true := by
      rw [List.isPrefixOf_iff_prefix] at hpre ⊢
      exact hpre.trans (List.prefix_append raw rest)
    -- the stream does not start with '$'
    obtain ⟨tl, htl⟩ : ∃ tl, raw = 82 :: tl := by
      rw [List.isPrefixOf_iff_prefix] at hpre
      obtain ⟨u, hu⟩ := hpre
      exact ⟨[84, 83, 80, 47, 49, 46, 48, 32] ++ u, by rw [← hu]; rfl⟩
    have htake : (raw ++ rest).take h = raw.take h := List.take_append_of_le_length (by omega)
    have hs : raw ++ rest = 82 :: (tl ++ rest) := by rw [htl]; rfl
    have e : nextUnit (raw ++ rest) =
        (if !(rtspPrefix.isPrefixOf (raw ++ rest)) then none
         else match headEnd (raw ++ rest) 0 with
          | none => none
          | some h =>
            let total := h + contentLength ((raw ++ rest).take h)
            if (raw ++ rest).length < total then none
            else some (InterleaveSpec.Unit.response ((raw ++ rest).take total), (raw ++ rest).drop total)) := by
      rw [hs]
      unfold nextUnit
      split
      · rename_i heq; simp at heq
      · rfl
    rw [e]
    simp only [hpre', Bool.not_true, Bool.false_eq_true, ↓reduceIte, headEnd_append raw rest 0 h hh, htake, hlen]
    simp

theorem nextUnit_wf (u : InterleaveSpec.Unit) (rest : Bytes) (h : u.wf = true) : nextUnit (u.bytes ++ rest) = some (u, rest) := by
  cases u with
  | frame ch p => exact nextUnit_frame ch p rest (by simpa [InterleaveSpec.Unit.wf] using h)
  | response raw => exact nextUnit_response raw rest (by simpa [InterleaveSpec.Unit.wf] using h)

theorem wf_bytes_ne_nil (u : InterleaveSpec.Unit) (h : u.wf = true) : u.bytes ≠ [] := by
  cases u with
  | frame ch p => simp [InterleaveSpec.Unit.bytes, encodeFrame]
  | response raw =>
    simp only [InterleaveSpec.Unit.wf, wfResponse, Bool.and_eq_true] at h
    intro hn
    simp only [InterleaveSpec.Unit.bytes] at hn
    rw [hn] at h
    simp [rtspPrefix] at h

/-- a concatenation of complete units parses back into exactly those units -/
theorem parseStream_concat (us : List InterleaveSpec.Unit) (hw : ∀ u ∈ us, u.wf = true) (fuel : Nat)
    (hf : (us.map InterleaveSpec.Unit.bytes).flatten.length < fuel) :
    parseStream fuel (us.map InterleaveSpec.Unit.bytes).flatten = some us := by
  induction us generalizing fuel with
  | nil => cases fuel <;> simp [parseStream]
  | cons u r ih =>
    have hu := hw u (by simp)
    have hne := wf_bytes_ne_nil u hu
    simp only [List.map_cons, List.flatten_cons] at hf ⊢
    cases fuel with
    | zero => omega
    | succ n =>
      have hlen : 0 < u.bytes.length := List.length_pos_iff.mpr hne
      cases hb : u.bytes ++ (r.map InterleaveSpec.Unit.bytes).flatten with
      | nil => simp at hb; exact absurd hb.1 hne
      | cons c cs =>
        rw [← hb]
        simp only [parseStream, hb]
        rw [← hb, nextUnit_wf u _ hu]
        simp only
        rw [ih (fun v hv => hw v (by simp [hv])) n (by simp only [List.length_append] at hf; omega)]

end IpcHub.Writers
