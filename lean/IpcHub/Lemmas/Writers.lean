/-
Helper lemmas for Props/C13.lean.
-/
import IpcHub.Model.Writers
import IpcHub.Spec.Interleave
namespace IpcHub.Writers

/-! ### buffered.Conn keeps the order of the bytes -/

theorem flush_inv (c : BConn) : c.flush.sock ++ c.flush.buf = c.sock ++ c.buf := by
  unfold BConn.flush
  split
  · rfl
  · simp

theorem spill_inv (fuel : Nat) (c : BConn) (p : Bytes) :
    (BConn.spill fuel c p).1.sock ++ (BConn.spill fuel c p).1.buf ++ (BConn.spill fuel c p).2
      = c.sock ++ c.buf ++ p := by
  induction fuel generalizing c p with
  | zero => simp [BConn.spill]
  | succ n ih =>
    unfold BConn.spill
    split
    · split
      · rename_i h0
        have : c.buf = [] := by
          cases hb : c.buf with
          | nil => rfl
          | cons a l => simp [hb] at h0
        simp [this]
      · rw [ih, flush_inv]
        simp [List.append_assoc]
    · rfl

theorem write_inv (c : BConn) (p : Bytes) (l : Bool) :
    (c.write p l).sock ++ (c.write p l).buf = c.sock ++ c.buf ++ p := by
  have h := spill_inv (p.length + 2) c p
  unfold BConn.write
  generalize BConn.spill (p.length + 2) c p = r at h
  obtain ⟨c', p'⟩ := r
  simp only at h ⊢
  split
  · simp [← h, List.append_assoc]
  · split
    · rw [flush_inv]; simp [← h, List.append_assoc]
    · rename_i h1 h2
      have : c'.buf = [] := by
        cases hb : c'.buf with
        | nil => rfl
        | cons a l => simp [hb] at h2
      simp [← h, this]

theorem run_inv (c : BConn) (ops : List COp) :
    (c.run ops).sock ++ (c.run ops).buf = c.sock ++ c.buf ++ (payloads ops).flatten := by
  induction ops generalizing c with
  | nil => simp [BConn.run, payloads]
  | cons o r ih =>
    cases o with
    | write p l => simp [BConn.run, payloads, ih, write_inv, List.append_assoc]
    | flush => simp [BConn.run, payloads, ih, flush_inv]

theorem flush_empties (c : BConn) : c.flush.buf = [] := by
  unfold BConn.flush
  split
  · rename_i h
    cases hb : c.buf with
    | nil => rfl
    | cons a l => simp [hb] at h
  · rfl

/-! ### interleaved frames -/

open IpcHub.InterleaveSpec in
/-- a complete frame in front of anything is read back as that frame, leaving the rest -/
theorem nextUnit_frame (ch : UInt8) (p rest : Bytes) (h : p.length < 65536) :
    nextUnit (encodeFrame ch p ++ rest) = some (.frame ch p, rest) := by
  have h1 : p.length / 256 < 256 := by omega
  have h2 : p.length % 256 < 256 := by omega
  have e : (UInt8.ofNat (p.length / 256)).toNat * 256 + (UInt8.ofNat (p.length % 256)).toNat = p.length := by
    simp [UInt8.toNat_ofNat', Nat.mod_eq_of_lt h1, Nat.mod_eq_of_lt h2]
    omega
  simp only [encodeFrame, List.cons_append, List.nil_append, nextUnit]
  rw [e]
  simp

open IpcHub.InterleaveSpec in
theorem messageOk_frame (ch : UInt8) (p : Bytes) (h : p.length < 65536) :
    messageOk (encodeFrame ch p) = true := by
  have := nextUnit_frame ch p [] h
  simp only [List.append_nil] at this
  simp [messageOk, this]

open IpcHub.InterleaveSpec in
/-- `Packet.Write` hands its writer nothing (unsubscribed channel) or exactly the RFC 2326 frame, in two chunks -/
theorem packetWrites_flatten (ch : Int) (data : Bytes) (h : data.length < 65536) :
    (packetWrites ch data).flatten =
      if ch < 0 ∨ ch > 255 then [] else encodeFrame (UInt8.ofNat ch.toNat) data := by
  unfold packetWrites
  split
  · rfl
  · have : data.length / 256 % 256 = data.length / 256 := Nat.mod_eq_of_lt (by omega)
    simp [encodeFrame, this]

end IpcHub.Writers
