/-
Round-trip lemmas for the AudioSpecificConfig model against the ISO 14496-3 encoder.
-/
import IpcHub.Lemmas.Bits
import IpcHub.Lemmas.Pack
import IpcHub.Model.Asc
import IpcHub.Spec.AscSyntax
namespace IpcHub.Asc
open IpcHub.Bits IpcHub.BitSyntax IpcHub.AscSyntax

/-- the configuration the standard prescribes: Table 1.18, Table 1.19, the object type numbers of
    Table 1.17, FFmpeg's form of the MP3onMP4 draft guard -/
def stdCfg : Cfg :=
  { sampleRates := frequencyTable, channels := [0, 1, 2, 3, 4, 5, 6, 8], aotNull := 0, aotAacLc := 2, aotSbr := 5,
    aotErBsac := 22, aotPs := 29, aotEscape := 31, aotAls := 36, psGuardFFmpeg := true }

@[simp] theorem std_null : stdCfg.aotNull = 0 := rfl
@[simp] theorem std_lc : stdCfg.aotAacLc = 2 := rfl
@[simp] theorem std_sbr : stdCfg.aotSbr = 5 := rfl
@[simp] theorem std_bsac : stdCfg.aotErBsac = 22 := rfl
@[simp] theorem std_ps : stdCfg.aotPs = 29 := rfl
@[simp] theorem std_esc : stdCfg.aotEscape = 31 := rfl
@[simp] theorem std_als : stdCfg.aotAls = 36 := rfl
@[simp] theorem std_guard : stdCfg.psGuardFFmpeg = true := rfl

theorem getObjectType_enc (a : Nat) (r : List Bool) (h : a < 31 ∨ (32 ≤ a ∧ a ≤ 95)) :
    getObjectType stdCfg (encAot a ++ r) = .ok (a, r) := by
  unfold getObjectType encAot
  rcases h with h | h
  · have hne : a ≠ 31 := by omega
    simp [h, readU_u 5 8 a _ (by omega) (by omega), hne]
  · have hn : ¬ a < 31 := by omega
    have h2 : (a - 32 + 32) % 256 = a := by omega
    simp [hn, readU_u 5 8 31 _ (by omega) (by omega), readU_u 6 8 (a - 32) _ (by omega) (by omega), h2]

theorem sampleRateAt_table (idx : Nat) (s : List Bool) (h : idx ≤ 12) :
    sampleRateAt stdCfg idx s = .ok (frequencyTable.getD idx 0, s) := by
  have : idx = 0 ∨ idx = 1 ∨ idx = 2 ∨ idx = 3 ∨ idx = 4 ∨ idx = 5 ∨ idx = 6 ∨ idx = 7 ∨ idx = 8 ∨ idx = 9 ∨
      idx = 10 ∨ idx = 11 ∨ idx = 12 := by omega
  rcases this with h | h | h | h | h | h | h | h | h | h | h | h | h <;> subst h <;> rfl

theorem getSampleRate_enc (idx ef : Nat) (r : List Bool) (h : idx ≤ 12 ∨ idx = 15) (hf : ef < 2 ^ 24) :
    getSampleRate stdCfg (encFrequency idx ef ++ r) = .ok ((idx, frequencyOf idx ef), r) := by
  unfold getSampleRate encFrequency frequencyOf
  rcases h with h | h
  · have hne : idx ≠ 15 := by omega
    simp [hne, readU_u 4 8 idx _ (by omega) (by omega), sampleRateAt_table idx _ h]
  · subst h
    simp [readU_u 4 8 15 _ (by omega) (by omega), readU_u 24 64 ef _ (by omega) hf]

theorem syncScan_short (sr : Nat) (e : Ext) (l : List Bool) (h : l.length ≤ 15) :
    syncScan stdCfg sr e l = .ok (e, l) := by
  cases l with
  | nil => rfl
  | cons b rest =>
    have : ¬ ((b :: rest).length > 15) := by omega
    simp only [syncScan, this, if_false]

theorem channels_at (cc : Nat) (h : 1 ≤ cc ∧ cc ≤ 7) : channelsOf stdCfg cc = channelCount cc := by
  have : cc = 1 ∨ cc = 2 ∨ cc = 3 ∨ cc = 4 ∨ cc = 5 ∨ cc = 6 ∨ cc = 7 := by omega
  rcases this with h | h | h | h | h | h | h <;> subst h <;> rfl

theorem length_padding_le (n : Nat) : (padding n).length ≤ 7 := by
  simp only [padding, List.length_replicate]; omega

theorem length_encSpecific_le (s : AscSyntax) : (encSpecific s).length ≤ 3 := by
  unfold encSpecific; split <;> simp


theorem valOf_foldl (acc : Nat) (l : List Bool) :
    l.foldl (fun a b => 2 * a + b.toNat) acc = acc * 2 ^ l.length + valOf l := by
  induction l generalizing acc with
  | nil => simp [valOf]
  | cons b rest ih =>
    simp only [List.foldl_cons, List.length_cons, valOf]
    rw [ih, ih (2 * 0 + b.toNat)]
    rw [Nat.pow_succ]
    have : (2 * acc + b.toNat) * 2 ^ rest.length = acc * (2 ^ rest.length * 2) + (2 * 0 + b.toNat) * 2 ^ rest.length := by
      simp only [Nat.mul_zero, Nat.zero_add, Nat.add_mul]
      rw [Nat.mul_comm 2 acc, Nat.mul_assoc, Nat.mul_comm 2 (2 ^ rest.length)]
    omega

theorem valOf_append (l1 l2 : List Bool) : valOf (l1 ++ l2) = valOf l1 * 2 ^ l2.length + valOf l2 := by
  simp only [valOf, List.foldl_append]
  exact valOf_foldl _ _

theorem valOf_lt (l : List Bool) : valOf l < 2 ^ l.length := by
  induction l with
  | nil => simp [valOf]
  | cons b rest ih =>
    have := valOf_append [b] rest
    simp only [List.singleton_append] at this
    rw [this, List.length_cons, Nat.pow_succ]
    have hb : valOf [b] ≤ 1 := by cases b <;> simp [valOf]
    have : valOf [b] * 2 ^ rest.length ≤ 1 * 2 ^ rest.length := Nat.mul_le_mul_right _ hb
    omega

/-- the AOT_PS guard (FFmpeg form) lets hierarchical signalling through whenever the six bits after the
    first three of the next nine are not all zero -/
theorem psGuard_ok (l : List Bool) (h9 : 9 ≤ l.length) (hnz : valOf (l.take 9) % 64 ≠ 0) :
    psGuard stdCfg l = .ok (true, l) := by
  have h3 : ¬ (l.length < 3) := by omega
  have h9' : ¬ (l.length < 9) := by omega
  simp only [psGuard, bind_apply, peek, readU, std_guard, if_true]
  simp only [h3, if_false, show ¬ ((3 = 0) ∨ 3 > 64) by omega]
  by_cases ha : valOf (List.take 3 l) % 4 ≠ 0
  · rw [if_pos ha]
    simp only [bind_apply, peek, readU, h9', if_false, show ¬ ((9 = 0) ∨ 9 > 64) by omega, pure_apply]
    simp [hnz]
  · rw [if_neg ha]; rfl

theorem nine_nz (ei ef a : Nat) (r : List Bool) (hei : ei ≤ 12 ∨ ei = 15)
    (ha : (1 ≤ a ∧ a ≤ 4) ∨ (32 ≤ a ∧ a ≤ 95)) :
    9 ≤ (encFrequency ei ef ++ (encAot a ++ r)).length ∧
    valOf ((encFrequency ei ef ++ (encAot a ++ r)).take 9) % 64 ≠ 0 := by
  rcases hei with hei | hei
  · have hne : ei ≠ 15 := by omega
    obtain ⟨t, tail, ht, henc⟩ : ∃ t tail, (1 ≤ t ∧ t ≤ 31) ∧ encAot a = u 5 t ++ tail := by
      rcases ha with ha | ha
      · exact ⟨a, [], by omega, by simp [encAot, show a < 31 by omega]⟩
      · exact ⟨31, u 6 (a - 32), by omega, by simp [encAot, show ¬ a < 31 by omega]⟩
    simp only [encFrequency, hne, if_false, List.append_nil, henc, List.append_assoc]
    refine ⟨by simp; omega, ?_⟩
    have : u 4 ei ++ (u 5 t ++ (tail ++ r)) = (u 4 ei ++ u 5 t) ++ (tail ++ r) := by simp
    rw [this, List.take_left' (by simp), valOf_append, valOf_u, valOf_u, length_u]
    have h1 : ei % 2 ^ 4 = ei := Nat.mod_eq_of_lt (by omega)
    have h2 : t % 2 ^ 5 = t := Nat.mod_eq_of_lt (by omega)
    rw [h1, h2]; omega
  · subst hei
    simp only [encFrequency, if_true, List.append_assoc]
    refine ⟨by simp; omega, ?_⟩
    rw [List.take_append, List.take_of_length_le (by simp), valOf_append, valOf_u, length_u]
    have hl : (List.take (9 - 4) (u 24 ef ++ (encAot a ++ r))).length = 5 := by
      simp only [List.length_take, List.length_append, length_u]; omega
    have := valOf_lt (List.take (9 - 4) (u 24 ef ++ (encAot a ++ r)))
    rw [hl] at this ⊢
    omega

/-- what the theorem exposes of the decoded structure -/
def summary (a : Asc) : Nat × Nat × Nat × Nat × Nat :=
  (a.objectType, a.samplingIndex, a.sampleRate, a.channels, a.extSampleRate)

theorem ascBits_plain (s : AscSyntax) (wf : AscWF s) (hs : s.signalling = .plain) (pad : List Bool)
    (hp : pad.length ≤ 7) :
    ∃ a rest, ascBits stdCfg (encData s ++ pad) = .ok (a, rest) ∧
      summary a = (s.aot, s.samplingFrequencyIndex, frequencyOf s.samplingFrequencyIndex s.samplingFrequency,
                   channelCount s.channelConfiguration, 0) := by
  have haot : s.aot < 31 ∨ (32 ≤ s.aot ∧ s.aot ≤ 95) := by have := wf.aot; omega
  have h5 : s.aot ≠ 5 := by have := wf.aot; omega
  have h29 : s.aot ≠ 29 := by have := wf.aot; omega
  have h36 : s.aot ≠ 36 := by have := wf.aot; omega
  have hcc : s.channelConfiguration < 2 ^ 4 := by have := wf.cc; omega
  have hshort : (encSpecific s ++ pad).length ≤ 15 := by
    have := length_encSpecific_le s; simp only [List.length_append]; omega
  simp only [encData, hs, List.append_assoc, ascBits, bind_apply, getObjectType_enc _ _ haot,
    getSampleRate_enc _ _ _ wf.idx wf.freq, readU_u 4 8 _ _ (by omega) hcc, channels_at _ wf.cc]
  simp [h5, h29, h36, syncScan_short _ _ _ hshort, summary]


theorem ascBits_hier (s : AscSyntax) (wf : AscWF s) (ps : Bool) (ei ef : Nat)
    (hs : s.signalling = .hierarchical ps ei ef) (pad : List Bool) :
    ∃ a rest, ascBits stdCfg (encData s ++ pad) = .ok (a, rest) ∧
      summary a = (s.aot, s.samplingFrequencyIndex, frequencyOf s.samplingFrequencyIndex s.samplingFrequency,
                   channelCount s.channelConfiguration, frequencyOf ei ef) := by
  have hsig := wf.sig; rw [hs] at hsig; simp only at hsig
  obtain ⟨hei, hef, _⟩ := hsig
  have haot : s.aot < 31 ∨ (32 ≤ s.aot ∧ s.aot ≤ 95) := by have := wf.aot; omega
  have haot' : (1 ≤ s.aot ∧ s.aot ≤ 4) ∨ (32 ≤ s.aot ∧ s.aot ≤ 95) := by have := wf.aot; omega
  have h22 : s.aot ≠ 22 := by have := wf.aot; omega
  have h36 : s.aot ≠ 36 := by have := wf.aot; omega
  have hcc : s.channelConfiguration < 2 ^ 4 := by have := wf.cc; omega
  obtain ⟨h9, hnz⟩ := nine_nz ei ef s.aot (encSpecific s ++ pad) hei haot'
  cases ps
  · simp only [encData, hs, List.append_assoc, ascBits, bind_apply, Bool.false_eq_true, if_false,
      getObjectType_enc 5 _ (by omega), getSampleRate_enc _ _ _ wf.idx wf.freq, readU_u 4 8 _ _ (by omega) hcc,
      channels_at _ wf.cc, std_sbr, if_true, pure_apply, getSampleRate_enc _ _ _ hei hef, getObjectType_enc _ _ haot]
    simp [h22, h36, summary]
  · simp only [encData, hs, List.append_assoc, ascBits, bind_apply, if_true,
      getObjectType_enc 29 _ (by omega), getSampleRate_enc _ _ _ wf.idx wf.freq, readU_u 4 8 _ _ (by omega) hcc,
      channels_at _ wf.cc, std_sbr, std_ps, show (29 : Nat) ≠ 5 by omega, if_false, psGuard_ok _ h9 hnz, pure_apply,
      getSampleRate_enc _ _ _ hei hef, getObjectType_enc _ _ haot]
    simp [h22, h36, summary]


theorem u11_sync : u 11 0x2b7 = [false, true, false, true, false, true, true, false, true, true, true] := by decide
theorem u11_ps : u 11 0x548 = [true, false, true, false, true, false, false, true, false, false, false] := by decide

/-- the bit-by-bit search for 0x2b7 passes over the three GASpecificConfig bits (dependsOnCoreCoder = 0,
    extensionFlag = 0) without a false match and stops at the sync extension -/
theorem syncScan_ga (sr : Nat) (e : Ext) (f : Bool) (R : List Bool) (hR : 5 ≤ R.length) :
    syncScan stdCfg sr e (f :: false :: false :: (u 11 0x2b7 ++ R)) = syncBody stdCfg sr e R := by
  rw [u11_sync]
  have h0 : 15 < R.length + 11 + 1 + 1 + 1 := by omega
  have h1 : 15 < R.length + 11 + 1 + 1 := by omega
  have h2 : 15 < R.length + 11 + 1 := by omega
  have h3 : 15 < R.length + 11 := by omega
  cases f <;> simp [syncScan, valOf, h0, h1, h2, h3]


theorem syncBody_enc (sr : Nat) (e : Ext) (sbr : Bool) (ei ef : Nat) (ps : Option Bool) (pad : List Bool)
    (hei : ei ≤ 12 ∨ ei = 15) (hef : ef < 2 ^ 24) (hp : pad.length ≤ 7) :
    ∃ e' rest, syncBody stdCfg sr e (encAot 5 ++ (flag sbr ++ ((if sbr then encFrequency ei ef ++ encPsExt ps else []) ++ pad))) = .ok (e', rest) ∧
      e'.extSampleRate = (if sbr then frequencyOf ei ef else e.extSampleRate) := by
  have hnot : ¬ (pad.length > 11) := by omega
  cases sbr
  · simp [syncBody, getObjectType_enc 5 _ (by omega), readBit_flag, bitsLeft, hnot]
  · cases ps with
    | none =>
      simp [syncBody, encPsExt, getObjectType_enc 5 _ (by omega), readBit_flag, getSampleRate_enc _ _ _ hei hef, bitsLeft, hnot]
    | some p =>
      simp [syncBody, encPsExt, getObjectType_enc 5 _ (by omega), readBit_flag, getSampleRate_enc _ _ _ hei hef, bitsLeft,
        show (flag p).length = 1 from rfl, show 0 < 1 + pad.length by omega,
        readU_u 11 32 0x548 _ (by omega) (by omega)]

theorem ascBits_backward (s : AscSyntax) (wf : AscWF s) (sbr : Bool) (ei ef : Nat) (ps : Option Bool)
    (hs : s.signalling = .backward sbr ei ef ps) (pad : List Bool) (hp : pad.length ≤ 7) :
    ∃ a rest, ascBits stdCfg (encData s ++ pad) = .ok (a, rest) ∧
      summary a = (s.aot, s.samplingFrequencyIndex, frequencyOf s.samplingFrequencyIndex s.samplingFrequency,
                   channelCount s.channelConfiguration, if sbr then frequencyOf ei ef else 0) := by
  have hsig := wf.sig; rw [hs] at hsig; simp only at hsig
  obtain ⟨hei, hef, _, hga⟩ := hsig
  have haot : s.aot < 31 ∨ (32 ≤ s.aot ∧ s.aot ≤ 95) := by omega
  have h5 : s.aot ≠ 5 := by omega
  have h29 : s.aot ≠ 29 := by omega
  have h36 : s.aot ≠ 36 := by omega
  have hcc : s.channelConfiguration < 2 ^ 4 := by have := wf.cc; omega
  obtain ⟨e', rest, hbody, hrate⟩ := syncBody_enc (frequencyOf s.samplingFrequencyIndex s.samplingFrequency)
    { extObjectType := 0, sbr := -1, extSamplingIndex := 0, extSampleRate := 0, ps := -1 } sbr ei ef ps pad hei hef hp
  simp only [encData, hs, encSpecific, hga, and_self, if_true, List.append_assoc, ascBits, bind_apply,
    getObjectType_enc _ _ haot, getSampleRate_enc _ _ _ wf.idx wf.freq, readU_u 4 8 _ _ (by omega) hcc, channels_at _ wf.cc]
  have hscan := syncScan_ga (frequencyOf s.samplingFrequencyIndex s.samplingFrequency)
    { extObjectType := 0, sbr := -1, extSamplingIndex := 0, extSampleRate := 0, ps := -1 } s.frameLengthFlag
    (encAot 5 ++ (flag sbr ++ ((if sbr then encFrequency ei ef ++ encPsExt ps else []) ++ pad))) (by simp [encAot])
  simp [h5, h29, h36, hscan, hbody, summary, hrate]


theorem length_padding_aligned (d : List Bool) : (d ++ padding d.length).length % 8 = 0 := by
  simp only [padding, List.length_append, List.length_replicate]; omega

/-- extension sampling frequency the decoder must have found -/
def extRateOf (s : AscSyntax) : Nat :=
  match s.signalling with
  | .plain => 0
  | .hierarchical _ ei ef => frequencyOf ei ef
  | .backward sbr ei ef _ => if sbr then frequencyOf ei ef else 0

theorem decode_enc (s : AscSyntax) (wf : AscWF s) :
    ∃ a, decode stdCfg (encAsc s) = .ok a ∧
      summary a = (s.aot, s.samplingFrequencyIndex, frequencyOf s.samplingFrequencyIndex s.samplingFrequency,
                   channelCount s.channelConfiguration, extRateOf s) := by
  unfold decode encAsc
  rw [bitsOfBytes_pack _ (length_padding_aligned _)]
  have hp := length_padding_le (encData s).length
  cases hs : s.signalling with
  | plain =>
    obtain ⟨a, rest, h1, h2⟩ := ascBits_plain s wf hs _ hp
    exact ⟨a, by rw [h1], by simp [h2, extRateOf, hs]⟩
  | hierarchical ps ei ef =>
    obtain ⟨a, rest, h1, h2⟩ := ascBits_hier s wf ps ei ef hs (padding (encData s).length)
    exact ⟨a, by rw [h1], by simp [h2, extRateOf, hs]⟩
  | backward sbr ei ef ps =>
    obtain ⟨a, rest, h1, h2⟩ := ascBits_backward s wf sbr ei ef ps hs _ hp
    exact ⟨a, by rw [h1], by simp [h2, extRateOf, hs]⟩

theorem encAsc_ne_nil (s : AscSyntax) : encAsc s ≠ [] := by
  have h8 : 8 * 1 ≤ (encData s ++ padding (encData s).length).length := by
    have : 9 ≤ (encData s).length := by
      unfold encData
      split <;> simp [encAot, encFrequency] <;> (repeat' split) <;> simp <;> omega
    simp only [List.length_append]; omega
  have := length_pack_ge _ 1 h8
  intro h; unfold encAsc at h; rw [h] at this; simp at this

theorem metadataIsReady_enc (s : AscSyntax) (wf : AscWF s) :
    metadataIsReady stdCfg (encAsc s) = some (streamChannels s, streamRate s) := by
  obtain ⟨a, hd, hsum⟩ := decode_enc s wf
  have hne : (encAsc s).isEmpty = false := by
    have := encAsc_ne_nil s; cases h : encAsc s <;> simp_all
  simp only [summary, Prod.mk.injEq] at hsum
  obtain ⟨_, _, hsr, hch, hext⟩ := hsum
  simp only [metadataIsReady, hne, hd, hch, hext, hsr, streamChannels, streamRate, extRateOf]
  have hsig := wf.sig
  cases hs : s.signalling with
  | plain => simp
  | hierarchical ps ei ef => rw [hs] at hsig; simp [hsig.2.2]
  | backward sbr ei ef ps =>
    rw [hs] at hsig
    cases sbr <;> simp [hsig.2.2.1]

end IpcHub.Asc
