import IpcHub.Spec.PatternLang
namespace IpcHub.PathMatch
open IpcHub.PatternLang

/-! ### trimLeft / trimRight / trim -/

theorem trimLeft_idem (p : Char → Bool) (s : List Char) : trimLeft p (trimLeft p s) = trimLeft p s := by
  induction s with
  | nil => rfl
  | cons c cs ih =>
    by_cases h : p c
    · simp [trimLeft, h, ih]
    · simp [trimLeft, h]

theorem trimRight_nil_iff (p : Char → Bool) (s : List Char) : trimRight p s = [] ↔ ∀ c ∈ s, p c = true := by
  induction s with
  | nil => simp [trimRight]
  | cons c cs ih =>
    cases hr : trimRight p cs with
    | nil =>
      have hall := ih.mp hr
      by_cases h : p c
      · simp [trimRight, hr, h]; exact hall
      · simp [trimRight, hr, h]
    | cons r rs =>
      simp only [trimRight, hr]
      constructor
      · intro e; simp at e
      · intro hall
        have := ih.mpr (fun x hx => hall x (by simp [hx]))
        simp [hr] at this

theorem trimLeft_nil_of_all (p : Char → Bool) (s : List Char) (h : ∀ c ∈ s, p c = true) : trimLeft p s = [] := by
  induction s with
  | nil => rfl
  | cons c cs ih =>
    have hc : p c = true := h c (by simp)
    simp [trimLeft, hc]
    exact ih (fun x hx => h x (by simp [hx]))

theorem trimRight_cons_not (p : Char → Bool) (c : Char) (cs : List Char) (h : p c = false) :
    trimRight p (c :: cs) = c :: trimRight p cs := by
  cases hr : trimRight p cs <;> simp [trimRight, hr, h]

theorem trimRight_idem (p : Char → Bool) (s : List Char) : trimRight p (trimRight p s) = trimRight p s := by
  induction s with
  | nil => rfl
  | cons c cs ih =>
    cases hr : trimRight p cs with
    | nil =>
      by_cases h : p c <;> simp [trimRight, hr, h]
    | cons r rs =>
      have : trimRight p (c :: cs) = c :: r :: rs := by simp [trimRight, hr]
      rw [this]
      rw [hr] at ih
      have h2 : trimRight p (c :: r :: rs) = c :: r :: rs := by
        simp only [trimRight] at ih ⊢
        rw [ih]
      exact h2

theorem trimLeft_trimRight_comm (p : Char → Bool) (s : List Char) :
    trimLeft p (trimRight p s) = trimRight p (trimLeft p s) := by
  induction s with
  | nil => rfl
  | cons c cs ih =>
    by_cases h : p c
    · cases hr : trimRight p cs with
      | nil =>
        have hall := (trimRight_nil_iff p cs).mp hr
        simp [trimRight, hr, h, trimLeft, trimLeft_nil_of_all p cs hall]
      | cons r rs =>
        have : trimRight p (c :: cs) = c :: r :: rs := by simp [trimRight, hr]
        rw [this]
        have e1 : trimLeft p (c :: r :: rs) = trimLeft p (r :: rs) := by simp [trimLeft, h]
        have e2 : trimLeft p (c :: cs) = trimLeft p cs := by simp [trimLeft, h]
        rw [e1, e2, ← ih, hr]
    · have h' : p c = false := by simpa using h
      rw [trimRight_cons_not p c cs h']
      simp [trimLeft, h', trimRight_cons_not p c cs h']

theorem trim_idem (p : Char → Bool) (s : List Char) : trim p (trim p s) = trim p s := by
  unfold trim
  rw [trimLeft_trimRight_comm, trimLeft_idem, trimRight_idem]

theorem trim_false (s : List Char) : trim (fun _ => false) s = s := by
  have h1 : ∀ s, trimLeft (fun _ => false) s = s := by
    intro s; cases s <;> simp [trimLeft]
  have h2 : ∀ s, trimRight (fun _ => false) s = s := by
    intro s
    induction s with
    | nil => rfl
    | cons c cs ih => rw [trimRight_cons_not _ c cs rfl, ih]
  simp [trim, h1, h2]

/-! ### cut / splitOn -/

theorem splitOn_ne_nil (d : Char) (s : List Char) : splitOn d s ≠ [] := by
  cases s with
  | nil => simp [splitOn]
  | cons c cs =>
    unfold splitOn
    by_cases h : c = d
    · simp [h]
    · simp only [h, if_false]
      split <;> simp

theorem splitOn_cut (d : Char) (s : List Char) :
    splitOn d s = match cut d s with
      | none => [s]
      | some (a, b) => a :: splitOn d b := by
  induction s with
  | nil => simp [splitOn, cut]
  | cons c cs ih =>
    simp only [splitOn, cut]
    by_cases h : c = d
    · simp [h]
    · simp only [h, if_false]
      rw [ih]
      cases hc : cut d cs with
      | none => simp
      | some ab => obtain ⟨a, b⟩ := ab; simp

theorem cut_some_eq (d : Char) (s a b : List Char) (h : cut d s = some (a, b)) :
    s = a ++ d :: b ∧ d ∉ a := by
  induction s generalizing a with
  | nil => simp [cut] at h
  | cons c cs ih =>
    unfold cut at h
    by_cases hc : c = d
    · simp [hc] at h; obtain ⟨rfl, rfl⟩ := h; simp [hc]
    · simp only [hc, if_false] at h
      cases hcs : cut d cs with
      | none => simp [hcs] at h
      | some ab =>
        obtain ⟨a', b'⟩ := ab
        simp [hcs] at h
        obtain ⟨rfl, rfl⟩ := h
        obtain ⟨e, hn⟩ := ih a' hcs
        constructor
        · simp [e]
        · simp [hn]; exact fun h => hc h.symm

theorem cut_append (d : Char) (a b : List Char) (h : d ∉ a) : cut d (a ++ d :: b) = some (a, b) := by
  induction a with
  | nil => simp [cut]
  | cons c cs ih =>
    have hc : c ≠ d := fun e => h (by simp [e])
    have : d ∉ cs := fun e => h (by simp [e])
    simp [cut, hc, ih this]

theorem cut_none_iff (d : Char) (s : List Char) : cut d s = none ↔ d ∉ s := by
  induction s with
  | nil => simp [cut]
  | cons c cs ih =>
    unfold cut
    by_cases hc : c = d
    · simp [hc]
    · simp only [hc, if_false]
      cases hcs : cut d cs with
      | none =>
        have := ih.mp hcs
        simp [this]; exact fun h => hc h.symm
      | some ab =>
        obtain ⟨a, b⟩ := ab
        have := (cut_some_eq d cs a b hcs).1
        simp [this]

theorem partCount_eq (s : List Char) : partCount s + 1 = (splitOn '/' s).length := by
  induction s with
  | nil => simp [partCount, splitOn]
  | cons c cs ih =>
    unfold splitOn
    by_cases h : c = '/'
    · simp [h, partCount] at ih ⊢; omega
    · simp only [h, if_false]
      have hne := splitOn_ne_nil '/' cs
      cases hs : splitOn '/' cs with
      | nil => exact absurd hs hne
      | cons x xs =>
        simp [partCount, h, hs] at ih ⊢
        exact ih

/-! ### the matching loop -/

/-- prefix match of pattern parts against path segments -/
def zipMatch : List (List Char) → List (List Char) → Bool
  | [], _ => true
  | _ :: _, [] => false
  | p :: ps, x :: xs => (p = ['+'] || p = x) && zipMatch ps xs

theorem matchLoop_eq (cfg : Cfg) (h : cfg.pathTrims = false) (parts : List (List Char)) (s : List Char)
    (hl : parts.length ≤ (splitOn '/' s).length) :
    matchLoop cfg parts s true = zipMatch parts (splitOn '/' s) := by
  induction parts generalizing s with
  | nil => simp [matchLoop, zipMatch]
  | cons p ps ih =>
    rw [splitOn_cut] at hl ⊢
    simp only [matchLoop, h, if_true, scan]
    cases hc : cut '/' s with
    | none =>
      simp [hc] at hl
      subst hl
      simp [trim_false, zipMatch, matchLoop]
      by_cases hp : p = ['+'] <;> simp [hp]
      by_cases hs : s = p <;> simp [hs]
      exact fun e => hs e.symm
    | some ab =>
      obtain ⟨a, b⟩ := ab
      simp [hc] at hl
      simp only [zipMatch]
      have := ih b (by omega)
      by_cases hp : p = ['+']
      · simp [hp, this, trim_false]
      · by_cases ha : a = p
        · simp [hp, ha, this, trim_false]
        · have ha' : ¬ p = a := fun e => ha e.symm
          simp [hp, ha, ha', trim_false]

theorem segMatch_wild (parts xs : List (List Char)) :
    segMatch (parts ++ [['*']]) xs = (decide (parts.length ≤ xs.length) && zipMatch parts xs) := by
  induction parts generalizing xs with
  | nil => simp [segMatch, zipMatch]
  | cons p ps ih =>
    have hne : (ps ++ [['*']]).isEmpty = false := by cases ps <;> simp
    cases xs with
    | nil => simp [segMatch, zipMatch, hne]
    | cons x xs =>
      simp only [List.cons_append, segMatch, hne, Bool.false_and, ih, zipMatch]
      simp
      cases (decide (p = ['+']) || decide (p = x)) <;> simp

theorem segMatch_exact (parts xs : List (List Char)) (h : parts.getLast? ≠ some ['*']) :
    segMatch parts xs = (decide (parts.length = xs.length) && zipMatch parts xs) := by
  induction parts generalizing xs with
  | nil => cases xs <;> simp [segMatch, zipMatch]
  | cons p ps ih =>
    have hps : ps.getLast? ≠ some ['*'] := by
      intro e
      apply h
      cases ps with
      | nil => simp at e
      | cons q qs => simpa [List.getLast?_cons_cons] using e
    have hstar : (ps.isEmpty && decide (p = ['*'])) = false := by
      cases ps with
      | nil =>
        have : p ≠ ['*'] := by
          intro e; apply h; simp [e]
        simp [this]
      | cons q qs => simp
    cases xs with
    | nil => simp [segMatch, zipMatch, hstar]
    | cons x xs =>
      simp only [segMatch, hstar, ih xs hps, zipMatch]
      simp
      cases (decide (p = ['+']) || decide (p = x)) <;> simp

end IpcHub.PathMatch
