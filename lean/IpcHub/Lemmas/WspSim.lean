/-
The WSP control-channel session model refines the reference automaton (flavour wsp).
-/
import IpcHub.Lemmas.RtspOrder
namespace IpcHub.Rtsp
open IpcHub.RtspSpec

def wabsPhase (s : WSess) : Phase :=
  if s.closed then .closed
  else match s.status with
    | .init => if s.described then .described else .fresh
    | .ready => .readyPlay
    | .playing => .playing
    | .recording => .recording

def wmstateOf (s : WSess) : MState :=
  { phase := wabsPhase s, consumers := s.consumers, published := false }

structure WInv (s : WSess) : Prop where
  closedClean : s.closed = true → s.attached = false
  idle : s.closed = false → s.status = .init ∨ s.status = .ready → s.attached = false
  freshNoCtl : s.closed = false → s.described = false → s.vControl = [] ∧ s.aControl = []
  playing : s.closed = false → s.status = .playing → s.attached = true
  noRecording : s.status ≠ .recording

theorem winv_init (p : Str) : WInv (WSess.init p) := by
  constructor <;> simp [WSess.init]

theorem wabsPhase_open (s : WSess) (h : s.closed = false) : wabsPhase s ≠ .closed := by
  unfold wabsPhase
  rw [h]
  cases s.status <;> cases s.described <;> simp

theorem wfinish_sim (s : WSess) :
    WInv (wFinish s).1 ∧ (wFinish s).1.closed = true ∧ (wFinish s).1.consumers = 0 ∧ respsOf (wFinish s).2 = [] := by
  refine ⟨?_, rfl, rfl, ?_⟩
  · constructor <;> simp [wFinish]
  · simp only [wFinish, respsOf]
    crushBy (simp)

theorem wParseSdp_sum (s : WSess) (info : SdpInfo) (id : Nat) :
    (wParseSdp s info id).1.status = s.status ∧ (wParseSdp s info id).1.attached = s.attached ∧
    (wParseSdp s info id).1.closed = s.closed ∧ (wParseSdp s info id).1.described = s.described ∧
    ((wParseSdp s info id).2 = false →
      (wParseSdp s info id).1.vControl = s.vControl ∧ (wParseSdp s info id).1.aControl = s.aControl) := by
  unfold wParseSdp
  crushBy (simp)

theorem wOnDescribe_sum (s : WSess) (r : Req) (e : Env) :
    (wOnDescribe s e (mkResp r)).2.cseq = r.cseq ∧
    (wOnDescribe s e (mkResp r)).1.status = s.status ∧ (wOnDescribe s e (mkResp r)).1.attached = s.attached ∧
    (wOnDescribe s e (mkResp r)).1.closed = s.closed ∧
    (((wOnDescribe s e (mkResp r)).2.code = 200 ∧ (wOnDescribe s e (mkResp r)).1.described = true) ∨
     ((wOnDescribe s e (mkResp r)).2.code ≠ 200 ∧ (wOnDescribe s e (mkResp r)).2.code ≠ 455 ∧
      (wOnDescribe s e (mkResp r)).1.described = s.described ∧ (wOnDescribe s e (mkResp r)).1.vControl = s.vControl ∧
      (wOnDescribe s e (mkResp r)).1.aControl = s.aControl)) := by
  unfold wOnDescribe
  cases hl : e.lookup s.path with
  | none => simp [mkResp]
  | some st =>
    simp only
    by_cases h1 : (!e.permPull) = true
    · rw [if_pos h1]; simp [mkResp]
    · rw [if_neg h1]
      by_cases h2 : (st.sdp == 0) = true
      · rw [if_pos h2]; simp [mkResp]
      · rw [if_neg h2]
        have hp := wParseSdp_sum s (e.sdp st.sdp) st.sdp
        generalize wParseSdp s (e.sdp st.sdp) st.sdp = pr at hp
        obtain ⟨s1, ok⟩ := pr
        simp only at hp ⊢
        cases ok with
        | false =>
          simp only [Bool.not_false, ↓reduceIte]
          obtain ⟨a, b, c, d, f⟩ := hp
          obtain ⟨f1, f2⟩ := f rfl
          exact ⟨rfl, a, b, c, Or.inr ⟨by simp [mkResp], by simp [mkResp], d, f1, f2⟩⟩
        | true =>
          simp only [Bool.not_true, Bool.false_eq_true, ↓reduceIte]
          refine ⟨rfl, hp.1, hp.2.1, hp.2.2.1, Or.inl ⟨?_, ?_⟩⟩ <;> simp [mkResp]

theorem getControlPathWsp_nil (e : Env) : getControlPathWsp e [] = [] := rfl

theorem wToReady_fields (s : WSess) :
    (wToReady s).attached = s.attached ∧ (wToReady s).closed = s.closed ∧ (wToReady s).described = s.described ∧
    (wToReady s).vControl = s.vControl ∧ (wToReady s).aControl = s.aControl := by
  unfold wToReady
  split <;> simp

theorem wToReady_status (s : WSess) :
    (wToReady s).status = match s.status with
      | .init => .ready
      | st => st := by
  unfold wToReady
  cases h : s.status <;> simp [h, Status.toNat]

theorem wOnSetup_sum (s : WSess) (r : Req) (e : Env)
    (hm : s.described = false → s.vControl = [] ∧ s.aControl = []) :
    (wOnSetup s r e (mkResp r)).2.cseq = r.cseq ∧
    (wOnSetup s r e (mkResp r)).1.attached = s.attached ∧ (wOnSetup s r e (mkResp r)).1.closed = s.closed ∧
    (wOnSetup s r e (mkResp r)).1.described = s.described ∧ (wOnSetup s r e (mkResp r)).1.vControl = s.vControl ∧
    (wOnSetup s r e (mkResp r)).1.aControl = s.aControl ∧ (wOnSetup s r e (mkResp r)).2.code ≠ 455 ∧
    (((wOnSetup s r e (mkResp r)).2.code = 200 ∧ s.described = true ∧
        (wOnSetup s r e (mkResp r)).1.status = (wToReady s).status ∧ specSetupAsk r.transport ≠ .record) ∨
     ((wOnSetup s r e (mkResp r)).2.code ≠ 200 ∧ (wOnSetup s r e (mkResp r)).1.status = s.status)) := by
  by_cases hd : s.described = false
  · obtain ⟨hv, _⟩ := hm hd
    have : wOnSetup s r e (mkResp r) = (s, { mkResp r with code := 500, reason := .invalidVControl }) := by
      unfold wOnSetup
      simp [hv, getControlPathWsp_nil]
    rw [this]
    simp [mkResp]
  · have hd' : s.described = true := by simpa using hd
    unfold wOnSetup
    simp only
    by_cases hvp : (getControlPathWsp e s.vControl).isEmpty = true
    · rw [if_pos hvp]; simp [mkResp]
    · rw [if_neg hvp]
      cases hpt : pickTrack r.setupPath (getControlPathWsp e s.aControl) (getControlPathWsp e s.vControl) with
      | none => simp [mkResp]
      | some track =>
        simp only
        have hask := parseTransport_mode_ask s.tr track r.transport
        generalize parseTransport s.tr track r.transport = pr at hask
        obtain ⟨tr, err⟩ := pr
        simp only at hask ⊢
        cases err with
        | true => simp [mkResp]
        | false =>
          obtain ⟨hrec, _⟩ := hask rfl
          simp only [Bool.false_eq_true, ↓reduceIte]
          by_cases hmm : (tr.mode != Mode.play) = true
          · rw [if_pos hmm]; simp [mkResp]
          · rw [if_neg hmm]
            have hplay : tr.mode = .play := by simpa using hmm
            have ask1 : specSetupAsk r.transport ≠ .record := by
              intro hr; rw [hrec hr] at hplay; cases hplay
            by_cases htt : (tr.type != TType.tcp) = true
            · rw [if_pos htt]; simp [mkResp]
            · rw [if_neg htt]
              have tf := wToReady_fields { s with tr := tr }
              simp only at tf
              have hst : (wToReady { s with tr := tr }).status = (wToReady s).status := by simp [wToReady_status]
              exact ⟨rfl, tf.1, tf.2.1, tf.2.2.1, tf.2.2.2.1, tf.2.2.2.2, by simp [mkResp], Or.inl ⟨rfl, hd', hst, ask1⟩⟩

theorem wOnSetup_attached (s : WSess) (r : Req) (e : Env) :
    (wOnSetup s r e (mkResp r)).1.attached = s.attached := by
  unfold wOnSetup
  have tf := fun t : WSess => (wToReady_fields t).1
  crushBy (simp [tf])

theorem wOnPlay_sum (s : WSess) (r : Req) (e : Env) :
    ∃ x, respsOf (wOnPlay s r e (mkResp r)).2 = [x] ∧ x.cseq = r.cseq ∧
      (wOnPlay s r e (mkResp r)).1.closed = s.closed ∧ (wOnPlay s r e (mkResp r)).1.described = s.described ∧
      (wOnPlay s r e (mkResp r)).1.vControl = s.vControl ∧ (wOnPlay s r e (mkResp r)).1.aControl = s.aControl ∧
      x.code ≠ 455 ∧
      ((x.code = 200 ∧ (wOnPlay s r e (mkResp r)).1.status = .playing ∧
          (s.status = .playing → (wOnPlay s r e (mkResp r)).1.attached = s.attached) ∧
          (s.status ≠ .playing → (wOnPlay s r e (mkResp r)).1.attached = true)) ∨
       (x.code ≠ 200 ∧ (wOnPlay s r e (mkResp r)).1 = s)) := by
  unfold wOnPlay
  by_cases h1 : (s.status == Status.playing) = true
  · rw [if_pos h1]
    have : s.status = .playing := by simpa using h1
    exact ⟨mkResp r, rfl, rfl, rfl, rfl, rfl, rfl, by simp [mkResp], Or.inl ⟨rfl, this, fun _ => rfl, fun h => absurd this h⟩⟩
  · rw [if_neg h1]
    have hns : s.status ≠ .playing := by simpa using h1
    cases hl : e.lookup s.path with
    | none => exact ⟨_, rfl, rfl, rfl, rfl, rfl, rfl, by simp [mkResp], Or.inr ⟨by simp [mkResp], rfl⟩⟩
    | some st =>
      simp only
      by_cases h3 : (!e.permPull) = true
      · rw [if_pos h3]
        exact ⟨_, rfl, rfl, rfl, rfl, rfl, rfl, by simp [mkResp], Or.inr ⟨by simp [mkResp], rfl⟩⟩
      · rw [if_neg h3]
        refine ⟨{ mkResp r with range := some r.range }, ?_, rfl, rfl, rfl, rfl, rfl, by simp [mkResp],
          Or.inl ⟨rfl, rfl, fun h => absurd h hns, fun _ => rfl⟩⟩
        cases s.attached <;> simp [respsOf]

theorem wmstateOf_congr (s s' : WSess) (h1 : s'.status = s.status) (h2 : s'.described = s.described)
    (h3 : s'.closed = s.closed) (h4 : s'.attached = s.attached) : wmstateOf s' = wmstateOf s := by
  simp [wmstateOf, wabsPhase, WSess.consumers, h1, h2, h3, h4]

/-- One WRAPped request: the invariant is kept and the reference automaton (flavour wsp) accepts. -/
theorem wstep_sim (gate : Status → Method → Bool) (hG : gateEq gate refWspGate = true) (s : WSess) (r : Req) (e : Env)
    (hinv : WInv s) :
    WInv (wstep gate s r e).1 ∧
    mstep .wsp (wmstateOf s)
      (obsOf (.req r e) (wstep gate s r e).2 (wstep gate s r e).1.consumers false (wstep gate s r e).1.closed)
      = .ok (wmstateOf (wstep gate s r e).1) := by
  have hG := gateEq_spec hG
  by_cases hc : s.closed = true
  · have hs : wstep gate s r e = (s, []) := by simp [wstep, hc]
    rw [hs]
    exact ⟨hinv, mstep_closed _ _ _ (by simp [wmstateOf, wabsPhase, hc]) (by simp [obsOf, respsOf])⟩
  · have hc' : s.closed = false := by simpa using hc
    have hopen : (wmstateOf s).phase ≠ .closed := wabsPhase_open s hc'
    have hnr := hinv.noRecording
    by_cases hopt : r.method = .options
    · have hs : wstep gate s r e = (s, [.resp { mkResp r with isPublic := true }]) := by simp [wstep, hc', hopt]
      rw [hs]
      refine ⟨hinv, ?_⟩
      rw [obsOf_single r e _ _ _ _ _ rfl rfl]
      exact mstep_options _ _ _ hopen rfl rfl rfl rfl hopt hc' rfl rfl rfl
    · by_cases htd : r.method = .teardown
      · have hs : wstep gate s r e = ((wFinish s).1, .resp (mkResp r) :: (wFinish s).2) := by
          simp [wstep, hc', htd]
        rw [hs]
        obtain ⟨hfi, hfc, hf0, hfr⟩ := wfinish_sim s
        refine ⟨hfi, ?_⟩
        have hr : respsOf (Ev.resp (mkResp r) :: (wFinish s).2) = [mkResp r] := by
          show mkResp r :: respsOf (wFinish s).2 = _
          rw [hfr]
        rw [obsOf_single r e _ _ _ _ _ hr rfl]
        rw [mstep_teardown _ _ _ hopen rfl rfl rfl rfl htd hfc rfl hf0 rfl]
        simp [wmstateOf, wabsPhase, hfc, hf0]
      · have hgate := hG s.status r.method
        by_cases hg : gate s.status r.method = true
        · have hstep : wstep gate s r e =
              (match r.method with
                | .describe => ((wOnDescribe s e (mkResp r)).1, [.resp (wOnDescribe s e (mkResp r)).2])
                | .setup => ((wOnSetup s r e (mkResp r)).1, [.resp (wOnSetup s r e (mkResp r)).2])
                | .play => wOnPlay s r e (mkResp r)
                | .pause => (if s.status == .playing then { s with paused := true } else s, [.resp (mkResp r)])
                | _ => (s, [.resp { mkResp r with code := 455 }])) := by
            unfold wstep
            have h1 : (r.method == Method.options) = false := by simpa using hopt
            have h2 : (r.method == Method.teardown) = false := by simpa using htd
            simp only [hc', Bool.false_eq_true, ↓reduceIte, hg, Bool.not_true, h1, h2]
            cases r.method <;> rfl
          rw [hstep]
          rw [hgate] at hg
          cases hmeth : r.method with
          | options => exact absurd hmeth hopt
          | teardown => exact absurd hmeth htd
          | describe =>
            simp only
            have hst : s.status = .init := by
              cases hs : s.status <;> simp [refWspGate, hs, hmeth] at hg ⊢
              exact absurd hs hnr
            obtain ⟨hcs, h1, h2, h4, hcase⟩ := wOnDescribe_sum s r e
            have hatt := hinv.idle hc' (Or.inl hst)
            rw [obsOf_single r e _ _ _ _ _ rfl hcs]
            rcases hcase with ⟨h200, hdesc⟩ | ⟨hn200, hn455, hdesc, hv, ha⟩
            · refine ⟨⟨?_, ?_, ?_, ?_, ?_⟩, ?_⟩
              · intro h; rw [h4, hc'] at h; cases h
              · intro _ _; rw [h2]; exact hatt
              · intro _ h; rw [hdesc] at h; cases h
              · intro _ h; rw [h1, hst] at h; cases h
              · rw [h1]; exact hnr
              · rw [mstep_success .wsp _ _ .described hopen rfl rfl rfl rfl (by simp [hmeth]) (by simp [hmeth]) (by rw [h4]; exact hc')
                  h200 (by cases hd : s.described <;> simp [wmstateOf, wabsPhase, hc', hst, hd, legal, hmeth])
                  (by cases hd : s.described <;> simp [wmstateOf, wabsPhase, hc', hst, hd, succPhase, hmeth])
                  (by simp [WSess.consumers, h2, hatt]) (by simp)]
                simp [wmstateOf, wabsPhase, h4, hc', h1, hst, hdesc, WSess.consumers, h2, hatt]
            · refine ⟨⟨?_, ?_, ?_, ?_, ?_⟩, ?_⟩
              · intro h; rw [h4, hc'] at h; cases h
              · intro _ _; rw [h2]; exact hatt
              · intro _ h; rw [hdesc] at h; rw [hv, ha]; exact hinv.freshNoCtl hc' h
              · intro _ h; rw [h1, hst] at h; cases h
              · rw [h1]; exact hnr
              · rw [wmstateOf_congr s _ h1 hdesc h4 h2]
                exact mstep_refused .wsp _ _ hopen rfl rfl rfl rfl (by simp [hmeth]) (by simp [hmeth]) (by rw [h4]; exact hc')
                  hn455 hn200 (by cases hd : s.described <;> simp [wmstateOf, wabsPhase, hc', hst, hd, legal, hmeth])
                  (by simp [wmstateOf, WSess.consumers, h2]) (by simp [wmstateOf])
          | setup =>
            simp only
            have hst : s.status = .init ∨ s.status = .ready := by
              cases hs : s.status <;> simp [refWspGate, hs, hmeth] at hg ⊢
              exact absurd hs hnr
            have hatt := hinv.idle hc' hst
            obtain ⟨hcs, h2, h4, hdesc, hv, ha, hn455, hcase⟩ := wOnSetup_sum s r e (hinv.freshNoCtl hc')
            rw [obsOf_single r e _ _ _ _ _ rfl hcs]
            rcases hcase with ⟨h200, hd, hstat, ask1⟩ | ⟨hn200, hstat⟩
            · have hready : (wOnSetup s r e (mkResp r)).1.status = .ready := by
                rw [hstat, wToReady_status]; rcases hst with hst | hst <;> simp [hst]
              refine ⟨⟨?_, ?_, ?_, ?_, ?_⟩, ?_⟩
              · intro h; rw [h4, hc'] at h; cases h
              · intro _ _; rw [h2]; exact hatt
              · intro _ h; rw [hdesc, hd] at h; cases h
              · intro _ h; rw [hready] at h; cases h
              · rw [hready]; simp
              · rw [mstep_success .wsp _ _ .readyPlay hopen rfl rfl rfl rfl (by simp [hmeth]) (by simp [hmeth]) (by rw [h4]; exact hc')
                  h200 (by rcases hst with hst | hst <;> simp [wmstateOf, wabsPhase, hc', hst, hd, legal, hmeth])
                  (by rcases hst with hst | hst <;> simp [wmstateOf, wabsPhase, hc', hst, hd, succPhase, hmeth, ask1])
                  (by simp [WSess.consumers, h2, hatt]) (by simp)]
                simp [wmstateOf, wabsPhase, h4, hc', hready, WSess.consumers, h2, hatt]
            · refine ⟨⟨?_, ?_, ?_, ?_, ?_⟩, ?_⟩
              · intro h; rw [h4, hc'] at h; cases h
              · intro _ _; rw [h2]; exact hatt
              · intro _ h; rw [hdesc] at h; rw [hv, ha]; exact hinv.freshNoCtl hc' h
              · intro _ h; rw [hstat] at h; rcases hst with hst | hst <;> rw [hst] at h <;> cases h
              · rw [hstat]; exact hnr
              · rw [wmstateOf_congr s _ hstat hdesc h4 h2]
                exact mstep_refused .wsp _ _ hopen rfl rfl rfl rfl (by simp [hmeth]) (by simp [hmeth]) (by rw [h4]; exact hc')
                  hn455 hn200
                  (by rcases hst with hst | hst <;> cases hd : s.described <;> simp [wmstateOf, wabsPhase, hc', hst, hd, legal, hmeth])
                  (by simp [wmstateOf, WSess.consumers, h2]) (by simp [wmstateOf])
          | play =>
            simp only
            have hst : s.status = .ready ∨ s.status = .playing := by
              cases hs : s.status <;> simp [refWspGate, hs, hmeth] at hg ⊢
            obtain ⟨x, hx, hcs, hcl, hdesc, hv, ha, hn455, hcase⟩ := wOnPlay_sum s r e
            rw [obsOf_single r e _ _ _ _ _ hx hcs]
            rcases hcase with ⟨h200, hnst, hkeep, hnew⟩ | ⟨hn200, hsame⟩
            · have hattached : (wOnPlay s r e (mkResp r)).1.attached = true := by
                rcases hst with hst | hst
                · exact hnew (by rw [hst]; simp)
                · rw [hkeep hst]; exact hinv.playing hc' hst
              refine ⟨⟨?_, ?_, ?_, ?_, ?_⟩, ?_⟩
              · intro h; rw [hcl, hc'] at h; cases h
              · intro _ h; rw [hnst] at h; rcases h with h | h <;> cases h
              · intro _ h; rw [hdesc] at h; rw [hv, ha]; exact hinv.freshNoCtl hc' h
              · intro _ _; exact hattached
              · rw [hnst]; simp
              · rw [mstep_success .wsp _ _ .playing hopen rfl rfl rfl rfl (by simp [hmeth]) (by simp [hmeth]) (by rw [hcl]; exact hc')
                  h200 (by rcases hst with hst | hst <;> simp [wmstateOf, wabsPhase, hc', hst, legal, hmeth])
                  (by rcases hst with hst | hst <;> simp [wmstateOf, wabsPhase, hc', hst, succPhase, hmeth])
                  (by simp [WSess.consumers, hattached]) (by simp)]
                simp [wmstateOf, wabsPhase, hcl, hc', hnst, WSess.consumers, hattached]
            · rw [hsame]
              refine ⟨hinv, ?_⟩
              exact mstep_refused .wsp _ _ hopen rfl rfl rfl rfl (by simp [hmeth]) (by simp [hmeth]) hc' hn455 hn200
                (by rcases hst with hst | hst <;> simp [wmstateOf, wabsPhase, hc', hst, legal, hmeth]) rfl rfl
          | pause =>
            simp only
            have hst : s.status = .playing := by
              cases hs : s.status <;> simp [refWspGate, hs, hmeth] at hg ⊢
            have hatt := hinv.playing hc' hst
            have hs' : (if (s.status == Status.playing) = true then { s with paused := true } else s) = { s with paused := true } := by
              simp [hst]
            rw [hs']
            refine ⟨⟨?_, ?_, ?_, ?_, ?_⟩, ?_⟩
            · intro h; simp [hc'] at h
            · intro _ h; simp [hst] at h
            · intro _ h; exact hinv.freshNoCtl hc' h
            · intro _ _; exact hatt
            · exact hnr
            · rw [obsOf_single r e _ _ _ _ _ rfl rfl]
              rw [mstep_success .wsp _ _ .playing hopen rfl rfl rfl rfl (by simp [hmeth]) (by simp [hmeth]) hc'
                rfl (by simp [wmstateOf, wabsPhase, hc', hst, legal, hmeth])
                (by simp [wmstateOf, wabsPhase, hc', hst, succPhase, hmeth])
                (by simp [WSess.consumers, hatt]) (by simp)]
              simp [wmstateOf, wabsPhase, hc', hst, WSess.consumers, hatt]
          | announce | record | getParameter | setParameter | redirect | other =>
            simp only
            refine ⟨hinv, ?_⟩
            rw [obsOf_single r e _ _ _ _ _ rfl rfl]
            refine mstep_455 .wsp _ _ hopen rfl rfl rfl rfl (by simp [hmeth]) (by simp [hmeth]) hc' rfl rfl rfl ?_
            intro h
            first
              | (exfalso; simp [hmeth] at h; done)
              | (simp only [hmeth]
                 cases hs : s.status <;> cases hd : s.described <;> simp [wmstateOf, wabsPhase, hc', hs, hd, legal])
        · have hs : wstep gate s r e = (s, [.resp { mkResp r with code := 455 }]) := by
            unfold wstep
            have h1 : (r.method == Method.options) = false := by simpa using hopt
            have h2 : (r.method == Method.teardown) = false := by simpa using htd
            simp [hc', h1, h2, hg]
          rw [hs]
          refine ⟨hinv, ?_⟩
          rw [obsOf_single r e _ _ _ _ _ rfl rfl]
          rw [hgate] at hg
          refine mstep_455 .wsp _ _ hopen rfl rfl rfl rfl htd hopt hc' rfl rfl rfl ?_
          intro hm
          have hg' : refWspGate s.status r.method = false := by simpa using hg
          have hm' : r.method = .describe ∨ r.method = .announce ∨ r.method = .setup ∨ r.method = .pause := by
            rcases hm with hm | hm | hm | ⟨_, hm⟩ | ⟨hm, _⟩
            · exact Or.inl hm
            · exact Or.inr (Or.inl hm)
            · exact Or.inr (Or.inr (Or.inl hm))
            · cases hm
            · exact Or.inr (Or.inr (Or.inr hm))
          show legal .wsp (wabsPhase s) r.method = false
          rcases hm' with hm | hm | hm | hm <;>
            rw [hm] at hg' ⊢ <;>
            cases hs : s.status <;> cases hd : s.described <;> simp [refWspGate, hs] at hg' <;>
            simp [wabsPhase, hc', hs, hd, legal]

theorem wstepInput_sim (gate : Status → Method → Bool) (hG : gateEq gate refWspGate = true) (s : WSess) (i : Input)
    (hinv : WInv s) :
    WInv (wstepInput gate s i).1 ∧
    mcore .wsp (wmstateOf s)
        (obsOf i (wstepInput gate s i).2 (wstepInput gate s i).1.consumers false (wstepInput gate s i).1.closed)
      = .ok (wmstateOf (wstepInput gate s i).1) := by
  cases i with
  | req r e =>
    have := wstep_sim gate hG s r e hinv
    simp only [wstepInput, mcore, obsOf, Bool.false_eq_true, ↓reduceIte]
    exact this
  | frame ch hdrOk =>
    refine ⟨hinv, ?_⟩
    simp only [wstepInput, mcore, obsOf, respsOf, List.filterMap_nil, List.length_nil, ↓reduceIte, mframe]
    by_cases hc : s.closed = true
    · simp [wmstateOf, wabsPhase, hc]
    · have hc' : s.closed = false := by simpa using hc
      have := wabsPhase_open s hc'
      simp [wmstateOf, this, hc']
  | hangup =>
    simp only [mcore, obsOf, Bool.false_eq_true, ↓reduceIte]
    by_cases hc : s.closed = true
    · have hs : wstepInput gate s .hangup = (s, []) := by simp [wstepInput, wdisconnect, hc]
      rw [hs]
      exact ⟨hinv, mstep_closed _ _ _ (by simp [wmstateOf, wabsPhase, hc]) (by simp [obsOf, respsOf])⟩
    · have hc' : s.closed = false := by simpa using hc
      have hs : wstepInput gate s .hangup = wFinish s := by simp [wstepInput, wdisconnect, hc']
      rw [hs]
      obtain ⟨hfi, hfc, hf0, _⟩ := wfinish_sim s
      refine ⟨hfi, ?_⟩
      rw [mstep_hangup _ _ _ (wabsPhase_open s hc') rfl hfc hf0 rfl]
      simp [wmstateOf, wabsPhase, hfc, hf0]

/-- a WSP session that is attached to a stream is in the playing phase -/
theorem wattached_playing (s : WSess) (hinv : WInv s) (h : s.attached = true) : (wmstateOf s).phase = .playing := by
  cases hc : s.closed with
  | true => rw [hinv.closedClean hc] at h; cases h
  | false =>
    cases hs : s.status with
    | init => rw [hinv.idle hc (Or.inl hs)] at h; cases h
    | ready => rw [hinv.idle hc (Or.inr hs)] at h; cases h
    | playing => simp [wmstateOf, wabsPhase, hc, hs]
    | recording => exact absurd hs hinv.noRecording

/-- the consumer is attached only by a PLAY that is answered 200 -/
theorem wstep_attach (gate : Status → Method → Bool) (s : WSess) (r : Req) (e : Env) (ha : s.attached = false)
    (h : (wstep gate s r e).1.attached = true) :
    r.method = .play ∧ ∃ x, respsOf (wstep gate s r e).2 = [x] ∧ x.code = 200 := by
  unfold wstep at h ⊢
  by_cases hc : s.closed = true
  · simp [hc, ha] at h
  · have hc' : s.closed = false := by simpa using hc
    simp only [hc', Bool.false_eq_true, ↓reduceIte] at h ⊢
    by_cases hopt : r.method = .options
    · simp [hopt, ha] at h
    · have hopt' : (r.method == Method.options) = false := by simpa using hopt
      simp only [hopt', Bool.false_eq_true, ↓reduceIte] at h ⊢
      by_cases htd : r.method = .teardown
      · simp [htd, wFinish] at h
      · have htd' : (r.method == Method.teardown) = false := by simpa using htd
        simp only [htd', Bool.false_eq_true, ↓reduceIte] at h ⊢
        by_cases hg : gate s.status r.method = true
        · simp only [hg, Bool.not_true, Bool.false_eq_true, ↓reduceIte] at h ⊢
          cases hm : r.method with
          | play =>
            simp only [hm] at h ⊢
            obtain ⟨x, hx, _, _, _, _, _, _, hcase⟩ := wOnPlay_sum s r e
            refine ⟨trivial, x, hx, ?_⟩
            rcases hcase with ⟨h200, _⟩ | ⟨_, hsame⟩
            · exact h200
            · rw [hsame, ha] at h; cases h
          | describe =>
            simp only [hm] at h
            rw [(wOnDescribe_sum s r e).2.2.1, ha] at h; cases h
          | setup =>
            simp only [hm] at h
            have := wOnSetup_attached s r e
            rw [this, ha] at h; cases h
          | pause =>
            simp only [hm] at h
            split at h <;> simp [ha] at h
          | options => exact absurd hm hopt
          | teardown => exact absurd hm htd
          | announce => simp [hm, ha] at h
          | getParameter => simp [hm, ha] at h
          | setParameter => simp [hm, ha] at h
          | record => simp [hm, ha] at h
          | redirect => simp [hm, ha] at h
          | other => simp [hm, ha] at h
        · have hg' : gate s.status r.method = false := by simpa using hg
          simp [hg', ha] at h

/-- the media clause of the automaton holds for every WSP step of the model -/
theorem wmedia_ok (gate : Status → Method → Bool) (hG : gateEq gate refWspGate = true) (s : WSess) (i : Input)
    (hinv : WInv s) :
    mediaOk .wsp (wmstateOf s)
      { obsOf i (wstepInput gate s i).2 (wstepInput gate s i).1.consumers false (wstepInput gate s i).1.closed with
        sidOk := true, media := s.attached || (wstepInput gate s i).1.attached } = true := by
  cases ha : s.attached with
  | true => simp [mediaOk, wattached_playing s hinv ha]
  | false =>
    cases ha' : (wstepInput gate s i).1.attached with
    | false => simp [mediaOk]
    | true =>
      cases i with
      | hangup =>
        exfalso
        simp only [wstepInput, wdisconnect] at ha'
        split at ha'
        · rw [ha] at ha'; cases ha'
        · simp [wFinish] at ha'
      | frame ch hdrOk =>
        exfalso
        simp only [wstepInput] at ha'
        rw [ha] at ha'; cases ha'
      | req r e =>
        obtain ⟨hm, x, hx, h200⟩ := wstep_attach gate s r e ha ha'
        simp only [wstepInput] at hx ⊢
        simp [mediaOk, obsOf, hm, hx, h200]

def wfinal (gate : Status → Method → Bool) : WSess → List Input → WSess
  | s, [] => s
  | s, i :: is => wfinal gate (wstepInput gate s i).1 is

theorem wtrace_mrun (gate : Status → Method → Bool) (hG : gateEq gate refWspGate = true) (ins : List Input) (s : WSess)
    (hinv : WInv s) :
    mrun .wsp (wmstateOf s) (wtrace gate true s ins) = .ok (wmstateOf (wfinal gate s ins)) := by
  induction ins generalizing s with
  | nil => rfl
  | cons i is ih =>
    obtain ⟨hi, hm⟩ := wstepInput_sim gate hG s i hinv
    simp only [wtrace, wfinal, mrun]
    have hmedia := wmedia_ok gate hG s i hinv
    have hsid : ({ obsOf i (wstepInput gate s i).2 (wstepInput gate s i).1.consumers false (wstepInput gate s i).1.closed with
          sidOk := true, media := s.attached || (wstepInput gate s i).1.attached } : Obs) =
        { obsOf i (wstepInput gate s i).2 (wstepInput gate s i).1.consumers false (wstepInput gate s i).1.closed with
          media := s.attached || (wstepInput gate s i).1.attached } := by
      rw [← obsOf_sid i (wstepInput gate s i).2 (wstepInput gate s i).1.consumers false (wstepInput gate s i).1.closed]
    simp only [mguard, hmedia, Bool.not_true, Bool.false_eq_true, ↓reduceIte]
    rw [hsid, mcore_media, hm]
    exact ih _ hi

end IpcHub.Rtsp
