/-
Containment lemmas for the cache classifiers, ReadPacket / receive and the FLV / TS workers.
-/
import IpcHub.Lemmas.DepackTotal
import IpcHub.Model.Pipeline
namespace IpcHub.CacheClassify
open IpcHub.Depack (Bytes be16)

def Out.isCls : Out → Prop
  | .cls _ => True
  | _ => False

theorem loop264_total : ∀ (fuel : Nat) (rest : Bytes) (c : Cls), rest.length < fuel → (loop264 true fuel rest c).isCls := by
  intro fuel
  induction fuel with
  | zero => intro rest c h; omega
  | succ fuel ih =>
    intro rest c hlen
    match rest with
    | [] => simp [loop264, Out.isCls]
    | [_] => simp [loop264, Out.isCls]
    | hi :: lo :: tl =>
      simp only [loop264]
      split
      · trivial
      · match tl with
        | [] => simp [Out.isCls]
        | b :: tl' =>
          simp only
          split
          · trivial
          · apply ih; simp [List.length_drop] at hlen ⊢; omega

theorem loop265_total : ∀ (fuel : Nat) (rest : Bytes) (c : Cls), rest.length < fuel → (loop265 true fuel rest c).isCls := by
  intro fuel
  induction fuel with
  | zero => intro rest c h; omega
  | succ fuel ih =>
    intro rest c hlen
    match rest with
    | [] => simp [loop265, Out.isCls]
    | [_] => simp [loop265, Out.isCls]
    | hi :: lo :: tl =>
      simp only [loop265]
      split
      · trivial
      · match tl with
        | [] => simp [Out.isCls]
        | b :: tl' =>
          simp only
          split
          · trivial
          · apply ih; simp [List.length_drop] at hlen ⊢; omega

/-- the bounds-checked H.264 classifier classifies every payload (no panic, loop terminates) -/
theorem classify264_total (p : Bytes) : (classify264 true p).isCls := by
  unfold classify264
  split
  · trivial
  · rename_i hl
    match p with
    | [] => trivial
    | [_] => simp at hl
    | b0 :: b1 :: rest =>
      simp only
      split
      · exact loop264_total _ _ _ (by simp)
      · split
        · split <;> trivial
        · trivial

theorem classify265_total (p : Bytes) : (classify265 true p).isCls := by
  unfold classify265
  split
  · trivial
  · rename_i hl
    match p with
    | [] => trivial
    | [_] => trivial
    | [_, _] => simp at hl
    | b0 :: b1 :: b2 :: rest =>
      simp only
      split
      · exact loop265_total _ _ _ (by simp)
      · split
        · split <;> trivial
        · trivial

end IpcHub.CacheClassify

namespace IpcHub.RtpPacket

/-- with the tolerant ReadPacket no interleaved frame whatsoever ends the session -/
theorem receive_never_closes (cfg : Cfg) (h1 : cfg.unknownChannelTolerated = true) (h2 : cfg.badHeaderTolerated = true)
    (h3 : cfg.headerPanicRecovered = true) (chans : List Int) (ch : Nat) (data : Depack.Bytes) :
    receive cfg chans ch data ≠ .close ∧ receive cfg chans ch data ≠ .panic := by
  unfold receive
  split
  · simp [h1]
  · split
    · split <;> simp [h2, h3]
    · simp

end IpcHub.RtpPacket

namespace IpcHub.Depack

/-- every video frame handed on carries at least its NAL header byte -/
def VideoNonempty (fs : List Frame) : Prop := ∀ f ∈ fs, f.audio = false → f.payload ≠ []

theorem VideoNonempty.nil : VideoNonempty [] := by intro f hf; cases hf

theorem VideoNonempty.append {a b : List Frame} (ha : VideoNonempty a) (hb : VideoNonempty b) : VideoNonempty (a ++ b) := by
  intro f hf
  rcases List.mem_append.mp hf with h | h
  · exact ha f h
  · exact hb f h

theorem h264WriteFrame_out (cfg : Cfg) (ok : Bytes → Bool) (st : VSt) (ts : UInt32) (p : Bytes) :
    VideoNonempty (h264WriteFrame cfg ok st ts p).out := by
  cases p with
  | nil => simp [h264WriteFrame, VideoNonempty]
  | cons b bs =>
    simp only [h264WriteFrame]
    (repeat' split) <;> simp [VideoNonempty]

theorem h265WriteFrame_out (cfg : Cfg) (ok : Bytes → Bool) (st : VSt) (ts : UInt32) (p : Bytes) :
    VideoNonempty (h265WriteFrame cfg ok st ts p).out := by
  cases p with
  | nil => simp [h265WriteFrame, VideoNonempty]
  | cons b bs =>
    simp only [h265WriteFrame]
    (repeat' split) <;> simp [VideoNonempty]

theorem stapaLoop_out (cfg : Cfg) (ok : Bytes → Bool) (hdr : UInt8) (ts : UInt32) :
    ∀ (fuel : Nat) (st : VSt) (rest : Bytes) (acc : List Frame), VideoNonempty acc →
      VideoNonempty (stapaLoop cfg ok hdr ts fuel st rest acc).out := by
  intro fuel
  induction fuel with
  | zero => intro st rest acc h; simpa [stapaLoop] using h
  | succ fuel ih =>
    intro st rest acc hacc
    match rest with
    | [] => simp only [stapaLoop]; split <;> exact hacc
    | [_] => simp only [stapaLoop]; split <;> exact hacc
    | hi :: lo :: tl =>
      simp only [stapaLoop]
      split
      · exact hacc
      · split
        · exact hacc
        · have hw := h264WriteFrame_out cfg ok st ts
            (if cfg.stapaRewritesNri = true then rewriteNri hdr (tl.take (be16 hi lo) ++ List.replicate (be16 hi lo - tl.length) 0)
              else tl.take (be16 hi lo) ++ List.replicate (be16 hi lo - tl.length) 0)
          split
          · split
            · exact hacc.append hw
            · exact ih _ _ _ (hacc.append hw)
          · exact hacc.append hw

theorem apLoop_out (cfg : Cfg) (ok : Bytes → Bool) (ts : UInt32) :
    ∀ (fuel : Nat) (st : VSt) (rest : Bytes) (acc : List Frame), VideoNonempty acc →
      VideoNonempty (apLoop cfg ok ts fuel st rest acc).out := by
  intro fuel
  induction fuel with
  | zero => intro st rest acc h; simpa [apLoop] using h
  | succ fuel ih =>
    intro st rest acc hacc
    match rest with
    | [] => simp only [apLoop]; split <;> exact hacc
    | [_] => simp only [apLoop]; split <;> exact hacc
    | hi :: lo :: tl =>
      simp only [apLoop]
      split
      · exact hacc
      · split
        · exact hacc
        · have hw := h265WriteFrame_out cfg ok st ts (tl.take (be16 hi lo) ++ List.replicate (be16 hi lo - tl.length) 0)
          split
          · split
            · exact hacc.append hw
            · exact ih _ _ _ (hacc.append hw)
          · exact hacc.append hw

theorem vStep_out (cfg : Cfg) (ok : Bytes → Bool) (c : VCodec) (st : VSt) (p : Pkt) :
    VideoNonempty (vStep cfg ok c st p).out := by
  cases c with
  | h264 =>
    simp only [vStep, h264Step]
    split
    · exact VideoNonempty.nil
    · match hp : p.payload with
      | [] => exact VideoNonempty.nil
      | b0 :: rest =>
        simp only
        split
        · apply h264WriteFrame_out
        · split
          · simp only [h264Stapa, hp]; exact stapaLoop_out cfg ok b0 p.ts _ _ _ _ VideoNonempty.nil
          · split
            · simp only [h264FuA]
              (repeat' split) <;> first | exact VideoNonempty.nil | apply h264WriteFrame_out
            · exact VideoNonempty.nil
  | h265 =>
    simp only [vStep, h265Step]
    split
    · exact VideoNonempty.nil
    · match hp : p.payload with
      | [] => exact VideoNonempty.nil
      | b0 :: rest =>
        simp only
        split
        · cases rest with
          | nil =>
            simp only [h265Ap, hp]
            split <;> exact VideoNonempty.nil
          | cons b1 rest' =>
            simp only [h265Ap, hp]
            exact apLoop_out cfg ok p.ts _ _ _ _ VideoNonempty.nil
        · split
          · simp only [h265Fu]
            (repeat' split) <;> first | exact VideoNonempty.nil | apply h265WriteFrame_out
          · apply h265WriteFrame_out

theorem aacLoop_audio (cfg : Cfg) (base : UInt32) :
    ∀ (k : Nat) (hs fp : Bytes) (ts : UInt32) (acc : List Frame), (∀ f ∈ acc, f.audio = true) →
      ∀ f ∈ (aacLoop cfg base k hs fp ts acc).1, f.audio = true := by
  intro k
  induction k with
  | zero => intro hs fp ts acc h; simpa [aacLoop] using h
  | succ k ih =>
    intro hs fp ts acc hacc
    match hs with
    | [] => simpa [aacLoop] using hacc
    | [_] => simpa [aacLoop] using hacc
    | hi :: lo :: tl =>
      simp only [aacLoop]
      split
      · exact hacc
      · apply ih
        intro f hf
        rcases List.mem_append.mp hf with h | h
        · exact hacc f h
        · simp at h; simp [h]

theorem aacStep_audio (cfg : Cfg) (base : UInt32) (p : Pkt) : ∀ f ∈ (aacStep cfg base p).1, f.audio = true := by
  unfold aacStep
  match p.payload with
  | [] => intro f hf; simp at hf
  | [_] => intro f hf; simp at hf
  | hi :: lo :: rest =>
    simp only
    by_cases h : rest.length < 2 * (be16 hi lo >>> 4)
    · intro f hf; simp [h] at hf
    · simp only [h, if_false]
      exact aacLoop_audio cfg base _ _ _ _ [] (by intro f hf; cases hf)

theorem demuxStep_out (cfg : Cfg) (ok : Bytes → Bool) (d : DemuxSt) (i : In) :
    VideoNonempty (demuxStep cfg ok d i).2.1 := by
  unfold demuxStep
  split
  · exact VideoNonempty.nil
  · cases i with
    | video p => exact vStep_out cfg ok d.codec d.v p
    | vctl data => exact VideoNonempty.nil
    | audio p =>
      simp only
      split
      · intro f hf ha
        have := aacStep_audio cfg d.abase p f hf
        simp [this] at ha
      · exact VideoNonempty.nil
    | actl data =>
      simp only
      split <;> exact VideoNonempty.nil

end IpcHub.Depack

namespace IpcHub.Pipeline
open IpcHub.Depack

/-- the FLV worker survives every frame whose video payload is non-empty once it waits for the parameter sets -/
theorem flvStep_alive (cfg : Cfg) (hw : cfg.flvWaitsForParameterSets = true) (spsOk : Bytes → Bool) (c : VCodec) (hasAac : Bool) (m : VMeta)
    (s : FlvSt) (f : Frame) (hf : f.audio = false → f.payload ≠ []) :
    (flvStep cfg spsOk c hasAac m s f).1.alive = s.alive := by
  have key : ∀ {α : Type} (a b : α),
      (match f.audio, f.payload with | false, [] => a | _, _ => b) = b := by
    intro α a b
    cases hau : f.audio with
    | true => rfl
    | false =>
      cases hp : f.payload with
      | nil => exact absurd hp (hf hau)
      | cons _ _ => rfl
  unfold flvStep
  by_cases ha : s.alive
  · simp only [ha, Bool.not_true, Bool.false_eq_true, if_false, key, hw, Bool.true_and]
    by_cases hd : s.headerDone
    · simp [hd, ha]
    · simp only [hd, Bool.false_eq_true, if_false]
      by_cases hr : seqReady cfg spsOk c m
      · simp only [hr, Bool.not_true, Bool.false_eq_true, if_false]
        cases c with
        | h264 =>
          have h4 : ¬ m.sps.length < 4 := by
            have h := hr
            simp only [seqReady, Bool.and_eq_true, decide_eq_true_eq] at h
            omega
          simp [h4, ha]
        | h265 => simp [ha]
      · simp [hr, ha]
  · simp [ha]

theorem tsStep_alive (cfg : Cfg) (hc : cfg.tsAacChecked = true) (ascOk : Bool) (m : VMeta) (s : TsSt) (f : Frame)
    (hf : f.audio = false → f.payload ≠ []) :
    (tsStep cfg ascOk m s f).1.alive = s.alive := by
  unfold tsStep
  by_cases ha : s.alive
  · simp only [ha, Bool.not_true, Bool.false_eq_true, if_false]
    cases hau : f.audio with
    | true =>
      cases ascOk <;> simp [hc, ha]
    | false =>
      cases hp : f.payload with
      | nil => exact absurd hp (hf hau)
      | cons b bs => simp [ha]
  · simp [ha]

theorem feedFlv_alive (cfg : Cfg) (hw : cfg.flvWaitsForParameterSets = true) (spsOk : Bytes → Bool) (c : VCodec) (hasAac : Bool) (m : VMeta) :
    ∀ (fs : List Frame) (s : FlvSt), VideoNonempty fs → (feedFlv cfg spsOk c hasAac m s fs).1.alive = s.alive := by
  intro fs
  induction fs with
  | nil => intro s _; rfl
  | cons f fs ih =>
    intro s h
    simp only [feedFlv]
    rw [ih _ (fun g hg => h g (List.mem_cons_of_mem _ hg)),
        flvStep_alive cfg hw spsOk c hasAac m s f (h f (List.mem_cons_self ..))]

theorem feedTs_alive (cfg : Cfg) (hc : cfg.tsAacChecked = true) (ascOk : Bool) (m : VMeta) :
    ∀ (fs : List Frame) (s : TsSt), VideoNonempty fs → (feedTs cfg ascOk m s fs).1.alive = s.alive := by
  intro fs
  induction fs with
  | nil => intro s _; rfl
  | cons f fs ih =>
    intro s h
    simp only [feedTs]
    rw [ih _ (fun g hg => h g (List.mem_cons_of_mem _ hg)),
        tsStep_alive cfg hc ascOk m s f (h f (List.mem_cons_self ..))]

/-- all three converter goroutines survive one packet, whatever its bytes -/
theorem step_alive (dc : Depack.Cfg) (hdc : SafeCfg dc) (cfg : Cfg) (hw : cfg.flvWaitsForParameterSets = true)
    (hc : cfg.tsAacChecked = true) (spsOk : Bytes → Bool) (ascOk hasTs : Bool) (s : St) (i : In) :
    let s' := (step dc cfg spsOk ascOk hasTs s i).1
    s'.demux.alive = s.demux.alive ∧ s'.flv.alive = s.flv.alive ∧ s'.ts.alive = s.ts.alive := by
  simp only [step]
  have hv := demuxStep_out dc spsOk s.demux i
  refine ⟨demuxStep_alive dc hdc spsOk s.demux i, ?_, ?_⟩
  · exact feedFlv_alive cfg hw _ _ _ _ _ _ hv
  · cases hasTs with
    | true => exact feedTs_alive cfg hc _ _ _ _ hv
    | false => rfl

end IpcHub.Pipeline
