/-
"This reader program reads exactly n bits": a small calculus for the parts of a parser whose
result does not steer the parse (reserved bits, constraint flags), so that bit alignment can be
proved without tracking their values.
-/
import IpcHub.Lemmas.Bits
namespace IpcHub.Bits

/-- `p` succeeds on every input that starts with `n` bits, consumes exactly those, and leaves the rest -/
def Consumes {α : Type} (p : P α) (n : Nat) : Prop :=
  ∀ (l r : List Bool), l.length = n → ∃ a, p (l ++ r) = .ok (a, r)

theorem Consumes.pure {α : Type} (a : α) : Consumes (pure a : P α) 0 := by
  intro l r h
  have : l = [] := List.eq_nil_of_length_eq_zero h
  subst this; exact ⟨a, rfl⟩

theorem Consumes.readBit : Consumes readBit 1 := by
  intro l r h
  match l, h with
  | [b], _ => exact ⟨b.toNat, rfl⟩

theorem Consumes.skip (n : Nat) : Consumes (skip n) n := by
  intro l r h
  subst h
  exact ⟨(), skip_append l r⟩

theorem Consumes.readU (n max : Nat) (h : n ≤ max) : Consumes (readU n max) n := by
  intro l r hl
  unfold IpcHub.Bits.readU
  by_cases h0 : n = 0
  · subst h0
    have : l = [] := List.eq_nil_of_length_eq_zero hl
    subst this; exact ⟨0, by simp⟩
  · have h1 : ¬ (n = 0 ∨ n > max) := by omega
    have h2 : ¬ ((l ++ r).length < n) := by simp; omega
    simp only [h1, if_false, h2]
    exact ⟨_, by rw [List.drop_left' hl]⟩

theorem Consumes.bind {α β : Type} {p : P α} {f : α → P β} {a b : Nat}
    (hp : Consumes p a) (hf : ∀ x, Consumes (f x) b) : Consumes (p >>= f) (a + b) := by
  intro l r hl
  have h1 : (l.take a).length = a := by simp; omega
  have h2 : (l.drop a).length = b := by simp; omega
  obtain ⟨x, hx⟩ := hp (l.take a) (l.drop a ++ r) h1
  obtain ⟨y, hy⟩ := hf x (l.drop a) r h2
  refine ⟨y, ?_⟩
  have : l ++ r = l.take a ++ (l.drop a ++ r) := by rw [← List.append_assoc, List.take_append_drop]
  rw [this, bind_apply, hx]
  exact hy

theorem Consumes.ite {α : Type} {c : Prop} [Decidable c] {p q : P α} {n : Nat}
    (hp : Consumes p n) (hq : Consumes q n) : Consumes (if c then p else q) n := by
  split <;> assumption

/-- a peek in front of a program that consumes at least as many bits -/
theorem Consumes.peek_bind {β : Type} {f : Nat → P β} {k n : Nat} (hk : k ≤ n) (hk64 : k ≤ 64)
    (hf : ∀ x, Consumes (f x) n) : Consumes (peek k >>= f) n := by
  intro l r hl
  have hlen : ¬ ((l ++ r).length < k) := by simp; omega
  by_cases h0 : k = 0
  · subst h0
    simp only [bind_apply, peek, IpcHub.Bits.readU, true_or, if_true]
    exact hf 0 l r hl
  · have h1 : ¬ (k = 0 ∨ k > 64) := by omega
    simp only [bind_apply, peek, IpcHub.Bits.readU, h1, if_false, hlen]
    exact hf _ l r hl

theorem Consumes.cast {α : Type} {p : P α} {n m : Nat} (h : Consumes p n) (e : n = m) : Consumes p m := e ▸ h

end IpcHub.Bits

namespace IpcHub.Bits

/-- bind with the count of the continuation determined by subtraction (so that the total drives the proof) -/
theorem Consumes.bindSub {α β : Type} {p : P α} {f : α → P β} {a n : Nat}
    (hp : Consumes p a) (ha : a ≤ n) (hf : ∀ x, Consumes (f x) (n - a)) : Consumes (p >>= f) n :=
  (Consumes.bind hp hf).cast (by omega)

theorem Consumes.pure' {α : Type} (a : α) {n : Nat} (h : n = 0) : Consumes (Pure.pure a : P α) n := h ▸ Consumes.pure a

/-- discharge `Consumes prog n` for straight-line programs of readBit / skip / readU / if / pure -/
macro "consume_bits" : tactic => `(tactic| (
  repeat (first
    | exact Consumes.pure' _ (by omega)
    | apply Consumes.ite
    | refine Consumes.bindSub Consumes.readBit (by omega) (fun _ => ?_)
    | refine Consumes.bindSub (Consumes.skip _) (by omega) (fun _ => ?_)
    | refine Consumes.bindSub (Consumes.readU _ _ (by omega)) (by omega) (fun _ => ?_))))

end IpcHub.Bits
