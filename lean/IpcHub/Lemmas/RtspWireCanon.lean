/- Helper lemmas for C14: field names are matched case-insensitively against the table -/
import IpcHub.Model.RtspWireInst
import IpcHub.Lemmas.RtspWireFrame
namespace IpcHub.RtspWire

local notation "Bytes" => List UInt8

theorem upperAscii?_ascii (k : Bytes) (h : ∀ b ∈ k, b < 0x80) : upperAscii? k = some (k.map upperByte) := by
  induction k with
  | nil => simp [upperAscii?]
  | cons b t ih =>
    have hb := h b (by simp)
    have ht := ih (fun x hx => h x (by simp [hx]))
    rw [upperAscii?]
    · simp [hb, ht]
    · intro r e _; subst e; revert hb; decide
    · intro r e _; subst e; revert hb; decide

/-- a field name that equals a table entry up to ASCII case reads back as that entry, provided
    the table's upper-cased names are pairwise different -/
theorem canonKey_fold (cfg : Cfg) (hnd : (cfg.fieldNames.map (fun f => f.map upperByte)).Nodup)
    (f k : Bytes) (hf : f ∈ cfg.fieldNames) (hk : ∀ b ∈ k, b < 0x80) (he : k.map upperByte = f.map upperByte) :
    canonKey cfg k = f := by
  unfold canonKey
  rw [upperAscii?_ascii k hk]
  simp only
  have : cfg.fieldNames.find? (fun g => g.map upperByte == k.map upperByte) = some f := by
    rw [he]
    generalize cfg.fieldNames = l at hnd hf
    induction l with
    | nil => simp at hf
    | cons g gs ih =>
      simp only [List.map_cons, List.nodup_cons] at hnd
      simp only [List.mem_cons] at hf
      rw [List.find?_cons]
      by_cases e : g.map upperByte = f.map upperByte
      · rcases hf with hf | hf
        · subst hf; simp
        · exact absurd (by rw [e]; exact List.mem_map.mpr ⟨f, hf, rfl⟩) hnd.1
      · have hne : f ≠ g := fun h => e (by rw [h])
        rcases hf with hf | hf
        · exact absurd hf hne
        · have : (g.map upperByte == f.map upperByte) = false := beq_eq_false_iff_ne.mpr e
          simp only [this]
          exact ih hnd.2 hf
  rw [this]

/-- a name that matches no table entry (case-insensitively) is kept as it is -/
theorem canonKey_other (cfg : Cfg) (k : Bytes) (hk : ∀ b ∈ k, b < 0x80)
    (hno : ∀ f ∈ cfg.fieldNames, f.map upperByte ≠ k.map upperByte) : canonKey cfg k = k := by
  unfold canonKey
  rw [upperAscii?_ascii k hk]
  simp only
  have : cfg.fieldNames.find? (fun g => g.map upperByte == k.map upperByte) = none := by
    rw [List.find?_eq_none]; intro g hg; simpa using hno g hg
  rw [this]

end IpcHub.RtspWire
