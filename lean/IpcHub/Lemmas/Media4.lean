import IpcHub.Lemmas.Media3
namespace IpcHub.Media

/-! ### independence of consumers (C01, last sentence): projection onto one consumer -/

def Label.concerns (n : Nat) : Label → Bool
  | .pub _ => true
  | .close => true
  | .join m _ _ => m = n
  | .stop m => m = n
  | .cstep m => m = n
  | .stall m => m = n
  | .resume m => m = n

/-- `t` is `s` with every consumer other than `n` erased -/
structure Proj (n : Nat) (s t : St) : Prop where
  consts : t.consts = s.consts
  maxQ : t.maxQLen = s.maxQLen
  status : t.status = s.status
  cache : t.cache = s.cache
  published : t.published = s.published
  sk : t.sinceKeyPub = s.sinceKeyPub
  ms : t.maxSince = s.maxSince
  cons : t.cons = s.cons.filter (fun c => c.name = n)

theorem filter_map_comm (n : Nat) (l : List Cons) (F : Cons → Cons) (hF : ∀ c, (F c).name = c.name) :
    (l.map F).filter (fun c => c.name = n) = (l.filter (fun c => c.name = n)).map F := by
  induction l with
  | nil => rfl
  | cons c cs ih =>
    simp only [List.map_cons, List.filter_cons, hF]
    split <;> simp [ih]

theorem filter_map_other (n : Nat) (l : List Cons) (F : Cons → Cons) (hF : ∀ c, (F c).name = c.name)
    (hid : ∀ c, c.name = n → F c = c) :
    (l.map F).filter (fun c => c.name = n) = l.filter (fun c => c.name = n) := by
  induction l with
  | nil => rfl
  | cons c cs ih =>
    simp only [List.map_cons, List.filter_cons, hF]
    by_cases h : c.name = n
    · simp [h, ih, hid c h]
    · simp [h, ih]

theorem map_congr_filter (n : Nat) (l : List Cons) (F G : Cons → Cons) (h : ∀ c, c.name = n → F c = G c) :
    (l.filter (fun c => c.name = n)).map F = (l.filter (fun c => c.name = n)).map G := by
  apply List.map_congr_left
  intro c hc
  simp only [List.mem_filter, decide_eq_true_eq] at hc
  exact h c hc.2

theorem close_name (c : Cons) : (Cons.close c).name = c.name := (close_fields c).2.2.2

theorem hasName_proj (n : Nat) (s t : St) (h : Proj n s t) : t.hasName n = s.hasName n := by
  unfold St.hasName
  rw [h.cons]
  induction s.cons with
  | nil => rfl
  | cons c cs ih =>
    simp only [List.filter_cons, List.any_cons]
    by_cases hc : c.name = n
    · simp [hc]
    · simp [hc, ih]

theorem proj_step (n : Nat) (s t : St) (l : Label) (h : Proj n s t) :
    Proj n (s.step l) (if l.concerns n then t.step l else t) := by
  have hname := hasName_proj n s t h
  obtain ⟨tconsts, tmax, tstatus, tcache, tpub, tcons, tcount, tfault, tsk, tms⟩ := t
  obtain ⟨h1, h2, h3, h4, h5, h6, h7, h8⟩ := h
  simp only at h1 h2 h3 h4 h5 h6 h7 h8
  subst h1 h2 h3 h4 h5 h6 h7 h8
  cases l with
  | pub p =>
    simp only [Label.concerns, if_true, St.step]
    by_cases hst : s.status = 0
    · have hne : ¬ (s.status ≠ 0) := by simp [hst]
      simp only [if_neg hne]
      cases s.cache.pack s.consts p with
      | none => exact ⟨rfl, rfl, rfl, rfl, rfl, rfl, rfl, rfl⟩
      | some r =>
        obtain ⟨c', key⟩ := r
        refine ⟨rfl, rfl, rfl, rfl, rfl, rfl, rfl, ?_⟩
        simp only
        rw [filter_map_comm n _ _ (fun c => (send_fields _ _ _ c).2.2.2.1)]
    · simp only [if_pos hst]; exact ⟨rfl, rfl, rfl, rfl, rfl, rfl, rfl, rfl⟩
  | close =>
    simp only [Label.concerns, if_true, St.step]
    by_cases hst : s.status = 0
    · have hne : ¬ (s.status ≠ 0) := by simp [hst]
      simp only [if_neg hne]
      refine ⟨rfl, rfl, rfl, rfl, rfl, rfl, rfl, ?_⟩
      simp only
      rw [filter_map_comm n]
      intro c; split
      · exact close_name _
      · rfl
    · simp only [if_pos hst]; exact ⟨rfl, rfl, rfl, rfl, rfl, rfl, rfl, rfl⟩
  | join m useGop panicAt =>
    simp only [Label.concerns]
    by_cases hm : m = n
    · subst hm
      simp only [decide_true, if_true, St.step]
      rw [hname]
      by_cases hn : s.hasName m = true
      · simp only [hn, if_true]; exact ⟨rfl, rfl, rfl, rfl, rfl, rfl, rfl, rfl⟩
      · simp only [hn, Bool.false_eq_true, if_false]
        by_cases hst : s.status = 0
        · have hne : ¬ (s.status ≠ 0) := by simp [hst]
          simp only [if_neg hne]
          refine ⟨rfl, rfl, rfl, rfl, rfl, rfl, rfl, ?_⟩
          simp [List.filter_append]
        · simp only [if_pos hst]
          refine ⟨rfl, rfl, rfl, rfl, rfl, rfl, rfl, ?_⟩
          simp [List.filter_append, close_name]
    · simp only [hm, decide_false, Bool.false_eq_true, if_false, St.step]
      by_cases hn : s.hasName m = true
      · simp only [hn, if_true]; exact ⟨rfl, rfl, rfl, rfl, rfl, rfl, rfl, rfl⟩
      · simp only [hn, Bool.false_eq_true, if_false]
        by_cases hst : s.status = 0
        · have hne : ¬ (s.status ≠ 0) := by simp [hst]
          simp only [if_neg hne]
          refine ⟨rfl, rfl, rfl, rfl, rfl, rfl, rfl, ?_⟩
          simp [List.filter_append, hm]
        · simp only [if_pos hst]
          refine ⟨rfl, rfl, rfl, rfl, rfl, rfl, rfl, ?_⟩
          simp [List.filter_append, close_name, hm]
  | stop m =>
    simp only [Label.concerns]
    by_cases hm : m = n
    · subst hm
      simp only [decide_true, if_true, St.step]
      refine ⟨rfl, rfl, rfl, rfl, rfl, rfl, rfl, ?_⟩
      simp only
      rw [filter_map_comm m]
      intro c; split
      · exact close_name _
      · rfl
    · simp only [hm, decide_false, Bool.false_eq_true, if_false, St.step]
      refine ⟨rfl, rfl, rfl, rfl, rfl, rfl, rfl, ?_⟩
      simp only
      rw [filter_map_other n]
      · intro c; split
        · exact close_name _
        · rfl
      · intro c hc
        have : ¬ (c.name = m ∧ c.registered = true) := by rintro ⟨e, _⟩; exact hm (e ▸ hc)
        simp [this]
  | cstep m =>
    simp only [Label.concerns]
    by_cases hm : m = n
    · subst hm
      simp only [decide_true, if_true, St.step]
      refine ⟨rfl, rfl, rfl, rfl, rfl, rfl, rfl, ?_⟩
      simp only
      rw [filter_map_comm m]
      intro c; split
      · exact (step_fields c).2.2.2
      · rfl
    · simp only [hm, decide_false, Bool.false_eq_true, if_false, St.step]
      refine ⟨rfl, rfl, rfl, rfl, rfl, rfl, rfl, ?_⟩
      simp only
      rw [filter_map_other n]
      · intro c; split
        · exact (step_fields c).2.2.2
        · rfl
      · intro c hc
        have : ¬ (c.name = m) := by intro e; exact hm (e ▸ hc)
        simp [this]
  | stall m =>
    simp only [Label.concerns]
    by_cases hm : m = n
    · subst hm
      simp only [decide_true, if_true, St.step]
      refine ⟨rfl, rfl, rfl, rfl, rfl, rfl, rfl, ?_⟩
      simp only
      rw [filter_map_comm m]
      intro c; split <;> rfl
    · simp only [hm, decide_false, Bool.false_eq_true, if_false, St.step]
      refine ⟨rfl, rfl, rfl, rfl, rfl, rfl, rfl, ?_⟩
      simp only
      rw [filter_map_other n]
      · intro c; split <;> rfl
      · intro c hc
        have : ¬ (c.name = m) := by intro e; exact hm (e ▸ hc)
        simp [this]
  | resume m =>
    simp only [Label.concerns]
    by_cases hm : m = n
    · subst hm
      simp only [decide_true, if_true, St.step]
      refine ⟨rfl, rfl, rfl, rfl, rfl, rfl, rfl, ?_⟩
      simp only
      rw [filter_map_comm m]
      intro c; split <;> rfl
    · simp only [hm, decide_false, Bool.false_eq_true, if_false, St.step]
      refine ⟨rfl, rfl, rfl, rfl, rfl, rfl, rfl, ?_⟩
      simp only
      rw [filter_map_other n]
      · intro c; split <;> rfl
      · intro c hc
        have : ¬ (c.name = m) := by intro e; exact hm (e ▸ hc)
        simp [this]

theorem proj_run (n : Nat) (s t : St) (ls : List Label) (h : Proj n s t) :
    Proj n (s.run ls) (t.run (ls.filter (Label.concerns n))) := by
  induction ls generalizing s t with
  | nil => exact h
  | cons l ls ih =>
    have hs := proj_step n s t l h
    simp only [St.run, List.foldl_cons, List.filter_cons]
    by_cases hc : l.concerns n = true
    · simp only [hc, if_true, List.foldl_cons] at hs ⊢
      exact ih _ _ hs
    · simp only [hc, Bool.false_eq_true, if_false] at hs ⊢
      exact ih _ _ hs

end IpcHub.Media
