import IpcHub.Lemmas.Tables
import IpcHub.Lemmas.Fs
/-! Histories with failing and dying flushes reduce to plain histories (C18). -/
namespace IpcHub.Tables
open IpcHub.TableSpec
variable {V : Type}

theorem cstep_plain (o : Ops V) (guarded : Bool) (dflt : List V) (sv : Server V) (c : COp V) :
    Server.cstep o guarded dflt sv c = Server.run o guarded dflt sv c.plain := by
  cases c with
  | op x => rfl
  | failFlush => rfl
  | crashFlush p =>
    cases p with
    | false =>
      simp only [Server.cstep, COp.plain, Server.run, List.foldl, Server.step]
      cases hf : flush guarded sv.st with
      | mk st' w => cases w <;> simp
    | true =>
      simp only [Server.cstep, COp.plain, Server.run, List.foldl, Server.step]
      cases hf : flush guarded sv.st with
      | mk st' w => cases w <;> simp

theorem crun_plain (o : Ops V) (guarded : Bool) (dflt : List V) (cs : List (COp V)) : ∀ (sv : Server V),
    Server.crun o guarded dflt sv cs = Server.run o guarded dflt sv (cs.flatMap COp.plain) := by
  induction cs with
  | nil => intro sv; rfl
  | cons c rest ih =>
    intro sv
    have h1 : Server.crun o guarded dflt sv (c :: rest) = Server.crun o guarded dflt (Server.cstep o guarded dflt sv c) rest := rfl
    rw [h1, ih, cstep_plain, List.flatMap_cons, run_append]

theorem abs_cstep_plain (e : EntrySpec V) (dflt : List V) (a : Abs V) (c : COp V) :
    Abs.cstep e dflt a c = Abs.run e dflt a c.plain := by
  cases c with
  | op x => rfl
  | failFlush => rfl
  | crashFlush p => cases p <;> rfl

theorem abs_crun_plain (e : EntrySpec V) (dflt : List V) (cs : List (COp V)) : ∀ (a : Abs V),
    Abs.crun e dflt a cs = Abs.run e dflt a (cs.flatMap COp.plain) := by
  induction cs with
  | nil => intro a; rfl
  | cons c rest ih =>
    intro a
    have h1 : Abs.crun e dflt a (c :: rest) = Abs.crun e dflt (Abs.cstep e dflt a c) rest := rfl
    rw [h1, ih, abs_cstep_plain, List.flatMap_cons, abs_run_append]

/-- the simulation carries over to histories with failing and dying flushes -/
theorem sim_crun (o : Ops V) (L : Laws o) (e : EntrySpec V) (dflt : List V) (guarded : Bool) (h : Hyps o L e dflt)
    (cs : List (COp V)) (sv : Server V) (a : Abs V) (hs : Sim o L e dflt sv a) :
    Sim o L e dflt (Server.crun o guarded dflt sv cs) (Abs.crun e dflt a cs) := by
  rw [crun_plain, abs_crun_plain]
  exact sim_run o L e dflt guarded h _ sv a hs

/-- how a (re)starting server reads the table file: no file, a table, or something `LoadAll`
    rejects.  `dec` is `json.Unmarshal` on the file's bytes. -/
def diskOfBytes (dec : Fs.Bytes → Option (List V)) : Option Fs.Bytes → Disk V
  | none => .missing
  | some b => match dec b with
    | some t => .table t
    | none => .corrupt

end IpcHub.Tables
