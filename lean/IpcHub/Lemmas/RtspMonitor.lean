/-
How the reference monitor (`mstep`) reacts to the shapes of observation the model produces.
-/
import IpcHub.Lemmas.RtspSim
namespace IpcHub.Rtsp
open IpcHub.RtspSpec

theorem obsOf_single (r : Req) (e : Env) (evs : List Ev) (x : Resp) (c : Nat) (p cl : Bool)
    (h : respsOf evs = [x]) (hc : x.cseq = r.cseq) :
    obsOf (.req r e) evs c p cl =
      { hangup := false, method := r.method, ask := specSetupAsk r.transport, nresp := 1, code := x.code,
        cseqOk := true, sidOk := true, consumers := c, published := p, closed := cl } := by
  simp [obsOf, h, hc]

/-- the common prefix of `mstep` for a well-formed single response to a non-TEARDOWN request -/
theorem mstep_options (f : Flavour) (st : MState) (o : Obs) (hp : st.phase ≠ .closed)
    (h1 : o.hangup = false) (h2 : o.nresp = 1) (h3 : o.cseqOk = true) (h4 : o.sidOk = true)
    (hm : o.method = .options) (hcl : o.closed = false) (hcode : o.code = 200)
    (hc : o.consumers = st.consumers) (hpub : o.published = st.published) :
    mstep f st o = .ok st := by
  simp [mstep, mstepResp, mstepState, hp, h1, h2, h3, h4, hm, hcl, hcode, hc, hpub]

theorem mstep_teardown (f : Flavour) (st : MState) (o : Obs) (hp : st.phase ≠ .closed)
    (h1 : o.hangup = false) (h2 : o.nresp = 1) (h3 : o.cseqOk = true) (h4 : o.sidOk = true)
    (hm : o.method = .teardown) (hcl : o.closed = true) (hcode : o.code = 200)
    (hc : o.consumers = 0) (hpub : o.published = false) :
    mstep f st o = .ok { phase := .closed, consumers := 0, published := false } := by
  simp [mstep, mstepResp, mstepState, hp, h1, h2, h3, h4, hm, hcl, hcode, hc, hpub]

theorem mstep_hangup (f : Flavour) (st : MState) (o : Obs) (hp : st.phase ≠ .closed)
    (h1 : o.hangup = true) (hcl : o.closed = true) (hc : o.consumers = 0) (hpub : o.published = false) :
    mstep f st o = .ok { phase := .closed, consumers := 0, published := false } := by
  simp [mstep, mstepResp, mstepState, hp, h1, hcl, hc, hpub]

theorem mstep_closed (f : Flavour) (st : MState) (o : Obs) (hp : st.phase = .closed) (hn : o.nresp = 0) :
    mstep f st o = .ok st := by
  simp [mstep, mstepResp, mstepState, hp, hn]

theorem mstep_455 (f : Flavour) (st : MState) (o : Obs) (hp : st.phase ≠ .closed)
    (h1 : o.hangup = false) (h2 : o.nresp = 1) (h3 : o.cseqOk = true) (h4 : o.sidOk = true)
    (hm1 : o.method ≠ .teardown) (hm2 : o.method ≠ .options) (hcl : o.closed = false) (hcode : o.code = 455)
    (hc : o.consumers = st.consumers) (hpub : o.published = st.published)
    (hleg : (o.method = .describe ∨ o.method = .announce ∨ o.method = .setup ∨ (o.method = .play ∧ f = .rtsp) ∨
        (o.method = .pause ∧ f = .wsp)) → legal f st.phase o.method = false) :
    mstep f st o = .ok st := by
  have hl : ((o.method == .describe || o.method == .announce || o.method == .setup || (o.method == .play && f == .rtsp) ||
      (o.method == .pause && f == .wsp)) && legal f st.phase o.method) = false := by
    by_cases hx : (o.method = .describe ∨ o.method = .announce ∨ o.method = .setup ∨ (o.method = .play ∧ f = .rtsp) ∨
        (o.method = .pause ∧ f = .wsp))
    · rw [hleg hx]; simp
    · have : (o.method == .describe || o.method == .announce || o.method == .setup || (o.method == .play && f == .rtsp) ||
          (o.method == .pause && f == .wsp)) = false := by
        simp only [not_or, not_and] at hx
        simp [hx.1, hx.2.1, hx.2.2.1]
        exact ⟨hx.2.2.2.1, hx.2.2.2.2⟩
      rw [this]; simp
  simp [mstep, mstepResp, mstepState, hp, h1, h2, h3, h4, hm1, hm2, hcl, hcode, hc, hpub, hl]

theorem mstep_refused (f : Flavour) (st : MState) (o : Obs) (hp : st.phase ≠ .closed)
    (h1 : o.hangup = false) (h2 : o.nresp = 1) (h3 : o.cseqOk = true) (h4 : o.sidOk = true)
    (hm1 : o.method ≠ .teardown) (hm2 : o.method ≠ .options) (hcl : o.closed = false)
    (hcode1 : o.code ≠ 455) (hcode2 : o.code ≠ 200) (hleg : legal f st.phase o.method = true)
    (hc : o.consumers = st.consumers) (hpub : o.published = st.published) :
    mstep f st o = .ok st := by
  simp [mstep, mstepResp, mstepState, hp, h1, h2, h3, h4, hm1, hm2, hcl, hcode1, hcode2, hleg, hc, hpub]

theorem mstep_success (f : Flavour) (st : MState) (o : Obs) (ph : Phase) (hp : st.phase ≠ .closed)
    (h1 : o.hangup = false) (h2 : o.nresp = 1) (h3 : o.cseqOk = true) (h4 : o.sidOk = true)
    (hm1 : o.method ≠ .teardown) (hm2 : o.method ≠ .options) (hcl : o.closed = false)
    (hcode : o.code = 200) (hleg : legal f st.phase o.method = true)
    (hs : succPhase f st.phase o.method o.ask = some ph)
    (hc : o.consumers = if ph = .playing then 1 else 0) (hpub : o.published = decide (ph = .recording)) :
    mstep f st o = .ok { phase := ph, consumers := o.consumers, published := o.published } := by
  simp only [mstep, mstepResp, mstepState, hp, h1, h2, h3, h4, hm1, hm2, hcl, hcode, hleg, hs]
  by_cases hpl : ph = .playing <;> by_cases hrc : ph = .recording <;> simp_all

end IpcHub.Rtsp

namespace IpcHub.Rtsp
open IpcHub.RtspSpec

theorem absPhase_open (s : Sess) (h : s.closed = false) : absPhase s ≠ .closed := by
  unfold absPhase
  rw [h]
  cases s.status <;> cases s.mode <;> simp

theorem absPhase_closed (s : Sess) (h : s.closed = true) : absPhase s = .closed := by
  simp [absPhase, h]

/-- two states with the same status, mode, closed flag, role and pusher look the same to the monitor -/
theorem mstateOf_congr (s s' : Sess) (h1 : s'.status = s.status) (h2 : s'.mode = s.mode) (h3 : s'.closed = s.closed)
    (h4 : s'.role = s.role) (h5 : s'.pusher = s.pusher) : mstateOf s' = mstateOf s := by
  simp [mstateOf, absPhase, Sess.consumers, h1, h2, h3, h4, h5]

theorem finish_sim (s : Sess) :
    SInv (finish s).1 ∧ (finish s).1.closed = true ∧ (finish s).1.consumers = 0 ∧ (finish s).1.pusher = false ∧
    respsOf (finish s).2 = [] := by
  refine ⟨?_, rfl, rfl, rfl, ?_⟩
  · constructor <;> simp [finish]
  · simp only [finish, respsOf]
    crushBy (simp)

/-- One request: the invariant is kept and the reference automaton accepts what the client sees. -/
theorem step_sim (cfg : Cfg) (hcfg : cfgOk cfg = true) (s : Sess) (r : Req) (e : Env) (hinv : SInv s)
    (hwf : r.setupPath ≠ []) :
    SInv (step cfg s r e).1 ∧
    mstep .rtsp (mstateOf s)
      (obsOf (.req r e) (step cfg s r e).2 (step cfg s r e).1.consumers (step cfg s r e).1.pusher
        (step cfg s r e).1.closed) = .ok (mstateOf (step cfg s r e).1) := by
  obtain ⟨hA, hN, hG⟩ := cfgOk_spec hcfg
  by_cases hc : s.closed = true
  · have hs : step cfg s r e = (s, []) := by simp [step, hc]
    rw [hs]
    exact ⟨hinv, mstep_closed _ _ _ (absPhase_closed s hc) (by simp [obsOf, respsOf])⟩
  · have hc' : s.closed = false := by simpa using hc
    have hopen := absPhase_open s hc'
    by_cases hopt : r.method = .options
    · -- OPTIONS: answered, nothing changes
      have hs : step cfg s r e = (s, [.resp { mkResp r with isPublic := true }]) := by simp [step, hc', hopt]
      rw [hs]
      refine ⟨hinv, ?_⟩
      rw [obsOf_single r e _ _ _ _ _ rfl rfl]
      exact mstep_options _ _ _ hopen rfl rfl rfl rfl hopt hc' rfl rfl rfl
    · by_cases htd : r.method = .teardown
      · -- TEARDOWN: answered, then everything is released
        have hs : step cfg s r e = ((finish s).1, .resp (mkResp r) :: (finish s).2) := by
          simp [step, hc', htd]
        rw [hs]
        obtain ⟨hfi, hfc, hf0, hfp, hfr⟩ := finish_sim s
        refine ⟨hfi, ?_⟩
        have hr : respsOf (Ev.resp (mkResp r) :: (finish s).2) = [mkResp r] := by
          show mkResp r :: respsOf (finish s).2 = _
          rw [hfr]
        rw [obsOf_single r e _ _ _ _ _ hr rfl]
        rw [mstep_teardown _ _ _ hopen rfl rfl rfl rfl htd hfc rfl hf0 hfp]
        simp [mstateOf, absPhase, hfc, hf0, hfp]
      · -- everything else goes through the status gate
        have hgate := hG s.status r.method
        by_cases hg : cfg.gate s.status r.method = true
        · -- admitted by the gate
          have hstep : step cfg s r e =
              (match r.method with
                | .describe => ((onDescribe s r e (mkResp r)).1, [.resp (onDescribe s r e (mkResp r)).2])
                | .announce => ((onAnnounce s r e (mkResp r)).1, [.resp (onAnnounce s r e (mkResp r)).2])
                | .setup => ((onSetup s r e (mkResp r)).1, [.resp (onSetup s r e (mkResp r)).2])
                | .record => onRecord s e (mkResp r)
                | .play => onPlay cfg s r e (mkResp r)
                | _ => (s, [.resp { mkResp r with code := 455 }])) := by
            unfold step
            simp only [hc', Bool.false_eq_true, ↓reduceIte, hg, Bool.not_true]
            have h1 : (r.method == Method.options) = false := by simpa using hopt
            have h2 : (r.method == Method.teardown) = false := by simpa using htd
            simp only [h1, h2, Bool.false_eq_true, ↓reduceIte]
            cases r.method <;> rfl
          rw [hstep]
          rw [hgate] at hg
          cases hmeth : r.method with
          | options => exact absurd hmeth hopt
          | teardown => exact absurd hmeth htd
          | describe =>
            simp only
            have hst : s.status = .init := by
              cases hs : s.status <;> simp [refGate, hs, hmeth] at hg ⊢
            obtain ⟨hcs, h1, h2, h3, h4, _, hcase⟩ := onDescribe_sum s r e
            obtain ⟨hrole, hpush⟩ := hinv.initClean hc' hst
            rw [obsOf_single r e _ _ _ _ _ rfl hcs]
            rcases hcase with ⟨h200, hmode⟩ | ⟨hn200, hn455, hmode, hv, ha⟩
            · refine ⟨⟨?_, ?_, ?_, ?_, ?_, ?_⟩, ?_⟩
              · intro h; rw [h4, hc'] at h; cases h
              · intro _ _; rw [h2, h3]; exact ⟨hrole, hpush⟩
              · intro _ _ h; rw [hmode] at h; cases h
              · intro _ h; rw [h1, hst] at h; cases h
              · intro _ h; rw [h1, hst] at h; cases h
              · intro _ h; rw [h1, hst] at h; cases h
              · rw [mstep_success .rtsp _ _ .described hopen rfl rfl rfl rfl (by simp [hmeth]) (by simp [hmeth]) (by rw [h4]; exact hc')
                  h200 (by cases hm : s.mode <;> simp [mstateOf, absPhase, hc', hst, hm, legal, hmeth])
                  (by cases hm : s.mode <;> simp [mstateOf, absPhase, hc', hst, hm, succPhase, hmeth])
                  (by simp [Sess.consumers, h2, hrole]) (by simp [h3, hpush])]
                simp [mstateOf, absPhase, h4, hc', h1, hst, hmode, Sess.consumers, h2, hrole, h3, hpush]
            · refine ⟨⟨?_, ?_, ?_, ?_, ?_, ?_⟩, ?_⟩
              · intro h; rw [h4, hc'] at h; cases h
              · intro _ _; rw [h2, h3]; exact ⟨hrole, hpush⟩
              · intro _ _ h; rw [hmode] at h; rw [hv, ha]; exact hinv.freshNoCtl hc' hst h
              · intro _ h; rw [h1, hst] at h; cases h
              · intro _ h; rw [h1, hst] at h; cases h
              · intro _ h; rw [h1, hst] at h; cases h
              · rw [mstateOf_congr s _ h1 hmode h4 h2 h3]
                exact mstep_refused .rtsp _ _ hopen rfl rfl rfl rfl (by simp [hmeth]) (by simp [hmeth]) (by rw [h4]; exact hc')
                  hn455 hn200 (by cases hm : s.mode <;> simp [mstateOf, absPhase, hc', hst, hm, legal, hmeth])
                  (by simp [mstateOf, Sess.consumers, h2]) (by simp [mstateOf, h3])
          | announce =>
            simp only
            have hst : s.status = .init := by
              cases hs : s.status <;> simp [refGate, hs, hmeth] at hg ⊢
            obtain ⟨hcs, h1, h2, h3, h4, _, hcase⟩ := onAnnounce_sum s r e
            obtain ⟨hrole, hpush⟩ := hinv.initClean hc' hst
            rw [obsOf_single r e _ _ _ _ _ rfl hcs]
            rcases hcase with ⟨h200, hmode⟩ | ⟨hn200, hn455, hmode, hv, ha⟩
            · refine ⟨⟨?_, ?_, ?_, ?_, ?_, ?_⟩, ?_⟩
              · intro h; rw [h4, hc'] at h; cases h
              · intro _ _; rw [h2, h3]; exact ⟨hrole, hpush⟩
              · intro _ _ h; rw [hmode] at h; cases h
              · intro _ h; rw [h1, hst] at h; cases h
              · intro _ h; rw [h1, hst] at h; cases h
              · intro _ h; rw [h1, hst] at h; cases h
              · rw [mstep_success .rtsp _ _ .announced hopen rfl rfl rfl rfl (by simp [hmeth]) (by simp [hmeth]) (by rw [h4]; exact hc')
                  h200 (by cases hm : s.mode <;> simp [mstateOf, absPhase, hc', hst, hm, legal, hmeth])
                  (by cases hm : s.mode <;> simp [mstateOf, absPhase, hc', hst, hm, succPhase, hmeth])
                  (by simp [Sess.consumers, h2, hrole]) (by simp [h3, hpush])]
                simp [mstateOf, absPhase, h4, hc', h1, hst, hmode, Sess.consumers, h2, hrole, h3, hpush]
            · refine ⟨⟨?_, ?_, ?_, ?_, ?_, ?_⟩, ?_⟩
              · intro h; rw [h4, hc'] at h; cases h
              · intro _ _; rw [h2, h3]; exact ⟨hrole, hpush⟩
              · intro _ _ h; rw [hmode] at h; rw [hv, ha]; exact hinv.freshNoCtl hc' hst h
              · intro _ h; rw [h1, hst] at h; cases h
              · intro _ h; rw [h1, hst] at h; cases h
              · intro _ h; rw [h1, hst] at h; cases h
              · rw [mstateOf_congr s _ h1 hmode h4 h2 h3]
                exact mstep_refused .rtsp _ _ hopen rfl rfl rfl rfl (by simp [hmeth]) (by simp [hmeth]) (by rw [h4]; exact hc')
                  hn455 hn200 (by cases hm : s.mode <;> simp [mstateOf, absPhase, hc', hst, hm, legal, hmeth])
                  (by simp [mstateOf, Sess.consumers, h2]) (by simp [mstateOf, h3])
          | setup =>
            simp only
            have hst : s.status = .init ∨ s.status = .ready := by
              cases hs : s.status <;> simp [refGate, hs, hmeth] at hg ⊢
            have hm0 : s.mode = .unknown → s.vControl = [] ∧ s.aControl = [] := by
              intro hmu
              rcases hst with hst | hst
              · exact hinv.freshNoCtl hc' hst hmu
              · exact absurd hmu (hinv.ready hc' hst).2.2.1
            have hclean : s.role = .none ∧ s.pusher = false := by
              rcases hst with hst | hst
              · exact hinv.initClean hc' hst
              · exact ⟨(hinv.ready hc' hst).1, (hinv.ready hc' hst).2.1⟩
            obtain ⟨hrole, hpush⟩ := hclean
            obtain ⟨hcs, h2, h3, h4, hv, ha, hmode, hn455, hty, hcase⟩ := onSetup_sum s r e hm0 hwf
            rw [obsOf_single r e _ _ _ _ _ rfl hcs]
            rcases hcase with ⟨h200, hmne, hstat, htyok, ask1, ask2⟩ | ⟨hn200, hstat⟩
            · have hready : (onSetup s r e (mkResp r)).1.status = .ready := by
                rw [hstat, toReady_status]; rcases hst with hst | hst <;> simp [hst]
              refine ⟨⟨?_, ?_, ?_, ?_, ?_, ?_⟩, ?_⟩
              · intro h; rw [h4, hc'] at h; cases h
              · intro _ h; rw [hready] at h; cases h
              · intro _ h; rw [hready] at h; cases h
              · intro _ _; rw [h2, h3, hmode]; exact ⟨hrole, hpush, hmne, htyok⟩
              · intro _ h; rw [hready] at h; cases h
              · intro _ h; rw [hready] at h; cases h
              · cases hm : s.mode with
                | unknown => exact absurd hm hmne
                | play =>
                  rw [mstep_success .rtsp _ _ .readyPlay hopen rfl rfl rfl rfl (by simp [hmeth]) (by simp [hmeth]) (by rw [h4]; exact hc')
                    h200 (by rcases hst with hst | hst <;> simp [mstateOf, absPhase, hc', hst, hm, legal, hmeth])
                    (by
                      have := ask1 hm
                      rcases hst with hst | hst <;> simp [mstateOf, absPhase, hc', hst, hm, succPhase, hmeth, this])
                    (by simp [Sess.consumers, h2, hrole]) (by simp [h3, hpush])]
                  simp [mstateOf, absPhase, h4, hc', hready, hmode, hm, Sess.consumers, h2, hrole, h3, hpush]
                | record =>
                  rw [mstep_success .rtsp _ _ .readyRecord hopen rfl rfl rfl rfl (by simp [hmeth]) (by simp [hmeth]) (by rw [h4]; exact hc')
                    h200 (by rcases hst with hst | hst <;> simp [mstateOf, absPhase, hc', hst, hm, legal, hmeth])
                    (by
                      have := ask2 hm
                      rcases hst with hst | hst <;> simp [mstateOf, absPhase, hc', hst, hm, succPhase, hmeth, this])
                    (by simp [Sess.consumers, h2, hrole]) (by simp [h3, hpush])]
                  simp [mstateOf, absPhase, h4, hc', hready, hmode, hm, Sess.consumers, h2, hrole, h3, hpush]
            · refine ⟨⟨?_, ?_, ?_, ?_, ?_, ?_⟩, ?_⟩
              · intro h; rw [h4, hc'] at h; cases h
              · intro _ _; rw [h2, h3]; exact ⟨hrole, hpush⟩
              · intro _ h1 h; rw [hstat] at h1; rw [hmode] at h; rw [hv, ha]; exact hinv.freshNoCtl hc' h1 h
              · intro _ h1; rw [hstat] at h1; rw [h2, h3, hmode]
                exact ⟨hrole, hpush, (hinv.ready hc' h1).2.2.1, hty (hinv.ready hc' h1).2.2.2⟩
              · intro _ h1; rw [hstat] at h1; rcases hst with hst | hst <;> rw [hst] at h1 <;> cases h1
              · intro _ h1; rw [hstat] at h1; rcases hst with hst | hst <;> rw [hst] at h1 <;> cases h1
              · rw [mstateOf_congr s _ hstat hmode h4 h2 h3]
                exact mstep_refused .rtsp _ _ hopen rfl rfl rfl rfl (by simp [hmeth]) (by simp [hmeth]) (by rw [h4]; exact hc')
                  hn455 hn200 (by rcases hst with hst | hst <;> cases hm : s.mode <;> simp [mstateOf, absPhase, hc', hst, hm, legal, hmeth])
                  (by simp [mstateOf, Sess.consumers, h2]) (by simp [mstateOf, h3])
          | record =>
            simp only
            have hst : s.status = .ready ∨ s.status = .recording := by
              cases hs : s.status <;> simp [refGate, hs, hmeth] at hg ⊢
            obtain ⟨x, hx, hcs, hsame, hrec, h455, h200⟩ := onRecord_sum s r e
            rw [obsOf_single r e _ _ _ _ _ hx hcs]
            by_cases hcode : x.code = 200
            · rcases hst with hst | hst
              · -- ready → recording
                obtain ⟨hnew, hmrec⟩ := h200 (by rw [hst]; simp) hcode
                obtain ⟨hrole, hpush, _, _⟩ := hinv.ready hc' hst
                rw [hnew]
                refine ⟨⟨?_, ?_, ?_, ?_, ?_, ?_⟩, ?_⟩
                · intro h; simp [hc'] at h
                · intro _ h; cases h
                · intro _ h; cases h
                · intro _ h; cases h
                · intro _ h; cases h
                · intro _ _; exact ⟨hrole, rfl⟩
                · rw [mstep_success .rtsp _ _ .recording hopen rfl rfl rfl rfl (by simp [hmeth]) (by simp [hmeth]) hc'
                    hcode (by simp [mstateOf, absPhase, hc', hst, hmrec, legal, hmeth])
                    (by simp [mstateOf, absPhase, hc', hst, hmrec, succPhase, hmeth])
                    (by simp [Sess.consumers, hrole]) (by simp)]
                  simp [mstateOf, absPhase, hc', Sess.consumers, hrole]
              · -- already recording
                obtain ⟨hsm, _⟩ := hrec hst
                obtain ⟨hrole, hpush⟩ := hinv.recording hc' hst
                rw [hsm]
                refine ⟨hinv, ?_⟩
                rw [mstep_success .rtsp _ _ .recording hopen rfl rfl rfl rfl (by simp [hmeth]) (by simp [hmeth]) hc'
                  hcode (by simp [mstateOf, absPhase, hc', hst, legal, hmeth])
                  (by simp [mstateOf, absPhase, hc', hst, succPhase, hmeth])
                  (by simp [Sess.consumers, hrole]) (by simp [hpush])]
                simp [mstateOf, absPhase, hc', hst, Sess.consumers, hrole, hpush]
            · rw [hsame hcode]
              refine ⟨hinv, ?_⟩
              by_cases h45 : x.code = 455
              · exact mstep_455 .rtsp _ _ hopen rfl rfl rfl rfl (by simp [hmeth]) (by simp [hmeth]) hc' h45 rfl rfl
                  (by intro h; simp [hmeth] at h)
              · have hstr : s.status = .ready := by
                  rcases hst with hst | hst
                  · exact hst
                  · exact absurd (hrec hst).2 hcode
                have hmrec : s.mode = .record := Classical.byContradiction fun hne =>
                  h45 (h455 (by rw [hstr]; simp) hne)
                exact mstep_refused .rtsp _ _ hopen rfl rfl rfl rfl (by simp [hmeth]) (by simp [hmeth]) hc' h45 hcode
                  (by simp [mstateOf, absPhase, hc', hstr, hmrec, legal, hmeth]) rfl rfl
          | play =>
            simp only
            have hst : s.status = .ready ∨ s.status = .playing := by
              cases hs : s.status <;> simp [refGate, hs, hmeth] at hg ⊢
            obtain ⟨x, hx, hcs, hpu, hcl, hsame, hpl, h200, h455⟩ := onPlay_sum cfg hA hN s r e
            rw [obsOf_single r e _ _ _ _ _ hx hcs]
            rcases hst with hst | hst
            · obtain ⟨hrole, hpush, hmne, htyne⟩ := hinv.ready hc' hst
              have hnp : s.status ≠ .playing := by rw [hst]; simp
              by_cases hcode : x.code = 200
              · obtain ⟨hnst, hnrole⟩ := h200 hnp hcode
                have hmplay : s.mode = .play := Classical.byContradiction fun hne => by
                  have := (h455 hnp).2 (Or.inl hne)
                  rw [hcode] at this; cases this
                refine ⟨⟨?_, ?_, ?_, ?_, ?_, ?_⟩, ?_⟩
                · intro h; rw [hcl, hc'] at h; cases h
                · intro _ h; rw [hnst] at h; cases h
                · intro _ h; rw [hnst] at h; cases h
                · intro _ h; rw [hnst] at h; cases h
                · intro _ _; rw [hpu]; exact ⟨hnrole, hpush⟩
                · intro _ h; rw [hnst] at h; cases h
                · rw [mstep_success .rtsp _ _ .playing hopen rfl rfl rfl rfl (by simp [hmeth]) (by simp [hmeth]) (by rw [hcl]; exact hc')
                    hcode (by simp [mstateOf, absPhase, hc', hst, hmplay, legal, hmeth])
                    (by simp [mstateOf, absPhase, hc', hst, hmplay, succPhase, hmeth])
                    (by simp [Sess.consumers, hnrole]) (by simp [hpu, hpush])]
                  simp [mstateOf, absPhase, hcl, hc', hnst, Sess.consumers, hnrole, hpu, hpush]
              · rw [hsame hcode]
                refine ⟨hinv, ?_⟩
                by_cases h45 : x.code = 455
                · have hmrec : s.mode = .record := by
                    rcases (h455 hnp).1 h45 with h | h
                    · cases hm : s.mode with
                      | unknown => exact absurd hm hmne
                      | play => exact absurd hm h
                      | record => rfl
                    · exact absurd h htyne
                  exact mstep_455 .rtsp _ _ hopen rfl rfl rfl rfl (by simp [hmeth]) (by simp [hmeth]) hc' h45 rfl rfl
                    (by intro _; simp [mstateOf, absPhase, hc', hst, hmrec, legal, hmeth])
                · have hmplay : s.mode = .play := Classical.byContradiction fun hne => h45 ((h455 hnp).2 (Or.inl hne))
                  exact mstep_refused .rtsp _ _ hopen rfl rfl rfl rfl (by simp [hmeth]) (by simp [hmeth]) hc' h45 hcode
                    (by simp [mstateOf, absPhase, hc', hst, hmplay, legal, hmeth]) rfl rfl
            · -- already playing: keep-alive PLAY
              obtain ⟨hsm, hcode⟩ := hpl hst
              obtain ⟨hrole, hpush⟩ := hinv.playing hc' hst
              rw [hsm]
              refine ⟨hinv, ?_⟩
              rw [mstep_success .rtsp _ _ .playing hopen rfl rfl rfl rfl (by simp [hmeth]) (by simp [hmeth]) hc'
                hcode (by simp [mstateOf, absPhase, hc', hst, legal, hmeth])
                (by simp [mstateOf, absPhase, hc', hst, succPhase, hmeth])
                (by simp [Sess.consumers, hrole]) (by simp [hpush])]
              simp [mstateOf, absPhase, hc', hst, Sess.consumers, hrole, hpush]
          | pause | getParameter | setParameter | redirect | other =>
            simp only
            refine ⟨hinv, ?_⟩
            rw [obsOf_single r e _ _ _ _ _ rfl rfl]
            exact mstep_455 .rtsp _ _ hopen rfl rfl rfl rfl (by simp [hmeth]) (by simp [hmeth]) hc' rfl rfl rfl
              (by intro h; simp [hmeth] at h)
        · -- refused by the gate: 455, nothing changes
          have hs : step cfg s r e = (s, [.resp { mkResp r with code := 455 }]) := by
            unfold step
            have h1 : (r.method == Method.options) = false := by simpa using hopt
            have h2 : (r.method == Method.teardown) = false := by simpa using htd
            simp [hc', h1, h2, hg]
          rw [hs]
          refine ⟨hinv, ?_⟩
          rw [obsOf_single r e _ _ _ _ _ rfl rfl]
          rw [hgate] at hg
          refine mstep_455 .rtsp _ _ hopen rfl rfl rfl rfl htd hopt hc' rfl rfl rfl ?_
          intro hm
          have hg' : refGate s.status r.method = false := by simpa using hg
          have hm' : r.method = .describe ∨ r.method = .announce ∨ r.method = .setup ∨ r.method = .play := by
            rcases hm with hm | hm | hm | ⟨hm, _⟩ | ⟨_, hf⟩
            · exact Or.inl hm
            · exact Or.inr (Or.inl hm)
            · exact Or.inr (Or.inr (Or.inl hm))
            · exact Or.inr (Or.inr (Or.inr hm))
            · cases hf
          show legal .rtsp (absPhase s) r.method = false
          rcases hm' with hm | hm | hm | hm <;>
            rw [hm] at hg' ⊢ <;>
            cases hs : s.status <;> cases hmo : s.mode <;> simp [refGate, hs] at hg' <;>
            simp [absPhase, hc', hs, hmo, legal]

end IpcHub.Rtsp
