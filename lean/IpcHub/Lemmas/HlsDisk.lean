import IpcHub.Model.HlsDisk
namespace IpcHub.HlsDisk

/-- every listed file has nothing left in its writer -/
def Flushed (st : St) : Prop := ∀ f ∈ st.listed, f.buf = []

/-- between two frames: listed files are flushed and no segment is being closed -/
def Inv (st : St) : Prop := Flushed st ∧ st.closing = none

theorem flush_content (f : File) : (flush f).content = f.content := by
  simp [flush, File.content]

theorem flush_buf (f : File) : (flush f).buf = [] := rfl

theorem inv_init : Inv init := ⟨by intro f hf; simp [init] at hf, rfl⟩

theorem write_inv (st : St) (d : Bytes) (k : Nat) (h : Inv st) :
    Flushed (step st (.write d k)) ∧ Inv (step st (.write d k)) := by
  have : (step st (.write d k)).listed = st.listed ∧ (step st (.write d k)).closing = st.closing := by
    simp only [step]; split <;> simp
  have hf : Flushed (step st (.write d k)) := by
    intro f hf; rw [this.1] at hf; exact h.1 f hf
  exact ⟨hf, hf, by rw [this.2]; exact h.2⟩

/-- a write only appends to the open segment's content -/
theorem write_content (st : St) (f : File) (d : Bytes) (k : Nat) (h : st.current = some f) :
    ∃ f', (step st (.write d k)).current = some f' ∧ f'.seq = f.seq ∧ f'.content = f.content ++ d := by
  refine ⟨{ f with disk := f.disk ++ (f.buf ++ d).take k, buf := (f.buf ++ d).drop k }, by simp only [step, h], rfl, ?_⟩
  simp only [File.content, List.append_assoc, List.take_append_drop]

theorem mem_lastThree {α} (l : List α) (x : α) (h : x ∈ l.drop (l.length - 3)) : x ∈ l :=
  List.mem_of_mem_drop h

/-- the roll-over in the source's order (close, then list): the listing is flushed at every point -/
theorem rollover_closeFirst (st : St) (n : Nat) (h : Inv st) :
    let s1 := step st .take
    let s2 := step s1 .close
    let s3 := step s2 .list
    let s4 := step s3 (.open n)
    Flushed s1 ∧ Flushed s2 ∧ Flushed s3 ∧ Flushed s4 ∧ Inv s4 := by
  obtain ⟨cur, clo, lis⟩ := st
  obtain ⟨hf, _⟩ := h
  simp only [Flushed] at hf
  cases cur with
  | none =>
    simp only [step, Flushed, Inv]
    exact ⟨hf, hf, hf, hf, hf, trivial⟩
  | some c =>
    simp only [step, Flushed, Inv]
    have h2 : ∀ f ∈ lis.map (fun f => if f.seq = c.seq then flush f else f), f.buf = [] := by
      intro f hm
      obtain ⟨g, hg, rfl⟩ := List.mem_map.mp hm
      split
      · rfl
      · exact hf g hg
    have h3 : ∀ f ∈ ((lis.map (fun f => if f.seq = c.seq then flush f else f)) ++ [flush c]).drop
        (((lis.map (fun f => if f.seq = c.seq then flush f else f)) ++ [flush c]).length - 3), f.buf = [] := by
      intro f hm
      have := mem_lastThree _ _ hm
      rcases List.mem_append.mp this with h' | h'
      · exact h2 f h'
      · simp at h'; subst h'; rfl
    exact ⟨hf, h2, h3, h3, h3, trivial⟩

theorem trace_forall (P : St → Prop) : ∀ (ss : List Step) (st : St),
    (∀ s ∈ trace st ss, P s) ↔ P st ∧ (match ss with | [] => True | s :: r => ∀ x ∈ trace (step st s) r, P x) := by
  intro ss st
  cases ss with
  | nil => simp [trace]
  | cons s r => simp [trace]

/-- all states observable during one act (from a state between frames) have a flushed listing,
    and the state after it is again a state between frames -/
theorem act_closeFirst (st : St) (a : Act) (h : Inv st) :
    (∀ s ∈ trace st (steps true a), Flushed s) ∧ Inv (run st (steps true a)) := by
  cases a with
  | frame d k =>
    have hw := write_inv st d k h
    refine ⟨?_, by simpa [steps, run] using hw.2⟩
    intro s hs
    simp [steps, trace] at hs
    rcases hs with rfl | rfl
    · exact h.1
    · exact hw.1
  | rollover n =>
    have hr := rollover_closeFirst st n h
    obtain ⟨h1, h2, h3, h4, h5⟩ := hr
    refine ⟨?_, by simpa [steps, run] using h5⟩
    intro s hs
    simp [steps, trace] at hs
    rcases hs with rfl | rfl | rfl | rfl | rfl
    · exact h.1
    · exact h1
    · exact h2
    · exact h3
    · exact h4

theorem observable_closeFirst : ∀ (acts : List Act) (st : St), Inv st →
    ∀ s ∈ observable true st acts, Flushed s := by
  intro acts
  induction acts with
  | nil => intro st h s hs; simp [observable] at hs; subst hs; exact h.1
  | cons a as ih =>
    intro st h s hs
    simp only [observable, List.mem_append] at hs
    obtain ⟨ha, hi⟩ := act_closeFirst st a h
    rcases hs with hs | hs
    · exact ha s hs
    · exact ih _ hi s hs

/-- with a flushed listing a fetch delivers the whole content of a listed file of that number -/
theorem fetch_flushed (st : St) (q : Nat) (b : Bytes) (hf : Flushed st) (h : fetch st q = some b) :
    ∃ f ∈ st.listed, f.seq = q ∧ b = f.content := by
  unfold fetch at h
  cases hfind : st.listed.find? (fun f => f.seq == q) with
  | none => simp [hfind] at h
  | some f =>
    simp [hfind] at h
    have hm := List.mem_of_find?_eq_some hfind
    have hq := List.find?_some hfind
    refine ⟨f, hm, by simpa using hq, ?_⟩
    simp [File.content, hf f hm, ← h]

end IpcHub.HlsDisk
