/-
C05 — machine-checked lemmas about the sequential stream-registry model
(Model/Registry.lean): sync.Map algebra, the well-formedness invariants of every reachable
state, and the step lemmas behind the property statement (newest wins, the displaced
stream is retired, closed is forever, idle close only when unused, counts = live set).
All statements hold for every state / every history (no bounds).  Core Lean only.
-/
import IpcHub.Model.Registry
namespace IpcHub.Registry
open IpcHub.CanonPath

/-- the facts of the fixed source (`goodFacts` of Model/RegistryInst.lean, restated) -/
def good : Facts := ⟨true, true, true⟩

/-! ## A1. sync.Map algebra -/

theorem load_delete (r : List (Path × Nat)) (k k' : Path) :
    load (delete r k) k' = if k' = k then none else load r k' := by
  induction r with
  | nil => simp [delete, load]
  | cons e r ih =>
    obtain ⟨a, v⟩ := e
    simp only [delete] at ih
    by_cases h : a = k
    · subst h
      simp only [delete, List.filter, ne_eq, not_true_eq_false, decide_false, load]
      rw [ih]
      by_cases h2 : k' = a
      · simp [h2]
      · have : ¬ a = k' := fun h => h2 h.symm
        simp [h2, this]
    · simp only [delete, List.filter, ne_eq, h, not_false_eq_true, decide_true, load]
      rw [ih]
      by_cases h2 : a = k'
      · subst h2; simp [h]
      · simp [h2]

theorem load_store (r : List (Path × Nat)) (k k' : Path) (v : Nat) :
    load (store r k v) k' = if k' = k then some v else load r k' := by
  simp only [store, load, load_delete]
  by_cases h : k = k'
  · simp [h]
  · have : ¬ k' = k := fun h' => h h'.symm
    simp [h, this]

theorem map_fst_delete (r : List (Path × Nat)) (k : Path) :
    (delete r k).map Prod.fst = (r.map Prod.fst).filter (fun a => a ≠ k) := by
  simp only [delete, List.filter_map]
  rfl

theorem not_mem_keys_delete (r : List (Path × Nat)) (k : Path) :
    k ∉ (delete r k).map Prod.fst := by
  rw [map_fst_delete]
  simp

theorem nodup_delete {r : List (Path × Nat)} (k : Path) (h : (r.map Prod.fst).Nodup) :
    ((delete r k).map Prod.fst).Nodup := by
  rw [map_fst_delete]
  exact List.Pairwise.filter _ h

theorem nodup_store {r : List (Path × Nat)} (k : Path) (v : Nat) (h : (r.map Prod.fst).Nodup) :
    ((store r k v).map Prod.fst).Nodup := by
  simp only [store, List.map_cons, List.nodup_cons]
  exact ⟨not_mem_keys_delete r k, nodup_delete k h⟩

theorem load_none_of_not_mem {r : List (Path × Nat)} {k : Path} (h : k ∉ r.map Prod.fst) :
    load r k = none := by
  induction r with
  | nil => rfl
  | cons e r ih =>
    obtain ⟨a, v⟩ := e
    simp only [List.map_cons, List.mem_cons, not_or] at h
    have : ¬ a = k := fun h' => h.1 h'.symm
    simp [load, this, ih h.2]

theorem mem_of_load {r : List (Path × Nat)} {k : Path} {v : Nat} (h : load r k = some v) :
    (k, v) ∈ r := by
  induction r with
  | nil => simp [load] at h
  | cons e r ih =>
    obtain ⟨a, w⟩ := e
    simp only [load] at h
    by_cases h2 : a = k
    · simp only [h2, if_true, Option.some.injEq] at h
      simp [h2, h]
    · simp only [h2, if_false] at h
      exact List.mem_cons_of_mem _ (ih h)

theorem load_iff_mem {r : List (Path × Nat)} (hn : (r.map Prod.fst).Nodup) (k : Path) (v : Nat) :
    load r k = some v ↔ (k, v) ∈ r := by
  refine ⟨mem_of_load, ?_⟩
  induction r with
  | nil => simp
  | cons e r ih =>
    obtain ⟨a, w⟩ := e
    simp only [List.map_cons, List.nodup_cons] at hn
    intro hm
    simp only [List.mem_cons, Prod.mk.injEq] at hm
    rcases hm with ⟨h1, h2⟩ | hm
    · simp [load, h1, h2]
    · have : ¬ a = k := by
        intro h'
        apply hn.1
        rw [h']
        exact List.mem_map.mpr ⟨(k, v), hm, rfl⟩
      simp only [load, this, if_false]
      exact ih hn.2 hm


/-! ## Stream-table primitives -/

theorem streams_updateStream (st : State) (i : Nat) (g : Stream → Stream) (j : Nat) :
    (updateStream st i g).streams[j]? = if i = j then (st.streams[j]?).map g else st.streams[j]? := by
  simp only [updateStream, List.getElem?_modify]
  by_cases h : i = j
  · simp [h]
  · simp [h]

@[simp] theorem reg_updateStream (st : State) (i : Nat) (g : Stream → Stream) :
    (updateStream st i g).reg = st.reg := rfl
@[simp] theorem tasks_updateStream (st : State) (i : Nat) (g : Stream → Stream) :
    (updateStream st i g).tasks = st.tasks := rfl
@[simp] theorem now_updateStream (st : State) (i : Nat) (g : Stream → Stream) :
    (updateStream st i g).now = st.now := rfl
@[simp] theorem length_updateStream (st : State) (i : Nat) (g : Stream → Stream) :
    (updateStream st i g).streams.length = st.streams.length := by
  simp [updateStream]
@[simp] theorem reg_closeStream (st : State) (i : Nat) (b : Bool) :
    (closeStream st i b).reg = st.reg := rfl
@[simp] theorem tasks_closeStream (st : State) (i : Nat) (b : Bool) :
    (closeStream st i b).tasks = st.tasks := rfl
@[simp] theorem now_closeStream (st : State) (i : Nat) (b : Bool) :
    (closeStream st i b).now = st.now := rfl
@[simp] theorem reg_postTask (st : State) (i : Nat) (b : Bool) :
    (postTask st i b).reg = st.reg := rfl
@[simp] theorem streams_postTask (st : State) (i : Nat) (b : Bool) :
    (postTask st i b).streams = st.streams := rfl
@[simp] theorem now_postTask (st : State) (i : Nat) (b : Bool) :
    (postTask st i b).now = st.now := rfl

theorem streams_closeStream (st : State) (i : Nat) (b : Bool) (j : Nat) :
    (closeStream st i b).streams[j]? = if i = j then (st.streams[j]?).map (·.close b) else st.streams[j]? :=
  streams_updateStream st i _ j

theorem close_path (s : Stream) (b : Bool) : (s.close b).path = s.path := by
  unfold Stream.close; split <;> rfl

theorem close_status_ne_ok (s : Stream) (b : Bool) : (s.close b).status ≠ .ok := by
  unfold Stream.close
  split
  · assumption
  · cases b <;> simp

theorem isOk_closeStream_self (st : State) (i : Nat) (b : Bool) : isOk (closeStream st i b) i = false := by
  simp only [isOk, streams_closeStream, if_true]
  cases h : st.streams[i]? with
  | none => simp
  | some s => simp [close_status_ne_ok]

theorem isOk_closeStream_of_ne (st : State) {i j : Nat} (b : Bool) (h : i ≠ j) :
    isOk (closeStream st i b) j = isOk st j := by
  simp [isOk, streams_closeStream, h]

theorem lt_length_of_getElem? {α : Type} {l : List α} {i : Nat} {a : α} (h : l[i]? = some a) : i < l.length := by
  rcases Nat.lt_or_ge i l.length with h' | h'
  · exact h'
  · rw [List.getElem?_eq_none h'] at h; cases h

/-! ## Monotone evolution of the stream table and the task list -/

/-- the stream table only grows; a stream keeps its path; a non-OK status is never left -/
def ExtL (l l' : List Stream) : Prop :=
  l.length ≤ l'.length ∧
  ∀ (i : Nat) (s : Stream), l[i]? = some s → ∃ s' : Stream, l'[i]? = some s' ∧ s'.path = s.path ∧ (s.status ≠ .ok → s'.status ≠ .ok)

theorem ExtL.refl (l : List Stream) : ExtL l l :=
  ⟨Nat.le_refl _, fun _ s h => ⟨s, h, rfl, id⟩⟩

theorem ExtL.trans {l l' l'' : List Stream} (h1 : ExtL l l') (h2 : ExtL l' l'') : ExtL l l'' := by
  refine ⟨Nat.le_trans h1.1 h2.1, fun i s h => ?_⟩
  obtain ⟨s', e1, p1, k1⟩ := h1.2 i s h
  obtain ⟨s'', e2, p2, k2⟩ := h2.2 i s' e1
  exact ⟨s'', e2, p2.trans p1, fun hh => k2 (k1 hh)⟩

theorem ExtL.modify (l : List Stream) (i : Nat) (g : Stream → Stream)
    (hg : ∀ s, (g s).path = s.path ∧ (s.status ≠ .ok → (g s).status ≠ .ok)) : ExtL l (l.modify i g) := by
  refine ⟨by simp, fun j s h => ?_⟩
  rw [List.getElem?_modify, h]
  by_cases hij : i = j
  · exact ⟨g s, by simp [hij], (hg s).1, (hg s).2⟩
  · exact ⟨s, by simp [hij], rfl, id⟩

theorem ExtL.append (l : List Stream) (x : Stream) : ExtL l (l ++ [x]) := by
  refine ⟨by simp, fun j s h => ?_⟩
  have := lt_length_of_getElem? h
  exact ⟨s, by rw [List.getElem?_append_left this]; exact h, rfl, id⟩

theorem ExtL.closed_forever {st st' : State} (h : ExtL st.streams st'.streams) {i : Nat}
    (hi : i < st.streams.length) (hc : isOk st i = false) : isOk st' i = false := by
  cases hs : st.streams[i]? with
  | none => rw [List.getElem?_eq_none_iff] at hs; omega
  | some s =>
    obtain ⟨s', e, _, k⟩ := h.2 i _ hs
    simp only [isOk, hs, decide_eq_false_iff_not] at hc
    simp only [isOk, e, decide_eq_false_iff_not]
    exact k hc

/-- everything the invariants need to know about one transition, registry aside -/
structure Mono (st st' : State) : Prop where
  ext : ExtL st.streams st'.streams
  keep : ∀ t ∈ st.tasks, ∃ t' ∈ st'.tasks, t'.sid = t.sid ∧ t'.replaced = t.replaced
  ok : ∀ t' ∈ st'.tasks, t'.done = true →
        (∃ t ∈ st.tasks, t.done = true ∧ t.sid = t'.sid) ∨
        (t'.sid < st'.streams.length ∧ isOk st' t'.sid = false)

theorem Mono.refl (st : State) : Mono st st :=
  ⟨ExtL.refl _, fun t h => ⟨t, h, rfl, rfl⟩, fun t h d => Or.inl ⟨t, h, d, rfl⟩⟩

theorem Mono.trans {a b c : State} (h1 : Mono a b) (h2 : Mono b c) : Mono a c := by
  refine ⟨h1.ext.trans h2.ext, fun t h => ?_, fun t'' h d => ?_⟩
  · obtain ⟨t', m', s', r'⟩ := h1.keep t h
    obtain ⟨t'', m'', s'', r''⟩ := h2.keep t' m'
    exact ⟨t'', m'', s''.trans s', r''.trans r'⟩
  · rcases h2.ok t'' h d with ⟨t', m', d', s'⟩ | hr
    · rcases h1.ok t' m' d' with ⟨t, m, d0, s0⟩ | ⟨hl, hc⟩
      · exact Or.inl ⟨t, m, d0, s0.trans s'⟩
      · rw [s'] at hl hc
        exact Or.inr ⟨Nat.lt_of_lt_of_le hl h2.ext.1, h2.ext.closed_forever hl hc⟩
    · exact Or.inr hr

/-- a transition that leaves the task list alone -/
theorem Mono.of_tasks_eq {st st' : State} (ht : st'.tasks = st.tasks)
    (he : ExtL st.streams st'.streams) : Mono st st' := by
  refine ⟨he, fun t h => ⟨t, ht ▸ h, rfl, rfl⟩, fun t h d => Or.inl ⟨t, ht ▸ h, d, rfl⟩⟩

theorem close_ok_fun (b : Bool) (s : Stream) :
    (s.close b).path = s.path ∧ (s.status ≠ .ok → (s.close b).status ≠ .ok) :=
  ⟨close_path s b, fun _ => close_status_ne_ok s b⟩

theorem mono_closeStream (st : State) (i : Nat) (b : Bool) : Mono st (closeStream st i b) :=
  Mono.of_tasks_eq rfl (ExtL.modify _ _ _ (close_ok_fun b))

theorem mono_postTask (st : State) (i : Nat) (b : Bool) : Mono st (postTask st i b) := by
  refine ⟨ExtL.refl _, fun t h => ⟨t, ?_, rfl, rfl⟩, fun t h d => ?_⟩
  · simp [postTask, h]
  · simp only [postTask, List.mem_append, List.mem_singleton] at h
    rcases h with h | h
    · exact Or.inl ⟨t, h, d, rfl⟩
    · rw [h] at d; cases d

theorem mono_retireOld (st : State) (old : Option Nat) : Mono st (retireOld st old) := by
  unfold retireOld
  split
  · exact Mono.refl _
  · split
    · exact Mono.refl _
    · split
      · exact mono_closeStream _ _ _
      · exact mono_postTask _ _ _

theorem mono_setReg (st : State) (r : List (Path × Nat)) : Mono st { st with reg := r } :=
  Mono.of_tasks_eq rfl (ExtL.refl _)

theorem mono_regist (st : State) (i : Nat) : Mono st (regist st i) := by
  unfold regist
  split
  · exact Mono.refl _
  · simp only
    split
    · exact Mono.refl _
    · exact (mono_setReg st _).trans (mono_retireOld _ _)

theorem mono_unregist (st : State) (i : Nat) : Mono st (unregist st i) := by
  unfold unregist
  split
  · exact Mono.refl _
  · simp only
    split
    · exact (mono_setReg st _).trans (mono_closeStream _ _ _)
    · exact mono_closeStream _ _ _

theorem mono_stopStream (cfg : Cfg) (f : Facts) (st : State) (p : Path) : Mono st (stopStream cfg f st p) := by
  unfold stopStream
  split
  · exact Mono.refl _
  · exact mono_closeStream _ _ _

theorem mono_updateStream (st : State) (i : Nat) (g : Stream → Stream)
    (hg : ∀ s, (g s).path = s.path ∧ (s.status ≠ .ok → (g s).status ≠ .ok)) : Mono st (updateStream st i g) :=
  Mono.of_tasks_eq rfl (ExtL.modify _ _ _ hg)

theorem mono_join (st : State) (i : Nat) (flv : Bool) : Mono st (join st i flv).1 := by
  unfold join
  split
  · exact Mono.refl _
  · split
    · exact Mono.refl _
    · apply mono_updateStream
      intro s
      cases flv <;> simp

theorem mono_leave (st : State) (i : Nat) (flv : Bool) (cid : Nat) : Mono st (leave st i flv cid) := by
  apply mono_updateStream
  intro s
  cases flv <;> simp

theorem mono_newStream (cfg : Cfg) (st : State) (p : Path) (h : Bool) : Mono st (newStream cfg st p h).1 :=
  Mono.of_tasks_eq rfl (ExtL.append _ _)

theorem mem_modify_done {ts : List Task} {t : Nat} {x : Task}
    (h : x ∈ ts.modify t (fun k => { k with done := true })) :
    x ∈ ts ∨ ∃ task, ts[t]? = some task ∧ x = { task with done := true } := by
  obtain ⟨j, hj, e⟩ := List.getElem_of_mem h
  have e' : (ts.modify t (fun k => { k with done := true }))[j]? = some x := by
    rw [List.getElem?_eq_getElem hj, e]
  rw [List.getElem?_modify] at e'
  cases hq : ts[j]? with
  | none => rw [hq] at e'; cases e'
  | some y =>
    rw [hq] at e'
    simp only [Option.map_eq_map, Option.map_some, Option.some.injEq] at e'
    by_cases htj : t = j
    · right
      subst htj
      exact ⟨y, hq, by simpa using e'.symm⟩
    · left
      simp only [htj, if_false] at e'
      rw [← e']
      exact List.mem_of_getElem? hq

theorem mem_modify_of_mem {ts : List Task} (t : Nat) {x : Task} (h : x ∈ ts) :
    ∃ x' ∈ ts.modify t (fun k => { k with done := true }), x'.sid = x.sid ∧ x'.replaced = x.replaced := by
  obtain ⟨j, hj, e⟩ := List.getElem_of_mem h
  have hq : ts[j]? = some x := by rw [List.getElem?_eq_getElem hj, e]
  have e' := List.getElem?_modify (fun k : Task => { k with done := true }) t ts j
  rw [hq] at e'
  simp only [Option.map_eq_map, Option.map_some] at e'
  refine ⟨_, List.mem_of_getElem? e', ?_⟩
  by_cases htj : t = j <;> simp [htj]

theorem mono_tick (f : Facts) (st : State) (t d : Nat) : Mono st (tick f st t d).1 := by
  unfold tick
  split
  · exact Mono.refl _
  · rename_i task htask
    split
    · exact Mono.refl _
    · rename_i s hs
      split
      · exact Mono.refl _
      · exact Mono.refl _
      · refine ⟨ExtL.modify _ _ _ (close_ok_fun _), fun x hx => mem_modify_of_mem t hx, fun x hx dx => ?_⟩
        simp only [tasks_closeStream] at hx
        rcases mem_modify_done hx with hx | ⟨task', ht', rfl⟩
        · exact Or.inl ⟨x, hx, dx, rfl⟩
        · rw [htask] at ht'
          cases ht'
          refine Or.inr ⟨?_, isOk_closeStream_self _ _ _⟩
          simp only [length_updateStream, closeStream]
          exact lt_length_of_getElem? hs

theorem step_mono (cfg : Cfg) (f : Facts) (st : State) (op : Op) : Mono st (step cfg f st op).1 := by
  cases op with
  | new p h => exact mono_newStream cfg st p h
  | regist i => exact mono_regist st i
  | unregist i => exact mono_unregist st i
  | close i => exact mono_closeStream st i false
  | stop p => exact mono_stopStream cfg f st p
  | join i flv => exact mono_join st i flv
  | leave i flv cid => exact mono_leave st i flv cid
  | tick t d => exact mono_tick f st t d
  | touch i => exact mono_updateStream st i _ (fun s => ⟨rfl, id⟩)
  | advance n => exact Mono.of_tasks_eq rfl (ExtL.refl _)
  | get p => exact Mono.refl _
  | count => exact Mono.refl _
  | infos t n => exact Mono.refl _
  | info p => exact Mono.refl _
  | postIdle i => exact mono_postTask st i false
  | probe i => exact Mono.refl _

theorem run_mono (cfg : Cfg) (f : Facts) (st : State) (ops : List Op) : Mono st (run cfg f st ops) := by
  induction ops generalizing st with
  | nil => exact Mono.refl _
  | cons op ops ih => exact (step_mono cfg f st op).trans (ih _)


/-! ## A4. closed is forever; paths never change; the stream table only grows -/

theorem step_closed_forever (cfg : Cfg) (f : Facts) (st : State) (op : Op) (i : Nat)
    (hc : isOk st i = false) (hi : i < st.streams.length) : isOk (step cfg f st op).1 i = false :=
  (step_mono cfg f st op).ext.closed_forever hi hc

theorem run_closed_forever (cfg : Cfg) (f : Facts) (st : State) (ops : List Op) (i : Nat)
    (hc : isOk st i = false) (hi : i < st.streams.length) : isOk (run cfg f st ops) i = false :=
  (run_mono cfg f st ops).ext.closed_forever hi hc

theorem step_path_const (cfg : Cfg) (f : Facts) (st : State) (op : Op) (i : Nat) (s : Stream)
    (h : st.streams[i]? = some s) : ∃ s', (step cfg f st op).1.streams[i]? = some s' ∧ s'.path = s.path := by
  obtain ⟨s', e, p, _⟩ := (step_mono cfg f st op).ext.2 i s h
  exact ⟨s', e, p⟩

theorem run_path_const (cfg : Cfg) (f : Facts) (st : State) (ops : List Op) (i : Nat) (s : Stream)
    (h : st.streams[i]? = some s) : ∃ s', (run cfg f st ops).streams[i]? = some s' ∧ s'.path = s.path := by
  obtain ⟨s', e, p, _⟩ := (run_mono cfg f st ops).ext.2 i s h
  exact ⟨s', e, p⟩

theorem step_length_mono (cfg : Cfg) (f : Facts) (st : State) (op : Op) :
    st.streams.length ≤ (step cfg f st op).1.streams.length := (step_mono cfg f st op).ext.1

theorem run_length_mono (cfg : Cfg) (f : Facts) (st : State) (ops : List Op) :
    st.streams.length ≤ (run cfg f st ops).streams.length := (run_mono cfg f st ops).ext.1

/-! ## A2. the invariants of every reachable state -/

/-- registry keys are duplicate-free and every entry points at an existing stream of that path -/
def WF (st : State) : Prop :=
  (st.reg.map Prod.fst).Nodup ∧
  ∀ k i, load st.reg k = some i → ∃ s, st.streams[i]? = some s ∧ s.path = k

/-- a finished idle task has closed its (existing) stream.
    (The clause `t.sid < st.streams.length` is needed for the invariant to be inductive: `isOk`
    is also `false` for an identity that does not exist *yet*.) -/
def TasksOk (st : State) : Prop :=
  ∀ t ∈ st.tasks, t.done = true → t.sid < st.streams.length ∧ isOk st t.sid = false

theorem TasksOk.isOk_false {st : State} (h : TasksOk st) {t : Task} (ht : t ∈ st.tasks) (hd : t.done = true) :
    isOk st t.sid = false := (h t ht hd).2

theorem wf_empty : WF State.empty := by
  refine ⟨by simp [State.empty], fun k i h => ?_⟩
  simp [State.empty, load] at h

theorem tasksOk_empty : TasksOk State.empty := by
  intro t ht
  simp [State.empty] at ht

theorem Mono.tasksOk {st st' : State} (m : Mono st st') (h : TasksOk st) : TasksOk st' := by
  intro t' ht' hd
  rcases m.ok t' ht' hd with ⟨t, ht, hd0, hs⟩ | hr
  · obtain ⟨hl, hc⟩ := h t ht hd0
    rw [hs] at hl hc
    exact ⟨Nat.lt_of_lt_of_le hl m.ext.1, m.ext.closed_forever hl hc⟩
  · exact hr

theorem step_tasksOk (cfg : Cfg) (f : Facts) (st : State) (op : Op) (h : TasksOk st) :
    TasksOk (step cfg f st op).1 := (step_mono cfg f st op).tasksOk h

theorem wf_of_reg_eq {st st' : State} (h : WF st) (he : ExtL st.streams st'.streams)
    (hr : st'.reg = st.reg) : WF st' := by
  refine ⟨hr ▸ h.1, fun k i hl => ?_⟩
  rw [hr] at hl
  obtain ⟨s, e, p⟩ := h.2 k i hl
  obtain ⟨s', e', p', _⟩ := he.2 i s e
  exact ⟨s', e', p'.trans p⟩

theorem wf_of_reg_store {st st' : State} (h : WF st) (he : ExtL st.streams st'.streams)
    {i : Nat} {s : Stream} (hs : st.streams[i]? = some s)
    (hr : st'.reg = store st.reg s.path i) : WF st' := by
  refine ⟨hr ▸ nodup_store _ _ h.1, fun k j hl => ?_⟩
  rw [hr, load_store] at hl
  by_cases hk : k = s.path
  · simp only [hk, if_true, Option.some.injEq] at hl
    subst hl
    obtain ⟨s', e', p', _⟩ := he.2 i s hs
    exact ⟨s', e', p'.trans hk.symm⟩
  · simp only [hk, if_false] at hl
    obtain ⟨s0, e, p⟩ := h.2 k j hl
    obtain ⟨s', e', p', _⟩ := he.2 j s0 e
    exact ⟨s', e', p'.trans p⟩

theorem wf_of_reg_delete {st st' : State} (h : WF st) (he : ExtL st.streams st'.streams)
    {k0 : Path} (hr : st'.reg = delete st.reg k0) : WF st' := by
  refine ⟨hr ▸ nodup_delete _ h.1, fun k j hl => ?_⟩
  rw [hr, load_delete] at hl
  by_cases hk : k = k0
  · simp [hk] at hl
  · simp only [hk, if_false] at hl
    obtain ⟨s0, e, p⟩ := h.2 k j hl
    obtain ⟨s', e', p', _⟩ := he.2 j s0 e
    exact ⟨s', e', p'.trans p⟩

@[simp] theorem reg_retireOld (st : State) (old : Option Nat) : (retireOld st old).reg = st.reg := by
  unfold retireOld
  split
  · rfl
  · split
    · rfl
    · split <;> rfl

/-- the registry after `Regist` -/
theorem reg_regist (st : State) (i : Nat) :
    (regist st i).reg =
      match st.streams[i]? with
      | none => st.reg
      | some s => if load st.reg s.path = some i then st.reg else store st.reg s.path i := by
  unfold regist
  cases hs : st.streams[i]? with
  | none => rfl
  | some s =>
    simp only
    split <;> simp

/-- the registry after `Unregist` -/
theorem reg_unregist (st : State) (i : Nat) :
    (unregist st i).reg =
      match st.streams[i]? with
      | none => st.reg
      | some s => if load st.reg s.path = some i then delete st.reg s.path else st.reg := by
  unfold unregist
  cases hs : st.streams[i]? with
  | none => rfl
  | some s =>
    simp only
    split <;> simp

/-- every other operation leaves the registry alone -/
theorem reg_step_other (cfg : Cfg) (f : Facts) (st : State) (op : Op)
    (h1 : ∀ i, op ≠ .regist i) (h2 : ∀ i, op ≠ .unregist i) : (step cfg f st op).1.reg = st.reg := by
  cases op with
  | regist i => exact absurd rfl (h1 i)
  | unregist i => exact absurd rfl (h2 i)
  | stop p => simp only [step, stopStream]; split <;> rfl
  | join i flv =>
    simp only [step, join]
    split
    · rfl
    · split <;> rfl
  | tick t d =>
    simp only [step, tick]
    split
    · rfl
    · split
      · rfl
      · split <;> rfl
  | _ => rfl

theorem step_wf (cfg : Cfg) (f : Facts) (st : State) (op : Op) (h : WF st) : WF (step cfg f st op).1 := by
  have he := (step_mono cfg f st op).ext
  by_cases h1 : ∃ i, op = .regist i
  · obtain ⟨i, rfl⟩ := h1
    have hr := reg_regist st i
    simp only [step] at he ⊢
    cases hs : st.streams[i]? with
    | none => rw [hs] at hr; exact wf_of_reg_eq h he hr
    | some s =>
      rw [hs] at hr
      simp only at hr
      split at hr
      · exact wf_of_reg_eq h he hr
      · exact wf_of_reg_store h he hs hr
  · by_cases h2 : ∃ i, op = .unregist i
    · obtain ⟨i, rfl⟩ := h2
      have hr := reg_unregist st i
      simp only [step] at he ⊢
      cases hs : st.streams[i]? with
      | none => rw [hs] at hr; exact wf_of_reg_eq h he hr
      | some s =>
        rw [hs] at hr
        simp only at hr
        split at hr
        · exact wf_of_reg_delete h he hr
        · exact wf_of_reg_eq h he hr
    · exact wf_of_reg_eq h he
        (reg_step_other cfg f st op (fun i e => h1 ⟨i, e⟩) (fun i e => h2 ⟨i, e⟩))

theorem run_inv (cfg : Cfg) (f : Facts) (st : State) (ops : List Op) (h : WF st) (ht : TasksOk st) :
    WF (run cfg f st ops) ∧ TasksOk (run cfg f st ops) := by
  induction ops generalizing st with
  | nil => exact ⟨h, ht⟩
  | cons op ops ih => exact ih _ (step_wf cfg f st op h) (step_tasksOk cfg f st op ht)

theorem reachable_inv (cfg : Cfg) (f : Facts) (ops : List Op) :
    WF (run cfg f State.empty ops) ∧ TasksOk (run cfg f State.empty ops) :=
  run_inv cfg f _ ops wf_empty tasksOk_empty

/-! ## A3. what `Get` returns -/

theorem get_some_registered {cfg : Cfg} {f : Facts} {st : State} {p : Path} {i : Nat}
    (h : get cfg f st p = some i) : load st.reg (canonicalPath cfg p) = some i := by
  unfold get at h
  split at h
  · cases h
  · rename_i j hj
    split at h
    · cases h; exact hj
    · cases h

theorem get_some_visible {cfg : Cfg} {f : Facts} {st : State} {p : Path} {i : Nat}
    (h : get cfg f st p = some i) : visible f st i = true := by
  unfold get at h
  split at h
  · cases h
  · split at h
    · cases h; assumption
    · cases h

theorem get_some_ok {cfg : Cfg} {f : Facts} {st : State} {p : Path} {i : Nat}
    (hf : f.lookupSkipsClosed = true) (h : get cfg f st p = some i) : isOk st i = true := by
  have hv := get_some_visible h
  unfold visible at hv
  unfold isOk
  cases hs : st.streams[i]? with
  | none => simp [hs] at hv
  | some s => simpa [hs, hf] using hv


/-! ## A5. newest wins -/

theorem streams_retireOld_of_ne (st : State) (old : Option Nat) (j : Nat) (h : old ≠ some j) :
    (retireOld st old).streams[j]? = st.streams[j]? := by
  unfold retireOld
  split
  · rfl
  · rename_i o
    have hoj : o ≠ j := fun e => h (by rw [e])
    split
    · rfl
    · split
      · simp [streams_closeStream, hoj]
      · rfl

theorem regist_newest_wins {st : State} {i : Nat} {s : Stream}
    (hs : st.streams[i]? = some s) (hok : s.status = .ok) :
    load (regist st i).reg s.path = some i ∧ isOk (regist st i) i = true := by
  constructor
  · rw [reg_regist, hs]
    simp only
    split
    · assumption
    · simp [load_store]
  · unfold regist
    simp only [hs]
    split
    · simp [isOk, hs, hok]
    · rename_i hne
      simp only [isOk]
      rw [streams_retireOld_of_ne _ _ _ hne]
      simp [hs, hok]

theorem regist_get_newest {cfg : Cfg} {f : Facts} {st : State} {i : Nat} {s : Stream}
    (hs : st.streams[i]? = some s) (hok : s.status = .ok) (hcan : canonicalPath cfg s.path = s.path) :
    get cfg f (regist st i) s.path = some i := by
  obtain ⟨h1, h2⟩ := regist_newest_wins hs hok
  unfold get
  rw [hcan, h1]
  simp only
  have : visible f (regist st i) i = true := by
    unfold visible
    unfold isOk at h2
    split
    · simp_all
    · simp_all
  simp [this]

/-! ## A6. the displaced stream is retired -/

/-- stream `o` is closed, or a `StreamReplaced` idle task watches it -/
def retired (st : State) (o : Nat) : Prop :=
  isOk st o = false ∨ ∃ t ∈ st.tasks, t.sid = o ∧ t.replaced = true

theorem regist_displace_eq {st : State} {i o : Nat} {s os : Stream}
    (hs : st.streams[i]? = some s) (hl : load st.reg s.path = some o) (hne : o ≠ i)
    (hos : st.streams[o]? = some os) :
    regist st i =
      if os.consumerCount ≤ 0 then closeStream { st with reg := store st.reg s.path i } o true
      else postTask { st with reg := store st.reg s.path i } o true := by
  unfold regist
  simp only [hs, hl]
  have : ¬ (some o = some i) := fun e => hne (Option.some.inj e)
  simp only [this, if_false, retireOld, hos]

theorem pendingTasks_postTask_self (st : State) (o : Nat) (b : Bool) :
    pendingTasks (postTask st o b) o = pendingTasks st o + 1 := by
  simp [pendingTasks, postTask, List.filter_append]

theorem regist_displaced {st : State} {i o : Nat} {s : Stream} (hw : WF st)
    (hs : st.streams[i]? = some s) (hl : load st.reg s.path = some o) (hne : o ≠ i) :
    (ccOf st o ≤ 0 → isOk (regist st i) o = false) ∧
    (ccOf st o > 0 → pendingTasks (regist st i) o = pendingTasks st o + 1 ∧
        ∃ t ∈ (regist st i).tasks, t.sid = o ∧ t.replaced = true) := by
  obtain ⟨os, hos, _⟩ := hw.2 _ _ hl
  rw [regist_displace_eq hs hl hne hos]
  simp only [ccOf, hos]
  constructor
  · intro hc
    simp only [hc, if_true]
    exact isOk_closeStream_self _ _ _
  · intro hc
    have : ¬ os.consumerCount ≤ 0 := by omega
    simp only [this, if_false]
    refine ⟨?_, ⟨o, true, false⟩, ?_, rfl, rfl⟩
    · rw [pendingTasks_postTask_self]; rfl
    · simp [postTask]

theorem Mono.retired {st st' : State} (m : Mono st st') {o : Nat} (ho : o < st.streams.length)
    (h : retired st o) : retired st' o := by
  rcases h with h | ⟨t, ht, hs, hr⟩
  · exact Or.inl (m.ext.closed_forever ho h)
  · obtain ⟨t', ht', hs', hr'⟩ := m.keep t ht
    exact Or.inr ⟨t', ht', hs'.trans hs, hr'.trans hr⟩

/-- (i) retirement is stable -/
theorem step_retired (cfg : Cfg) (f : Facts) (st : State) (op : Op) (o : Nat)
    (h : retired st o) (ho : o < st.streams.length) : retired (step cfg f st op).1 o :=
  (step_mono cfg f st op).retired ho h

theorem run_retired (cfg : Cfg) (f : Facts) (st : State) (ops : List Op) (o : Nat)
    (h : retired st o) (ho : o < st.streams.length) : retired (run cfg f st ops) o :=
  (run_mono cfg f st ops).retired ho h

theorem isOk_unregist_self (st : State) (i : Nat) : isOk (unregist st i) i = false := by
  unfold unregist
  cases hs : st.streams[i]? with
  | none => simp [isOk, hs]
  | some s => exact isOk_closeStream_self _ _ _

/-- (ii) an entry leaves the registry only by retiring its stream -/
theorem step_displaced_retired (cfg : Cfg) (f : Facts) (st : State) (op : Op) (k : Path) (o : Nat)
    (hw : WF st) (hl : load st.reg k = some o) (hn : load (step cfg f st op).1.reg k ≠ some o) :
    retired (step cfg f st op).1 o := by
  by_cases h1 : ∃ i, op = .regist i
  · obtain ⟨i, rfl⟩ := h1
    simp only [step] at hn ⊢
    rw [reg_regist] at hn
    cases hs : st.streams[i]? with
    | none => rw [hs] at hn; exact absurd hl hn
    | some s =>
      rw [hs] at hn
      simp only at hn
      split at hn
      · exact absurd hl hn
      · rename_i hne
        rw [load_store] at hn
        by_cases hk : k = s.path
        · subst hk
          have hoi : o ≠ i := fun e => hne (by rw [hl, e])
          obtain ⟨c1, c2⟩ := regist_displaced hw hs hl hoi
          by_cases hc : ccOf st o ≤ 0
          · exact Or.inl (c1 hc)
          · exact Or.inr (c2 (by omega)).2
        · simp only [hk, if_false] at hn
          exact absurd hl hn
  · by_cases h2 : ∃ i, op = .unregist i
    · obtain ⟨i, rfl⟩ := h2
      simp only [step] at hn ⊢
      rw [reg_unregist] at hn
      cases hs : st.streams[i]? with
      | none => rw [hs] at hn; exact absurd hl hn
      | some s =>
        rw [hs] at hn
        simp only at hn
        split at hn
        · rename_i he
          rw [load_delete] at hn
          by_cases hk : k = s.path
          · subst hk
            have : o = i := by rw [hl] at he; exact Option.some.inj he
            subst this
            exact Or.inl (isOk_unregist_self st o)
          · simp only [hk, if_false] at hn
            exact absurd hl hn
        · exact absurd hl hn
    · rw [reg_step_other cfg f st op (fun i e => h1 ⟨i, e⟩) (fun i e => h2 ⟨i, e⟩)] at hn
      exact absurd hl hn

theorem run_displaced_retired (cfg : Cfg) (f : Facts) (st : State) (ops : List Op) (k : Path) (o : Nat)
    (hw : WF st) (hl : load st.reg k = some o) (hn : load (run cfg f st ops).reg k ≠ some o) :
    retired (run cfg f st ops) o := by
  induction ops generalizing st with
  | nil => exact absurd hl hn
  | cons op ops ih =>
    simp only [run] at hn ⊢
    by_cases hq : load (step cfg f st op).1.reg k = some o
    · exact ih _ (step_wf cfg f st op hw) hq hn
    · have hr := step_displaced_retired cfg f st op k o hw hl hq
      obtain ⟨s, hs, _⟩ := hw.2 _ _ hl
      have ho : o < (step cfg f st op).1.streams.length :=
        Nat.lt_of_lt_of_le (lt_length_of_getElem? hs) (step_length_mono cfg f st op)
      exact run_retired cfg f _ ops o hr ho

theorem displaced_retired (cfg : Cfg) (f : Facts) (ops1 ops2 : List Op) (k : Path) (o : Nat) :
    let st1 := run cfg f State.empty ops1
    load st1.reg k = some o → load (run cfg f st1 ops2).reg k ≠ some o →
      retired (run cfg f st1 ops2) o := by
  intro st1 hl hn
  exact run_displaced_retired cfg f st1 ops2 k o (reachable_inv cfg f ops1).1 hl hn

/-! ## A7. unregistering a retired stream never removes its successor -/

theorem unregist_not_owner {st : State} {i : Nat} {s : Stream}
    (hs : st.streams[i]? = some s) (hne : load st.reg s.path ≠ some i) :
    (unregist st i).reg = st.reg ∧ ∀ j, j ≠ i → (unregist st i).streams[j]? = st.streams[j]? := by
  constructor
  · rw [reg_unregist, hs]; simp [hne]
  · intro j hj
    unfold unregist
    simp only [hs, hne, if_false]
    have : i ≠ j := fun e => hj e.symm
    simp [streams_closeStream, this]

/-- (in fact no `Unregist` ever touches another stream) -/
theorem unregist_streams_of_ne (st : State) (i j : Nat) (hj : j ≠ i) :
    (unregist st i).streams[j]? = st.streams[j]? := by
  unfold unregist
  have : i ≠ j := fun e => hj e.symm
  cases hs : st.streams[i]? with
  | none => rfl
  | some s =>
    simp only
    split <;> simp [streams_closeStream, this]

/-! ## A8. idle close only when unused -/

theorem idleDecision_true {f : Facts} {s : Stream} {now d : Nat} (h : idleDecision f s now d = some true) :
    (f.idleCountsFlv = true → s.rtp = [] ∧ s.flv = []) ∧ s.rtp = [] ∧
    (∀ last, s.hls = some last → now - last ≥ d) := by
  have hcnt : (if f.idleCountsFlv then s.consumerCount else (s.rtp.length : Int)) ≤ 0 := by
    apply Decidable.byContradiction
    intro hc
    unfold idleDecision at h
    simp only [hc, if_false] at h
    cases h
  have hh : ∀ last, s.hls = some last → now - last ≥ d := by
    intro last hl
    unfold idleDecision at h
    simp only [hcnt, if_true, hl] at h
    simpa using h
  cases hf : f.idleCountsFlv with
  | false =>
    simp only [hf] at hcnt
    have h1 : s.rtp.length = 0 := by
      have : (s.rtp.length : Int) ≤ 0 := by simpa using hcnt
      omega
    exact ⟨fun e => (by cases e), List.length_eq_zero_iff.mp h1, hh⟩
  | true =>
    simp only [hf, if_true, Stream.consumerCount] at hcnt
    have h1 : s.rtp.length = 0 := by omega
    have h2 : s.flv.length = 0 := by omega
    exact ⟨fun _ => ⟨List.length_eq_zero_iff.mp h1, List.length_eq_zero_iff.mp h2⟩,
      List.length_eq_zero_iff.mp h1, hh⟩

theorem tick_close_only_idle {f : Facts} {st st' : State} {t d : Nat} {r : TickResult} {task : Task} {s : Stream}
    (ht : tick f st t d = (st', r)) (htask : st.tasks[t]? = some task)
    (hs : st.streams[task.sid]? = some s) (hok : s.status = .ok) (hc : isOk st' task.sid = false) :
    (f.idleCountsFlv = true → s.rtp = [] ∧ s.flv = []) ∧ s.rtp = [] ∧
    (∀ last, s.hls = some last → st.now - last ≥ d) := by
  have hok' : isOk st task.sid = true := by simp [isOk, hs, hok]
  unfold tick at ht
  simp only [htask, hs] at ht
  cases hd : idleDecision f s st.now d with
  | none =>
    rw [hd] at ht
    simp only [Prod.mk.injEq] at ht
    rw [← ht.1, hok'] at hc; cases hc
  | some b =>
    cases b with
    | false =>
      rw [hd] at ht
      simp only [Prod.mk.injEq] at ht
      rw [← ht.1, hok'] at hc; cases hc
    | true => exact idleDecision_true hd

/-- a tick touches neither the registry nor any stream other than the one its task watches -/
theorem tick_frame (f : Facts) (st : State) (t d : Nat) :
    (tick f st t d).1.reg = st.reg ∧
    ∀ task, st.tasks[t]? = some task → ∀ j, j ≠ task.sid →
      (tick f st t d).1.streams[j]? = st.streams[j]? := by
  constructor
  · have := reg_step_other (CanonPath.Cfg.mk id (fun _ => false)) f st (.tick t d)
      (fun i e => by cases e) (fun i e => by cases e)
    simpa [step] using this
  · intro task htask j hj
    have : task.sid ≠ j := fun e => hj e.symm
    unfold tick
    simp only [htask]
    split
    · rfl
    · split
      · rfl
      · rfl
      · simp [streams_closeStream, this]

/-! ## A9. counts match the live set -/

/-- the visible stream registered under key `k` -/
def lookup (f : Facts) (st : State) (k : Path) : Option Nat :=
  (load st.reg k).bind (fun i => if visible f st i then some i else none)

theorem get_eq_lookup (cfg : Cfg) (f : Facts) (st : State) (p : Path) :
    get cfg f st p = lookup f st (canonicalPath cfg p) := by
  unfold get lookup
  cases load st.reg (canonicalPath cfg p) <;> rfl

theorem filter_visible_eq_filterMap_lookup (f : Facts) (st : State) (l : List (Path × Nat))
    (h : ∀ e ∈ l, load st.reg e.1 = some e.2) :
    (l.filter (fun e => visible f st e.2)).map Prod.snd = (l.map Prod.fst).filterMap (lookup f st) := by
  induction l with
  | nil => rfl
  | cons e l ih =>
    have he := h e (List.mem_cons_self ..)
    have ih' := ih (fun e' h' => h e' (List.mem_cons_of_mem _ h'))
    simp only [List.filter_cons, List.map_cons, List.filterMap_cons, lookup, he, Option.bind_some]
    cases hv : visible f st e.2 <;> simp [← ih']

theorem filter_visible_length (f : Facts) (st : State) (l : List (Path × Nat))
    (h : ∀ e ∈ l, load st.reg e.1 = some e.2) :
    (l.filter (fun e => visible f st e.2)).length =
      ((l.map Prod.fst).filter (fun k => (lookup f st k).isSome)).length := by
  induction l with
  | nil => rfl
  | cons e l ih =>
    have he := h e (List.mem_cons_self ..)
    have ih' := ih (fun e' h' => h e' (List.mem_cons_of_mem _ h'))
    simp only [List.filter_cons, List.map_cons, lookup, he, Option.bind_some]
    cases hv : visible f st e.2 <;> simp [ih', lookup]

theorem wf_load_entry {st : State} (hw : WF st) : ∀ e ∈ st.reg, load st.reg e.1 = some e.2 :=
  fun e he => (load_iff_mem hw.1 e.1 e.2).mpr he

theorem count_fst {f : Facts} {st : State} (hw : WF st) :
    (count f st).1 = ((st.reg.map Prod.fst).filter (fun k => (lookup f st k).isSome)).length := by
  simp only [count, listed]
  exact filter_visible_length f st st.reg (wf_load_entry hw)

theorem count_snd {f : Facts} {st : State} (hw : WF st) :
    (count f st).2 =
      (((st.reg.map Prod.fst).filterMap (lookup f st)).map (ccOf st)).foldl (· + ·) 0 := by
  simp only [count, listed]
  rw [← filter_visible_eq_filterMap_lookup f st st.reg (wf_load_entry hw), List.map_map]
  rfl

theorem infos_fst (f : Facts) (st : State) (token : Path) (size : Nat) :
    (infos f st token size).1 = (count f st).1 := by
  simp [infos, count]

end IpcHub.Registry
