import IpcHub.Model.FlvCacheM
import IpcHub.Lemmas.MediaCache2
namespace IpcHub.FlvCacheM
open IpcHub.Media (suffixFromLast suffixFromLast_snoc rev_ind getLast?_filter_snoc)

inductive FK where
  | mdata | vseq | aseq | key | other
  deriving DecidableEq, Repr

/-- the cache's view of a tag, in the priority order of FlvCache.CachePack -/
def tagKind (t : FTag) : FK :=
  if isMetadata t then .mdata
  else if isVideoSeqHeader t then .vseq
  else if isAacSeqHeader t then .aseq
  else if isKeyFrame t then .key
  else .other

def packK (c : FCache) (t : FTag) : FK → FCache × Bool
  | .mdata => ({ c with mdata := some t }, false)
  | .vseq => ({ c with vseq := some t }, false)
  | .aseq => ({ c with aseq := some t }, false)
  | .key => if c.cacheGop then ({ c with last := t.ts, gop := [t] }, true) else ({ c with last := t.ts }, true)
  | .other => if c.cacheGop then (if c.gop.length > 0 then ({ c with last := t.ts, gop := c.gop ++ [t] }, false)
                                  else ({ c with last := t.ts }, false))
              else ({ c with last := t.ts }, false)

theorem pack_kind (c : FCache) (t : FTag) : c.pack t = packK c t (tagKind t) := by
  unfold FCache.pack tagKind
  by_cases h1 : isMetadata t = true
  · simp [h1, packK]
  · simp only [h1, Bool.false_eq_true, if_false]
    by_cases h2 : isVideoSeqHeader t = true
    · simp [h2, packK]
    · simp only [h2, Bool.false_eq_true, if_false]
      by_cases h3 : isAacSeqHeader t = true
      · simp [h3, packK]
      · simp only [h3, Bool.false_eq_true, if_false]
        by_cases h4 : isKeyFrame t = true
        · simp [h4, packK]
        · have h4' : isKeyFrame t = false := by simpa using h4
          simp [h4', packK]

theorem cacheFrom_snoc (c0 : FCache) (ts : List FTag) (t : FTag) :
    cacheFrom c0 (ts ++ [t]) = ((cacheFrom c0 ts).pack t).1 := by
  simp [cacheFrom, List.foldl_append]

theorem cacheAfter_snoc (gop : Bool) (ts : List FTag) (t : FTag) :
    cacheAfter gop (ts ++ [t]) = ((cacheAfter gop ts).pack t).1 := cacheFrom_snoc _ ts t

/-- the cache with GOP caching `gop` and header stamping `sn` after the tags `ts` -/
def cacheG (gop sn : Bool) (ts : List FTag) : FCache := cacheFrom { cacheGop := gop, stampNow := sn } ts

theorem cacheG_snoc (gop sn : Bool) (ts : List FTag) (t : FTag) :
    cacheG gop sn (ts ++ [t]) = ((cacheG gop sn ts).pack t).1 := cacheFrom_snoc _ ts t

theorem cacheAfter_eq (gop : Bool) (ts : List FTag) : cacheAfter gop ts = cacheG gop true ts := rfl

structure FSpec (gop : Bool) (ts : List FTag) (c : FCache) : Prop where
  cfg : c.cacheGop = gop
  md : c.mdata = (ts.filter (fun t => tagKind t = .mdata)).getLast?
  vs : c.vseq = (ts.filter (fun t => tagKind t = .vseq)).getLast?
  as : c.aseq = (ts.filter (fun t => tagKind t = .aseq)).getLast?
  gopS : c.gop = if gop then
      suffixFromLast (fun t => tagKind t = .key) (ts.filter (fun t => tagKind t = .key ∨ tagKind t = .other))
    else []

theorem fspec_cacheG (gop sn : Bool) (ts : List FTag) : FSpec gop ts (cacheG gop sn ts) := by
  induction ts using rev_ind with
  | h0 => exact ⟨rfl, by simp [cacheG, cacheFrom], by simp [cacheG, cacheFrom], by simp [cacheG, cacheFrom], by simp [cacheG, cacheFrom, suffixFromLast]⟩
  | hs ts t ih =>
    rw [cacheG_snoc, pack_kind]
    obtain ⟨hg, hm, hv, ha, hgop⟩ := ih
    cases hk : tagKind t with
    | mdata =>
      simp only [packK]
      refine ⟨hg, ?_, ?_, ?_, ?_⟩
      · rw [getLast?_filter_snoc]; simp [hk]
      · rw [getLast?_filter_snoc]; simp [hk, hv]
      · rw [getLast?_filter_snoc]; simp [hk, ha]
      · simp only; rw [hgop, List.filter_append]; simp [hk]
    | vseq =>
      simp only [packK]
      refine ⟨hg, ?_, ?_, ?_, ?_⟩
      · rw [getLast?_filter_snoc]; simp [hk, hm]
      · rw [getLast?_filter_snoc]; simp [hk]
      · rw [getLast?_filter_snoc]; simp [hk, ha]
      · simp only; rw [hgop, List.filter_append]; simp [hk]
    | aseq =>
      simp only [packK]
      refine ⟨hg, ?_, ?_, ?_, ?_⟩
      · rw [getLast?_filter_snoc]; simp [hk, hm]
      · rw [getLast?_filter_snoc]; simp [hk, hv]
      · rw [getLast?_filter_snoc]; simp [hk]
      · simp only; rw [hgop, List.filter_append]; simp [hk]
    | key =>
      simp only [packK]
      rw [hg]
      cases gop with
      | false =>
        simp only [Bool.false_eq_true, if_false]
        refine ⟨by first | exact hg | rfl, ?_, ?_, ?_, ?_⟩
        · rw [getLast?_filter_snoc]; simp [hk, hm]
        · rw [getLast?_filter_snoc]; simp [hk, hv]
        · rw [getLast?_filter_snoc]; simp [hk, ha]
        · simpa using hgop
      | true =>
        simp only [if_true]
        refine ⟨by first | exact hg | rfl, ?_, ?_, ?_, ?_⟩
        · rw [getLast?_filter_snoc]; simp [hk, hm]
        · rw [getLast?_filter_snoc]; simp [hk, hv]
        · rw [getLast?_filter_snoc]; simp [hk, ha]
        · simp only [if_true]
          rw [List.filter_append]
          simp only [hk, List.filter_cons, List.filter_nil, decide_true, Bool.true_or, if_true, true_or]
          rw [suffixFromLast_snoc]; simp [hk]
    | other =>
      simp only [packK]
      rw [hg]
      cases gop with
      | false =>
        simp only [Bool.false_eq_true, if_false]
        refine ⟨by first | exact hg | rfl, ?_, ?_, ?_, ?_⟩
        · rw [getLast?_filter_snoc]; simp [hk, hm]
        · rw [getLast?_filter_snoc]; simp [hk, hv]
        · rw [getLast?_filter_snoc]; simp [hk, ha]
        · simpa using hgop
      | true =>
        simp only [if_true] at hgop ⊢
        have hsn : suffixFromLast (fun t => decide (tagKind t = FK.key))
            (List.filter (fun t => decide (tagKind t = FK.key ∨ tagKind t = FK.other)) (ts ++ [t]))
            = (match (cacheG true sn ts).gop with | [] => [] | r :: rs => (r :: rs) ++ [t]) := by
          rw [List.filter_append]
          simp only [hk, List.filter_cons, List.filter_nil, decide_true, Bool.or_true, if_true, or_true]
          rw [suffixFromLast_snoc, ← hgop]; simp only [hk]
          cases (cacheG true sn ts).gop <;> simp
        cases hgl : (cacheG true sn ts).gop with
        | nil =>
          rw [hgl] at hsn
          simp only [hgl, List.length_nil, gt_iff_lt, Nat.lt_irrefl, if_false]
          refine ⟨by first | exact hg | rfl, ?_, ?_, ?_, ?_⟩
          · rw [getLast?_filter_snoc]; simp [hk, hm]
          · rw [getLast?_filter_snoc]; simp [hk, hv]
          · rw [getLast?_filter_snoc]; simp [hk, ha]
          · simp only [if_true]; rw [hsn]
        | cons r rs =>
          rw [hgl] at hsn
          simp only [hgl, List.length_cons, gt_iff_lt, Nat.zero_lt_succ, if_true]
          refine ⟨by first | exact hg | rfl, ?_, ?_, ?_, ?_⟩
          · rw [getLast?_filter_snoc]; simp [hk, hm]
          · rw [getLast?_filter_snoc]; simp [hk, hv]
          · rw [getLast?_filter_snoc]; simp [hk, ha]
          · simp only [if_true]; rw [hsn]

theorem fspec_cacheAfter (gop : Bool) (ts : List FTag) : FSpec gop ts (cacheAfter gop ts) :=
  fspec_cacheG gop true ts

/-- is the tag a media tag for the cache (neither metadata nor a sequence header)? -/
def isMedia (t : FTag) : Bool := decide (tagKind t = .key ∨ tagKind t = .other)

/-- `stampNow` never changes, and `lastTimestamp` is the timestamp of the latest media tag
    (0 before the first) -/
theorem last_cacheG (gop sn : Bool) (ts : List FTag) :
    (cacheG gop sn ts).stampNow = sn ∧
    (cacheG gop sn ts).last = (match (ts.filter isMedia).getLast? with | some t => t.ts | none => 0) := by
  induction ts using rev_ind with
  | h0 => simp [cacheG, cacheFrom]
  | hs ts t ih =>
    obtain ⟨i1, i2⟩ := ih
    rw [cacheG_snoc, pack_kind, getLast?_filter_snoc]
    cases hk : tagKind t with
    | mdata => exact ⟨i1, by simpa [packK, isMedia, hk] using i2⟩
    | vseq => exact ⟨i1, by simpa [packK, isMedia, hk] using i2⟩
    | aseq => exact ⟨i1, by simpa [packK, isMedia, hk] using i2⟩
    | key =>
      simp only [packK, isMedia, hk]
      split <;> exact ⟨i1, by simp⟩
    | other =>
      simp only [packK, isMedia, hk]
      split
      · split <;> exact ⟨i1, by simp⟩
      · exact ⟨i1, by simp⟩

end IpcHub.FlvCacheM
