import IpcHub.Lemmas.Media4
namespace IpcHub.Media

/-! ### an unregistered consumption is always closed; release within two own steps -/

def UAll (s : St) : Prop := ∀ c ∈ s.cons, c.registered = false → c.closed = true

theorem close_closed (c : Cons) : (Cons.close c).closed = true := by
  unfold Cons.close; split
  · assumption
  · rfl

theorem step_unreg (c : Cons) (h : c.registered = false → c.closed = true) :
    c.step.1.registered = false → c.step.1.closed = true := by
  have hs := stepKind_spec c
  unfold Cons.step
  cases hk : c.stepKind with
  | idle => exact h
  | blocked => exact h
  | panic => intro _; rfl
  | deliver p => exact h
  | exit => rw [hk] at hs; intro _; exact hs.2.2
  | sentinel => exact h
  | take p => exact h

theorem uall_step (s : St) (l : Label) (h : UAll s) : UAll (s.step l) := by
  intro c hc
  cases l with
  | pub p =>
    simp only [St.step] at hc
    split at hc
    · exact h c hc
    · split at hc
      · exact h c hc
      · rename_i cache' key _
        simp only [List.mem_map] at hc
        obtain ⟨c', hc', rfl⟩ := hc
        intro hr
        have hreg := (send_fields s.maxQLen p key c').2.2.2.2
        rw [hreg] at hr
        have hcl := h c' hc' hr
        unfold Cons.send; simp [hr, hcl]
  | join name useGop panicAt =>
    simp only [St.step] at hc
    split at hc
    · exact h c hc
    · split at hc
      · simp only [List.mem_append, List.mem_singleton] at hc
        rcases hc with hc | rfl
        · exact h c hc
        · intro _; exact close_closed _
      · simp only [List.mem_append, List.mem_singleton] at hc
        rcases hc with hc | rfl
        · exact h c hc
        · intro hr; simp at hr
  | stop name =>
    simp only [St.step, List.mem_map] at hc
    obtain ⟨c', hc', rfl⟩ := hc
    split
    · intro _; exact close_closed _
    · exact h c' hc'
  | close =>
    simp only [St.step] at hc
    split at hc
    · exact h c hc
    · simp only [List.mem_map] at hc
      obtain ⟨c', hc', rfl⟩ := hc
      split
      · intro _; exact close_closed _
      · exact h c' hc'
  | cstep name =>
    simp only [St.step, List.mem_map] at hc
    obtain ⟨c', hc', rfl⟩ := hc
    split
    · exact step_unreg c' (h c' hc')
    · exact h c' hc'
  | stall name =>
    simp only [St.step, List.mem_map] at hc
    obtain ⟨c', hc', rfl⟩ := hc
    split
    · exact h c' hc'
    · exact h c' hc'
  | resume name =>
    simp only [St.step, List.mem_map] at hc
    obtain ⟨c', hc', rfl⟩ := hc
    split
    · exact h c' hc'
    · exact h c' hc'

theorem uall_run (s : St) (ls : List Label) (h : UAll s) : UAll (s.run ls) := by
  induction ls generalizing s with
  | nil => exact h
  | cons l ls ih => exact ih _ (uall_step s l h)

/-- a closed, not stalled consumption whose goroutine is still alive exits within two of its own
    steps (finish the Consume in flight, then leave the loop), calling Consumer.Close exactly once -/
theorem released_in_two (c : Cons) (hcl : c.closed = true) (hst : c.stalled = false) (hex : c.exited = false)
    (hcalls : c.closeCalls = 0) :
    c.step.1.step.1.exited = true ∧ c.step.1.step.1.closeCalls = 1 ∧ c.step.1.step.1.registered = false := by
  have e1 : c.step = c.apply c.stepKind := rfl
  have idle_of_exited : ∀ d : Cons, d.exited = true → d.step.1 = d := by
    intro d hd
    show (d.apply d.stepKind).1 = d
    have : d.stepKind = .idle := by simp [Cons.stepKind, hd]
    rw [this]; rfl
  cases hin : c.inflight with
  | none =>
    have k1 : c.stepKind = .exit := by simp [Cons.stepKind, hex, hin, hcl]
    have s1 : c.step.1 = (c.apply .exit).1 := by rw [e1, k1]
    have hx : c.step.1.exited = true := by rw [s1]; rfl
    rw [idle_of_exited _ hx, s1]
    simp [Cons.apply, hcalls]
  | some p =>
    by_cases hp : c.panicAt ≠ 0 ∧ c.delivered.length + 1 = c.panicAt
    · have k1 : c.stepKind = .panic := by simp [Cons.stepKind, hex, hin, hst, hp]
      have s1 : c.step.1 = (c.apply .panic).1 := by rw [e1, k1]
      have hx : c.step.1.exited = true := by rw [s1]; rfl
      rw [idle_of_exited _ hx, s1]
      simp [Cons.apply, hcalls]
    · have k1 : c.stepKind = .deliver p := by simp [Cons.stepKind, hex, hin, hst, hp]
      have s1 : c.step.1 = (c.apply (.deliver p)).1 := by rw [e1, k1]
      have k2 : c.step.1.stepKind = .exit := by rw [s1]; simp [Cons.stepKind, Cons.apply, hex, hcl]
      have s2 : c.step.1.step.1 = (c.step.1.apply .exit).1 := by
        show (c.step.1.apply c.step.1.stepKind).1 = _
        rw [k2]
      rw [s2, s1]; simp [Cons.apply, hcalls]

end IpcHub.Media
