/-
C11 helper lemmas, part F: the user half of the relation `Rel` holds for the table the model builds
from any administrative history.
-/
import IpcHub.Lemmas.AuthWsp
namespace IpcHub.Auth
open IpcHub.PathMatch IpcHub.PatternLang IpcHub.Monitor

/-- the hypotheses on the source facts and character functions the user-table theorems need -/
structure UserFacts (cfg : Cfg) (e : Env) : Prop where
  hlow : ∀ c, cfg.pm.lower (cfg.pm.lower c) = cfg.pm.lower c
  resets : cfg.initResets = true
  noTrim : cfg.pm.pathTrims = false
  semi : cfg.pm.isSpace ';' = false
  lower : e.lower = cfg.pm.lower
  space : e.isSpace = cfg.pm.isSpace

section
variable (cfg : Cfg) (e : Env) (f : UserFacts cfg e)
include f

/-- Rights follow the last save: the model's permission decision for `n` after the history `h` is the
    documented pattern language applied to the right string last saved for `n` (nothing if `n` was
    deleted since, or never saved). -/
theorem perm_usersOf (h : List AdminOp) (n p : List Char) (rt : Right) :
    (match getUser cfg (usersOf cfg h) n with
      | none => false
      | some u => u.validatePermission cfg p rt) = allowed e h n (actOf rt) p := by
  have hg := getUser_usersOf cfg f.hlow f.resets h n
  have inv := uinv_usersOf cfg f.hlow f.resets h
  unfold allowed
  rw [f.lower]
  cases hl : lastSaved cfg.pm.lower h n with
  | none =>
    rw [hl] at hg
    cases hgu : getUser cfg (usersOf cfg h) n with
    | none => rfl
    | some u => rw [hgu] at hg; simp at hg
  | some rec =>
    rw [hl] at hg
    cases hgu : getUser cfg (usersOf cfg h) n with
    | none => rw [hgu] at hg; simp at hg
    | some u =>
      rw [hgu] at hg
      simp only [Option.map_some, Option.some.injEq] at hg
      have hmem : u ∈ usersOf cfg h := by
        unfold getUser at hgu
        exact List.mem_of_find?_eq_some hgu
      have hm := inv.mat u hmem
      have hadm : u.admin = rec.admin := by have := congrArg Rec.admin hg; simpa [recOf, Rec.norm] using this
      have hpull : u.pull = effectiveRight rec.admin rec.pull := by
        have := congrArg Rec.pull hg; simpa [recOf, Rec.norm] using this
      have hpush : u.push = effectiveRight rec.admin rec.push := by
        have := congrArg Rec.push hg; simpa [recOf, Rec.norm] using this
      cases rt with
      | pull =>
        simp only [User.validatePermission, actOf, hm.1, hpull, f.space]
        exact any_initMatchers_eq_spec cfg.pm f.noTrim f.semi rec.pull rec.admin p
      | push =>
        simp only [User.validatePermission, actOf, hm.2, hpush, f.space]
        exact any_initMatchers_eq_spec cfg.pm f.noTrim f.semi rec.push rec.admin p

theorem admin_usersOf (h : List AdminOp) (n : List Char) :
    (match getUser cfg (usersOf cfg h) n with
      | none => false
      | some u => u.admin) = allowed e h n .admin [] := by
  have hg := getUser_usersOf cfg f.hlow f.resets h n
  unfold allowed
  rw [f.lower]
  cases hl : lastSaved cfg.pm.lower h n with
  | none =>
    rw [hl] at hg
    cases hgu : getUser cfg (usersOf cfg h) n with
    | none => rfl
    | some u => rw [hgu] at hg; simp at hg
  | some rec =>
    rw [hl] at hg
    cases hgu : getUser cfg (usersOf cfg h) n with
    | none => rw [hgu] at hg; simp at hg
    | some u =>
      rw [hgu] at hg
      simp only [Option.map_some, Option.some.injEq] at hg
      have := congrArg Rec.admin hg
      simpa [recOf, Rec.norm] using this

theorem password_usersOf (h : List AdminOp) (n : List Char) :
    (getUser cfg (usersOf cfg h) n).map (·.password) = (lastSaved e.lower h n).map (·.password) := by
  have hg := getUser_usersOf cfg f.hlow f.resets h n
  rw [f.lower]
  have := congrArg (Option.map Rec.password) hg
  simpa [Option.map_map, Function.comp_def, recOf, Rec.norm] using this

end

/-- `Rel` from its two halves: the table built from the monitor's history, and a token table that
    answers like the monitor's grants -/
theorem rel_of_history (cfg : Cfg) (e : Env) (f : UserFacts cfg e) (w : World) (sw : SWorld)
    (hu : w.users = usersOf cfg sw.hist) (ha : w.authOn = sw.authOn)
    (ht : ∀ t, (accessCheck w.toks t w.now).2 = validAccess sw.grants sw.now t) : Rel cfg e w sw :=
  ⟨ha, by rw [hu]; exact perm_usersOf cfg e f sw.hist, by rw [hu]; exact admin_usersOf cfg e f sw.hist,
   by rw [hu]; exact password_usersOf cfg e f sw.hist, ht⟩

end IpcHub.Auth
