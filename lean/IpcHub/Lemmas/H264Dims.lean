/-
The values `Width/Height/FrameRate/IsFixedFrameRate` compute from the decoded structure
are the ones the standard derives from the syntax tree.
-/
import IpcHub.Spec.H264Agree
namespace IpcHub.H264
open IpcHub.H264Syntax

theorem chromaArrayType_toRaw (s : SpsSyntax) :
    (if (toRaw s).chroma.separateColourPlaneFlag = 1 then 0 else (toRaw s).chroma.chromaFormatIdc)
      = chromaArrayType s := by
  simp only [toRaw, chromaOf, chromaArrayType, separatePlanes, chromaFormat]
  by_cases hh : hasChromaInfo s = true
  · by_cases h3 : s.chroma_format_idc = 3
    · by_cases hs : s.separate_colour_plane_flag = true <;> simp [hh, h3, hs]
    · simp [hh, h3]
  · simp [hh]

theorem width_toRaw (cfg : Cfg) (hc : cfg.cropByChroma = true) (s : SpsSyntax) :
    width cfg (toRaw s) = croppedWidth s := by
  simp only [width, hc, if_true, chromaArrayType_toRaw]
  simp only [toRaw, frameOf, croppedWidth, cropUnitX, subWidthC]
  by_cases h0 : chromaArrayType s = 0
  · simp [h0]
  · by_cases h12 : chromaArrayType s = 1 ∨ chromaArrayType s = 2
    · simp [h0, h12]
    · simp [h0, h12]

theorem height_toRaw (cfg : Cfg) (hc : cfg.cropByChroma = true) (s : SpsSyntax) :
    height cfg (toRaw s) = croppedHeight s := by
  simp only [height, hc, if_true, chromaArrayType_toRaw]
  simp only [toRaw, frameOf, croppedHeight, cropUnitY, subHeightC]
  by_cases hf : s.frame_mbs_only_flag = true <;> by_cases h0 : chromaArrayType s = 0 <;> by_cases h1 : chromaArrayType s = 1 <;>
    simp [hf, h0, h1] <;> omega

theorem frameRate_toRaw (cfg : Cfg) (hf : cfg.fpsWide = true) (s : SpsSyntax) :
    frameRate cfg (toRaw s) = H264Syntax.frameRate s := by
  simp only [frameRate, hf, if_true, toRaw, vuiOf, H264Syntax.frameRate]
  by_cases hv : s.vui_parameters_present_flag = true <;> by_cases ht : s.vui.timing_info_present_flag = true <;>
    by_cases hn : s.vui.num_units_in_tick = 0 <;> simp [hv, ht, hn]

theorem fixed_toRaw (s : SpsSyntax) : isFixedFrameRate (toRaw s) = fixedFrameRate s := by
  simp only [isFixedFrameRate, toRaw, vuiOf, fixedFrameRate]
  by_cases hv : s.vui_parameters_present_flag = true <;> by_cases ht : s.vui.timing_info_present_flag = true <;>
    by_cases hx : s.vui.fixed_frame_rate_flag = true <;> simp [hv, ht, hx]

theorem dims_toRaw (cfg : Cfg) (hc : cfg.cropByChroma = true) (hf : cfg.fpsWide = true) (s : SpsSyntax) :
    dimsOf cfg (toRaw s) = { width := croppedWidth s, height := croppedHeight s,
                             fixed := fixedFrameRate s, fps := H264Syntax.frameRate s } := by
  simp only [dimsOf, width_toRaw cfg hc, height_toRaw cfg hc, frameRate_toRaw cfg hf, fixed_toRaw]

end IpcHub.H264
