/-
Lemmas about the bit reader model (Model/Bits.lean) against the descriptor encoders
(Spec/BitSyntax.lean): every descriptor is read back exactly, leaving the rest untouched.
-/
import IpcHub.Model.Bits
import IpcHub.Spec.BitSyntax
namespace IpcHub.Bits
open IpcHub.BitSyntax

@[simp] theorem bind_apply {α β : Type} (p : P α) (f : α → P β) (s : List Bool) :
    (p >>= f) s = match p s with
      | .ok (a, s') => f a s'
      | .error e => .error e := rfl

@[simp] theorem pure_apply {α : Type} (a : α) (s : List Bool) : (pure a : P α) s = .ok (a, s) := rfl

@[simp] theorem fail_apply {α : Type} (e : Fault) (s : List Bool) : (fail e : P α) s = .error e := rfl

@[simp] theorem length_u (n v : Nat) : (u n v).length = n := by
  induction n generalizing v with
  | zero => rfl
  | succ n ih => simp [u, ih]

theorem valOf_append_one (l : List Bool) (b : Bool) : valOf (l ++ [b]) = 2 * valOf l + b.toNat := by
  simp [valOf, List.foldl_append]

theorem valOf_u (n v : Nat) : valOf (u n v) = v % 2 ^ n := by
  induction n generalizing v with
  | zero => simp [u, valOf, Nat.mod_one]
  | succ n ih =>
    rw [u, valOf_append_one, ih]
    have h : (v % 2 == 1).toNat = v % 2 := by
      rcases Nat.mod_two_eq_zero_or_one v with h | h <;> simp [h]
    rw [h, Nat.pow_succ, Nat.mod_mul_left_div_self_aux]
where
  Nat.mod_mul_left_div_self_aux {v n : Nat} : 2 * (v / 2 % 2 ^ n) + v % 2 = v % (2 ^ n * 2) := by
    have h1 : v % (2 ^ n * 2) = v % 2 + 2 * (v / 2 % 2 ^ n) := by
      rw [Nat.mul_comm (2 ^ n) 2, Nat.mod_mul]
    omega

/-- u(n) is read back by `readUint64(n, max)` -/
theorem readU_u (n max v : Nat) (r : List Bool) (hn : n ≤ max) (hv : v < 2 ^ n) :
    readU n max (u n v ++ r) = .ok (v, r) := by
  unfold readU
  by_cases h0 : n = 0
  · subst h0; simp at hv; simp [u, hv]
  · have h1 : ¬ (n = 0 ∨ n > max) := by omega
    simp only [h1, if_false]
    have hl : ¬ ((u n v ++ r).length < n) := by simp
    simp only [hl, if_false]
    rw [List.take_left' (length_u n v), List.drop_left' (length_u n v), valOf_u, Nat.mod_eq_of_lt hv]

theorem readBit_flag (b : Bool) (r : List Bool) : readBit (flag b ++ r) = .ok (b.toNat, r) := rfl

theorem readBool_flag (b : Bool) (r : List Bool) : readBool (flag b ++ r) = .ok (b, r) := rfl

theorem skip_append (l r : List Bool) : skip l.length (l ++ r) = .ok ((), r) := by
  unfold skip
  by_cases h : l.length = 0
  · simp [h, List.eq_nil_of_length_eq_zero h]
  · simp [h]

theorem ueZeros_zeros (lim i z : Nat) (r : List Bool) (h : i + z ≤ lim) :
    ueZeros lim i (List.replicate z false ++ true :: r) = .ok (i + z, r) := by
  induction z generalizing i with
  | zero => simp [ueZeros]
  | succ z ih =>
    have hi : i < lim := by omega
    simp only [List.replicate_succ, List.cons_append, ueZeros, hi, and_self, if_true]
    rw [ih (i + 1) (by omega)]
    congr 2; omega

/-- ue(v) is read back by `ReadUe` for every code number below 2^32 − 1 -/
theorem readUe_ue (k : Nat) (r : List Bool) (hk : k + 1 < 2 ^ 32) :
    readUe (ue k ++ r) = .ok (k, r) := by
  have hne : k + 1 ≠ 0 := by omega
  have hz : Nat.log2 (k + 1) < 32 := (Nat.log2_lt hne).2 hk
  have hlo : 2 ^ Nat.log2 (k + 1) ≤ k + 1 := Nat.log2_self_le hne
  have hhi : k + 1 < 2 ^ (Nat.log2 (k + 1) + 1) := Nat.lt_log2_self
  simp only [readUe, readUeL, ue, bind_apply, List.append_assoc, List.singleton_append, List.cons_append, List.nil_append]
  rw [ueZeros_zeros 32 0 _ _ (by omega)]
  simp only [Nat.zero_add]
  rw [readU_u _ 32 _ _ (by omega) (by rw [Nat.pow_succ] at hhi; omega)]
  simp only [pure_apply]
  congr 2
  have : k + 1 - 2 ^ (k + 1).log2 + (2 ^ (k + 1).log2 - 1) = k := by omega
  rw [this]; exact Nat.mod_eq_of_lt (by omega)

theorem readUe8_ue (k : Nat) (r : List Bool) (hk : k < 256) : readUe8 (ue k ++ r) = .ok (k, r) := by
  simp only [readUe8, bind_apply, readUe_ue k r (by omega), pure_apply]
  congr 2; omega

theorem readUe16_ue (k : Nat) (r : List Bool) (hk : k < 65536) : readUe16 (ue k ++ r) = .ok (k, r) := by
  simp only [readUe16, bind_apply, readUe_ue k r (by omega), pure_apply]
  congr 2; omega

theorem wrapInt_id (bits : Nat) (z : Int) (hb : 0 < bits) (h1 : -(2 ^ (bits - 1)) ≤ z) (h2 : z < 2 ^ (bits - 1)) :
    wrapInt bits z = z := by
  unfold wrapInt
  have hp : (2 : Int) ^ bits = 2 * 2 ^ (bits - 1) := by
    obtain ⟨m, rfl⟩ : ∃ m, bits = m + 1 := ⟨bits - 1, by omega⟩
    simp [Int.pow_succ, Int.mul_comm]
  rw [Int.emod_eq_of_lt (by omega) (by omega)]
  omega

/-- se(v) is read back by the current `ReadSe` over the whole range of the standards -/
theorem readSe_se (z : Int) (r : List Bool) (h1 : -(2 ^ 31) < z) (h2 : z < 2 ^ 31) :
    readSeC true (se z ++ r) = .ok (z, r) := by
  have hk : seCodeNum z + 1 < 2 ^ 32 := by unfold seCodeNum; split <;> omega
  simp only [readSeC, se, bind_apply, readUe_ue _ r hk, if_true]
  unfold seCodeNum
  by_cases hz : z > 0
  · simp only [hz, if_true]
    have e1 : (2 * z - 1).toNat % 2 ≠ 0 := by omega
    have e2 : Int.ofNat ((2 * z - 1).toNat / 2) = z - 1 := by simp; omega
    simp only [e1, ne_eq, not_false_eq_true, if_true, e2, pure_apply]
    rw [wrapInt_id 32 (z - 1) (by omega) (by simp; omega) (by simp; omega)]
    rw [wrapInt_id 32 _ (by omega) (by simp; omega) (by simp; omega)]
    congr 2; omega
  · simp only [hz, if_false]
    have e1 : ¬ ((-2 * z).toNat % 2 ≠ 0) := by omega
    have e2 : Int.ofNat ((-2 * z).toNat / 2) = -z := by simp; omega
    simp only [e1, if_false, e2, pure_apply]
    rw [wrapInt_id 32 (-z) (by omega) (by simp; omega) (by simp; omega)]
    rw [wrapInt_id 32 _ (by omega) (by simp; omega) (by simp; omega)]
    congr 2; omega

/-- the pinned tree's `ReadSe` (result computed from the zero result variable) returns 0 for every code -/
theorem readSe_old_zero (z : Int) (r : List Bool) (h1 : -(2 ^ 31) < z) (h2 : z < 2 ^ 31) :
    readSeC false (se z ++ r) = .ok (0, r) := by
  have hk : seCodeNum z + 1 < 2 ^ 32 := by unfold seCodeNum; split <;> omega
  simp [readSeC, se, readUe_ue _ r hk]

end IpcHub.Bits
