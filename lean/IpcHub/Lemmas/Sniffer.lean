/-
Theorems about the sniffing connection wrapper (C19), model in `IpcHub.Model.Sniffer`.
Core Lean only.
-/
import IpcHub.Model.Sniffer
namespace IpcHub.Sniffer
open IpcHub.Patricia

/-- the script never returns data together with an error (a TCP conn does not) -/
def noDataErr (evs : List Ev) : Prop := ∀ e ∈ evs, ∀ n x, e ≠ Ev.deliverFail n x
/-- the script only delivers data (any segment sizes), no failure events -/
def cleanEvs (evs : List Ev) : Prop := ∀ e ∈ evs, ∃ n, e = Ev.deliver n
/-- buffered bytes the service has not yet been given -/
def pending (st : St) : Bytes := if st.direct then [] else (st.buffer.take st.bufferSize).drop st.bufferRead
/-- the sniffing phase of `Listener.serve`, generalised: any number of passes, each any list of read sizes -/
def sniffOps (passes : List (List Nat)) : List Op := passes.flatMap (fun p => Op.start :: p.map Op.read) ++ [Op.done]
/-- which listener gets a connection whose stream is `s`, by the matchers alone -/
def routeOf : List Tree → Bytes → Nat → Route
  | [], _, _ => .closed
  | t :: ts, s, i => if t.matchInput s true then .service i else routeOf ts s (i + 1)

/-! ### list helpers -/

theorem take_append_drop_len {α} (l : List α) (k : Nat) :
    l.take k ++ l.drop (l.take k).length = l := by
  rcases Nat.le_total k l.length with h | h
  · simp [List.length_take, Nat.min_eq_left h]
  · simp [List.take_of_length_le h]

theorem take_step {α} (l : List α) (a k : Nat) :
    l.take a ++ (l.drop a).take k = l.take (a + ((l.drop a).take k).length) := by
  rw [List.take_add]
  congr 1
  rcases Nat.le_total k (l.drop a).length with h | h
  · simp [List.length_take]
  · rw [List.take_of_length_le h, List.take_of_length_le (Nat.le_refl _)]

/-! ### the raw socket -/

theorem srcRead_frame (st : St) (k : Nat) (evs : List Ev) :
    (srcRead st k evs).bytes ++ (srcRead st k evs).st.rem = st.rem ∧
    (srcRead st k evs).st.buffer = st.buffer ∧
    (srcRead st k evs).st.bufferRead = st.bufferRead ∧
    (srcRead st k evs).st.bufferSize = st.bufferSize ∧
    (srcRead st k evs).st.sniffing = st.sniffing ∧
    (srcRead st k evs).st.lastErr = st.lastErr ∧
    (srcRead st k evs).st.capNonzero = st.capNonzero ∧
    (srcRead st k evs).st.direct = st.direct ∧
    (srcRead st k evs).st.closed = st.closed ∧
    (srcRead st k evs).st.deadline = st.deadline ∧
    (srcRead st k evs).bytes.length ≤ k ∧
    (∀ e ∈ (srcRead st k evs).evs, e ∈ evs) := by
  unfold srcRead
  split
  · simp
  split
  · simp
  split
  · simp
  split
  · split <;> simp [List.splitAt_eq, List.length_take] <;> omega
  · split <;> simp [List.splitAt_eq, List.length_take] <;> first | omega | (intro e he; exact Or.inr he) | exact ⟨by omega, fun e he => Or.inr he⟩
  · split
    · split <;> simp <;> (intro e he; exact Or.inr he)
    · simp; intro e he; exact Or.inr he
  · split <;> simp [List.splitAt_eq, List.length_take] <;> first | omega | (intro e he; exact Or.inr he) | exact ⟨by omega, fun e he => Or.inr he⟩

theorem noDataErr_sub {evs evs' : List Ev} (h : noDataErr evs) (hs : ∀ e ∈ evs', e ∈ evs) :
    noDataErr evs' := fun e he => h e (hs e he)

theorem cleanEvs_sub {evs evs' : List Ev} (h : cleanEvs evs) (hs : ∀ e ∈ evs', e ∈ evs) :
    cleanEvs evs' := fun e he => h e (hs e he)

theorem srcRead_noDataErr (st : St) (k : Nat) (evs : List Ev) (hne : noDataErr evs) :
    (srcRead st k evs).bytes = [] ∨ (srcRead st k evs).err = none := by
  unfold srcRead
  split
  · simp
  split
  · simp
  split
  · simp
  split
  · split <;> simp
  · split <;> simp
  · split
    · split <;> simp
    · simp
  · rename_i n e evs'
    exact absurd rfl (hne (.deliverFail n e) (by simp) n e)

theorem srcRead_clean (st : St) (k : Nat) (evs : List Ev) (hc : cleanEvs evs)
    (hcl : st.closed = false) (hto : st.timedOut = false) (hk : k ≥ 1) :
    (srcRead st k evs).st.timedOut = false ∧
    (((srcRead st k evs).bytes ≠ [] ∧ (srcRead st k evs).err = none) ∨
     ((srcRead st k evs).bytes = [] ∧ (srcRead st k evs).err = some .eof ∧ st.rem = [])) := by
  unfold srcRead
  rw [if_neg (by simp [hcl]), if_neg (by simp [hto]), if_neg (by omega)]
  split
  · split
    · simp_all
    · rename_i h
      have : st.rem ≠ [] := by simpa using h
      simp [List.splitAt_eq, hto, this]; omega
  · split
    · simp_all
    · rename_i h
      have : st.rem ≠ [] := by simpa using h
      simp [List.splitAt_eq, hto, this]; omega
  · rename_i e evs'
    obtain ⟨n, hn⟩ := hc (.fail e) (by simp)
    cases hn
  · rename_i n e evs'
    obtain ⟨n, hn⟩ := hc (.deliverFail n e) (by simp)
    cases hn

/-! ### the sniffing phase, free-form (`runOps`) -/

/-- invariant of the sniffing phase -/
def SnInv (s : Bytes) (st : St) : Prop :=
  st.buffer ++ st.rem = s ∧ st.direct = false ∧ st.lastErr = none ∧ st.bufferSize ≤ st.buffer.length

theorem sniffRead_SnInv {s : Bytes} {st : St} (k : Nat) {evs : List Ev} (hI : SnInv s st)
    (hs : st.sniffing = true) (hne : noDataErr evs) :
    ∃ r, sniffRead st k evs = .ok r ∧ SnInv s r.st ∧ r.st.sniffing = true ∧ noDataErr r.evs := by
  obtain ⟨h1, h2, h3, h4⟩ := hI
  unfold sniffRead
  by_cases hc : st.bufferSize > st.bufferRead
  · rw [if_pos hc, if_neg (by omega)]
    exact ⟨_, rfl, ⟨h1, h2, h3, h4⟩, hs, hne⟩
  · rw [if_neg hc]
    simp only [hs, Bool.not_true, Bool.false_and, Bool.false_eq_true, if_false]
    have hf := srcRead_frame st k evs
    have hn := srcRead_noDataErr st k evs hne
    generalize srcRead st k evs = r at hf hn
    obtain ⟨f1, f2, f3, f4, f5, f6, f7, f8, f9, f10, f11, f12⟩ := hf
    by_cases hb : r.bytes.length > 0
    · have hb' : r.bytes ≠ [] := by intro h; simp [h] at hb
      have he : r.err = none := by rcases hn with h | h; exact absurd h hb'; exact h
      simp only [hb, decide_true, Bool.true_and, f5, hs, if_true]
      refine ⟨_, rfl, ⟨?_, ?_, ?_, ?_⟩, ?_, noDataErr_sub hne f12⟩
      · simp [f2, List.append_assoc, f1, h1]
      · simp [f8, h2]
      · simp [he]
      · simp [f4, f2]; omega
      · rfl
    · simp only [hb, decide_false, Bool.false_and, Bool.false_eq_true, if_false]
      refine ⟨_, rfl, ⟨?_, ?_, ?_, ?_⟩, ?_, noDataErr_sub hne f12⟩
      · have : r.bytes = [] := by
          cases hr : r.bytes with
          | nil => rfl
          | cons a l => simp [hr] at hb
        rw [this] at f1; simp at f1
        rw [f2, f1, h1]
      · rw [f8, h2]
      · rw [f6, h3]
      · rw [f4, f2]; exact h4
      · rw [f5, hs]

theorem runOps_append {tr tr' : Trace} {a : List Op} (b : List Op) (h : runOps tr a = .ok tr') :
    runOps tr (a ++ b) = runOps tr' b := by
  induction a generalizing tr with
  | nil => simp [runOps] at h; subst h; rfl
  | cons op ops ih =>
    simp only [runOps, List.cons_append] at h ⊢
    cases hstep : stepOp tr op with
    | error f => simp [hstep] at h
    | ok t => simp only [hstep] at h ⊢; exact ih h

theorem SnInv_reset {s : Bytes} {st : St} (b : Bool) (h : SnInv s st) : SnInv s (reset st b) := by
  obtain ⟨h1, h2, h3, _⟩ := h
  exact ⟨h1, h2, h3, Nat.le_refl _⟩

theorem runOps_reads {s : Bytes} (p : List Nat) (tr : Trace) (hv : tr.viaSniffer = true)
    (hI : SnInv s tr.st) (hs : tr.st.sniffing = true) (hne : noDataErr tr.evs) :
    ∃ tr', runOps tr (p.map Op.read) = .ok tr' ∧ tr'.viaSniffer = true ∧ SnInv s tr'.st ∧
      tr'.st.sniffing = true ∧ noDataErr tr'.evs := by
  induction p generalizing tr with
  | nil => exact ⟨tr, rfl, hv, hI, hs, hne⟩
  | cons k ks ih =>
    obtain ⟨r, hr, rI, rs, rne⟩ := sniffRead_SnInv k hI hs hne
    simp only [List.map_cons, runOps, stepOp, hv, if_true, hr]
    exact ih _ rfl rI rs rne

theorem runOps_passes {s : Bytes} (passes : List (List Nat)) (tr : Trace)
    (hI : SnInv s tr.st) (hne : noDataErr tr.evs) :
    ∃ tr', runOps tr (passes.flatMap (fun p => Op.start :: p.map Op.read)) = .ok tr' ∧
      SnInv s tr'.st ∧ noDataErr tr'.evs := by
  induction passes generalizing tr with
  | nil => exact ⟨tr, rfl, hI, hne⟩
  | cons p ps ih =>
    simp only [List.flatMap_cons, List.cons_append, runOps, stepOp]
    obtain ⟨t1, h1, _, t1I, _, t1ne⟩ :=
      runOps_reads (s := s) p { tr with st := reset tr.st true, viaSniffer := true } rfl
        (SnInv_reset true hI) rfl hne
    rw [runOps_append _ h1]
    exact ih t1 t1I t1ne

/-- what holds when the connection is handed over (after `doneSniffing`) -/
def Post (s : Bytes) (tr : Trace) : Prop :=
  tr.st.buffer ++ tr.st.rem = s ∧ tr.st.direct = false ∧ tr.st.lastErr = none ∧
  tr.st.bufferRead = 0 ∧ tr.st.bufferSize = tr.st.buffer.length ∧ tr.st.sniffing = false ∧
  noDataErr tr.evs

theorem runOps_sniffOps (s : Bytes) (evs : List Ev) (hne : noDataErr evs) (passes : List (List Nat)) :
    ∃ tr, runOps { st := { rem := s }, evs := evs } (sniffOps passes) = .ok tr ∧ Post s tr := by
  obtain ⟨t1, h1, ⟨i1, i2, i3, _⟩, t1ne⟩ :=
    runOps_passes (s := s) passes { st := { rem := s }, evs := evs } ⟨by simp, rfl, rfl, by simp⟩ hne
  unfold sniffOps
  rw [runOps_append _ h1]
  exact ⟨_, rfl, i1, i2, i3, rfl, rfl, rfl, t1ne⟩

/-! ### the service phase -/

/-- invariant of the connection once it is in the hands of the service -/
def SvInv (st : St) : Prop :=
  st.sniffing = false ∧ (st.direct = false → st.bufferSize ≤ st.buffer.length)

theorem pending_nil_of_le {st : St} (h : st.bufferSize ≤ st.bufferRead) : pending st = [] := by
  unfold pending
  split
  · rfl
  · apply List.drop_eq_nil_of_le
    simp [List.length_take]; omega

theorem sniffRead_src {st : St} {k : Nat} {evs : List Ev} (hc : ¬ st.bufferSize > st.bufferRead)
    (hs : st.sniffing = false) :
    sniffRead st k evs = .ok (srcRead (if st.capNonzero = true then
      { st with buffer := [], capNonzero := false, direct := true } else st) k evs) := by
  unfold sniffRead
  rw [if_neg hc]
  by_cases hcap : st.capNonzero = true <;> simp [hs, hcap]

theorem connRead_svc {st : St} (k : Nat) (evs : List Ev) (h : SvInv st) :
    ∃ r, connRead st k evs = .ok r ∧ SvInv r.st ∧
      r.bytes ++ pending r.st ++ r.st.rem = pending st ++ st.rem := by
  obtain ⟨hs, hb⟩ := h
  unfold connRead
  by_cases hd : st.direct = true
  · rw [if_pos hd]
    have hf := srcRead_frame st k evs
    generalize srcRead st k evs = r at hf
    obtain ⟨f1, f2, f3, f4, f5, f6, f7, f8, f9, f10, f11, f12⟩ := hf
    refine ⟨r, rfl, ⟨by rw [f5, hs], by rw [f8, hd]; intro h; cases h⟩, ?_⟩
    simp [pending, f8, hd, f1]
  · rw [if_neg hd]
    have hd' : st.direct = false := by simpa using hd
    have hb' := hb hd'
    unfold sniffRead
    by_cases hc : st.bufferSize > st.bufferRead
    · rw [if_pos hc, if_neg (by omega)]
      refine ⟨_, rfl, ⟨hs, fun _ => hb'⟩, ?_⟩
      simp only [pending, hd', Bool.false_eq_true, if_false]
      rw [← List.drop_drop, take_append_drop_len]
    · have hp : pending st = [] := pending_nil_of_le (by omega)
      have hsr := sniffRead_src (k := k) (evs := evs) hc hs
      unfold sniffRead at hsr
      rw [hsr]
      by_cases hcap : st.capNonzero = true
      · rw [if_pos hcap]
        have hf := srcRead_frame { st with buffer := [], capNonzero := false, direct := true } k evs
        generalize srcRead { st with buffer := [], capNonzero := false, direct := true } k evs = r at hf ⊢
        obtain ⟨f1, f2, f3, f4, f5, f6, f7, f8, f9, f10, f11, f12⟩ := hf
        refine ⟨r, rfl, ⟨by rw [f5]; exact hs, by rw [f8]; intro h; cases h⟩, ?_⟩
        rw [hp]
        simp only [pending, f8, if_true]
        simpa using f1
      · rw [if_neg hcap]
        have hf := srcRead_frame st k evs
        generalize srcRead st k evs = r at hf ⊢
        obtain ⟨f1, f2, f3, f4, f5, f6, f7, f8, f9, f10, f11, f12⟩ := hf
        refine ⟨r, rfl, ⟨by rw [f5]; exact hs, by rw [f4, f2]; exact fun _ => hb'⟩, ?_⟩
        have hp' : pending r.st = [] := pending_nil_of_le (by rw [f3, f4]; omega)
        rw [hp, hp']
        simpa using f1

theorem svcReads_spec (ks : List Nat) (st : St) (evs : List Ev) (acc : List (Bytes × Option Err))
    (h : SvInv st) :
    ∃ outs st' evs', svcReads st ks evs acc = .ok (outs, st', evs') ∧
      (outs.map (·.1)).flatten ++ pending st' ++ st'.rem =
        (acc.reverse.map (·.1)).flatten ++ pending st ++ st.rem := by
  induction ks generalizing st evs acc with
  | nil => exact ⟨_, _, _, rfl, rfl⟩
  | cons k ks ih =>
    obtain ⟨r, hr, rI, req⟩ := connRead_svc k evs h
    obtain ⟨outs, st', evs', h1, h2⟩ := ih r.st r.evs ((r.bytes, r.err) :: acc) rI
    refine ⟨outs, st', evs', by simp only [svcReads, hr]; exact h1, ?_⟩
    rw [h2]
    simp only [List.reverse_cons, List.map_append, List.flatten_append, List.map_cons, List.map_nil,
      List.flatten_cons, List.flatten_nil, List.append_nil, List.append_assoc]
    rw [← List.append_assoc r.bytes, req]

/-- C19 replay: after ANY number of sniffing passes with ANY read sizes, for ANY stream and ANY
    adversarial script without data+error events, nothing panics, and the service — reading with
    ANY buffer sizes `ks` — gets a prefix of the original stream; what it was given, plus what is
    still buffered for it, plus what the peer has not delivered yet, is exactly the original
    stream: no byte lost, duplicated or reordered. -/
theorem replay_no_loss (s : Bytes) (evs : List Ev) (hne : noDataErr evs) (passes : List (List Nat)) (ks : List Nat) :
    ∃ tr outs st evs', runOps { st := { rem := s }, evs := evs } (sniffOps passes) = .ok tr ∧
      svcReads tr.st ks tr.evs [] = .ok (outs, st, evs') ∧
      (outs.map (·.1)).flatten ++ pending st ++ st.rem = s := by
  obtain ⟨tr, htr, p1, p2, p3, p4, p5, p6, p7⟩ := runOps_sniffOps s evs hne passes
  obtain ⟨outs, st', evs', h1, h2⟩ :=
    svcReads_spec ks tr.st tr.evs [] ⟨p6, fun _ => by rw [p5]; exact Nat.le_refl _⟩
  refine ⟨tr, outs, st', evs', htr, h1, ?_⟩
  rw [h2]
  simp [pending, p2, p4, p5, p1]

/-- progress: while buffered bytes are pending, a service read of k ≥ 1 bytes returns at least
    one of them, with no error and without touching the socket or the script -/
theorem replay_progress (s : Bytes) (evs : List Ev) (hne : noDataErr evs) (passes : List (List Nat)) (tr : Trace)
    (h : runOps { st := { rem := s }, evs := evs } (sniffOps passes) = .ok tr) (k : Nat) (hk : k ≥ 1)
    (hp : pending tr.st ≠ []) :
    ∃ r, connRead tr.st k tr.evs = .ok r ∧ r.bytes ≠ [] ∧ r.err = none ∧ r.evs = tr.evs ∧ r.st.rem = tr.st.rem ∧
      r.bytes = (pending tr.st).take k := by
  obtain ⟨tr', htr', p1, p2, p3, p4, p5, p6, p7⟩ := runOps_sniffOps s evs hne passes
  have : tr' = tr := by rw [htr'] at h; injection h
  subst this
  have hpe : pending tr'.st = (tr'.st.buffer.take tr'.st.bufferSize).drop tr'.st.bufferRead := by
    simp [pending, p2]
  have hlen : tr'.st.bufferSize > tr'.st.bufferRead := by
    rw [p4, p5]
    cases hb : tr'.st.buffer with
    | nil => rw [hpe, p4, p5, hb] at hp; simp at hp
    | cons a l => simp
  unfold connRead sniffRead
  rw [if_neg (by simp [p2]), if_pos hlen, if_neg (by omega)]
  refine ⟨_, rfl, ?_, p3, rfl, rfl, by rw [hpe]⟩
  show List.take k ((tr'.st.buffer.take tr'.st.bufferSize).drop tr'.st.bufferRead) ≠ []
  rw [← hpe]
  cases hq : pending tr'.st with
  | nil => exact absurd hq hp
  | cons a l =>
    obtain ⟨k', rfl⟩ : ∃ k', k = k' + 1 := ⟨k - 1, by omega⟩
    simp

/-- once the buffered part is drained the next read goes straight to the socket, and from then
    on `Conn.Read` bypasses the sniffer (`direct`) -/
theorem replay_drained_goes_direct (st : St) (k : Nat) (evs : List Ev) (hs : st.sniffing = false) (hd : st.direct = false)
    (hcap : st.capNonzero = true) (hp : st.bufferSize ≤ st.bufferRead) :
    connRead st k evs = .ok (srcRead { st with buffer := [], capNonzero := false, direct := true } k evs) := by
  unfold connRead
  rw [if_neg (by simp [hd]), sniffRead_src (by omega) hs, if_pos hcap]

/-! ### one matcher pass (`io.ReadFull` on the sniffer) -/

/-- invariant inside one matcher pass; `acc` is what the matcher has been given so far -/
def PassInv (s : Bytes) (st : St) (acc : Bytes) : Prop :=
  st.buffer ++ st.rem = s ∧ st.direct = false ∧ st.sniffing = true ∧
  st.bufferRead ≤ st.bufferSize ∧ st.bufferSize ≤ st.buffer.length ∧
  (st.bufferRead < st.bufferSize → st.bufferSize = st.buffer.length ∧ acc = st.buffer.take st.bufferRead) ∧
  (st.bufferRead = st.bufferSize → acc = st.buffer)

theorem PassInv_prefix {s : Bytes} {st : St} {acc : Bytes} (h : PassInv s st acc) : acc <+: s := by
  obtain ⟨h1, _, _, h4, _, h6, h7⟩ := h
  rw [← h1]
  rcases Nat.lt_or_ge st.bufferRead st.bufferSize with hlt | hge
  · rw [(h6 hlt).2]
    exact List.IsPrefix.trans (List.take_prefix _ _) (List.prefix_append _ _)
  · rw [h7 (by omega)]
    exact List.prefix_append _ _

theorem PassInv_reset {s : Bytes} {st : St} (h1 : st.buffer ++ st.rem = s) (h2 : st.direct = false) :
    PassInv s (reset st true) [] := by
  refine ⟨h1, h2, rfl, Nat.zero_le _, Nat.le_refl _, fun _ => ⟨rfl, by simp [reset]⟩, ?_⟩
  intro h
  have : st.buffer.length = 0 := by simpa [reset] using h.symm
  simpa [reset] using (List.eq_nil_of_length_eq_zero this).symm

theorem sniffRead_pass {s : Bytes} {st : St} {acc : Bytes} (k : Nat) (evs : List Ev) (hI : PassInv s st acc) :
    ∃ r, sniffRead st k evs = .ok r ∧ PassInv s r.st (acc ++ r.bytes) ∧ r.bytes.length ≤ k ∧
      (∀ e ∈ r.evs, e ∈ evs) ∧ r.st.closed = st.closed := by
  obtain ⟨h1, h2, h3, h4, h5, h6, h7⟩ := hI
  unfold sniffRead
  by_cases hc : st.bufferSize > st.bufferRead
  · rw [if_pos hc, if_neg (by omega)]
    obtain ⟨hsz, hacc⟩ := h6 hc
    have htk : st.buffer.take st.bufferSize = st.buffer := List.take_of_length_le (by omega)
    have hol : ((st.buffer.drop st.bufferRead).take k).length ≤ st.bufferSize - st.bufferRead := by
      simp [List.length_take, List.length_drop]; omega
    refine ⟨_, rfl, ⟨h1, h2, h3, ?_, h5, ?_, ?_⟩, ?_, fun e he => he, rfl⟩
    · simp only [htk]; omega
    · intro _
      refine ⟨hsz, ?_⟩
      simp only [htk]
      rw [hacc, take_step]
    · intro he
      simp only [htk] at he ⊢
      rw [hacc, take_step, he, hsz, List.take_of_length_le (Nat.le_refl _)]
    · simp [List.length_take]; omega
  · rw [if_neg hc]
    have hbr : st.bufferRead = st.bufferSize := by omega
    have hacc := h7 hbr
    simp only [h3, Bool.not_true, Bool.false_and, Bool.false_eq_true, if_false]
    have hf := srcRead_frame st k evs
    generalize srcRead st k evs = r at hf ⊢
    obtain ⟨f1, f2, f3, f4, f5, f6, f7, f8, f9, f10, f11, f12⟩ := hf
    by_cases hb : r.bytes.length > 0
    · simp only [hb, decide_true, Bool.true_and, if_true]
      refine ⟨_, rfl, ⟨?_, ?_, (f5.trans h3 : r.st.sniffing = true), ?_, ?_, ?_, ?_⟩, f11, f12, f9⟩
      · simp [f2, f1, h1]
      · simp [f8, h2]
      · simp [f3, f4]; omega
      · simp [f4, f2]; omega
      · intro h; simp [f3, f4] at h; omega
      · intro _; simp [f2, hacc]
    · simp only [hb, decide_false, Bool.false_and, Bool.false_eq_true, if_false]
      have hnil : r.bytes = [] := by
        cases hr : r.bytes with
        | nil => rfl
        | cons a l => simp [hr] at hb
      rw [hnil] at f1
      simp only [List.nil_append] at f1
      refine ⟨_, rfl, ⟨?_, ?_, ?_, ?_, ?_, ?_, ?_⟩, f11, f12, f9⟩
      · rw [f2, f1, h1]
      · rw [f8, h2]
      · rw [f5, h3]
      · rw [f3, f4]; exact h4
      · rw [f4, f2]; exact h5
      · intro h; rw [f3, f4] at h; omega
      · intro _; rw [hnil, f2, hacc]; simp

theorem readFull_pass {s : Bytes} (fuel : Nat) (st : St) (want : Nat) (evs : List Ev) (acc : Bytes)
    (hI : PassInv s st acc) :
    ∃ r, readFullSniffer fuel st want evs acc = .ok r ∧ PassInv s r.st r.bytes ∧
      (∀ e ∈ r.evs, e ∈ evs) ∧ r.st.closed = st.closed := by
  induction fuel generalizing st evs acc with
  | zero => exact ⟨_, rfl, hI, fun e he => he, rfl⟩
  | succ fuel ih =>
    unfold readFullSniffer
    split
    · exact ⟨_, rfl, hI, fun e he => he, rfl⟩
    · obtain ⟨r, hr, rI, _, rsub, rcl⟩ := sniffRead_pass (want - acc.length) evs hI
      simp only [hr]
      split
      · split
        · exact ⟨_, rfl, rI, rsub, rcl⟩
        · split
          · exact ⟨_, rfl, rI, rsub, rcl⟩
          · exact ⟨_, rfl, rI, rsub, rcl⟩
      · split
        · exact ⟨_, rfl, rI, rsub, rcl⟩
        · obtain ⟨r', hr', rI', rsub', rcl'⟩ := ih r.st r.evs (acc ++ r.bytes) rI
          exact ⟨r', hr', rI', fun e he => rsub e (rsub' e he), by rw [rcl', rcl]⟩

/-! ### `serve`, any script -/

theorem serveLoop_general {s : Bytes} (timeoutSet : Bool) (trees : List Tree) (i : Nat) (st : St)
    (evs : List Ev) (views : List Bytes) (h1 : st.buffer ++ st.rem = s) (h2 : st.direct = false)
    (hv : ∀ v ∈ views, v <+: s) :
    ∃ r, serveLoop timeoutSet trees i st evs views = .ok r ∧ ∀ v ∈ r.views, v <+: s := by
  induction trees generalizing i st evs views with
  | nil =>
    refine ⟨_, rfl, ?_⟩
    intro v hv'
    exact hv v (by simpa using hv')
  | cons t ts ih =>
    obtain ⟨r, hr, rI, _, _⟩ :=
      readFull_pass (t.maxDepth + 1) (reset st true) t.maxDepth evs [] (PassInv_reset h1 h2)
    have hv' : ∀ v ∈ r.bytes :: views, v <+: s := by
      intro v hm
      rcases List.mem_cons.mp hm with rfl | hm
      · exact PassInv_prefix rI
      · exact hv v hm
    simp only [serveLoop, matcherPass, hr]
    split
    · refine ⟨_, rfl, ?_⟩
      intro v hm
      exact hv' v (List.mem_reverse.mp hm)
    · exact ih (i + 1) r.st r.evs (r.bytes :: views) rI.1 rI.2.1 hv'

theorem serve_general (timeoutSet : Bool) (trees : List Tree) (s : Bytes) (evs : List Ev) :
    ∃ r, serve timeoutSet trees s evs = .ok r ∧ ∀ v ∈ r.views, v <+: s := by
  unfold serve
  apply serveLoop_general
  · cases timeoutSet <;> simp [setDeadline]
  · cases timeoutSet <;> simp [setDeadline]
  · intro v hv; cases hv

/-- every matcher pass of `serve` sees the stream from its first byte -/
theorem serve_views_are_prefixes (timeoutSet : Bool) (trees : List Tree) (s : Bytes) (evs : List Ev) (hne : noDataErr evs)
    (r : ServeRes) (h : serve timeoutSet trees s evs = .ok r) : ∀ v ∈ r.views, v.isPrefixOf s = true := by
  have _ := hne  -- not needed: the views are prefixes for every script
  obtain ⟨r', hr', hv⟩ := serve_general timeoutSet trees s evs
  have : r' = r := by rw [hr'] at h; injection h
  subst this
  intro v hm
  exact List.isPrefixOf_iff_prefix.mpr (hv v hm)

/-- `serve` never panics (the Go slice expression in sniffer.Read stays in range) -/
theorem serve_no_panic (timeoutSet : Bool) (trees : List Tree) (s : Bytes) (evs : List Ev) :
    ∃ r, serve timeoutSet trees s evs = .ok r := by
  obtain ⟨r, hr, _⟩ := serve_general timeoutSet trees s evs
  exact ⟨r, hr⟩

/-! ### `serve`, any script: who can get the connection, and in which state -/

/-- For EVERY script (pauses, time-outs, EOF, errors, even data together with an error): when
    `serveLoop` hands the connection to the `j`-th listener, the `j`-th matcher has accepted
    bytes `v` that are a prefix of the stream; the connection is not closed, the sniff
    deadline is cleared and buffered ++ undelivered is still the whole stream.  Otherwise
    the connection is closed. -/
theorem serveLoop_any {s : Bytes} (timeoutSet : Bool) (trees : List Tree) (i : Nat) (st : St)
    (evs : List Ev) (views : List Bytes) (h1 : st.buffer ++ st.rem = s) (h2 : st.direct = false) :
    ∃ r, serveLoop timeoutSet trees i st evs views = .ok r ∧
      (∀ j, r.route = .service j → ∃ t v, i ≤ j ∧ trees[j - i]? = some t ∧ v <+: s ∧
          t.matchBuf v true = true ∧ r.st.closed = st.closed ∧
          (timeoutSet = true → r.st.deadline = false) ∧ pending r.st ++ r.st.rem = s) ∧
      (r.route = .closed → r.st.closed = true) := by
  induction trees generalizing i st evs views with
  | nil =>
    refine ⟨_, rfl, ?_, fun _ => rfl⟩
    intro j h
    cases h
  | cons t ts ih =>
    obtain ⟨r, hr, rI, _, rcl⟩ :=
      readFull_pass (t.maxDepth + 1) (reset st true) t.maxDepth evs [] (PassInv_reset h1 h2)
    have rcl' : r.st.closed = st.closed := rcl
    simp only [serveLoop, matcherPass, hr]
    by_cases hm : t.matchBuf r.bytes true = true
    · simp only [hm, if_true]
      refine ⟨_, rfl, ?_, fun h => by cases h⟩
      intro j hj
      injection hj with hj
      subst hj
      obtain ⟨i1, i2, _⟩ := rI
      refine ⟨t, r.bytes, Nat.le_refl _, by simp, PassInv_prefix ⟨i1, i2, ‹_›⟩, hm, ?_, ?_, ?_⟩
      · cases timeoutSet <;> simp [setDeadline, reset, rcl']
      · intro h; subst h; simp [setDeadline]
      · cases timeoutSet <;> simp [setDeadline, reset, pending, i1, i2]
    · simp only [hm]
      obtain ⟨r', hr', hsvc, hcl⟩ := ih (i + 1) r.st r.evs (r.bytes :: views) rI.1 rI.2.1
      refine ⟨r', hr', ?_, hcl⟩
      intro j hj
      obtain ⟨t', v, hle, hget, hv, hmt, hc, hd, hp⟩ := hsvc j hj
      refine ⟨t', v, by omega, ?_, hv, hmt, by rw [hc, rcl'], hd, hp⟩
      have : j - i = (j - (i + 1)) + 1 := by omega
      rw [this, List.getElem?_cons_succ]
      exact hget

theorem serve_any (timeoutSet : Bool) (trees : List Tree) (s : Bytes) (evs : List Ev) :
    ∃ r, serve timeoutSet trees s evs = .ok r ∧
      (∀ j, r.route = .service j → ∃ t v, trees[j]? = some t ∧ v <+: s ∧
          t.matchBuf v true = true ∧ r.st.closed = false ∧
          (timeoutSet = true → r.st.deadline = false) ∧ pending r.st ++ r.st.rem = s) ∧
      (r.route = .closed → r.st.closed = true) := by
  unfold serve
  obtain ⟨r, hr, hsvc, hcl⟩ := serveLoop_any (s := s) timeoutSet trees 0
    (if timeoutSet then setDeadline { rem := s } true else { rem := s }) evs []
    (by cases timeoutSet <;> simp [setDeadline]) (by cases timeoutSet <;> simp [setDeadline])
  refine ⟨r, hr, ?_, hcl⟩
  intro j hj
  obtain ⟨t, v, _, hget, hv, hm, hc, hd, hp⟩ := hsvc j hj
  refine ⟨t, v, by simpa using hget, hv, hm, ?_, hd, hp⟩
  rw [hc]; cases timeoutSet <;> simp [setDeadline]

/-! ### `serve`, data-only scripts -/

theorem sniffRead_clean {s : Bytes} {st : St} {acc : Bytes} {k : Nat} {evs : List Ev} (hI : PassInv s st acc)
    (hl : st.lastErr = none) (hc : cleanEvs evs) (hcl : st.closed = false) (hto : st.timedOut = false)
    (hk : k ≥ 1) (r : ReadRes) (hr : sniffRead st k evs = .ok r) :
    r.st.lastErr = none ∧ r.st.timedOut = false ∧
      ((r.bytes ≠ [] ∧ r.err = none) ∨ (r.bytes = [] ∧ r.err = some .eof ∧ acc = s)) := by
  obtain ⟨h1, h2, h3, h4, h5, h6, h7⟩ := hI
  unfold sniffRead at hr
  by_cases hc' : st.bufferSize > st.bufferRead
  · rw [if_pos hc', if_neg (by omega)] at hr
    injection hr with hr
    subst hr
    refine ⟨hl, hto, Or.inl ⟨?_, hl⟩⟩
    apply List.ne_nil_of_length_pos
    simp [List.length_take, List.length_drop]
    omega
  · rw [if_neg hc'] at hr
    have hbr : st.bufferRead = st.bufferSize := by omega
    have hacc := h7 hbr
    simp only [h3, Bool.not_true, Bool.false_and, Bool.false_eq_true, if_false] at hr
    have hf := srcRead_frame st k evs
    have hcln := srcRead_clean st k evs hc hcl hto hk
    generalize srcRead st k evs = r0 at hf hcln hr
    obtain ⟨f1, f2, f3, f4, f5, f6, f7, f8, f9, f10, f11, f12⟩ := hf
    obtain ⟨c1, c2⟩ := hcln
    rcases c2 with ⟨cb, ce⟩ | ⟨cb, ce, crem⟩
    · have hb : r0.bytes.length > 0 := List.length_pos_iff.mpr cb
      simp only [hb, decide_true, Bool.true_and, if_true] at hr
      injection hr with hr
      subst hr
      exact ⟨ce, c1, Or.inl ⟨cb, ce⟩⟩
    · simp only [cb, List.length_nil, Nat.lt_irrefl, decide_false, Bool.false_and,
        Bool.false_eq_true, if_false] at hr
      injection hr with hr
      subst hr
      refine ⟨by rw [f6, hl], c1, Or.inr ⟨cb, ce, ?_⟩⟩
      rw [hacc, ← h1, crem]; simp

theorem readFull_clean {s : Bytes} (fuel : Nat) (st : St) (want : Nat) (evs : List Ev) (acc : Bytes)
    (hI : PassInv s st acc) (hl : st.lastErr = none) (hc : cleanEvs evs) (hcl : st.closed = false)
    (hto : st.timedOut = false) (hlen : acc.length ≤ want) (hfuel : want - acc.length < fuel) :
    ∃ r, readFullSniffer fuel st want evs acc = .ok r ∧ r.bytes = s.take want ∧ PassInv s r.st r.bytes ∧
      r.st.lastErr = none ∧ r.st.timedOut = false ∧ r.st.closed = false ∧ cleanEvs r.evs := by
  induction fuel generalizing st evs acc with
  | zero => omega
  | succ fuel ih =>
    unfold readFullSniffer
    split
    · refine ⟨_, rfl, ?_, hI, hl, hto, hcl, hc⟩
      have hp := List.prefix_iff_eq_take.mp (PassInv_prefix hI)
      have : acc.length = want := by omega
      rw [this] at hp
      exact hp
    · rename_i hlt
      obtain ⟨r, hr, rI, rlen, rsub, rcl⟩ := sniffRead_pass (want - acc.length) evs hI
      obtain ⟨rl, rto, rB⟩ := sniffRead_clean hI hl hc hcl hto (by omega) r hr
      simp only [hr]
      rcases rB with ⟨hb, he⟩ | ⟨hb, he, hs⟩
      · have hbl : r.bytes.length > 0 := List.length_pos_iff.mpr hb
        have hemp : r.bytes.isEmpty = false := by
          cases hq : r.bytes with
          | nil => exact absurd hq hb
          | cons a l => rfl
        split
        · rename_i e he'; rw [he] at he'; cases he'
        · rw [if_neg (by simp [hemp])]
          exact ih r.st r.evs (acc ++ r.bytes) rI rl (cleanEvs_sub hc rsub) (by rw [rcl, hcl]) rto
            (by simp [List.length_append]; omega) (by simp [List.length_append]; omega)
      · have hacc' : acc ++ r.bytes = s := by rw [hb, hs]; simp
        have hst : s.take want = s := List.take_of_length_le (by rw [← hs]; omega)
        have hlt' : ¬ (acc ++ r.bytes).length ≥ want := by rw [hb]; simpa using hlt
        split
        · rw [if_neg hlt']
          split
          · exact ⟨_, rfl, by simp [hacc', hst], rI, rl, rto, by rw [rcl, hcl], cleanEvs_sub hc rsub⟩
          · exact ⟨_, rfl, by simp [hacc', hst], rI, rl, rto, by rw [rcl, hcl], cleanEvs_sub hc rsub⟩
        · rename_i he'; rw [he] at he'; cases he'

theorem serveLoop_clean {s : Bytes} (timeoutSet : Bool) (trees : List Tree) (i : Nat) (st : St)
    (evs : List Ev) (views : List Bytes) (h1 : st.buffer ++ st.rem = s) (h2 : st.direct = false)
    (hl : st.lastErr = none) (hcl : st.closed = false) (hto : st.timedOut = false) (hc : cleanEvs evs) :
    ∃ r, serveLoop timeoutSet trees i st evs views = .ok r ∧ r.route = routeOf trees s i ∧
      (r.route ≠ .closed → r.st.closed = false ∧ (timeoutSet = true → r.st.deadline = false) ∧
         r.st.sniffing = false ∧ r.st.bufferRead = 0 ∧ pending r.st ++ r.st.rem = s) ∧
      (r.route = .closed → r.st.closed = true) := by
  induction trees generalizing i st evs views with
  | nil => exact ⟨_, rfl, rfl, fun h => absurd rfl h, fun _ => rfl⟩
  | cons t ts ih =>
    obtain ⟨r, hr, rb, rI, rl, rto, rcl, rc⟩ :=
      readFull_clean (s := s) (t.maxDepth + 1) (reset st true) t.maxDepth evs [] (PassInv_reset h1 h2)
        hl hc hcl hto (Nat.zero_le _) (by simp)
    simp only [serveLoop, matcherPass, hr, routeOf, Tree.matchInput, rb]
    by_cases hm : t.matchBuf (List.take t.maxDepth s) true = true
    · simp only [hm, if_true]
      refine ⟨_, rfl, rfl, fun _ => ?_, fun h => by cases h⟩
      obtain ⟨i1, i2, _⟩ := rI
      cases timeoutSet <;> simp [setDeadline, reset, pending, rcl, i1, i2]
    · simp only [hm]
      exact ih (i + 1) r.st r.evs _ rI.1 rI.2.1 rl rcl rto rc

/-- with a script that only delivers data (any segmentation), every matcher sees
    `min maxDepth |s|` bytes of the stream and the connection goes to the first listener whose
    matcher accepts the stream, or is closed when none does; a handed-over connection is not
    closed, its read deadline is cleared, and nothing of the stream is lost:
    buffered ++ undelivered = s -/
theorem serve_clean (timeoutSet : Bool) (trees : List Tree) (s : Bytes) (evs : List Ev) (hc : cleanEvs evs) :
    ∃ r, serve timeoutSet trees s evs = .ok r ∧ r.route = routeOf trees s 0 ∧
      (r.route ≠ .closed → r.st.closed = false ∧ (timeoutSet = true → r.st.deadline = false) ∧
         r.st.sniffing = false ∧ r.st.bufferRead = 0 ∧ pending r.st ++ r.st.rem = s) ∧
      (r.route = .closed → r.st.closed = true) := by
  unfold serve
  apply serveLoop_clean <;> first | exact hc | (cases timeoutSet <;> simp [setDeadline])

/-! ### a silent connection -/

/-- nothing buffered, and the socket has timed out or is about to -/
def Silent (st : St) (evs : List Ev) : Prop :=
  st.buffer = [] ∧ (st.timedOut = true ∨ (st.deadline = true ∧ ∃ evs0, evs = .fail .timeout :: evs0))

theorem srcRead_silent {st : St} (k : Nat) {evs : List Ev} (hQ : Silent st evs) :
    (srcRead st k evs).bytes = [] ∧ Silent (srcRead st k evs).st (srcRead st k evs).evs := by
  obtain ⟨hb, hq⟩ := hQ
  unfold srcRead
  split
  · exact ⟨rfl, hb, hq⟩
  split
  · exact ⟨rfl, hb, hq⟩
  split
  · exact ⟨rfl, hb, hq⟩
  rename_i _ hnt _
  rcases hq with hto | ⟨hd, evs0, rfl⟩
  · exact absurd hto hnt
  · simp [hd, Silent, hb]

theorem sniffRead_silent {st : St} (k : Nat) {evs : List Ev} (hQ : Silent st evs)
    (hs : st.sniffing = true) (hz : st.bufferSize = 0) :
    ∃ r, sniffRead st k evs = .ok r ∧ r.bytes = [] ∧ Silent r.st r.evs ∧ r.st.sniffing = true ∧
      r.st.bufferSize = 0 := by
  unfold sniffRead
  rw [if_neg (by omega)]
  simp only [hs, Bool.not_true, Bool.false_and, Bool.false_eq_true, if_false]
  have hf := srcRead_frame st k evs
  obtain ⟨hb, hq⟩ := srcRead_silent k hQ
  generalize srcRead st k evs = r at hf hb hq ⊢
  simp only [hb, List.length_nil, Nat.lt_irrefl, decide_false, Bool.false_and, Bool.false_eq_true,
    if_false]
  exact ⟨r, rfl, hb, hq, by rw [hf.2.2.2.2.1, hs], by rw [hf.2.2.2.1, hz]⟩

theorem readFull_silent (fuel : Nat) (st : St) (want : Nat) (evs : List Ev) (hQ : Silent st evs)
    (hs : st.sniffing = true) (hz : st.bufferSize = 0) :
    ∃ r, readFullSniffer fuel st want evs [] = .ok r ∧ r.bytes = [] ∧ Silent r.st r.evs := by
  induction fuel generalizing st evs with
  | zero => exact ⟨_, rfl, rfl, hQ⟩
  | succ fuel ih =>
    unfold readFullSniffer
    split
    · exact ⟨_, rfl, rfl, hQ⟩
    · obtain ⟨r, hr, rb, rQ, rs, rz⟩ := sniffRead_silent (want - ([] : Bytes).length) hQ hs hz
      simp only [hr, rb, List.append_nil]
      split
      · split
        · exact ⟨_, rfl, rfl, rQ⟩
        · split
          · exact ⟨_, rfl, rfl, rQ⟩
          · exact ⟨_, rfl, rfl, rQ⟩
      · split
        · exact ⟨_, rfl, rfl, rQ⟩
        · exact ih r.st r.evs rQ rs rz

theorem serveLoop_silent (trees : List Tree) (i : Nat) (st : St) (evs : List Ev) (views : List Bytes)
    (hroot : ∀ t ∈ trees, t.matchBuf [] true = false) (hQ : Silent st evs) :
    ∃ r, serveLoop true trees i st evs views = .ok r ∧ r.route = .closed ∧ r.st.closed = true := by
  induction trees generalizing i st evs views with
  | nil => exact ⟨_, rfl, rfl, rfl⟩
  | cons t ts ih =>
    have hQ' : Silent (reset st true) evs := hQ
    obtain ⟨r, hr, rb, rQ⟩ := readFull_silent (t.maxDepth + 1) (reset st true) t.maxDepth evs hQ' rfl
      (by simp [reset, hQ.1])
    have hm : t.matchBuf [] true = false := hroot t (by simp)
    simp only [serveLoop, matcherPass, hr, rb, hm]
    exact ih (i + 1) r.st r.evs _ (fun t ht => hroot t (by simp [ht])) rQ

/-- a connection that stays silent until the sniff time-out fires is closed (the first socket
    event is the time-out, a read deadline is armed because timeoutSet = true) -/
theorem serve_silent_timeout_closed (trees : List Tree) (s : Bytes) (evs : List Ev)
    (hroot : ∀ t ∈ trees, t.matchBuf [] true = false) :
    ∃ r, serve true trees s (Ev.fail .timeout :: evs) = .ok r ∧ r.route = .closed ∧ r.st.closed = true := by
  unfold serve
  exact serveLoop_silent trees 0 _ _ [] hroot ⟨rfl, Or.inr ⟨rfl, evs, rfl⟩⟩

/-! ### a fragment, then silence until the sniff time-out fires -/

/-- the connection after a fragment `d` has arrived and the sniff time-out has fired: `d` is
    buffered, the rest undelivered, the socket reports the time-out from now on -/
structure Stalled (d : Bytes) (st : St) : Prop where
  buf : st.buffer = d
  timed : st.timedOut = true
  open_ : st.closed = false
  nodirect : st.direct = false
  noerr : st.lastErr = none

/-- one matcher pass on a stalled connection sees `d.take want` and leaves it stalled -/
theorem readFull_stalled {d : Bytes} (hd : d ≠ []) (st : St) (hS : Stalled d st) (want : Nat) (hw : want ≥ 1) (evs : List Ev) :
    ∃ r, readFullSniffer (want + 1) (reset st true) want evs [] = .ok r ∧ r.bytes = d.take want ∧
      Stalled d r.st ∧ r.evs = evs ∧ r.st.rem = st.rem ∧ r.st.deadline = st.deadline := by
  obtain ⟨hb, ht, hc, hnd, hne⟩ := hS
  have hlen : d.length ≥ 1 := List.length_pos_iff.mpr hd
  -- first read: from the buffer
  have h1 : sniffRead (reset st true) want evs =
      .ok ⟨d.take want, none, { reset st true with bufferRead := (d.take want).length }, evs⟩ := by
    unfold sniffRead
    have : (reset st true).bufferSize > (reset st true).bufferRead := by simp [reset, hb]; omega
    rw [if_pos this, if_neg (by simp [reset])]
    simp [reset, hb, hne]
  have hout : (d.take want) ≠ [] := by
    cases d with
    | nil => exact absurd rfl hd
    | cons a l =>
      cases want with
      | zero => omega
      | succ w => simp
  unfold readFullSniffer
  rw [if_neg (by simp; omega)]
  simp only [List.length_nil, Nat.sub_zero]
  rw [h1]
  simp only [List.nil_append]
  have hemp : (d.take want).isEmpty = false := by
    cases hq : d.take want with
    | nil => exact absurd hq hout
    | cons a l => rfl
  simp only [hemp, Bool.false_eq_true, if_false]
  -- second iteration
  by_cases hfull : (d.take want).length ≥ want
  · cases want with
    | zero => omega
    | succ w =>
      unfold readFullSniffer
      rw [if_pos hfull]
      refine ⟨_, rfl, rfl, ⟨by simp [reset, hb], by simp [reset, ht], by simp [reset, hc], by simp [reset, hnd], by simp [reset, hne]⟩, rfl, by simp [reset], by simp [reset]⟩
  · cases want with
    | zero => omega
    | succ w =>
      have hdl : d.length < w + 1 := by
        simp [List.length_take] at hfull; omega
      have htk : d.take (w + 1) = d := List.take_of_length_le (by omega)
      unfold readFullSniffer
      rw [if_neg hfull]
      have h2 : sniffRead { reset st true with bufferRead := (d.take (w + 1)).length } (w + 1 - (d.take (w + 1)).length) evs =
          .ok ⟨[], some .timeout, { reset st true with bufferRead := (d.take (w + 1)).length }, evs⟩ := by
        unfold sniffRead
        rw [if_neg (by simp [reset, hb, htk])]
        simp [reset, srcRead, hc, ht]
      simp only [h2, List.append_nil]
      rw [if_neg hfull]
      simp only [hout, List.length_pos_iff, ne_eq, not_false_eq_true, decide_true, Bool.true_and]
      refine ⟨_, by simp; rfl, ?_, ?_, rfl, by simp [reset], by simp [reset]⟩
      · simp [htk]
      · exact ⟨by simp [reset, hb], by simp [reset, ht], by simp [reset, hc], by simp [reset, hnd], by simp [reset, hne]⟩

/-- the matcher loop on a stalled connection: every matcher sees the fragment, the first one
    that accepts it gets the connection -/
theorem serveLoop_stalled {d : Bytes} (hd : d ≠ []) (trees : List Tree) (hdepth : ∀ t ∈ trees, t.maxDepth ≥ 1)
    (i : Nat) (st : St) (hS : Stalled d st) (evs : List Ev) (views : List Bytes) :
    ∃ r, serveLoop true trees i st evs views = .ok r ∧ r.route = routeOf trees d i := by
  induction trees generalizing i st views with
  | nil => exact ⟨_, rfl, rfl⟩
  | cons t ts ih =>
    obtain ⟨r, hr, rb, rS, re, _, _⟩ := readFull_stalled hd st hS t.maxDepth (hdepth t (by simp)) evs
    simp only [serveLoop, matcherPass, hr, routeOf, Tree.matchInput, rb]
    by_cases hm : t.matchBuf (List.take t.maxDepth d) true = true
    · simp only [hm, if_true]
      exact ⟨_, rfl, rfl⟩
    · simp only [hm]
      rw [re]
      exact ih (fun t ht => hdepth t (by simp [ht])) (i + 1) r.st rS _

/-- the first matcher pass when `n` bytes (fewer than the matcher wants) arrive and then the
    sniff time-out fires: it sees those `n` bytes and the connection is stalled -/
theorem readFull_first_fragment (s : Bytes) (n want : Nat) (hn : 1 ≤ n) (hns : n ≤ s.length) (hnw : n < want)
    (evs : List Ev) :
    ∃ r, readFullSniffer (want + 1) (reset (setDeadline { rem := s } true) true) want
        (.deliver n :: .fail .timeout :: evs) [] = .ok r ∧
      r.bytes = s.take n ∧ Stalled (s.take n) r.st ∧ r.evs = evs := by
  have hs : s ≠ [] := by
    intro h; subst h; simp at hns; omega
  have hemp : s.isEmpty = false := by
    cases s with
    | nil => exact absurd rfl hs
    | cons a l => rfl
  have hmin : min (max n 1) want = n := by omega
  have htake : (s.take n) ≠ [] := by
    cases s with
    | nil => exact absurd rfl hs
    | cons a l =>
      cases n with
      | zero => omega
      | succ m => simp
  have hlen : (s.take n).length = n := by simp [List.length_take]; omega
  cases want with
  | zero => omega
  | succ w =>
    cases w with
    | zero => omega
    | succ w =>
      -- first read: n bytes from the socket
      have h1 : sniffRead (reset (setDeadline { rem := s } true) true) (w + 2) (.deliver n :: .fail .timeout :: evs) =
          .ok ⟨s.take n, none, { (reset (setDeadline { rem := s } true) true) with
                  rem := s.drop n, lastErr := none, buffer := s.take n, capNonzero := true }, .fail .timeout :: evs⟩ := by
        unfold sniffRead
        rw [if_neg (by simp [reset, setDeadline])]
        simp [reset, setDeadline, srcRead, hemp, hmin, List.splitAt_eq, htake, hlen]
        omega
      have hbe : (s.take n).isEmpty = false := by
        cases hq : s.take n with
        | nil => exact absurd hq htake
        | cons a l => rfl
      unfold readFullSniffer
      rw [if_neg (by simp)]
      simp only [List.length_nil, Nat.sub_zero]
      rw [h1]
      simp only [List.nil_append, hbe, Bool.false_eq_true, if_false]
      -- second read: the time-out
      unfold readFullSniffer
      rw [if_neg (by rw [hlen]; omega)]
      have h2 : sniffRead { (reset (setDeadline { rem := s } true) true) with
                  rem := s.drop n, lastErr := none, buffer := s.take n, capNonzero := true }
            (w + 2 - (s.take n).length) (.fail .timeout :: evs) =
          .ok ⟨[], some .timeout, { (reset (setDeadline { rem := s } true) true) with
                  rem := s.drop n, lastErr := none, buffer := s.take n, capNonzero := true, timedOut := true }, evs⟩ := by
        unfold sniffRead
        rw [if_neg (by simp [reset, setDeadline])]
        have hk : w + 2 - min n s.length ≠ 0 := by omega
        simp [reset, setDeadline, srcRead, hk]
      rw [h2]
      simp only [List.append_nil]
      rw [if_neg (by rw [hlen]; omega)]
      refine ⟨_, by simp; rfl, rfl, ⟨rfl, rfl, rfl, rfl, rfl⟩, rfl⟩

/-- `Listener.serve` when a fragment of `n ≥ 1` bytes (fewer than the first matcher reads)
    arrives and the peer then pauses until the sniff time-out fires — whatever it sends later:
    the connection is routed by the fragment alone. -/
theorem serve_fragment_then_timeout (t : Tree) (ts : List Tree) (hdepth : ∀ u ∈ t :: ts, u.maxDepth ≥ 1)
    (s : Bytes) (n : Nat) (hn : 1 ≤ n) (hns : n ≤ s.length) (hnw : n < t.maxDepth) (evs : List Ev) :
    ∃ r, serve true (t :: ts) s (.deliver n :: .fail .timeout :: evs) = .ok r ∧
      r.route = routeOf (t :: ts) (s.take n) 0 := by
  obtain ⟨r1, h1, b1, S1, e1⟩ := readFull_first_fragment s n t.maxDepth hn hns hnw evs
  have hd : s.take n ≠ [] := by
    cases s with
    | nil => simp at hns; omega
    | cons a l =>
      cases n with
      | zero => omega
      | succ m => simp
  have htk : (s.take n).take t.maxDepth = s.take n := List.take_of_length_le (by simp [List.length_take]; omega)
  unfold serve
  simp only [if_true, serveLoop, matcherPass, h1, routeOf, Tree.matchInput, b1, htk]
  by_cases hm : t.matchBuf (s.take n) true = true
  · simp only [hm, if_true]
    exact ⟨_, rfl, rfl⟩
  · simp only [hm]
    rw [e1]
    exact serveLoop_stalled hd ts (fun u hu => hdepth u (by simp [hu])) 1 r1.st S1 evs _

/-! ### no stale error: on scripts whose socket never returns data together with an error, the
    sniffer never remembers an error, so the replay cannot hand an old one to the service -/

theorem sniffRead_lastErr {st : St} {k : Nat} {evs : List Ev} {r : ReadRes}
    (h : sniffRead st k evs = .ok r) (hl : st.lastErr = none) (hne : noDataErr evs) :
    r.st.lastErr = none ∧ (∀ e ∈ r.evs, e ∈ evs) := by
  by_cases hc : st.bufferSize > st.bufferRead
  · unfold sniffRead at h
    rw [if_pos hc] at h
    split at h
    · cases h
    · injection h with h; subst h; exact ⟨hl, fun e he => he⟩
  · by_cases hs : st.sniffing = true
    · unfold sniffRead at h
      rw [if_neg hc] at h
      simp only [hs, Bool.not_true, Bool.false_and, Bool.false_eq_true, if_false] at h
      have hf := srcRead_frame st k evs
      have hn := srcRead_noDataErr st k evs hne
      generalize srcRead st k evs = q at hf hn h
      obtain ⟨_, _, _, _, _, f6, _, _, _, _, _, f12⟩ := hf
      by_cases hb : q.bytes.length > 0
      · have hb' : q.bytes ≠ [] := by intro h; simp [h] at hb
        have he : q.err = none := by rcases hn with h | h; exact absurd h hb'; exact h
        simp only [hb, decide_true, Bool.and_self, if_true] at h
        injection h with h; subst h
        exact ⟨he, f12⟩
      · simp only [hb, decide_false, Bool.false_and, Bool.false_eq_true, if_false] at h
        injection h with h; subst h
        exact ⟨by rw [f6, hl], f12⟩
    · have hs' : st.sniffing = false := by simpa using hs
      rw [sniffRead_src hc hs'] at h
      injection h with h; subst h
      have hf := srcRead_frame (if st.capNonzero = true then { st with buffer := [], capNonzero := false, direct := true } else st) k evs
      refine ⟨?_, hf.2.2.2.2.2.2.2.2.2.2.2⟩
      rw [hf.2.2.2.2.2.1]; split <;> simp [hl]

theorem readFull_lastErr (fuel : Nat) (st : St) (want : Nat) (evs : List Ev) (acc : Bytes) (r : FullRes)
    (h : readFullSniffer fuel st want evs acc = .ok r) (hl : st.lastErr = none) (hne : noDataErr evs) :
    r.st.lastErr = none ∧ (∀ e ∈ r.evs, e ∈ evs) := by
  induction fuel generalizing st evs acc with
  | zero => simp only [readFullSniffer] at h; injection h with h; subst h; exact ⟨hl, fun e he => he⟩
  | succ fuel ih =>
    unfold readFullSniffer at h
    split at h
    · injection h with h; subst h; exact ⟨hl, fun e he => he⟩
    · split at h
      · cases h
      · rename_i q hq
        obtain ⟨ql, qsub⟩ := sniffRead_lastErr hq hl hne
        dsimp only at h
        split at h
        · split at h
          · injection h with h; subst h; exact ⟨ql, qsub⟩
          · split at h
            · injection h with h; subst h; exact ⟨ql, qsub⟩
            · injection h with h; subst h; exact ⟨ql, qsub⟩
        · split at h
          · injection h with h; subst h; exact ⟨ql, qsub⟩
          · obtain ⟨l', sub'⟩ := ih q.st q.evs _ h ql (noDataErr_sub hne qsub)
            exact ⟨l', fun e he => qsub e (sub' e he)⟩

theorem serveLoop_lastErr (timeoutSet : Bool) (trees : List Tree) (i : Nat) (st : St) (evs : List Ev)
    (views : List Bytes) (r : ServeRes) (h : serveLoop timeoutSet trees i st evs views = .ok r)
    (hl : st.lastErr = none) (hne : noDataErr evs) :
    r.st.lastErr = none ∧ (∀ e ∈ r.evs, e ∈ evs) ∧ (∀ j, r.route = .service j → r.st.sniffing = false) := by
  induction trees generalizing i st evs views with
  | nil =>
    simp only [serveLoop] at h; injection h with h; subst h
    exact ⟨hl, fun e he => he, fun j hj => by cases hj⟩
  | cons t ts ih =>
    simp only [serveLoop, matcherPass] at h
    split at h
    · cases h
    · rename_i m v st1 evs1 hm
      split at hm
      · cases hm
      · rename_i q hq
        injection hm with hm
        simp only [Prod.mk.injEq] at hm
        obtain ⟨_, _, rfl, rfl⟩ := hm
        obtain ⟨ql, qsub⟩ := readFull_lastErr _ _ _ _ _ q hq (by simpa [reset] using hl) hne
        split at h
        · injection h with h; subst h
          refine ⟨?_, qsub, fun j _ => ?_⟩
          · cases timeoutSet <;> simp [reset, setDeadline, ql]
          · cases timeoutSet <;> simp [reset, setDeadline]
        · obtain ⟨l', sub', sn'⟩ := ih _ _ _ _ h ql (noDataErr_sub hne qsub)
          exact ⟨l', fun e he => qsub e (sub' e he), sn'⟩

/-- after `serve`, on a script without data-together-with-an-error, no error is remembered
    (and a connection that is handed over is no longer in sniffing mode) -/
theorem serve_lastErr (timeoutSet : Bool) (trees : List Tree) (s : Bytes) (evs : List Ev) (hne : noDataErr evs)
    (r : ServeRes) (h : serve timeoutSet trees s evs = .ok r) :
    r.st.lastErr = none ∧ noDataErr r.evs ∧ (∀ j, r.route = .service j → r.st.sniffing = false) := by
  unfold serve at h
  obtain ⟨hl, hsub, hsn⟩ := serveLoop_lastErr _ _ _ _ _ _ r h (by cases timeoutSet <;> simp [setDeadline]) hne
  exact ⟨hl, noDataErr_sub hne hsub, hsn⟩

/-- one read of the service on a connection that remembers no error: either it returns no
    error and (if it was served from the replay buffer) leaves the script untouched, or its
    whole result is what the socket itself produces now for the next event of the script — on
    a socket in the same socket state (undelivered bytes, deadline, expiry, closed). -/
theorem connRead_err_is_the_sockets {st : St} {k : Nat} {evs : List Ev} {r : ReadRes}
    (h : connRead st k evs = .ok r) (hl : st.lastErr = none) (hs : st.sniffing = false) :
    r.st.lastErr = none ∧ r.st.sniffing = false ∧
    ((r.err = none ∧ r.evs = evs ∧ r.st.rem = st.rem) ∨
     ∃ st', r = srcRead st' k evs ∧ st'.rem = st.rem ∧ st'.deadline = st.deadline ∧
       st'.timedOut = st.timedOut ∧ st'.closed = st.closed) := by
  unfold connRead at h
  split at h
  · injection h with h; subst h
    have hf := srcRead_frame st k evs
    exact ⟨by rw [hf.2.2.2.2.2.1, hl], by rw [hf.2.2.2.2.1, hs], Or.inr ⟨st, rfl, rfl, rfl, rfl, rfl⟩⟩
  · by_cases hc : st.bufferSize > st.bufferRead
    · unfold sniffRead at h
      rw [if_pos hc] at h
      split at h
      · cases h
      · injection h with h; subst h
        exact ⟨hl, hs, Or.inl ⟨hl, rfl, rfl⟩⟩
    · rw [sniffRead_src hc hs] at h
      injection h with h; subst h
      have hf := srcRead_frame (if st.capNonzero = true then { st with buffer := [], capNonzero := false, direct := true } else st) k evs
      refine ⟨?_, ?_, Or.inr ⟨_, rfl, ?_, ?_, ?_, ?_⟩⟩
      · rw [hf.2.2.2.2.2.1]; split <;> simp [hl]
      · rw [hf.2.2.2.2.1]; split <;> simp [hs]
      all_goals (split <;> rfl)

end IpcHub.Sniffer
