/-
Lemmas about `parseTransport` (Model/RtspTransport.lean): which session mode a successfully
parsed Transport header yields, in terms of the specification's reading of the header
(`specSetupAsk`, Spec/RtspAutomaton.lean).
-/
import IpcHub.Model.RtspTransport
import IpcHub.Spec.RtspAutomaton
namespace IpcHub.Rtsp
open IpcHub.RtspSpec

/-- the value of a `mode` parameter, as the parameter loop reads a token -/
def modeVal (tok : Str) : Option Str :=
  if (equalPair tok).1 == "mode".toList then some (equalPair tok).2 else none

def modeOfVal (v : Str) : Mode := if v == "record".toList then .record else .play

/-- the mode after a list of `mode` values: the last one wins -/
def modeAfter : List Str → Mode → Mode
  | [], m => m
  | v :: vs, _ => modeAfter vs (modeOfVal v)

theorem paramStep_mode (rt : Track) (t : Transport) (e : Bool) (tok : Str) :
    (paramStep rt (t, e) tok).1.mode =
      match modeVal tok with
      | some v => modeOfVal v
      | none => t.mode := by
  show (paramStep2 rt t e tok).1.mode = _
  unfold paramStep2
  by_cases h1 : (tok == "unicast".toList && t.type == .multicast) = true
  · rw [if_pos h1]
    have : tok = "unicast".toList := by
      simp only [Bool.and_eq_true, beq_iff_eq] at h1; exact h1.1
    subst this; rfl
  · rw [if_neg h1]
    by_cases h2 : (tok == "multicast".toList && t.type == .tcp) = true
    · rw [if_pos h2]
      have : tok = "multicast".toList := by
        simp only [Bool.and_eq_true, beq_iff_eq] at h2; exact h2.1
      subst this; rfl
    · rw [if_neg h2]
      by_cases h3 : (tok == "append".toList) = true
      · rw [if_pos h3]
        have : tok = "append".toList := by simpa using h3
        subst this; rfl
      · rw [if_neg h3]
        by_cases hk : ((equalPair tok).1 == "mode".toList) = true
        · simp only [hk, ↓reduceIte, modeVal, modeOfVal]
        · have hn : modeVal tok = none := by
            unfold modeVal; rw [if_neg hk]
          rw [hn]
          simp only [hk, Bool.false_eq_true, ↓reduceIte, apply_ite Prod.fst, apply_ite Transport.mode, ite_self]

theorem foldl_paramStep_mode (rt : Track) (toks : List Str) (t : Transport) (e : Bool) :
    (toks.foldl (paramStep rt) (t, e)).1.mode = modeAfter (toks.filterMap modeVal) t.mode := by
  induction toks generalizing t e with
  | nil => rfl
  | cons tok r ih =>
    simp only [List.foldl_cons]
    have hp := paramStep_mode rt t e tok
    generalize paramStep rt (t, e) tok = res at hp
    obtain ⟨t', e'⟩ := res
    rw [ih]
    simp only at hp
    cases hm : modeVal tok with
    | none => simp [List.filterMap_cons, hm] at hp ⊢; rw [hp]
    | some v => simp [List.filterMap_cons, hm, modeAfter] at hp ⊢; rw [hp]

theorem cut_splitOn (d : Char) (s a b : Str) (h : cut d s = some (a, b)) : splitOn d s = a :: splitOn d b := by
  induction s generalizing a b with
  | nil => simp [cut] at h
  | cons c cs ih =>
    simp only [cut] at h
    by_cases hc : (c == d) = true
    · simp only [hc, ↓reduceIte, Option.some.injEq, Prod.mk.injEq] at h
      simp only [splitOn, hc, ↓reduceIte]
      rw [← h.1, ← h.2]
    · simp only [hc, Bool.false_eq_true, ↓reduceIte] at h
      cases hcs : cut d cs with
      | none => simp [hcs] at h
      | some p =>
        obtain ⟨a', b'⟩ := p
        simp only [hcs, Option.some.injEq, Prod.mk.injEq] at h
        simp only [splitOn, hc, Bool.false_eq_true, ↓reduceIte]
        rw [ih a' b' hcs, ← h.1, ← h.2]

/-- the specification's reading of one ';'-piece is the loop's reading of the trimmed token -/
theorem specVal_eq (tok : Str) :
    (match cut '=' (trimSpace tok) with
      | some (k, v) => if trimFunc isSpaceOrQuote k == "mode".toList then some (trimFunc isSpaceOrQuote v) else none
      | none => if trimSpace tok == "mode".toList then some [] else none) = modeVal (trimSpace tok) := by
  unfold modeVal equalPair
  cases cut '=' (trimSpace tok) with
  | none => rfl
  | some p => rfl

theorem modeParams_eq (ts : Str) : modeParams ts = ((splitOn ';' ts).map trimSpace).filterMap modeVal := by
  unfold modeParams
  rw [List.filterMap_map]
  congr 1
  funext tok
  exact specVal_eq tok

theorem modeAfter_all_record (vs : List Str) (m : Mode) (hne : vs ≠ []) (h : vs.all (· == "record".toList) = true) :
    modeAfter vs m = .record := by
  induction vs generalizing m with
  | nil => exact absurd rfl hne
  | cons v r ih =>
    simp only [List.all_cons, Bool.and_eq_true] at h
    cases r with
    | nil =>
      have hv : v = "record".toList := by simpa using h.1
      simp [modeAfter, modeOfVal, hv]
    | cons w r' =>
      show modeAfter (w :: r') (modeOfVal v) = _
      exact ih _ (by simp) h.2

theorem modeAfter_none_record (vs : List Str) (m : Mode) (hne : vs ≠ []) (h : vs.all (· != "record".toList) = true) :
    modeAfter vs m = .play := by
  induction vs generalizing m with
  | nil => exact absurd rfl hne
  | cons v r ih =>
    simp only [List.all_cons, Bool.and_eq_true] at h
    cases r with
    | nil =>
      have hv : ¬ v = "record".toList := by simpa using h.1
      simp only [modeAfter, modeOfVal]
      rw [if_neg]
      simpa using hv
    | cons w r' =>
      show modeAfter (w :: r') (modeOfVal v) = _
      exact ih _ (by simp) h.2

def askOf (vs : List Str) : SetupAsk :=
  if vs.isEmpty then .unspecified
  else if vs.all (· == "record".toList) then .record
  else if vs.all (· != "record".toList) then .play
  else .unspecified

theorem specSetupAsk_eq (ts : Str) : specSetupAsk ts = askOf (modeParams ts) := rfl

theorem askOf_record {vs : List Str} (h : askOf vs = .record) : vs ≠ [] ∧ vs.all (· == "record".toList) = true := by
  unfold askOf at h
  split at h
  · cases h
  · rename_i he
    split at h
    · rename_i ha
      exact ⟨by intro hn; simp [hn] at he, ha⟩
    · split at h <;> cases h

theorem askOf_play {vs : List Str} (h : askOf vs = .play) : vs ≠ [] ∧ vs.all (· != "record".toList) = true := by
  unfold askOf at h
  split at h
  · cases h
  · rename_i he
    split at h
    · cases h
    · split at h
      · rename_i hb
        exact ⟨by intro hn; simp [hn] at he, hb⟩
      · cases h

/-- the transport specifier is not a `mode` parameter -/
theorem modeVal_spec (spec : Str)
    (h : spec = "RTP/AVP/TCP".toList ∨ spec = "RTP/AVP".toList ∨ spec = "RTP/AVP/UDP".toList) : modeVal spec = none := by
  rcases h with h | h | h <;> subst h <;> rfl

/-- A successfully parsed header yields the mode its `mode` parameters ask for: if every `mode`
    parameter says `record` the transport is in record mode, if none does (and there is one) it is in
    play mode. -/
theorem parseTransport_mode_ask (t : Transport) (rt : Track) (ts : Str) (hok : (parseTransport t rt ts).2 = false) :
    (specSetupAsk ts = .record → (parseTransport t rt ts).1.mode = .record) ∧
    (specSetupAsk ts = .play → (parseTransport t rt ts).1.mode = .play) := by
  unfold parseTransport at hok ⊢
  generalize (if t.mode == .unknown then { t with mode := Mode.play } else t) = t0 at hok ⊢
  cases hc : cut ';' ts with
  | none => simp [hc] at hok
  | some p =>
    obtain ⟨spec, rest⟩ := p
    simp only [hc] at hok ⊢
    have hsplit := cut_splitOn ';' ts spec rest hc
    -- the mode parameters of the whole header are those of the part after the specifier
    have hparams : ∀ (_ : trimSpace spec = "RTP/AVP/TCP".toList ∨ trimSpace spec = "RTP/AVP".toList ∨
        trimSpace spec = "RTP/AVP/UDP".toList), modeParams ts = (semicolonTokens rest).filterMap modeVal := by
      intro hs
      rw [modeParams_eq, hsplit]
      simp [List.filterMap_cons, modeVal_spec _ hs, semicolonTokens]
    have key : ∀ (t1 : Transport) (_ : trimSpace spec = "RTP/AVP/TCP".toList ∨ trimSpace spec = "RTP/AVP".toList ∨
        trimSpace spec = "RTP/AVP/UDP".toList),
        (specSetupAsk ts = .record → ((semicolonTokens rest).foldl (paramStep rt) (t1, false)).1.mode = .record) ∧
        (specSetupAsk ts = .play → ((semicolonTokens rest).foldl (paramStep rt) (t1, false)).1.mode = .play) := by
      intro t1 hs
      rw [foldl_paramStep_mode, specSetupAsk_eq, hparams hs]
      generalize (semicolonTokens rest).filterMap modeVal = vs
      constructor
      · intro h
        obtain ⟨hne, ha⟩ := askOf_record h
        exact modeAfter_all_record vs _ hne ha
      · intro h
        obtain ⟨hne, hb⟩ := askOf_play h
        exact modeAfter_none_record vs _ hne hb
    by_cases h1 : (trimSpace spec == "RTP/AVP/TCP".toList) = true
    · rw [if_pos h1]
      exact key _ (Or.inl (by simpa using h1))
    · rw [if_neg h1] at hok ⊢
      by_cases h2 : (trimSpace spec == "RTP/AVP".toList || trimSpace spec == "RTP/AVP/UDP".toList) = true
      · rw [if_pos h2]
        refine key _ (Or.inr ?_)
        simp only [Bool.or_eq_true, beq_iff_eq] at h2
        exact h2
      · rw [if_neg h2] at hok
        simp at hok

end IpcHub.Rtsp

namespace IpcHub.Rtsp

theorem paramStep_type (rt : Track) (acc : Transport × Bool) (tok : Str) (h : acc.1.type ≠ .unknown) :
    (paramStep rt acc tok).1.type ≠ .unknown := by
  show (paramStep2 rt acc.1 acc.2 tok).1.type ≠ _
  unfold paramStep2
  by_cases h1 : (tok == "unicast".toList && acc.1.type == .multicast) = true
  · rw [if_pos h1]; simp
  · rw [if_neg h1]
    by_cases h2 : (tok == "multicast".toList && acc.1.type == .tcp) = true
    · rw [if_pos h2]; exact h
    · rw [if_neg h2]
      by_cases h3 : (tok == "append".toList) = true
      · rw [if_pos h3]; exact h
      · rw [if_neg h3]
        simp only [apply_ite Prod.fst, apply_ite Transport.type, ite_self]
        exact h

theorem foldl_paramStep_type (rt : Track) (toks : List Str) (acc : Transport × Bool) (h : acc.1.type ≠ .unknown) :
    (toks.foldl (paramStep rt) acc).1.type ≠ .unknown := by
  induction toks generalizing acc with
  | nil => exact h
  | cons tok r ih => exact ih _ (paramStep_type rt acc tok h)

/-- a successful parse always fixes a transport type; a failed one never forgets it -/
theorem parseTransport_type (t : Transport) (rt : Track) (ts : Str) :
    ((parseTransport t rt ts).2 = false → (parseTransport t rt ts).1.type ≠ .unknown) ∧
    (t.type ≠ .unknown → (parseTransport t rt ts).1.type ≠ .unknown) := by
  unfold parseTransport
  have hgen : ∀ t0 : Transport, t0.type = t.type →
      ((match cut ';' ts with
        | none => (t0, true)
        | some (spec, rest) =>
          if (trimSpace spec == "RTP/AVP/TCP".toList) = true then
            List.foldl (paramStep rt) ({ t0 with type := TType.tcp }, false) (semicolonTokens rest)
          else if (trimSpace spec == "RTP/AVP".toList || trimSpace spec == "RTP/AVP/UDP".toList) = true then
            List.foldl (paramStep rt) ({ t0 with type := TType.multicast }, false) (semicolonTokens rest)
          else (t0, true)).2 = false →
        (match cut ';' ts with
        | none => (t0, true)
        | some (spec, rest) =>
          if (trimSpace spec == "RTP/AVP/TCP".toList) = true then
            List.foldl (paramStep rt) ({ t0 with type := TType.tcp }, false) (semicolonTokens rest)
          else if (trimSpace spec == "RTP/AVP".toList || trimSpace spec == "RTP/AVP/UDP".toList) = true then
            List.foldl (paramStep rt) ({ t0 with type := TType.multicast }, false) (semicolonTokens rest)
          else (t0, true)).1.type ≠ .unknown) ∧
      (t.type ≠ .unknown →
        (match cut ';' ts with
        | none => (t0, true)
        | some (spec, rest) =>
          if (trimSpace spec == "RTP/AVP/TCP".toList) = true then
            List.foldl (paramStep rt) ({ t0 with type := TType.tcp }, false) (semicolonTokens rest)
          else if (trimSpace spec == "RTP/AVP".toList || trimSpace spec == "RTP/AVP/UDP".toList) = true then
            List.foldl (paramStep rt) ({ t0 with type := TType.multicast }, false) (semicolonTokens rest)
          else (t0, true)).1.type ≠ .unknown) := by
    intro t0 ht0
    cases hc : cut ';' ts with
    | none => simp [ht0]
    | some p =>
      obtain ⟨spec, rest⟩ := p
      simp only
      by_cases h1 : (trimSpace spec == "RTP/AVP/TCP".toList) = true
      · rw [if_pos h1]
        exact ⟨fun _ => foldl_paramStep_type rt _ _ (by simp), fun _ => foldl_paramStep_type rt _ _ (by simp)⟩
      · rw [if_neg h1]
        by_cases h2 : (trimSpace spec == "RTP/AVP".toList || trimSpace spec == "RTP/AVP/UDP".toList) = true
        · rw [if_pos h2]
          exact ⟨fun _ => foldl_paramStep_type rt _ _ (by simp), fun _ => foldl_paramStep_type rt _ _ (by simp)⟩
        · rw [if_neg h2]
          simp [ht0]
  apply hgen
  split <;> rfl

end IpcHub.Rtsp
