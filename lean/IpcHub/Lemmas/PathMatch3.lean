/-
C16 helper lemmas, part 3: the model's string helpers are the core-library notions the independent
specification (Spec/PatternDoc.lean) is written with, and `PatternLang.specPermits` — the
formulation proved equal to the implementation model in part 2 — equals `PatternDoc.permits`.
-/
import IpcHub.Lemmas.PathMatch2
import IpcHub.Spec.PatternDoc
namespace IpcHub.PathMatch
open IpcHub.PatternLang

/-! ### trimming = dropWhile from both ends -/

theorem trimLeft_eq_dropWhile (p : Char → Bool) (s : List Char) : trimLeft p s = s.dropWhile p := by
  induction s with
  | nil => rfl
  | cons c cs ih =>
    by_cases h : p c
    · simp [trimLeft, List.dropWhile, h, ih]
    · simp [trimLeft, List.dropWhile, h]

theorem trimRight_eq_dropWhile (p : Char → Bool) (s : List Char) :
    trimRight p s = (s.reverse.dropWhile p).reverse := by
  induction s with
  | nil => rfl
  | cons c cs ih =>
    rw [List.reverse_cons, List.dropWhile_append]
    cases hr : trimRight p cs with
    | nil =>
      have hd : cs.reverse.dropWhile p = [] := by
        have := congrArg List.reverse ih
        rw [hr] at this
        simpa using this.symm
      by_cases h : p c <;> simp [trimRight, hr, hd, List.dropWhile, h]
    | cons r rs =>
      have hd : cs.reverse.dropWhile p = (r :: rs).reverse := by
        have := congrArg List.reverse ih
        rw [hr] at this
        simpa using this.symm
      have hne : (cs.reverse.dropWhile p).isEmpty = false := by rw [hd]; simp
      simp only [trimRight, hr, hne]
      simp [hd]

theorem trim_eq_strip (p : Char → Bool) (s : List Char) : trim p s = PatternDoc.strip p s := by
  unfold trim PatternDoc.strip
  rw [trimRight_eq_dropWhile, trimLeft_eq_dropWhile]

theorem isSlash_eq : isSlash = (· == '/') := by
  funext c; simp [isSlash, Bool.beq_eq_decide_eq]

/-! ### splitting = core `List.splitOn` -/

theorem splitOn_eq_core (d : Char) (s : List Char) : splitOn d s = s.splitOn d := by
  induction s with
  | nil => simp [splitOn]
  | cons c cs ih =>
    rw [List.splitOn_cons_eq_if_modifyHead, ← ih]
    simp only [splitOn]
    by_cases h : c = d
    · simp [h]
    · have h' : (c == d) = false := by simpa using h
      simp only [h, if_false, h']
      cases hs : splitOn d cs with
      | nil => exact absurd hs (splitOn_ne_nil d cs)
      | cons x xs => simp

theorem segs_eq_segments (lower : Char → Char) (s : List Char) :
    segs lower s = PatternDoc.segments lower s := by
  unfold segs PatternDoc.segments
  rw [splitOn_eq_core, trim_eq_strip, isSlash_eq]

/-! ### matching segment lists -/

theorem zipMatch_eq_fixed (ps xs : List (List Char)) (h : ps.length ≤ xs.length) :
    zipMatch ps xs = PatternDoc.fixedMatch ps (xs.take ps.length) := by
  induction ps generalizing xs with
  | nil => simp [zipMatch, PatternDoc.fixedMatch]
  | cons p ps ih =>
    cases xs with
    | nil => simp at h
    | cons x xs =>
      have h' : ps.length ≤ xs.length := by simpa using h
      have := ih xs h'
      simp only [zipMatch, this, PatternDoc.fixedMatch, List.length_cons, List.take_succ_cons,
        List.zipWith_cons_cons, List.all_cons, PatternDoc.segOk, id]
      simp [List.length_take, Nat.min_eq_left h', Bool.beq_eq_decide_eq]

theorem segMatch_eq_segsMatch (ps xs : List (List Char)) :
    segMatch ps xs = PatternDoc.segsMatch ps xs := by
  unfold PatternDoc.segsMatch
  by_cases hw : ps.getLast? = some ['*']
  · simp only [hw, if_true]
    have hdec := dropLast_append_of_getLast? hw
    conv => lhs; rw [← hdec, segMatch_wild]
    by_cases hl : ps.dropLast.length ≤ xs.length
    · rw [zipMatch_eq_fixed _ _ hl]
    · rw [decide_eq_false hl]; simp
  · simp only [hw, if_false]
    rw [segMatch_exact _ _ hw]
    by_cases hl : ps.length = xs.length
    · have := zipMatch_eq_fixed ps xs (by omega)
      rw [this, hl, List.take_length]
      simp [PatternDoc.fixedMatch, hl]
    · have : (ps.length == xs.length) = false := by simpa using hl
      simp [hl, PatternDoc.fixedMatch, this]

theorem patMatch_eq_doc (lower : Char → Char) (pat path : List Char) :
    patMatch lower pat path = PatternDoc.patMatch lower pat path := by
  unfold patMatch PatternDoc.patMatch
  rw [segMatch_eq_segsMatch, segs_eq_segments, segs_eq_segments]
  by_cases h : pat = ['*'] <;> simp [h]

theorem patterns_eq_doc (sp : Char → Bool) (right : List Char) :
    patterns sp right = PatternDoc.patterns sp right := by
  unfold patterns PatternDoc.patterns
  rw [splitOn_eq_core]
  have : (fun s => trim sp s) = PatternDoc.strip sp := by funext s; exact trim_eq_strip sp s
  rw [show List.map (trim sp) = List.map (PatternDoc.strip sp) from by rw [← this]]
  congr 1
  funext p; cases p <;> simp

/-- the two formulations of the documented language agree -/
theorem specPermits_eq_doc (lower : Char → Char) (sp : Char → Bool)
    (right : List Char) (admin : Bool) (path : List Char) :
    specPermits lower sp right admin path = PatternDoc.permits lower sp right admin path := by
  unfold specPermits PatternDoc.permits
  have he : (right == []) = right.isEmpty := by cases right <;> simp
  simp only [he, patterns_eq_doc, trim_eq_strip]
  congr 1
  funext pat
  exact patMatch_eq_doc lower pat _

/-- the implementation model decides the documented language (any character functions) -/
theorem implPermits_eq_doc (cfg : Cfg) (h : cfg.pathTrims = false) (hd : cfg.isSpace ';' = false)
    (right : List Char) (admin : Bool) (path : List Char) :
    implPermits cfg right admin path = PatternDoc.permits cfg.lower cfg.isSpace right admin path := by
  rw [← specPermits_eq_doc]
  unfold implPermits specPermits effectiveRight
  rw [initMatchers_eq cfg hd, List.any_map]
  apply any_congr_mem
  intro pat hp
  exact matches_eq cfg h pat _ (patterns_trimmed _ _ _ hp)

/-! ### the user level -/

theorem any_isEmpty_guard {α} (l : List α) (f : α → Bool) :
    (if l.isEmpty then false else l.any f) = l.any f := by
  cases l <;> simp

theorem implValidate_pull (cfg : Cfg) (u : User) (path : List Char) :
    implValidate cfg u path .pull = implPermits cfg u.pull u.admin path := by
  simp only [implValidate, validatePermission, userInit, implPermits]
  exact any_isEmpty_guard _ _

theorem implValidate_push (cfg : Cfg) (u : User) (path : List Char) :
    implValidate cfg u path .push = implPermits cfg u.push u.admin path := by
  simp only [implValidate, validatePermission, userInit, implPermits]
  exact any_isEmpty_guard _ _

theorem implValidate_other (cfg : Cfg) (u : User) (path : List Char) :
    implValidate cfg u path .other = false := by
  simp [implValidate, validatePermission]

end IpcHub.PathMatch
