/-
C20 — lemmas about the end of a pull whose stream may have been replaced in the registry
(Model/PullDual.lean `unregistF`) and about the two-pull scenarios judged by Spec/PullDual.lean.
-/
import IpcHub.Model.PullDual
import IpcHub.Spec.PullDual
import IpcHub.Lemmas.Registry
namespace IpcHub.PullDual
open IpcHub.Registry IpcHub.PullDualSpec

/-- with the source fact, the clean-up's Unregist is the registry model's Unregist -/
theorem unregistF_true (st : State) (i : Nat) : unregistF true st i = unregist st i := by
  unfold unregistF unregist
  cases hs : st.streams[i]? with
  | none => rfl
  | some s =>
    simp only
    split <;> simp

theorem ccOf_closeStream_self (st : State) (i : Nat) (b : Bool) (s : Stream)
    (h : st.streams[i]? = some s) (hok : s.status = .ok) : ccOf (closeStream st i b) i = 0 := by
  simp only [ccOf, streams_closeStream, if_true, h, Option.map_some]
  simp [Stream.close, hok, Stream.consumerCount]

/-- **The end of a pull closes its stream whatever the registry holds.**  For every registry state and
    every live stream i — registered under its path, replaced there by another stream, or not
    registered at all — Unregist(i) leaves i not OK, with no consumer (both tables emptied: the
    consumers are closed), not registered; every other stream is untouched, and every other stream's
    registration is kept. -/
theorem unregistF_closes (st : State) (i : Nat) (s : Stream)
    (h : st.streams[i]? = some s) (hok : s.status = .ok) :
    isOk (unregistF true st i) i = false ∧ ccOf (unregistF true st i) i = 0 ∧
    load (unregistF true st i).reg s.path ≠ some i ∧
    (∀ j, j ≠ i → (unregistF true st i).streams[j]? = st.streams[j]?) ∧
    (∀ p j, j ≠ i → load st.reg p = some j → load (unregistF true st i).reg p = some j) := by
  refine ⟨?_, ?_, ?_, ?_, ?_⟩
  · rw [unregistF_true]; exact isOk_unregist_self st i
  · unfold unregistF
    simp only [h]
    split
    · exact ccOf_closeStream_self _ i false s h hok
    · exact ccOf_closeStream_self _ i false s h hok
  · unfold unregistF
    simp only [h]
    split
    · simp [load_delete]
    · rename_i hne; simpa using hne
  · intro j hj
    unfold unregistF
    simp only [h]
    have hij : ¬ i = j := fun e => hj e.symm
    split <;> simp [streams_closeStream, hij]
  · intro p j hj hl
    unfold unregistF
    simp only [h]
    split
    · rename_i he
      simp only [reg_closeStream, load_delete]
      by_cases hp : p = s.path
      · subst hp; rw [he] at hl; exact absurd (Option.some.inj hl).symm hj
      · simp [hp, hl]
    · simpa using hl

/-- the seeded shape (early return when the stream is not the registered one): a replaced stream that
    still has a consumer stays live, with its consumer, when its pull ends -/
theorem unregistF_guarded_leaves_replaced_stream_open :
    let sc : Scn := { lc := true, wc := true, keep := true, loserFirst := true, how1 := .camera, how2 := .camera }
    let s := stages false goodFacts sc
    s.2.1.l.ok = true ∧ s.2.1.l.cc = 1 ∧ s.2.1.l.cl = false ∧ s.2.1.l.up = false ∧
    verdict sc s.1 s.2.1 s.2.2 false = .consumerNotClosed := by decide

end IpcHub.PullDual
