/-
Lemmas for C09, elementary-stream level: the header put in front of a NAL unit makes the PES
payload the Annex-B stream the specification expects; the ADTS header parses back.
-/
import IpcHub.Lemmas.Ts
import IpcHub.Spec.TsOracle
namespace IpcHub.TsLemmas
open IpcHub.Ts IpcHub.TsSpec

theorem stripPrefix_append (a r : List UInt8) : stripPrefix a (a ++ r) = some r := by
  induction a with
  | nil => simp [stripPrefix]
  | cons x xs ih => simp [stripPrefix, ih]

/-- what the model of prepareAvcHeader puts into the PES of a NAL unit, as a list of NAL units
    (delimiter for types 1, 5, 6; SPS/PPS for type 5; the unit itself) -/
def modelNals (p : Params) (nal : List UInt8) : List (List UInt8) :=
  let t := nalType nal
  (if t = 1 ∨ t = 5 ∨ t = 6 then [audNal] else [])
  ++ (if t = 5 then (if p.sps.isEmpty then [] else [p.sps]) ++ (if p.pps.isEmpty then [] else [p.pps]) else [])
  ++ [nal]

/-- … which is one of the forms the specification allows for that NAL unit -/
theorem modelNals_mem_alts (p : Params) (nal : List UInt8) : modelNals p nal ∈ expectedNalsAlts p nal := by
  unfold modelNals expectedNalsAlts
  by_cases h5 : nalType nal = 5
  · simp [h5]
  · by_cases h1 : nalType nal = 1
    · simp [h1]
    · by_cases h6 : nalType nal = 6
      · simp [h6]
      · simp [h5, h1, h6]

/-- the constants of prepareAvcHeader after the fix (no early return for types 7‥9) -/
def AvcCfgOk (c : Cfg) : Prop :=
  c.audNal = [0, 0, 0, 1, 9, 0xf0] ∧ c.audTypes = [1, 5, 6] ∧ c.psTypes = [5] ∧ c.skipHi < c.skipLo

theorem match_long (nal rest : List UInt8) (nals : List (List UInt8)) :
    matchAnnexB (nal :: nals) (0 :: 0 :: 0 :: 1 :: (nal ++ rest)) = matchAnnexB nals rest := by
  simp [matchAnnexB, stripPrefix_append]

theorem match_short (nal rest : List UInt8) (nals : List (List UInt8)) :
    matchAnnexB (nal :: nals) (0 :: 0 :: 1 :: (nal ++ rest)) = matchAnnexB nals rest := by
  simp [matchAnnexB, stripPrefix_append]

theorem avcHeader_annexb (c : Cfg) (hc : AvcCfgOk c) (p : Params) (nal hdr : List UInt8)
    (h : avcHeader c p.sps p.pps nal = some hdr) :
    matchAnnexB (modelNals p nal) (hdr ++ nal) = true := by
  obtain ⟨haud, hat, hps, hskip⟩ := hc
  cases nal with
  | nil => simp [avcHeader] at h
  | cons b0 tl =>
    have hnoskip : ¬ (c.skipLo ≤ b0.toNat % 32 ∧ b0.toNat % 32 ≤ c.skipHi) := by omega
    simp only [avcHeader, haud, hat, hps, hnoskip, if_false] at h
    have hnil : matchAnnexB [] [] = true := by simp [matchAnnexB]
    have hmN := (match_short (b0 :: tl) [] []).trans hnil
    have hmL := (match_long (b0 :: tl) [] []).trans hnil
    simp only [List.append_nil] at hmN hmL
    by_cases h5 : b0.toNat % 32 = 5
    · -- IDR slice: AUD, SPS, PPS, slice
      cases hs : p.sps with
      | nil =>
        cases hp : p.pps with
        | nil =>
          simp [h5, hs, hp] at h; subst h
          simp only [modelNals, nalType, h5, hs, hp, audNal]
          simpa using (match_long [9, 0xf0] (0 :: 0 :: 1 :: (b0 :: tl)) [b0 :: tl]).trans hmN
        | cons q qs =>
          simp [h5, hs, hp] at h; subst h
          simp only [modelNals, nalType, h5, hs, hp, audNal]
          have e2 := match_long (q :: qs) (0 :: 0 :: 1 :: (b0 :: tl)) [b0 :: tl]
          have e1 := match_long [9, 0xf0] (0 :: 0 :: 0 :: 1 :: ((q :: qs) ++ 0 :: 0 :: 1 :: (b0 :: tl))) [q :: qs, b0 :: tl]
          simpa using e1.trans (e2.trans hmN)
      | cons s ss =>
        cases hp : p.pps with
        | nil =>
          simp [h5, hs, hp] at h; subst h
          simp only [modelNals, nalType, h5, hs, hp, audNal]
          have e2 := match_long (s :: ss) (0 :: 0 :: 1 :: (b0 :: tl)) [b0 :: tl]
          have e1 := match_long [9, 0xf0] (0 :: 0 :: 0 :: 1 :: ((s :: ss) ++ 0 :: 0 :: 1 :: (b0 :: tl))) [s :: ss, b0 :: tl]
          simpa using e1.trans (e2.trans hmN)
        | cons q qs =>
          simp [h5, hs, hp] at h; subst h
          simp only [modelNals, nalType, h5, hs, hp, audNal]
          have e3 := match_long (q :: qs) (0 :: 0 :: 1 :: (b0 :: tl)) [b0 :: tl]
          have e2 := match_long (s :: ss) (0 :: 0 :: 0 :: 1 :: ((q :: qs) ++ 0 :: 0 :: 1 :: (b0 :: tl))) [q :: qs, b0 :: tl]
          have e1 := match_long [9, 0xf0]
            (0 :: 0 :: 0 :: 1 :: ((s :: ss) ++ 0 :: 0 :: 0 :: 1 :: ((q :: qs) ++ 0 :: 0 :: 1 :: (b0 :: tl))))
            [s :: ss, q :: qs, b0 :: tl]
          simpa using e1.trans (e2.trans (e3.trans hmN))
    · by_cases h16 : b0.toNat % 32 = 1 ∨ b0.toNat % 32 = 6
      · -- slice / SEI: AUD, NAL
        have hc : ([1, 5, 6] : List Nat).contains (b0.toNat % 32) = true := by
          rcases h16 with h | h <;> simp [h]
        simp [h5, h16] at h; subst h
        have he : modelNals p (b0 :: tl) = [[9, 0xf0], b0 :: tl] := by
          rcases h16 with h | h <;> simp [modelNals, nalType, h, audNal]
        rw [he]
        simpa using (match_long [9, 0xf0] (0 :: 0 :: 1 :: (b0 :: tl)) [b0 :: tl]).trans hmN
      · -- everything else (SPS, PPS, AUD included): the NAL with a long start code
        have hc : ([1, 5, 6] : List Nat).contains (b0.toNat % 32) = false := by
          simp; omega
        have hn1 : ¬ b0.toNat % 32 = 1 := by omega
        have hn6 : ¬ b0.toNat % 32 = 6 := by omega
        simp [h5, hn1, hn6] at h; subst h
        have he : modelNals p (b0 :: tl) = [b0 :: tl] := by
          simp [modelNals, nalType, h5, hn1, hn6]
        rw [he]
        simpa using hmL

/-- the PES payload of a video frame is one of the Annex-B forms the specification allows -/
theorem avcHeader_alts (c : Cfg) (hc : AvcCfgOk c) (p : Params) (nal hdr : List UInt8)
    (h : avcHeader c p.sps p.pps nal = some hdr) :
    (expectedNalsAlts p nal).any (matchAnnexB · (hdr ++ nal)) = true :=
  List.any_eq_true.mpr ⟨_, modelNals_mem_alts p nal, avcHeader_annexb c hc p nal hdr h⟩

/-- the ADTS template of NewADTSHeader -/
def AdtsCfgOk (c : Cfg) : Prop := c.adts = [0xff, 0xf1, 0x00, 0x00, 0x00, 0x0f, 0xfc]

theorem adts_arith_len (ch n : Nat) (hn : n < 2^13) :
    (ch % 4 * 64 + n / 2048) % 4 * 2048 + n / 8 % 256 * 8 + (n % 8 * 32 + 31) % 256 / 32 = n := by omega

theorem adts_arith_flags (profile sr ch n : Nat) (_hch : ch < 8) :
    ¬ ((profile % 4 * 64 + sr % 16 * 4 + ch % 256 / 4 % 2) % 256 / 2 % 2 = 1 ∨
        ¬(ch % 4 * 64 + n / 2048 % 4) % 256 / 4 % 16 = 0) := by omega

theorem adts_arith_fields (profile sr ch n : Nat) (hp : profile < 4) (hs : sr < 16) (hch : ch < 8) :
    (profile % 4 * 64 + sr % 16 * 4 + ch % 256 / 4 % 2) % 256 / 64 = profile ∧
    (profile % 4 * 64 + sr % 16 * 4 + ch % 256 / 4 % 2) % 256 / 4 % 16 = sr ∧
    (profile % 4 * 64 + sr % 16 * 4 + ch % 256 / 4) % 2 * 4 + (ch % 4 * 64 + n / 2048 % 4) % 256 / 64 = ch := by
  omega

/-- one ADTS frame written by the model parses back, and the parser continues behind it -/
theorem parseAdts_adtsHeader (c : Cfg) (hc : AdtsCfgOk c) (profile sr ch : Nat)
    (hp : profile < 4) (hs : sr < 16) (hch : ch < 8) (payload rest : List UInt8)
    (hlen : payload.length + 7 < 2^13) (fuel : Nat) :
    parseAdts (fuel + 1) (adtsHeader c profile sr ch payload.length ++ (payload ++ rest))
      = (parseAdts fuel rest).map
          ({ profile := profile, srIndex := sr, chanCfg := ch, payload := payload } :: ·) := by
  have hc' : c.adts = [0xff, 0xf1, 0x00, 0x00, 0x00, 0x0f, 0xfc] := hc
  simp only [adtsHeader, hc', parseAdts, List.cons_append, List.nil_append, bN_toNat]
  have t : List.take (payload.length) (payload ++ rest) = payload := List.take_left' rfl
  have d : List.drop (payload.length) (payload ++ rest) = rest := List.drop_left' rfl
  simp
  have hX := adts_arith_len ch (payload.length + 7) hlen
  have h1 := adts_arith_flags profile sr ch (payload.length + 7) hch
  obtain ⟨h2, h3, h4⟩ := adts_arith_fields profile sr ch (payload.length + 7) hp hs hch
  simp only [hX, h1, h2, h3, h4, Nat.add_sub_cancel, t, d, if_false]
  simp
  omega

end IpcHub.TsLemmas
