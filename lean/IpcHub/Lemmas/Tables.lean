/- helper lemmas for C18 (and the histories of C17): the generic table machine refines the abstract table -/
import IpcHub.Model.Tables
import IpcHub.Spec.Table
namespace IpcHub.Tables
open IpcHub.TableSpec
variable {V : Type}

theorem lookup_some_mem {k : Key} {v : V} : ∀ {m : List (Key × V)}, lookup k m = some v → (k, v) ∈ m := by
  intro m
  induction m with
  | nil => intro h; cases h
  | cons kv rest ih =>
    obtain ⟨k1, v1⟩ := kv
    intro h
    by_cases hk : k1 = k
    · simp [lookup, hk] at h; subst hk; subst h; exact List.mem_cons_self
    · simp [lookup, hk] at h; exact List.mem_cons_of_mem _ (ih h)

theorem lookup_none_iff {k : Key} : ∀ {m : List (Key × V)}, lookup k m = none ↔ k ∉ m.map (·.1) := by
  intro m
  induction m with
  | nil => simp [lookup]
  | cons kv rest ih =>
    obtain ⟨k1, v1⟩ := kv
    by_cases hk : k1 = k
    · simp [lookup, hk]
    · simp only [lookup, hk, if_false, ih, List.map_cons, List.mem_cons]
      constructor
      · intro h; intro h'; rcases h' with h' | h'
        · exact hk h'.symm
        · exact h h'
      · intro h h'; exact h (Or.inr h')

theorem lookup_of_mem_nodup {k : Key} {v : V} : ∀ {m : List (Key × V)}, (m.map (·.1)).Nodup → (k, v) ∈ m → lookup k m = some v := by
  intro m
  induction m with
  | nil => intro _ h; cases h
  | cons kv rest ih =>
    obtain ⟨k1, v1⟩ := kv
    intro hnd hm
    simp only [List.map_cons, List.nodup_cons] at hnd
    rcases List.mem_cons.1 hm with e | hm'
    · cases e; simp [lookup]
    · have : k1 ≠ k := by
        intro e; subst e; exact hnd.1 (List.mem_map_of_mem (f := (·.1)) hm')
      simp [lookup, this, ih hnd.2 hm']

theorem eraseKey_keys (k : Key) : ∀ (m : List (Key × V)), (eraseKey k m).map (·.1) = (m.map (·.1)).filter (· ≠ k) := by
  intro m
  induction m with
  | nil => rfl
  | cons kv rest ih =>
    obtain ⟨k1, v1⟩ := kv
    by_cases hk : k1 = k
    · simp [eraseKey, hk, ih]
    · simp [eraseKey, hk, ih]

theorem eraseKey_mem {k : Key} {kv : Key × V} : ∀ {m : List (Key × V)}, kv ∈ eraseKey k m ↔ kv ∈ m ∧ kv.1 ≠ k := by
  intro m
  induction m with
  | nil => simp [eraseKey]
  | cons kv1 rest ih =>
    obtain ⟨k1, v1⟩ := kv1
    by_cases hk : k1 = k
    · simp only [eraseKey, hk, if_true, ih, List.mem_cons]
      constructor
      · rintro ⟨h1, h2⟩; exact ⟨Or.inr h1, h2⟩
      · rintro ⟨h1 | h1, h2⟩
        · subst h1; exact absurd rfl h2
        · exact ⟨h1, h2⟩
    · simp only [eraseKey, hk, if_false, List.mem_cons, ih]
      constructor
      · rintro (h | ⟨h1, h2⟩)
        · subst h; exact ⟨Or.inl rfl, hk⟩
        · exact ⟨Or.inr h1, h2⟩
      · rintro ⟨h1 | h1, h2⟩
        · exact Or.inl h1
        · exact Or.inr ⟨h1, h2⟩

/-- with distinct keys, erasing the first entry of key `k` from the list of values is filtering -/
theorem eraseKey_values (o : Ops V) (k : Key) : ∀ (m : List (Key × V)), (m.map (·.1)).Nodup →
    (∀ kv ∈ m, o.key kv.2 = kv.1) →
    (eraseKey k m).map (·.2) = eraseFirst (fun v2 => k = o.key v2) (m.map (·.2)) ∧
    (eraseKey k m).map (·.2) = (m.map (·.2)).filter (fun x => !decide (o.key x = k)) := by
  intro m
  induction m with
  | nil => intro _ _; exact ⟨rfl, rfl⟩
  | cons kv rest ih =>
    obtain ⟨k1, v1⟩ := kv
    intro hnd hkeyed
    simp only [List.map_cons, List.nodup_cons] at hnd
    have hk1 : o.key v1 = k1 := hkeyed (k1, v1) List.mem_cons_self
    have hrest := ih hnd.2 (fun kv h => hkeyed kv (List.mem_cons_of_mem _ h))
    by_cases hk : k1 = k
    · -- the head goes; nothing else has key k
      have hnot : k ∉ rest.map (·.1) := by rw [← hk]; exact hnd.1
      have he : eraseKey k rest = rest := by
        clear ih hrest hkeyed hnd
        induction rest with
        | nil => rfl
        | cons kv2 r2 ih2 =>
          obtain ⟨k2, v2⟩ := kv2
          simp only [List.map_cons, List.mem_cons, not_or] at hnot
          have : k2 ≠ k := fun e => hnot.1 e.symm
          simp [eraseKey, this, ih2 hnot.2]
      have hfil : (rest.map (·.2)).filter (fun x => !decide (o.key x = k)) = rest.map (·.2) := by
        apply List.filter_eq_self.2
        intro x hx
        obtain ⟨kv, hkv, rfl⟩ := List.mem_map.1 hx
        have := hkeyed kv (List.mem_cons_of_mem _ hkv)
        simp only [this, Bool.not_eq_true', decide_eq_false_iff_not]
        intro e; exact hnot (by rw [← e]; exact List.mem_map_of_mem (f := (·.1)) hkv)
      simp [eraseKey, hk, he, eraseFirst, hk1, hfil]
    · have : ¬ k = o.key v1 := by rw [hk1]; exact fun e => hk e.symm
      have h2 : o.key v1 ≠ k := by rw [hk1]; exact hk
      simp [eraseKey, hk, eraseFirst, this, h2, hrest.1, ← hrest.2]


/-- what the two instances (users, routes) satisfy -/
structure Laws (o : Ops V) where
  /-- "is in stored form" -/
  inv : V → Prop
  init_inv : ∀ v v', o.init v = some v' → inv v'
  copy_inv : ∀ v nv f, inv v → inv nv → inv (o.copyFrom v nv f)
  copy_key : ∀ v nv f, inv v → o.key (o.copyFrom v nv f) = o.key v

/-- the specification's entry rules agree with init / CopyFrom on stored entries -/
structure Refines (o : Ops V) (L : Laws o) (e : EntrySpec V) : Prop where
  key : ∀ v, e.key v = o.key v
  create : ∀ v, e.create v = o.init v
  update : ∀ x nv f, L.inv x → L.inv nv → e.update x nv f = o.copyFrom x nv f
  canonKey : ∀ k, e.canonKey k = o.canonKey k

/-- well-formed and every entry in stored form -/
structure Good (o : Ops V) (L : Laws o) (s : State V) : Prop where
  wf : WF o s
  stored : ∀ kv ∈ s.m, L.inv kv.2

theorem good_empty (o : Ops V) (L : Laws o) : Good o L (State.empty : State V) :=
  ⟨⟨by simp [State.empty], by simp [State.empty], by simp [State.empty]⟩, by simp [State.empty]⟩

theorem any_key_iff (o : Ops V) (s : State V) (hwf : WF o s) (k : Key) :
    (s.l.any (fun x => decide (o.key x = k))) = (lookup k s.m).isSome := by
  rw [hwf.list]
  cases hl : lookup k s.m with
  | none =>
    have := lookup_none_iff.1 hl
    simp only [Option.isSome_none, List.any_eq_false, List.mem_map, decide_eq_true_eq]
    rintro x ⟨kv, hkv, rfl⟩ hx
    apply this
    rw [← hx, hwf.keyed kv hkv]
    exact List.mem_map_of_mem (f := (·.1)) hkv
  | some v =>
    have := lookup_some_mem hl
    simp only [Option.isSome_some, List.any_eq_true, List.mem_map, decide_eq_true_eq]
    exact ⟨v, ⟨(k, v), this, rfl⟩, hwf.keyed _ this⟩

theorem save_good (o : Ops V) (L : Laws o) (s : State V) (v : V) (f : Bool) (hg : Good o L s) :
    Good o L (save o s v f).1 := by
  unfold save
  cases hi : o.init v with
  | none => exact hg
  | some nv =>
    have hinv : L.inv nv := L.init_inv v nv hi
    simp only
    cases hl : lookup (o.key nv) s.m with
    | none =>
      simp only
      have hnot := lookup_none_iff.1 hl
      refine ⟨⟨?_, ?_, ?_⟩, ?_⟩
      · simp only [List.map_append, List.map_cons, List.map_nil]
        rw [List.nodup_append]
        refine ⟨hg.wf.nodup, by simp, ?_⟩
        intro a ha b hb
        simp at hb; subst hb
        intro e; subst e; exact hnot ha
      · intro kv hkv
        rcases List.mem_append.1 hkv with h | h
        · exact hg.wf.keyed kv h
        · simp at h; subst h; rfl
      · simp [hg.wf.list]
      · intro kv hkv
        rcases List.mem_append.1 hkv with h | h
        · exact hg.stored kv h
        · simp at h; subst h; exact hinv
    | some old =>
      simp only
      -- the state after the in-place update (the saves list does not matter for Good)
      have key : ∀ (sv : List Key), Good o L
          { m := s.m.map (fun kv => if kv.1 = o.key nv then (kv.1, o.copyFrom kv.2 nv f) else kv)
            l := s.l.map (fun x => if o.key x = o.key nv then o.copyFrom x nv f else x)
            saves := sv, removes := s.removes } := by
        intro sv
        refine ⟨⟨?_, ?_, ?_⟩, ?_⟩
        · have : (s.m.map (fun kv => if kv.1 = o.key nv then (kv.1, o.copyFrom kv.2 nv f) else kv)).map (·.1) = s.m.map (·.1) := by
            rw [List.map_map]; apply List.map_congr_left; intro kv _; simp only [Function.comp]; split <;> rfl
          simp only [this]; exact hg.wf.nodup
        · intro kv hkv
          obtain ⟨kv0, h0, rfl⟩ := List.mem_map.1 hkv
          split
          · simp only; rw [L.copy_key _ _ _ (hg.stored kv0 h0)]; exact hg.wf.keyed kv0 h0
          · exact hg.wf.keyed kv0 h0
        · simp only [hg.wf.list, List.map_map]
          apply List.map_congr_left
          intro kv hkv
          simp only [Function.comp, hg.wf.keyed kv hkv]
          split <;> rfl
        · intro kv hkv
          obtain ⟨kv0, h0, rfl⟩ := List.mem_map.1 hkv
          split
          · exact L.copy_inv _ _ _ (hg.stored kv0 h0) hinv
          · exact hg.stored kv0 h0
      split
      · exact key _
      · exact key _

theorem del_good (o : Ops V) (L : Laws o) (s : State V) (name : Key) (hg : Good o L s) :
    Good o L (del o s name) := by
  unfold del
  simp only
  cases hl : lookup (o.canonKey name) s.m with
  | none => exact hg
  | some v =>
    simp only
    have hmem := lookup_some_mem hl
    have hkv : o.key v = o.canonKey name := hg.wf.keyed _ hmem
    refine ⟨⟨?_, ?_, ?_⟩, ?_⟩
    · simp only [eraseKey_keys]; exact hg.wf.nodup.filter _
    · intro kv h; exact hg.wf.keyed kv (eraseKey_mem.1 h).1
    · simp only [hg.wf.list, hkv]
      exact ((eraseKey_values o _ s.m hg.wf.nodup hg.wf.keyed).1).symm
    · intro kv h; exact hg.stored kv (eraseKey_mem.1 h).1

/-- Save refines the specification -/
theorem save_list (o : Ops V) (L : Laws o) (e : EntrySpec V) (hr : Refines o L e)
    (s : State V) (v : V) (f : Bool) (hg : Good o L s) :
    (save o s v f).1.l = specSave e s.l v f ∧ (save o s v f).2 = (e.create v).isSome := by
  unfold save specSave
  rw [hr.create]
  cases hi : o.init v with
  | none => exact ⟨rfl, rfl⟩
  | some nv =>
    have hinv : L.inv nv := L.init_inv v nv hi
    simp only
    have hany := any_key_iff o s hg.wf (o.key nv)
    have hany' : (s.l.any fun x => decide (e.key x = e.key nv)) = (lookup (o.key nv) s.m).isSome := by
      rw [← hany]; congr 1; funext x; rw [hr.key, hr.key]
    rw [hany']
    cases hl : lookup (o.key nv) s.m with
    | none => simp
    | some old =>
      simp only [Option.isSome_some, if_true]
      have hmap : s.l.map (fun x => if o.key x = o.key nv then o.copyFrom x nv f else x) =
          s.l.map (fun x => if e.key x = e.key nv then e.update x nv f else x) := by
        apply List.map_congr_left
        intro x hx
        rw [hg.wf.list] at hx
        obtain ⟨kv, hkv, rfl⟩ := List.mem_map.1 hx
        rw [hr.key, hr.key, hr.update _ _ _ (hg.stored kv hkv) hinv]
      split <;> exact ⟨hmap, rfl⟩

/-- Del refines the specification -/
theorem del_list (o : Ops V) (L : Laws o) (e : EntrySpec V) (hr : Refines o L e)
    (s : State V) (name : Key) (hg : Good o L s) :
    (del o s name).l = specDel e s.l name := by
  unfold del specDel
  simp only
  have hfilter : ∀ (t : List V), t.filter (fun x => decide (e.key x ≠ e.canonKey name)) =
      t.filter (fun x => !decide (o.key x = o.canonKey name)) := by
    intro t; apply List.filter_congr; intro x _; rw [hr.key, hr.canonKey]; simp
  rw [hfilter]
  cases hl : lookup (o.canonKey name) s.m with
  | none =>
    simp only
    have hnot := lookup_none_iff.1 hl
    symm; apply List.filter_eq_self.2
    intro x hx
    rw [hg.wf.list] at hx
    obtain ⟨kv, hkv, rfl⟩ := List.mem_map.1 hx
    simp only [Bool.not_eq_true', decide_eq_false_iff_not, hg.wf.keyed kv hkv]
    intro e'; exact hnot (by rw [← e']; exact List.mem_map_of_mem (f := (·.1)) hkv)
  | some v =>
    simp only
    have hkv : o.key v = o.canonKey name := hg.wf.keyed _ (lookup_some_mem hl)
    have h := eraseKey_values o (o.canonKey name) s.m hg.wf.nodup hg.wf.keyed
    rw [hg.wf.list, hkv, ← h.1, h.2]

/-- Get refines the specification -/
theorem get_spec (o : Ops V) (L : Laws o) (e : EntrySpec V) (hr : Refines o L e)
    (s : State V) (name : Key) (hg : Good o L s) :
    get o s name = specGet e s.l name := by
  unfold get specGet
  rw [hg.wf.list]
  have : ∀ (m : List (Key × V)), (∀ kv ∈ m, o.key kv.2 = kv.1) →
      lookup (o.canonKey name) m = (m.map (·.2)).find? (fun x => decide (e.key x = e.canonKey name)) := by
    intro m
    induction m with
    | nil => intro _; rfl
    | cons kv rest ih =>
      intro h
      obtain ⟨k1, v1⟩ := kv
      have h1 : o.key v1 = k1 := h (k1, v1) List.mem_cons_self
      have hr' := ih (fun kv hkv => h kv (List.mem_cons_of_mem _ hkv))
      by_cases hk : k1 = o.canonKey name
      · simp [lookup, hk, hr.key, hr.canonKey, h1]
      · simp [lookup, hk, hr.key, hr.canonKey, h1, hr']
  exact this s.m hg.wf.keyed


theorem insertKey_fresh {k : Key} {v : V} : ∀ {m : List (Key × V)}, k ∉ m.map (·.1) → insertKey k v m = m ++ [(k, v)] := by
  intro m
  induction m with
  | nil => intro _; rfl
  | cons kv rest ih =>
    obtain ⟨k1, v1⟩ := kv
    intro h
    simp only [List.map_cons, List.mem_cons, not_or] at h
    have : k1 ≠ k := fun e => h.1 e.symm
    simp [insertKey, this, ih h.2]

/-- Reset's loop on entries whose stored forms have fresh, pairwise distinct keys appends them -/
theorem loadLoop_spec (o : Ops V) : ∀ (t : List V) (s : State V),
    (s.m.map (·.1) ++ (t.filterMap o.init).map o.key).Nodup →
    loadLoop o t s = { s with m := s.m ++ (t.filterMap o.init).map (fun v => (o.key v, v))
                              l := s.l ++ t.filterMap o.init } := by
  intro t
  induction t with
  | nil => intro s _; simp [loadLoop]
  | cons v rest ih =>
    intro s hnd
    cases hi : o.init v with
    | none =>
      simp only [loadLoop, hi, List.filterMap_cons]
      simp only [List.filterMap_cons, hi] at hnd
      exact ih s hnd
    | some v' =>
      simp only [List.filterMap_cons, hi, List.map_cons] at hnd
      have hfresh : o.key v' ∉ s.m.map (·.1) := by
        intro hmem
        have := (List.nodup_append.1 hnd).2.2 _ hmem (o.key v') List.mem_cons_self
        exact this rfl
      simp only [loadLoop, hi, List.filterMap_cons, List.map_cons]
      rw [insertKey_fresh hfresh]
      rw [ih]
      · simp [List.append_assoc]
      · simp only [List.map_append, List.map_cons, List.map_nil, List.append_assoc, List.singleton_append]
        exact hnd

theorem reset_spec (o : Ops V) (t : List V) (hnd : ((t.filterMap o.init).map o.key).Nodup) :
    reset o t = { m := (t.filterMap o.init).map (fun v => (o.key v, v)), l := t.filterMap o.init, saves := [], removes := [] } := by
  unfold reset
  rw [loadLoop_spec o t State.empty (by simpa [State.empty] using hnd)]
  simp [State.empty]

theorem reset_good (o : Ops V) (L : Laws o) (t : List V) (hnd : ((t.filterMap o.init).map o.key).Nodup) :
    Good o L (reset o t) := by
  rw [reset_spec o t hnd]
  refine ⟨⟨?_, ?_, ?_⟩, ?_⟩
  · simp only [List.map_map]; exact hnd
  · intro kv h; obtain ⟨v, _, rfl⟩ := List.mem_map.1 h; rfl
  · simp [List.map_map, Function.comp_def]
  · intro kv h
    obtain ⟨v, hv, rfl⟩ := List.mem_map.1 h
    obtain ⟨v0, _, h0⟩ := List.mem_filterMap.1 hv
    exact L.init_inv v0 v h0

theorem filterMap_fix (o : Ops V) (L : Laws o) (hfix : ∀ v, L.inv v → o.init v = some v) :
    ∀ (t : List V), (∀ v ∈ t, L.inv v) → t.filterMap o.init = t := by
  intro t
  induction t with
  | nil => intro _; rfl
  | cons v rest ih =>
    intro h
    simp [hfix v (h v List.mem_cons_self), ih (fun x hx => h x (List.mem_cons_of_mem _ hx))]

/-! the change lists -/

/-- `saves` and `removes` are duplicate-free, `saves` names live entries only, `removes` names
    none of them -/
structure Changes (s : State V) : Prop where
  saves_nodup : s.saves.Nodup
  saves_sub : ∀ k ∈ s.saves, k ∈ s.m.map (·.1)
  removes_nodup : s.removes.Nodup
  removes_disj : ∀ k ∈ s.removes, k ∉ s.m.map (·.1)

theorem eraseFirst_sublist {α : Type} (p : α → Bool) : ∀ (l : List α), (eraseFirst p l).Sublist l := by
  intro l
  induction l with
  | nil => exact List.Sublist.refl _
  | cons x xs ih =>
    unfold eraseFirst
    split
    · exact List.sublist_cons_self _ _
    · exact List.Sublist.cons_cons _ ih

theorem eraseFirst_not_mem (k : Key) : ∀ (l : List Key), l.Nodup → k ∉ eraseFirst (fun x => decide (k = x)) l := by
  intro l
  induction l with
  | nil => intro _ h; cases h
  | cons x xs ih =>
    intro hnd
    simp only [List.nodup_cons] at hnd
    unfold eraseFirst
    by_cases hk : k = x
    · simp only [hk, decide_true, if_true]; exact hnd.1
    · have hd : decide (k = x) = false := by simp [hk]
      rw [hd]
      simp only [Bool.false_eq_true, if_false, List.mem_cons, not_or]
      exact ⟨hk, ih hnd.2⟩

theorem changes_empty : Changes (State.empty : State V) :=
  ⟨by simp [State.empty], by simp [State.empty], by simp [State.empty], by simp [State.empty]⟩

theorem save_changes (o : Ops V) (L : Laws o) (s : State V) (v : V) (f : Bool) (_hg : Good o L s) (hc : Changes s) :
    Changes (save o s v f).1 := by
  unfold save
  cases hi : o.init v with
  | none => exact hc
  | some nv =>
    simp only
    cases hl : lookup (o.key nv) s.m with
    | none =>
      simp only
      have hnot := lookup_none_iff.1 hl
      have hks : o.key nv ∉ s.saves := fun h => hnot (hc.saves_sub _ h)
      refine ⟨?_, ?_, ?_, ?_⟩
      · rw [List.nodup_append]
        refine ⟨hc.saves_nodup, by simp, ?_⟩
        intro a ha b hb; simp at hb; subst hb; intro e; subst e; exact hks ha
      · intro k hk
        simp only [List.map_append, List.map_cons, List.map_nil, List.mem_append, List.mem_singleton]
        rcases List.mem_append.1 hk with h | h
        · exact Or.inl (hc.saves_sub k h)
        · simp at h; exact Or.inr h
      · exact (eraseFirst_sublist _ _).nodup hc.removes_nodup
      · intro k hk
        have hk' := (eraseFirst_sublist _ _).subset hk
        simp only [List.map_append, List.map_cons, List.map_nil, List.mem_append, List.mem_singleton, not_or]
        refine ⟨hc.removes_disj k hk', ?_⟩
        intro e; subst e
        exact eraseFirst_not_mem _ _ hc.removes_nodup hk
    | some old =>
      simp only
      have hmem : o.key nv ∈ s.m.map (·.1) := List.mem_map_of_mem (f := (·.1)) (lookup_some_mem hl)
      have hkeys : (s.m.map (fun kv => if kv.1 = o.key nv then (kv.1, o.copyFrom kv.2 nv f) else kv)).map (·.1) = s.m.map (·.1) := by
        rw [List.map_map]; apply List.map_congr_left; intro kv _; simp only [Function.comp]; split <;> rfl
      split
      · exact ⟨hc.saves_nodup, by simp only [hkeys]; exact hc.saves_sub, hc.removes_nodup, by simp only [hkeys]; exact hc.removes_disj⟩
      · rename_i hany
        refine ⟨?_, ?_, hc.removes_nodup, by simp only [hkeys]; exact hc.removes_disj⟩
        · rw [List.nodup_append]
          refine ⟨hc.saves_nodup, by simp, ?_⟩
          intro a ha b hb; simp at hb; subst hb; intro e; subst e
          apply hany; simp only [List.any_eq_true, decide_eq_true_eq]; exact ⟨_, ha, rfl⟩
        · intro k hk
          simp only [hkeys]
          rcases List.mem_append.1 hk with h | h
          · exact hc.saves_sub k h
          · simp at h; subst h; exact hmem

theorem del_changes (o : Ops V) (L : Laws o) (s : State V) (name : Key) (hg : Good o L s) (hc : Changes s) :
    Changes (del o s name) := by
  unfold del
  simp only
  cases hl : lookup (o.canonKey name) s.m with
  | none => exact hc
  | some v =>
    simp only
    have hmem := lookup_some_mem hl
    have hkv : o.key v = o.canonKey name := hg.wf.keyed _ hmem
    have hin : o.canonKey name ∈ s.m.map (·.1) := List.mem_map_of_mem (f := (·.1)) hmem
    rw [hkv]
    refine ⟨(eraseFirst_sublist _ _).nodup hc.saves_nodup, ?_, ?_, ?_⟩
    · intro k hk
      have hk' := (eraseFirst_sublist _ _).subset hk
      rw [eraseKey_keys]
      simp only [List.mem_filter, ne_eq, decide_eq_true_eq]
      refine ⟨hc.saves_sub k hk', ?_⟩
      intro e; subst e
      exact eraseFirst_not_mem _ _ hc.saves_nodup hk
    · rw [List.nodup_append]
      refine ⟨hc.removes_nodup, by simp, ?_⟩
      intro a ha b hb; simp at hb; subst hb; intro e; subst e
      exact hc.removes_disj _ ha hin
    · intro k hk
      rw [eraseKey_keys]
      simp only [List.mem_filter, ne_eq, decide_eq_true_eq, not_and]
      rcases List.mem_append.1 hk with h | h
      · intro h'; exact absurd h' (hc.removes_disj k h)
      · simp at h; intro _ hne; exact hne h

/-- the table file is readable and holds stored-form entries with distinct keys -/
def DiskOK (o : Ops V) (L : Laws o) : Disk V → Prop
  | .missing => True
  | .table t => (t.map o.key).Nodup ∧ ∀ v ∈ t, L.inv v
  | .corrupt => False

/-- the table a restart would hold now -/
def restartView (o : Ops V) (dflt : List V) (d : Disk V) : List V := (Server.boot o dflt d).1.st.l

/-- the simulation relation between the server model and the abstract server -/
structure Sim (o : Ops V) (L : Laws o) (e : EntrySpec V) (dflt : List V) (sv : Server V) (a : Abs V) : Prop where
  good : Good o L sv.st
  cur : sv.st.l = a.cur
  disk_ok : DiskOK o L sv.disk
  view : restartView o dflt sv.disk = specLoad e dflt a.disk
  clean : sv.st.saves = [] → sv.st.removes = [] → restartView o dflt sv.disk = sv.st.l
  changes : Changes sv.st

structure Hyps (o : Ops V) (L : Laws o) (e : EntrySpec V) (dflt : List V) : Prop where
  refines : Refines o L e
  fix : ∀ v, L.inv v → o.init v = some v
  dflt_nodup : ((dflt.filterMap o.init).map o.key).Nodup

theorem boot_ok (o : Ops V) (L : Laws o) (e : EntrySpec V) (dflt : List V) (h : Hyps o L e dflt)
    (d : Disk V) (hd : DiskOK o L d) :
    (Server.boot o dflt d).2 = true ∧ Good o L (Server.boot o dflt d).1.st ∧
    (Server.boot o dflt d).1.disk = d ∧ (Server.boot o dflt d).1.st.saves = [] ∧ (Server.boot o dflt d).1.st.removes = [] ∧
    restartView o dflt d = match d with | .table t => t | _ => dflt.filterMap o.init := by
  cases d with
  | corrupt => exact absurd hd (by simp [DiskOK])
  | missing =>
    refine ⟨rfl, reset_good o L dflt h.dflt_nodup, rfl, ?_, ?_, ?_⟩ <;>
      simp [Server.boot, loadAll, restartView, reset_spec o dflt h.dflt_nodup]
  | table t =>
    obtain ⟨hnd, hinv⟩ := hd
    have hf := filterMap_fix o L h.fix t hinv
    have hnd' : ((t.filterMap o.init).map o.key).Nodup := by rw [hf]; exact hnd
    refine ⟨rfl, reset_good o L t hnd', rfl, ?_, ?_, ?_⟩ <;>
      simp [Server.boot, loadAll, restartView, reset_spec o t hnd', hf]

theorem sim_fresh (o : Ops V) (L : Laws o) (e : EntrySpec V) (dflt : List V) (h : Hyps o L e dflt) :
    Sim o L e dflt (Server.boot o dflt .missing).1 (Abs.fresh e dflt) := by
  obtain ⟨_, hg, hd, hs, hr, hv⟩ := boot_ok o L e dflt h .missing trivial
  have hcreate : dflt.filterMap e.create = dflt.filterMap o.init := by
    congr 1; funext v; exact h.refines.create v
  refine ⟨hg, ?_, by rw [hd]; trivial, ?_, ?_, ⟨by rw [hs]; simp, by rw [hs]; simp, by rw [hr]; simp, by rw [hr]; simp⟩⟩
  · have : (Server.boot o dflt .missing).1.st.l = dflt.filterMap o.init := hv
    rw [this]; simp [Abs.fresh, specLoad, hcreate]
  · rw [hd]; simp only at hv; rw [hv]; simp [Abs.fresh, specLoad, hcreate]
  · intro _ _; rw [hd]; rfl

theorem save_dirty (o : Ops V) (s : State V) (v : V) (f : Bool) (nv : V) (hi : o.init v = some nv) :
    (save o s v f).1.saves ≠ [] := by
  unfold save
  simp only [hi]
  cases lookup (o.key nv) s.m with
  | none => simp
  | some old =>
    simp only
    split
    · rename_i hany
      intro hnil
      simp only at hnil
      rw [hnil] at hany; simp at hany
    · simp

theorem sim_step (o : Ops V) (L : Laws o) (e : EntrySpec V) (dflt : List V) (guarded : Bool) (h : Hyps o L e dflt)
    (sv : Server V) (a : Abs V) (hs : Sim o L e dflt sv a) (op : Op V) :
    Sim o L e dflt (Server.step o guarded dflt sv op) (Abs.step e dflt a op) := by
  cases op with
  | save v f =>
    simp only [Server.step, Abs.step]
    refine ⟨save_good o L sv.st v f hs.good, ?_, hs.disk_ok, hs.view, ?_, save_changes o L sv.st v f hs.good hs.changes⟩
    · rw [(save_list o L e h.refines sv.st v f hs.good).1, hs.cur]
    · intro h1 h2
      cases hi : o.init v with
      | none =>
        have : (save o sv.st v f).1 = sv.st := by simp [save, hi]
        rw [this] at h1 h2 ⊢; exact hs.clean h1 h2
      | some nv => exact absurd h1 (save_dirty o sv.st v f nv hi)
  | del name =>
    simp only [Server.step, Abs.step]
    refine ⟨del_good o L sv.st name hs.good, ?_, hs.disk_ok, hs.view, ?_, del_changes o L sv.st name hs.good hs.changes⟩
    · rw [del_list o L e h.refines sv.st name hs.good, hs.cur]
    · intro h1 h2
      cases hl : lookup (o.canonKey name) sv.st.m with
      | none =>
        have : del o sv.st name = sv.st := by simp [del, hl]
        rw [this] at h1 h2 ⊢; exact hs.clean h1 h2
      | some v =>
        have : (del o sv.st name).removes ≠ [] := by simp [del, hl]
        exact absurd h2 this
  | flush =>
    by_cases hcond : (guarded && sv.st.saves.length + sv.st.removes.length == 0) = true
    · -- the guard returned early: the file already holds the current table
      have hf : flush guarded sv.st = (sv.st, none) := by simp only [flush, hcond, if_true]
      simp only [Server.step, Abs.step, hf]
      simp only [Bool.and_eq_true, beq_iff_eq] at hcond
      obtain ⟨_, hlen⟩ := hcond
      have h1 : sv.st.saves = [] := List.length_eq_zero_iff.1 (by omega)
      have h2 : sv.st.removes = [] := List.length_eq_zero_iff.1 (by omega)
      refine ⟨hs.good, hs.cur, hs.disk_ok, ?_, hs.clean, hs.changes⟩
      rw [hs.clean h1 h2, hs.cur]; rfl
    · have hf : flush guarded sv.st = ({ sv.st with saves := [], removes := [] }, some sv.st.l) := by
        simp only [flush, hcond]; rfl
      simp only [Server.step, Abs.step, hf]
      have hg' : Good o L { sv.st with saves := [], removes := [] } := ⟨⟨hs.good.wf.nodup, hs.good.wf.keyed, hs.good.wf.list⟩, hs.good.stored⟩
      have hdisk : DiskOK o L (.table sv.st.l) := by
        refine ⟨?_, ?_⟩
        · rw [hs.good.wf.list, List.map_map]
          have : sv.st.m.map (o.key ∘ fun x => x.2) = sv.st.m.map (·.1) :=
            List.map_congr_left (fun kv hkv => hs.good.wf.keyed kv hkv)
          rw [this]; exact hs.good.wf.nodup
        · intro v hv
          rw [hs.good.wf.list] at hv
          obtain ⟨kv, hkv, rfl⟩ := List.mem_map.1 hv
          exact hs.good.stored kv hkv
      have hview := (boot_ok o L e dflt h _ hdisk).2.2.2.2.2
      simp only at hview
      exact ⟨hg', hs.cur, hdisk, by rw [hview, hs.cur]; rfl, fun _ _ => hview, ⟨by simp, by simp, by simp, by simp⟩⟩
  | restart =>
    simp only [Server.step, Abs.step]
    obtain ⟨_, hg, hd, hsv, hrm, hv⟩ := boot_ok o L e dflt h sv.disk hs.disk_ok
    refine ⟨hg, ?_, by rw [hd]; exact hs.disk_ok, by rw [hd]; exact hs.view, fun _ _ => by rw [hd]; rfl,
      ⟨by rw [hsv]; simp, by rw [hsv]; simp, by rw [hrm]; simp, by rw [hrm]; simp⟩⟩
    exact hs.view


theorem sim_run (o : Ops V) (L : Laws o) (e : EntrySpec V) (dflt : List V) (guarded : Bool) (h : Hyps o L e dflt)
    (ops : List (Op V)) : ∀ (sv : Server V) (a : Abs V), Sim o L e dflt sv a →
    Sim o L e dflt (Server.run o guarded dflt sv ops) (Abs.run e dflt a ops) := by
  induction ops with
  | nil => intro sv a hs; exact hs
  | cons op rest ih =>
    intro sv a hs
    exact ih _ _ (sim_step o L e dflt guarded h sv a hs op)

theorem run_append (o : Ops V) (guarded : Bool) (dflt : List V) (sv : Server V) (xs ys : List (Op V)) :
    Server.run o guarded dflt sv (xs ++ ys) = Server.run o guarded dflt (Server.run o guarded dflt sv xs) ys := by
  simp [Server.run, List.foldl_append]

theorem abs_run_append (e : EntrySpec V) (dflt : List V) (a : Abs V) (xs ys : List (Op V)) :
    Abs.run e dflt a (xs ++ ys) = Abs.run e dflt (Abs.run e dflt a xs) ys := by
  simp [Abs.run, List.foldl_append]

end IpcHub.Tables
