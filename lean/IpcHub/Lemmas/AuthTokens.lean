/-
C11 helper lemmas, part B: the token table (provider/auth/token.go) along arbitrary histories of
logins, refreshes, access checks, expiry sweeps and the passing of time.
-/
import IpcHub.Model.AuthSess
namespace IpcHub.Auth

/-! ### the association list -/

theorem tget_mem {t : TokTable} {k : Nat} {v : Tok} (h : tget t k = some v) : (k, v) ∈ t := by
  unfold tget at h
  cases hf : t.find? (fun e => e.1 = k) with
  | none => rw [hf] at h; simp at h
  | some e =>
    rw [hf] at h
    simp only [Option.map_some, Option.some.injEq] at h
    have hm := List.mem_of_find?_eq_some hf
    have hk : e.1 = k := by have := List.find?_some hf; simpa using this
    obtain ⟨a, b⟩ := e
    simp only at h hk
    subst h; subst hk
    exact hm

theorem find?_filter_key (t : TokTable) (k k' : Nat) :
    (t.filter (fun e => e.1 ≠ k)).find? (fun e => e.1 = k') =
      if k' = k then none else t.find? (fun e => e.1 = k') := by
  induction t with
  | nil => simp
  | cons a t ih =>
    by_cases hak : a.1 = k
    · have hd : (decide (a.1 ≠ k)) = false := by simp [hak]
      rw [List.filter_cons, hd]
      simp only [Bool.false_eq_true, if_false]
      rw [ih]
      by_cases hkk : k' = k
      · simp [hkk]
      · have : ¬ a.1 = k' := by rw [hak]; exact fun e => hkk e.symm
        simp only [hkk, if_false, List.find?_cons]
        simp [this]
    · have hd : (decide (a.1 ≠ k)) = true := by simp [hak]
      rw [List.filter_cons, hd]
      simp only [if_true, List.find?_cons]
      by_cases han : a.1 = k'
      · have hkk : ¬ k' = k := by rw [← han]; exact hak
        simp [han, hkk]
      · have : decide (a.1 = k') = false := by simp [han]
        rw [this]
        exact ih

theorem tget_tdel_self (t : TokTable) (k : Nat) : tget (tdel t k) k = none := by
  unfold tget tdel
  rw [find?_filter_key]
  simp

theorem tget_tdel_ne (t : TokTable) (k k' : Nat) (h : k' ≠ k) : tget (tdel t k) k' = tget t k' := by
  unfold tget tdel
  rw [find?_filter_key]
  simp [h]

theorem tget_tput_self (t : TokTable) (k : Nat) (v : Tok) : tget (tput t k v) k = some v := by
  simp [tget, tput]

theorem tget_tput_ne (t : TokTable) (k k' : Nat) (v : Tok) (h : k' ≠ k) : tget (tput t k v) k' = tget t k' := by
  have : tget (tput t k v) k' = tget (tdel t k) k' := by
    unfold tget tput
    have hk : ¬ k = k' := fun e => h e.symm
    simp [hk]
  rw [this, tget_tdel_ne t k k' h]

theorem tget_tdel_none (t : TokTable) (k x : Nat) (h : tget t k = none) : tget (tdel t x) k = none := by
  by_cases hx : k = x
  · rw [hx]; exact tget_tdel_self t x
  · rw [tget_tdel_ne t x k hx]; exact h

theorem mem_tdel {t : TokTable} {k : Nat} {e : Nat × Tok} (h : e ∈ tdel t k) : e ∈ t :=
  (List.mem_filter.mp h).1

/-! ### the shape of the table -/

/-- every entry is filed under the access or the refresh secret of its record, the two secrets of a
    record are an even number and its successor (the two draws of `NewToken`), all are older than
    `next`, and two entries with the same access secret carry the same record -/
structure TM (t : TokTable) (next : Nat) : Prop where
  key : ∀ e ∈ t, e.1 = e.2.a ∨ e.1 = e.2.r
  shape : ∀ e ∈ t, e.2.r = e.2.a + 1 ∧ e.2.a % 2 = 0 ∧ e.2.r < next
  ident : ∀ e ∈ t, ∀ e' ∈ t, e.2.a = e'.2.a → e.2 = e'.2
  even : next % 2 = 0

theorem TM.nil : TM [] 0 := ⟨by simp, by simp, by simp, rfl⟩

theorem TM.tdel {t : TokTable} {n : Nat} (h : TM t n) (k : Nat) : TM (tdel t k) n :=
  ⟨fun e he => h.key e (mem_tdel he), fun e he => h.shape e (mem_tdel he),
   fun e he e' he' => h.ident e (mem_tdel he) e' (mem_tdel he'), h.even⟩

theorem mem_tput {t : TokTable} {k : Nat} {v : Tok} {e : Nat × Tok} (h : e ∈ tput t k v) : e = (k, v) ∨ e ∈ t := by
  unfold tput at h
  rcases List.mem_cons.mp h with h | h
  · exact Or.inl h
  · exact Or.inr (mem_tdel h)

theorem TM.newToken (cfg : Cfg) {t : TokTable} {n : Nat} (h : TM t n) (u : List Char) (now : Int) :
    TM (newToken cfg t n u now).1 (n + 2) := by
  unfold Auth.newToken
  simp only
  generalize htok : ({ user := u, a := n, aexp := now + cfg.accessTTL, r := n + 1, rexp := now + cfg.refreshTTL } : Tok) = tok
  have ha : tok.a = n := by rw [← htok]
  have hr : tok.r = n + 1 := by rw [← htok]
  have hev := h.even
  -- where an entry of the new table comes from
  have src : ∀ e, e ∈ tput (tput t n tok) (n + 1) tok → e.2 = tok ∧ (e.1 = tok.a ∨ e.1 = tok.r) ∨ e ∈ t := by
    intro e he
    rcases mem_tput he with he | he
    · left; rw [he]; exact ⟨rfl, Or.inr hr.symm⟩
    · rcases mem_tput he with he | he
      · left; rw [he]; exact ⟨rfl, Or.inl ha.symm⟩
      · right; exact he
  refine ⟨?_, ?_, ?_, by omega⟩
  · intro e he
    rcases src e he with ⟨h1, h2⟩ | h1
    · rw [h1]; exact h2
    · exact h.key e h1
  · intro e he
    rcases src e he with ⟨h1, _⟩ | h1
    · rw [h1, ha, hr]; omega
    · have := h.shape e h1; omega
  · intro e he e' he' heq
    rcases src e he with ⟨h1, _⟩ | h1 <;> rcases src e' he' with ⟨h2, _⟩ | h2
    · rw [h1, h2]
    · exfalso; rw [h1, ha] at heq; have := h.shape e' h2; omega
    · exfalso; rw [h2, ha] at heq; have := h.shape e h1; omega
    · exact h.ident e h1 e' h2 heq

theorem TM.mono {t : TokTable} {n : Nat} (h : TM t n) : TM t (n + 2) :=
  ⟨h.key, fun e he => by have := h.shape e he; omega, h.ident, by have := h.even; omega⟩

/-! ### histories -/

inductive TokOp where
  | login (user : List Char)       -- NewToken after a successful password check
  | refresh (tok : Nat)            -- Refresh with any string
  | access (tok : Nat)             -- AccessCheck with any string (it may delete an expired entry)
  | sweep                          -- ExpCheck
  | tick (seconds : Nat)           -- time passes
  deriving Repr

structure TState where
  t : TokTable
  next : Nat
  now : Int

def TState.step (cfg : Cfg) (s : TState) : TokOp → TState
  | .login u => { s with t := (newToken cfg s.t s.next u s.now).1, next := (newToken cfg s.t s.next u s.now).2.1 }
  | .refresh k => { s with t := (refreshToken cfg s.t s.next k s.now).1, next := (refreshToken cfg s.t s.next k s.now).2.1 }
  | .access k => { s with t := (accessCheck s.t k s.now).1 }
  | .sweep => { s with t := expCheck s.t s.now }
  | .tick d => { s with now := s.now + d }

def TState.run (cfg : Cfg) (s : TState) (ops : List TokOp) : TState := ops.foldl (TState.step cfg) s

def TState.init : TState := { t := [], next := 0, now := 0 }

theorem newToken_next (cfg : Cfg) (t : TokTable) (n : Nat) (u : List Char) (now : Int) :
    (newToken cfg t n u now).2.1 = n + 2 := rfl

/-- the step of the sweep's fold -/
def sweepStep (now : Int) (acc : TokTable) (e : Nat × Tok) : TokTable :=
  let acc := if now > e.2.aexp then tdel acc e.2.a else acc
  if now > e.2.rexp then tdel acc e.2.r else acc

theorem expCheck_eq (t : TokTable) (now : Int) : expCheck t now = t.foldl (sweepStep now) t := rfl

theorem TM.sweepFold {n : Nat} (now : Int) (l : List (Nat × Tok)) :
    ∀ acc : TokTable, TM acc n → TM (l.foldl (sweepStep now) acc) n := by
  induction l with
  | nil => intro acc h; exact h
  | cons e l ih =>
    intro acc h
    simp only [List.foldl_cons]
    apply ih
    unfold sweepStep
    simp only
    split <;> split <;> first | exact h | exact h.tdel _ | exact (h.tdel _).tdel _

theorem refresh_cases (cfg : Cfg) (t : TokTable) (n : Nat) (k : Nat) (now : Int) :
    (refreshToken cfg t n k now).1 = t ∧ (refreshToken cfg t n k now).2.1 = n ∨
    (∃ old, tget t k = some old ∧ k = old.r ∧
      ((refreshToken cfg t n k now).1 = tdel (tdel t old.a) old.r ∧ (refreshToken cfg t n k now).2.1 = n ∨
       (refreshToken cfg t n k now).1 = (newToken cfg (tdel (tdel t old.a) old.r) n old.user now).1 ∧
         (refreshToken cfg t n k now).2.1 = n + 2)) := by
  cases hg : tget t k with
  | none => left; simp [refreshToken, hg]
  | some old =>
    by_cases hk : k = old.r
    · right
      refine ⟨old, rfl, hk, ?_⟩
      by_cases he : old.rexp > now
      · right; simp [refreshToken, hg, ← hk, he, Auth.newToken]
      · left; simp [refreshToken, hg, ← hk, he]
    · left; simp [refreshToken, hg, hk]

theorem access_cases (t : TokTable) (k : Nat) (now : Int) :
    (accessCheck t k now).1 = t ∨
    (∃ tok, tget t k = some tok ∧ tok.a = k ∧ ¬ tok.aexp > now ∧ (accessCheck t k now).1 = tdel t tok.a) := by
  unfold accessCheck
  cases hg : tget t k with
  | none => left; rfl
  | some tok =>
    simp only
    by_cases ha : tok.a = k
    · simp only [ha, if_true]
      by_cases he : tok.aexp > now
      · left; simp only [he, if_true]
      · right; refine ⟨tok, rfl, ha, he, ?_⟩; simp only [he, if_false, ha]
    · left; simp only [ha, if_false]

/-- the shape invariant holds along every history -/
theorem TM.step (cfg : Cfg) (s : TState) (h : TM s.t s.next) (op : TokOp) :
    TM (s.step cfg op).t (s.step cfg op).next := by
  cases op with
  | login u => exact h.newToken cfg u s.now
  | refresh k =>
    simp only [TState.step]
    rcases refresh_cases cfg s.t s.next k s.now with ⟨h1, h2⟩ | ⟨old, _, _, ⟨h1, h2⟩ | ⟨h1, h2⟩⟩
    · rw [h1, h2]; exact h
    · rw [h1, h2]; exact (h.tdel _).tdel _
    · rw [h1, h2]; exact ((h.tdel _).tdel _).newToken cfg old.user s.now
  | access k =>
    simp only [TState.step]
    rcases access_cases s.t k s.now with h1 | ⟨tok, _, _, _, h1⟩
    · rw [h1]; exact h
    · rw [h1]; exact h.tdel _
  | sweep =>
    simp only [TState.step, expCheck_eq]
    exact TM.sweepFold s.now s.t s.t h
  | tick d => exact h

theorem TM.run (cfg : Cfg) (ops : List TokOp) : ∀ s : TState, TM s.t s.next → TM (s.run cfg ops).t (s.run cfg ops).next := by
  induction ops with
  | nil => intro s h; exact h
  | cons op ops ih => intro s h; exact ih _ (h.step cfg s op)

theorem step_next_mono (cfg : Cfg) (s : TState) (op : TokOp) : s.next ≤ (s.step cfg op).next := by
  cases op with
  | login u => simp [TState.step, newToken_next]
  | refresh k =>
    simp only [TState.step]
    rcases refresh_cases cfg s.t s.next k s.now with ⟨_, h2⟩ | ⟨_, _, _, ⟨_, h2⟩ | ⟨_, h2⟩⟩ <;> rw [h2] <;> omega
  | access k => exact Nat.le_refl _
  | sweep => exact Nat.le_refl _
  | tick d => exact Nat.le_refl _

theorem step_now_mono (cfg : Cfg) (s : TState) (op : TokOp) : s.now ≤ (s.step cfg op).now := by
  cases op <;> simp [TState.step] <;> omega

theorem run_now_mono (cfg : Cfg) (ops : List TokOp) : ∀ s : TState, s.now ≤ (s.run cfg ops).now := by
  induction ops with
  | nil => intro s; exact Int.le_refl _
  | cons op ops ih =>
    intro s
    exact Int.le_trans (step_now_mono cfg s op) (ih _)

/-! ### what AccessCheck accepts -/

/-- AccessCheck answers a user name only for the access secret of a stored, unexpired record -/
theorem access_sound (t : TokTable) (k : Nat) (now : Int) (u : List Char)
    (h : (accessCheck t k now).2 = some u) :
    ∃ tok, tget t k = some tok ∧ tok.a = k ∧ tok.aexp > now ∧ tok.user = u := by
  unfold accessCheck at h
  cases hg : tget t k with
  | none => rw [hg] at h; simp at h
  | some tok =>
    rw [hg] at h
    simp only at h
    by_cases ha : tok.a = k
    · simp only [ha, if_true] at h
      by_cases he : tok.aexp > now
      · simp only [he, if_true, Option.some.injEq] at h
        exact ⟨tok, rfl, ha, he, h⟩
      · simp [he] at h
    · simp [ha] at h

theorem access_complete (t : TokTable) (k : Nat) (now : Int) (tok : Tok)
    (hg : tget t k = some tok) (ha : tok.a = k) (he : tok.aexp > now) :
    accessCheck t k now = (t, some tok.user) := by
  unfold accessCheck
  rw [hg]
  simp [ha, he]

theorem access_none_of_absent (t : TokTable) (k : Nat) (now : Int) (h : tget t k = none) :
    accessCheck t k now = (t, none) := by
  unfold accessCheck; rw [h]

/-- a secret that is not in the table and older than `next` never comes back -/
theorem gone_stays_gone_step (cfg : Cfg) (s : TState) (k : Nat) (hk : k < s.next) (hn : tget s.t k = none)
    (op : TokOp) : tget (s.step cfg op).t k = none := by
  have newTok : ∀ (t : TokTable) (u : List Char), tget t k = none → tget (newToken cfg t s.next u s.now).1 k = none := by
    intro t u ht
    unfold Auth.newToken
    simp only
    rw [tget_tput_ne _ _ _ _ (by omega), tget_tput_ne _ _ _ _ (by omega)]
    exact ht
  cases op with
  | login u => exact newTok s.t u hn
  | refresh x =>
    simp only [TState.step]
    rcases refresh_cases cfg s.t s.next x s.now with ⟨h1, _⟩ | ⟨old, _, _, ⟨h1, _⟩ | ⟨h1, _⟩⟩
    · rw [h1]; exact hn
    · rw [h1]; exact tget_tdel_none _ _ _ (tget_tdel_none _ _ _ hn)
    · rw [h1]; exact newTok _ _ (tget_tdel_none _ _ _ (tget_tdel_none _ _ _ hn))
  | access x =>
    simp only [TState.step]
    rcases access_cases s.t x s.now with h1 | ⟨tok, _, _, _, h1⟩
    · rw [h1]; exact hn
    · rw [h1]; exact tget_tdel_none _ _ _ hn
  | sweep =>
    simp only [TState.step, expCheck_eq]
    have : ∀ (l : List (Nat × Tok)) (acc : TokTable), tget acc k = none → tget (l.foldl (sweepStep s.now) acc) k = none := by
      intro l
      induction l with
      | nil => intro acc h; exact h
      | cons e l ih =>
        intro acc h
        simp only [List.foldl_cons]
        apply ih
        unfold sweepStep
        simp only
        split <;> split <;>
          first | exact h | exact tget_tdel_none _ _ _ h | exact tget_tdel_none _ _ _ (tget_tdel_none _ _ _ h)
    exact this s.t s.t hn
  | tick d => exact hn

theorem gone_stays_gone (cfg : Cfg) (k : Nat) (ops : List TokOp) :
    ∀ s : TState, k < s.next → tget s.t k = none → tget (s.run cfg ops).t k = none := by
  induction ops with
  | nil => intro s _ h; exact h
  | cons op ops ih =>
    intro s hk hn
    exact ih _ (Nat.lt_of_lt_of_le hk (step_next_mono cfg s op)) (gone_stays_gone_step cfg s k hk hn op)

/-- Refresh with the refresh secret of a stored record removes both of its secrets -/
theorem refresh_supersedes (cfg : Cfg) (s : TState) (hm : TM s.t s.next) (r : Nat) (old : Tok)
    (hg : tget s.t r = some old) (hr : old.r = r) :
    tget (s.step cfg (.refresh r)).t old.a = none ∧ tget (s.step cfg (.refresh r)).t old.r = none ∧
      old.a < (s.step cfg (.refresh r)).next ∧ old.r < (s.step cfg (.refresh r)).next := by
  have hsh := hm.shape (r, old) (tget_mem hg)
  simp only at hsh
  have hmono := step_next_mono cfg s (.refresh r)
  have gone : tget (tdel (tdel s.t old.a) old.r) old.a = none ∧ tget (tdel (tdel s.t old.a) old.r) old.r = none :=
    ⟨tget_tdel_none _ _ _ (tget_tdel_self _ _), tget_tdel_self _ _⟩
  simp only [TState.step] at hmono ⊢
  rcases refresh_cases cfg s.t s.next r s.now with ⟨h1, _⟩ | ⟨old', hg', hr', h1⟩
  · -- impossible: the record is there and `r` is its refresh secret
    exfalso
    unfold refreshToken at h1
    rw [hg] at h1
    simp only [hr, if_true] at h1
    have hne : tget s.t r ≠ none := by rw [hg]; simp
    by_cases he : old.rexp > s.now
    · simp only [he, if_true] at h1
      have := congrArg (fun t => tget t s.next) h1
      simp only [Auth.newToken] at this
      rw [tget_tput_ne _ _ _ _ (by omega), tget_tput_self] at this
      have hlt : tget s.t s.next = none := by
        cases hx : tget s.t s.next with
        | none => rfl
        | some v =>
          have := hm.shape _ (tget_mem hx)
          have hk := hm.key _ (tget_mem hx)
          omega
      rw [hlt] at this; simp at this
    · simp only [he, if_false] at h1
      have := congrArg (fun t => tget t r) h1
      rw [← hr, gone.2, hr, hg] at this
      simp at this
  · have : old' = old := by rw [hg] at hg'; exact (Option.some.inj hg').symm
    subst this
    rcases h1 with ⟨h1, h2⟩ | ⟨h1, h2⟩
    · rw [h1, h2]; exact ⟨gone.1, gone.2, by omega, by omega⟩
    · rw [h1, h2]
      unfold Auth.newToken
      simp only
      refine ⟨?_, ?_, by omega, by omega⟩
      · rw [tget_tput_ne _ _ _ _ (by omega), tget_tput_ne _ _ _ _ (by omega)]; exact gone.1
      · rw [tget_tput_ne _ _ _ _ (by omega), tget_tput_ne _ _ _ _ (by omega)]; exact gone.2

/-- an unexpired access secret survives every operation except the refresh of its own record -/
theorem valid_survives_step (cfg : Cfg) (s : TState) (hm : TM s.t s.next) (a : Nat) (tk : Tok)
    (hg : tget s.t a = some tk) (ha : tk.a = a) (hlive : s.now < tk.aexp) (op : TokOp)
    (hop : op ≠ .refresh tk.r) : tget (s.step cfg op).t a = some tk := by
  have hmem := tget_mem hg
  have hsh := hm.shape (a, tk) hmem
  simp only at hsh
  have newTok : ∀ (t : TokTable) (u : List Char), tget t a = some tk → tget (newToken cfg t s.next u s.now).1 a = some tk := by
    intro t u ht
    unfold Auth.newToken
    simp only
    rw [tget_tput_ne _ _ _ _ (by omega), tget_tput_ne _ _ _ _ (by omega)]
    exact ht
  cases op with
  | login u => exact newTok s.t u hg
  | refresh x =>
    simp only [TState.step]
    rcases refresh_cases cfg s.t s.next x s.now with ⟨h1, _⟩ | ⟨old, hgo, hx, h1⟩
    · rw [h1]; exact hg
    · -- the refreshed record is another one
      have hmo := tget_mem hgo
      have hso := hm.shape (x, old) hmo
      simp only at hso
      have hne : old.a ≠ a := by
        intro e
        have := hm.ident (x, old) hmo (a, tk) hmem (by simp only; rw [e, ha])
        simp only at this
        apply hop
        rw [← this, ← hx]
      have hne2 : old.r ≠ a := by omega
      have keep : tget (tdel (tdel s.t old.a) old.r) a = some tk := by
        rw [tget_tdel_ne _ _ _ (fun e => hne2 e.symm), tget_tdel_ne _ _ _ (fun e => hne e.symm)]; exact hg
      rcases h1 with ⟨h1, _⟩ | ⟨h1, _⟩
      · rw [h1]; exact keep
      · rw [h1]; exact newTok _ _ keep
  | access x =>
    simp only [TState.step]
    rcases access_cases s.t x s.now with h1 | ⟨tok, hgt, hta, hexp, h1⟩
    · rw [h1]; exact hg
    · rw [h1]
      have hne : tok.a ≠ a := by
        intro e
        have : x = a := by rw [← hta, e]
        rw [this, hg] at hgt
        have : tk = tok := Option.some.inj hgt
        rw [← this] at hexp
        exact hexp hlive
      rw [tget_tdel_ne _ _ _ (fun e => hne e.symm)]; exact hg
  | sweep =>
    simp only [TState.step, expCheck_eq]
    have fold : ∀ (l : List (Nat × Tok)) (acc : TokTable), (∀ e ∈ l, e ∈ s.t) → tget acc a = some tk →
        tget (l.foldl (sweepStep s.now) acc) a = some tk := by
      intro l
      induction l with
      | nil => intro acc _ h; exact h
      | cons e l ih =>
        intro acc hsub h
        simp only [List.foldl_cons]
        apply ih _ (fun x hx => hsub x (List.mem_cons_of_mem _ hx))
        have he : e ∈ s.t := hsub e (List.mem_cons_self ..)
        have hse := hm.shape e he
        -- this entry's access secret is ours only if it is our record, which is not expired;
        -- its refresh secret is odd, ours is even
        have h1 : s.now > e.2.aexp → e.2.a ≠ a := by
          intro hexp e1
          have := hm.ident e he (a, tk) hmem (by simp only; rw [e1, ha])
          simp only at this
          rw [this] at hexp
          omega
        have h2 : e.2.r ≠ a := by omega
        unfold sweepStep
        simp only
        by_cases c1 : s.now > e.2.aexp
        · simp only [c1, if_true]
          by_cases c2 : s.now > e.2.rexp
          · simp only [c2, if_true]
            rw [tget_tdel_ne _ _ _ (fun x => h2 x.symm), tget_tdel_ne _ _ _ (fun x => h1 c1 x.symm)]; exact h
          · simp only [c2, if_false]
            rw [tget_tdel_ne _ _ _ (fun x => h1 c1 x.symm)]; exact h
        · simp only [c1, if_false]
          by_cases c2 : s.now > e.2.rexp
          · simp only [c2, if_true]
            rw [tget_tdel_ne _ _ _ (fun x => h2 x.symm)]; exact h
          · simp only [c2, if_false]; exact h
    exact fold s.t s.t (fun _ h => h) hg
  | tick d => exact hg

theorem valid_survives (cfg : Cfg) (a : Nat) (tk : Tok) (ha : tk.a = a) (ops : List TokOp) :
    ∀ s : TState, TM s.t s.next → tget s.t a = some tk → (∀ op ∈ ops, op ≠ .refresh tk.r) →
      (s.run cfg ops).now < tk.aexp → tget (s.run cfg ops).t a = some tk := by
  induction ops with
  | nil => intro s _ hg _ _; exact hg
  | cons op ops ih =>
    intro s hm hg hops hfin
    have hnow : s.now < tk.aexp := by
      have h1 := step_now_mono cfg s op
      have h2 := run_now_mono cfg ops (s.step cfg op)
      have : (s.run cfg (op :: ops)).now = ((s.step cfg op).run cfg ops).now := rfl
      rw [this] at hfin
      omega
    exact ih (s.step cfg op) (hm.step cfg s op)
      (valid_survives_step cfg s hm a tk hg ha hnow op (hops op (List.mem_cons_self ..)))
      (fun o ho => hops o (List.mem_cons_of_mem _ ho)) hfin

end IpcHub.Auth
