/-
C06 at the level of `Demuxer.process` (`demuxRun`): video packets, audio packets (their own RTP
stream, their own sequence numbers) and nothing else arrive in ANY interleaving — an audio packet
may sit between two fragments of a video unit.  The frames handed on, projected on the media
type, are those of the video depacketizer run on the video packets alone and of the AAC
depacketizer on every audio packet: the two streams do not disturb each other.
-/
import IpcHub.Lemmas.ContainTotal
import IpcHub.Lemmas.DepackRound265
namespace IpcHub.DepackDemux
open IpcHub.Depack IpcHub.Packetise IpcHub.DepackRound

def AllVideo (fs : List Frame) : Prop := ∀ f ∈ fs, f.audio = false

theorem AllVideo.nil : AllVideo [] := by intro f hf; cases hf

theorem AllVideo.append {a b : List Frame} (ha : AllVideo a) (hb : AllVideo b) : AllVideo (a ++ b) := by
  intro f hf
  rcases List.mem_append.mp hf with h | h
  · exact ha f h
  · exact hb f h

theorem h264WriteFrame_video (cfg : Cfg) (ok : Bytes → Bool) (st : VSt) (ts : UInt32) (p : Bytes) :
    AllVideo (h264WriteFrame cfg ok st ts p).out := by
  cases p with
  | nil => simp [h264WriteFrame, AllVideo]
  | cons b bs =>
    simp only [h264WriteFrame]
    (repeat' split) <;> simp [AllVideo]

theorem h265WriteFrame_video (cfg : Cfg) (ok : Bytes → Bool) (st : VSt) (ts : UInt32) (p : Bytes) :
    AllVideo (h265WriteFrame cfg ok st ts p).out := by
  cases p with
  | nil => simp [h265WriteFrame, AllVideo]
  | cons b bs =>
    simp only [h265WriteFrame]
    (repeat' split) <;> simp [AllVideo]

theorem stapaLoop_video (cfg : Cfg) (ok : Bytes → Bool) (hdr : UInt8) (ts : UInt32) :
    ∀ (fuel : Nat) (st : VSt) (rest : Bytes) (acc : List Frame), AllVideo acc →
      AllVideo (stapaLoop cfg ok hdr ts fuel st rest acc).out := by
  intro fuel
  induction fuel with
  | zero => intro st rest acc h; simpa [stapaLoop] using h
  | succ fuel ih =>
    intro st rest acc hacc
    match rest with
    | [] => simp only [stapaLoop]; split <;> exact hacc
    | [_] => simp only [stapaLoop]; split <;> exact hacc
    | hi :: lo :: tl =>
      simp only [stapaLoop]
      split
      · exact hacc
      · split
        · exact hacc
        · have hw := h264WriteFrame_video cfg ok st ts
            (if cfg.stapaRewritesNri = true then rewriteNri hdr (tl.take (be16 hi lo) ++ List.replicate (be16 hi lo - tl.length) 0)
              else tl.take (be16 hi lo) ++ List.replicate (be16 hi lo - tl.length) 0)
          split
          · split
            · exact hacc.append hw
            · exact ih _ _ _ (hacc.append hw)
          · exact hacc.append hw

theorem apLoop_video (cfg : Cfg) (ok : Bytes → Bool) (ts : UInt32) :
    ∀ (fuel : Nat) (st : VSt) (rest : Bytes) (acc : List Frame), AllVideo acc →
      AllVideo (apLoop cfg ok ts fuel st rest acc).out := by
  intro fuel
  induction fuel with
  | zero => intro st rest acc h; simpa [apLoop] using h
  | succ fuel ih =>
    intro st rest acc hacc
    match rest with
    | [] => simp only [apLoop]; split <;> exact hacc
    | [_] => simp only [apLoop]; split <;> exact hacc
    | hi :: lo :: tl =>
      simp only [apLoop]
      split
      · exact hacc
      · split
        · exact hacc
        · have hw := h265WriteFrame_video cfg ok st ts (tl.take (be16 hi lo) ++ List.replicate (be16 hi lo - tl.length) 0)
          split
          · split
            · exact hacc.append hw
            · exact ih _ _ _ (hacc.append hw)
          · exact hacc.append hw

/-- a video depacketizer hands on video frames only -/
theorem vStep_video (cfg : Cfg) (ok : Bytes → Bool) (c : VCodec) (st : VSt) (p : Pkt) :
    AllVideo (vStep cfg ok c st p).out := by
  cases c with
  | h264 =>
    simp only [vStep, h264Step]
    split
    · exact AllVideo.nil
    · match hp : p.payload with
      | [] => exact AllVideo.nil
      | b0 :: rest =>
        simp only
        split
        · apply h264WriteFrame_video
        · split
          · simp only [h264Stapa, hp]; exact stapaLoop_video cfg ok b0 p.ts _ _ _ _ AllVideo.nil
          · split
            · simp only [h264FuA]
              (repeat' split) <;> first | exact AllVideo.nil | apply h264WriteFrame_video
            · exact AllVideo.nil
  | h265 =>
    simp only [vStep, h265Step]
    split
    · exact AllVideo.nil
    · match hp : p.payload with
      | [] => exact AllVideo.nil
      | b0 :: rest =>
        simp only
        split
        · cases rest with
          | nil =>
            simp only [h265Ap, hp]
            split <;> exact AllVideo.nil
          | cons b1 rest' =>
            simp only [h265Ap, hp]
            exact apLoop_video cfg ok p.ts _ _ _ _ AllVideo.nil
        · split
          · simp only [h265Fu]
            (repeat' split) <;> first | exact AllVideo.nil | apply h265WriteFrame_video
          · apply h265WriteFrame_video

/-- the packets of the video RTP stream among what the demuxer pops -/
def vidOf : List In → List Pkt
  | [] => []
  | .video p :: r => p :: vidOf r
  | _ :: r => vidOf r

/-- the packets of the audio RTP stream -/
def audOf : List In → List Pkt
  | [] => []
  | .audio p :: r => p :: audOf r
  | _ :: r => audOf r

/-- no RTCP packet (a sender report re-bases the clock: open finding `sr-rebase`) -/
def noCtl : List In → Bool
  | [] => true
  | .video _ :: r => noCtl r
  | .audio _ :: r => noCtl r
  | _ :: _ => false

theorem filter_video_self {fs : List Frame} (h : AllVideo fs) : fs.filter (fun f => !f.audio) = fs := by
  apply List.filter_eq_self.mpr
  intro f hf; simp [h f hf]

theorem filter_video_audio {fs : List Frame} (h : ∀ f ∈ fs, f.audio = true) : fs.filter (fun f => !f.audio) = [] := by
  apply List.filter_eq_nil_iff.mpr
  intro f hf; simp [h f hf]

theorem filter_audio_self {fs : List Frame} (h : ∀ f ∈ fs, f.audio = true) : fs.filter (fun f => f.audio) = fs := by
  apply List.filter_eq_self.mpr
  intro f hf; simp [h f hf]

theorem filter_audio_video {fs : List Frame} (h : AllVideo fs) : fs.filter (fun f => f.audio) = [] := by
  apply List.filter_eq_nil_iff.mpr
  intro f hf; simp [h f hf]

theorem vStep_benign (cfg : Cfg) (hc : SafeCfg cfg) (ok : Bytes → Bool) (c : VCodec) (st : VSt) (p : Pkt) :
    (vStep cfg ok c st p).status ≠ .panic := by
  have : Status.benign (vStep cfg ok c st p).status := by
    unfold vStep; cases c
    · exact h264Step_benign cfg hc ok st p
    · exact h265Step_benign cfg hc ok st p
  intro h; rw [h] at this; exact this

/-- the video frames of a demuxer run are the frames of the video depacketizer on the video
    packets alone, whatever audio packets arrive in between -/
theorem demuxRun_video (cfg : Cfg) (hc : SafeCfg cfg) (ok : Bytes → Bool) :
    ∀ (ins : List In) (d : DemuxSt), d.alive = true → noCtl ins = true →
      (demuxRun cfg ok d ins).2.filter (fun f => !f.audio) = (vRun cfg ok d.codec d.v (vidOf ins)).2.1 := by
  intro ins
  induction ins with
  | nil => intro d _ _; simp [demuxRun, vidOf, vRun]
  | cons i is ih =>
    intro d ha hn
    cases i with
    | video p =>
      have hnp := vStep_benign cfg hc ok d.codec d.v p
      have hal : ((vStep cfg ok d.codec d.v p).status != Status.panic) = true := by
        simpa using hnp
      simp only [noCtl] at hn
      simp only [demuxRun, demuxStep, ha, Bool.not_true, Bool.false_eq_true, if_false, vidOf, vRun, hnp,
        List.filter_append, filter_video_self (vStep_video cfg ok d.codec d.v p)]
      rw [ih _ (by simpa using hal) hn]
    | audio p =>
      simp only [noCtl] at hn
      simp only [demuxRun, demuxStep, ha, Bool.not_true, Bool.false_eq_true, if_false, vidOf]
      by_cases haac : d.hasAac = true
      · have hal : ((aacStep cfg d.abase p).2 != Status.panic) = true :=
          benign_ne_panic (aacStep_benign cfg hc.aac d.abase p)
        simp only [haac, if_true, List.filter_append, filter_video_audio (aacStep_audio cfg d.abase p), List.nil_append]
        rw [ih _ (by simpa using hal) hn]
      · simp only [haac, Bool.false_eq_true, if_false, List.nil_append]
        rw [ih _ ha hn]
    | vctl data => simp [noCtl] at hn
    | actl data => simp [noCtl] at hn

/-- the audio frames of a demuxer run are those of the AAC depacketizer on every audio packet, in
    arrival order, whatever video packets arrive in between -/
theorem demuxRun_audio (cfg : Cfg) (hc : SafeCfg cfg) (ok : Bytes → Bool) :
    ∀ (ins : List In) (d : DemuxSt), d.alive = true → d.hasAac = true → noCtl ins = true →
      (demuxRun cfg ok d ins).2.filter (fun f => f.audio) = (audOf ins).flatMap (fun p => (aacStep cfg d.abase p).1) := by
  intro ins
  induction ins with
  | nil => intro d _ _ _; simp [demuxRun, audOf]
  | cons i is ih =>
    intro d ha haac hn
    cases i with
    | video p =>
      have hnp := vStep_benign cfg hc ok d.codec d.v p
      have hal : ((vStep cfg ok d.codec d.v p).status != Status.panic) = true := by
        simpa using hnp
      simp only [noCtl] at hn
      simp only [demuxRun, demuxStep, ha, Bool.not_true, Bool.false_eq_true, if_false, audOf,
        List.filter_append, filter_audio_video (vStep_video cfg ok d.codec d.v p), List.nil_append]
      exact ih _ hal haac hn
    | audio p =>
      have hal : ((aacStep cfg d.abase p).2 != Status.panic) = true :=
        benign_ne_panic (aacStep_benign cfg hc.aac d.abase p)
      simp only [noCtl] at hn
      simp only [demuxRun, demuxStep, ha, Bool.not_true, Bool.false_eq_true, if_false, haac, if_true, audOf,
        List.filter_append, filter_audio_self (aacStep_audio cfg d.abase p), List.flatMap_cons]
      congr 1
      exact ih _ hal rfl hn
    | vctl data => simp [noCtl] at hn
    | actl data => simp [noCtl] at hn

theorem flatMap_congr' {α β : Type} {l : List α} {f g : α → List β} (h : ∀ a ∈ l, f a = g a) :
    l.flatMap f = l.flatMap g := by
  induction l with
  | nil => rfl
  | cons a l ih =>
    simp only [List.flatMap_cons]
    rw [h a (List.mem_cons_self ..), ih (fun x hx => h x (List.mem_cons_of_mem _ hx))]

end IpcHub.DepackDemux
