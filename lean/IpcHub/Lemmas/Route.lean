/- helper lemmas for C17 (route resolution): prefixes, the Match loop, the specification -/
import IpcHub.Model.Route
import IpcHub.Spec.RouteMatch
namespace IpcHub.Route
open IpcHub.RouteSpec IpcHub.Tables

theorem isPrefix_iff (a p : List Char) : isPrefix a p = true ↔ ∃ r, p = a ++ r := by
  induction a generalizing p with
  | nil => simp [isPrefix]
  | cons x xs ih =>
    cases p with
    | nil => simp [isPrefix]
    | cons y ys =>
      simp only [isPrefix, Bool.and_eq_true, decide_eq_true_eq, ih, List.cons_append, List.cons.injEq]
      constructor
      · rintro ⟨rfl, r, rfl⟩; exact ⟨r, rfl, rfl⟩
      · rintro ⟨r, rfl, rfl⟩; exact ⟨rfl, r, rfl⟩

theorem isPrefix_eq_of_length {a b p : List Char} (ha : isPrefix a p = true) (hb : isPrefix b p = true)
    (hl : a.length = b.length) : a = b := by
  obtain ⟨r, rfl⟩ := (isPrefix_iff a p).1 ha
  obtain ⟨r', h⟩ := (isPrefix_iff b _).1 hb
  exact (List.append_inj h hl).1

theorem take_eq_iff_prefix (k path : List Char) :
    (decide (path.length ≥ k.length) && path.take k.length == k) = isPrefix k path := by
  rw [Bool.eq_iff_iff]
  simp only [Bool.and_eq_true, decide_eq_true_eq, beq_iff_eq, isPrefix_iff]
  constructor
  · rintro ⟨_, h⟩
    refine ⟨path.drop k.length, ?_⟩
    have := List.take_append_drop k.length path
    rw [h] at this; exact this.symm
  · rintro ⟨r, rfl⟩
    simp
/-- the loop started with a candidate in hand ends with a candidate at least as long as
    every matching key it saw -/
theorem matchLoop_some (path : List Char) : ∀ (m : List (Key × Route)) (v0 : Route) (k0 : Key),
    ∃ k v, matchLoop path m (some v0) k0.length = (some v, k.length) ∧
      ((k, v) = (k0, v0) ∨ ((k, v) ∈ m ∧ pathMatch k path = true)) ∧ k0.length ≤ k.length ∧
      ∀ kv ∈ m, pathMatch kv.1 path = true → kv.1.length ≤ k.length := by
  intro m
  induction m with
  | nil => intro v0 k0; exact ⟨k0, v0, by simp [matchLoop], Or.inl rfl, Nat.le_refl _, by simp⟩
  | cons kv rest ih =>
    intro v0 k0
    obtain ⟨k1, v1⟩ := kv
    by_cases hm : pathMatch k1 path = true
    · by_cases hl : k1.length > k0.length
      · obtain ⟨k, v, he, hmem, hle, hall⟩ := ih v1 k1
        refine ⟨k, v, by simp [matchLoop, hm, hl, he], ?_, by omega, ?_⟩
        · rcases hmem with h | ⟨h, hp⟩
          · right; cases h; exact ⟨List.mem_cons_self, hm⟩
          · right; exact ⟨List.mem_cons_of_mem _ h, hp⟩
        · intro kv hkv hp
          rcases List.mem_cons.1 hkv with rfl | h
          · exact hle
          · exact hall kv h hp
      · obtain ⟨k, v, he, hmem, hle, hall⟩ := ih v0 k0
        refine ⟨k, v, by simp [matchLoop, hm, hl, he], ?_, hle, ?_⟩
        · rcases hmem with h | ⟨h, hp⟩
          · left; exact h
          · right; exact ⟨List.mem_cons_of_mem _ h, hp⟩
        · intro kv hkv hp
          rcases List.mem_cons.1 hkv with rfl | h
          · simp at hl ⊢; omega
          · exact hall kv h hp
    · obtain ⟨k, v, he, hmem, hle, hall⟩ := ih v0 k0
      refine ⟨k, v, by simp [matchLoop, hm, he], ?_, hle, ?_⟩
      · rcases hmem with h | ⟨h, hp⟩
        · left; exact h
        · right; exact ⟨List.mem_cons_of_mem _ h, hp⟩
      · intro kv hkv hp
        rcases List.mem_cons.1 hkv with rfl | h
        · exact absurd hp hm
        · exact hall kv h hp

/-- the loop as Match starts it -/
theorem matchLoop_none (path : List Char) : ∀ (m : List (Key × Route)),
    ((matchLoop path m none 0).1 = none ∧ ∀ kv ∈ m, pathMatch kv.1 path = false) ∨
    ∃ k v, (matchLoop path m none 0).1 = some v ∧ (k, v) ∈ m ∧ pathMatch k path = true ∧
      ∀ kv ∈ m, pathMatch kv.1 path = true → kv.1.length ≤ k.length := by
  intro m
  induction m with
  | nil => left; simp [matchLoop]
  | cons kv rest ih =>
    obtain ⟨k1, v1⟩ := kv
    by_cases hm : pathMatch k1 path = true
    · right
      obtain ⟨k, v, he, hmem, hle, hall⟩ := matchLoop_some path rest v1 k1
      refine ⟨k, v, by simp [matchLoop, hm, he], ?_, ?_, ?_⟩
      · rcases hmem with h | ⟨h, _⟩
        · cases h; exact List.mem_cons_self
        · exact List.mem_cons_of_mem _ h
      · rcases hmem with h | ⟨_, hp⟩
        · cases h; exact hm
        · exact hp
      · intro kv hkv hp
        rcases List.mem_cons.1 hkv with rfl | h
        · exact hle
        · exact hall kv h hp
    · rcases ih with ⟨hn, hall⟩ | ⟨k, v, he, hmem, hp, hall⟩
      · left
        refine ⟨by simpa [matchLoop, hm] using hn, ?_⟩
        intro kv hkv
        rcases List.mem_cons.1 hkv with rfl | h
        · simpa using hm
        · exact hall kv h
      · right
        refine ⟨k, v, by simpa [matchLoop, hm] using he, List.mem_cons_of_mem _ hmem, hp, ?_⟩
        intro kv hkv hp'
        rcases List.mem_cons.1 hkv with rfl | h
        · exact absurd hp' hm
        · exact hall kv h hp'

theorem isDir_iff (k : List Char) : isDir k = true ↔ k.getLast? = some '/' := by simp [isDir]

theorem pathMatch_of_dir {k path : List Char} (hd : isDir k = true) : pathMatch k path = isPrefix k path := by
  have hne : k.length ≠ 0 := by
    intro h; have : k = [] := List.length_eq_zero_iff.1 h; subst this; simp [isDir] at hd
  have hd' : k.getLast? = some '/' := (isDir_iff k).1 hd
  unfold pathMatch
  simp only [hne, if_false, hd', ne_eq, not_true_eq_false]
  exact take_eq_iff_prefix k path

theorem pathMatch_of_nondir {k path : List Char} (hd : isDir k = false) : pathMatch k path = true → k = path := by
  have hd' : ¬ k.getLast? = some '/' := by simpa [isDir] using hd
  unfold pathMatch
  split
  · simp
  · simp

/-- `t.m[k]` is the list entry with that pattern -/
theorem lookup_eq_find (cfg : Cfg) (k : Key) : ∀ (m : List (Key × Route)),
    (∀ kv ∈ m, (routeOps cfg).key kv.2 = kv.1) → lookup k m = (m.map (·.2)).find? (fun r => r.pattern = k) := by
  intro m
  induction m with
  | nil => intro _; rfl
  | cons kv rest ih =>
    intro h
    obtain ⟨k1, v1⟩ := kv
    have h1 : v1.pattern = k1 := h (k1, v1) List.mem_cons_self
    have hr := ih (fun kv hkv => h kv (List.mem_cons_of_mem _ hkv))
    by_cases hk : k1 = k
    · simp [lookup, hk, h1]
    · simp [lookup, hk, h1, hr]

theorem lookup_none_not_mem {k : Key} : ∀ {m : List (Key × Route)}, lookup k m = none → ∀ kv ∈ m, kv.1 ≠ k := by
  intro m
  induction m with
  | nil => intro _ kv h; cases h
  | cons kv rest ih =>
    obtain ⟨k1, v1⟩ := kv
    intro h kv hkv
    by_cases hk : k1 = k
    · simp [lookup, hk] at h
    · simp [lookup, hk] at h
      rcases List.mem_cons.1 hkv with rfl | h'
      · exact hk
      · exact ih h kv h'

theorem nodup_keys_unique : ∀ {m : List (Key × Route)}, (m.map (·.1)).Nodup →
    ∀ {k : Key} {v v' : Route}, (k, v) ∈ m → (k, v') ∈ m → v = v' := by
  intro m
  induction m with
  | nil => intro _ k v v' h; cases h
  | cons kv rest ih =>
    intro hnd k v v' h1 h2
    simp only [List.map_cons, List.nodup_cons] at hnd
    rcases List.mem_cons.1 h1 with e1 | m1 <;> rcases List.mem_cons.1 h2 with e2 | m2
    · rw [← e1] at e2; cases e2; rfl
    · exfalso; apply hnd.1; rw [← e1]; exact List.mem_map_of_mem (f := (·.1)) m2
    · exfalso; apply hnd.1; rw [← e2]; exact List.mem_map_of_mem (f := (·.1)) m1
    · exact ih hnd.2 m1 m2


theorem mem_candidates {t : List Route} {cp : List Char} {r : Route} :
    r ∈ candidates t cp ↔ r ∈ t ∧ isDir r.pattern = true ∧ isPrefix r.pattern cp = true := by
  simp [candidates, List.mem_filter]

theorem longest_of_max {cs : List Route} {r : Route} (hr : r ∈ cs)
    (hmax : ∀ r' ∈ cs, r'.pattern.length ≤ r.pattern.length) :
    ∃ r0, longest cs = some r0 ∧ r0 ∈ cs ∧ ∀ r' ∈ cs, r'.pattern.length ≤ r0.pattern.length := by
  unfold longest
  cases h : cs.find? (fun r => cs.all (fun r' => decide (r'.pattern.length ≤ r.pattern.length))) with
  | none =>
    rw [List.find?_eq_none] at h
    exact absurd (by simpa using hmax) (h r hr)
  | some r0 =>
    refine ⟨r0, rfl, List.mem_of_find?_eq_some h, ?_⟩
    have := List.find?_some h
    simpa using this

theorem longest_none {cs : List Route} (h : longest cs = none) : cs = [] := by
  cases cs with
  | nil => rfl
  | cons c rest =>
    exfalso
    -- a non-empty list has an element of maximal pattern length
    have hex : ∀ (l : List Route), l ≠ [] → ∃ r ∈ l, ∀ r' ∈ l, r'.pattern.length ≤ r.pattern.length := by
      intro l
      induction l with
      | nil => intro h; exact absurd rfl h
      | cons a as ih =>
        intro _
        by_cases has : as = []
        · subst has; exact ⟨a, List.mem_cons_self, by simp⟩
        · obtain ⟨r, hr, hm⟩ := ih has
          by_cases hc : r.pattern.length ≤ a.pattern.length
          · refine ⟨a, List.mem_cons_self, ?_⟩
            intro r' hr'
            rcases List.mem_cons.1 hr' with rfl | h'
            · exact Nat.le_refl _
            · exact Nat.le_trans (hm r' h') hc
          · refine ⟨r, List.mem_cons_of_mem _ hr, ?_⟩
            intro r' hr'
            rcases List.mem_cons.1 hr' with rfl | h'
            · omega
            · exact hm r' h'
    obtain ⟨r, hr, hm⟩ := hex (c :: rest) (by simp)
    obtain ⟨r0, h0, _⟩ := longest_of_max hr hm
    rw [h] at h0; cases h0

theorem joinURL_eq (cfg : Cfg) (r : Route) (path : List Char)
    (hd : isDir r.pattern = true) (hp : isPrefix r.pattern path = true)
    (hu : cfg.urlGuard = true ∨ r.url ≠ []) :
    joinURL cfg r path = some (joinSpec r.url (path.drop r.pattern.length)) := by
  obtain ⟨rest, hrest⟩ := (isPrefix_iff _ _).1 hp
  obtain ⟨pre, hpre⟩ := List.getLast?_eq_some_iff.1 ((isDir_iff _).1 hd)
  have hlen : r.pattern.length ≤ path.length := by rw [hrest]; simp
  have h1 : ¬ (r.url = [] ∧ (!cfg.urlGuard) = true) := by
    rintro ⟨h, hg⟩; rcases hu with hu | hu
    · simp [hu] at hg
    · exact hu h
  unfold joinURL joinSpec
  rw [if_neg h1]
  by_cases hs : r.url.getLast? = some '/'
  · obtain ⟨upre, hupre⟩ := List.getLast?_eq_some_iff.1 hs
    simp only [hs, if_true, hlen]
    rw [hupre]; simp
  · simp only [hs, if_false]
    have hl1 : 1 ≤ r.pattern.length ∧ r.pattern.length - 1 ≤ path.length := by
      rw [hpre] at hlen ⊢; simp at hlen ⊢; omega
    rw [if_pos hl1]
    congr 1
    rw [hrest, hpre]
    simp [List.drop_append]

/-- Match (whatever order the map is visited in) agrees with the specification applied to the
    map's entries -/
theorem match_eq_resolve_map (cfg : Cfg) (s : State Route) (p : List Char)
    (hnd : (s.m.map (·.1)).Nodup) (hkeyed : ∀ kv ∈ s.m, (routeOps cfg).key kv.2 = kv.1)
    (hcp : canon cfg p ≠ [])
    (hu : cfg.urlGuard = true ∨ ∀ kv ∈ s.m, kv.2.url ≠ []) :
    (matchImpl cfg s p).1 = outOf (resolve cfg (s.m.map (·.2)) p) := by
  unfold matchImpl resolve
  simp only [hcp, if_false]
  by_cases hdir : (canon cfg p).getLast? = some '/'
  · simp [hdir, isDir, outOf]
  · have hdir' : isDir (canon cfg p) = false := by simpa [isDir] using hdir
    simp only [hdir, if_false, hdir', Bool.false_eq_true]
    rw [← lookup_eq_find cfg _ s.m hkeyed]
    cases hl : lookup (canon cfg p) s.m with
    | some r => simp [outOf]
    | none =>
      simp only
      have hnoexact := lookup_none_not_mem hl
      -- in this branch pathMatch means: directory pattern that is a prefix
      have hpm : ∀ kv ∈ s.m, pathMatch kv.1 (canon cfg p) = true →
          isDir kv.1 = true ∧ isPrefix kv.1 (canon cfg p) = true := by
        intro kv hkv hm
        cases hd : isDir kv.1 with
        | true => exact ⟨rfl, by rw [← pathMatch_of_dir hd]; exact hm⟩
        | false => exact absurd (pathMatch_of_nondir hd hm) (hnoexact kv hkv)
      rcases matchLoop_none (canon cfg p) s.m with ⟨hn, hall⟩ | ⟨k, v, he, hmem, hp, hall⟩
      · rw [hn]
        have : candidates (s.m.map (·.2)) (canon cfg p) = [] := by
          apply List.eq_nil_iff_forall_not_mem.2
          intro r hr
          obtain ⟨hrt, hd, hpre⟩ := mem_candidates.1 hr
          obtain ⟨kv, hkv, rfl⟩ := List.mem_map.1 hrt
          have hk := hkeyed kv hkv
          simp only [routeOps] at hk
          have := hall kv hkv
          rw [← hk, pathMatch_of_dir hd, hpre] at this
          cases this
        simp [this, longest, outOf]
      · rw [he]
        obtain ⟨hd, hpre⟩ := hpm (k, v) hmem hp
        have hkv : v.pattern = k := hkeyed (k, v) hmem
        have hvc : v ∈ candidates (s.m.map (·.2)) (canon cfg p) := by
          apply mem_candidates.2
          exact ⟨List.mem_map.2 ⟨(k, v), hmem, rfl⟩, by rw [hkv]; exact hd, by rw [hkv]; exact hpre⟩
        have hvmax : ∀ r' ∈ candidates (s.m.map (·.2)) (canon cfg p), r'.pattern.length ≤ v.pattern.length := by
          intro r' hr'
          obtain ⟨hrt, hd', hpre'⟩ := mem_candidates.1 hr'
          obtain ⟨kv, hkv', rfl⟩ := List.mem_map.1 hrt
          have hk := hkeyed kv hkv'
          simp only [routeOps] at hk
          rw [hkv, hk]
          apply hall kv hkv'
          rw [← hk, pathMatch_of_dir hd']; exact hpre'
        obtain ⟨r0, h0, hr0, hmax0⟩ := longest_of_max hvc hvmax
        -- the longest candidate is unique
        have hr0v : r0 = v := by
          obtain ⟨hrt, hd0, hpre0⟩ := mem_candidates.1 hr0
          obtain ⟨kv0, hkv0, rfl⟩ := List.mem_map.1 hrt
          have hk0 := hkeyed kv0 hkv0
          simp only [routeOps] at hk0
          have hlen : kv0.2.pattern.length = v.pattern.length :=
            Nat.le_antisymm (hvmax _ hr0) (hmax0 _ hvc)
          have hpat : kv0.2.pattern = v.pattern := isPrefix_eq_of_length hpre0 (by rw [hkv]; exact hpre) hlen
          have : kv0 = (k, kv0.2) := by
            obtain ⟨a, b⟩ := kv0
            simp only at hk0 hpat ⊢
            rw [← hk0, hpat, hkv]
          rw [this] at hkv0
          exact nodup_keys_unique hnd hkv0 hmem
        rw [h0, hr0v]
        have hj := joinURL_eq cfg v (canon cfg p) (by rw [hkv]; exact hd) (by rw [hkv]; exact hpre)
          (by rcases hu with h | h
              · exact Or.inl h
              · exact Or.inr (h (k, v) hmem))
        simp only [hj, outOf]

/-- Match agrees with the specification on every well-formed table -/
theorem match_eq_resolve (cfg : Cfg) (s : State Route) (p : List Char)
    (hwf : WF (routeOps cfg) s) (hcp : canon cfg p ≠ [])
    (hu : cfg.urlGuard = true ∨ ∀ kv ∈ s.m, kv.2.url ≠ []) :
    (matchImpl cfg s p).1 = outOf (resolve cfg s.l p) := by
  rw [hwf.list]; exact match_eq_resolve_map cfg s p hwf.nodup hwf.keyed hcp hu

/-- `find?` does not depend on the order when at most one element qualifies -/
theorem find?_perm_unique {α : Type} {q : α → Bool} {l1 l2 : List α} (hp : l1.Perm l2)
    (hu : ∀ a ∈ l1, ∀ b ∈ l1, q a = true → q b = true → a = b) : l1.find? q = l2.find? q := by
  cases h1 : l1.find? q with
  | none =>
    rw [List.find?_eq_none] at h1
    symm; rw [List.find?_eq_none]
    intro x hx; exact h1 x (hp.mem_iff.2 hx)
  | some a =>
    have ha := List.mem_of_find?_eq_some h1
    have hqa := List.find?_some h1
    cases h2 : l2.find? q with
    | none =>
      rw [List.find?_eq_none] at h2
      exact absurd hqa (h2 a (hp.mem_iff.1 ha))
    | some b =>
      have hb := hp.mem_iff.2 (List.mem_of_find?_eq_some h2)
      rw [hu a ha b hb hqa (List.find?_some h2)]

theorem nodup_map_inj {α β : Type} {f : α → β} : ∀ {l : List α}, (l.map f).Nodup →
    ∀ {a b : α}, a ∈ l → b ∈ l → f a = f b → a = b := by
  intro l
  induction l with
  | nil => intro _ a b h; cases h
  | cons x xs ih =>
    intro hnd a b ha hb hab
    simp only [List.map_cons, List.nodup_cons] at hnd
    rcases List.mem_cons.1 ha with rfl | ha' <;> rcases List.mem_cons.1 hb with rfl | hb'
    · rfl
    · exfalso; apply hnd.1; rw [hab]; exact List.mem_map_of_mem hb'
    · exfalso; apply hnd.1; rw [← hab]; exact List.mem_map_of_mem ha'
    · exact ih hnd.2 ha' hb' hab

/-- the specification does not depend on the order of the table (patterns distinct) -/
theorem resolve_perm (cfg : Cfg) {t1 t2 : List Route} (hp : t1.Perm t2)
    (hnd : (t1.map (·.pattern)).Nodup) (p : List Char) : resolve cfg t1 p = resolve cfg t2 p := by
  have huniq : ∀ a ∈ t1, ∀ b ∈ t1, a.pattern = b.pattern → a = b := by
    intro a ha b hb hab
    exact nodup_map_inj hnd ha hb hab
  unfold resolve
  simp only
  split
  · rfl
  · have hf : t1.find? (fun r => decide (r.pattern = canon cfg p)) = t2.find? (fun r => decide (r.pattern = canon cfg p)) := by
      apply find?_perm_unique hp
      intro a ha b hb h1 h2
      apply huniq a ha b hb
      simp at h1 h2; rw [h1, h2]
    rw [hf]
    have hc : (candidates t1 (canon cfg p)).Perm (candidates t2 (canon cfg p)) := hp.filter _
    have hl : longest (candidates t1 (canon cfg p)) = longest (candidates t2 (canon cfg p)) := by
      cases h1 : longest (candidates t1 (canon cfg p)) with
      | none =>
        have := longest_none h1
        rw [this] at hc
        rw [← hc.nil_eq]; rfl
      | some r1 =>
        have hr1 : r1 ∈ candidates t1 (canon cfg p) := List.mem_of_find?_eq_some h1
        have hm1 : ∀ r' ∈ candidates t1 (canon cfg p), r'.pattern.length ≤ r1.pattern.length := by
          have := List.find?_some h1; simpa using this
        obtain ⟨r2, h2, hr2, hm2⟩ := longest_of_max (hc.mem_iff.1 hr1) (fun r' hr' => hm1 r' (hc.mem_iff.2 hr'))
        rw [h2]
        have hlen : r1.pattern.length = r2.pattern.length :=
          Nat.le_antisymm (hm2 _ (hc.mem_iff.1 hr1)) (hm1 _ (hc.mem_iff.2 hr2))
        obtain ⟨ht1, _, hp1⟩ := mem_candidates.1 hr1
        obtain ⟨ht2, _, hp2⟩ := mem_candidates.1 (hc.mem_iff.2 hr2)
        rw [huniq r1 ht1 r2 ht2 (isPrefix_eq_of_length hp1 hp2 hlen)]
    rw [hl]

/-! the specification, clause by clause -/

theorem resolve_trailing_slash (cfg : Cfg) (t : List Route) (p : List Char)
    (h : (canon cfg p).getLast? = some '/') : resolve cfg t p = none := by
  unfold resolve; simp [isDir, h]

theorem resolve_exact (cfg : Cfg) (t : List Route) (p : List Char)
    (hnd : (t.map (·.pattern)).Nodup) (h : (canon cfg p).getLast? ≠ some '/')
    (r : Route) (hr : r ∈ t) (hp : r.pattern = canon cfg p) : resolve cfg t p = some r := by
  unfold resolve
  simp only [isDir, decide_eq_true_eq, h, if_false]
  cases hf : t.find? (fun r => decide (r.pattern = canon cfg p)) with
  | none =>
    rw [List.find?_eq_none] at hf
    exact absurd (by simpa using hp) (hf r hr)
  | some r' =>
    have h1 := List.mem_of_find?_eq_some hf
    have h2 := List.find?_some hf
    simp at h2
    rw [nodup_map_inj hnd h1 hr (by rw [h2, hp])]

theorem resolve_directory (cfg : Cfg) (t : List Route) (p : List Char)
    (hnd : (t.map (·.pattern)).Nodup) (h : (canon cfg p).getLast? ≠ some '/')
    (hno : ∀ r ∈ t, r.pattern ≠ canon cfg p)
    (r : Route) (hr : r ∈ t) (hd : r.pattern.getLast? = some '/') (hpre : isPrefix r.pattern (canon cfg p) = true)
    (hmax : ∀ r' ∈ t, r'.pattern.getLast? = some '/' → isPrefix r'.pattern (canon cfg p) = true →
      r'.pattern.length ≤ r.pattern.length) :
    resolve cfg t p = some { pattern := canon cfg p
                             url := joinSpec r.url ((canon cfg p).drop r.pattern.length)
                             keepAlive := r.keepAlive } := by
  unfold resolve
  simp only [isDir, decide_eq_true_eq, h, if_false]
  have hf : t.find? (fun r => decide (r.pattern = canon cfg p)) = none := by
    rw [List.find?_eq_none]; intro x hx; simpa using hno x hx
  rw [hf]
  simp only
  have hrc : r ∈ candidates t (canon cfg p) := mem_candidates.2 ⟨hr, by simp [isDir, hd], hpre⟩
  have hrmax : ∀ r' ∈ candidates t (canon cfg p), r'.pattern.length ≤ r.pattern.length := by
    intro r' hr'
    obtain ⟨h1, h2, h3⟩ := mem_candidates.1 hr'
    exact hmax r' h1 ((isDir_iff _).1 h2) h3
  obtain ⟨r0, h0, hr0, hm0⟩ := longest_of_max hrc hrmax
  obtain ⟨h1, _, h3⟩ := mem_candidates.1 hr0
  have hlen : r0.pattern.length = r.pattern.length := Nat.le_antisymm (hrmax _ hr0) (hm0 _ hrc)
  rw [h0, nodup_map_inj hnd h1 hr (isPrefix_eq_of_length h3 hpre hlen)]

theorem resolve_nothing (cfg : Cfg) (t : List Route) (p : List Char)
    (hno : ∀ r ∈ t, r.pattern ≠ canon cfg p)
    (hnod : ∀ r ∈ t, ¬ (r.pattern.getLast? = some '/' ∧ isPrefix r.pattern (canon cfg p) = true)) :
    resolve cfg t p = none := by
  unfold resolve
  simp only
  split
  · rfl
  · have hf : t.find? (fun r => decide (r.pattern = canon cfg p)) = none := by
      rw [List.find?_eq_none]; intro x hx; simpa using hno x hx
    rw [hf]
    have : candidates t (canon cfg p) = [] := by
      apply List.eq_nil_iff_forall_not_mem.2
      intro r hr
      obtain ⟨h1, h2, h3⟩ := mem_candidates.1 hr
      exact hnod r h1 ⟨(isDir_iff _).1 h2, h3⟩
    simp [this, longest]

/-- with a copying Match the table is returned as it was -/
theorem matchImpl_state (cfg : Cfg) (s : State Route) (p : List Char) (hc : cfg.copies = true) :
    (matchImpl cfg s p).2 = s := by
  unfold matchImpl
  simp only
  split
  · rfl
  · split
    · rfl
    · split
      · rfl
      · split
        · rfl
        · split
          · rfl
          · simp

end IpcHub.Route
