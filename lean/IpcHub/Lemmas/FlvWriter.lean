/-
C08 lemmas about the FLV writer: the specification's reader `parseTags` / `parseFlv` run over the
bytes of the model's `writeTags` / `clientBytes`; the rebase arithmetic of `writeFlvTag`.
-/
import IpcHub.Lemmas.FlvBytes
namespace IpcHub.FlvLemmas
open IpcHub.Flv IpcHub.FlvSpec

/-- the tags the muxer and the FLV cache hand to a writer: type 8, 9 or 18, no filter bit,
    stream id 0, a body that fits the 24-bit DataSize field -/
def Tag.wf (t : Tag) : Prop :=
  t.filter = 0 ∧ t.streamID = 0 ∧ (t.tagType = 8 ∨ t.tagType = 9 ∨ t.tagType = 18) ∧
  t.data.length < 16777216

/-- what the reader must return for tag `t` written with rebase value `d` -/
def viewTag (t : Tag) (d : UInt32) : PTag :=
  { tagType := t.tagType.toNat, filter := false, timestamp := (t.timestamp - d).toNat,
    streamID := 0, data := t.data }

theorem parseTags_one (fuel : Nat) (t : Tag) (d : UInt32) (rest : Bytes) (h : Tag.wf t) :
    parseTags (fuel + 1) (tagHeader t d ++ t.data ++ be32 (11 + t.data.length) ++ rest) =
      (parseTags fuel rest).map (viewTag t d :: ·) := by
  obtain ⟨hf, hs, ht, hl⟩ := h
  have hts := (t.timestamp - d).toNat_lt
  have e24 := u24_be t.data.length
  have ets := u24_be (t.timestamp - d).toNat
  have e32 := u32_be (11 + t.data.length)
  have hb0 : (((t.filter &&& 1) <<< 5) ||| (t.tagType &&& 0x1f)) &&& 0xC0 = 0 ∧
      ((((t.filter &&& 1) <<< 5) ||| (t.tagType &&& 0x1f)) &&& 0x1F).toNat = t.tagType.toNat ∧
      ((((t.filter &&& 1) <<< 5) ||| (t.tagType &&& 0x1f)) &&& 0x20 ≠ 0) = False := by
    rw [hf]; rcases ht with h | h | h <;> rw [h] <;> decide
  obtain ⟨hb1, hb2, hb3⟩ := hb0
  simp only [tagHeader, be24_eq, be32_eq, hs, List.cons_append, List.nil_append, List.append_assoc, parseTags]
  simp only [hb1, e24, ets, Nat.mod_eq_of_lt hl]
  have hlen : ¬ ((t.data ++ (b8 ((11 + t.data.length) / 16777216) :: b8 ((11 + t.data.length) / 65536) ::
      b8 ((11 + t.data.length) / 256) :: b8 (11 + t.data.length) :: rest)).length < t.data.length + 4) := by
    simp only [List.length_append, List.length_cons]; omega
  simp only [hlen, List.drop_left, List.take_left, e32, hb2, hb3, b8_toNat, viewTag]
  have h11 : (11 + t.data.length) % 4294967296 = 11 + t.data.length := by omega
  have hsid : u24 (b8 0) (b8 0) (b8 0) = 0 := by decide
  have htsv : (t.timestamp - d).toNat / 16777216 % 256 * 16777216 + (t.timestamp - d).toNat % 16777216 = (t.timestamp - d).toNat := by omega
  simp only [h11, htsv]
  cases parseTags fuel rest <;> simp [hsid]

/-- the reader's view of a whole `writeTags` run -/
def views (cfg : Cfg) : Writer → List Tag → List PTag
  | _, [] => []
  | w, t :: ts => viewTag t ((w.next cfg t).rebase cfg t) :: views cfg (w.next cfg t) ts

theorem parseTags_writeTags (cfg : Cfg) (ts : List Tag) :
    ∀ (w : Writer) (fuel : Nat), (∀ t ∈ ts, Tag.wf t) → ts.length < fuel →
      parseTags fuel (writeTags cfg w ts) = some (views cfg w ts) := by
  induction ts with
  | nil =>
    intro w fuel _ hf
    cases fuel with
    | zero => omega
    | succ n => simp [writeTags, views, parseTags]
  | cons t ts ih =>
    intro w fuel hwf hf
    cases fuel with
    | zero => simp at hf
    | succ n =>
      have h1 : Tag.wf t := hwf t (by simp)
      have h2 : ∀ t' ∈ ts, Tag.wf t' := fun t' ht' => hwf t' (by simp [ht'])
      have hl : ts.length < n := by simp at hf; omega
      simp only [writeTags, writeFlvTag, views]
      rw [parseTags_one n t _ _ h1, ih _ n h2 hl]
      rfl

theorem writeTags_length_ge (cfg : Cfg) (ts : List Tag) : ∀ w, ts.length ≤ (writeTags cfg w ts).length := by
  induction ts with
  | nil => intro w; simp [writeTags]
  | cons t ts ih =>
    intro w
    have := ih ((writeFlvTag cfg w t).1)
    simp only [writeTags, writeFlvTag, List.length_append, List.length_cons, be32_length] at *
    omega

/-- the specification's reader over everything a client receives -/
theorem parseFlv_clientBytes (cfg : Cfg) (flags : UInt8) (ts : List Tag) (hf : flags &&& 0x05 ≠ 0)
    (hwf : ∀ t ∈ ts, Tag.wf t) :
    ∃ bs, clientBytes cfg flags ts = some bs ∧
      parseFlv bs = some ({ version := 1, audio := (flags &&& 1) != 0, video := (flags &&& 4) != 0 }, views cfg {} ts) := by
  have hfl : ∀ f : UInt8, (f &&& (typeFlagsVideo ||| typeFlagsAudio)) &&& 0xFA = 0 ∧
      ((((f &&& (typeFlagsVideo ||| typeFlagsAudio)) &&& 1) != 0) = ((f &&& 1) != 0)) ∧
      ((((f &&& (typeFlagsVideo ||| typeFlagsAudio)) &&& 4) != 0) = ((f &&& 4) != 0)) := by
    apply forall_u8
    set_option maxRecDepth 8192 in decide
  obtain ⟨hA, hB, hC⟩ := hfl flags
  refine ⟨flvHeaderBytes flags ++ be32 0 ++ writeTags cfg {} ts, ?_, ?_⟩
  · simp [clientBytes, newWriter, hf]
  · have hp := parseTags_writeTags cfg ts {} ((writeTags cfg {} ts).length + 1) hwf
      (by have := writeTags_length_ge cfg ts {}; omega)
    simp only [flvHeaderBytes, be32_eq, List.cons_append, List.nil_append, parseFlv]
    have h9 : u32 0 0 0 9 = 9 := by decide
    have h0 : u32 (b8 (0 / 16777216)) (b8 (0 / 65536)) (b8 (0 / 256)) (b8 0) = 0 := by decide
    simp [h9, h0, hA, hB, hC, hp]

/-! ### the rebase -/

/-- the repaired writer: clamp, and a flag for "first tag" -/
def Cfg.writerFixed (cfg : Cfg) : Prop := cfg.clampOlder = true ∧ cfg.sentinelInit = false

/-- the `flv.Tag` the media layer builds for a source tag: the timestamp keeps the low 32 bits
    of the source time -/
def toTag (s : SrcTag) : Tag :=
  { tagType := UInt8.ofNat s.tagType, timestamp := u32OfInt s.time, data := s.data }

/-- admissible source tag for a client whose first tag has source time `t0`: a type the muxer
    produces, a body that fits DataSize, and a time within the signed 32-bit window of FLV
    timestamps around `t0` -/
def SrcTag.ok (t0 : Int) (s : SrcTag) : Prop :=
  (s.tagType = 8 ∨ s.tagType = 9 ∨ s.tagType = 18) ∧ s.data.length < 16777216 ∧
  -2147483648 ≤ s.time - t0 ∧ s.time - t0 < 2147483648

instance (t0 : Int) (s : SrcTag) : Decidable (SrcTag.ok t0 s) := by
  unfold SrcTag.ok; infer_instance

theorem toTag_wf (t0 : Int) (s : SrcTag) (h : SrcTag.ok t0 s) : Tag.wf (toTag s) := by
  obtain ⟨ht, hl, _, _⟩ := h
  refine ⟨rfl, rfl, ?_, hl⟩
  rcases ht with h | h | h <;> simp [toTag, h] <;> decide

/-- the timestamp the repaired writer emits for source time `t` after a first tag at `t0` -/
theorem rebase_fixed (cfg : Cfg) (hc : Cfg.writerFixed cfg) (t0 : Int) (s : SrcTag)
    (h1 : -2147483648 ≤ s.time - t0) (h2 : s.time - t0 < 2147483648) :
    ((toTag s).timestamp - (Writer.rebase cfg { delta := u32OfInt t0, started := true } (toTag s))).toNat
      = rebased t0 s.time := by
  have hsub := u32_sub_toNat s.time t0
  have hlt := (u32OfInt s.time - u32OfInt t0).toNat_lt
  simp only [Writer.rebase, hc.1, toTag, Bool.true_and]
  by_cases hge : (u32OfInt s.time - u32OfInt t0).toNat ≥ 2147483648
  · simp only [hge, decide_true, if_true]
    have : (u32OfInt s.time - u32OfInt s.time).toNat = 0 := by simp
    rw [this]
    unfold rebased
    split <;> omega
  · simp only [hge, decide_false, if_false, Bool.false_eq_true]
    unfold rebased
    split <;> omega

theorem tagsOk_views (cfg : Cfg) (hc : Cfg.writerFixed cfg) (t0 : Int) (src : List SrcTag)
    (h : ∀ s ∈ src, SrcTag.ok t0 s) :
    tagsOk t0 src (views cfg { delta := u32OfInt t0, started := true } (src.map toTag)) = true := by
  induction src with
  | nil => simp [views, tagsOk]
  | cons s ss ih =>
    have hs := h s (by simp)
    have hss : ∀ s' ∈ ss, SrcTag.ok t0 s' := fun s' h' => h s' (by simp [h'])
    have hnext : Writer.next cfg { delta := u32OfInt t0, started := true } (toTag s) =
        { delta := u32OfInt t0, started := true } := by
      simp [Writer.next, Writer.isFirst, hc.2]
    have hty : (UInt8.ofNat s.tagType).toNat = s.tagType := by
      rcases hs.1 with h | h | h <;> rw [h] <;> decide
    simp only [List.map_cons, views, hnext, tagsOk, viewTag, rebase_fixed cfg hc t0 s hs.2.2.1 hs.2.2.2, ih hss]
    simp [toTag, hty]

/-- C08 at the writer level, generic in the behaviour switches: see `c08_client_stream` -/
theorem checkClient_clientBytes (cfg : Cfg) (hc : Cfg.writerFixed cfg) (flags : UInt8) (hf : flags &&& 0x05 ≠ 0)
    (src : List SrcTag) (h : ∀ s0 ∈ src.head?, ∀ s ∈ src, SrcTag.ok s0.time s) :
    ∃ bs, clientBytes cfg flags (src.map toTag) = some bs ∧ checkClient flags src bs = true := by
  have hwf : ∀ t ∈ src.map toTag, Tag.wf t := by
    intro t ht
    obtain ⟨s, hs, rfl⟩ := List.mem_map.1 ht
    cases src with
    | nil => simp at hs
    | cons s0 ss => exact toTag_wf s0.time s (h s0 (by simp) s hs)
  obtain ⟨bs, hb, hp⟩ := parseFlv_clientBytes cfg flags (src.map toTag) hf hwf
  refine ⟨bs, hb, ?_⟩
  cases src with
  | nil => simp [checkClient, hp, views]
  | cons s0 ss =>
    have hok := h s0 (by simp)
    have hnext : Writer.next cfg {} (toTag s0) = { delta := u32OfInt s0.time, started := true } := by
      simp [Writer.next, Writer.isFirst, hc.2, toTag]
    have hv : views cfg {} ((s0 :: ss).map toTag) =
        views cfg { delta := u32OfInt s0.time, started := true } ((s0 :: ss).map toTag) := by
      have hnext2 : Writer.next cfg { delta := u32OfInt s0.time, started := true } (toTag s0) =
          { delta := u32OfInt s0.time, started := true } := by
        simp [Writer.next, Writer.isFirst, hc.2]
      simp only [List.map_cons, views, hnext, hnext2]
    simp only [checkClient, hp, hv, tagsOk_views cfg hc s0.time (s0 :: ss) hok]
    simp

end IpcHub.FlvLemmas
