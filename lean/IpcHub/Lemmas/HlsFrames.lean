/-
Lemmas for C10: conservation of the source frames by the segment generator — every video frame
ends up in exactly one segment, in order; the audio elementary stream (ADTS header + AAC frame
per source frame) is the concatenation over the segments plus what waits in the cache; no
segment is dropped when the fragment length is at least one second.
-/
import IpcHub.Lemmas.Hls
namespace IpcHub.HlsLemmas
open IpcHub.Ts IpcHub.Hls

def isAudio (c : Hls.Cfg) (f : Frame) : Bool := f.pid == c.ts.audioPid

/-- all frames written to segment files so far, in order of segment number -/
def written (g : Gen) : List Frame :=
  (g.deleted ++ g.playlist).flatMap (·.frames) ++ (match g.current with | some s => s.frames | none => [])

def videoOf (c : Hls.Cfg) (fs : List Frame) : List Frame := fs.filter (fun f => !isAudio c f)

/-- the audio elementary stream carried by a list of TS frames -/
def audioEs (c : Hls.Cfg) (fs : List Frame) : Bytes :=
  ((fs.filter (isAudio c)).map (fun f => f.header ++ f.payload)).flatten

def cacheEs (g : Gen) : Bytes := match g.afCache with | none => [] | some a => a.head.header ++ a.buff

theorem videoOf_append (c : Hls.Cfg) (a b : List Frame) : videoOf c (a ++ b) = videoOf c a ++ videoOf c b := by
  simp [videoOf]
theorem audioEs_append (c : Hls.Cfg) (a b : List Frame) : audioEs c (a ++ b) = audioEs c a ++ audioEs c b := by
  simp [audioEs]

/-- conservation invariant: `vs` = video frames seen, `es` = audio elementary stream seen -/
def Cons (c : Hls.Cfg) (g : Gen) (vs : List Frame) (es : Bytes) : Prop :=
  g.dropped = [] ∧ (∃ s, g.current = some s) ∧ videoOf c (written g) = vs
  ∧ audioEs c (written g) ++ cacheEs g = es
  ∧ (∀ a, g.afCache = some a → isAudio c a.head = true)

theorem cons_init (c : Hls.Cfg) (b : Bool) : Cons c (initWith b) [] [] := by
  refine ⟨rfl, ⟨_, rfl⟩, ?_, ?_, ?_⟩ <;> simp [initWith, segmentOpen, written, videoOf, audioEs, cacheEs]

theorem written_flush (g g' : Gen) (f : Frame) (h : flushFrame g f = some g') :
    written g' = written g ++ [f] ∧ g'.dropped = g.dropped ∧ g'.afCache = g.afCache
    ∧ (∃ s, g'.current = some s) := by
  unfold flushFrame at h
  cases hc : g.current with
  | none => simp [hc] at h
  | some s =>
    simp only [hc] at h
    injection h with h; subst h
    refine ⟨?_, rfl, rfl, ⟨_, rfl⟩⟩
    simp only [written, hc, updateDuration]
    split <;> simp

theorem flushFrame_some (g : Gen) (f : Frame) (h : ∃ s, g.current = some s) : ∃ g', flushFrame g f = some g' := by
  obtain ⟨s, hs⟩ := h
  simp only [flushFrame, hs]
  exact ⟨_, rfl⟩

theorem flushAudioCache_cons (c : Hls.Cfg) (g : Gen) (vs : List Frame) (es : Bytes) (h : Cons c g vs es) :
    ∃ g', flushAudioCache g = some g' ∧ Cons c g' vs es ∧ g'.afCache = none := by
  obtain ⟨hd, hcur, hv, he, ha⟩ := h
  unfold flushAudioCache
  cases hc : g.afCache with
  | none => exact ⟨g, rfl, ⟨hd, hcur, hv, he, ha⟩, hc⟩
  | some a =>
    obtain ⟨g1, hf⟩ := flushFrame_some g { a.head with payload := a.buff } hcur
    obtain ⟨hw, hd1, _, hcur1⟩ := written_flush g g1 _ hf
    have haud : isAudio c { a.head with payload := a.buff } = true := by
      have := ha a hc; simpa [isAudio] using this
    refine ⟨{ g1 with afCache := none }, by simp [hf], ⟨?_, ?_, ?_, ?_, ?_⟩, rfl⟩
    · simpa using hd1.trans hd
    · simpa using hcur1
    · have : written { g1 with afCache := none } = written g1 := rfl
      rw [this, hw, videoOf_append, hv]
      simp [videoOf, haud]
    · have : written { g1 with afCache := none } = written g1 := rfl
      rw [this, hw, audioEs_append, ← he]
      simp [audioEs, haud, cacheEs, hc]
    · intro a' h'; simp at h'

theorem closeOpen_cons (c : Hls.Cfg) (g : Gen) (vs : List Frame) (es : Bytes) (start : Int) (b : Bool)
    (h : Cons c g vs es)
    (hlong : ∀ s, g.current = some s → ¬ s.dur * 1000 < (c.minDurMs : Int) * 90000) :
    Cons c (segmentOpen (segmentClose c g) start b) vs es := by
  obtain ⟨hd, ⟨s, hs⟩, hv, he, ha⟩ := h
  have hshort := hlong s hs
  simp only [segmentClose, hs, if_neg hshort]
  generalize hg0 : ({ g with current := none } : Gen) = g0
  have e1 : g0.deleted = g.deleted := by subst hg0; rfl
  have e2 : g0.playlist = g.playlist := by subst hg0; rfl
  have e5 : g0.dropped = g.dropped := by subst hg0; rfl
  have e6 : g0.afCache = g.afCache := by subst hg0; rfl
  have e4 : g0.current = none := by subst hg0; rfl
  have hcat := addSegment_cat c g0 s
  obtain ⟨_, f2⟩ := addSegment_fields c g0 s
  have f3 : (addSegment c g0 s).dropped = g0.dropped ∧ (addSegment c g0 s).afCache = g0.afCache := by
    simp only [addSegment]; split <;> simp
  rw [e1, e2] at hcat
  generalize addSegment c g0 s = g1 at *
  have hcur : g1.current = none := by rw [f2, e4]
  have hw : written (segmentOpen g1 start b) = written g := by
    simp only [segmentOpen, hcur, written, hcat, hs]
    simp
  have hc : cacheEs (segmentOpen g1 start b) = cacheEs g := by
    simp only [segmentOpen, hcur, cacheEs, f3.2, e6]
  refine ⟨?_, ?_, ?_, ?_, ?_⟩
  · simp only [segmentOpen, hcur]; rw [f3.1, e5, hd]
  · simp only [segmentOpen, hcur]; exact ⟨_, rfl⟩
  · rw [hw, hv]
  · rw [hw, hc, he]
  · intro a h'
    simp only [segmentOpen, hcur] at h'
    rw [f3.2, e6] at h'
    exact ha a h'

/-- after close+open the open segment is the fresh one -/
theorem closeOpen_current (c : Hls.Cfg) (g : Gen) (start : Int) (b : Bool) (h : ∃ s, g.current = some s) :
    ∃ s, (segmentOpen (segmentClose c g) start b).current = some s ∧ s.frames = [] ∧ s.byAudio = b ∧ s.start = start := by
  obtain ⟨s, hs⟩ := h
  simp only [segmentClose, hs]
  split
  · simp only [segmentOpen]
    exact ⟨_, rfl, rfl, rfl, rfl⟩
  · have : (addSegment c { g with current := none } s).current = none := (addSegment_fields c _ s).2
    simp only [segmentOpen, this]
    exact ⟨_, rfl, rfl, rfl, rfl⟩

theorem reap_cons (c : Hls.Cfg) (g : Gen) (vs : List Frame) (es : Bytes) (start : Int) (b : Bool)
    (h : Cons c g vs es)
    (hlong : ∀ s, g.current = some s → ¬ s.dur * 1000 < (c.minDurMs : Int) * 90000) :
    ∃ g', reapSegment c g start b = some g' ∧ Cons c g' vs es ∧ g'.afCache = none :=
  flushAudioCache_cons c _ vs es (closeOpen_cons c g vs es start b h hlong)

/-- changing only the jitter bookkeeping or the audio cache keeps what has been written -/
theorem cons_cache (c : Hls.Cfg) (g g2 : Gen) (vs : List Frame) (es es2 : Bytes)
    (h : Cons c g vs es) (h1 : g2.dropped = g.dropped) (h2 : g2.current = g.current)
    (h3 : g2.playlist = g.playlist) (h4 : g2.deleted = g.deleted)
    (h5 : audioEs c (written g) ++ cacheEs g2 = es2)
    (h6 : ∀ a, g2.afCache = some a → isAudio c a.head = true) : Cons c g2 vs es2 := by
  obtain ⟨hd, hcur, hv, he, ha⟩ := h
  have hw : written g2 = written g := by simp [written, h2, h3, h4]
  exact ⟨by rw [h1, hd], by rw [h2]; exact hcur, by rw [hw, hv], by rw [hw, h5], h6⟩

theorem long_of_overflow (c : Hls.Cfg) (g : Gen) (frag : Nat) (hfrag : 1 ≤ frag) (hmin : c.minDurMs ≤ 1000)
    (h : overflow g frag = true) : ∀ s, g.current = some s → ¬ s.dur * 1000 < (c.minDurMs : Int) * 90000 := by
  intro s hs
  simp only [overflow, hs, decide_eq_true_eq] at h
  omega

theorem long_of_absOverflow (c : Hls.Cfg) (g : Gen) (frag : Nat) (hfrag : 1 ≤ frag) (hmin : c.minDurMs ≤ 1000)
    (h : absOverflow g frag = true) : ∀ s, g.current = some s → ¬ s.dur * 1000 < (c.minDurMs : Int) * 90000 := by
  intro s hs
  simp only [absOverflow, hs, decide_eq_true_eq] at h
  omega

/-- one step of the generator conserves the frames (fragment ≥ 1 s: no segment is dropped) -/
theorem writeFrame_cons (c : Hls.Cfg) (frag rate : Nat) (hfrag : 1 ≤ frag) (hmin : c.minDurMs ≤ 1000)
    (g g' : Gen) (vs : List Frame) (es : Bytes) (f : Frame)
    (h : Cons c g vs es) (hw : Hls.writeFrame c frag rate g f = some g') :
    Cons c g' (vs ++ (if f.payload.isEmpty || isAudio c f then [] else [f]))
             (es ++ (if !f.payload.isEmpty && isAudio c f then f.header ++ f.payload else [])) := by
  have hcur := h.2.1
  unfold Hls.writeFrame at hw
  split at hw
  · rename_i hn; obtain ⟨s, hs⟩ := hcur; simp [hs] at hn
  · split at hw
    · rename_i he
      injection hw with hw; subst hw
      simpa [he] using h
    · rename_i he
      have hne : f.payload.isEmpty = false := by simpa using he
      split at hw
      · -- audio
        rename_i hau
        have haud : isAudio c f = true := hau
        simp only [hne, haud, Bool.or_true, if_true, List.append_nil, Bool.not_false, Bool.and_self]
        -- the state after the cache update
        have step : ∀ g2 : Gen, Cons c g2 vs (es ++ (f.header ++ f.payload)) →
            (∀ a, g2.afCache = some a →
              (if f.pts - a.head.pts > (c.aacDelay : Int) * 90 then flushAudioCache g2
               else if absOverflow g2 frag then reapSegment c g2 f.pts true else some g2) = some g') →
            (∃ a, g2.afCache = some a) → Cons c g' vs (es ++ (f.header ++ f.payload)) := by
          intro g2 hc2 hrun ⟨a, ha⟩
          have hr := hrun a ha
          split at hr
          · obtain ⟨g3, h3, hc3, _⟩ := flushAudioCache_cons c g2 _ _ hc2
            rw [h3] at hr; injection hr with hr; subst hr; exact hc3
          · split at hr
            · rename_i hov
              obtain ⟨g3, h3, hc3, _⟩ := reap_cons c g2 _ _ f.pts true hc2
                (long_of_absOverflow c g2 frag hfrag hmin hov)
              rw [h3] at hr; injection hr with hr; subst hr; exact hc3
            · injection hr with hr; subst hr; exact hc2
        cases hc : g.afCache with
        | none =>
          simp only [hc] at hw
          cases ho : onBufferStart c g f.pts rate with
          | none => simp [ho] at hw
          | some r =>
            obtain ⟨pts, g1⟩ := r
            have hg1 : g1.dropped = g.dropped ∧ g1.current = g.current ∧ g1.playlist = g.playlist
                ∧ g1.deleted = g.deleted := by
              simp only [onBufferStart] at ho
              split at ho
              · simp at ho; obtain ⟨_, rfl⟩ := ho; exact ⟨rfl, rfl, rfl, rfl⟩
              · split at ho
                · exact absurd ho (by simp)
                · split at ho <;> (simp at ho; obtain ⟨_, rfl⟩ := ho; exact ⟨rfl, rfl, rfl, rfl⟩)
            simp only [ho, Option.map_some, Option.bind_some] at hw
            have hes : audioEs c (written g) = es := by
              have := h.2.2.2.1; simpa [cacheEs, hc] using this
            refine step { g1 with afCache := some { head := { f with dts := pts, pts := pts }, buff := f.payload } }
              (cons_cache c g _ vs _ _ h hg1.1 hg1.2.1 hg1.2.2.1 hg1.2.2.2 ?_ ?_) ?_ ⟨_, rfl⟩
            · simp [cacheEs, hes]
            · intro a ha; simp at ha; subst ha; simpa [isAudio] using haud
            · intro a ha; simp at ha; subst ha; exact hw
        | some a0 =>
          simp only [hc, Option.bind_some] at hw
          have hes : audioEs c (written g) ++ (a0.head.header ++ a0.buff) = es := by
            have := h.2.2.2.1; simpa [cacheEs, hc] using this
          refine step { g with afCache := some { a0 with buff := a0.buff ++ f.header ++ f.payload }, nbSamples := g.nbSamples + 1 }
            (cons_cache c g _ vs _ _ h rfl rfl rfl rfl ?_ ?_) ?_ ⟨_, rfl⟩
          · simp [cacheEs, ← hes, List.append_assoc]
          · intro a ha; simp at ha; subst ha; exact h.2.2.2.2 a0 hc
          · intro a ha; simp at ha; subst ha; exact hw
      · -- video
        rename_i hau
        have hvid : isAudio c f = false := by simpa [isAudio] using hau
        simp only [hne, hvid, Bool.or_false, Bool.false_eq_true, if_false, Bool.and_false, List.append_nil]
        have fin : ∀ g2 : Gen, Cons c g2 vs es → flushFrame g2 f = some g' → Cons c g' (vs ++ [f]) es := by
          intro g2 hc2 hf
          obtain ⟨hd, _, hv, he, ha⟩ := hc2
          obtain ⟨hw2, hd2, ha2, hcur2⟩ := written_flush g2 g' f hf
          refine ⟨by rw [hd2, hd], hcur2, ?_, ?_, ?_⟩
          · rw [hw2, videoOf_append, hv]; simp [videoOf, hvid]
          · rw [hw2, audioEs_append, ← he]
            simp [audioEs, hvid, cacheEs, ha2]
          · intro a h'; rw [ha2] at h'; exact ha a h'
        split at hw
        · rename_i hko
          have hov : overflow g frag = true := by
            simp only [Bool.and_eq_true] at hko; exact hko.2
          obtain ⟨g3, h3, hc3, _⟩ := reap_cons c g vs es f.pts false h (long_of_overflow c g frag hfrag hmin hov)
          rw [h3] at hw
          simp only [Option.bind_some] at hw
          exact fin g3 hc3 hw
        · simp only [Option.bind_some] at hw
          exact fin g h hw

/-- the video frames / audio elementary stream of a source frame list as the generator sees it -/
def srcVideo (c : Hls.Cfg) (fs : List Frame) : List Frame :=
  fs.filter (fun f => !(f.payload.isEmpty || isAudio c f))
def srcAudioEs (c : Hls.Cfg) (fs : List Frame) : Bytes :=
  ((fs.filter (fun f => !f.payload.isEmpty && isAudio c f)).map (fun f => f.header ++ f.payload)).flatten

theorem writeFrames_cons (c : Hls.Cfg) (frag rate : Nat) (hfrag : 1 ≤ frag) (hmin : c.minDurMs ≤ 1000) :
    ∀ (fs : List Frame) (g g' : Gen) (vs : List Frame) (es : Bytes),
      Cons c g vs es → Hls.writeFrames c frag rate g fs = some g' →
      Cons c g' (vs ++ srcVideo c fs) (es ++ srcAudioEs c fs) := by
  intro fs
  induction fs with
  | nil =>
    intro g g' vs es h hw
    simp [Hls.writeFrames] at hw; subst hw
    simpa [srcVideo, srcAudioEs] using h
  | cons f fs ih =>
    intro g g' vs es h hw
    simp only [Hls.writeFrames] at hw
    cases h1 : Hls.writeFrame c frag rate g f with
    | none => simp [h1] at hw
    | some g1 =>
      simp only [h1, Option.bind_some] at hw
      have := ih g1 g' _ _ (writeFrame_cons c frag rate hfrag hmin g g1 vs es f h h1) hw
      have ev : srcVideo c (f :: fs) = (if f.payload.isEmpty || isAudio c f then [] else [f]) ++ srcVideo c fs := by
        simp only [srcVideo, List.filter_cons]
        cases (f.payload.isEmpty || isAudio c f) <;> simp
      have ea : srcAudioEs c (f :: fs)
          = (if !f.payload.isEmpty && isAudio c f then f.header ++ f.payload else []) ++ srcAudioEs c fs := by
        simp only [srcAudioEs, List.filter_cons]
        cases (!f.payload.isEmpty && isAudio c f) <;> simp
      rw [ev, ea, ← List.append_assoc, ← List.append_assoc]
      exact this

end IpcHub.HlsLemmas
