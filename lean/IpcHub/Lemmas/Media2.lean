import IpcHub.Lemmas.Media
namespace IpcHub.Media

/-! ### cache as a function of the accepted history -/

/-- the cache after a list of accepted packets (a packet on which the classifier panics is
    never accepted, see `St.step`) -/
def packAll (k : NalConsts) (c0 : Cache) (ps : List Pkt) : Cache :=
  ps.foldl (fun c p => match c.pack k p with | some (c', _) => c' | none => c) c0

theorem packAll_append (k : NalConsts) (c0 : Cache) (ps : List Pkt) (p : Pkt) :
    packAll k c0 (ps ++ [p]) = (match (packAll k c0 ps).pack k p with | some (c', _) => c' | none => packAll k c0 ps) := by
  simp [packAll, List.foldl_append]

/-! ### back-pressure invariant (C04) -/

/-- a send log is GOP-aligned when the kept/dropped decision changes only at a key frame -/
def aligned : Bool → List (Pkt × Bool × Bool) → Prop
  | _, [] => True
  | prev, (_, key, kept) :: rest => (prev ≠ kept → key = true) ∧ aligned kept rest

def lastKept : Bool → List (Pkt × Bool × Bool) → Bool
  | prev, [] => prev
  | _, (_, _, kept) :: rest => lastKept kept rest

theorem aligned_append (prev : Bool) (l : List (Pkt × Bool × Bool)) (p : Pkt) (key kept : Bool) :
    aligned prev (l ++ [(p, key, kept)]) ↔ aligned prev l ∧ (lastKept prev l ≠ kept → key = true) := by
  induction l generalizing prev with
  | nil => simp [aligned, lastKept]
  | cons x xs ih =>
    obtain ⟨q, k, kp⟩ := x
    simp only [List.cons_append, aligned, lastKept, ih]
    constructor
    · rintro ⟨a, b, c⟩; exact ⟨⟨a, b⟩, c⟩
    · rintro ⟨⟨a, b⟩, c⟩; exact ⟨a, b, c⟩

theorem lastKept_append (prev : Bool) (l : List (Pkt × Bool × Bool)) (p : Pkt) (key kept : Bool) :
    lastKept prev (l ++ [(p, key, kept)]) = kept := by
  induction l generalizing prev with
  | nil => simp [lastKept]
  | cons x xs ih => obtain ⟨q, k, kp⟩ := x; simp only [List.cons_append, lastKept, ih]

structure BInv (m skPub maxS : Nat) (c : Cons) : Prop where
  bound : c.registered = true → c.queue.length ≤ m + c.sinceKey + c.replay.length
  fresh : c.registered = true → c.discarding = false → c.sinceKey ≤ skPub
  le_max : c.sinceKey ≤ maxS
  al : aligned true c.sendLog
  lk : lastKept true c.sendLog = !c.discarding

theorem nextDiscarding_false (m : Nat) (key d : Bool) (n : Nat) (h : nextDiscarding m key d n = false) :
    (key = true ∧ n ≤ m) ∨ (key = false ∧ d = false) ∨ (key = true ∧ d = true ∧ n < m) := by
  unfold nextDiscarding at h
  cases key <;> cases d <;> simp at h ⊢ <;> omega

theorem nextDiscarding_true (m : Nat) (key d : Bool) (n : Nat) (h : nextDiscarding m key d n = true) :
    d = true ∨ (key = true ∧ n > m) := by
  unfold nextDiscarding at h
  cases key <;> cases d <;> simp at h ⊢ <;> omega

theorem send_binv (m skPub maxS : Nat) (p : Pkt) (key : Bool) (c : Cons) (h : BInv m skPub maxS c)
    (hle : skPub ≤ maxS) :
    let sk := if key then 1 else skPub + 1
    BInv m sk (max maxS sk) (c.send m p key) := by
  intro sk
  have hsk : sk ≤ max maxS sk := Nat.le_max_right _ _
  have hms : maxS ≤ max maxS sk := Nat.le_max_left _ _
  unfold Cons.send
  by_cases hr : c.registered = true
  · simp only [hr, Bool.not_true, Bool.false_eq_true, if_false]
    cases hnd : nextDiscarding m key c.discarding c.queue.length with
    | false =>
      simp only [Bool.false_eq_true, if_false, Cons.keep]
      have hb := h.bound hr
      rcases nextDiscarding_false _ _ _ _ hnd with ⟨hk, hn⟩ | ⟨hk, hd⟩ | ⟨hk, hd, hn⟩
      · refine ⟨?_, ?_, ?_, ?_, ?_⟩
        · intro _; simp [hk]; omega
        · intro _ _; simp [hk, sk]
        · simp [hk, sk]; omega
        · rw [aligned_append]; exact ⟨h.al, by intro _; exact hk⟩
        · rw [lastKept_append]; rfl
      · have hf := h.fresh hr hd
        refine ⟨?_, ?_, ?_, ?_, ?_⟩
        · intro _; simp [hk]; omega
        · intro _ _; simp [hk, sk]; omega
        · simp [hk, sk]; omega
        · rw [aligned_append]; refine ⟨h.al, ?_⟩
          intro hne; rw [h.lk, hd] at hne; simp at hne
        · rw [lastKept_append]; rfl
      · refine ⟨?_, ?_, ?_, ?_, ?_⟩
        · intro _; simp [hk]; omega
        · intro _ _; simp [hk, sk]
        · simp [hk, sk]; omega
        · rw [aligned_append]; exact ⟨h.al, by intro _; exact hk⟩
        · rw [lastKept_append]; rfl
    | true =>
      simp only [if_true, Cons.drop]
      refine ⟨fun _ => h.bound hr, ?_, Nat.le_trans h.le_max hms, ?_, ?_⟩
      · intro _ hd; simp at hd
      · rw [aligned_append]; refine ⟨h.al, ?_⟩
        intro hne
        rcases nextDiscarding_true _ _ _ _ hnd with hd | ⟨hk, _⟩
        · rw [h.lk, hd] at hne; simp at hne
        · exact hk
      · rw [lastKept_append]; rfl
  · have hr' : c.registered = false := by simpa using hr
    simp only [hr', Bool.not_false, if_true]
    exact ⟨by intro x; simp [hr'] at x, by intro x; simp [hr'] at x, Nat.le_trans h.le_max hms, h.al, h.lk⟩

theorem close_binv (m skPub maxS : Nat) (c : Cons) (h : BInv m skPub maxS c) :
    BInv m skPub maxS (Cons.close { c with registered := false }) := by
  unfold Cons.close
  by_cases hc : c.closed = true
  · simp only [hc, if_true]
    exact ⟨by intro x; simp at x, by intro x; simp at x, h.le_max, h.al, h.lk⟩
  · simp only [hc, if_false]
    exact ⟨by intro x; simp at x, by intro x; simp at x, h.le_max, h.al, h.lk⟩

theorem step_binv (m skPub maxS : Nat) (c : Cons) (h : BInv m skPub maxS c) : BInv m skPub maxS c.step.1 := by
  unfold Cons.step
  cases c.stepKind with
  | idle => exact h
  | blocked => exact h
  | panic => exact ⟨by intro x; simp [Cons.apply] at x, by intro x; simp [Cons.apply] at x, h.le_max, h.al, h.lk⟩
  | deliver p => exact ⟨h.bound, h.fresh, h.le_max, h.al, h.lk⟩
  | exit => exact ⟨by intro x; simp [Cons.apply] at x, by intro x; simp [Cons.apply] at x, h.le_max, h.al, h.lk⟩
  | sentinel =>
    refine ⟨?_, h.fresh, h.le_max, h.al, h.lk⟩
    intro hr; have := h.bound hr; simp only [Cons.apply, List.length_tail]; omega
  | take p =>
    refine ⟨?_, h.fresh, h.le_max, h.al, h.lk⟩
    intro hr; have := h.bound hr; simp only [Cons.apply, List.length_tail]; omega

end IpcHub.Media
