/- CanonicalPath reaches a fixed point: path.Clean only removes characters, a further pass strictly shortens or changes nothing (C17, C18) -/
import IpcHub.Lemmas.PathCanon
namespace IpcHub.PathCanon

/-! trimming -/

theorem trimLeft_split (p : Char → Bool) : ∀ (xs : List Char),
    ∃ pre, xs = pre ++ trimLeft p xs ∧ ∀ c ∈ pre, p c = true := by
  intro xs
  induction xs with
  | nil => exact ⟨[], rfl, by simp⟩
  | cons c cs ih =>
    by_cases hc : p c = true
    · obtain ⟨pre, h1, h2⟩ := ih
      refine ⟨c :: pre, ?_, ?_⟩
      · simp only [trimLeft, hc, if_true, List.cons_append]; rw [← h1]
      · intro x hx
        rcases List.mem_cons.1 hx with rfl | hx
        · exact hc
        · exact h2 x hx
    · exact ⟨[], by simp [trimLeft, hc], by simp⟩

theorem trimRight_split (p : Char → Bool) (s : List Char) :
    ∃ sp, s = trimRight p s ++ sp ∧ ∀ c ∈ sp, p c = true := by
  obtain ⟨pre, h1, h2⟩ := trimLeft_split p s.reverse
  refine ⟨pre.reverse, ?_, ?_⟩
  · unfold trimRight
    have := congrArg List.reverse h1
    simpa using this
  · intro c hc; exact h2 c (List.mem_reverse.1 hc)

theorem trimLeft_length (p : Char → Bool) (s : List Char) : (trimLeft p s).length ≤ s.length := by
  obtain ⟨pre, h1, _⟩ := trimLeft_split p s
  have := congrArg List.length h1
  simp at this; omega

theorem trimRight_length (p : Char → Bool) (s : List Char) : (trimRight p s).length ≤ s.length := by
  obtain ⟨sp, h1, _⟩ := trimRight_split p s
  have := congrArg List.length h1
  simp at this; omega

theorem trim_length (p : Char → Bool) (s : List Char) : (trim p s).length ≤ s.length :=
  Nat.le_trans (trimRight_length p _) (trimLeft_length p s)

/-- a rooted string ('/' is not a blank) keeps its head under trim, and trim only cuts a tail -/
theorem trim_rooted (p : Char → Bool) (hs : p '/' = false) (rest : List Char) :
    ∃ t' sp, trim p ('/' :: rest) = '/' :: t' ∧ '/' :: rest = ('/' :: t') ++ sp := by
  have hl : trimLeft p ('/' :: rest) = '/' :: rest := by simp [trimLeft, hs]
  unfold trim
  rw [hl]
  obtain ⟨sp, h1, h2⟩ := trimRight_split p ('/' :: rest)
  cases ht : trimRight p ('/' :: rest) with
  | nil =>
    rw [ht] at h1
    simp only [List.nil_append] at h1
    have : p '/' = true := h2 '/' (by rw [← h1]; exact List.mem_cons_self)
    rw [hs] at this; cases this
  | cons c t' =>
    rw [ht] at h1
    simp only [List.cons_append, List.cons.injEq] at h1
    obtain ⟨rfl, h1⟩ := h1
    exact ⟨t', sp, rfl, by simp [h1]⟩


/-! path.Clean on a rooted path only removes characters -/

theorem splitSlash_ne_nil (s : List Char) : splitSlash s ≠ [] := by
  cases s with
  | nil => simp [splitSlash]
  | cons c cs =>
    unfold splitSlash
    split
    · simp
    · split <;> simp

/-- "/" ++ strings.Join(strings.Split(s, "/"), "/") = "/" ++ s -/
theorem joinSegs_splitSlash : ∀ (s : List Char), joinSegs (splitSlash s) = '/' :: s := by
  intro s
  induction s with
  | nil => rfl
  | cons c cs ih =>
    unfold splitSlash
    by_cases hc : c = '/'
    · simp only [hc, if_true, joinSegs, List.nil_append, ih]
    · simp only [hc, if_false]
      cases hsp : splitSlash cs with
      | nil => exact absurd hsp (splitSlash_ne_nil cs)
      | cons seg segs =>
        rw [hsp] at ih
        simp only [joinSegs, List.cons.injEq, true_and] at ih ⊢
        simp only [List.cons_append, ih]

theorem splitSlash_append_slash : ∀ (s : List Char), splitSlash (s ++ ['/']) = splitSlash s ++ [[]] := by
  intro s
  induction s with
  | nil => rfl
  | cons c cs ih =>
    simp only [List.cons_append]
    unfold splitSlash
    by_cases hc : c = '/'
    · simp [hc, ih]
    · simp only [hc, if_false, ih]
      cases hsp : splitSlash cs with
      | nil => exact absurd hsp (splitSlash_ne_nil cs)
      | cons seg segs => simp

theorem joinSegs_sublist : ∀ {l1 l2 : List (List Char)}, l1.Sublist l2 → (joinSegs l1).Sublist (joinSegs l2) := by
  intro l1 l2 h
  induction h with
  | slnil => exact List.Sublist.refl _
  | cons a _ ih =>
    simp only [joinSegs]
    exact List.Sublist.cons _ (List.Sublist.trans ih (List.sublist_append_right a _))
  | cons_cons a _ ih =>
    simp only [joinSegs]
    exact List.Sublist.cons_cons _ (List.Sublist.append (List.Sublist.refl a) ih)

theorem tail_reverse_sublist (st : List (List Char)) : st.tail.reverse.Sublist st.reverse := by
  cases st with
  | nil => exact List.Sublist.refl _
  | cons a as => simp

/-- the kept elements are a sub-sequence of the elements -/
theorem foldl_cleanStep_sublist : ∀ (segs st : List (List Char)),
    (segs.foldl cleanStep st).reverse.Sublist (st.reverse ++ segs) := by
  intro segs
  induction segs with
  | nil => intro st; simp
  | cons seg rest ih =>
    intro st
    simp only [List.foldl_cons]
    by_cases h1 : seg = [] ∨ seg = ['.']
    · have hs : cleanStep st seg = st := by simp [cleanStep, h1]
      rw [hs]
      exact List.Sublist.trans (ih st) (List.Sublist.append (List.Sublist.refl _) (List.sublist_cons_self _ _))
    · by_cases h2 : seg = ['.', '.']
      · have hs : cleanStep st seg = st.tail := by simp [cleanStep, h2]
        rw [hs]
        refine List.Sublist.trans (ih st.tail) ?_
        exact List.Sublist.append (tail_reverse_sublist st) (List.sublist_cons_self _ _)
      · have hs : cleanStep st seg = seg :: st := by simp [cleanStep, h1, h2]
        rw [hs]
        have := ih (seg :: st)
        simpa using this

theorem cleanSegs_rooted (rest : List Char) : cleanSegs ('/' :: rest) = ((splitSlash rest).foldl cleanStep []).reverse := by
  simp [cleanSegs, splitSlash, cleanStep]

/-- path.Clean of a rooted path is a sub-sequence of the path -/
theorem cleanRooted_sublist (rest : List Char) : (cleanRooted ('/' :: rest)).Sublist ('/' :: rest) := by
  unfold cleanRooted
  have hk := foldl_cleanStep_sublist (splitSlash rest) []
  simp only [List.reverse_nil, List.nil_append] at hk
  rw [cleanSegs_rooted]
  have hj := joinSegs_sublist hk
  rw [joinSegs_splitSlash] at hj
  split
  · exact List.Sublist.cons_cons _ (List.nil_sublist _)
  · rename_i s ss heq
    rw [heq] at hj; exact hj

/-- a trailing slash does not change path.Clean -/
theorem cleanRooted_append_slash (q : List Char) : cleanRooted (q ++ ['/']) = cleanRooted q := by
  unfold cleanRooted cleanSegs
  rw [splitSlash_append_slash, List.foldl_append]
  simp [cleanStep]

theorem hasPrefix_append (a b : List Char) : hasPrefix (a ++ b) a = true := by
  induction a with
  | nil => cases b <;> rfl
  | cons x xs ih => simp [hasPrefix, ih]


/-! one pass of CanonicalPath on a rooted string -/

/-- the part of `canonStep` after rooting: Clean, then put the trailing slash back -/
def finish (q : List Char) : List Char :=
  let np := cleanRooted q
  if q.getLast? = some '/' ∧ np ≠ ['/'] then
    if q.length = np.length + 1 ∧ hasPrefix q np then q else np ++ ['/']
  else np

theorem canonStep_eq (cfg : Cfg) (p0 : List Char) :
    canonStep cfg p0 =
      if (trim cfg.isSpace p0).map cfg.lower = [] then ['/']
      else finish (if ((trim cfg.isSpace p0).map cfg.lower).head? ≠ some '/' then '/' :: (trim cfg.isSpace p0).map cfg.lower
                   else (trim cfg.isSpace p0).map cfg.lower) := rfl

theorem cleanRooted_root : cleanRooted ['/'] = ['/'] := by decide

theorem finish_props (rest : List Char) :
    (finish ('/' :: rest)).length ≤ ('/' :: rest).length ∧
    (finish ('/' :: rest) = '/' :: rest ∨ (finish ('/' :: rest)).length < ('/' :: rest).length) ∧
    ∀ c ∈ finish ('/' :: rest), c ∈ '/' :: rest := by
  have hsub := cleanRooted_sublist rest
  unfold finish
  simp only
  split
  · rename_i hcond
    obtain ⟨hlast, hne⟩ := hcond
    obtain ⟨q0, hq0⟩ := List.getLast?_eq_some_iff.1 hlast
    have hq0ne : q0 ≠ [] := by
      intro h; subst h
      simp only [List.nil_append] at hq0
      rw [hq0] at hne; exact hne cleanRooted_root
    obtain ⟨rest0, hrest0⟩ : ∃ rest0, q0 = '/' :: rest0 := by
      cases q0 with
      | nil => exact absurd rfl hq0ne
      | cons c cs => simp only [List.cons_append, List.cons.injEq] at hq0; exact ⟨cs, by rw [← hq0.1]⟩
    have hnp : cleanRooted ('/' :: rest) = cleanRooted q0 := by rw [hq0]; exact cleanRooted_append_slash q0
    have hsub0 : (cleanRooted ('/' :: rest)).Sublist q0 := by rw [hnp, hrest0]; exact cleanRooted_sublist rest0
    have hlen0 := hsub0.length_le
    have hqlen : ('/' :: rest).length = q0.length + 1 := by rw [hq0]; simp
    split
    · exact ⟨Nat.le_refl _, Or.inl rfl, fun c hc => hc⟩
    · rename_i hnf
      refine ⟨by simp only [List.length_append, List.length_singleton]; omega, Or.inr ?_, ?_⟩
      · simp only [List.length_append, List.length_singleton]
        by_cases heq : (cleanRooted ('/' :: rest)).length = q0.length
        · exfalso
          have hnpq : cleanRooted ('/' :: rest) = q0 := hsub0.eq_of_length heq
          apply hnf
          refine ⟨by omega, ?_⟩
          rw [hnpq]
          conv => lhs; arg 1; rw [hq0]
          exact hasPrefix_append q0 ['/']
        · omega
      · intro c hc
        rcases List.mem_append.1 hc with h | h
        · exact hsub.subset h
        · simp at h; subst h; exact List.mem_cons_self
  · refine ⟨hsub.length_le, ?_, fun c hc => hsub.subset hc⟩
    by_cases heq : (cleanRooted ('/' :: rest)).length = ('/' :: rest).length
    · exact Or.inl (hsub.eq_of_length heq)
    · have := hsub.length_le; exact Or.inr (by omega)

/-- what the character functions must satisfy (they do for unicode.ToLower / unicode.IsSpace
    and for the ASCII instance) -/
structure CharLaws (cfg : Cfg) : Prop where
  lower_idem : ∀ c, cfg.lower (cfg.lower c) = cfg.lower c
  lower_slash : cfg.lower '/' = '/'
  slash_not_space : cfg.isSpace '/' = false

/-- rooted and already lower-case -/
def Stable (cfg : Cfg) (q : List Char) : Prop := q.head? = some '/' ∧ ∀ c ∈ q, cfg.lower c = c

theorem rooted_cases (p : List Char) (hp : p ≠ []) :
    ∃ rest, (if p.head? ≠ some '/' then '/' :: p else p) = '/' :: rest ∧ rest.length ≤ p.length ∧ ∀ c ∈ rest, c ∈ p := by
  cases p with
  | nil => exact absurd rfl hp
  | cons c cs =>
    by_cases hc : c = '/'
    · subst hc; exact ⟨cs, by simp, by simp, fun c hc => List.mem_cons_of_mem _ hc⟩
    · refine ⟨c :: cs, ?_, Nat.le_refl _, fun _ h => h⟩
      simp [hc]

theorem canonStep_stable (cfg : Cfg) (hc : CharLaws cfg) (p0 : List Char) : Stable cfg (canonStep cfg p0) := by
  rw [canonStep_eq]
  split
  · exact ⟨rfl, by intro c h; simp at h; subst h; exact hc.lower_slash⟩
  · rename_i hne
    obtain ⟨rest, hr, _, hmem⟩ := rooted_cases _ hne
    rw [hr]
    have hp := finish_props rest
    refine ⟨?_, ?_⟩
    · have := canonStep_head cfg p0
      rw [canonStep_eq, if_neg hne, hr] at this
      exact this
    · intro c hcm
      rcases List.mem_cons.1 (hp.2.2 c hcm) with rfl | h
      · exact hc.lower_slash
      · obtain ⟨c0, _, rfl⟩ := List.mem_map.1 (hmem c h)
        exact hc.lower_idem c0

theorem canonStep_length (cfg : Cfg) (p0 : List Char) : (canonStep cfg p0).length ≤ p0.length + 1 := by
  rw [canonStep_eq]
  split
  · simp
  · rename_i hne
    obtain ⟨rest, hr, hlen, _⟩ := rooted_cases _ hne
    rw [hr]
    have := (finish_props rest).1
    have ht := trim_length cfg.isSpace p0
    simp only [List.length_cons, List.length_map] at this hlen ⊢
    omega

/-- a further pass either changes nothing or strictly shortens -/
theorem canonStep_shrinks (cfg : Cfg) (hc : CharLaws cfg) (r : List Char) (hr : Stable cfg r) :
    canonStep cfg r = r ∨ (canonStep cfg r).length < r.length := by
  obtain ⟨hhead, hfix⟩ := hr
  obtain ⟨rest, rfl⟩ : ∃ rest, r = '/' :: rest := by
    cases r with
    | nil => cases hhead
    | cons c cs => simp at hhead; exact ⟨cs, by rw [hhead]⟩
  obtain ⟨t', sp, ht, hsplit⟩ := trim_rooted cfg.isSpace hc.slash_not_space rest
  have hmap : ('/' :: t').map cfg.lower = '/' :: t' := by
    have : ∀ c ∈ '/' :: t', cfg.lower c = c := by
      intro c hcm; apply hfix; rw [hsplit]; exact List.mem_append_left _ hcm
    calc ('/' :: t').map cfg.lower = ('/' :: t').map id := List.map_congr_left this
      _ = '/' :: t' := by simp
  rw [canonStep_eq, ht, hmap]
  simp only [List.cons_ne_nil, if_false, List.head?_cons, ne_eq, not_true_eq_false]
  have hp := finish_props t'
  by_cases hsp : sp = []
  · subst hsp
    simp only [List.append_nil] at hsplit
    rw [hsplit]
    exact hp.2.1
  · right
    have h1 := hp.1
    have h2 : ('/' :: rest).length = ('/' :: t').length + sp.length := by rw [hsplit]; simp; omega
    have h3 : sp.length > 0 := List.length_pos_iff.2 hsp
    omega


/-- with fuel beyond the length of a stable string the iteration ends in a fixed point of the pass -/
theorem canonIter_fixed (cfg : Cfg) (hc : CharLaws cfg) : ∀ (n : Nat) (r : List Char), Stable cfg r → r.length ≤ n →
    canonStep cfg (canonIter cfg (n + 1) r) = canonIter cfg (n + 1) r := by
  intro n
  induction n with
  | zero =>
    intro r hr hlen
    have : r = [] := List.length_eq_zero_iff.1 (by omega)
    subst this; cases hr.1
  | succ m ih =>
    intro r hr hlen
    unfold canonIter
    simp only
    split
    · rename_i heq; rw [heq]; exact heq
    · rename_i hneq
      rcases canonStep_shrinks cfg hc r hr with h | h
      · exact absurd h hneq
      · exact ih _ (canonStep_stable cfg hc r) (by omega)

/-- the Go loop `for np != p` terminates with a fixed point: the result of CanonicalPath is
    unchanged by a further pass -/
theorem canonicalPath_fixed (cfg : Cfg) (hc : CharLaws cfg) (hl : cfg.loops = true) (p : List Char) :
    canonStep cfg (canonicalPath cfg p) = canonicalPath cfg p := by
  unfold canonicalPath
  simp only [hl, if_true]
  show canonStep cfg (canonIter cfg (p.length + 2 + 1) p) = canonIter cfg (p.length + 2 + 1) p
  unfold canonIter
  simp only
  split
  · rename_i heq; rw [heq]; exact heq
  · exact canonIter_fixed cfg hc (p.length + 1) _ (canonStep_stable cfg hc p) (canonStep_length cfg p)

/-- CanonicalPath is idempotent -/
theorem canonicalPath_idem (cfg : Cfg) (hc : CharLaws cfg) (hl : cfg.loops = true) (p : List Char) :
    canonicalPath cfg (canonicalPath cfg p) = canonicalPath cfg p := by
  have hfix := canonicalPath_fixed cfg hc hl p
  generalize canonicalPath cfg p = r at hfix
  unfold canonicalPath
  simp only [hl, if_true]
  show canonIter cfg (r.length + 2 + 1) r = r
  unfold canonIter
  simp only [hfix, if_true]

theorem toNat_ofNat_small (n : Nat) (h : n < 55296) : (Char.ofNat n).toNat = n := by
  unfold Char.ofNat
  have hv : n.isValidChar := Or.inl h
  simp [hv, Char.ofNatAux, Char.toNat]

theorem asciiLaws (loops : Bool) : CharLaws (asciiCfg loops) where
  lower_idem := by
    intro c
    simp only [asciiCfg, asciiLower]
    split
    · rename_i h
      split
      · rename_i h2
        exfalso
        obtain ⟨h2a, h2b⟩ := h2
        obtain ⟨ha, hb⟩ := h
        have ha' : 65 ≤ c.toNat := ha
        have hb' : c.toNat ≤ 90 := hb
        have : (Char.ofNat (c.toNat + 32)).toNat = c.toNat + 32 := toNat_ofNat_small _ (by omega)
        have h3 : (Char.ofNat (c.toNat + 32)).toNat ≤ 90 := h2b
        omega
      · rfl
    · rfl
  lower_slash := by simp only [asciiCfg]; decide
  slash_not_space := by simp only [asciiCfg]; decide

end IpcHub.PathCanon
