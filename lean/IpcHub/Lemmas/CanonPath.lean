/-
Machine-checked facts about the model of utils.CanonicalPath (IpcHub/Model/CanonPath.lean):
the result of `canonicalPath` is a fixed point of one pass (the fuel is never exhausted),
`canonicalPath` is idempotent, and its result always begins with '/'.
Core Lean only.
-/
import IpcHub.Model.CanonPath
namespace IpcHub.CanonPath

/-! ## hypotheses on the character functions -/

/-- the hypotheses actually used by the proofs below -/
structure HMin (cfg : Cfg) : Prop where
  /-- lower-casing is idempotent -/
  hl : ∀ c, cfg.lower (cfg.lower c) = cfg.lower c
  /-- '/' is not a blank -/
  hs : cfg.isSpace '/' = false
  /-- '/' is its own lower case -/
  hslash' : cfg.lower '/' = '/'

/-- the full list of (harmless) hypotheses on the character functions -/
structure H (cfg : Cfg) : Prop where
  hl : ∀ c, cfg.lower (cfg.lower c) = cfg.lower c
  hs : cfg.isSpace '/' = false
  hsl : ∀ c, cfg.isSpace (cfg.lower c) = cfg.isSpace c
  hslash : ∀ c, cfg.lower c = '/' ↔ c = '/'
  hdot : ∀ c, cfg.lower c = '.' ↔ c = '.'

theorem H.toMin {cfg : Cfg} (h : H cfg) : HMin cfg :=
  ⟨h.hl, h.hs, (h.hslash '/').2 rfl⟩

/-! ## trimming -/

theorem trimLeft_length_le (p : Char → Bool) : ∀ l, (trimLeft p l).length ≤ l.length := by
  intro l
  induction l with
  | nil => simp [trimLeft]
  | cons c cs ih =>
    unfold trimLeft
    split
    · simp; omega
    · simp

theorem trimRight_length_le (p : Char → Bool) : ∀ l, (trimRight p l).length ≤ l.length := by
  intro l
  induction l with
  | nil => simp [trimRight]
  | cons c cs ih =>
    unfold trimRight
    split
    · split <;> simp
    · rename_i r rs h
      rw [h] at ih
      simp at ih ⊢
      omega

theorem trim_length_le (p : Char → Bool) (l : List Char) : (trim p l).length ≤ l.length := by
  unfold trim
  exact Nat.le_trans (trimRight_length_le p _) (trimLeft_length_le p l)

/-- trimming on the right either changes nothing or strictly shortens -/
theorem trimRight_eq_or_lt (p : Char → Bool) :
    ∀ l, trimRight p l = l ∨ (trimRight p l).length < l.length := by
  intro l
  induction l with
  | nil => left; rfl
  | cons c cs ih =>
    unfold trimRight
    split
    · rename_i h
      split
      · right; simp
      · rcases ih with ih | ih
        · rw [h] at ih; subst ih; left; rfl
        · right; rw [h] at ih; simp at ih ⊢; omega
    · rename_i r rs h
      rcases ih with ih | ih
      · left; rw [← h, ih]
      · right; rw [h] at ih; simp at ih ⊢; omega

theorem trimRight_cons_of_not (p : Char → Bool) (c : Char) (cs : List Char) (hc : p c = false) :
    ∃ t, trimRight p (c :: cs) = c :: t := by
  unfold trimRight
  split
  · simp [hc]
  · exact ⟨_, rfl⟩

/-! ## splitSlash -/

theorem splitSlash_ne_nil : ∀ l, splitSlash l ≠ [] := by
  intro l
  induction l with
  | nil => simp [splitSlash]
  | cons c cs ih =>
    unfold splitSlash
    split
    · simp
    · split <;> simp

theorem splitSlash_cons_ne (c : Char) (cs s : List Char) (ss : List (List Char))
    (hc : c ≠ '/') (h : splitSlash cs = s :: ss) : splitSlash (c :: cs) = (c :: s) :: ss := by
  rw [splitSlash, if_neg hc, h]

theorem splitSlash_cons_slash (cs : List Char) : splitSlash ('/' :: cs) = [] :: splitSlash cs := by
  rw [splitSlash, if_pos rfl]

/-- a string without '/' is a single element -/
theorem splitSlash_noslash : ∀ s : List Char, '/' ∉ s → splitSlash s = [s] := by
  intro s
  induction s with
  | nil => intro _; rfl
  | cons c cs ih =>
    intro h
    simp at h
    have hc : c ≠ '/' := fun e => h.1 e.symm
    exact splitSlash_cons_ne c cs cs [] hc (ih h.2)

theorem splitSlash_append_slash : ∀ (s rest : List Char), '/' ∉ s →
    splitSlash (s ++ '/' :: rest) = s :: splitSlash rest := by
  intro s rest
  induction s with
  | nil => intro _; exact splitSlash_cons_slash rest
  | cons c cs ih =>
    intro h
    simp at h
    have hc : c ≠ '/' := fun e => h.1 e.symm
    exact splitSlash_cons_ne c _ cs _ hc (ih h.2)

/-- a trailing '/' adds one empty element -/
theorem splitSlash_snoc_slash : ∀ a : List Char, splitSlash (a ++ ['/']) = splitSlash a ++ [[]] := by
  intro a
  induction a with
  | nil => rfl
  | cons c cs ih =>
    by_cases hc : c = '/'
    · subst hc
      simp only [List.cons_append, splitSlash_cons_slash, ih]
    · cases h : splitSlash cs with
      | nil => exact absurd h (splitSlash_ne_nil cs)
      | cons s ss =>
        rw [h] at ih
        rw [List.cons_append, splitSlash_cons_ne c _ s (ss ++ [[]]) hc (by simpa using ih),
          splitSlash_cons_ne c cs s ss hc h]
        rfl

theorem splitSlash_noslash_mem : ∀ (l : List Char) (s : List Char), s ∈ splitSlash l → '/' ∉ s := by
  intro l
  induction l with
  | nil => intro s h; simp [splitSlash] at h; subst h; simp
  | cons c cs ih =>
    intro s h
    by_cases hc : c = '/'
    · subst hc
      rw [splitSlash_cons_slash] at h
      simp at h
      rcases h with h | h
      · subst h; simp
      · exact ih s h
    · cases h' : splitSlash cs with
      | nil => exact absurd h' (splitSlash_ne_nil cs)
      | cons s' ss =>
        rw [splitSlash_cons_ne c cs s' ss hc h'] at h
        rw [h'] at ih
        simp at h
        rcases h with h | h
        · subst h
          have := ih s' (by simp)
          simp
          exact ⟨fun e => hc e.symm, this⟩
        · exact ih s (by simp [h])

theorem splitSlash_mem_mem : ∀ (l : List Char) (s : List Char), s ∈ splitSlash l →
    ∀ c ∈ s, c ∈ l := by
  intro l
  induction l with
  | nil => intro s h; simp [splitSlash] at h; subst h; simp
  | cons c cs ih =>
    intro s h
    by_cases hc : c = '/'
    · subst hc
      rw [splitSlash_cons_slash] at h
      simp at h
      rcases h with h | h
      · subst h; simp
      · intro x hx; exact List.mem_cons_of_mem _ (ih s h x hx)
    · cases h' : splitSlash cs with
      | nil => exact absurd h' (splitSlash_ne_nil cs)
      | cons s' ss =>
        rw [splitSlash_cons_ne c cs s' ss hc h'] at h
        rw [h'] at ih
        simp at h
        rcases h with h | h
        · subst h
          intro x hx
          simp at hx
          rcases hx with hx | hx
          · subst hx; simp
          · exact List.mem_cons_of_mem _ (ih s' (by simp) x hx)
        · intro x hx; exact List.mem_cons_of_mem _ (ih s (by simp [h]) x hx)

/-- total size of a list of elements: every element counts for its length plus one separator -/
def total : List (List Char) → Nat
  | [] => 0
  | s :: ss => s.length + 1 + total ss

theorem total_append : ∀ a b, total (a ++ b) = total a + total b := by
  intro a b
  induction a with
  | nil => simp [total]
  | cons s ss ih => simp [total, ih]; omega

theorem total_splitSlash : ∀ l, total (splitSlash l) = l.length + 1 := by
  intro l
  induction l with
  | nil => rfl
  | cons c cs ih =>
    by_cases hc : c = '/'
    · subst hc
      rw [splitSlash_cons_slash]; simp [total, ih]; omega
    · cases h' : splitSlash cs with
      | nil => exact absurd h' (splitSlash_ne_nil cs)
      | cons s' ss =>
        rw [splitSlash_cons_ne c cs s' ss hc h']
        rw [h'] at ih
        simp [total] at ih ⊢
        omega

theorem total_reverse : ∀ a, total a.reverse = total a := by
  intro a
  induction a with
  | nil => rfl
  | cons s ss ih => simp [total_append, total, ih]; omega

/-! ## cleanStack -/

theorem cleanStack_append : ∀ a b st, cleanStack (a ++ b) st = cleanStack b (cleanStack a st) := by
  intro a
  induction a with
  | nil => intro b st; rfl
  | cons s ss ih =>
    intro b st
    simp only [List.cons_append, cleanStack]
    split
    · exact ih _ _
    · split
      · exact ih _ _
      · exact ih _ _

theorem total_tail_le (st : List (List Char)) : total st.tail ≤ total st := by
  cases st with
  | nil => simp [total]
  | cons s ss => simp [total]

theorem total_cleanStack_le : ∀ ss st, total (cleanStack ss st) ≤ total ss + total st := by
  intro ss
  induction ss with
  | nil => intro st; simp [cleanStack, total]
  | cons s ss ih =>
    intro st
    unfold cleanStack
    split
    · have := ih st.tail
      have := total_tail_le st
      simp [total]; omega
    · split
      · have := ih st
        simp [total]; omega
      · have := ih (s :: st)
        simp [total] at this ⊢; omega

/-- elements as produced by a clean: kept by path.Clean and without '/' -/
def Good (segs : List (List Char)) : Prop := ∀ s ∈ segs, keeps s = true ∧ '/' ∉ s

theorem keeps_iff (s : List Char) : keeps s = true ↔ s ≠ [] ∧ s ≠ ['.'] ∧ s ≠ ['.', '.'] := by
  unfold keeps
  simp [and_assoc]

theorem cleanStack_good : ∀ ss st, Good ss → cleanStack ss st = ss.reverse ++ st := by
  intro ss
  induction ss with
  | nil => intro st _; rfl
  | cons s ss ih =>
    intro st h
    have hs := (keeps_iff s).1 (h s (by simp)).1
    have h' : Good ss := fun x hx => h x (List.mem_cons_of_mem _ hx)
    unfold cleanStack
    rw [if_neg hs.2.2, if_neg (by simp [hs.1, hs.2.1]), ih _ h']
    simp

theorem cleanStack_mem : ∀ ss st s, s ∈ cleanStack ss st → s ∈ st ∨ (s ∈ ss ∧ keeps s = true) := by
  intro ss
  induction ss with
  | nil => intro st s h; left; exact h
  | cons x ss ih =>
    intro st s h
    unfold cleanStack at h
    split at h
    · rcases ih _ _ h with h | h
      · left; exact List.mem_of_mem_tail h
      · right; exact ⟨List.mem_cons_of_mem _ h.1, h.2⟩
    · split at h
      · rcases ih _ _ h with h | h
        · left; exact h
        · right; exact ⟨List.mem_cons_of_mem _ h.1, h.2⟩
      · rename_i h1 h2
        rcases ih _ _ h with h | h
        · simp at h
          rcases h with h | h
          · subst h
            right
            refine ⟨by simp, ?_⟩
            rw [keeps_iff]
            simp at h2
            exact ⟨h2.1, h2.2, h1⟩
          · left; exact h
        · right; exact ⟨List.mem_cons_of_mem _ h.1, h.2⟩

/-- the elements of a cleaned path are `Good` -/
theorem good_clean (p : List Char) : Good (cleanStack (splitSlash p) []).reverse := by
  intro s hs
  rw [List.mem_reverse] at hs
  rcases cleanStack_mem _ _ _ hs with h | h
  · simp at h
  · exact ⟨h.2, splitSlash_noslash_mem p s h.1⟩

/-! ## joinRooted -/

/-- strings.Join of the elements, each preceded by '/' -/
def jr : List (List Char) → List Char
  | [] => []
  | s :: rest => '/' :: (s ++ jr rest)

theorem joinRooted_cons : ∀ (s : List Char) (rest : List (List Char)),
    joinRooted (s :: rest) = '/' :: (s ++ jr rest) := by
  intro s rest
  induction rest generalizing s with
  | nil => simp [joinRooted, jr]
  | cons t rest ih => rw [joinRooted, ih t]; simp [jr]

theorem jr_length : ∀ l, (jr l).length = total l := by
  intro l
  induction l with
  | nil => rfl
  | cons s ss ih => simp [jr, total, ih]; omega

theorem joinRooted_length_cons (s : List Char) (rest : List (List Char)) :
    (joinRooted (s :: rest)).length = total (s :: rest) := by
  rw [joinRooted_cons]; simp [jr_length, total]; omega

theorem joinRooted_length_le (l : List (List Char)) (n : Nat) (hn : 1 ≤ n) (h : total l ≤ n) :
    (joinRooted l).length ≤ n := by
  cases l with
  | nil => simpa [joinRooted] using hn
  | cons s rest => rw [joinRooted_length_cons]; exact h

theorem joinRooted_head (l : List (List Char)) : (joinRooted l).head? = some '/' := by
  cases l with
  | nil => rfl
  | cons s rest => rw [joinRooted_cons]; rfl

theorem jr_mem : ∀ l c, c ∈ jr l → c = '/' ∨ ∃ s ∈ l, c ∈ s := by
  intro l
  induction l with
  | nil => intro c h; simp [jr] at h
  | cons s ss ih =>
    intro c h
    simp [jr] at h
    rcases h with h | h | h
    · left; exact h
    · right; exact ⟨s, by simp, h⟩
    · rcases ih c h with h | ⟨t, ht, hc⟩
      · left; exact h
      · right; exact ⟨t, List.mem_cons_of_mem _ ht, hc⟩

theorem joinRooted_mem (l : List (List Char)) (c : Char) (h : c ∈ joinRooted l) :
    c = '/' ∨ ∃ s ∈ l, c ∈ s := by
  cases l with
  | nil => simp [joinRooted] at h; left; exact h
  | cons s rest =>
    rw [joinRooted_cons] at h
    exact jr_mem (s :: rest) c (by simpa [jr] using h)

/-- for `Good` elements, splitting the join gives the elements back -/
theorem splitSlash_append_jr : ∀ (rest : List (List Char)) (s : List Char), '/' ∉ s → Good rest →
    splitSlash (s ++ jr rest) = s :: rest := by
  intro rest
  induction rest with
  | nil => intro s hs _; simpa [jr] using splitSlash_noslash s hs
  | cons t rest ih =>
    intro s hs h
    have ht := (h t (by simp)).2
    have h' : Good rest := fun x hx => h x (List.mem_cons_of_mem _ hx)
    rw [jr, splitSlash_append_slash s _ hs, ih t ht h']

theorem splitSlash_joinRooted (s : List Char) (rest : List (List Char)) (h : Good (s :: rest)) :
    splitSlash (joinRooted (s :: rest)) = [] :: s :: rest := by
  rw [joinRooted_cons, splitSlash_cons_slash,
    splitSlash_append_jr rest s (h s (by simp)).2 (fun x hx => h x (List.mem_cons_of_mem _ hx))]

/-! ## cleanRooted -/

theorem cleanRooted_head (p : List Char) : (cleanRooted p).head? = some '/' :=
  joinRooted_head _

theorem cleanRooted_ne_nil (p : List Char) : cleanRooted p ≠ [] := by
  intro h; have := cleanRooted_head p; rw [h] at this; cases this

/-- path.Clean never lengthens a rooted path -/
theorem cleanRooted_length_le (q : List Char) (hq : q.head? = some '/') :
    (cleanRooted q).length ≤ q.length := by
  cases q with
  | nil => cases hq
  | cons c q' =>
    simp at hq; subst hq
    unfold cleanRooted
    apply joinRooted_length_le
    · simp
    · rw [total_reverse, splitSlash_cons_slash]
      have : cleanStack ([] :: splitSlash q') [] = cleanStack (splitSlash q') [] := by
        simp [cleanStack]
      rw [this]
      have := total_cleanStack_le (splitSlash q') []
      rw [total_splitSlash] at this
      simpa [total] using this

/-- a trailing '/' is ignored by path.Clean -/
theorem cleanRooted_snoc_slash (a : List Char) : cleanRooted (a ++ ['/']) = cleanRooted a := by
  unfold cleanRooted
  rw [splitSlash_snoc_slash, cleanStack_append]
  simp [cleanStack]

/-- a clean path is a fixed point of path.Clean -/
theorem cleanRooted_joinRooted (segs : List (List Char)) (h : Good segs) :
    cleanRooted (joinRooted segs) = joinRooted segs := by
  cases segs with
  | nil => simp [joinRooted, cleanRooted, splitSlash, cleanStack]
  | cons s rest =>
    unfold cleanRooted
    rw [splitSlash_joinRooted s rest h]
    have : cleanStack ([] :: s :: rest) [] = cleanStack (s :: rest) [] := by
      simp [cleanStack]
    rw [this, cleanStack_good _ _ h]
    simp

/-- every character of a cleaned path is '/' or a character of the input -/
theorem cleanRooted_mem (p : List Char) (c : Char) (h : c ∈ cleanRooted p) : c = '/' ∨ c ∈ p := by
  unfold cleanRooted at h
  rcases joinRooted_mem _ c h with h | ⟨s, hs, hc⟩
  · left; exact h
  · right
    rw [List.mem_reverse] at hs
    rcases cleanStack_mem _ _ _ hs with h | h
    · simp at h
    · exact splitSlash_mem_mem p s h.1 c hc

/-! ## one pass -/

theorem hasPrefix_snoc : ∀ (p np : List Char) (c : Char), hasPrefix p np = true →
    p.length = np.length + 1 → p.getLast? = some c → p = np ++ [c] := by
  intro p
  induction p with
  | nil => intro np c _ h; simp at h
  | cons a as ih =>
    intro np c hp hl hc
    cases np with
    | nil =>
      simp at hl; subst hl
      simp at hc; subst hc; rfl
    | cons b bs =>
      simp [hasPrefix] at hp
      simp at hl
      cases as with
      | nil => simp at hl
      | cons a' as' =>
        rw [List.getLast?_cons_cons] at hc
        rw [hp.1, ih bs c hp.2 (by simpa using hl) hc]
        rfl

/-- the end of a pass, on the rooted lower-cased string: clean, and restore the trailing '/' -/
def finish (p : List Char) : List Char :=
  if p.getLast? = some '/' ∧ cleanRooted p ≠ ['/'] then cleanRooted p ++ ['/'] else cleanRooted p

/-- the fast path of `canonicalOnce` returns the same string as the slow path -/
theorem canonicalOnce_eq (cfg : Cfg) (p0 : List Char) :
    canonicalOnce cfg p0 =
      match (trim cfg.isSpace p0).map cfg.lower with
      | [] => ['/']
      | c :: cs => finish (if c ≠ '/' then '/' :: c :: cs else c :: cs) := by
  unfold canonicalOnce
  simp only []
  generalize (trim cfg.isSpace p0).map cfg.lower = q
  cases q with
  | nil => rfl
  | cons c cs =>
    simp only []
    generalize (if c ≠ '/' then '/' :: c :: cs else c :: cs) = p
    unfold finish
    by_cases h1 : p.getLast? = some '/'
    · by_cases h2 : cleanRooted p = ['/']
      · simp [h2]
      · simp only [h1, h2, ne_eq, not_false_eq_true, decide_true, Bool.and_self, if_true, and_self]
        split
        · rename_i h
          simp at h
          exact hasPrefix_snoc p _ '/' h.2 h.1 h1
        · rfl
    · simp [h1]

theorem finish_head (p : List Char) : (finish p).head? = some '/' := by
  unfold finish
  split
  · rw [List.head?_append]; simp [cleanRooted_head]
  · exact cleanRooted_head p

theorem canonicalOnce_head (cfg : Cfg) (p : List Char) : (canonicalOnce cfg p).head? = some '/' := by
  rw [canonicalOnce_eq]
  split
  · rfl
  · exact finish_head _

/-- a rooted string ending in '/' (other than "/") is strictly shortened by path.Clean -/
theorem finish_length_le (p : List Char) (hp : p.head? = some '/') :
    (finish p).length ≤ p.length := by
  unfold finish
  split
  · rename_i h
    rcases h with ⟨h1, h2⟩
    rcases List.getLast?_eq_some_iff.mp h1 with ⟨a, ha⟩
    subst ha
    cases a with
    | nil => exact absurd (by simp [cleanRooted, splitSlash, cleanStack, joinRooted]) h2
    | cons x xs =>
      have hx : (x :: xs).head? = some '/' := by simpa using hp
      have := cleanRooted_length_le (x :: xs) hx
      rw [cleanRooted_snoc_slash]
      simp at this ⊢
      omega
  · exact cleanRooted_length_le p hp

theorem finish_mem (p : List Char) (c : Char) (h : c ∈ finish p) : c = '/' ∨ c ∈ p := by
  unfold finish at h
  split at h
  · simp at h
    rcases h with h | h
    · exact cleanRooted_mem p c h
    · left; exact h
  · exact cleanRooted_mem p c h

/-- the shape of the result of a pass: a clean path, possibly followed by '/' -/
def Shape (r : List Char) : Prop :=
  ∃ segs, Good segs ∧ (r = joinRooted segs ∨ (segs ≠ [] ∧ r = joinRooted segs ++ ['/']))

theorem joinRooted_eq_slash (segs : List (List Char)) (h : Good segs) (e : joinRooted segs = ['/']) :
    segs = [] := by
  cases segs with
  | nil => rfl
  | cons s rest =>
    have hs := (keeps_iff s).1 (h s (by simp)).1
    have := congrArg List.length e
    rw [joinRooted_length_cons] at this
    cases s with
    | nil => exact absurd rfl hs.1
    | cons a as => simp [total] at this; omega

theorem finish_shape (p : List Char) : Shape (finish p) := by
  refine ⟨(cleanStack (splitSlash p) []).reverse, good_clean p, ?_⟩
  unfold finish
  split
  · rename_i h
    right
    refine ⟨?_, rfl⟩
    intro e
    apply h.2
    unfold cleanRooted
    rw [e]; rfl
  · left; rfl

theorem shape_head (r : List Char) (h : Shape r) : r.head? = some '/' := by
  rcases h with ⟨segs, _, h | ⟨_, h⟩⟩
  · rw [h]; exact joinRooted_head _
  · rw [h, List.head?_append]; simp [joinRooted_head]

/-- a string of the shape produced by a pass is a fixed point of `finish` -/
theorem finish_shape_fix (r : List Char) (h : Shape r) : finish r = r := by
  rcases h with ⟨segs, hg, h | ⟨hne, h⟩⟩
  · subst h
    unfold finish
    rw [cleanRooted_joinRooted segs hg]
    split
    · rename_i h
      rcases h with ⟨h1, h2⟩
      -- impossible: a clean path other than "/" does not end in '/'
      exfalso
      have hfin : (finish (joinRooted segs)).length ≤ (joinRooted segs).length :=
        finish_length_le _ (joinRooted_head _)
      unfold finish at hfin
      rw [cleanRooted_joinRooted segs hg, if_pos ⟨h1, h2⟩] at hfin
      simp at hfin
      omega
    · rfl
  · subst h
    unfold finish
    rw [cleanRooted_snoc_slash, cleanRooted_joinRooted segs hg]
    have : joinRooted segs ≠ ['/'] := fun e => hne (joinRooted_eq_slash segs hg e)
    simp [this]

theorem canonicalOnce_shape (cfg : Cfg) (p : List Char) : Shape (canonicalOnce cfg p) := by
  rw [canonicalOnce_eq]
  split
  · exact ⟨[], fun _ h => by simp at h, Or.inl rfl⟩
  · exact finish_shape _

/-- every character of the result of a pass is a fixed point of lower-casing -/
theorem canonicalOnce_lowerFixed {cfg : Cfg} (h : HMin cfg) (p : List Char) :
    ∀ c ∈ canonicalOnce cfg p, cfg.lower c = c := by
  intro c hc
  rw [canonicalOnce_eq] at hc
  split at hc
  · simp at hc; subst hc; exact h.hslash'
  · rename_i x xs hq
    have hmem : c = '/' ∨ c ∈ x :: xs := by
      rcases finish_mem _ c hc with hc | hc
      · left; exact hc
      · split at hc
        · simp at hc
          rcases hc with hc | hc | hc
          · left; exact hc
          · right; simp [hc]
          · right; simp [hc]
        · right; exact hc
    rcases hmem with hc | hc
    · subst hc; exact h.hslash'
    · rw [← hq, List.mem_map] at hc
      rcases hc with ⟨a, _, ha⟩
      rw [← ha]; exact h.hl a

/-- a pass adds at most the leading '/' -/
theorem canonicalOnce_length_le (cfg : Cfg) (p : List Char) :
    (canonicalOnce cfg p).length ≤ p.length + 1 := by
  rw [canonicalOnce_eq]
  have htrim := trim_length_le cfg.isSpace p
  generalize trim cfg.isSpace p = t at htrim
  cases t with
  | nil => simp
  | cons x xs =>
    simp only [List.map_cons]
    split
    · have := finish_length_le ('/' :: cfg.lower x :: List.map cfg.lower xs) rfl
      simp at this htrim ⊢
      omega
    · rename_i hx
      simp at hx
      have := finish_length_le (cfg.lower x :: List.map cfg.lower xs) (by simp [hx])
      simp at this htrim ⊢
      omega

theorem map_lowerFixed (cfg : Cfg) : ∀ r : List Char, (∀ c ∈ r, cfg.lower c = c) →
    r.map cfg.lower = r := by
  intro r
  induction r with
  | nil => intro _; rfl
  | cons c cs ih =>
    intro h
    simp only [List.map_cons]
    rw [h c (by simp), ih (fun x hx => h x (List.mem_cons_of_mem _ hx))]

/-- on a string of the shape produced by a pass, a further pass either changes nothing or
    strictly shortens (by trimming blanks that the clean brought to the end) -/
theorem canonicalOnce_step {cfg : Cfg} (h : HMin cfg) (r : List Char) (hshape : Shape r)
    (hfix : ∀ c ∈ r, cfg.lower c = c) :
    canonicalOnce cfg r = r ∨ (canonicalOnce cfg r).length < r.length := by
  have hhead := shape_head r hshape
  cases r with
  | nil => cases hhead
  | cons c t =>
    simp at hhead; subst hhead
    have htl : trimLeft cfg.isSpace ('/' :: t) = '/' :: t := by
      rw [trimLeft, h.hs]; rfl
    have htrim : trim cfg.isSpace ('/' :: t) = trimRight cfg.isSpace ('/' :: t) := by
      rw [trim, htl]
    rcases trimRight_eq_or_lt cfg.isSpace ('/' :: t) with he | hlt
    · left
      rw [canonicalOnce_eq, htrim, he, map_lowerFixed cfg _ hfix]
      simp only [ne_eq, not_true_eq_false, if_false]
      exact finish_shape_fix _ hshape
    · right
      rcases trimRight_cons_of_not cfg.isSpace '/' t h.hs with ⟨t', ht'⟩
      rw [canonicalOnce_eq, htrim]
      rw [ht'] at hlt ⊢
      simp only [List.map_cons, h.hslash', ne_eq, not_true_eq_false, if_false]
      have := finish_length_le ('/' :: List.map cfg.lower t') rfl
      simp at this hlt ⊢
      omega

/-- the same, on the result of a pass -/
theorem canonicalOnce_twice {cfg : Cfg} (h : HMin cfg) (y : List Char) :
    canonicalOnce cfg (canonicalOnce cfg y) = canonicalOnce cfg y ∨
      (canonicalOnce cfg (canonicalOnce cfg y)).length < (canonicalOnce cfg y).length :=
  canonicalOnce_step h _ (canonicalOnce_shape cfg y) (canonicalOnce_lowerFixed h y)

/-! ## the loop -/

theorem canonLoop_head (cfg : Cfg) : ∀ (f : Nat) (p np : List Char), np.head? = some '/' →
    (canonLoop cfg f p np).head? = some '/' := by
  intro f
  induction f with
  | zero => intro p np h; exact h
  | succ f ih =>
    intro p np h
    unfold canonLoop
    split
    · exact h
    · exact ih _ _ (canonicalOnce_head cfg np)

/-- with fuel at least the length of the current string, the loop ends on a fixed point -/
theorem canonLoop_stable {cfg : Cfg} (h : HMin cfg) : ∀ (f : Nat) (y : List Char),
    (canonicalOnce cfg y).length ≤ f →
    canonicalOnce cfg (canonLoop cfg f (canonicalOnce cfg y) (canonicalOnce cfg (canonicalOnce cfg y)))
      = canonLoop cfg f (canonicalOnce cfg y) (canonicalOnce cfg (canonicalOnce cfg y)) := by
  intro f
  induction f with
  | zero =>
    intro y hy
    have := canonicalOnce_head cfg y
    cases hc : canonicalOnce cfg y with
    | nil => rw [hc] at this; cases this
    | cons a as => rw [hc] at hy; simp at hy
  | succ f ih =>
    intro y hy
    unfold canonLoop
    split
    · rename_i he
      rw [he, he]
    · rename_i hne
      rcases canonicalOnce_twice h y with he | hlt
      · exact absurd he hne
      · exact ih (canonicalOnce cfg y) (by omega)

/-- 1. the fuel is never exhausted: the result is a fixed point of one pass -/
theorem canonicalPath_stable_min {cfg : Cfg} (h : HMin cfg) (p : List Char) :
    canonicalOnce cfg (canonicalPath cfg p) = canonicalPath cfg p := by
  unfold canonicalPath
  unfold canonLoop
  split
  · rename_i he
    rw [he, he]
  · have := canonicalOnce_length_le cfg p
    exact canonLoop_stable h (p.length + 1) p this

theorem canonicalPath_idem_of_stable (cfg : Cfg) (p : List Char)
    (hst : canonicalOnce cfg (canonicalPath cfg p) = canonicalPath cfg p) :
    canonicalPath cfg (canonicalPath cfg p) = canonicalPath cfg p := by
  generalize canonicalPath cfg p = r at hst
  unfold canonicalPath
  unfold canonLoop
  rw [if_pos hst, hst]

/-- 2. idempotence -/
theorem canonicalPath_idem_min {cfg : Cfg} (h : HMin cfg) (p : List Char) :
    canonicalPath cfg (canonicalPath cfg p) = canonicalPath cfg p :=
  canonicalPath_idem_of_stable cfg p (canonicalPath_stable_min h p)

theorem canonicalPath_stable {cfg : Cfg} (h : H cfg) (p : List Char) :
    canonicalOnce cfg (canonicalPath cfg p) = canonicalPath cfg p :=
  canonicalPath_stable_min h.toMin p

theorem canonicalPath_idem {cfg : Cfg} (h : H cfg) (p : List Char) :
    canonicalPath cfg (canonicalPath cfg p) = canonicalPath cfg p :=
  canonicalPath_idem_min h.toMin p

/-- 3. the result always begins with '/' (no hypothesis on the character functions) -/
theorem canonicalPath_head (cfg : Cfg) (p : List Char) :
    (canonicalPath cfg p).head? = some '/' :=
  canonLoop_head cfg _ _ _ (canonicalOnce_head cfg p)

theorem canonicalPath_ne_nil (cfg : Cfg) (p : List Char) : canonicalPath cfg p ≠ [] := by
  intro e; have := canonicalPath_head cfg p; rw [e] at this; cases this

/-! ## the ASCII instance satisfies the hypotheses -/

theorem toNat_ofNat_small (n : Nat) (h : n < 55296) : (Char.ofNat n).toNat = n := by
  have hv : n.isValidChar := Or.inl h
  unfold Char.ofNat
  rw [dif_pos hv]
  simp [Char.ofNatAux, Char.toNat, UInt32.toNat]

theorem char_le_iff (a b : Char) : a ≤ b ↔ a.toNat ≤ b.toNat := by
  rw [Char.le_def, UInt32.le_iff_toNat_le]; rfl

theorem char_eq_iff (a b : Char) : a = b ↔ a.toNat = b.toNat := Char.toNat_inj.symm

theorem asciiLower_toNat (c : Char) :
    (asciiLower c).toNat = if 65 ≤ c.toNat ∧ c.toNat ≤ 90 then c.toNat + 32 else c.toNat := by
  unfold asciiLower
  have hA : ('A' : Char).toNat = 65 := rfl
  have hZ : ('Z' : Char).toNat = 90 := rfl
  by_cases h : 'A' ≤ c ∧ c ≤ 'Z'
  · rw [if_pos h]
    rw [char_le_iff, char_le_iff, hA, hZ] at h
    rw [if_pos h]
    exact toNat_ofNat_small _ (by omega)
  · rw [if_neg h]
    rw [char_le_iff, char_le_iff, hA, hZ] at h
    rw [if_neg h]

theorem asciiSpace_iff (c : Char) :
    asciiSpace c = true ↔
      (c.toNat = 32 ∨ c.toNat = 9 ∨ c.toNat = 10 ∨ c.toNat = 13 ∨ c.toNat = 11 ∨ c.toNat = 12) := by
  unfold asciiSpace
  simp only [Bool.or_eq_true, decide_eq_true_eq, char_eq_iff, or_assoc]
  have h1 : (' ' : Char).toNat = 32 := rfl
  have h2 : ('\t' : Char).toNat = 9 := rfl
  have h3 : ('\n' : Char).toNat = 10 := rfl
  have h4 : ('\r' : Char).toNat = 13 := rfl
  have h5 : (Char.ofNat 11).toNat = 11 := rfl
  have h6 : (Char.ofNat 12).toNat = 12 := rfl
  rw [h1, h2, h3, h4, h5, h6]

/-- 4. the ASCII instance satisfies all the hypotheses -/
theorem asciiCfg_H : H asciiCfg where
  hl := by
    intro c
    show asciiLower (asciiLower c) = asciiLower c
    rw [char_eq_iff, asciiLower_toNat (asciiLower c), asciiLower_toNat c]
    repeat' split
    all_goals omega
  hs := by decide
  hsl := by
    intro c
    show asciiSpace (asciiLower c) = asciiSpace c
    rw [Bool.eq_iff_iff, asciiSpace_iff, asciiSpace_iff, asciiLower_toNat c]
    split <;> omega
  hslash := by
    intro c
    show asciiLower c = '/' ↔ c = '/'
    rw [char_eq_iff, char_eq_iff, asciiLower_toNat c]
    have : ('/' : Char).toNat = 47 := rfl
    rw [this]
    split <;> omega
  hdot := by
    intro c
    show asciiLower c = '.' ↔ c = '.'
    rw [char_eq_iff, char_eq_iff, asciiLower_toNat c]
    have : ('.' : Char).toNat = 46 := rfl
    rw [this]
    split <;> omega

theorem asciiCfg_HMin : HMin asciiCfg := asciiCfg_H.toMin

/-- the theorems, for the ASCII instance used by the drivers -/
theorem ascii_canonicalPath_stable (p : List Char) :
    canonicalOnce asciiCfg (canonicalPath asciiCfg p) = canonicalPath asciiCfg p :=
  canonicalPath_stable asciiCfg_H p

theorem ascii_canonicalPath_idem (p : List Char) :
    canonicalPath asciiCfg (canonicalPath asciiCfg p) = canonicalPath asciiCfg p :=
  canonicalPath_idem asciiCfg_H p

end IpcHub.CanonPath
