/-
Bits ↔ bytes: packing an aligned bit string and unpacking it again is the identity;
rbsp_trailing_bits aligns; NAL framing (header byte, emulation prevention) is undone by
RemoveH264or5EmulationBytes.
-/
import IpcHub.Lemmas.Bits
import IpcHub.Lemmas.Epb
namespace IpcHub.Bits
open IpcHub.BitSyntax IpcHub.Epb

theorem bitsOfByte_byteOf (b0 b1 b2 b3 b4 b5 b6 b7 : Bool) :
    bitsOfByte (byteOf [b0, b1, b2, b3, b4, b5, b6, b7]) = [b0, b1, b2, b3, b4, b5, b6, b7] := by
  cases b0 <;> cases b1 <;> cases b2 <;> cases b3 <;> cases b4 <;> cases b5 <;> cases b6 <;> cases b7 <;> rfl

theorem bitsOfBytes_pack (bs : List Bool) (h : bs.length % 8 = 0) : bitsOfBytes (pack bs) = bs := by
  fun_induction pack bs with
  | case1 b0 b1 b2 b3 b4 b5 b6 b7 rest ih =>
    simp only [List.length_cons] at h
    simp only [bitsOfBytes, bitsOfByte_byteOf, ih (by omega)]
    rfl
  | case2 => rfl
  | case3 bs hnot hne =>
    exfalso
    match bs, hne, hnot, h with
    | [], hne, _, _ => exact hne rfl
    | [_], _, _, h => simp at h
    | [_, _], _, _, h => simp at h
    | [_, _, _], _, _, h => simp at h
    | [_, _, _, _], _, _, h => simp at h
    | [_, _, _, _, _], _, _, h => simp at h
    | [_, _, _, _, _, _], _, _, h => simp at h
    | [_, _, _, _, _, _, _], _, _, h => simp at h
    | b0 :: b1 :: b2 :: b3 :: b4 :: b5 :: b6 :: b7 :: rest, _, hnot, _ => exact hnot b0 b1 b2 b3 b4 b5 b6 b7 rest rfl

theorem length_pack_ge (bs : List Bool) (n : Nat) (h : 8 * n ≤ bs.length) : n ≤ (pack bs).length := by
  induction n generalizing bs with
  | zero => omega
  | succ n ih =>
    match bs, h with
    | b0 :: b1 :: b2 :: b3 :: b4 :: b5 :: b6 :: b7 :: rest, h =>
      simp only [List.length_cons] at h
      simp only [pack, List.length_cons]
      have := ih rest (by omega)
      omega
    | [], h => simp at h
    | [_], h => simp at h; omega
    | [_, _], h => simp at h; omega
    | [_, _, _], h => simp at h; omega
    | [_, _, _, _], h => simp at h; omega
    | [_, _, _, _, _], h => simp at h; omega
    | [_, _, _, _, _, _], h => simp at h; omega
    | [_, _, _, _, _, _, _], h => simp at h; omega

theorem length_trailing_aligned (d : List Bool) : (d ++ trailing d.length).length % 8 = 0 := by
  simp only [trailing, List.length_append, List.length_cons, List.length_replicate]
  omega

theorem removeNaluSeparator_cons (h : UInt8) (x : List UInt8) (hne : h ≠ 0) :
    removeNaluSeparator (h :: x) = h :: x := by
  unfold removeNaluSeparator
  split
  · rename_i heq; simp at heq; exact absurd heq.1 hne
  · rename_i heq; simp at heq; exact absurd heq.1 hne
  · rfl

/-- a NAL unit built as header byte (non-zero) followed by the emulation-protected RBSP is
    turned back into header byte + RBSP by `RemoveH264or5EmulationBytes` -/
theorem removeEmulationBytes_nal (h : UInt8) (rbsp : List UInt8) (hne : h ≠ 0) :
    removeEmulationBytes (h :: insertEpb rbsp) = h :: rbsp := by
  rw [removeEmulationBytes_eq, removeNaluSeparator_cons h _ hne,
    strip_cons h _ (fun _ h0 => absurd h0 hne), strip_insertEpb]

end IpcHub.Bits
