/-
C06, loss: for every loss pattern (any subset of the sender's packets missing, the rest in
order) the H.264 depacketizer hands on exactly the units of the items whose packets all
arrived — a fragmented unit with a missing fragment is dropped as a whole, nothing truncated
or spliced is ever emitted.  Sequence numbers are UInt16; the window argument needs the stream
(or the stretch considered) to have at most 65536 packets.
-/
import IpcHub.Lemmas.DepackRound265
namespace IpcHub.DepackLoss
open IpcHub.Depack IpcHub.Packetise IpcHub.DepackBytes IpcHub.DepackRound

theorem ofNat_ne_zero (g : Nat) (h1 : 1 ≤ g) (h2 : g < 65536) : UInt16.ofNat g ≠ 0 := by
  intro h
  have := congrArg UInt16.toNat h
  simp [UInt16.toNat_ofNat'] at this
  omega

theorem gap_ne (l s : UInt16) (g : Nat) (h : l + UInt16.ofNat g + 1 = s) (h1 : 1 ≤ g) (h2 : g < 65536) : l ≠ s - 1 := by
  intro he
  have hz : UInt16.ofNat g = 0 := by grind
  exact ofNat_ne_zero g h1 h2 hz

theorem gap_step (l s : UInt16) (g : Nat) (h : l + UInt16.ofNat g + 1 = s) : l + UInt16.ofNat (g + 1) + 1 = s + 1 := by
  have : UInt16.ofNat (g + 1) = UInt16.ofNat g + 1 := by simp [UInt16.ofNat_add]
  grind

theorem gap_one (l s : UInt16) (h : l = s - 1) : l + UInt16.ofNat 1 + 1 = s + 1 := by
  have : UInt16.ofNat 1 = 1 := rfl
  grind

/-- the fragment buffer cannot be continued by any of the next `R` packets (sequence numbers
    `s`, `s+1`, …): it is empty, or its last packet lies `g ≥ 1` positions before `s` -/
def Stale (st : VSt) (s : UInt16) (R : Nat) : Prop :=
  st.frags = [] ∨ ∃ l g, st.frags.getLast? = some l ∧ l.seq + UInt16.ofNat g + 1 = s ∧ 1 ≤ g ∧ g + R ≤ 65536

theorem Stale.next {st : VSt} {s : UInt16} {R : Nat} (h : Stale st s R) (hR : 1 ≤ R) : Stale st (s + 1) (R - 1) := by
  rcases h with h | ⟨l, g, hl, hs, hg, hb⟩
  · exact Or.inl h
  · exact Or.inr ⟨l, g + 1, hl, gap_step l.seq s g hs, by omega, by omega⟩

theorem Stale.skip {st : VSt} {s : UInt16} {R : Nat} (h : Stale st s R) : ∀ n, n ≤ R → Stale st (s + UInt16.ofNat n) (R - n) := by
  intro n
  induction n with
  | zero => intro _; simpa using h
  | succ n ih =>
    intro hn
    have := (ih (by omega)).next (by omega)
    have he : s + UInt16.ofNat n + 1 = s + UInt16.ofNat (n + 1) := by
      have : UInt16.ofNat (n + 1) = UInt16.ofNat n + 1 := by simp [UInt16.ofNat_add]
      grind
    rw [he] at this
    have h2 : R - n - 1 = R - (n + 1) := by omega
    rw [h2] at this
    exact this

theorem Stale.of_nil {st : VSt} (h : st.frags = []) (s : UInt16) (R : Nat) : Stale st s R := Or.inl h

/-- a kept non-start FU-A fragment in a stale state is dropped and empties the buffer -/
theorem nonstart_stale (cfg : Cfg) (hc : RoundCfg cfg) (hn : cfg.fuaNeedsStart = true) (ok : Bytes → Bool) (h : UInt8)
    (l' : Bool) (d : Bytes) (hd : d ≠ []) (st : VSt) (s : UInt16) (ts : UInt32) (mk : Bool) (R : Nat) (hR : 1 ≤ R)
    (hs : Stale st s R) :
    vStep cfg ok .h264 st ⟨s, ts, mk, ((h &&& 0xe0) ||| 28) :: (fuFlags false l' ||| (h &&& 0x1f)) :: d⟩
      = ⟨{ st with frags := [] }, [], .ok⟩ := by
  have hd1 : 1 ≤ d.length := by
    cases d with
    | nil => exact absurd rfl hd
    | cons _ _ => simp
  have hlen1 : ¬ (((h &&& 0xe0) ||| 28) :: (fuFlags false l' ||| (h &&& 0x1f)) :: d).length < cfg.h264Min := by
    have := hc.h264Min; simp only [List.length_cons]; omega
  have hlen2 : ¬ (((h &&& 0xe0) ||| 28) :: (fuFlags false l' ||| (h &&& 0x1f)) :: d).length < cfg.fuaMin := by
    have := hc.fuaMin; simp only [List.length_cons]; omega
  have hsb : ¬ (((fuFlags false l' ||| (h &&& 0x1f)) >>> (7 : UInt8)) &&& 1 = 1) := by
    rw [fua_start_bit]; simp
  have h28a : ¬ ((28 : UInt8) < 24) := by decide
  have h28b : ¬ ((28 : UInt8) = 24) := by decide
  rcases hs with h0 | ⟨l, g, hl, hg, hg1, hgb⟩
  · simp only [vStep, h264Step, hlen1, if_false, fua_ind_type, h28a, h28b, if_true, h264FuA, hlen2, hsb, hn,
      decide_false, Bool.not_false, Bool.and_true, h0, List.isEmpty_nil, Bool.true_and]
  · have hne : st.frags.isEmpty = false := by
      cases hf : st.frags with
      | nil => rw [hf] at hl; simp at hl
      | cons _ _ => rfl
    have hlost : (l.seq != s - 1) = true := by
      simp only [bne_iff_ne, ne_eq]
      exact gap_ne l.seq s g hg hg1 (by omega)
    simp only [vStep, h264Step, hlen1, if_false, fua_ind_type, h28a, h28b, if_true, h264FuA, hlen2, hsb, hn,
      decide_false, Bool.not_false, Bool.and_true, hne, Bool.and_false, Bool.false_eq_true, hl, hlost]

theorem vRun_cons_ok (cfg : Cfg) (ok : Bytes → Bool) (c : VCodec) (st : VSt) (p : Pkt) (ps : List Pkt)
    (st1 : VSt) (out : List Frame) (hs : vStep cfg ok c st p = ⟨st1, out, .ok⟩) :
    vRun cfg ok c st (p :: ps) = ((vRun cfg ok c st1 ps).1, out ++ (vRun cfg ok c st1 ps).2.1, (vRun cfg ok c st1 ps).2.2) :=
  vRun_cons cfg ok c st p ps st1 out hs

theorem length_fuaPayloads (h : UInt8) : ∀ (ds : List Bytes) (f : Bool), (fuaPayloads h f ds).length = ds.length := by
  intro ds
  induction ds with
  | nil => intro f; rfl
  | cons d ds ih =>
    intro f
    cases ds with
    | nil => rfl
    | cons d' ds' =>
      have := ih false
      simp only [fuaPayloads, List.length_cons] at this ⊢
      omega

theorem length_mkPkts (ts : UInt32) (m : Bool) : ∀ (bs : List Bytes) (s : UInt16), (mkPkts ts m s bs).length = bs.length := by
  intro bs
  induction bs with
  | nil => intro s; rfl
  | cons b bs ih =>
    intro s
    cases bs with
    | nil => rfl
    | cons b' bs' =>
      have := ih (s + 1)
      simp only [mkPkts, List.length_cons] at this ⊢
      omega

/-- the remaining (non-start) fragments of a unit arriving — any subset of them — into a stale
    state: nothing is emitted, the state stays stale for what follows -/
theorem rest_stale (cfg : Cfg) (hc : RoundCfg cfg) (hn : cfg.fuaNeedsStart = true) (ok : Bytes → Bool) (h : UInt8)
    (ts : UInt32) (m : Bool) :
    ∀ (ds : List Bytes) (s : UInt16) (st : VSt) (R : Nat) (sa : List Pkt),
      (∀ d ∈ ds, d ≠ []) → st.ready = true → Stale st s R → ds.length ≤ R →
      sa.Sublist (mkPkts ts m s (fuaPayloads h false ds)) →
      ∃ st', vRun cfg ok .h264 st sa = (st', [], .ok) ∧ Keeps st st' ∧ Stale st' (s + UInt16.ofNat ds.length) (R - ds.length) := by
  intro ds
  induction ds with
  | nil =>
    intro s st R sa _ hr hst _ hsub
    simp only [fuaPayloads, mkPkts, List.sublist_nil] at hsub
    subst hsub
    exact ⟨st, rfl, Keeps.refl hr, by simpa using hst⟩
  | cons d ds ih =>
    intro s st R sa hne hr hst hlen hsub
    have hd := hne d (List.mem_cons_self ..)
    have hR : 1 ≤ R := by simp at hlen; omega
    have hne' : ∀ x ∈ ds, x ≠ [] := fun x hx => hne x (List.mem_cons_of_mem _ hx)
    have hs1 : s + 1 + UInt16.ofNat ds.length = s + UInt16.ofNat (ds.length + 1) := by
      have : UInt16.ofNat (ds.length + 1) = UInt16.ofNat ds.length + 1 := by simp [UInt16.ofNat_add]
      grind
    have hR1 : R - 1 - ds.length = R - (ds.length + 1) := by omega
    -- the packets: this fragment, then the rest
    obtain ⟨lastFlag, hpk⟩ : ∃ lf : Bool, ∃ mk : Bool, mkPkts ts m s (fuaPayloads h false (d :: ds))
        = ⟨s, ts, mk, ((h &&& 0xe0) ||| 28) :: (fuFlags false lf ||| (h &&& 0x1f)) :: d⟩
          :: mkPkts ts m (s + 1) (fuaPayloads h false ds) := by
      cases ds with
      | nil => exact ⟨true, m, rfl⟩
      | cons d' ds' =>
        refine ⟨false, false, ?_⟩
        rw [show fuaPayloads h false (d :: d' :: ds') = (((h &&& 0xe0) ||| 28) :: (fuFlags false false ||| (h &&& 0x1f)) :: d)
              :: fuaPayloads h false (d' :: ds') from rfl, mkPkts_cons_ne _ _ _ _ _ (fuaPayloads_ne h false d' ds')]
    obtain ⟨mk, hpk⟩ := hpk
    rw [hpk] at hsub
    rcases List.sublist_cons_iff.mp hsub with hskip | ⟨r, hr', hsub'⟩
    · -- this fragment is lost
      obtain ⟨st', hrun, hk, hs'⟩ := ih (s + 1) st (R - 1) sa hne' hr (hst.next hR) (by simp at hlen; omega) hskip
      exact ⟨st', hrun, hk, by simpa [hs1, hR1] using hs'⟩
    · -- this fragment arrives: dropped, buffer emptied
      subst hr'
      have hstep := nonstart_stale cfg hc hn ok h lastFlag d hd st s ts mk R hR hst
      obtain ⟨st', hrun, hk, hs'⟩ := ih (s + 1) { st with frags := [] } (R - 1) r hne' hr (Stale.of_nil rfl _ _)
        (by simp at hlen; omega) hsub'
      refine ⟨st', ?_, ⟨hk.ready, hk.base⟩, by simpa [hs1, hR1] using hs'⟩
      rw [vRun_cons_ok cfg ok .h264 st _ r _ _ hstep, hrun]
      simp

/-- a kept middle fragment that continues the buffer -/
theorem cont_step (cfg : Cfg) (hc : RoundCfg cfg) (ok : Bytes → Bool) (h : UInt8) (d : Bytes) (hd : d ≠ [])
    (st : VSt) (s : UInt16) (ts : UInt32) (l : Pkt) (hlast : st.frags.getLast? = some l) (hseq : l.seq = s - 1) :
    let p : Pkt := ⟨s, ts, false, ((h &&& 0xe0) ||| 28) :: (fuFlags false false ||| (h &&& 0x1f)) :: d⟩
    vStep cfg ok .h264 st p = ⟨{ st with frags := st.frags ++ [p] }, [], .ok⟩ := by
  intro p
  have hd1 : 1 ≤ d.length := by
    cases d with
    | nil => exact absurd rfl hd
    | cons _ _ => simp
  have hfrne : st.frags ≠ [] := by
    intro h0; rw [h0] at hlast; simp at hlast
  have hlen1 : ¬ (((h &&& 0xe0) ||| 28) :: (fuFlags false false ||| (h &&& 0x1f)) :: d).length < cfg.h264Min := by
    have := hc.h264Min; simp only [List.length_cons]; omega
  have hlen2 : ¬ (((h &&& 0xe0) ||| 28) :: (fuFlags false false ||| (h &&& 0x1f)) :: d).length < cfg.fuaMin := by
    have := hc.fuaMin; simp only [List.length_cons]; omega
  have hs : ¬ (((fuFlags false false ||| (h &&& 0x1f)) >>> (7 : UInt8)) &&& 1 = 1) := by
    rw [fua_start_bit]; simp
  have he : ¬ (((fuFlags false false ||| (h &&& 0x1f)) >>> (6 : UInt8)) &&& 1 = 1) := by
    rw [fua_end_bit]; simp
  have hemp : st.frags.isEmpty = false := by
    cases hf : st.frags with
    | nil => exact absurd hf hfrne
    | cons _ _ => rfl
  have h28a : ¬ ((28 : UInt8) < 24) := by decide
  have h28b : ¬ ((28 : UInt8) = 24) := by decide
  simp only [p, vStep, h264Step, hlen1, if_false, fua_ind_type, h28a, h28b, if_true, h264FuA, hlen2, hs,
    decide_false, Bool.not_false, Bool.and_true, hemp, Bool.and_false, Bool.false_eq_true, hlast, hseq,
    bne_self_eq_false, he]

/-- the remaining fragments of a unit whose earlier fragments all arrived: the unit is handed on
    iff every remaining fragment arrives too; otherwise nothing, and the state is stale -/
theorem rest_tracking (cfg : Cfg) (hc : RoundCfg cfg) (hn : cfg.fuaNeedsStart = true) (ok : Bytes → Bool) (h : UInt8)
    (hfil : (h &&& 0x1f) ≠ 12) (ts : UInt32) (m : Bool) :
    ∀ (ds : List Bytes) (s : UInt16) (st : VSt) (l : Pkt) (R : Nat) (sa : List Pkt),
      ds ≠ [] → (∀ d ∈ ds, d ≠ []) → st.ready = true → st.frags.getLast? = some l → l.seq = s - 1 →
      ds.length ≤ R → R ≤ 65536 →
      sa.Sublist (mkPkts ts m s (fuaPayloads h false ds)) →
      ∃ st', vRun cfg ok .h264 st sa
          = (st', if sa = mkPkts ts m s (fuaPayloads h false ds)
                  then [frameOf st.base (ts, h :: (fuaJoin st.frags ++ ds.flatten))] else [], .ok)
        ∧ Keeps st st' ∧ Stale st' (s + UInt16.ofNat ds.length) (R - ds.length) := by
  intro ds
  induction ds with
  | nil => intro _ _ _ _ _ h0; exact absurd rfl h0
  | cons d ds ih =>
    intro s st l R sa _ hne hr hlast hseq hlen hR64 hsub
    have hd := hne d (List.mem_cons_self ..)
    have hR : 1 ≤ R := by simp at hlen; omega
    have hne' : ∀ x ∈ ds, x ≠ [] := fun x hx => hne x (List.mem_cons_of_mem _ hx)
    have hs1 : s + 1 + UInt16.ofNat ds.length = s + UInt16.ofNat (ds.length + 1) := by
      have : UInt16.ofNat (ds.length + 1) = UInt16.ofNat ds.length + 1 := by simp [UInt16.ofNat_add]
      grind
    have hR1 : R - 1 - ds.length = R - (ds.length + 1) := by omega
    cases ds with
    | nil =>
      -- the end fragment alone
      simp only [fuaPayloads, mkPkts] at hsub ⊢
      rcases List.sublist_cons_iff.mp hsub with hskip | ⟨r, hr', hsub'⟩
      · simp only [List.sublist_nil] at hskip
        subst hskip
        refine ⟨st, by simp [vRun], Keeps.refl hr, ?_⟩
        have : Stale st (s + 1) (R - 1) := Or.inr ⟨l, 1, hlast, gap_one l.seq s hseq, by omega, by omega⟩
        simpa using this
      · simp only [List.sublist_nil] at hsub'
        subst hsub'; subst hr'
        obtain ⟨st', hrun, hk, hf⟩ := fua_rest cfg hc ok h hfil ts m [d] s st l (by simp) hne hr hlast hseq
        simp only [fuaPayloads, mkPkts] at hrun
        refine ⟨st', ?_, hk, Stale.of_nil hf _ _⟩
        rw [hrun]; simp
    | cons d' ds' =>
      rw [show fuaPayloads h false (d :: d' :: ds') = (((h &&& 0xe0) ||| 28) :: (fuFlags false false ||| (h &&& 0x1f)) :: d)
            :: fuaPayloads h false (d' :: ds') from rfl, mkPkts_cons_ne _ _ _ _ _ (fuaPayloads_ne h false d' ds')] at hsub ⊢
      rcases List.sublist_cons_iff.mp hsub with hskip | ⟨r, hr', hsub'⟩
      · -- this fragment is lost: the buffer goes stale, the rest is dropped
        have hst : Stale st (s + 1) (R - 1) := Or.inr ⟨l, 1, hlast, gap_one l.seq s hseq, by omega, by omega⟩
        obtain ⟨st', hrun, hk, hs'⟩ := rest_stale cfg hc hn ok h ts m (d' :: ds') (s + 1) st (R - 1) sa hne' hr hst
          (by simp at hlen ⊢; omega) hskip
        have hneq : sa ≠ ⟨s, ts, false, ((h &&& 0xe0) ||| 28) :: (fuFlags false false ||| (h &&& 0x1f)) :: d⟩
            :: mkPkts ts m (s + 1) (fuaPayloads h false (d' :: ds')) := by
          intro he
          have := hskip.length_le
          rw [he] at this
          simp only [List.length_cons] at this
          omega
        rw [hs1, hR1] at hs'
        refine ⟨st', ?_, hk, hs'⟩
        rw [hrun]; simp [hneq]
      · subst hr'
        have hstep := cont_step cfg hc ok h d hd st s ts l hlast hseq
        simp only at hstep
        obtain ⟨st', hrun, hk, hs'⟩ := ih (s + 1) { st with frags := st.frags ++ [⟨s, ts, false, ((h &&& 0xe0) ||| 28) :: (fuFlags false false ||| (h &&& 0x1f)) :: d⟩] }
          ⟨s, ts, false, ((h &&& 0xe0) ||| 28) :: (fuFlags false false ||| (h &&& 0x1f)) :: d⟩ (R - 1) r (by simp) hne' hr (by simp)
          (by simp [u16_succ_pred]) (by simp at hlen ⊢; omega) (by omega) hsub'
        rw [hs1, hR1] at hs'
        refine ⟨st', ?_, ⟨hk.ready, hk.base⟩, hs'⟩
        rw [vRun_cons_ok cfg ok .h264 st _ r _ _ hstep, hrun]
        by_cases hall : r = mkPkts ts m (s + 1) (fuaPayloads h false (d' :: ds'))
        · simp [hall, fuaJoin_append, frameOf]
        · simp [hall]

theorem Stale.congr {st st' : VSt} {s : UInt16} {R : Nat} (hf : st'.frags = st.frags) (h : Stale st s R) : Stale st' s R := by
  unfold Stale at *
  rw [hf]; exact h

theorem start_step (cfg : Cfg) (hc : RoundCfg cfg) (ok : Bytes → Bool) (h : UInt8) (d : Bytes) (hd : d ≠ [])
    (st : VSt) (s : UInt16) (ts : UInt32) :
    let p : Pkt := ⟨s, ts, false, ((h &&& 0xe0) ||| 28) :: (fuFlags true false ||| (h &&& 0x1f)) :: d⟩
    vStep cfg ok .h264 st p = ⟨{ st with frags := [p] }, [], .ok⟩ := by
  intro p
  have hd1 : 1 ≤ d.length := by
    cases d with
    | nil => exact absurd rfl hd
    | cons _ _ => simp
  have hlen1 : ¬ (((h &&& 0xe0) ||| 28) :: (fuFlags true false ||| (h &&& 0x1f)) :: d).length < cfg.h264Min := by
    have := hc.h264Min; simp only [List.length_cons]; omega
  have hlen2 : ¬ (((h &&& 0xe0) ||| 28) :: (fuFlags true false ||| (h &&& 0x1f)) :: d).length < cfg.fuaMin := by
    have := hc.fuaMin; simp only [List.length_cons]; omega
  have hs : (((fuFlags true false ||| (h &&& 0x1f)) >>> (7 : UInt8)) &&& 1 = 1) := by
    rw [fua_start_bit]
  have he : ¬ (((fuFlags true false ||| (h &&& 0x1f)) >>> (6 : UInt8)) &&& 1 = 1) := by
    rw [fua_end_bit]; simp
  have h28a : ¬ ((28 : UInt8) < 24) := by decide
  have h28b : ¬ ((28 : UInt8) = 24) := by decide
  simp only [p, vStep, h264Step, hlen1, if_false, fua_ind_type, h28a, h28b, if_true, h264FuA, hlen2, hs,
    decide_true, Bool.not_true, Bool.and_false, Bool.false_and, Bool.false_eq_true, List.getLast?_nil, he,
    List.nil_append]

/-- one item under loss: its units are handed on iff all its packets arrive -/
theorem item_loss (cfg : Cfg) (hc : RoundCfg cfg) (hn : cfg.fuaNeedsStart = true) (ok : Bytes → Bool) (st : VSt) (s : UInt16)
    (it : Item) (R : Nat) (sa : List Pkt) (hr : st.ready = true) (hl : legal264F it = true) (hf : itemNoFiller it = true)
    (hst : Stale st s R) (hlen : (payloads264 it).length ≤ R) (hR64 : R ≤ 65536)
    (hsub : sa.Sublist (mkPkts it.ts it.marker s (payloads264 it))) :
    ∃ st', vRun cfg ok .h264 st sa
        = (st', if sa = mkPkts it.ts it.marker s (payloads264 it) then it.units.map (frameOf st.base) else [], .ok)
      ∧ Keeps st st' ∧ Stale st' (s + UInt16.ofNat (payloads264 it).length) (R - (payloads264 it).length) := by
  have one : ∀ (ts : UInt32) (pl : Bytes) (mk : Bool) (us : List (UInt32 × Bytes)),
      (∃ st', vStep cfg ok .h264 st ⟨s, ts, mk, pl⟩ = ⟨st', us.map (frameOf st.base), .ok⟩ ∧ Keeps st st' ∧ st'.frags = st.frags) →
      1 ≤ R → ∀ sa : List Pkt, sa.Sublist [⟨s, ts, mk, pl⟩] →
      ∃ st', vRun cfg ok .h264 st sa = (st', if sa = [⟨s, ts, mk, pl⟩] then us.map (frameOf st.base) else [], .ok)
        ∧ Keeps st st' ∧ Stale st' (s + UInt16.ofNat 1) (R - 1) := by
    intro ts pl mk us ⟨st1, hstep, hk, hfr⟩ hR sa hsub
    have h1 : s + UInt16.ofNat 1 = s + 1 := rfl
    rcases List.sublist_cons_iff.mp hsub with hskip | ⟨r, hr', hsub'⟩
    · simp only [List.sublist_nil] at hskip
      subst hskip
      exact ⟨st, by simp [vRun], Keeps.refl hr, by rw [h1]; exact hst.next hR⟩
    · simp only [List.sublist_nil] at hsub'
      subst hsub'; subst hr'
      refine ⟨st1, ?_, hk, by rw [h1]; exact (hst.next hR).congr hfr⟩
      rw [vRun_cons_ok cfg ok .h264 st _ [] _ _ hstep]
      simp [vRun]
  cases it with
  | single ts m nal =>
    simp only [legal264F] at hl
    simp only [itemNoFiller, Item.nals, List.all_cons, List.all_nil, Bool.and_true] at hf
    have hlen' : 1 ≤ R := by simpa [payloads264] using hlen
    exact one ts nal m [(ts, nal)] (by
      obtain ⟨st', hs, hk, hfr⟩ := single_step cfg hc ok st s ts m nal hr hl hf
      exact ⟨st', by simpa [vStep] using hs, hk, hfr⟩) hlen' sa hsub
  | agg ts m ns =>
    simp only [legal264F, Bool.and_eq_true, Bool.not_eq_true', List.all_eq_true, decide_eq_true_eq] at hl
    simp only [itemNoFiller, Item.nals, List.all_eq_true] at hf
    obtain ⟨hne, hall⟩ := hl
    have hne' : ns ≠ [] := by
      intro h0; rw [h0] at hne; simp at hne
    have hlen' : 1 ≤ R := by simpa [payloads264] using hlen
    have := one ts (stapaHdr ns :: aggBody ns) m (ns.map (fun n => (ts, n))) (by
      obtain ⟨st', hs, hk, hfr⟩ := agg_step cfg hc ok st s ts m ns hr hne' (fun n hn => ⟨(hall n hn).1, (hall n hn).2, hf n hn⟩)
      exact ⟨st', by simpa [vStep, frameOf, Function.comp_def] using hs, hk, hfr⟩) hlen' sa hsub
    exact this
  | frag ts m nal cuts =>
    simp only [itemNoFiller, Item.nals, List.all_cons, List.all_nil, Bool.and_true] at hf
    simp only [legal264F, Bool.and_eq_true] at hl
    obtain ⟨hok, hcut⟩ := hl
    cases nal with
    | nil => simp [nalOk264F] at hok
    | cons h data =>
      have hf12 : (h &&& 0x1f) ≠ 12 := by simpa [notFiller] using hf
      simp only [cutsOk, Bool.and_eq_true, Bool.not_eq_true', List.all_eq_true, decide_eq_true_eq,
        List.length_cons, Nat.add_sub_cancel] at hcut
      obtain ⟨⟨hcne, hcpos⟩, hsum⟩ := hcut
      cases cuts with
      | nil => simp at hcne
      | cons c cs =>
        have hall := chunks_all_ne (c :: cs) data (fun x hx => hcpos x hx) hsum
        have hflat := chunks_flatten (c :: cs) data
        obtain ⟨d1, ds, hds⟩ : ∃ d1 ds, chunks cs (List.drop c data) = d1 :: ds := by
          cases hch : chunks cs (List.drop c data) with
          | nil => exact absurd hch (chunks_ne_nil _ _)
          | cons d1 ds => exact ⟨d1, ds, rfl⟩
        simp only [chunks, hds] at hall hflat
        have hp : payloads264 (.frag ts m (h :: data) (c :: cs))
              = (((h &&& 0xe0) ||| 28) :: (fuFlags true false ||| (h &&& 0x1f)) :: List.take c data)
                :: fuaPayloads h false (d1 :: ds) := by
          simp only [payloads264, chunks, hds]; rfl
        rw [hp] at hsub hlen ⊢
        have hn2 : ((((h &&& 0xe0) ||| 28) :: (fuFlags true false ||| (h &&& 0x1f)) :: List.take c data)
                :: fuaPayloads h false (d1 :: ds)).length = (d1 :: ds).length + 1 := by
          rw [List.length_cons, length_fuaPayloads]
        rw [hn2] at hlen ⊢
        have hmk : mkPkts ts m s ((((h &&& 0xe0) ||| 28) :: (fuFlags true false ||| (h &&& 0x1f)) :: List.take c data)
                :: fuaPayloads h false (d1 :: ds))
              = ⟨s, ts, false, ((h &&& 0xe0) ||| 28) :: (fuFlags true false ||| (h &&& 0x1f)) :: List.take c data⟩
                :: mkPkts ts m (s + 1) (fuaPayloads h false (d1 :: ds)) :=
          mkPkts_cons_ne _ _ _ _ _ (fuaPayloads_ne h false d1 ds)
        show ∃ st', vRun cfg ok .h264 st sa
            = (st', if sa = mkPkts ts m s ((((h &&& 0xe0) ||| 28) :: (fuFlags true false ||| (h &&& 0x1f)) :: List.take c data)
                :: fuaPayloads h false (d1 :: ds)) then [frameOf st.base (ts, h :: data)] else [], .ok)
          ∧ Keeps st st' ∧ Stale st' (s + UInt16.ofNat ((d1 :: ds).length + 1)) (R - ((d1 :: ds).length + 1))
        change sa.Sublist (mkPkts ts m s ((((h &&& 0xe0) ||| 28) :: (fuFlags true false ||| (h &&& 0x1f)) :: List.take c data)
                :: fuaPayloads h false (d1 :: ds))) at hsub
        rw [hmk] at hsub ⊢
        have hd0 : List.take c data ≠ [] := hall _ (List.mem_cons_self ..)
        have hne' : ∀ x ∈ d1 :: ds, x ≠ [] := fun x hx => hall x (List.mem_cons_of_mem _ hx)
        have hR : 1 ≤ R := by omega
        have hs1 : s + 1 + UInt16.ofNat (d1 :: ds).length = s + UInt16.ofNat ((d1 :: ds).length + 1) := by
          have : UInt16.ofNat ((d1 :: ds).length + 1) = UInt16.ofNat (d1 :: ds).length + 1 := by simp [UInt16.ofNat_add]
          grind
        have hR1 : R - 1 - (d1 :: ds).length = R - ((d1 :: ds).length + 1) := by omega
        rcases List.sublist_cons_iff.mp hsub with hskip | ⟨r, hr', hsub'⟩
        · -- the start fragment is lost: everything else of the unit is dropped
          obtain ⟨st', hrun, hk, hs'⟩ := rest_stale cfg hc hn ok h ts m (d1 :: ds) (s + 1) st (R - 1) sa hne' hr (hst.next hR)
            (by omega) hskip
          have hneq : sa ≠ ⟨s, ts, false, ((h &&& 0xe0) ||| 28) :: (fuFlags true false ||| (h &&& 0x1f)) :: List.take c data⟩
              :: mkPkts ts m (s + 1) (fuaPayloads h false (d1 :: ds)) := by
            intro he
            have := hskip.length_le
            rw [he] at this
            simp only [List.length_cons] at this
            omega
          rw [hs1, hR1] at hs'
          refine ⟨st', ?_, hk, hs'⟩
          rw [hrun]; simp [hneq]
        · subst hr'
          have hstep := start_step cfg hc ok h (List.take c data) hd0 st s ts
          simp only at hstep
          obtain ⟨st', hrun, hk, hs'⟩ := rest_tracking cfg hc hn ok h hf12 ts m (d1 :: ds) (s + 1)
            { st with frags := [⟨s, ts, false, ((h &&& 0xe0) ||| 28) :: (fuFlags true false ||| (h &&& 0x1f)) :: List.take c data⟩] }
            ⟨s, ts, false, ((h &&& 0xe0) ||| 28) :: (fuFlags true false ||| (h &&& 0x1f)) :: List.take c data⟩ (R - 1) r
            (by simp) hne' hr (by simp) (by simp) (by omega) (by omega) hsub'
          rw [hs1, hR1] at hs'
          refine ⟨st', ?_, ⟨hk.ready, hk.base⟩, hs'⟩
          rw [vRun_cons_ok cfg ok .h264 st _ r _ _ hstep, hrun]
          have hdata : List.take c data ++ (d1 ++ ds.flatten) = data := by simpa using hflat
          by_cases hallr : r = mkPkts ts m (s + 1) (fuaPayloads h false (d1 :: ds))
          · simp [hallr, fuaJoin, frameOf, hdata]
          · simp [hallr]

/-! ### whole streams -/

/-- an arrival under loss, item by item: of every item's packets any subset arrives, in order -/
def Lossy (pl : Item → List Bytes) : UInt16 → List Item → List (List Pkt) → Prop
  | _, [], [] => True
  | s, it :: its, a :: as =>
    a.Sublist (mkPkts it.ts it.marker s (pl it)) ∧ Lossy pl (s + UInt16.ofNat (pl it).length) its as
  | _, _, _ => False

/-- the units of the items whose packets ALL arrived -/
def survivors (pl : Item → List Bytes) : UInt16 → List Item → List (List Pkt) → List (UInt32 × Bytes)
  | s, it :: its, a :: as =>
    (if a = mkPkts it.ts it.marker s (pl it) then it.units else [])
      ++ survivors pl (s + UInt16.ofNat (pl it).length) its as
  | _, _, _ => []

def totalPkts (pl : Item → List Bytes) (items : List Item) : Nat := (items.map (fun it => (pl it).length)).sum

/-- every in-order loss pattern of the sender's packet list is such an item-wise arrival -/
theorem sublist_decompose (pl : Item → List Bytes) :
    ∀ (items : List Item) (s : UInt16) (arr : List Pkt), arr.Sublist (packetsWith pl s items) →
      ∃ arrs, Lossy pl s items arrs ∧ arr = arrs.flatten := by
  intro items
  induction items with
  | nil =>
    intro s arr h
    simp only [packetsWith, List.sublist_nil] at h
    exact ⟨[], trivial, by simp [h]⟩
  | cons it its ih =>
    intro s arr h
    simp only [packetsWith] at h
    obtain ⟨a, b, hab, ha, hb⟩ := List.sublist_append_iff.mp h
    obtain ⟨arrs, hl, hfl⟩ := ih _ b hb
    exact ⟨a :: arrs, ⟨ha, hl⟩, by simp [hab, hfl]⟩

theorem h264_loss (cfg : Cfg) (hc : RoundCfg cfg) (hn : cfg.fuaNeedsStart = true) (ok : Bytes → Bool) :
    ∀ (items : List Item) (s : UInt16) (st : VSt) (R : Nat) (arrs : List (List Pkt)),
      (∀ it ∈ items, legal264F it = true ∧ itemNoFiller it = true) → st.ready = true → Stale st s R →
      totalPkts payloads264 items ≤ R → R ≤ 65536 → Lossy payloads264 s items arrs →
      ∃ st', vRun cfg ok .h264 st arrs.flatten
          = (st', (survivors payloads264 s items arrs).map (frameOf st.base), .ok) ∧ Keeps st st' := by
  intro items
  induction items with
  | nil =>
    intro s st R arrs _ hr _ _ _ hl
    cases arrs with
    | nil => exact ⟨st, by simp [vRun, survivors], Keeps.refl hr⟩
    | cons _ _ => exact absurd hl (by simp [Lossy])
  | cons it its ih =>
    intro s st R arrs hall hr hst htot hR64 hl
    cases arrs with
    | nil => exact absurd hl (by simp [Lossy])
    | cons a as =>
      obtain ⟨ha, hl'⟩ := hl
      obtain ⟨hleg, hfil⟩ := hall it (List.mem_cons_self ..)
      have htot' : (payloads264 it).length + totalPkts payloads264 its ≤ R := by
        simpa [totalPkts] using htot
      obtain ⟨st1, h1, k1, s1⟩ := item_loss cfg hc hn ok st s it R a hr hleg hfil hst (by omega) hR64 ha
      obtain ⟨st2, h2, k2⟩ := ih (s + UInt16.ofNat (payloads264 it).length) st1 (R - (payloads264 it).length) as
        (fun x hx => hall x (List.mem_cons_of_mem _ hx)) k1.ready s1 (by omega) (by omega) hl'
      refine ⟨st2, ?_, k1.trans k2⟩
      simp only [List.flatten_cons, survivors]
      rw [vRun_append cfg ok .h264 _ _ st st1 _ h1, h2, k1.base]
      split <;> simp

end IpcHub.DepackLoss
