/-
C11 — a right never covers a path that is two or more sections shorter than each of its masks.

The documented language (Spec/PatternLang.lean) lets a trailing `*` stand for ZERO or more
remaining sections, so `/live/*` covers `/live`; but every section before it has to be met by a
section of the path.  A mask of n+1 sections therefore needs a path of at least n sections:
`/live/room1/*` covers neither `/live` nor anything above it.  (Seeded change C11d merged the two
length guards of `pathMacher.Match` and let exactly these paths through.)
-/
import IpcHub.Spec.PatternLang
import IpcHub.Lemmas.PathMatch
namespace IpcHub.PatternLang
open IpcHub.PathMatch

/-- every section of the pattern but a trailing `*` consumes one section of the path -/
theorem segMatch_short (ps xs : List (List Char)) (h : xs.length + 1 < ps.length) :
    segMatch ps xs = false := by
  induction ps generalizing xs with
  | nil => simp at h
  | cons p ps ih =>
    cases ps with
    | nil => simp at h
    | cons q qs =>
      cases xs with
      | nil => simp [segMatch]
      | cons x xs' =>
        have h' : xs'.length + 1 < (q :: qs).length := by
          simp only [List.length_cons] at h ⊢; omega
        have e : segMatch (p :: q :: qs) (x :: xs') = ((p = ['+'] || p = x) && segMatch (q :: qs) xs') := by
          rw [segMatch]; simp
        rw [e, ih xs' h']; simp

/-- … and one that is exactly one section shorter is covered only under a trailing `*` -/
theorem segMatch_one_short (ps xs : List (List Char)) (h : xs.length + 1 = ps.length)
    (hl : ps.getLast? ≠ some ['*']) : segMatch ps xs = false := by
  induction ps generalizing xs with
  | nil => simp at h
  | cons p ps ih =>
    cases ps with
    | nil =>
      have hx : xs = [] := by
        cases xs with
        | nil => rfl
        | cons _ _ => simp at h
      have hp : p ≠ ['*'] := by simpa using hl
      subst hx
      simp [segMatch, hp]
    | cons q qs =>
      cases xs with
      | nil => simp [segMatch]
      | cons x xs' =>
        have h' : xs'.length + 1 = (q :: qs).length := by
          simp only [List.length_cons] at h ⊢; omega
        have hl' : (q :: qs).getLast? ≠ some ['*'] := by
          simpa [List.getLast?_cons_cons] using hl
        have e : segMatch (p :: q :: qs) (x :: xs') = ((p = ['+'] || p = x) && segMatch (q :: qs) xs') := by
          rw [segMatch]; simp
        rw [e, ih xs' h' hl']; simp

theorem segs_length_pos (lower : Char → Char) (s : List Char) : 1 ≤ (segs lower s).length := by
  unfold segs
  have := splitOn_ne_nil '/' ((trim isSlash s).map lower)
  cases hs : splitOn '/' ((trim isSlash s).map lower) with
  | nil => exact absurd hs this
  | cons _ _ => simp

theorem patMatch_short (lower : Char → Char) (pat path : List Char)
    (h : (segs lower path).length + 1 < (segs lower pat).length) :
    patMatch lower pat path = false := by
  unfold patMatch
  split
  · next hp =>
    subst hp
    -- `*` alone has one section: nothing is two sections shorter
    have h1 : (segs lower ['*']).length ≤ 2 := by
      have e : trim isSlash ['*'] = ['*'] := by decide
      simp only [segs, e, List.map, splitOn]
      split <;> simp
    have h2 := segs_length_pos lower path
    omega
  · exact segMatch_short _ _ h

/-- **A right covers no path two or more sections shorter than each of its masks** — whatever the
    sections are (literal, `+`), with or without the end wildcard, for a non-administrator or a
    non-empty right. -/
theorem specPermits_short (lower : Char → Char) (isSpace : Char → Bool)
    (right : List Char) (admin : Bool) (path : List Char)
    (hadm : admin = false ∨ right ≠ [])
    (h : ∀ pat ∈ patterns isSpace right,
      (segs lower (trim isSpace path)).length + 1 < (segs lower pat).length) :
    specPermits lower isSpace right admin path = false := by
  have hr : (if (admin && right.isEmpty) = true then ['*'] else right) = right := by
    rcases hadm with h1 | h1
    · simp [h1]
    · cases right with
      | nil => exact absurd rfl h1
      | cons _ _ => simp
  simp only [specPermits, hr, List.any_eq_false]
  intro pat hpat
  simp [patMatch_short lower pat _ (h pat hpat)]

end IpcHub.PatternLang
