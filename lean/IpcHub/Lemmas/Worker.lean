import IpcHub.Model.Worker
namespace IpcHub.Worker

/-- invariant of the protocol when Close wakes through the queue lock -/
structure Inv (s : St) : Prop where
  started_closed : s.closeStarted = true → s.closed = true
  done_started : s.closeDone = true → s.closeStarted = true
  checked_has : s.closeDone = true → s.pc = .checked → none ∈ s.queue
  waiting_sig : s.closeDone = true → s.pc = .waiting → s.signalled = true

theorem inv_init : Inv {} := ⟨by simp, by simp, by simp, by simp⟩

theorem Inv.done_closed {s : St} (h : Inv s) (hd : s.closeDone = true) : s.closed = true :=
  h.started_closed (h.done_started hd)

theorem inv_step (cfg : Cfg) (hc : cfg.wakeViaPush = true) (s : St) (l : Label) (h : Inv s) : Inv (step cfg s l) := by
  cases l with
  | w =>
    simp only [step]
    cases hpc : s.pc with
    | top =>
      simp only
      by_cases hcl : s.closed = true
      · rw [if_pos hcl]
        exact ⟨h.started_closed, h.done_started, by intro _ x; simp at x, by intro _ x; simp at x⟩
      · rw [if_neg hcl]
        have hnd : s.closeDone = false := by
          cases hd : s.closeDone with
          | false => rfl
          | true => exact absurd (h.done_closed hd) hcl
        exact ⟨h.started_closed, h.done_started, by intro x; simp [hnd] at x, by intro x; simp [hnd] at x⟩
    | checked =>
      simp only
      cases hq : s.queue with
      | nil =>
        simp only
        have hnd : s.closeDone = false := by
          cases hd : s.closeDone with
          | false => rfl
          | true => have := h.checked_has hd hpc; simp [hq] at this
        exact ⟨h.started_closed, h.done_started, by intro x; simp [hnd] at x, by intro x; simp [hnd] at x⟩
      | cons e q =>
        simp only
        exact ⟨h.started_closed, h.done_started, by intro _ x; simp at x, by intro _ x; simp at x⟩
    | waiting =>
      simp only
      by_cases hs : s.signalled = true
      · rw [if_pos hs]
        simp only [pop]
        cases s.queue with
        | nil => exact ⟨h.started_closed, h.done_started, by intro _ x; simp at x, by intro _ x; simp at x⟩
        | cons e q => exact ⟨h.started_closed, h.done_started, by intro _ x; simp at x, by intro _ x; simp at x⟩
      · rw [if_neg hs]; exact h
    | got e =>
      cases e with
      | none => exact ⟨h.started_closed, h.done_started, by intro _ x; simp at x, by intro _ x; simp at x⟩
      | some x => exact ⟨h.started_closed, h.done_started, by intro _ x; simp at x, by intro _ x; simp at x⟩
    | exited => simp only; exact h
  | push x =>
    simp only [step]
    refine ⟨h.started_closed, h.done_started, ?_, ?_⟩
    · intro hd hp; simp only [List.mem_append]; left; exact h.checked_has hd hp
    · intro hd hp
      simp only at hp
      simp [hp]
  | closeFlag =>
    simp only [step]
    by_cases hcs : (s.closeStarted || s.closed) = true
    · rw [if_pos hcs]; exact h
    · rw [if_neg hcs]
      have hns : s.closeStarted = false := by
        cases hx : s.closeStarted with
        | false => rfl
        | true => simp [hx] at hcs
      have hnd : s.closeDone = false := by
        cases hd : s.closeDone with
        | false => rfl
        | true => have := h.done_started hd; simp [hns] at this
      exact ⟨by intro _; rfl, by intro _; rfl, by intro x; simp [hnd] at x, by intro x; simp [hnd] at x⟩
  | closeWake =>
    simp only [step]
    by_cases hcs : (s.closeStarted && !s.closeDone) = true
    · rw [if_pos hcs, if_pos hc]
      have hst : s.closeStarted = true := by
        cases hx : s.closeStarted with
        | false => simp [hx] at hcs
        | true => rfl
      refine ⟨h.started_closed, by intro _; exact hst, ?_, ?_⟩
      · intro _ _; simp
      · intro _ hp
        simp only at hp
        simp [hp]
    · rw [if_neg hcs]; exact h

theorem inv_run (cfg : Cfg) (hc : cfg.wakeViaPush = true) (s : St) (ls : List Label) (h : Inv s) :
    Inv (run cfg s ls) := by
  induction ls generalizing s with
  | nil => exact h
  | cons l ls ih => exact ih _ (inv_step cfg hc s l h)

/-- closeDone and closed are stable -/
theorem closeDone_step (cfg : Cfg) (s : St) (l : Label) (h : s.closeDone = true) : (step cfg s l).closeDone = true := by
  cases l with
  | w =>
    simp only [step]
    cases s.pc with
    | top => simp only; split <;> exact h
    | checked => simp only; cases s.queue <;> exact h
    | waiting => simp only; split
                 · simp only [pop]; cases s.queue <;> exact h
                 · exact h
    | got e => cases e <;> exact h
    | exited => exact h
  | push x => exact h
  | closeFlag => simp only [step]; split <;> exact h
  | closeWake => simp only [step]; split
                 · split <;> rfl
                 · exact h

/-- with the invariant and Close completed, a worker step is enabled and strictly lowers the rank;
    every other step leaves the rank unchanged -/
theorem rank_w (cfg : Cfg) (s : St) (h : Inv s) (hd : s.closeDone = true) (hne : s.pc ≠ .exited) :
    rank (step cfg s .w).pc < rank s.pc := by
  have hcl := h.done_closed hd
  simp only [step]
  cases hpc : s.pc with
  | top => simp [hcl, rank]
  | checked =>
    have := h.checked_has hd hpc
    cases hq : s.queue with
    | nil => simp [hq] at this
    | cons e q => simp [rank]
  | waiting =>
    have := h.waiting_sig hd hpc
    simp only [this, if_true, pop]
    cases s.queue <;> simp [rank]
  | got e => cases e <;> simp [rank]
  | exited => exact absurd hpc hne

theorem rank_other (cfg : Cfg) (s : St) (l : Label) (hl : l ≠ .w) : (step cfg s l).pc = s.pc := by
  cases l with
  | w => exact absurd rfl hl
  | push x => rfl
  | closeFlag => simp only [step]; split <;> rfl
  | closeWake => simp only [step]; split
                 · split <;> rfl
                 · rfl

theorem exited_stable (cfg : Cfg) (s : St) (l : Label) (h : s.pc = .exited) : (step cfg s l).pc = .exited := by
  by_cases hl : l = .w
  · subst hl; simp [step, h]
  · rw [rank_other cfg s l hl]; exact h

/-- number of worker steps in a schedule -/
def wcount (ls : List Label) : Nat := (ls.filter (· = .w)).length

theorem terminates_aux (cfg : Cfg) (hc : cfg.wakeViaPush = true) (ls : List Label) :
    ∀ s : St, Inv s → s.closeDone = true → rank s.pc ≤ wcount ls → (run cfg s ls).pc = .exited := by
  induction ls with
  | nil =>
    intro s _ _ hr
    simp [wcount] at hr
    cases hpc : s.pc <;> simp [hpc, rank] at hr
    simp [run, hpc]
  | cons l ls ih =>
    intro s hi hd hr
    simp only [run, List.foldl_cons]
    have hi' := inv_step cfg hc s l hi
    have hd' := closeDone_step cfg s l hd
    by_cases hl : l = .w
    · subst hl
      by_cases hex : s.pc = .exited
      · apply ih _ hi' hd'
        rw [exited_stable cfg s .w hex]; simp [rank]
      · have := rank_w cfg s hi hd hex
        apply ih _ hi' hd'
        simp [wcount] at hr ⊢
        omega
    · apply ih _ hi' hd'
      rw [rank_other cfg s l hl]
      have : wcount (l :: ls) = wcount ls := by simp [wcount, hl]
      omega

end IpcHub.Worker
