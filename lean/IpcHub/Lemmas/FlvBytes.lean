/-
Byte-level lemmas for C08: big-endian encoders of the model against the readers of the
specification, UInt8 bit-twiddling facts (by exhaustive evaluation), 32-bit time arithmetic.
-/
import IpcHub.Model.Flv
import IpcHub.Spec.FlvParse
namespace IpcHub.FlvLemmas
open IpcHub.Flv IpcHub.FlvSpec

/-- a property of every byte, from its 256 instances -/
theorem forall_u8 (P : UInt8 → Prop) (h : ∀ n : Fin 256, P (UInt8.ofNat n.val)) : ∀ x, P x := by
  intro x
  have := h ⟨x.toNat, x.toNat_lt⟩
  simpa using this

theorem b8_toNat (n : Nat) : (b8 n).toNat = n % 256 := by
  simp [b8, UInt8.toNat_ofNat']

theorem u16_be (n : Nat) : u16 (b8 (n / 256)) (b8 n) = n % 65536 := by
  simp only [u16, b8_toNat]; omega

theorem u24_be (n : Nat) : u24 (b8 (n / 65536)) (b8 (n / 256)) (b8 n) = n % 16777216 := by
  simp only [u24, b8_toNat]; omega

theorem u32_be (n : Nat) :
    u32 (b8 (n / 16777216)) (b8 (n / 65536)) (b8 (n / 256)) (b8 n) = n % 4294967296 := by
  simp only [u32, b8_toNat]; omega

theorem be16_eq (n : Nat) : be16 n = [b8 (n / 256), b8 n] := rfl
theorem be24_eq (n : Nat) : be24 n = [b8 (n / 65536), b8 (n / 256), b8 n] := rfl
theorem be32_eq (n : Nat) : be32 n = [b8 (n / 16777216), b8 (n / 65536), b8 (n / 256), b8 n] := rfl

theorem be16_length (n : Nat) : (be16 n).length = 2 := rfl
theorem be24_length (n : Nat) : (be24 n).length = 3 := rfl
theorem be32_length (n : Nat) : (be32 n).length = 4 := rfl
theorem be64_length (n : Nat) : (be64 n).length = 8 := rfl

/-! ### 32-bit time arithmetic -/

theorem u32OfInt_toNat (x : Int) : ((u32OfInt x).toNat : Int) = x % 4294967296 := by
  have h : 0 ≤ x % 4294967296 := Int.emod_nonneg x (by decide)
  have h2 : x % 4294967296 < 4294967296 := Int.emod_lt_of_pos x (by decide)
  simp only [u32OfInt, UInt32.toNat_ofNat']
  omega

/-- the unsigned 32-bit difference of two truncated times is the true difference modulo 2^32 -/
theorem u32_sub_toNat (t t0 : Int) :
    (((u32OfInt t) - (u32OfInt t0)).toNat : Int) = (t - t0) % 4294967296 := by
  have a := u32OfInt_toNat t
  have b := u32OfInt_toNat t0
  have la := (u32OfInt t).toNat_lt
  have lb := (u32OfInt t0).toNat_lt
  rw [UInt32.toNat_sub]
  omega

/-- `si24` undoes the 24-bit truncation of a composition time offset in the SI24 range -/
theorem si24_cts (d : Int) (h1 : -8388608 ≤ d) (h2 : d < 8388608) :
    si24 ((u32OfInt d).toNat % 16777216) = d := by
  have a := u32OfInt_toNat d
  unfold si24
  split <;> omega

end IpcHub.FlvLemmas
