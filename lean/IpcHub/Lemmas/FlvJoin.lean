/-
C08 lemmas about a client that joins a running stream: the FLV cache model (Model/FlvCacheM.lean)
run over the tags the muxer model produces, and the writer run over the replay.
-/
import IpcHub.Lemmas.FlvMux
import IpcHub.Lemmas.FlvCacheM
import IpcHub.Model.FlvJoin
set_option linter.unusedSimpArgs false
namespace IpcHub.FlvLemmas
open IpcHub.Flv IpcHub.FlvSpec
open IpcHub.Media (suffixFromLast)

/-! ### how the cache classifies the muxer's tags -/

theorem tagKind_videoData (ft codec : UInt8) (cts ts : UInt32) (body : Bytes)
    (hft : ft = frameTypeKey ∨ ft = frameTypeInter) (hc : codec = codecAVC ∨ codec = codecHEVC) :
    FlvCacheM.tagKind (FlvJoin.ofTag { tagType := tagTypeVideo, timestamp := ts,
                                        data := videoDataBytes ft codec pktNalu cts body })
      = if ft = frameTypeKey then .key else .other := by
  rcases hft with rfl | rfl <;> rcases hc with rfl | rfl <;>
    simp +decide [FlvCacheM.tagKind, FlvCacheM.isMetadata, FlvCacheM.isVideoSeqHeader, FlvCacheM.isAacSeqHeader,
      FlvCacheM.isKeyFrame, FlvCacheM.isH2645, FlvJoin.ofTag, videoDataBytes, be24_eq, tagTypeVideo, frameTypeKey,
      frameTypeInter, codecAVC, codecHEVC, pktNalu]

theorem tagKind_videoSeq (codec : UInt8) (ts : UInt32) (body : Bytes) (hc : codec = codecAVC ∨ codec = codecHEVC) :
    FlvCacheM.tagKind (FlvJoin.ofTag { tagType := tagTypeVideo, timestamp := ts,
                                        data := videoDataBytes frameTypeKey codec pktSeqHeader 0 body })
      = .vseq := by
  rcases hc with rfl | rfl <;>
    simp +decide [FlvCacheM.tagKind, FlvCacheM.isMetadata, FlvCacheM.isVideoSeqHeader, FlvCacheM.isAacSeqHeader,
      FlvCacheM.isKeyFrame, FlvCacheM.isH2645, FlvJoin.ofTag, videoDataBytes, be24_eq, tagTypeVideo, frameTypeKey,
      codecAVC, codecHEVC, pktSeqHeader, pktNalu]

theorem tagKind_aac (am : AudioMeta) (pt : UInt8) (ts : UInt32) (body : Bytes) (hpt : pt = aacSeqHeader ∨ pt = aacRaw) :
    FlvCacheM.tagKind (FlvJoin.ofTag { tagType := tagTypeAudio, timestamp := ts, data := aacData am pt body })
      = if pt = aacSeqHeader then .aseq else .other := by
  obtain ⟨r1, r2, r3⟩ := aac_template_ranges am
  have key : ∀ r : Fin 4, ∀ s : Fin 2, ∀ t : Fin 2,
      ((soundFormatAAC <<< 4) ||| ((UInt8.ofNat r.val &&& 3) <<< 2) |||
        ((UInt8.ofNat s.val &&& 1) <<< 1) ||| (UInt8.ofNat t.val &&& 1)).toNat / 16 % 16 = 10 := by decide
  have hr' : (aacRate am.sampleRate).toNat < 4 := r1
  have hs' : (aacSize am.sampleSize).toNat < 2 := r2
  have ht' : (aacType am.channels).toNat < 2 := r3
  have hb := key ⟨_, hr'⟩ ⟨_, hs'⟩ ⟨_, ht'⟩
  simp only [UInt8.ofNat_toNat] at hb
  rcases hpt with rfl | rfl
  · simp only [FlvCacheM.tagKind, FlvCacheM.isMetadata, FlvCacheM.isVideoSeqHeader, FlvCacheM.isAacSeqHeader,
      FlvJoin.ofTag, aacData, audioDataBytes, if_true, hb]
    simp +decide [tagTypeAudio, aacSeqHeader]
  · simp only [FlvCacheM.tagKind, FlvCacheM.isMetadata, FlvCacheM.isVideoSeqHeader, FlvCacheM.isAacSeqHeader,
      FlvCacheM.isKeyFrame, FlvJoin.ofTag, aacData, audioDataBytes, if_true, hb]
    simp +decide [tagTypeAudio, aacSeqHeader, aacRaw]

theorem tagKind_metadata (vm : VideoMeta) (am : AudioMeta) (date : Bytes) :
    FlvCacheM.tagKind (FlvJoin.ofTag (metadataTag vm am date)) = .mdata := by
  have hname : strBytes "onMetaData" = FlvCacheM.onMetaData := by decide
  simp +decide [FlvCacheM.tagKind, FlvCacheM.isMetadata, FlvJoin.ofTag, metadataTag, scriptDataBytes, amfUtf8, be16,
    FlvCacheM.amfString, tagTypeScript, hname, FlvCacheM.onMetaData, b8]

/-- the cache sees the tag of a carried frame as a key frame exactly when the frame is one -/
theorem packetize_kind (vm : VideoMeta) (am : AudioMeta) (f : Frame) (hcodec : vm.codec ≠ .other)
    (hc : carried (srcOf vm am) f = true) (t : Tag) (hp : packetize vm am f = ([t], false)) :
    FlvCacheM.tagKind (FlvJoin.ofTag t) = if isKeyFrame (srcOf vm am) f then .key else .other := by
  have hKI : (frameTypeInter = frameTypeKey) = False := by decide
  by_cases h0 : f.mediaType = 0
  · cases hhd : f.payload.head? with
    | none => simp [packetize, h0, videoTag, hhd] at hp
    | some hd =>
      obtain ⟨k5, k4⟩ := key_flag_agrees hd
      cases hcd : vm.codec with
      | other => exact absurd hcd hcodec
      | h265 =>
        simp only [packetize, h0, if_true, videoTag, hhd, hcd] at hp
        simp only [Prod.mk.injEq, List.cons.injEq, and_true] at hp
        subst hp
        rw [tagKind_videoData _ _ _ _ _ (by split <;> simp) (Or.inr rfl)]
        simp only [isKeyFrame, srcOf, hcd, h0, isKeyNal, hhd, decide_true, Bool.true_and, if_true, ← k5]
        split <;> simp_all
      | h264 =>
        simp only [packetize, h0, if_true, videoTag, hhd, hcd] at hp
        simp only [Prod.mk.injEq, List.cons.injEq, and_true] at hp
        subst hp
        rw [tagKind_videoData _ _ _ _ _ (by split <;> simp) (Or.inl (by simp))]
        simp only [isKeyFrame, srcOf, hcd, h0, isKeyNal, hhd, decide_true, Bool.true_and, ← k4]
        split <;> simp_all
  · have h1 : f.mediaType = 1 ∧ am.aac = true := by
      simp only [carried, srcOf, h0, decide_false, Bool.false_or, Bool.and_eq_true, decide_eq_true_eq] at hc
      exact hc
    have h10 : ((1 : Int) = 0) = False := by decide
    simp only [packetize, h1.1, h10, if_false, h1.2, if_true, Prod.mk.injEq, List.cons.injEq, and_true] at hp
    subst hp
    have := tagKind_aac am aacRaw (u32OfInt (msOf f.pts)) f.payload (Or.inr rfl)
    simp only [audioTag, this, isKeyFrame, h0, decide_false, Bool.false_and]
    simp +decide

theorem videoSeq_kind (vm : VideoMeta) (vt : Tag) (h : videoSeqHeaderTag vm = .ok vt) :
    FlvCacheM.tagKind (FlvJoin.ofTag vt) = .vseq := by
  cases hc : vm.codec with
  | h265 =>
    simp only [videoSeqHeaderTag, hc, Except.ok.injEq] at h
    subst h
    exact tagKind_videoSeq codecHEVC 0 _ (Or.inr rfl)
  | h264 =>
    simp only [videoSeqHeaderTag, hc] at h
    cases hr : avcRecord vm.sps vm.pps with
    | error e => simp [hr] at h
    | ok body =>
      simp only [hr, Except.ok.injEq] at h
      subst h
      exact tagKind_videoSeq codecAVC 0 _ (Or.inl rfl)
  | other =>
    simp only [videoSeqHeaderTag, hc] at h
    cases hr : avcRecord vm.sps vm.pps with
    | error e => simp [hr] at h
    | ok body =>
      simp only [hr, Except.ok.injEq] at h
      subst h
      exact tagKind_videoSeq codecAVC 0 _ (Or.inl rfl)

theorem audioSeq_kind (am : AudioMeta) : FlvCacheM.tagKind (FlvJoin.ofTag (audioSeqHeaderTag am)) = .aseq := by
  have := tagKind_aac am aacSeqHeader 0 am.asc (Or.inl rfl)
  simpa [audioSeqHeaderTag] using this

/-! ### the media tags as a function of the carried frames -/

/-- the tag of a carried frame (the only tag `packetize` produces for it) -/
def mtag (vm : VideoMeta) (am : AudioMeta) (f : Frame) : Tag :=
  match (packetize vm am f).1 with
  | t :: _ => t
  | [] => { tagType := 0, timestamp := 0, data := [] }

theorem mtag_spec (vm : VideoMeta) (am : AudioMeta) (f : Frame) (hcodec : vm.codec ≠ .other)
    (hc : carried (srcOf vm am) f = true) (hok : FrameFits f) :
    packetize vm am f = ([mtag vm am f], false) ∧ Tag.wf (mtag vm am f) ∧
    (mtag vm am f).timestamp = u32OfInt (tagTimeMs f) ∧
    (∀ d, mediaTagCarries (srcOf vm am) f (viewTag (mtag vm am f) d) = true) ∧
    FlvCacheM.tagKind (FlvJoin.ofTag (mtag vm am f)) = (if isKeyFrame (srcOf vm am) f then .key else .other) := by
  obtain ⟨t, hp, hwf, hts, hcar⟩ := packetize_carried vm am f hcodec hc hok
  have hm : mtag vm am f = t := by simp [mtag, hp]
  rw [hm]
  exact ⟨hp, hwf, hts, hcar, packetize_kind vm am f hcodec hc t hp⟩

theorem mediaTags_map (vm : VideoMeta) (am : AudioMeta) (hcodec : vm.codec ≠ .other) :
    ∀ (frames : List Frame), (∀ f ∈ frames, carried (srcOf vm am) f = true → FrameFits f) →
      mediaTags vm am frames = (frames.filter (carried (srcOf vm am))).map (mtag vm am) ∧
      (∀ f ∈ frames, (packetize vm am f).2 = false) := by
  intro frames
  induction frames with
  | nil => intro _; simp [mediaTags]
  | cons f fs ih =>
    intro hall
    obtain ⟨i1, i2⟩ := ih (fun g hg => hall g (by simp [hg]))
    by_cases hcar : carried (srcOf vm am) f = true
    · obtain ⟨hp, _⟩ := mtag_spec vm am f hcodec hcar (hall f (by simp) hcar)
      refine ⟨by simp [mediaTags, hp, hcar, i1], ?_⟩
      intro g hg
      rcases List.mem_cons.1 hg with rfl | hg
      · rw [hp]
      · exact i2 g hg
    · have hcar' : carried (srcOf vm am) f = false := by simpa using hcar
      have hp := packetize_not_carried vm am f hcar'
      refine ⟨by simp [mediaTags, hp, hcar', i1], ?_⟩
      intro g hg
      rcases List.mem_cons.1 hg with rfl | hg
      · rw [hp]
      · exact i2 g hg

/-! ### list lemmas: the suffix from the last key frame -/

theorem suffixFromLast_map {α β} (g : α → β) (q : β → Bool) (l : List α) :
    suffixFromLast q (l.map g) = (suffixFromLast (fun a => q (g a)) l).map g := by
  induction l with
  | nil => rfl
  | cons x xs ih =>
    simp only [List.map_cons, suffixFromLast, ih]
    cases h : suffixFromLast (fun a => q (g a)) xs with
    | nil => by_cases hq : q (g x) = true <;> simp [hq]
    | cons r rs => simp

theorem suffixFromLast_congr {α} (p q : α → Bool) (l : List α) (h : ∀ a ∈ l, p a = q a) :
    suffixFromLast p l = suffixFromLast q l := by
  induction l with
  | nil => rfl
  | cons x xs ih =>
    have ih' := ih (fun a ha => h a (by simp [ha]))
    simp only [suffixFromLast, ih', h x (by simp)]

theorem fromLastKey_suffix (s : Src) (l : List Frame) :
    (fromLastKey s l = none ∧ suffixFromLast (isKeyFrame s) l = []) ∨
    (∃ g gs, fromLastKey s l = some (g :: gs) ∧ suffixFromLast (isKeyFrame s) l = g :: gs) := by
  induction l with
  | nil => left; exact ⟨rfl, rfl⟩
  | cons x xs ih =>
    rcases ih with ⟨h1, h2⟩ | ⟨g, gs, h1, h2⟩
    · by_cases hk : isKeyFrame s x = true
      · right; exact ⟨x, xs, by simp [fromLastKey, h1, hk], by simp [suffixFromLast, h2, hk]⟩
      · left; exact ⟨by simp [fromLastKey, h1, hk], by simp [suffixFromLast, h2, hk]⟩
    · right; exact ⟨g, gs, by simp [fromLastKey, h1], by simp [suffixFromLast, h2]⟩

/-! ### the cache after the muxer's tags -/

theorem restamp_self (t : FlvCacheM.FTag) (h : t.ts = 0) : FlvCacheM.restamp 0 t = t := by
  cases t; simp only [FlvCacheM.restamp] at *; simp [h]

/-- timestamp of the last tag of a list (0 for the empty list) -/
def lastTs (l : List FlvCacheM.FTag) : Nat := match l.getLast? with | some t => t.ts | none => 0

/-- the cached GOP after the media tags `msj` -/
def gopOf (gop : Bool) (msj : List FlvCacheM.FTag) : List FlvCacheM.FTag :=
  if gop then suffixFromLast (fun t => FlvCacheM.tagKind t = .key) msj else []

/-- the time stamp of the replayed headers -/
def stampOf (sn : Bool) (G msj : List FlvCacheM.FTag) : Nat :=
  match G with
  | [] => if sn then lastTs msj else 0
  | t :: _ => t.ts

theorem initTs_stamp (c : FlvCacheM.FCache) (sn : Bool) (G msj : List FlvCacheM.FTag)
    (h4 : c.gop = G) (h5 : c.stampNow = sn) (h6 : c.last = lastTs msj) : c.initTs = stampOf sn G msj := by
  unfold FlvCacheM.FCache.initTs stampOf
  rw [h4, h5, h6]
  cases G <;> rfl

/-- the cache after the configuration tags and any number of media tags -/
theorem cache_state (gop sn : Bool) (m v : FlvCacheM.FTag) (a : Option FlvCacheM.FTag)
    (hm : FlvCacheM.tagKind m = .mdata) (hv : FlvCacheM.tagKind v = .vseq) (ha : ∀ x ∈ a, FlvCacheM.tagKind x = .aseq)
    (ms : List FlvCacheM.FTag) (hms : ∀ t ∈ ms, FlvCacheM.isMedia t = true)
    (c : FlvCacheM.FCache) (hc : c = FlvCacheM.cacheG gop sn (m :: v :: a.toList ++ ms)) :
    c.mdata = some m ∧ c.vseq = some v ∧ c.aseq = a ∧
    c.gop = gopOf gop ms ∧ c.stampNow = sn ∧ c.last = lastTs ms := by
  unfold gopOf lastTs
  obtain ⟨_, fm, fv, fa, fg⟩ := FlvCacheM.fspec_cacheG gop sn (m :: v :: a.toList ++ ms)
  obtain ⟨l1, l2⟩ := FlvCacheM.last_cacheG gop sn (m :: v :: a.toList ++ ms)
  rw [← hc] at fm fv fa fg l1 l2
  have hk : ∀ t ∈ ms, FlvCacheM.tagKind t = .key ∨ FlvCacheM.tagKind t = .other := by
    intro t ht; simpa [FlvCacheM.isMedia] using hms t ht
  have nm : ms.filter (fun t => decide (FlvCacheM.tagKind t = .mdata)) = [] := by
    apply List.filter_eq_nil_iff.2; intro t ht; rcases hk t ht with h | h <;> simp [h]
  have nv : ms.filter (fun t => decide (FlvCacheM.tagKind t = .vseq)) = [] := by
    apply List.filter_eq_nil_iff.2; intro t ht; rcases hk t ht with h | h <;> simp [h]
  have na : ms.filter (fun t => decide (FlvCacheM.tagKind t = .aseq)) = [] := by
    apply List.filter_eq_nil_iff.2; intro t ht; rcases hk t ht with h | h <;> simp [h]
  have nk : ms.filter (fun t => decide (FlvCacheM.tagKind t = .key ∨ FlvCacheM.tagKind t = .other)) = ms := by
    apply List.filter_eq_self.2; intro t ht; simpa using hk t ht
  have nmed : ms.filter FlvCacheM.isMedia = ms := List.filter_eq_self.2 hms
  have e1 : FlvCacheM.isMedia m = false := by simp [FlvCacheM.isMedia, hm]
  have e2 : FlvCacheM.isMedia v = false := by simp [FlvCacheM.isMedia, hv]
  cases a with
  | none =>
    simp only [Option.toList_none, List.nil_append, List.filter_cons, List.filter_append, hm, hv, nm, nv, na, nk, nmed, e1, e2] at fm fv fa fg l2
    refine ⟨?_, ?_, ?_, ?_, l1, ?_⟩
    · rw [fm]; simp
    · rw [fv]; simp
    · rw [fa]; simp
    · rw [fg]; simp
    · rw [l2]; simp only [Bool.false_eq_true, if_false, List.filter_nil, List.nil_append]; cases ms.getLast? <;> rfl
  | some x =>
    have hx := ha x rfl
    have e3 : FlvCacheM.isMedia x = false := by simp [FlvCacheM.isMedia, hx]
    simp only [Option.toList_some, List.cons_append, List.nil_append, List.filter_cons, List.filter_append, hm, hv, hx, nm, nv, na, nk,
      nmed, e1, e2, e3] at fm fv fa fg l2
    refine ⟨?_, ?_, ?_, ?_, l1, ?_⟩
    · rw [fm]; simp
    · rw [fv]; simp
    · rw [fa]; simp
    · rw [fg]; simp
    · rw [l2]; simp only [Bool.false_eq_true, if_false, List.filter_nil, List.nil_append]; cases ms.getLast? <;> rfl

/-- what a client that joins after `k` tags of (configuration tags ++ media tags) is handed: the
    configuration tags re-stamped, the cached GOP, the media tags from the join point on -/
theorem expected_join (gop sn : Bool) (m v : FlvCacheM.FTag) (a : Option FlvCacheM.FTag)
    (hm : FlvCacheM.tagKind m = .mdata) (hv : FlvCacheM.tagKind v = .vseq) (ha : ∀ x ∈ a, FlvCacheM.tagKind x = .aseq)
    (hm0 : m.ts = 0) (hv0 : v.ts = 0) (ha0 : ∀ x ∈ a, x.ts = 0)
    (ms : List FlvCacheM.FTag) (hms : ∀ t ∈ ms, FlvCacheM.isMedia t = true) (k : Nat) :
    FlvCacheM.expectedFrom { cacheGop := gop, stampNow := sn } (m :: v :: a.toList ++ ms) k =
      (m :: v :: a.toList).map
          (FlvCacheM.restamp (stampOf sn (gopOf gop (ms.take (k - (m :: v :: a.toList).length)))
            (ms.take (k - (m :: v :: a.toList).length)))) ++
        gopOf gop (ms.take (k - (m :: v :: a.toList).length)) ++
        ms.drop (k - (m :: v :: a.toList).length) := by
  have hcG : ∀ l, FlvCacheM.cacheFrom { cacheGop := gop, stampNow := sn } l = FlvCacheM.cacheG gop sn l := fun _ => rfl
  by_cases hk : (m :: v :: a.toList).length ≤ k
  · -- all configuration tags are cached
    have htake : (m :: v :: a.toList ++ ms).take k =
        m :: v :: a.toList ++ ms.take (k - (m :: v :: a.toList).length) := by
      rw [List.take_append, List.take_of_length_le hk]
    have hdrop : (m :: v :: a.toList ++ ms).drop k = ms.drop (k - (m :: v :: a.toList).length) := by
      rw [List.drop_append, List.drop_of_length_le hk, List.nil_append]
    have hms' : ∀ t ∈ ms.take (k - (m :: v :: a.toList).length), FlvCacheM.isMedia t = true :=
      fun t ht => hms t (List.mem_of_mem_take ht)
    obtain ⟨c1, c2, c3, c4, c5, c6⟩ := cache_state gop sn m v a hm hv ha _ hms' _ rfl
    have hI := initTs_stamp _ sn _ _ c4 c5 c6
    simp only [FlvCacheM.expectedFrom, htake, hdrop, hcG, FlvCacheM.FCache.pushTo, FlvCacheM.FCache.headers, c1, c2, c3, hI, c4]
    cases a <;> simp
  · -- the client joins inside the configuration prefix: nothing of it is lost or re-stamped
    have hlt : k < (m :: v :: a.toList).length := by omega
    have hj : k - (m :: v :: a.toList).length = 0 := by omega
    rw [hj]
    have hG : gopOf gop (ms.take 0) = [] := by simp [gopOf, suffixFromLast]
    have hS : stampOf sn [] (ms.take 0) = 0 := by cases sn <;> simp [stampOf, lastTs]
    rw [hG, hS]
    have hrm := restamp_self m hm0
    have hrv := restamp_self v hv0
    cases a with
    | none =>
      simp only [Option.toList_none, List.length_cons, List.length_nil] at hlt
      have : k = 0 ∨ k = 1 := by omega
      rcases this with rfl | rfl
      · simp [FlvCacheM.expectedFrom, FlvCacheM.cacheFrom, FlvCacheM.FCache.pushTo, FlvCacheM.FCache.headers, hrm, hrv]
      · simp [FlvCacheM.expectedFrom, FlvCacheM.cacheFrom, FlvCacheM.FCache.pushTo, FlvCacheM.FCache.headers,
          FlvCacheM.pack_kind, hm, FlvCacheM.packK, FlvCacheM.FCache.initTs, hrm, hrv]
    | some x =>
      have hrx := restamp_self x (ha0 x rfl)
      have hx := ha x rfl
      simp only [Option.toList_some, List.length_cons, List.length_nil] at hlt
      have : k = 0 ∨ k = 1 ∨ k = 2 := by omega
      rcases this with rfl | rfl | rfl
      · simp [FlvCacheM.expectedFrom, FlvCacheM.cacheFrom, FlvCacheM.FCache.pushTo, FlvCacheM.FCache.headers, hrm, hrv, hrx]
      · simp [FlvCacheM.expectedFrom, FlvCacheM.cacheFrom, FlvCacheM.FCache.pushTo, FlvCacheM.FCache.headers,
          FlvCacheM.pack_kind, hm, FlvCacheM.packK, FlvCacheM.FCache.initTs, hrm, hrv, hrx]
      · simp [FlvCacheM.expectedFrom, FlvCacheM.cacheFrom, FlvCacheM.FCache.pushTo, FlvCacheM.FCache.headers,
          FlvCacheM.pack_kind, hm, hv, FlvCacheM.packK, FlvCacheM.FCache.initTs, hrm, hrv, hrx]

/-! ### the cache's replay against the specification's `joinView` -/

theorem lastTs_map (g : Frame → FlvCacheM.FTag) (l : List Frame) :
    lastTs (l.map g) = (match l.getLast? with | some f => (g f).ts | none => 0) := by
  unfold lastTs
  rw [List.getLast?_map]
  cases l.getLast? <;> rfl

/-- the media part of the replay and its time stamp are those of `joinView` -/
theorem joinView_model (vm : VideoMeta) (am : AudioMeta) (hcodec : vm.codec ≠ .other) (gop : Bool)
    (cf : List Frame) (hcf : ∀ f ∈ cf, carried (srcOf vm am) f = true ∧ FrameFits f) (j : Nat) :
    gopOf gop ((cf.take j).map (fun f => FlvJoin.ofTag (mtag vm am f))) ++
        (cf.drop j).map (fun f => FlvJoin.ofTag (mtag vm am f)) =
      (joinView (srcOf vm am) gop cf j).2.map (fun f => FlvJoin.ofTag (mtag vm am f)) ∧
    stampOf true (gopOf gop ((cf.take j).map (fun f => FlvJoin.ofTag (mtag vm am f))))
        ((cf.take j).map (fun f => FlvJoin.ofTag (mtag vm am f))) =
      (u32OfInt (joinView (srcOf vm am) gop cf j).1).toNat := by
  have hts : ∀ f ∈ cf, (FlvJoin.ofTag (mtag vm am f)).ts = (u32OfInt (tagTimeMs f)).toNat := by
    intro f hf
    obtain ⟨_, _, h3, _, _⟩ := mtag_spec vm am f hcodec (hcf f hf).1 (hcf f hf).2
    simp [FlvJoin.ofTag, h3]
  have hkind : ∀ f ∈ cf.take j, (decide (FlvCacheM.tagKind (FlvJoin.ofTag (mtag vm am f)) = .key)) = isKeyFrame (srcOf vm am) f := by
    intro f hf
    have hf' := List.mem_of_mem_take hf
    obtain ⟨_, _, _, _, h5⟩ := mtag_spec vm am f hcodec (hcf f hf').1 (hcf f hf').2
    rw [h5]; cases isKeyFrame (srcOf vm am) f <;> simp
  have hsuf : suffixFromLast (fun t => decide (FlvCacheM.tagKind t = .key)) ((cf.take j).map (fun f => FlvJoin.ofTag (mtag vm am f))) =
      (suffixFromLast (isKeyFrame (srcOf vm am)) (cf.take j)).map (fun f => FlvJoin.ofTag (mtag vm am f)) := by
    rw [suffixFromLast_map]
    congr 1
    exact suffixFromLast_congr _ _ _ hkind
  have h0 : (u32OfInt 0).toNat = 0 := by decide
  have hlast : lastTs ((cf.take j).map (fun f => FlvJoin.ofTag (mtag vm am f))) =
      (u32OfInt (lastTime (cf.take j))).toNat := by
    rw [lastTs_map]
    unfold lastTime
    cases hl : (cf.take j).getLast? with
    | none => simp [h0]
    | some l =>
      have : l ∈ cf := List.mem_of_mem_take (List.mem_of_getLast? hl)
      simp [hts l this]
  cases gop with
  | false =>
    simp only [gopOf, joinView, Bool.false_eq_true, if_false, List.nil_append, stampOf, if_true, hlast, and_self]
  | true =>
    simp only [gopOf, if_true, hsuf, joinView]
    rcases fromLastKey_suffix (srcOf vm am) (cf.take j) with ⟨h1, h2⟩ | ⟨g0, gs, h1, h2⟩
    · simp only [h1, h2, List.map_nil, List.nil_append, stampOf, if_true, hlast, and_self]
    · have hg0 : g0 ∈ cf := by
        have : g0 ∈ suffixFromLast (isKeyFrame (srcOf vm am)) (cf.take j) := by rw [h2]; simp
        have hsub : ∀ (l : List Frame) x, x ∈ suffixFromLast (isKeyFrame (srcOf vm am)) l → x ∈ l := by
          intro l
          induction l with
          | nil => intro x hx; simp [suffixFromLast] at hx
          | cons y ys ih =>
            intro x hx
            simp only [suffixFromLast] at hx
            cases hs : suffixFromLast (isKeyFrame (srcOf vm am)) ys with
            | nil =>
              rw [hs] at hx
              by_cases hq : isKeyFrame (srcOf vm am) y = true
              · simpa [hq] using hx
              · simp [hq] at hx
            | cons r rs =>
              rw [hs] at hx
              exact List.mem_cons_of_mem _ (ih x (by rw [hs]; exact hx))
        exact List.mem_of_mem_take (hsub _ _ this)
      simp only [h1, h2, List.map_cons, List.map_append, stampOf, hts g0 hg0, List.cons_append, and_self]

/-! ### the writer over the replay -/

theorem toTag_ofTag (t : Tag) (h : Tag.wf t) : FlvJoin.toTag (FlvJoin.ofTag t) = t := by
  obtain ⟨hf, hs, _, _⟩ := h
  cases t
  simp only [FlvJoin.toTag, FlvJoin.ofTag] at *
  simp [hf, hs]

/-- the copy `PushTo` makes of a configuration tag, as the writer sees it -/
def stamped (X : UInt32) (t : Tag) : Tag := { t with timestamp := X }

theorem toTag_restamp (t : Tag) (h : Tag.wf t) (I : Nat) :
    FlvJoin.toTag (FlvCacheM.restamp I (FlvJoin.ofTag t)) = stamped (UInt32.ofNat I) t := by
  obtain ⟨hf, hs, _, _⟩ := h
  cases t
  simp only [FlvJoin.toTag, FlvJoin.ofTag, FlvCacheM.restamp, stamped] at *
  simp [hf, hs]

theorem stamped_wf (X : UInt32) (t : Tag) (h : Tag.wf t) : Tag.wf (stamped X t) := h

/-- the media tags of the frames a joiner is owed, written after a first tag stamped `base` -/
theorem mediaOk_join (cfg : Cfg) (hc : Cfg.writerFixed cfg) (vm : VideoMeta) (am : AudioMeta) (hcodec : vm.codec ≠ .other)
    (base : Int) :
    ∀ (mf : List Frame),
      (∀ f ∈ mf, carried (srcOf vm am) f = true ∧ FrameFits f ∧
        -2147483648 ≤ tagTimeMs f - base ∧ tagTimeMs f - base < 2147483648) →
      mediaOk (srcOf vm am) base mf
        ((mf.map (mtag vm am)).map
          (fun t => viewTag t (Writer.rebase cfg { delta := u32OfInt base, started := true } t))) = true := by
  intro mf
  induction mf with
  | nil => intro _; simp [mediaOk]
  | cons f fs ih =>
    intro h
    obtain ⟨h1, h2, h3, h4⟩ := h f (by simp)
    obtain ⟨_, _, hts, hcar, _⟩ := mtag_spec vm am f hcodec h1 h2
    have hreb := rebase_fixed_tag cfg hc base (tagTimeMs f) (mtag vm am f) hts h3 h4
    have ih' := ih (fun g hg => h g (by simp [hg]))
    simp only [List.map_cons, mediaOk, hcar, ih', Bool.true_and, Bool.and_true, decide_eq_true_eq]
    simp only [viewTag, hreb]

theorem suffixFromLast_subset {α} (q : α → Bool) : ∀ (l : List α) x, x ∈ suffixFromLast q l → x ∈ l := by
  intro l
  induction l with
  | nil => intro x hx; simp [suffixFromLast] at hx
  | cons y ys ih =>
    intro x hx
    simp only [suffixFromLast] at hx
    cases hs : suffixFromLast q ys with
    | nil =>
      rw [hs] at hx
      by_cases hq : q y = true
      · simpa [hq] using hx
      · simp [hq] at hx
    | cons r rs =>
      rw [hs] at hx
      exact List.mem_cons_of_mem _ (ih x (by rw [hs]; exact hx))

/-- a joiner is only ever owed frames of the stream -/
theorem joinView_mem (s : Src) (gop : Bool) (cf : List Frame) (j : Nat) :
    ∀ f ∈ (joinView s gop cf j).2, f ∈ cf := by
  intro f hf
  unfold joinView at hf
  cases gop with
  | false =>
    simp only [Bool.false_eq_true, if_false] at hf
    exact List.mem_of_mem_drop hf
  | true =>
    simp only [if_true] at hf
    rcases fromLastKey_suffix s (cf.take j) with ⟨h1, _⟩ | ⟨g0, gs, h1, h2⟩
    · simp only [h1] at hf
      exact List.mem_of_mem_drop hf
    · simp only [h1, List.mem_append] at hf
      rcases hf with hf | hf
      · exact List.mem_of_mem_take (suffixFromLast_subset _ _ _ (by rw [h2]; exact hf))
      · exact List.mem_of_mem_drop hf

theorem joinTags_nil (cfg : Cfg) (gop : Bool) (k : Nat) : FlvJoin.joinTags cfg gop [] k = [] := by
  simp [FlvJoin.joinTags, FlvCacheM.expectedFrom, FlvCacheM.cacheFrom, FlvCacheM.FCache.pushTo, FlvCacheM.FCache.headers]

/-- C08 for a client that joins the running stream after `k` tags, generic in the behaviour
    switches: see `c08_joiner_end_to_end` -/
theorem checkJoinedAt_joinBytes (cfg : Cfg) (hc : Cfg.writerFixed cfg) (hg : cfg.gateParamSets = true)
    (hsn : cfg.stampNow = true)
    (vm : VideoMeta) (am : AudioMeta) (date : Bytes) (known : Nat) (frames : List Frame) (gop : Bool) (k : Nat)
    (hcodec : vm.codec ≠ .other) (hfaith : hevcFaithful vm = true)
    (hs : vm.sps.length < 65536) (hp : vm.pps.length < 65536) (hv : vm.vps.length < 65536)
    (ha : am.asc.length + 2 < 16777216) (hd : date.length < 65536)
    (hall : ∀ f ∈ fromStart (srcOf vm am) known frames, carried (srcOf vm am) f = true → FrameFits f)
    (hwin : ∀ f ∈ (joinView (srcOf vm am) gop ((fromStart (srcOf vm am) known frames).filter (carried (srcOf vm am)))
                    (k - prefixLen (srcOf vm am))).2,
        -2147483648 ≤ tagTimeMs f - (joinView (srcOf vm am) gop
            ((fromStart (srcOf vm am) known frames).filter (carried (srcOf vm am))) (k - prefixLen (srcOf vm am))).1 ∧
        tagTimeMs f - (joinView (srcOf vm am) gop
            ((fromStart (srcOf vm am) known frames).filter (carried (srcOf vm am))) (k - prefixLen (srcOf vm am))).1 < 2147483648) :
    ∃ bs, FlvJoin.joinBytes cfg vm am date known frames gop k = some (bs, false) ∧
      checkJoinedAt (srcOf vm am) (fromStart (srcOf vm am) known frames) gop k bs = true := by
  obtain ⟨hfl, hvid, haud⟩ := muxTypeFlags_facts am
  have hcodec' : (vm.codec = VCodec.other) = False := by simp [hcodec]
  -- nothing was ever written: the client receives the header only
  have hnone : ∀ (want : List Frame), muxRun cfg vm am date known frames = ([], false) →
      (want.filter (carried (srcOf vm am))).isEmpty = true →
      ∃ bs, FlvJoin.joinBytes cfg vm am date known frames gop k = some (bs, false) ∧
        checkJoinedAt (srcOf vm am) want gop k bs = true := by
    intro want hrun hw
    obtain ⟨bs, hb, hparse⟩ := parseFlv_clientBytes cfg (muxTypeFlags am) [] hfl (by simp)
    refine ⟨bs, ?_, ?_⟩
    · simp only [FlvJoin.joinBytes, hcodec', if_false, hrun, joinTags_nil, hb]
    · simp only [checkJoinedAt, hparse, views, hvid, haud, hw]
      simp [srcOf]
  by_cases hr : videoMetaReady vm = true
  · have hwant : fromStart (srcOf vm am) known frames = frames.drop known := by
      simp [fromStart, usable_eq_ready, hr]
    rw [hwant] at hall hwin ⊢
    obtain ⟨hmap, hnd⟩ := mediaTags_map vm am hcodec (frames.drop known) hall
    obtain ⟨vt, hvt, hvty, hvts, hvf, hvs, hvlen, hvcfg⟩ := videoConfig_ok vm am hcodec hr hfaith hs hp hv
    have hvwf : Tag.wf vt := ⟨hvf, hvs, Or.inr (Or.inl hvty), hvlen⟩
    have hseq : seqHeaders vm am date =
        ([metadataTag vm am date, vt] ++ (if am.aac then [audioSeqHeaderTag am] else []), false) := by
      simp only [seqHeaders, hvt]
    have hrun := muxLoop_unpacked cfg hg vm am date known hr _ hseq frames 0 (by simpa using hnd)
    simp only [Nat.sub_zero] at hrun
    cases hdrop : frames.drop known with
    | nil =>
      rw [hdrop] at hrun
      exact hnone [] (by simpa [muxRun] using hrun) (by simp)
    | cons f0 fs =>
      rw [hdrop] at hrun hmap hall hwin
      -- the stream's tags: configuration prefix, then one tag per carried frame
      generalize hcfdef : (f0 :: fs).filter (carried (srcOf vm am)) = cf at hmap hwin
      have hcf : ∀ f ∈ cf, carried (srcOf vm am) f = true ∧ FrameFits f := by
        intro f hf
        rw [← hcfdef] at hf
        obtain ⟨h1, h2⟩ := List.mem_filter.1 hf
        exact ⟨h2, hall f h1 h2⟩
      have hmwf := metadataTag_wf vm am date hd
      obtain ⟨awf, ats, _⟩ := audioConfig_ok vm am 0 ha
      let g : Frame → FlvCacheM.FTag := fun f => FlvJoin.ofTag (mtag vm am f)
      let a : Option FlvCacheM.FTag := if am.aac then some (FlvJoin.ofTag (audioSeqHeaderTag am)) else none
      have hT : (([metadataTag vm am date, vt] ++ (if am.aac then [audioSeqHeaderTag am] else [])) ++
            mediaTags vm am (f0 :: fs)).map FlvJoin.ofTag =
          FlvJoin.ofTag (metadataTag vm am date) :: FlvJoin.ofTag vt :: a.toList ++ cf.map g := by
        rw [hmap]
        cases haac : am.aac <;> simp [a, g, haac, List.map_map, Function.comp_def]
      have hka : ∀ x ∈ a, FlvCacheM.tagKind x = .aseq := by
        intro x hx
        cases haac : am.aac <;> simp [a, haac] at hx
        subst hx; exact audioSeq_kind am
      have hta : ∀ x ∈ a, x.ts = 0 := by
        intro x hx
        cases haac : am.aac <;> simp [a, haac] at hx
        subst hx; simp [FlvJoin.ofTag, ats]
      have hms : ∀ t ∈ cf.map g, FlvCacheM.isMedia t = true := by
        intro t ht
        obtain ⟨f, hf, rfl⟩ := List.mem_map.1 ht
        obtain ⟨_, _, _, _, h5⟩ := mtag_spec vm am f hcodec (hcf f hf).1 (hcf f hf).2
        simp only [FlvCacheM.isMedia, g, h5]
        cases isKeyFrame (srcOf vm am) f <;> simp
      have hlen : (FlvJoin.ofTag (metadataTag vm am date) :: FlvJoin.ofTag vt :: a.toList).length = prefixLen (srcOf vm am) := by
        cases haac : am.aac <;> simp [a, haac, prefixLen, srcOf]
      have hexp := expected_join gop cfg.stampNow (FlvJoin.ofTag (metadataTag vm am date)) (FlvJoin.ofTag vt) a
        (tagKind_metadata vm am date) (videoSeq_kind vm vt hvt) hka (by simp [FlvJoin.ofTag, metadataTag])
        (by simp [FlvJoin.ofTag, hvts]) hta (cf.map g) hms k
      rw [hlen, hsn] at hexp
      obtain ⟨hjv1, hjv2⟩ := joinView_model vm am hcodec gop cf hcf (k - prefixLen (srcOf vm am))
      rw [← List.map_take, ← List.map_drop] at hexp
      rw [hjv2, List.append_assoc, hjv1] at hexp
      -- the client's time base and the frames it is owed
      generalize hvdef : joinView (srcOf vm am) gop cf (k - prefixLen (srcOf vm am)) = jv at hexp hwin
      have hmemjv : ∀ f ∈ jv.2, f ∈ cf := by
        intro f hf; rw [← hvdef] at hf; exact joinView_mem _ _ _ _ f hf
      have hX : UInt32.ofNat (u32OfInt jv.1).toNat = u32OfInt jv.1 := by simp
      have hD : FlvJoin.joinTags cfg gop
            (([metadataTag vm am date, vt] ++ (if am.aac then [audioSeqHeaderTag am] else [])) ++ mediaTags vm am (f0 :: fs)) k =
          stamped (u32OfInt jv.1) (metadataTag vm am date) ::
            ([stamped (u32OfInt jv.1) vt] ++ (if am.aac then [stamped (u32OfInt jv.1) (audioSeqHeaderTag am)] else []) ++
             jv.2.map (mtag vm am)) := by
        have hto : ∀ f ∈ jv.2, FlvJoin.toTag (FlvJoin.ofTag (mtag vm am f)) = mtag vm am f := by
          intro f hf
          obtain ⟨_, hw, _⟩ := mtag_spec vm am f hcodec (hcf f (hmemjv f hf)).1 (hcf f (hmemjv f hf)).2
          exact toTag_ofTag _ hw
        have hmm : (jv.2.map (fun f => FlvJoin.ofTag (mtag vm am f))).map FlvJoin.toTag = jv.2.map (mtag vm am) := by
          rw [List.map_map]
          exact List.map_congr_left hto
        simp only [FlvJoin.joinTags, hT, hsn, hexp, List.map_append, List.map_cons, hmm,
          toTag_restamp _ hmwf, toTag_restamp _ hvwf, hX]
        cases haac : am.aac <;> simp [a, haac, toTag_restamp _ awf, hX]
      have hwfD : ∀ t ∈ stamped (u32OfInt jv.1) (metadataTag vm am date) ::
            ([stamped (u32OfInt jv.1) vt] ++ (if am.aac then [stamped (u32OfInt jv.1) (audioSeqHeaderTag am)] else []) ++
             jv.2.map (mtag vm am)), Tag.wf t := by
        intro t ht
        simp only [List.mem_cons, List.mem_append, List.mem_nil_iff, or_false] at ht
        rcases ht with rfl | (rfl | ht) | ht
        · exact hmwf
        · exact hvwf
        · split at ht
          · simp only [List.mem_cons, List.mem_nil_iff, or_false] at ht; rw [ht]; exact awf
          · simp at ht
        · obtain ⟨f, hf, rfl⟩ := List.mem_map.1 ht
          exact (mtag_spec vm am f hcodec (hcf f (hmemjv f hf)).1 (hcf f (hmemjv f hf)).2).2.1
      obtain ⟨bs, hb, hparse⟩ := parseFlv_clientBytes cfg (muxTypeFlags am) _ hfl hwfD
      refine ⟨bs, ?_, ?_⟩
      · simp only [FlvJoin.joinBytes, hcodec', if_false, muxRun, hrun, hD, hb]
      · have hnext : Writer.next cfg {} (stamped (u32OfInt jv.1) (metadataTag vm am date)) =
            { delta := u32OfInt jv.1, started := true } := by
          simp [Writer.next, Writer.isFirst, hc.2, stamped]
        have hz : ∀ t : Tag, ((stamped (u32OfInt jv.1) t).timestamp -
            Writer.rebase cfg { delta := u32OfInt jv.1, started := true } (stamped (u32OfInt jv.1) t)).toNat = 0 := by
          intro t
          have := rebase_fixed_tag cfg hc jv.1 jv.1 (stamped (u32OfInt jv.1) t) rfl (by omega) (by omega)
          rw [this]; simp [rebased]
        have hmedia := mediaOk_join cfg hc vm am hcodec jv.1 jv.2
          (fun f hf => ⟨(hcf f (hmemjv f hf)).1, (hcf f (hmemjv f hf)).2, (hwin f hf).1, (hwin f hf).2⟩)
        rw [List.map_map] at hmedia
        have hmeta := isMetaTag_view vm am date 0 (by omega)
        have hvc := hvcfg 0
        have hac := (audioConfig_ok vm am 0 ha).2.2
        have hne : (jv.2.isEmpty = true → True) := fun _ => trivial
        simp only [checkJoinedAt, hparse, hvid, haud, views, hnext, views_started cfg hc, hcfdef, hvdef]
        cases haac : am.aac
        · simp only [haac, Bool.false_eq_true, if_false, List.append_nil, List.cons_append, List.nil_append, List.map_cons,
            prefixThenMedia, srcOf]
          simp only [srcOf, haac, viewTag, stamped] at hmeta hvc hmedia hz ⊢
          simp only [hz]
          simp
          exact ⟨⟨hmeta, hvc⟩, hmedia⟩
        · simp only [haac, if_true, List.cons_append, List.nil_append, List.map_cons, prefixThenMedia, srcOf]
          simp only [srcOf, haac, viewTag, stamped] at hmeta hvc hac hmedia hz ⊢
          simp only [hz]
          simp
          exact ⟨⟨hmeta, hvc⟩, hac, hmedia⟩
  · -- the parameter sets never become usable: nothing is written after the header
    have hr' : videoMetaReady vm = false := by simpa using hr
    have hwant : fromStart (srcOf vm am) known frames = [] := by
      simp [fromStart, usable_eq_ready, hr']
    rw [hwant]
    exact hnone [] (by simpa [muxRun] using muxLoop_never_ready cfg hg vm am date known hr' frames 0) (by simp)

end IpcHub.FlvLemmas
