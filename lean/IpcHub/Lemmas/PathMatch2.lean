import IpcHub.Lemmas.PathMatch
namespace IpcHub.PathMatch
open IpcHub.PatternLang

/-! ### one matcher = one documented pattern -/

theorem dropLast_append_of_getLast? {α} {l : List α} {a : α} (h : l.getLast? = some a) :
    l.dropLast ++ [a] = l := by
  have hne : l ≠ [] := by intro e; simp [e] at h
  have h1 := List.dropLast_concat_getLast hne
  rw [List.getLast?_eq_some_getLast hne] at h
  injection h with h
  rw [← h]; exact h1

theorem matches_path_wild (cfg : Cfg) (h : cfg.pathTrims = false) (P : List (List Char)) (path : List Char) :
    (Matcher.path P true).matches cfg path =
      (decide (P.length ≤ (segs cfg.lower path).length) && zipMatch P (segs cfg.lower path)) := by
  have hxs : splitOn '/' ((trim isSlash path).map cfg.lower) = segs cfg.lower path := rfl
  simp only [Matcher.matches]
  rw [partCount_eq, hxs]
  by_cases hlt : (segs cfg.lower path).length < P.length
  · have : ¬ P.length ≤ (segs cfg.lower path).length := by omega
    simp [hlt, this]
  · have hle : P.length ≤ (segs cfg.lower path).length := by omega
    simp only [hlt, if_false, Bool.not_true, Bool.and_false]
    rw [matchLoop_eq cfg h _ _ (by rw [hxs]; exact hle), hxs]
    simp [hle]

theorem matches_path_exact (cfg : Cfg) (h : cfg.pathTrims = false) (P : List (List Char)) (path : List Char) :
    (Matcher.path P false).matches cfg path =
      (decide (P.length = (segs cfg.lower path).length) && zipMatch P (segs cfg.lower path)) := by
  have hxs : splitOn '/' ((trim isSlash path).map cfg.lower) = segs cfg.lower path := rfl
  simp only [Matcher.matches]
  rw [partCount_eq, hxs]
  by_cases hlt : (segs cfg.lower path).length < P.length
  · have : ¬ P.length = (segs cfg.lower path).length := by omega
    simp [hlt, this]
  · simp only [hlt, if_false]
    by_cases hgt : (segs cfg.lower path).length > P.length
    · have : ¬ P.length = (segs cfg.lower path).length := by omega
      simp [hgt, this]
    · have he : P.length = (segs cfg.lower path).length := by omega
      have hgt' : ¬ (P.length < (segs cfg.lower path).length) := by omega
      simp only [gt_iff_lt, hgt', decide_false, Bool.not_false, Bool.and_true]
      rw [if_neg (by simp), matchLoop_eq cfg h _ _ (by rw [hxs]; omega), hxs]
      simp [he]

theorem matches_eq (cfg : Cfg) (h : cfg.pathTrims = false) (mask path : List Char)
    (hm : trim cfg.isSpace mask = mask) :
    (newPathMatcher cfg mask).matches cfg path = patMatch cfg.lower mask path := by
  unfold newPathMatcher patMatch
  rw [hm]
  by_cases hs : mask = ['*']
  · simp [hs, Matcher.matches]
  · simp only [hs, if_false]
    have hseg : splitOn '/' ((trim isSlash mask).map cfg.lower) = segs cfg.lower mask := rfl
    rw [hseg]
    by_cases hw : (segs cfg.lower mask).getLast? = some ['*']
    · simp only [hw, if_true]
      have hdec := dropLast_append_of_getLast? hw
      rw [matches_path_wild cfg h]
      conv => rhs; rw [← hdec, segMatch_wild]
    · simp only [hw, if_false]
      rw [matches_path_exact cfg h, segMatch_exact _ _ hw]

/-! ### the ';' scanner -/

theorem mem_trimLeft (p : Char → Bool) (x : Char) (s : List Char) (h : x ∈ trimLeft p s) : x ∈ s := by
  induction s with
  | nil => simp [trimLeft] at h
  | cons c cs ih =>
    by_cases hc : p c
    · simp [trimLeft, hc] at h; simp [ih h]
    · simpa [trimLeft, hc] using h

theorem mem_trimRight (p : Char → Bool) (x : Char) (s : List Char) (h : x ∈ trimRight p s) : x ∈ s := by
  induction s with
  | nil => simp [trimRight] at h
  | cons c cs ih =>
    cases hr : trimRight p cs with
    | nil =>
      by_cases hc : p c
      · simp [trimRight, hr, hc] at h
      · simp [trimRight, hr, hc] at h; simp [h]
    | cons r rs =>
      have e : trimRight p (c :: cs) = c :: r :: rs := by simp [trimRight, hr]
      rw [e] at h
      rw [hr] at ih
      simp at h
      rcases h with h | h | h
      · simp [h]
      · simp [ih (by simp [h])]
      · simp [ih (by simp [h])]

theorem trimLeft_append_delim (p : Char → Bool) (d : Char) (hd : p d = false) (a b : List Char) :
    trimLeft p (a ++ d :: b) = trimLeft p a ++ d :: b := by
  induction a with
  | nil => simp [trimLeft, hd]
  | cons c cs ih =>
    by_cases hc : p c
    · simp [trimLeft, hc, ih]
    · simp [trimLeft, hc]

theorem trimRight_cons_of_ne_nil (p : Char → Bool) (c : Char) (s : List Char) (h : trimRight p s ≠ []) :
    trimRight p (c :: s) = c :: trimRight p s := by
  cases hr : trimRight p s with
  | nil => exact absurd hr h
  | cons r rs => simp [trimRight, hr]

theorem trimRight_append_delim (p : Char → Bool) (d : Char) (hd : p d = false) (a b : List Char) :
    trimRight p (a ++ d :: b) = a ++ d :: trimRight p b := by
  induction a with
  | nil => simp [trimRight_cons_not p d b hd]
  | cons c cs ih =>
    have : trimRight p (cs ++ d :: b) ≠ [] := by rw [ih]; simp
    simp only [List.cons_append]
    rw [trimRight_cons_of_ne_nil p c _ this, ih]

theorem scan_trim (sp : Char → Bool) (d : Char) (hd : sp d = false) (s : List Char) :
    scan d sp (trim sp s) = scan d sp s := by
  unfold scan
  cases hc : cut d s with
  | none =>
    have hn : d ∉ s := (cut_none_iff d s).mp hc
    have hn' : d ∉ trim sp s := fun hm => hn (mem_trimLeft sp d s (mem_trimRight sp d _ hm))
    rw [(cut_none_iff d _).mpr hn']
    simp [trim_idem]
  | some ab =>
    obtain ⟨a, b⟩ := ab
    obtain ⟨e, hna⟩ := cut_some_eq d s a b hc
    have e2 : trim sp s = trimLeft sp a ++ d :: trimRight sp b := by
      unfold trim
      rw [e, trimLeft_append_delim sp d hd, trimRight_append_delim sp d hd]
    have hna' : d ∉ trimLeft sp a := fun hm => hna (mem_trimLeft sp d a hm)
    rw [e2, cut_append d _ _ hna']
    simp only
    have t1 : trim sp (trimRight sp b) = trim sp b := by
      unfold trim
      rw [trimLeft_trimRight_comm, trimRight_idem]
    have t2 : trim sp (trimLeft sp a) = trim sp a := by
      unfold trim
      rw [trimLeft_idem]
    rw [t1, t2]

theorem initMatchersAux_trim (cfg : Cfg) (hd : cfg.isSpace ';' = false) (n : Nat) (s : List Char) :
    initMatchersAux cfg n (trim cfg.isSpace s) = initMatchersAux cfg n s := by
  cases n with
  | zero => rfl
  | succ n => simp only [initMatchersAux, scan_trim cfg.isSpace ';' hd]

theorem splitOn_length_le (d : Char) (s : List Char) : (splitOn d s).length ≤ s.length + 1 := by
  induction s with
  | nil => simp [splitOn]
  | cons c cs ih =>
    simp only [splitOn]
    by_cases h : c = d
    · simp [h]; omega
    · simp only [h, if_false]
      cases hs : splitOn d cs with
      | nil => simp
      | cons x xs => simp [hs] at ih ⊢; omega

theorem initMatchersAux_eq (cfg : Cfg) (hd : cfg.isSpace ';' = false) (n : Nat) (s : List Char)
    (hn : (splitOn ';' s).length ≤ n) :
    initMatchersAux cfg n s = (patterns cfg.isSpace s).map (newPathMatcher cfg) := by
  induction n generalizing s with
  | zero =>
    have := splitOn_ne_nil ';' s
    cases hs : splitOn ';' s with
    | nil => exact absurd hs this
    | cons x xs => simp [hs] at hn
  | succ n ih =>
    have hsp := splitOn_cut ';' s
    cases hc : cut ';' s with
    | none =>
      rw [hc] at hsp
      simp only at hsp
      unfold patterns
      rw [hsp]
      simp only [initMatchersAux, scan, hc]
      by_cases he : (trim cfg.isSpace s).isEmpty <;> simp [he]
    | some ab =>
      obtain ⟨a, b⟩ := ab
      rw [hc] at hsp
      simp only at hsp
      have hn' : (splitOn ';' b).length ≤ n := by rw [hsp] at hn; simpa using hn
      unfold patterns
      rw [hsp]
      simp only [initMatchersAux, scan, hc, if_true]
      rw [initMatchersAux_trim cfg hd, ih b hn']
      unfold patterns
      by_cases he : (trim cfg.isSpace a).isEmpty <;> simp [he]

theorem initMatchers_eq (cfg : Cfg) (hd : cfg.isSpace ';' = false) (s : List Char) :
    initMatchers cfg s = (patterns cfg.isSpace s).map (newPathMatcher cfg) :=
  initMatchersAux_eq cfg hd _ s (splitOn_length_le ';' s)

theorem patterns_trimmed (sp : Char → Bool) (s pat : List Char) (h : pat ∈ patterns sp s) :
    trim sp pat = pat := by
  unfold patterns at h
  simp only [List.mem_filter, List.mem_map] at h
  obtain ⟨⟨x, _, rfl⟩, _⟩ := h
  exact trim_idem sp x

end IpcHub.PathMatch

namespace IpcHub.PathMatch
theorem any_congr_mem {α} (l : List α) (f g : α → Bool) (h : ∀ x ∈ l, f x = g x) : l.any f = l.any g := by
  induction l with
  | nil => rfl
  | cons a as ih =>
    simp only [List.any_cons]
    rw [h a (by simp), ih (fun x hx => h x (by simp [hx]))]
end IpcHub.PathMatch
