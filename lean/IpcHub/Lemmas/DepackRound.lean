/-
C06 round trip, H.264: the depacketizer model run on the packets of the RFC 6184 packetiser
(Spec/Packetise.lean) hands on exactly the sender's NAL units, from ANY depacketizer state
whose metadata is ready (so also right after arbitrary garbage: C07).
-/
import IpcHub.Lemmas.DepackBytes
namespace IpcHub.DepackRound
open IpcHub.Depack IpcHub.Packetise IpcHub.DepackBytes

/-- the guards the round trip needs (all true of the repaired tree; `c06_gen_cfg`) -/
structure RoundCfg (cfg : Cfg) : Prop where
  h264Min : cfg.h264Min ≤ 1
  nri : cfg.stapaRewritesNri = false
  fuaMin : cfg.fuaMin ≤ 3
  keepsF : cfg.fuaKeepsF = true
  h265Min : cfg.h265Min ≤ 2
  fuMin : cfg.fuMin ≤ 3

/-- the frame a unit must become -/
def frameOf (base : UInt32) (u : UInt32 × Bytes) : Frame := ⟨false, u.1, base, u.2⟩

/-- ready and same clock base -/
structure Keeps (st st' : VSt) : Prop where
  ready : st'.ready = true
  base : st'.base = st.base

theorem Keeps.refl {st : VSt} (h : st.ready = true) : Keeps st st := ⟨h, rfl⟩
theorem Keeps.trans {a b c : VSt} (h1 : Keeps a b) (h2 : Keeps b c) : Keeps a c :=
  ⟨h2.ready, h2.base.trans h1.base⟩

/-- not filler data (type 12): the depacketizer drops those on purpose (known finding) -/
def notFiller (n : Bytes) : Bool :=
  match n with
  | [] => true
  | b :: _ => (b &&& 0x1f) != 12

theorem writeFrame_ready (cfg : Cfg) (ok : Bytes → Bool) (st : VSt) (ts : UInt32) (nal : Bytes)
    (hr : st.ready = true) (hne : nal ≠ []) (hf : notFiller nal = true) :
    ∃ st', h264WriteFrame cfg ok st ts nal = ⟨st', [frameOf st.base (ts, nal)], .ok⟩ ∧ Keeps st st' ∧ st'.frags = st.frags := by
  cases nal with
  | nil => exact absurd rfl hne
  | cons b bs =>
    have h12 : ¬ (b &&& 0x1f) = 12 := by simpa [notFiller] using hf
    simp only [h264WriteFrame, h12, if_false, hr, Bool.not_true, Bool.false_and, Bool.and_false, Bool.or_false,
      Bool.false_eq_true, if_false, frameOf]
    exact ⟨_, rfl, ⟨rfl, rfl⟩, rfl⟩

theorem nalOk_ne_nil {n : Bytes} (h : nalOk264F n = true) : n ≠ [] := by
  cases n with
  | nil => simp [nalOk264F] at h
  | cons _ _ => simp

theorem nalOk_type {b : UInt8} {bs : Bytes} (h : nalOk264F (b :: bs) = true) :
    (b &&& 0x1f) < 24 := by
  simp only [nalOk264F, Bool.and_eq_true, decide_eq_true_eq] at h
  have := h.2
  exact UInt8.lt_of_le_of_lt this (by decide)

/-- the F-bit-free legality is weaker than `legal264`: every theorem below covers `legal264` streams -/
theorem nalOk264F_of_nalOk264 {n : Bytes} (h : nalOk264 n = true) : nalOk264F n = true := by
  cases n with
  | nil => simp [nalOk264] at h
  | cons b bs =>
    simp only [nalOk264, Bool.and_eq_true, decide_eq_true_eq] at h
    simp [nalOk264F, h.1.2, h.2]

theorem legal264F_of_legal264 {it : Item} (h : legal264 it = true) : legal264F it = true := by
  cases it with
  | single ts m n => exact nalOk264F_of_nalOk264 (by simpa [legal264] using h)
  | agg ts m ns =>
    simp only [legal264, Bool.and_eq_true, List.all_eq_true, decide_eq_true_eq] at h
    simp only [legal264F, Bool.and_eq_true, List.all_eq_true, decide_eq_true_eq]
    exact ⟨h.1, fun n hn => ⟨nalOk264F_of_nalOk264 (h.2 n hn).1, (h.2 n hn).2⟩⟩
  | frag ts m n cuts =>
    simp only [legal264, Bool.and_eq_true] at h
    simp only [legal264F, Bool.and_eq_true]
    exact ⟨nalOk264F_of_nalOk264 h.1, h.2⟩

/-- a single NAL unit packet -/
theorem single_step (cfg : Cfg) (hc : RoundCfg cfg) (ok : Bytes → Bool) (st : VSt) (s : UInt16) (ts : UInt32) (m : Bool)
    (nal : Bytes) (hr : st.ready = true) (hn : nalOk264F nal = true) (hf : notFiller nal = true) :
    ∃ st', h264Step cfg ok st ⟨s, ts, m, nal⟩ = ⟨st', [frameOf st.base (ts, nal)], .ok⟩ ∧ Keeps st st' ∧ st'.frags = st.frags := by
  cases nal with
  | nil => simp [nalOk264F] at hn
  | cons b bs =>
    have ht := nalOk_type hn
    have hlen : ¬ (b :: bs).length < cfg.h264Min := by
      have := hc.h264Min; simp only [List.length_cons]; omega
    simp only [h264Step, hlen, if_false, ht, if_true]
    exact writeFrame_ready cfg ok st ts (b :: bs) hr (by simp) hf

theorem aggBody_cons (n : Bytes) (ns : List Bytes) :
    aggBody (n :: ns) = hi8 n.length :: lo8 n.length :: (n ++ aggBody ns) := by
  simp [aggBody, List.flatMap_cons]

theorem aggBody_eq_nil {ns : List Bytes} (h : aggBody ns = []) : ns = [] := by
  cases ns with
  | nil => rfl
  | cons n ns => rw [aggBody_cons] at h; cases h

/-- the STAP-A loop on the aggregation body of well-formed units -/
theorem stapaLoop_agg (cfg : Cfg) (hc : RoundCfg cfg) (ok : Bytes → Bool) (hdr : UInt8) (ts : UInt32) :
    ∀ (ns : List Bytes) (fuel : Nat) (st : VSt) (acc : List Frame),
      ns ≠ [] → (∀ n ∈ ns, nalOk264F n = true ∧ n.length < 65536 ∧ notFiller n = true) →
      ns.length ≤ fuel → st.ready = true →
      ∃ st', stapaLoop cfg ok hdr ts fuel st (aggBody ns) acc
          = ⟨st', acc ++ ns.map (fun n => frameOf st.base (ts, n)), .ok⟩ ∧ Keeps st st' ∧ st'.frags = st.frags := by
  intro ns
  induction ns with
  | nil => intro _ _ _ h; exact absurd rfl h
  | cons n ns ih =>
    intro fuel st acc _ hall hfuel hr
    obtain ⟨hok, hlen, hfil⟩ := hall n (List.mem_cons_self ..)
    have hne := nalOk_ne_nil hok
    have hn1 : 1 ≤ n.length := by
      cases n with
      | nil => exact absurd rfl hne
      | cons _ _ => simp
    cases fuel with
    | zero => simp at hfuel
    | succ fuel =>
      obtain ⟨st1, hw, hk1, hf1⟩ := writeFrame_ready cfg ok st ts n hr hne hfil
      rw [aggBody_cons]
      simp only [stapaLoop, be16_hi_lo n.length hlen]
      have h1 : ¬ n.length < 1 := by omega
      have h2 : ¬ (n ++ aggBody ns).length < n.length := by simp
      simp only [h1, if_false, h2, decide_false, Bool.and_false, Bool.false_eq_true, hc.nri]
      have htake : (n ++ aggBody ns).take n.length ++ List.replicate (n.length - (n ++ aggBody ns).length) (0 : UInt8) = n := by
        simp
      rw [htake, hw]
      simp only
      by_cases hnil : ns = []
      · subst hnil
        simp only [aggBody, List.flatMap_nil, List.append_nil, Nat.le_refl, if_true, List.map_cons, List.map_nil]
        exact ⟨st1, rfl, hk1, hf1⟩
      · have hnot : ¬ (n ++ aggBody ns).length ≤ n.length := by
          intro hle
          have : (aggBody ns).length = 0 := by simp at hle; omega
          exact hnil (aggBody_eq_nil (List.eq_nil_of_length_eq_zero this))
        simp only [hnot, if_false]
        have hdrop : (n ++ aggBody ns).drop n.length = aggBody ns := by simp
        rw [hdrop]
        obtain ⟨st2, hrun, hk2, hf2⟩ := ih fuel st1 (acc ++ [frameOf st.base (ts, n)]) hnil
          (fun x hx => hall x (List.mem_cons_of_mem _ hx)) (by simp at hfuel; omega) hk1.ready
        refine ⟨st2, ?_, hk1.trans hk2, hf2.trans hf1⟩
        rw [hrun, hk1.base]
        simp

theorem length_le_aggBody (ns : List Bytes) : ns.length ≤ (aggBody ns).length := by
  induction ns with
  | nil => simp
  | cons n ns ih => rw [aggBody_cons]; simp; omega

/-- one STAP-A packet -/
theorem agg_step (cfg : Cfg) (hc : RoundCfg cfg) (ok : Bytes → Bool) (st : VSt) (s : UInt16) (ts : UInt32) (m : Bool)
    (ns : List Bytes) (hr : st.ready = true) (hne : ns ≠ [])
    (hall : ∀ n ∈ ns, nalOk264F n = true ∧ n.length < 65536 ∧ notFiller n = true) :
    ∃ st', h264Step cfg ok st ⟨s, ts, m, stapaHdr ns :: aggBody ns⟩
        = ⟨st', ns.map (fun n => frameOf st.base (ts, n)), .ok⟩ ∧ Keeps st st' ∧ st'.frags = st.frags := by
  have hlen : ¬ (stapaHdr ns :: aggBody ns).length < cfg.h264Min := by
    have := hc.h264Min; simp only [List.length_cons]; omega
  have h24 : ¬ ((24 : UInt8) < 24) := by decide
  simp only [h264Step, hlen, if_false, stapaHdr_type ns, h24, if_true, h264Stapa]
  obtain ⟨st', hrun, hk, hf⟩ := stapaLoop_agg cfg hc ok (stapaHdr ns) ts ns ((aggBody ns).length + 1) st [] hne hall
    (by have := length_le_aggBody ns; omega) hr
  exact ⟨st', by simpa using hrun, hk, hf⟩

/-! ### FU-A -/

theorem vRun_cons (cfg : Cfg) (ok : Bytes → Bool) (c : VCodec) (st : VSt) (p : Pkt) (ps : List Pkt)
    (st1 : VSt) (out : List Frame) (hs : vStep cfg ok c st p = ⟨st1, out, .ok⟩) :
    vRun cfg ok c st (p :: ps) = ((vRun cfg ok c st1 ps).1, out ++ (vRun cfg ok c st1 ps).2.1, (vRun cfg ok c st1 ps).2.2) := by
  simp [vRun, hs]

theorem mkPkts_cons_ne (ts : UInt32) (m : Bool) (s : UInt16) (b : Bytes) (bs : List Bytes) (h : bs ≠ []) :
    mkPkts ts m s (b :: bs) = ⟨s, ts, false, b⟩ :: mkPkts ts m (s + 1) bs := by
  cases bs with
  | nil => exact absurd rfl h
  | cons _ _ => rfl

theorem fuaPayloads_ne (h : UInt8) (f : Bool) (d : Bytes) (ds : List Bytes) : fuaPayloads h f (d :: ds) ≠ [] := by
  cases ds <;> simp [fuaPayloads]

theorem u16_succ_pred (s : UInt16) : s + 1 - 1 = s := by
  simp [UInt16.add_sub_cancel]

theorem fuaJoin_append (a : List Pkt) (p : Pkt) : fuaJoin (a ++ [p]) = fuaJoin a ++ p.payload.drop 2 := by
  simp [fuaJoin]

/-- the continuation fragments of a FU-A unit, from a state holding the fragments so far -/
theorem fua_rest (cfg : Cfg) (hc : RoundCfg cfg) (ok : Bytes → Bool) (h : UInt8)
    (hfil : (h &&& 0x1f) ≠ 12) (ts : UInt32) (m : Bool) :
    ∀ (ds : List Bytes) (s : UInt16) (st : VSt) (l : Pkt),
      ds ≠ [] → (∀ d ∈ ds, d ≠ []) → st.ready = true → st.frags.getLast? = some l → l.seq = s - 1 →
      ∃ st', vRun cfg ok .h264 st (mkPkts ts m s (fuaPayloads h false ds))
          = (st', [frameOf st.base (ts, h :: (fuaJoin st.frags ++ ds.flatten))], .ok) ∧ Keeps st st' ∧ st'.frags = [] := by
  intro ds
  induction ds with
  | nil => intro _ _ _ h; exact absurd rfl h
  | cons d ds ih =>
    intro s st l _ hne hr hlast hseq
    have hd : d ≠ [] := hne d (List.mem_cons_self ..)
    have hd1 : 1 ≤ d.length := by
      cases d with
      | nil => exact absurd rfl hd
      | cons _ _ => simp
    have h28a : ¬ ((28 : UInt8) < 24) := by decide
    have h28b : ¬ ((28 : UInt8) = 24) := by decide
    have hfrne : st.frags ≠ [] := by
      intro h0; rw [h0] at hlast; simp at hlast
    cases ds with
    | nil =>
      -- the end fragment
      simp only [fuaPayloads, mkPkts]
      have hstep : vStep cfg ok .h264 st ⟨s, ts, m, ((h &&& 0xe0) ||| 28) :: (fuFlags false true ||| (h &&& 0x1f)) :: d⟩
          = h264WriteFrame cfg ok { st with frags := [] } ts (h :: (fuaJoin st.frags ++ d)) := by
        have hlen1 : ¬ (((h &&& 0xe0) ||| 28) :: (fuFlags false true ||| (h &&& 0x1f)) :: d).length < cfg.h264Min := by
          have := hc.h264Min; simp only [List.length_cons]; omega
        have hlen2 : ¬ (((h &&& 0xe0) ||| 28) :: (fuFlags false true ||| (h &&& 0x1f)) :: d).length < cfg.fuaMin := by
          have := hc.fuaMin; simp only [List.length_cons]; omega
        have hs : ¬ (((fuFlags false true ||| (h &&& 0x1f)) >>> (7 : UInt8)) &&& 1 = 1) := by
          rw [fua_start_bit]; simp
        have he : (((fuFlags false true ||| (h &&& 0x1f)) >>> (6 : UInt8)) &&& 1 = 1) := by
          rw [fua_end_bit]
        have hemp : st.frags.isEmpty = false := by
          cases hf : st.frags with
          | nil => exact absurd hf hfrne
          | cons _ _ => rfl
        simp only [vStep, h264Step, hlen1, if_false, fua_ind_type, h28a, h28b, if_true, h264FuA, hlen2, hs,
          decide_false, Bool.not_false, Bool.and_true, hemp, Bool.and_false, Bool.false_eq_true, hlast, hseq,
          bne_self_eq_false, he, fuaJoin_append, hc.keepsF, if_true, fua_rebuild h false true, List.drop_succ_cons, List.drop_zero]
      obtain ⟨st', hw, hk, hf⟩ := writeFrame_ready cfg ok { st with frags := [] } ts (h :: (fuaJoin st.frags ++ d)) hr
        (by simp) (by simpa [notFiller] using hfil)
      refine ⟨st', ?_, ⟨hk.ready, hk.base⟩, hf⟩
      simp [vRun, hstep, hw, frameOf]
    | cons d' ds' =>
      rw [show fuaPayloads h false (d :: d' :: ds') = (((h &&& 0xe0) ||| 28) :: (fuFlags false false ||| (h &&& 0x1f)) :: d)
            :: fuaPayloads h false (d' :: ds') from rfl, mkPkts_cons_ne _ _ _ _ _ (fuaPayloads_ne h false d' ds')]
      let p : Pkt := ⟨s, ts, false, ((h &&& 0xe0) ||| 28) :: (fuFlags false false ||| (h &&& 0x1f)) :: d⟩
      have hstep : vStep cfg ok .h264 st p = ⟨{ st with frags := st.frags ++ [p] }, [], .ok⟩ := by
        have hlen1 : ¬ (((h &&& 0xe0) ||| 28) :: (fuFlags false false ||| (h &&& 0x1f)) :: d).length < cfg.h264Min := by
          have := hc.h264Min; simp only [List.length_cons]; omega
        have hlen2 : ¬ (((h &&& 0xe0) ||| 28) :: (fuFlags false false ||| (h &&& 0x1f)) :: d).length < cfg.fuaMin := by
          have := hc.fuaMin; simp only [List.length_cons]; omega
        have hs : ¬ (((fuFlags false false ||| (h &&& 0x1f)) >>> (7 : UInt8)) &&& 1 = 1) := by
          rw [fua_start_bit]; simp
        have he : ¬ (((fuFlags false false ||| (h &&& 0x1f)) >>> (6 : UInt8)) &&& 1 = 1) := by
          rw [fua_end_bit]; simp
        have hemp : st.frags.isEmpty = false := by
          cases hf : st.frags with
          | nil => exact absurd hf hfrne
          | cons _ _ => rfl
        simp only [p, vStep, h264Step, hlen1, if_false, fua_ind_type, h28a, h28b, if_true, h264FuA, hlen2, hs,
          decide_false, Bool.not_false, Bool.and_true, hemp, Bool.and_false, Bool.false_eq_true, hlast, hseq,
          bne_self_eq_false, he]
      obtain ⟨st', hrun, hk, hf⟩ := ih (s + 1) { st with frags := st.frags ++ [p] } p (by simp)
        (fun x hx => hne x (List.mem_cons_of_mem _ hx)) hr (by simp) (by simp [p, u16_succ_pred])
      refine ⟨st', ?_, ⟨hk.ready, hk.base⟩, hf⟩
      rw [vRun_cons cfg ok .h264 st p _ _ _ hstep, hrun]
      simp [fuaJoin_append, p, frameOf]

/-! ### fragment sizes -/

theorem chunks_flatten (cs : List Nat) : ∀ bs : Bytes, (chunks cs bs).flatten = bs := by
  induction cs with
  | nil => intro bs; simp [chunks]
  | cons c cs ih => intro bs; simp [chunks, ih]

theorem chunks_ne_nil (cs : List Nat) (bs : Bytes) : chunks cs bs ≠ [] := by
  cases cs <;> simp [chunks]

theorem chunks_all_ne (cs : List Nat) : ∀ bs : Bytes, (∀ c ∈ cs, 1 ≤ c) → cs.sum < bs.length →
    ∀ d ∈ chunks cs bs, d ≠ [] := by
  induction cs with
  | nil =>
    intro bs _ hs d hd
    simp [chunks] at hd hs
    subst hd
    intro h0; rw [h0] at hs; simp at hs
  | cons c cs ih =>
    intro bs hc hs d hd
    simp only [chunks, List.mem_cons] at hd
    have hs : c + cs.sum < bs.length := by simpa using hs
    have hc1 := hc c (List.mem_cons_self ..)
    rcases hd with hd | hd
    · subst hd
      intro h0
      rcases List.take_eq_nil_iff.mp h0 with h | h
      · omega
      · rw [h] at hs; simp at hs
    · exact ih (bs.drop c) (fun x hx => hc x (List.mem_cons_of_mem _ hx)) (by simp [List.length_drop]; omega) d hd

/-- one fragmented unit: start fragment, then `fua_rest` -/
theorem frag_item (cfg : Cfg) (hc : RoundCfg cfg) (ok : Bytes → Bool) (st : VSt) (s : UInt16) (ts : UInt32) (m : Bool)
    (nal : Bytes) (cuts : List Nat) (hr : st.ready = true) (hl : legal264F (.frag ts m nal cuts) = true)
    (hfil : notFiller nal = true) :
    ∃ st', vRun cfg ok .h264 st (mkPkts ts m s (payloads264 (.frag ts m nal cuts)))
        = (st', [frameOf st.base (ts, nal)], .ok) ∧ Keeps st st' := by
  simp only [legal264F, Bool.and_eq_true] at hl
  obtain ⟨hok, hcut⟩ := hl
  cases nal with
  | nil => simp [nalOk264F] at hok
  | cons h data =>
    have hf12 : (h &&& 0x1f) ≠ 12 := by simpa [notFiller] using hfil
    simp only [cutsOk, Bool.and_eq_true, Bool.not_eq_true', List.all_eq_true, decide_eq_true_eq,
      List.length_cons, Nat.add_sub_cancel] at hcut
    obtain ⟨⟨hcne, hcpos⟩, hsum⟩ := hcut
    cases cuts with
    | nil => simp at hcne
    | cons c cs =>
      have hall := chunks_all_ne (c :: cs) data (fun x hx => hcpos x hx) hsum
      have hflat := chunks_flatten (c :: cs) data
      simp only [payloads264]
      simp only [chunks] at hall hflat ⊢
      obtain ⟨d1, ds, hds⟩ : ∃ d1 ds, chunks cs (List.drop c data) = d1 :: ds := by
        cases hch : chunks cs (List.drop c data) with
        | nil => exact absurd hch (chunks_ne_nil _ _)
        | cons d1 ds => exact ⟨d1, ds, rfl⟩
      rw [hds] at hall hflat ⊢
      rw [show fuaPayloads h true (List.take c data :: d1 :: ds)
            = (((h &&& 0xe0) ||| 28) :: (fuFlags true false ||| (h &&& 0x1f)) :: List.take c data)
              :: fuaPayloads h false (d1 :: ds) from rfl, mkPkts_cons_ne _ _ _ _ _ (fuaPayloads_ne h false d1 ds)]
      let p : Pkt := ⟨s, ts, false, ((h &&& 0xe0) ||| 28) :: (fuFlags true false ||| (h &&& 0x1f)) :: List.take c data⟩
      have hd0 : List.take c data ≠ [] := hall _ (List.mem_cons_self ..)
      have hd01 : 1 ≤ (List.take c data).length := by
        cases hx : List.take c data with
        | nil => exact absurd hx hd0
        | cons _ _ => simp
      have hstep : vStep cfg ok .h264 st p = ⟨{ st with frags := [p] }, [], .ok⟩ := by
        have hlen1 : ¬ (((h &&& 0xe0) ||| 28) :: (fuFlags true false ||| (h &&& 0x1f)) :: List.take c data).length < cfg.h264Min := by
          have := hc.h264Min; simp only [List.length_cons]; omega
        have hlen2 : ¬ (((h &&& 0xe0) ||| 28) :: (fuFlags true false ||| (h &&& 0x1f)) :: List.take c data).length < cfg.fuaMin := by
          have := hc.fuaMin; simp only [List.length_cons]; omega
        have hs : (((fuFlags true false ||| (h &&& 0x1f)) >>> (7 : UInt8)) &&& 1 = 1) := by
          rw [fua_start_bit]
        have he : ¬ (((fuFlags true false ||| (h &&& 0x1f)) >>> (6 : UInt8)) &&& 1 = 1) := by
          rw [fua_end_bit]; simp
        have h28a : ¬ ((28 : UInt8) < 24) := by decide
        have h28b : ¬ ((28 : UInt8) = 24) := by decide
        simp only [p, vStep, h264Step, hlen1, if_false, fua_ind_type, h28a, h28b, if_true, h264FuA, hlen2, hs,
          decide_true, Bool.not_true, Bool.and_false, Bool.false_and, Bool.false_eq_true, List.getLast?_nil, he,
          List.nil_append]
      obtain ⟨st', hrun, hk, _⟩ := fua_rest cfg hc ok h hf12 ts m (d1 :: ds) (s + 1) { st with frags := [p] } p (by simp)
        (fun x hx => hall x (List.mem_cons_of_mem _ hx)) hr (by simp) (by simp [p])
      refine ⟨st', ?_, ⟨hk.ready, hk.base⟩⟩
      rw [vRun_cons cfg ok .h264 st p _ _ _ hstep, hrun]
      have hdata : fuaJoin [p] ++ (d1 ++ ds.flatten) = data := by
        have : fuaJoin [p] = List.take c data := by simp [fuaJoin, p]
        rw [this]; simpa using hflat
      simp [frameOf, hdata]

/-! ### items and streams -/

/-- the units of an item are not filler data -/
def itemNoFiller (it : Item) : Bool := it.nals.all notFiller

theorem vRun_nil (cfg : Cfg) (ok : Bytes → Bool) (c : VCodec) (st : VSt) : vRun cfg ok c st [] = (st, [], .ok) := rfl

theorem vRun_append (cfg : Cfg) (ok : Bytes → Bool) (c : VCodec) :
    ∀ (ps qs : List Pkt) (st st1 : VSt) (out : List Frame), vRun cfg ok c st ps = (st1, out, .ok) →
      vRun cfg ok c st (ps ++ qs) = ((vRun cfg ok c st1 qs).1, out ++ (vRun cfg ok c st1 qs).2.1, (vRun cfg ok c st1 qs).2.2) := by
  intro ps
  induction ps with
  | nil =>
    intro qs st st1 out h
    simp only [vRun_nil, Prod.mk.injEq] at h
    obtain ⟨h1, h2, _⟩ := h
    subst h1; subst h2; simp
  | cons p ps ih =>
    intro qs st st1 out h
    simp only [vRun, List.cons_append] at h ⊢
    by_cases hp : (vStep cfg ok c st p).status = .panic
    · simp [hp] at h
    · simp only [hp, if_false] at h ⊢
      simp only [Prod.mk.injEq] at h
      obtain ⟨h1, h2, h3⟩ := h
      have := ih qs (vStep cfg ok c st p).st st1 (vRun cfg ok c (vStep cfg ok c st p).st ps).2.1
        (by rw [← h1, ← h3])
      rw [this, ← h2]
      simp

theorem item264 (cfg : Cfg) (hc : RoundCfg cfg) (ok : Bytes → Bool) (st : VSt) (s : UInt16) (it : Item)
    (hr : st.ready = true) (hl : legal264F it = true) (hf : itemNoFiller it = true) :
    ∃ st', vRun cfg ok .h264 st (mkPkts it.ts it.marker s (payloads264 it))
        = (st', it.units.map (frameOf st.base), .ok) ∧ Keeps st st' := by
  cases it with
  | single ts m nal =>
    simp only [legal264F] at hl
    simp only [itemNoFiller, Item.nals, List.all_cons, List.all_nil, Bool.and_true] at hf
    obtain ⟨st', hs, hk, _⟩ := single_step cfg hc ok st s ts m nal hr hl hf
    refine ⟨st', ?_, hk⟩
    simp only [payloads264, mkPkts, Item.ts, Item.marker, Item.units, Item.nals, List.map_cons, List.map_nil]
    rw [vRun_cons cfg ok .h264 st _ [] st' _ (by simpa [vStep] using hs)]
    simp [vRun_nil]
  | agg ts m ns =>
    simp only [legal264F, Bool.and_eq_true, Bool.not_eq_true', List.all_eq_true, decide_eq_true_eq] at hl
    simp only [itemNoFiller, Item.nals, List.all_eq_true] at hf
    obtain ⟨hne, hall⟩ := hl
    have hne' : ns ≠ [] := by
      intro h0; rw [h0] at hne; simp at hne
    obtain ⟨st', hs, hk, _⟩ := agg_step cfg hc ok st s ts m ns hr hne'
      (fun n hn => ⟨(hall n hn).1, (hall n hn).2, hf n hn⟩)
    refine ⟨st', ?_, hk⟩
    simp only [payloads264, mkPkts, Item.ts, Item.marker, Item.units, Item.nals]
    rw [vRun_cons cfg ok .h264 st _ [] st' _ (by simpa [vStep] using hs)]
    simp [vRun_nil, frameOf, Function.comp_def]
  | frag ts m nal cuts =>
    simp only [itemNoFiller, Item.nals, List.all_cons, List.all_nil, Bool.and_true] at hf
    obtain ⟨st', hs, hk⟩ := frag_item cfg hc ok st s ts m nal cuts hr hl hf
    exact ⟨st', by simpa [Item.ts, Item.marker, Item.units, Item.nals] using hs, hk⟩

/-- C06 round trip (H.264), from ANY state whose metadata is ready -/
theorem h264_roundtrip (cfg : Cfg) (hc : RoundCfg cfg) (ok : Bytes → Bool) :
    ∀ (items : List Item) (st : VSt) (s : UInt16), st.ready = true →
      (∀ it ∈ items, legal264F it = true ∧ itemNoFiller it = true) →
      ∃ st', vRun cfg ok .h264 st (packets264 s items) = (st', (units items).map (frameOf st.base), .ok) ∧ Keeps st st' := by
  intro items
  induction items with
  | nil => intro st s hr _; exact ⟨st, rfl, Keeps.refl hr⟩
  | cons it its ih =>
    intro st s hr hall
    obtain ⟨hl, hf⟩ := hall it (List.mem_cons_self ..)
    obtain ⟨st1, h1, k1⟩ := item264 cfg hc ok st s it hr hl hf
    obtain ⟨st2, h2, k2⟩ := ih st1 (s + UInt16.ofNat (payloads264 it).length) k1.ready
      (fun x hx => hall x (List.mem_cons_of_mem _ hx))
    refine ⟨st2, ?_, k1.trans k2⟩
    simp only [packets264, packetsWith] at h2 ⊢
    rw [vRun_append cfg ok .h264 _ _ st st1 _ h1, h2, k1.base]
    simp [units, List.flatMap_cons]

end IpcHub.DepackRound
