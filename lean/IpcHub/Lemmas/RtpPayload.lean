/-
`Packet.Payload()` behind `ReadPacket` (Model/RtpPacket.lean: the RTP header parser, the padding
strip) on every packet of the RFC 3550 sender (Spec/RtpEncode.lean): the payload handed to the
depacketizers is exactly the sender's payload — CSRC list, header extension and padding removed;
a padding-only or empty packet yields the empty payload.
-/
import IpcHub.Spec.RtpEncode
import IpcHub.Model.RtpPacket
import IpcHub.Lemmas.DepackBytes
namespace IpcHub.RtpPayload
open IpcHub.Depack IpcHub.RtpEncode IpcHub.RtpPacket IpcHub.DepackBytes
open IpcHub.Packetise (hi8 lo8)

set_option maxRecDepth 100000

theorem octet0_cc (pad ext : Bool) : ∀ n : Nat, n < 16 →
    ((0x80 ||| (if pad then 0x20 else 0) ||| (if ext then 0x10 else 0) ||| UInt8.ofNat n : UInt8) &&& 0x0f).toNat = n := by
  cases pad <;> cases ext <;> decide

theorem octet0_p (pad ext : Bool) : ∀ n : Nat, n < 16 →
    (((0x80 ||| (if pad then 0x20 else 0) ||| (if ext then 0x10 else 0) ||| UInt8.ofNat n : UInt8) >>> (5 : UInt8)) &&& 1 = 1) = (pad = true) := by
  cases pad <;> cases ext <;> decide

theorem octet0_x (pad ext : Bool) : ∀ n : Nat, n < 16 →
    (((0x80 ||| (if pad then 0x20 else 0) ||| (if ext then 0x10 else 0) ||| UInt8.ofNat n : UInt8) >>> (4 : UInt8)) &&& 1 = 1) = (ext = true) := by
  cases pad <;> cases ext <;> decide

theorem octet1_m (m : Bool) (pt : UInt8) :
    ((((if m then 0x80 else 0) ||| (pt &&& 0x7f) : UInt8) >>> (7 : UInt8)) &&& 1 = 1) = (m = true) := by
  revert pt
  cases m <;> exact forall_uint8 _ (by decide)

theorem length_flatMap_quad (l : List (UInt8 × UInt8 × UInt8 × UInt8)) : (l.flatMap quad).length = 4 * l.length := by
  induction l with
  | nil => rfl
  | cons a l ih => simp [List.flatMap_cons, quad, ih]; omega

/-- the octets in front of the header extension -/
def pre (p : Send) : Bytes :=
  octet0 p :: octet1 p :: p.seqHi :: p.seqLo :: (quad p.ts ++ quad p.ssrc ++ p.csrc.flatMap quad)

theorem header_eq (p : Send) : header p = pre p ++ extBytes p.ext := by
  simp [header, pre]

theorem pre_length (p : Send) : (pre p).length = 12 + 4 * p.csrc.length := by
  have := length_flatMap_quad p.csrc
  simp only [pre, List.length_cons, List.length_append, this, quad, List.length_nil]; omega

theorem padding_length (n : Nat) : (padding n).length = n := by
  unfold padding; split <;> simp <;> omega

theorem padding_getLast (n : Nat) (h : n ≠ 0) : (padding n).getLast? = some (UInt8.ofNat n) := by
  unfold padding; simp [h]

theorem drop_pre (p : Send) (rest : Bytes) : (pre p ++ rest).drop (12 + 4 * p.csrc.length) = rest := by
  rw [← pre_length p]; simp

theorem encode_eq (p : Send) : encode p = pre p ++ (extBytes p.ext ++ p.payload ++ padding p.pad) := by
  simp [encode, header_eq]

/-- the header the parser builds from the first eight octets -/
def hdrOf (b0 b1 s0 s1 t0 t1 t2 t3 : UInt8) (off : Nat) : Hdr :=
  { padding := (b0 >>> (5 : UInt8)) &&& 1 = 1, ext := (b0 >>> (4 : UInt8)) &&& 1 = 1,
    marker := (b1 >>> (7 : UInt8)) &&& 1 = 1, pt := b1 &&& 0x7f,
    seq := (s0.toUInt16 <<< 8) ||| s1.toUInt16, ts := be32 t0 t1 t2 t3, payloadOffset := off }

theorem unmarshal_noext (b0 b1 s0 s1 t0 t1 t2 t3 : UInt8) (tail : Bytes)
    (hx : ¬ ((b0 >>> (4 : UInt8)) &&& 1 = 1))
    (hlen : 12 + 4 * (b0 &&& 0x0f).toNat ≤ (b0 :: b1 :: s0 :: s1 :: t0 :: t1 :: t2 :: t3 :: tail).length) :
    unmarshal (b0 :: b1 :: s0 :: s1 :: t0 :: t1 :: t2 :: t3 :: tail)
      = .ok (hdrOf b0 b1 s0 s1 t0 t1 t2 t3 (12 + 4 * (b0 &&& 0x0f).toNat)) := by
  have h1 : ¬ ((b0 :: b1 :: s0 :: s1 :: t0 :: t1 :: t2 :: t3 :: tail).length < 12 + 4 * (b0 &&& 0x0f).toNat) := by omega
  simp only [unmarshal, h1, if_false, hx, decide_false, Bool.false_eq_true, hdrOf]

theorem unmarshal_ext (b0 b1 s0 s1 t0 t1 t2 t3 : UInt8) (tail : Bytes) (p0 p1 l0 l1 : UInt8) (rest : Bytes)
    (hx : (b0 >>> (4 : UInt8)) &&& 1 = 1)
    (hdrop : (b0 :: b1 :: s0 :: s1 :: t0 :: t1 :: t2 :: t3 :: tail).drop (12 + 4 * (b0 &&& 0x0f).toNat) = p0 :: p1 :: l0 :: l1 :: rest)
    (hp1 : be16 p0 p1 ≠ 0xBEDE) (hp2 : be16 p0 p1 ≠ 0x1000)
    (hlen : 12 + 4 * (b0 &&& 0x0f).toNat + 4 + be16 l0 l1 * 4 ≤ (b0 :: b1 :: s0 :: s1 :: t0 :: t1 :: t2 :: t3 :: tail).length) :
    unmarshal (b0 :: b1 :: s0 :: s1 :: t0 :: t1 :: t2 :: t3 :: tail)
      = .ok (hdrOf b0 b1 s0 s1 t0 t1 t2 t3 (12 + 4 * (b0 &&& 0x0f).toNat + 4 + be16 l0 l1 * 4)) := by
  have h1 : ¬ ((b0 :: b1 :: s0 :: s1 :: t0 :: t1 :: t2 :: t3 :: tail).length < 12 + 4 * (b0 &&& 0x0f).toNat) := by omega
  have h2 : ¬ ((b0 :: b1 :: s0 :: s1 :: t0 :: t1 :: t2 :: t3 :: tail).length < 12 + 4 * (b0 &&& 0x0f).toNat + 4) := by omega
  have h3 : ¬ ((b0 :: b1 :: s0 :: s1 :: t0 :: t1 :: t2 :: t3 :: tail).length < 12 + 4 * (b0 &&& 0x0f).toNat + 4 + be16 l0 l1 * 4) := by omega
  simp only [unmarshal, h1, if_false, hx, decide_true, if_true, h2, hdrop, h3, hp1, hp2, hdrOf]

theorem extBytes_length (e : Option (UInt8 × UInt8 × Bytes)) :
    (extBytes e).length = match e with | none => 0 | some (_, _, d) => 4 + d.length := by
  cases e with
  | none => rfl
  | some x => obtain ⟨a, b, d⟩ := x; simp [extBytes]; omega

theorem header_length (p : Send) : (header p).length = 12 + 4 * p.csrc.length + (extBytes p.ext).length := by
  rw [header_eq, List.length_append, pre_length]

theorem unmarshal_encode (p : Send) (hl : legal p = true) :
    ∃ h, unmarshal (encode p) = .ok h ∧ h.padding = (p.pad != 0) ∧ h.marker = p.marker ∧
      h.payloadOffset = (header p).length := by
  simp only [legal, Bool.and_eq_true, decide_eq_true_eq] at hl
  obtain ⟨⟨hcc, hpad⟩, hext⟩ := hl
  have hlen : (encode p).length = 12 + 4 * p.csrc.length + ((extBytes p.ext).length + p.payload.length + (padding p.pad).length) := by
    rw [encode_eq]; simp [pre_length]; omega
  have hdrop := drop_pre p (extBytes p.ext ++ p.payload ++ padding p.pad)
  rw [← encode_eq] at hdrop
  have hcc' : p.csrc.length < 16 := by omega
  have ho : octet0 p = (0x80 ||| (if (p.pad != 0) = true then 0x20 else 0) ||| (if p.ext.isSome = true then 0x10 else 0) ||| UInt8.ofNat p.csrc.length) := by
    unfold octet0; by_cases h : p.pad = 0 <;> simp [h]
  have h0 : (octet0 p &&& 0x0f).toNat = p.csrc.length := by rw [ho]; exact octet0_cc (p.pad != 0) p.ext.isSome p.csrc.length hcc'
  have hp : ((octet0 p >>> (5 : UInt8)) &&& 1 = 1) = ((p.pad != 0) = true) := by rw [ho]; exact octet0_p (p.pad != 0) p.ext.isSome p.csrc.length hcc'
  have hx : ((octet0 p >>> (4 : UInt8)) &&& 1 = 1) = (p.ext.isSome = true) := by rw [ho]; exact octet0_x (p.pad != 0) p.ext.isSome p.csrc.length hcc'
  have hm : ((octet1 p >>> (7 : UInt8)) &&& 1 = 1) = (p.marker = true) := octet1_m p.marker p.pt
  have hshape : encode p = octet0 p :: octet1 p :: p.seqHi :: p.seqLo :: p.ts.1 :: p.ts.2.1 :: p.ts.2.2.1 :: p.ts.2.2.2 ::
      (quad p.ssrc ++ p.csrc.flatMap quad ++ extBytes p.ext ++ p.payload ++ padding p.pad) := by
    simp [encode, header, quad]
  rw [hshape] at hlen hdrop
  rw [← h0] at hlen hdrop
  cases hE : p.ext with
  | none =>
    have hx' : ¬ ((octet0 p >>> (4 : UInt8)) &&& 1 = 1) := by rw [hx, hE]; simp
    have hu := unmarshal_noext _ _ _ _ _ _ _ _ _ hx' (by rw [hlen]; omega)
    refine ⟨_, by rw [hshape]; exact hu, ?_, ?_, ?_⟩
    · simp only [hdrOf, hp]; cases p.pad != 0 <;> simp
    · simp only [hdrOf, hm]; cases p.marker <;> simp
    · simp [hdrOf, header_length, h0, hE, extBytes]
  | some e =>
    obtain ⟨p0, p1, data⟩ := e
    rw [hE] at hext hdrop hlen hshape
    simp only [Bool.and_eq_true, decide_eq_true_eq] at hext
    obtain ⟨⟨⟨h4, hw⟩, hp1⟩, hp2⟩ := hext
    have hx' : (octet0 p >>> (4 : UInt8)) &&& 1 = 1 := by rw [hx, hE]; rfl
    have hbe : be16 (hi8 (data.length / 4)) (lo8 (data.length / 4)) * 4 = data.length := by
      rw [be16_hi_lo _ hw]; omega
    simp only [extBytes, List.cons_append, List.append_assoc] at hdrop hshape hlen
    have hle : 12 + 4 * (octet0 p &&& 0x0f).toNat + 4 + be16 (hi8 (data.length / 4)) (lo8 (data.length / 4)) * 4 ≤
        (octet0 p :: octet1 p :: p.seqHi :: p.seqLo :: p.ts.1 :: p.ts.2.1 :: p.ts.2.2.1 :: p.ts.2.2.2 ::
          (quad p.ssrc ++ (p.csrc.flatMap quad ++ p0 :: p1 :: hi8 (data.length / 4) :: lo8 (data.length / 4) :: (data ++ (p.payload ++ padding p.pad))))).length := by
      rw [hlen, hbe]; simp only [List.length_cons, List.length_append]; omega
    have hu := unmarshal_ext _ _ _ _ _ _ _ _ _ p0 p1 _ _ _ hx' hdrop hp1 hp2 hle
    refine ⟨_, by rw [hshape]; exact hu, ?_, ?_, ?_⟩
    · simp only [hdrOf, hp]; cases p.pad != 0 <;> simp
    · simp only [hdrOf, hm]; cases p.marker <;> simp
    · simp only [hdrOf, header_length, h0, hE, extBytes, hbe, List.length_cons]; omega

/-- `Payload()` of the parsed packet is the sender's payload -/
theorem payload_encode (cfg : RtpPacket.Cfg) (hs : cfg.stripsPadding = true) (p : Send) (hl : legal p = true) :
    ∃ h, unmarshal (encode p) = .ok h ∧ h.marker = p.marker ∧ payload cfg h (encode p) = p.payload := by
  obtain ⟨h, hu, hpad, hm, hoff⟩ := unmarshal_encode p hl
  refine ⟨h, hu, hm, ?_⟩
  have hp255 : p.pad ≤ 255 := by
    simp only [legal, Bool.and_eq_true, decide_eq_true_eq] at hl
    exact hl.1.2
  have henc : encode p = header p ++ (p.payload ++ padding p.pad) := by simp [encode]
  have hdrop : (encode p).drop h.payloadOffset = p.payload ++ padding p.pad := by
    rw [hoff, henc]; simp
  have hlen : (encode p).length = h.payloadOffset + (p.payload.length + p.pad) := by
    rw [hoff, henc]; simp [padding_length]
  unfold payload
  simp only [hs, hpad, Bool.true_and, hdrop]
  by_cases h0 : p.pad = 0
  · simp [h0, padding]
  · have hne : (p.pad != 0) = true := by simpa using h0
    have hgt : (encode p).length > h.payloadOffset := by omega
    have hlast : (encode p).getLast? = some (UInt8.ofNat p.pad) := by
      rw [henc, ← List.append_assoc, List.getLast?_append, padding_getLast p.pad h0]; rfl
    have hn : (UInt8.ofNat p.pad).toNat = p.pad := by
      rw [UInt8.toNat_ofNat']; omega
    simp only [hne, hgt, decide_true, Bool.and_self, if_true, hlast, hn]
    have hc : (decide (p.pad > 0) && decide (p.pad ≤ (encode p).length - h.payloadOffset)) = true := by
      simp only [Bool.and_eq_true, decide_eq_true_eq]; omega
    simp only [hc, if_true, List.length_append, padding_length]
    rw [show p.payload.length + p.pad - p.pad = p.payload.length from by omega]
    simp

end IpcHub.RtpPayload
