import IpcHub.Model.HlsStore
namespace IpcHub.HlsStore

/-- no step ever changes or removes an existing reader -/
theorem step_readers (copies : Bool) (st : Store) (op : Op) (k : Nat) (r : Reader)
    (h : st.readers[k]? = some r) : (step copies st op).1.readers[k]? = some r := by
  have hk : k < st.readers.length := by
    rcases Nat.lt_or_ge k st.readers.length with h' | h'
    · exact h'
    · rw [List.getElem?_eq_none h'] at h; simp at h
  cases op with
  | openSeg seq => simp only [step]; split <;> exact h
  | write seq data =>
    simp only [step]
    split
    · split <;> exact h
    · exact h
  | delete seq => simp only [step]; split <;> exact h
  | get seq =>
    simp only [step]
    split
    · split
      · simp only [List.getElem?_append_left hk]; exact h
      · exact h
    · exact h
  | read j => simp only [step]; split <;> exact h

theorem run_readers (copies : Bool) : ∀ (ops : List Op) (st : Store) (k : Nat) (r : Reader),
    st.readers[k]? = some r → (run copies st ops).readers[k]? = some r := by
  intro ops
  induction ops with
  | nil => intro st k r h; exact h
  | cons op ops ih => intro st k r h; exact ih _ k r (step_readers copies st op k r h)

/-- with private copies, a successful `get` creates a reader holding the file's bytes of that moment -/
theorem get_copies (st : Store) (seq : Nat) (x : Bytes) (h : content st seq = some x) :
    (step true st (.get seq)).1.readers[st.readers.length]? = some (.priv x) := by
  unfold content at h
  cases hl : lookup st.files seq with
  | none => simp [hl] at h
  | some id =>
    simp only [hl, Option.bind_some] at h
    cases hb : st.bufs[id]? with
    | none => simp [hb] at h
    | some b =>
      simp only [hb, Option.map_some] at h
      injection h with h
      simp [step, hl, hb, h]

end IpcHub.HlsStore
