/-
Lemmas for C09, frame and stream level: one frame demultiplexes to one PES packet; a stream of
frames demultiplexes per PID to the frames of that PID with continuous counters.
-/
import IpcHub.Lemmas.Ts
namespace IpcHub.TsLemmas
open IpcHub.Ts IpcHub.TsSpec

/-- the constants of the writer the byte layout depends on -/
def CfgOk (c : Cfg) : Prop := c.pcrAfLen = 7 ∧ c.pcrAfFlags = 0x50 ∧ c.pesLimit = 0xffff

/-- a frame whose fields fit their TS fields: 13-bit PID, 8-bit stream id, 33-bit time stamps -/
def FrameOk (f : Frame) : Prop :=
  f.pid < 8192 ∧ f.streamId < 256 ∧ 0 ≤ f.pts ∧ f.pts < 2^33 ∧ 0 ≤ f.dts ∧ f.dts < 2^33

/-- the PES packet a demultiplexer must recover from the packets of frame `f` -/
def pesOf (f : Frame) : Pes :=
  { pid := f.pid, streamId := f.streamId, pts := f.pts.toNat,
    dts := if f.dts = f.pts then none else some f.dts.toNat,
    rai := f.key, pcr := if f.key then some f.dts.toNat else none,
    payload := f.header ++ f.payload }

theorem parsePackets_length : ∀ (l : List (List UInt8)) (tps : List TsPacket),
    parsePackets l = some tps → tps.length = l.length := by
  intro l
  induction l with
  | nil => intro tps h; simp [parsePackets] at h; simp [h]
  | cons a l ih =>
    intro tps h
    simp only [parsePackets, List.mapM_cons] at h ih
    cases ha : parsePacket a with
    | none => simp [ha] at h
    | some x =>
      cases hl : List.mapM parsePacket l with
      | none => simp [ha, hl] at h
      | some xs =>
        simp [ha, hl] at h
        subst h
        simp [ih xs hl]

theorem parsePackets_append (a b : List (List UInt8)) (ta tb : List TsPacket)
    (ha : parsePackets a = some ta) (hb : parsePackets b = some tb) :
    parsePackets (a ++ b) = some (ta ++ tb) := by
  simp only [parsePackets] at *
  simp [List.mapM_append, ha, hb]

def firstTs (c : Cfg) (f : Frame) (cc : Nat) (af : Option AdaptField) : TsPacket :=
  { pusi := true, pid := f.pid, cc := cc % 16, af := af,
    payload := pesHeader c f (f.header ++ f.payload).length ++ (f.header ++ f.payload).take (firstBody f) }

theorem framePackets_parse (c : Cfg) (f : Frame) (cc : Nat) (hc : CfgOk c) (hf : FrameOk f)
    (hne : f.payload ≠ []) :
    ∃ first rest, parsePackets (framePackets c f cc) = some (first :: rest)
      ∧ first.pusi = true ∧ (∀ p ∈ rest, p.pusi = false) ∧ (∀ p ∈ first :: rest, p.pid = f.pid)
      ∧ ccChain cc (first :: rest) = true
      ∧ parsePes (first :: rest) = some (pesOf f) := by
  obtain ⟨h7, hfl, hlim⟩ := hc
  obtain ⟨hpid, hsid, hp0, hp1, hd0, hd1⟩ := hf
  have hdne : f.header ++ f.payload ≠ [] := by simp [hne]
  obtain ⟨af, hfirst, hrest, hrai, hpcr⟩ :=
    firstPacket_parse c f (cc + 1) (f.header ++ f.payload) h7 hfl hpid hdne hd0 hd1
  obtain ⟨tps, htps, hall, hcc, hcat, _⟩ :=
    contPackets_parse f.pid hpid (List.length (firstPacket c f (cc + 1) (f.header ++ f.payload)).snd)
      (firstPacket c f (cc + 1) (f.header ++ f.payload)).snd (cc + 1) (Nat.le_refl _)
  refine ⟨firstTs c f (cc + 1) af, tps, ?_, rfl, fun p hp => (hall p hp).1, ?_, ?_, ?_⟩
  · have hemp : f.payload.isEmpty = false := by simp [hne]
    simp only [framePackets, hemp]
    rw [show firstPacket c f (cc + 1) (f.header ++ f.payload)
        = ((firstPacket c f (cc + 1) (f.header ++ f.payload)).fst, (firstPacket c f (cc + 1) (f.header ++ f.payload)).snd) from rfl]
    simp only [parsePackets] at htps ⊢
    simp [List.mapM_cons, hfirst, htps, firstTs]
  · intro p hp
    rcases List.mem_cons.mp hp with rfl | hm
    · rfl
    · exact (hall p hm).2
  · simp only [ccChain, firstTs]
    rw [ccChain_congr ((cc + 1) % 16) (cc + 1) (by omega) tps, hcc]
    simp
  · have hcat' : ∀ (first : TsPacket),
        first.payload = pesHeader c f (f.header ++ f.payload).length ++ (f.header ++ f.payload).take (firstBody f) →
        ((first :: tps).map (·.payload)).flatten
          = pesHeader c f (f.header ++ f.payload).length ++ (f.header ++ f.payload) := by
      intro first hfp
      simp only [List.map_cons, List.flatten_cons, hcat, hrest, hfp, List.append_assoc, List.take_append_drop]
    have hcat' := hcat' (firstTs c f (cc + 1) af) rfl
    have := parsePes_pesHeader c f (f.header ++ f.payload) _ tps hcat' hlim hsid hp0 hp1 hd0 hd1
    rw [this]
    simp only [pesOf, firstTs, hrai, hpcr]

theorem splitUnits_nopusi (l : List TsPacket) (h : ∀ p ∈ l, p.pusi = false) : splitUnits l = (l, []) := by
  induction l with
  | nil => rfl
  | cons p ps ih =>
    have hp : p.pusi = false := h p (List.mem_cons_self ..)
    have := ih (fun q hq => h q (List.mem_cons_of_mem _ hq))
    simp [splitUnits, this, hp]

theorem splitUnits_unit (first : TsPacket) (rest : List TsPacket) (h1 : first.pusi = true)
    (h : ∀ p ∈ rest, p.pusi = false) : splitUnits (first :: rest) = ([], [first :: rest]) := by
  simp [splitUnits, splitUnits_nopusi rest h, h1]

/-- appending a well-formed tail (one that starts with a unit start) appends its units -/
theorem splitUnits_append (A B : List TsPacket) (uB : List (List TsPacket)) (hB : splitUnits B = ([], uB)) :
    splitUnits (A ++ B) = ((splitUnits A).1, (splitUnits A).2 ++ uB) := by
  induction A with
  | nil => simp [splitUnits, hB]
  | cons p ps ih =>
    simp only [List.cons_append, splitUnits, ih]
    split <;> simp

theorem filter_pid_self (pid : Nat) (l : List TsPacket) (h : ∀ p ∈ l, p.pid = pid) :
    l.filter (·.pid == pid) = l := by
  apply List.filter_eq_self.mpr
  intro p hp; simp [h p hp]

theorem filter_pid_none (pid : Nat) (l : List TsPacket) (q : Nat) (h : ∀ p ∈ l, p.pid = q) (hne : q ≠ pid) :
    l.filter (·.pid == pid) = [] := by
  apply List.filter_eq_nil_iff.mpr
  intro p hp; simp [h p hp, hne]

/-- one frame alone: exactly one PES packet on its PID -/
theorem framePackets_demux (c : Cfg) (f : Frame) (cc : Nat) (hc : CfgOk c) (hf : FrameOk f)
    (hne : f.payload ≠ []) :
    ∃ tps, parsePackets (framePackets c f cc) = some tps
      ∧ (∀ p ∈ tps, p.pid = f.pid) ∧ ccChain cc tps = true
      ∧ (tps.head?.map (·.pusi)) = some true
      ∧ demuxPid f.pid tps = some [pesOf f] := by
  obtain ⟨first, rest, hp, h1, hr, hpid, hcc, hpes⟩ := framePackets_parse c f cc hc hf hne
  refine ⟨first :: rest, hp, hpid, hcc, by simp [h1], ?_⟩
  simp [demuxPid, filter_pid_self f.pid _ hpid, splitUnits_unit first rest h1 hr, hpes]

end IpcHub.TsLemmas
