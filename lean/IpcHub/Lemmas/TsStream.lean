/-
Lemmas for C09, frame and stream level: one frame demultiplexes to one PES packet; a stream of
frames demultiplexes per PID to the frames of that PID with continuous counters.
-/
import IpcHub.Lemmas.Ts
namespace IpcHub.TsLemmas
open IpcHub.Ts IpcHub.TsSpec

/-- the constants of the writer the byte layout depends on -/
def CfgOk (c : Cfg) : Prop := c.pcrAfLen = 7 ∧ c.pcrAfFlags = 0x50 ∧ c.pesLimit = 0xffff

/-- a frame whose fields fit their TS fields: 13-bit PID, 8-bit stream id, 33-bit time stamps -/
def FrameOk (f : Frame) : Prop :=
  f.pid < 8192 ∧ f.streamId < 256 ∧ 0 ≤ f.pts ∧ f.pts < 2^33 ∧ 0 ≤ f.dts ∧ f.dts < 2^33

/-- the PES packet a demultiplexer must recover from the packets of frame `f` -/
def pesOf (f : Frame) : Pes :=
  { pid := f.pid, streamId := f.streamId, pts := f.pts.toNat,
    dts := if f.dts = f.pts then none else some f.dts.toNat,
    rai := f.key, pcr := if f.key then some f.dts.toNat else none,
    payload := f.header ++ f.payload }

theorem parsePackets_length : ∀ (l : List (List UInt8)) (tps : List TsPacket),
    parsePackets l = some tps → tps.length = l.length := by
  intro l
  induction l with
  | nil => intro tps h; simp [parsePackets] at h; simp [h]
  | cons a l ih =>
    intro tps h
    simp only [parsePackets, List.mapM_cons] at h ih
    cases ha : parsePacket a with
    | none => simp [ha] at h
    | some x =>
      cases hl : List.mapM parsePacket l with
      | none => simp [ha, hl] at h
      | some xs =>
        simp [ha, hl] at h
        subst h
        simp [ih xs hl]

theorem parsePackets_append (a b : List (List UInt8)) (ta tb : List TsPacket)
    (ha : parsePackets a = some ta) (hb : parsePackets b = some tb) :
    parsePackets (a ++ b) = some (ta ++ tb) := by
  simp only [parsePackets] at *
  simp [List.mapM_append, ha, hb]

def firstTs (c : Cfg) (f : Frame) (cc : Nat) (af : Option AdaptField) : TsPacket :=
  { pusi := true, pid := f.pid, cc := cc % 16, af := af,
    payload := pesHeader c f (f.header ++ f.payload).length ++ (f.header ++ f.payload).take (firstBody f) }

theorem framePackets_parse (c : Cfg) (f : Frame) (cc : Nat) (hc : CfgOk c) (hf : FrameOk f)
    (hne : f.payload ≠ []) :
    ∃ first rest, parsePackets (framePackets c f cc) = some (first :: rest)
      ∧ first.pusi = true ∧ (∀ p ∈ rest, p.pusi = false) ∧ (∀ p ∈ first :: rest, p.pid = f.pid)
      ∧ ccChain cc (first :: rest) = true
      ∧ parsePes (first :: rest) = some (pesOf f) := by
  obtain ⟨h7, hfl, hlim⟩ := hc
  obtain ⟨hpid, hsid, hp0, hp1, hd0, hd1⟩ := hf
  have hdne : f.header ++ f.payload ≠ [] := by simp [hne]
  obtain ⟨af, hfirst, hrest, hrai, hpcr⟩ :=
    firstPacket_parse c f (cc + 1) (f.header ++ f.payload) h7 hfl hpid hdne hd0 hd1
  obtain ⟨tps, htps, hall, hcc, hcat, _⟩ :=
    contPackets_parse f.pid hpid (List.length (firstPacket c f (cc + 1) (f.header ++ f.payload)).snd)
      (firstPacket c f (cc + 1) (f.header ++ f.payload)).snd (cc + 1) (Nat.le_refl _)
  refine ⟨firstTs c f (cc + 1) af, tps, ?_, rfl, fun p hp => (hall p hp).1, ?_, ?_, ?_⟩
  · have hemp : f.payload.isEmpty = false := by simp [hne]
    simp only [framePackets, hemp]
    rw [show firstPacket c f (cc + 1) (f.header ++ f.payload)
        = ((firstPacket c f (cc + 1) (f.header ++ f.payload)).fst, (firstPacket c f (cc + 1) (f.header ++ f.payload)).snd) from rfl]
    simp only [parsePackets] at htps ⊢
    simp [List.mapM_cons, hfirst, htps, firstTs]
  · intro p hp
    rcases List.mem_cons.mp hp with rfl | hm
    · rfl
    · exact (hall p hm).2
  · simp only [ccChain, firstTs]
    rw [ccChain_congr ((cc + 1) % 16) (cc + 1) (by omega) tps, hcc]
    simp
  · have hcat' : ∀ (first : TsPacket),
        first.payload = pesHeader c f (f.header ++ f.payload).length ++ (f.header ++ f.payload).take (firstBody f) →
        ((first :: tps).map (·.payload)).flatten
          = pesHeader c f (f.header ++ f.payload).length ++ (f.header ++ f.payload) := by
      intro first hfp
      simp only [List.map_cons, List.flatten_cons, hcat, hrest, hfp, List.append_assoc, List.take_append_drop]
    have hcat' := hcat' (firstTs c f (cc + 1) af) rfl
    have := parsePes_pesHeader c f (f.header ++ f.payload) _ tps hcat' hlim hsid hp0 hp1 hd0 hd1
    rw [this]
    simp only [pesOf, firstTs, hrai, hpcr]

theorem splitUnits_nopusi (l : List TsPacket) (h : ∀ p ∈ l, p.pusi = false) : splitUnits l = (l, []) := by
  induction l with
  | nil => rfl
  | cons p ps ih =>
    have hp : p.pusi = false := h p (List.mem_cons_self ..)
    have := ih (fun q hq => h q (List.mem_cons_of_mem _ hq))
    simp [splitUnits, this, hp]

theorem splitUnits_unit (first : TsPacket) (rest : List TsPacket) (h1 : first.pusi = true)
    (h : ∀ p ∈ rest, p.pusi = false) : splitUnits (first :: rest) = ([], [first :: rest]) := by
  simp [splitUnits, splitUnits_nopusi rest h, h1]

/-- appending a well-formed tail (one that starts with a unit start) appends its units -/
theorem splitUnits_append (A B : List TsPacket) (uB : List (List TsPacket)) (hB : splitUnits B = ([], uB)) :
    splitUnits (A ++ B) = ((splitUnits A).1, (splitUnits A).2 ++ uB) := by
  induction A with
  | nil => simp [splitUnits, hB]
  | cons p ps ih =>
    simp only [List.cons_append, splitUnits, ih]
    split <;> simp

theorem filter_pid_self (pid : Nat) (l : List TsPacket) (h : ∀ p ∈ l, p.pid = pid) :
    l.filter (·.pid == pid) = l := by
  apply List.filter_eq_self.mpr
  intro p hp; simp [h p hp]

theorem filter_pid_none (pid : Nat) (l : List TsPacket) (q : Nat) (h : ∀ p ∈ l, p.pid = q) (hne : q ≠ pid) :
    l.filter (·.pid == pid) = [] := by
  apply List.filter_eq_nil_iff.mpr
  intro p hp; simp [h p hp, hne]

/-- one frame alone: exactly one PES packet on its PID -/
theorem framePackets_demux (c : Cfg) (f : Frame) (cc : Nat) (hc : CfgOk c) (hf : FrameOk f)
    (hne : f.payload ≠ []) :
    ∃ tps, parsePackets (framePackets c f cc) = some tps
      ∧ (∀ p ∈ tps, p.pid = f.pid) ∧ ccChain cc tps = true
      ∧ (tps.head?.map (·.pusi)) = some true
      ∧ demuxPid f.pid tps = some [pesOf f] := by
  obtain ⟨first, rest, hp, h1, hr, hpid, hcc, hpes⟩ := framePackets_parse c f cc hc hf hne
  refine ⟨first :: rest, hp, hpid, hcc, by simp [h1], ?_⟩
  simp [demuxPid, filter_pid_self f.pid _ hpid, splitUnits_unit first rest h1 hr, hpes]

/-! ### a whole stream of frames -/

theorem ccChain_append (A B : List TsPacket) : ∀ (s : Nat), ccChain s A = true →
    ccChain s (A ++ B) = ccChain (s + A.length) B := by
  induction A with
  | nil => intro s _; simp
  | cons p A ih =>
    intro s h
    simp only [ccChain, Bool.and_eq_true, beq_iff_eq] at h
    obtain ⟨hp, hA⟩ := h
    simp only [List.cons_append, ccChain, hp, beq_self_eq_true, Bool.true_and]
    rw [← hp, ih p.cc hA]
    exact ccChain_congr _ _ (by simp only [List.length_cons]; omega) B

/-- the PES packets expected on `pid`: one per frame of that PID with a non-empty payload -/
def pesFor (pid : Nat) (fs : List Frame) : List Pes :=
  (fs.filter (fun f => f.pid == pid && !f.payload.isEmpty)).map pesOf

/-- the order in which units start = the order of the (non-empty) frames -/
def startPids (fs : List Frame) : List Nat := (fs.filter (fun f => !f.payload.isEmpty)).map (·.pid)

theorem filter_pusi_unit (first : TsPacket) (rest : List TsPacket) (h1 : first.pusi = true)
    (hr : ∀ p ∈ rest, p.pusi = false) : (first :: rest).filter (·.pusi) = [first] := by
  have : rest.filter (·.pusi) = [] := List.filter_eq_nil_iff.mpr (fun p hp => by simp [hr p hp])
  simp [List.filter_cons, h1, this]

theorem writeFrame_audio (c : Cfg) (w : Writer) (f : Frame) (h : f.pid = c.audioPid) :
    writeFrame c w f = ({ w with audioCC := w.audioCC + (framePackets c f w.audioCC).length },
                        framePackets c f w.audioCC) := by
  have hb : (f.pid == c.audioPid) = true := by simp [h]
  simp [writeFrame, hb]

theorem writeFrame_video (c : Cfg) (w : Writer) (f : Frame) (h : f.pid ≠ c.audioPid) :
    writeFrame c w f = ({ w with videoCC := w.videoCC + (framePackets c f w.videoCC).length },
                        framePackets c f w.videoCC) := by
  have hb : (f.pid == c.audioPid) = false := by simp [h]
  simp [writeFrame, hb]

theorem writeFrames_cons (c : Cfg) (w : Writer) (f : Frame) (fs : List Frame) :
    Ts.writeFrames c w (f :: fs) = (writeFrame c w f).2 ++ Ts.writeFrames c (writeFrame c w f).1 fs := by
  simp [Ts.writeFrames]

theorem cc_step (pid q : Nat) (A tps : List TsPacket) (s s' : Nat) (hpidA : ∀ p ∈ A, p.pid = q)
    (h : if q = pid then (ccChain s A = true ∧ s' = s + A.length) else s' = s)
    (hB : ccChain s' (tps.filter (·.pid == pid)) = true) :
    ccChain s ((A ++ tps).filter (·.pid == pid)) = true := by
  rw [List.filter_append]
  by_cases hq : q = pid
  · simp only [hq, if_true] at h
    obtain ⟨hA, hs⟩ := h
    rw [filter_pid_self pid A (fun p hp => (hpidA p hp).trans hq), ccChain_append _ _ _ hA, ← hs]
    exact hB
  · simp only [hq, if_false] at h
    rw [filter_pid_none pid A q hpidA hq, List.nil_append, ← h]
    exact hB

theorem units_step (pid : Nat) (f : Frame) (fs : List Frame) (first : TsPacket) (rest tps : List TsPacket)
    (u : List (List TsPacket)) (hp1 : first.pusi = true) (hpr : ∀ p ∈ rest, p.pusi = false)
    (hpid : ∀ p ∈ first :: rest, p.pid = f.pid) (hne : f.payload ≠ [])
    (hpes : parsePes (first :: rest) = some (pesOf f))
    (hu1 : splitUnits (tps.filter (·.pid == pid)) = ([], u)) (hu2 : u.mapM parsePes = some (pesFor pid fs)) :
    ∃ units, splitUnits (((first :: rest) ++ tps).filter (·.pid == pid)) = ([], units)
      ∧ units.mapM parsePes = some (pesFor pid (f :: fs)) := by
  have hemp : f.payload.isEmpty = false := by simp [hne]
  rw [List.filter_append]
  by_cases hpq : f.pid = pid
  · rw [filter_pid_self pid _ (fun p hp => (hpid p hp).trans hpq), splitUnits_append _ _ u hu1,
      splitUnits_unit first rest hp1 hpr]
    refine ⟨[first :: rest] ++ u, rfl, ?_⟩
    have hb : (f.pid == pid) = true := by simp [hpq]
    simp only [pesFor, List.filter_cons, hb, hemp, Bool.not_false, Bool.and_self, if_true, List.map_cons,
      List.singleton_append, List.mapM_cons, hpes]
    simp only [pesFor] at hu2
    simp [hu2]
  · rw [filter_pid_none pid _ f.pid hpid hpq, List.nil_append]
    refine ⟨u, hu1, ?_⟩
    have hb : (f.pid == pid) = false := by simp [hpq]
    simpa [pesFor, List.filter_cons, hb] using hu2

theorem writeFrames_parse (c : Cfg) (hc : CfgOk c) (hva : c.videoPid ≠ c.audioPid) :
    ∀ (fs : List Frame) (w : Writer),
      (∀ f ∈ fs, FrameOk f ∧ (f.pid = c.videoPid ∨ f.pid = c.audioPid)) →
      ∃ tps, parsePackets (Ts.writeFrames c w fs) = some tps
        ∧ (∀ p ∈ tps, p.pid = c.videoPid ∨ p.pid = c.audioPid)
        ∧ ccChain w.videoCC (tps.filter (·.pid == c.videoPid)) = true
        ∧ ccChain w.audioCC (tps.filter (·.pid == c.audioPid)) = true
        ∧ (∀ pid, ∃ units, splitUnits (tps.filter (·.pid == pid)) = ([], units)
              ∧ units.mapM parsePes = some (pesFor pid fs))
        ∧ (tps.filter (·.pusi)).map (·.pid) = startPids fs := by
  intro fs
  induction fs with
  | nil =>
    intro w _
    exact ⟨[], by simp [Ts.writeFrames, parsePackets], by simp, by simp [ccChain], by simp [ccChain],
      fun pid => ⟨[], by simp [splitUnits], by simp [pesFor]⟩, by simp [startPids]⟩
  | cons f fs ih =>
    intro w hall
    obtain ⟨hfok, hfpid⟩ := hall f (List.mem_cons_self ..)
    have hrest : ∀ g ∈ fs, FrameOk g ∧ (g.pid = c.videoPid ∨ g.pid = c.audioPid) :=
      fun g hg => hall g (List.mem_cons_of_mem _ hg)
    rw [writeFrames_cons]
    by_cases hemp : f.payload = []
    · -- nothing written, counters unchanged
      have hfp : ∀ cc, framePackets c f cc = [] := fun cc => by simp [framePackets, hemp]
      have hw : writeFrame c w f = (w, []) := by
        by_cases haud : f.pid = c.audioPid
        · rw [writeFrame_audio c w f haud, hfp]; rfl
        · rw [writeFrame_video c w f haud, hfp]; rfl
      rw [hw]
      obtain ⟨tps, h1, h2, h3, h4, h5, h6⟩ := ih w hrest
      refine ⟨tps, by simpa using h1, h2, h3, h4, ?_, ?_⟩
      · intro pid
        obtain ⟨u, hu1, hu2⟩ := h5 pid
        exact ⟨u, hu1, by simpa [pesFor, List.filter_cons, hemp] using hu2⟩
      · simpa [startPids, List.filter_cons, hemp] using h6
    · have hne : f.payload.isEmpty = false := by simp [hemp]
      by_cases haud : f.pid = c.audioPid
      · rw [writeFrame_audio c w f haud]
        obtain ⟨first, rest, hp, hp1, hpr, hpid, hcc, hpes⟩ := framePackets_parse c f w.audioCC hc hfok hemp
        have hlen := parsePackets_length _ _ hp
        obtain ⟨tps, h1, h2, h3, h4, h5, h6⟩ :=
          ih { w with audioCC := w.audioCC + (framePackets c f w.audioCC).length } hrest
        refine ⟨(first :: rest) ++ tps, parsePackets_append _ _ _ _ hp h1, ?_, ?_, ?_, ?_, ?_⟩
        · intro p hp'
          rcases List.mem_append.mp hp' with hm | hm
          · exact Or.inr ((hpid p hm).trans haud)
          · exact h2 p hm
        · exact cc_step c.videoPid f.pid _ tps w.videoCC w.videoCC hpid
            (by have : f.pid ≠ c.videoPid := by rw [haud]; exact fun h => hva h.symm
                simp [this]) h3
        · exact cc_step c.audioPid f.pid _ tps w.audioCC _ hpid
            (by simp only [haud, if_true]; exact ⟨hcc, by rw [hlen]⟩) h4
        · intro pid
          obtain ⟨u, hu1, hu2⟩ := h5 pid
          exact units_step pid f fs first rest tps u hp1 hpr hpid hemp hpes hu1 hu2
        · rw [List.filter_append, filter_pusi_unit first rest hp1 hpr]
          simp only [startPids, List.filter_cons, hne, Bool.not_false, if_true, List.map_cons, List.map_append,
            List.map_nil, List.singleton_append, hpid first (List.mem_cons_self ..)]
          simp only [startPids] at h6
          rw [h6]
      · have hvid : f.pid = c.videoPid := by rcases hfpid with h | h; exact h; exact absurd h haud
        rw [writeFrame_video c w f haud]
        obtain ⟨first, rest, hp, hp1, hpr, hpid, hcc, hpes⟩ := framePackets_parse c f w.videoCC hc hfok hemp
        have hlen := parsePackets_length _ _ hp
        obtain ⟨tps, h1, h2, h3, h4, h5, h6⟩ :=
          ih { w with videoCC := w.videoCC + (framePackets c f w.videoCC).length } hrest
        refine ⟨(first :: rest) ++ tps, parsePackets_append _ _ _ _ hp h1, ?_, ?_, ?_, ?_, ?_⟩
        · intro p hp'
          rcases List.mem_append.mp hp' with hm | hm
          · exact Or.inl ((hpid p hm).trans hvid)
          · exact h2 p hm
        · exact cc_step c.videoPid f.pid _ tps w.videoCC _ hpid
            (by simp only [hvid, if_true]; exact ⟨hcc, by rw [hlen]⟩) h3
        · exact cc_step c.audioPid f.pid _ tps w.audioCC w.audioCC hpid (by simp [haud]) h4
        · intro pid
          obtain ⟨u, hu1, hu2⟩ := h5 pid
          exact units_step pid f fs first rest tps u hp1 hpr hpid hemp hpes hu1 hu2
        · rw [List.filter_append, filter_pusi_unit first rest hp1 hpr]
          simp only [startPids, List.filter_cons, hne, Bool.not_false, if_true, List.map_cons, List.map_append,
            List.map_nil, List.singleton_append, hpid first (List.mem_cons_self ..)]
          simp only [startPids] at h6
          rw [h6]

/-! ### from packets to the flat byte stream -/

theorem parsePacket_length (p : List UInt8) (t : TsPacket) (h : parsePacket p = some t) : p.length = 188 := by
  unfold parsePacket at h
  by_cases hl : p.length ≠ 188
  · simp [hl] at h
  · omega

theorem parsePackets_all188 : ∀ (ps : List (List UInt8)) (tps : List TsPacket),
    parsePackets ps = some tps → ∀ p ∈ ps, p.length = 188 := by
  intro ps
  induction ps with
  | nil => intro _ _ p hp; simp at hp
  | cons a l ih =>
    intro tps h p hp
    simp only [parsePackets, List.mapM_cons] at h ih
    cases ha : parsePacket a with
    | none => simp [ha] at h
    | some x =>
      cases hl : List.mapM parsePacket l with
      | none => simp [ha, hl] at h
      | some xs =>
        rcases List.mem_cons.mp hp with rfl | hm
        · exact parsePacket_length _ _ ha
        · exact ih xs hl p hm

/-- whole 188-byte packets: splitting the concatenation gives the packets back -/
theorem chunk188_flatten : ∀ (ps : List (List UInt8)) (fuel : Nat), ps.length ≤ fuel →
    (∀ p ∈ ps, p.length = 188) → chunk188 fuel ps.flatten = some ps := by
  intro ps
  induction ps with
  | nil => intro fuel _ _; cases fuel <;> simp [chunk188]
  | cons p ps ih =>
    intro fuel hf hall
    cases fuel with
    | zero => simp at hf
    | succ fuel =>
      have hp : p.length = 188 := hall p (List.mem_cons_self ..)
      have hne : (p ++ ps.flatten).isEmpty = false := by
        cases p with
        | nil => simp at hp
        | cons a b => simp
      have ht : (p ++ ps.flatten).take 188 = p := List.take_left' hp
      have hd : (p ++ ps.flatten).drop 188 = ps.flatten := List.drop_left' hp
      simp only [List.flatten_cons, chunk188, hne, ht, hd, hp]
      rw [ih fuel (by simpa using hf) (fun q hq => hall q (List.mem_cons_of_mem _ hq))]
      simp

end IpcHub.TsLemmas
