/- helper lemmas about the model of utils.CanonicalPath / path.Clean (C17, C18) -/
import IpcHub.Model.PathCanon
namespace IpcHub.PathCanon

theorem joinSegs_head (s : List Char) (ss : List (List Char)) : (joinSegs (s :: ss)).head? = some '/' := rfl

theorem cleanRooted_head (p : List Char) : (cleanRooted p).head? = some '/' := by
  unfold cleanRooted
  split <;> rfl

theorem cleanRooted_ne_nil (p : List Char) : cleanRooted p ≠ [] := by
  intro h; have := cleanRooted_head p; rw [h] at this; cases this

theorem canonStep_head (cfg : Cfg) (p : List Char) : (canonStep cfg p).head? = some '/' := by
  unfold canonStep
  simp only
  split
  · rfl
  · generalize hq : (if (List.map cfg.lower (trim cfg.isSpace p)).head? ≠ some '/' then
        '/' :: List.map cfg.lower (trim cfg.isSpace p) else List.map cfg.lower (trim cfg.isSpace p)) = q
    have hqh : q.head? = some '/' := by
      rw [← hq]; split
      · rfl
      · rename_i h; simpa using h
    split
    · split
      · exact hqh
      · rw [List.head?_append]; simp [cleanRooted_head]
    · exact cleanRooted_head _

theorem canonIter_head (cfg : Cfg) : ∀ (n : Nat) (p : List Char), p.head? = some '/' → (canonIter cfg n p).head? = some '/' := by
  intro n
  induction n with
  | zero => intro p h; exact h
  | succ n ih =>
    intro p h
    unfold canonIter
    simp only
    split
    · exact canonStep_head cfg p
    · exact ih _ (canonStep_head cfg p)

/-- CanonicalPath always returns a rooted, hence non-empty, path: `path[len(path)-1]` in Match
    cannot go out of range -/
theorem canonicalPath_head (cfg : Cfg) (p : List Char) : (canonicalPath cfg p).head? = some '/' := by
  unfold canonicalPath
  split
  · unfold canonIter
    simp only
    split
    · exact canonStep_head cfg p
    · exact canonIter_head cfg _ _ (canonStep_head cfg p)
  · exact canonStep_head cfg p

theorem canonicalPath_ne_nil (cfg : Cfg) (p : List Char) : canonicalPath cfg p ≠ [] := by
  intro h; have := canonicalPath_head cfg p; rw [h] at this; cases this

end IpcHub.PathCanon
