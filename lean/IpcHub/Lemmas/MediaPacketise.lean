import IpcHub.Spec.Packetise
import IpcHub.Model.MediaInst
import IpcHub.Lemmas.MediaCache2
/-!
The cache classifier (Model/MediaCache.lean, mirroring media/cache/h264cache.go) applied to the
payloads an RFC 6184 sender produces (Spec/Packetise.lean): single NAL unit packets, FU-A
fragments, STAP-A aggregation packets.
-/
namespace IpcHub.Media
open IpcHub.Packetise

/-- the standard's constants; `genConsts_eq` ties them to the regenerated facts -/
def K264 : NalConsts :=
  { sps264 := 7, pps264 := 8, idr264 := 5, aggLo264 := 24, aggHi264 := 27, fuLo264 := 28, fuHi264 := 29,
    vps265 := 32, sps265 := 33, pps265 := 34, irapLo265 := 16, irapHi265 := 21, agg265 := 48, fu265 := 49 }

theorem genConsts_eq : genConsts = K264 := rfl

theorem forall_uint8 (P : UInt8 → Prop) (h : ∀ i : Fin 256, P (UInt8.ofNat i.val)) : ∀ b, P b := by
  intro b
  have := h ⟨b.toNat, b.toNat_lt⟩
  simpa using this

theorem fua_ind_type : ∀ h : UInt8, (((h &&& 0xe0) ||| 28) : UInt8).toNat % 32 = 28 :=
  forall_uint8 _ (by decide +kernel)

theorem fua_hdr_start : ∀ h : UInt8, ∀ last : Bool,
    ((fuFlags true last ||| (h &&& 0x1f)) : UInt8).toNat / 128 % 2 = 1 ∧
    ((fuFlags true last ||| (h &&& 0x1f)) : UInt8).toNat % 32 = h.toNat % 32 :=
  forall_uint8 _ (by decide +kernel)

theorem fua_hdr_cont : ∀ h : UInt8, ∀ last : Bool,
    ((fuFlags false last ||| (h &&& 0x1f)) : UInt8).toNat / 128 % 2 = 0 :=
  forall_uint8 _ (by decide +kernel)

theorem nalOk_type : ∀ b : UInt8, (b < 0x80 && (b &&& 0x1f) ≥ 1 && (b &&& 0x1f) ≤ 23) = true →
    1 ≤ b.toNat % 32 ∧ b.toNat % 32 ≤ 23 :=
  forall_uint8 _ (by decide +kernel)

theorem nri_or24 : ∀ r : UInt8, r &&& 0x9f = 0 → ((r ||| 24) : UInt8).toNat % 32 = 24 :=
  forall_uint8 _ (by decide +kernel)

theorem nri_clean : ∀ b : UInt8, nri b &&& 0x9f = 0 :=
  forall_uint8 _ (by decide +kernel)

/-- the type of a NAL unit as the H.264 code reads it -/
def nalType (n : List UInt8) : Nat := match n with | [] => 0 | b :: _ => b.toNat % 32

/-! ### single NAL unit packets -/

theorem classify_single (n : List UInt8) (hok : nalOk264 n = true) (hlen : 3 ≤ n.length) :
    classify264 K264 n = some (nalType264 K264 (nalType n) {}) := by
  match n, hlen with
  | b :: b1 :: b2 :: rest, _ =>
    have ht := nalOk_type b (by simpa [nalOk264] using hok)
    unfold classify264
    simp only [List.length_cons]
    have h3 : ¬ (rest.length + 1 + 1 + 1 < 3) := by omega
    simp only [h3, if_false, nalType, K264]
    have h1 : ¬ (24 ≤ b.toNat % 32 ∧ b.toNat % 32 ≤ 27) := by omega
    have h2 : ¬ (28 ≤ b.toNat % 32 ∧ b.toNat % 32 ≤ 29) := by omega
    simp [h1, h2]

/-! ### FU-A fragments -/

theorem classify_fu_bytes (b0 b1 : UInt8) (d : List UInt8) (hd : 1 ≤ d.length) (h0 : b0.toNat % 32 = 28) :
    classify264 K264 (b0 :: b1 :: d) =
      if b1.toNat / 128 % 2 = 1 then some (nalType264 K264 (b1.toNat % 32) {}) else some {} := by
  match d, hd with
  | x :: rest, _ =>
    unfold classify264
    simp only [List.length_cons]
    have h3 : ¬ (rest.length + 1 + 1 + 1 < 3) := by omega
    simp only [h3, if_false, K264, h0]
    simp

theorem classify_fua_first (h : UInt8) (last : Bool) (d : List UInt8) (hd : 1 ≤ d.length) :
    classify264 K264 (((h &&& 0xe0) ||| 28) :: (fuFlags true last ||| (h &&& 0x1f)) :: d)
      = some (nalType264 K264 (h.toNat % 32) {}) := by
  rw [classify_fu_bytes _ _ d hd (fua_ind_type h)]
  have := fua_hdr_start h last
  rw [if_pos this.1, this.2]

theorem classify_fua_cont (h : UInt8) (last : Bool) (d : List UInt8) (hd : 1 ≤ d.length) :
    classify264 K264 (((h &&& 0xe0) ||| 28) :: (fuFlags false last ||| (h &&& 0x1f)) :: d) = some {} := by
  rw [classify_fu_bytes _ _ d hd (fua_ind_type h)]
  have := fua_hdr_cont h last
  rw [if_neg (by omega)]

/-! ### STAP-A aggregation packets -/

theorem hi_lo (n : Nat) (h : n < 65536) : (hi8 n).toNat * 256 + (lo8 n).toNat = n := by
  simp only [hi8, lo8, UInt8.toNat_ofNat']
  omega

/-- an aggregated unit the loop can read: non-empty, size fits 16 bits -/
def aggOk (n : List UInt8) : Prop := 1 ≤ n.length ∧ n.length < 65536

theorem aggBody_cons (n : List UInt8) (rest : List (List UInt8)) :
    aggBody (n :: rest) = hi8 n.length :: lo8 n.length :: (n ++ aggBody rest) := by
  simp [aggBody, List.flatMap_cons]

theorem aggBody_ne_nil (n : List UInt8) (rest : List (List UInt8)) : aggBody (n :: rest) ≠ [] := by
  rw [aggBody_cons]; simp

theorem aggScan_aggBody (typeOf : UInt8 → Nat) (upd : Nat → Flags → Flags) (ns : List (List UInt8))
    (hne : ns ≠ []) (hok : ∀ n ∈ ns, aggOk n) :
    ∀ (pre : List UInt8) (fuel : Nat) (f : Flags), ns.length ≤ fuel →
      aggScan typeOf upd (pre ++ aggBody ns) fuel pre.length f
        = some (ns.foldl (fun f n => upd (typeOf (n.headD 0)) f) f) := by
  induction ns with
  | nil => exact absurd rfl hne
  | cons n rest ih =>
    intro pre fuel f hfuel
    obtain ⟨hn1, hn2⟩ := hok n (by simp)
    cases fuel with
    | zero => simp at hfuel
    | succ fuel =>
      obtain ⟨b, tl, rfl⟩ : ∃ b tl, n = b :: tl := by
        cases n with
        | nil => simp at hn1
        | cons b tl => exact ⟨b, tl, rfl⟩
      rw [aggBody_cons]
      unfold aggScan
      have hlen : (pre ++ hi8 (b :: tl).length :: lo8 (b :: tl).length :: ((b :: tl) ++ aggBody rest)).length
          = pre.length + 2 + (tl.length + 1) + (aggBody rest).length := by
        simp only [List.length_append, List.length_cons]; omega
      have c1 : ¬ (pre.length + 2 > (pre ++ hi8 (b :: tl).length :: lo8 (b :: tl).length :: ((b :: tl) ++ aggBody rest)).length) := by
        rw [hlen]; omega
      rw [if_neg c1]
      have g0 : (pre ++ hi8 (b :: tl).length :: lo8 (b :: tl).length :: ((b :: tl) ++ aggBody rest))[pre.length]?
          = some (hi8 (b :: tl).length) := by
        rw [List.getElem?_append_right (Nat.le_refl _)]; simp
      have g1 : (pre ++ hi8 (b :: tl).length :: lo8 (b :: tl).length :: ((b :: tl) ++ aggBody rest))[pre.length + 1]?
          = some (lo8 (b :: tl).length) := by
        rw [List.getElem?_append_right (by omega)]; simp
      have g2 : (pre ++ hi8 (b :: tl).length :: lo8 (b :: tl).length :: ((b :: tl) ++ aggBody rest))[pre.length + 2]?
          = some b := by
        rw [List.getElem?_append_right (by omega)]; simp
      simp only [g0, g1, g2]
      have hsz := hi_lo (b :: tl).length hn2
      rw [hsz]
      have c2 : ¬ ((b :: tl).length < 1) := by simp
      rw [if_neg c2]
      have c3 : ¬ (pre.length + 2 ≥ (pre ++ hi8 (b :: tl).length :: lo8 (b :: tl).length :: ((b :: tl) ++ aggBody rest)).length) := by
        rw [hlen]; omega
      rw [if_neg c3]
      simp only [List.foldl_cons, List.headD_cons]
      cases rest with
      | nil =>
        have c4 : pre.length + 2 + (b :: tl).length ≥ (pre ++ hi8 (b :: tl).length :: lo8 (b :: tl).length :: ((b :: tl) ++ aggBody [])).length := by
          simp [aggBody]; omega
        rw [if_pos c4]; simp
      | cons m rest' =>
        have hpos : 1 ≤ (aggBody (m :: rest')).length := by
          have := aggBody_ne_nil m rest'
          cases hb : aggBody (m :: rest') with
          | nil => exact absurd hb this
          | cons x xs => simp
        have c4 : ¬ (pre.length + 2 + (b :: tl).length ≥ (pre ++ hi8 (b :: tl).length :: lo8 (b :: tl).length :: ((b :: tl) ++ aggBody (m :: rest'))).length) := by
          rw [hlen]; simp only [List.length_cons]; omega
        rw [if_neg c4]
        have hpre : pre ++ hi8 (b :: tl).length :: lo8 (b :: tl).length :: ((b :: tl) ++ aggBody (m :: rest'))
            = (pre ++ hi8 (b :: tl).length :: lo8 (b :: tl).length :: (b :: tl)) ++ aggBody (m :: rest') := by simp
        have hoff : pre.length + 2 + (b :: tl).length = (pre ++ hi8 (b :: tl).length :: lo8 (b :: tl).length :: (b :: tl)).length := by
          simp only [List.length_append, List.length_cons]; omega
        rw [hpre, hoff]
        exact ih (by simp) (fun x hx => hok x (by simp [hx])) _ fuel _ (by simpa using hfuel)

theorem stapa_fold_clean (ns : List (List UInt8)) (m : UInt8) (hm : m &&& 0x9f = 0) :
    (ns.foldl (fun m n => match n with | [] => m | b :: _ => if nri b > m then nri b else m) m) &&& 0x9f = 0 := by
  induction ns generalizing m with
  | nil => simpa using hm
  | cons n rest ih =>
    simp only [List.foldl_cons]
    apply ih
    cases n with
    | nil => exact hm
    | cons b tl =>
      simp only
      split
      · exact nri_clean b
      · exact hm

theorem stapaHdr_type (ns : List (List UInt8)) : (stapaHdr ns).toNat % 32 = 24 := by
  unfold stapaHdr
  exact nri_or24 _ (stapa_fold_clean ns 0 (by decide))

theorem aggBody_length_ge (ns : List (List UInt8)) (hok : ∀ n ∈ ns, aggOk n) :
    3 * ns.length ≤ (aggBody ns).length := by
  induction ns with
  | nil => simp [aggBody]
  | cons n rest ih =>
    rw [aggBody_cons]
    have := (hok n (by simp)).1
    have := ih (fun x hx => hok x (by simp [hx]))
    simp only [List.length_cons, List.length_append]; omega

/-- the flags the classifier collects over the aggregated units -/
def aggFlags (ns : List (List UInt8)) : Flags :=
  ns.foldl (fun f n => nalType264 K264 ((n.headD 0).toNat % 32) f) {}

theorem classify_stapa (ns : List (List UInt8)) (hne : ns ≠ []) (hok : ∀ n ∈ ns, aggOk n) :
    classify264 K264 (stapaHdr ns :: aggBody ns) = some (aggFlags ns) := by
  have hlen := aggBody_length_ge ns hok
  have hpos : 1 ≤ ns.length := by
    cases ns with
    | nil => exact absurd rfl hne
    | cons _ _ => simp
  obtain ⟨b1, rest, hb⟩ : ∃ b1 rest, aggBody ns = b1 :: rest := by
    cases h : aggBody ns with
    | nil => simp [h] at hlen; omega
    | cons b1 rest => exact ⟨b1, rest, rfl⟩
  unfold classify264
  have h3 : ¬ ((stapaHdr ns :: aggBody ns).length < 3) := by simp only [List.length_cons]; omega
  rw [if_neg h3, hb]
  simp only [K264, stapaHdr_type ns]
  have h24 : (24 ≤ 24 ∧ 24 ≤ 27) := by omega
  rw [if_pos h24, ← hb]
  have := aggScan_aggBody (fun h => h.toNat % 32) (nalType264 K264) ns hne hok [stapaHdr ns]
    (stapaHdr ns :: aggBody ns).length {} (by simp only [List.length_cons]; omega)
  simpa [aggFlags, K264] using this

/-! ### what each packet of a packetisation decision is for the cache -/

def kindOfFlags (f : Flags) : PK :=
  if f.sps then .sps else if f.pps then .pps else if f.key then .key else .other

def kindOfType (t : Nat) : PK :=
  if t = 7 then .sps else if t = 8 then .pps else if t = 5 then .key else .other

/-- the cache's view of a video payload (H.264) -/
def payloadKind (pl : List UInt8) : PK := pktKind K264 false { uid := 0, ch := 0, payload := pl }

theorem payloadKind_of_classify (pl : List UInt8) (f : Flags) (h : classify264 K264 pl = some f) :
    payloadKind pl = kindOfFlags f := by
  simp [payloadKind, pktKind, h, kindOfFlags]

theorem kindOfFlags_type (t : Nat) : kindOfFlags (nalType264 K264 t {}) = kindOfType t := by
  unfold nalType264 kindOfFlags kindOfType K264
  by_cases h7 : t = 7
  · simp [h7]
  · by_cases h8 : t = 8
    · simp [h8]
    · by_cases h5 : t = 5 <;> simp [h7, h8, h5]

theorem kindOfFlags_empty : kindOfFlags {} = .other := by simp [kindOfFlags]

theorem chunks_nonempty (cuts : List Nat) (bs : List UInt8) (h1 : ∀ c ∈ cuts, 1 ≤ c) (h2 : cuts.sum < bs.length) :
    ∀ x ∈ chunks cuts bs, 1 ≤ x.length := by
  induction cuts generalizing bs with
  | nil => intro x hx; simp [chunks] at hx; subst hx; omega
  | cons c cs ih =>
    intro x hx
    simp only [chunks, List.mem_cons] at hx
    have hc := h1 c (by simp)
    simp only [List.sum_cons] at h2
    rcases hx with rfl | hx
    · simp only [List.length_take]; omega
    · exact ih (bs.drop c) (fun y hy => h1 y (by simp [hy])) (by simp only [List.length_drop]; omega) x hx

theorem chunks_length (cuts : List Nat) (bs : List UInt8) : (chunks cuts bs).length = cuts.length + 1 := by
  induction cuts generalizing bs with
  | nil => simp [chunks]
  | cons c cs ih => simp [chunks, ih]

theorem fua_kinds (h : UInt8) (ds : List (List UInt8)) (hne : ∀ d ∈ ds, 1 ≤ d.length) (first : Bool) :
    (fuaPayloads h first ds).map payloadKind =
      if ds.isEmpty then []
      else (if first then kindOfType (h.toNat % 32) else .other) :: List.replicate (ds.length - 1) .other := by
  induction ds generalizing first with
  | nil => simp [fuaPayloads]
  | cons d tl ih =>
    have hd := hne d (by simp)
    have hk : payloadKind (((h &&& 0xe0) ||| 28) :: (fuFlags first (tl.isEmpty) ||| (h &&& 0x1f)) :: d)
        = (if first then kindOfType (h.toNat % 32) else .other) := by
      cases first with
      | true => rw [payloadKind_of_classify _ _ (classify_fua_first h _ d hd), kindOfFlags_type]; rfl
      | false => rw [payloadKind_of_classify _ _ (classify_fua_cont h _ d hd), kindOfFlags_empty]; rfl
    cases tl with
    | nil => simpa [fuaPayloads] using hk
    | cons d2 tl2 =>
      have := ih (fun x hx => hne x (by simp [hx])) false
      simp only [fuaPayloads, List.map_cons, this]
      simp only [List.isEmpty_cons] at hk
      simp [hk, List.replicate_succ]

end IpcHub.Media
