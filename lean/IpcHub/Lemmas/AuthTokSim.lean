/-
C11 helper lemmas, part B2: the token table simulates the monitor's grants.  Along every history
of logins, refreshes, access checks, sweeps and clock ticks, `AccessCheck` answers exactly what
`validAccess` says about the grants, and `Refresh` issues exactly when `refreshGrant` does — this
discharges the token half of `Rel`.
-/
import IpcHub.Lemmas.AuthTokens
import IpcHub.Spec.Monitor
namespace IpcHub.Auth
open IpcHub.Monitor

def tokOf (g : Grant) : Tok := { user := g.user, a := g.a, aexp := g.aexp, r := g.r, rexp := g.rexp }
def grantOf (t : Tok) : Grant := { user := t.user, a := t.a, r := t.r, aexp := t.aexp, rexp := t.rexp, live := true }

theorem tokOf_grantOf (t : Tok) : tokOf (grantOf t) = t := rfl

/-- the monitor's side of a token operation -/
def gstep (cfg : Cfg) (gs : List Grant) (next : Nat) (now : Int) : TokOp → List Grant
  | .login u => { user := u, a := next, r := next + 1, aexp := now + cfg.accessTTL, rexp := now + cfg.refreshTTL, live := true } :: gs
  | .refresh k =>
    match refreshGrant gs now k with
    | (gs', some u) => { user := u, a := next, r := next + 1, aexp := now + cfg.accessTTL, rexp := now + cfg.refreshTTL, live := true } :: gs'
    | (gs', none) => gs'
  | _ => gs

/-- the simulation relation -/
structure Sim (s : TState) (gs : List Grant) : Prop where
  tm : TM s.t s.next
  ofTable : ∀ k tk, tget s.t k = some tk → ∃ g ∈ gs, g.live = true ∧ tokOf g = tk
  accessIn : ∀ g ∈ gs, g.live = true → g.aexp > s.now → tget s.t g.a = some (tokOf g)
  refreshIn : ∀ g ∈ gs, g.live = true → g.rexp > s.now → tget s.t g.r = some (tokOf g)
  shape : ∀ g ∈ gs, g.r = g.a + 1 ∧ g.a % 2 = 0 ∧ g.r < s.next ∧ g.aexp ≤ g.rexp
  uniq : ∀ g ∈ gs, ∀ g' ∈ gs, g.a = g'.a → g.live = true → g'.live = true → g = g'

theorem Sim.init : Sim TState.init [] :=
  ⟨TM.nil, by intro k tk h; simp [TState.init, tget] at h, by simp, by simp, by simp, by simp⟩

/-- AccessCheck answers what the grants say -/
theorem Sim.access {s : TState} {gs : List Grant} (h : Sim s gs) (k : Nat) :
    (accessCheck s.t k s.now).2 = validAccess gs s.now k := by
  unfold validAccess
  cases hg : tget s.t k with
  | none =>
    rw [access_none_of_absent _ _ _ hg]
    cases hf : gs.find? (fun g => g.live && decide (g.a = k) && decide (g.aexp > s.now)) with
    | none => rfl
    | some g =>
      exfalso
      have hp := List.find?_some hf
      simp only [Bool.and_eq_true, decide_eq_true_eq] at hp
      have := h.accessIn g (List.mem_of_find?_eq_some hf) hp.1.1 hp.2
      rw [hp.1.2, hg] at this
      cases this
  | some tk =>
    obtain ⟨g, hgm, hlive, htk⟩ := h.ofTable k tk hg
    have hkey := h.tm.key (k, tk) (tget_mem hg)
    have hsh := h.tm.shape (k, tk) (tget_mem hg)
    simp only at hkey hsh
    by_cases hak : tk.a = k
    · by_cases hexp : tk.aexp > s.now
      · rw [access_complete _ _ _ tk hg hak hexp]
        simp only
        -- the grant of the record satisfies the monitor's predicate, and it is the only one
        have hpg : (g.live && decide (g.a = k) && decide (g.aexp > s.now)) = true := by
          have e1 : g.a = tk.a := by rw [← htk]; rfl
          have e2 : g.aexp = tk.aexp := by rw [← htk]; rfl
          simp [hlive, e1, hak, e2, hexp]
        cases hf : gs.find? (fun g => g.live && decide (g.a = k) && decide (g.aexp > s.now)) with
        | none =>
          exfalso
          have := List.find?_eq_none.mp hf g hgm
          rw [hpg] at this
          exact this rfl
        | some g' =>
          have hp := List.find?_some hf
          simp only [Bool.and_eq_true, decide_eq_true_eq] at hp
          have e1 : g.a = tk.a := by rw [← htk]; rfl
          have : g' = g := h.uniq g' (List.mem_of_find?_eq_some hf) g hgm (by rw [hp.1.2, e1, hak]) hp.1.1 hlive
          simp only [Option.map_some, this]
          congr 1
          rw [← htk]; rfl
      · -- expired: refused by both
        have hnone : (accessCheck s.t k s.now).2 = none := by
          unfold accessCheck; rw [hg]; simp [hak, hexp]
        rw [hnone]
        cases hf : gs.find? (fun g => g.live && decide (g.a = k) && decide (g.aexp > s.now)) with
        | none => rfl
        | some g' =>
          exfalso
          have hp := List.find?_some hf
          simp only [Bool.and_eq_true, decide_eq_true_eq] at hp
          have := h.accessIn g' (List.mem_of_find?_eq_some hf) hp.1.1 hp.2
          rw [hp.1.2, hg] at this
          have e : tk.aexp = g'.aexp := by rw [Option.some.inj this]; rfl
          rw [e] at hexp
          exact hexp hp.2
    · -- filed under the refresh secret
      have hnone : (accessCheck s.t k s.now).2 = none := by
        unfold accessCheck; rw [hg]; simp [hak]
      rw [hnone]
      cases hf : gs.find? (fun g => g.live && decide (g.a = k) && decide (g.aexp > s.now)) with
      | none => rfl
      | some g' =>
        exfalso
        have hp := List.find?_some hf
        simp only [Bool.and_eq_true, decide_eq_true_eq] at hp
        have := h.accessIn g' (List.mem_of_find?_eq_some hf) hp.1.1 hp.2
        rw [hp.1.2, hg] at this
        have e : tk.a = g'.a := by rw [Option.some.inj this]; rfl
        exact hak (by rw [e, hp.1.2])


/-! ### preservation -/

theorem Sim.uniq_r {s : TState} {gs : List Grant} (h : Sim s gs) (g g' : Grant) (hg : g ∈ gs) (hg' : g' ∈ gs)
    (hr : g.r = g'.r) (hl : g.live = true) (hl' : g'.live = true) : g = g' := by
  have s1 := h.shape g hg
  have s2 := h.shape g' hg'
  exact h.uniq g hg g' hg' (by omega) hl hl'

theorem Sim.tick {s : TState} {gs : List Grant} (h : Sim s gs) (d : Nat) : Sim { s with now := s.now + d } gs :=
  ⟨h.tm, h.ofTable,
   fun g hg hl he => h.accessIn g hg hl (by
      have he' : g.aexp > s.now + (d : Int) := he
      omega),
   fun g hg hl he => h.refreshIn g hg hl (by
      have he' : g.rexp > s.now + (d : Int) := he
      omega),
   h.shape, h.uniq⟩

/-- deleting the secrets of records that nobody is entitled to any more keeps the relation -/
theorem Sim.delete {s : TState} {gs : List Grant} (h : Sim s gs) (t' : TokTable)
    (hsub : ∀ k tk, tget t' k = some tk → tget s.t k = some tk)
    (hm : TM t' s.next)
    (keepA : ∀ g ∈ gs, g.live = true → g.aexp > s.now → tget t' g.a = tget s.t g.a)
    (keepR : ∀ g ∈ gs, g.live = true → g.rexp > s.now → tget t' g.r = tget s.t g.r) :
    Sim { s with t := t' } gs :=
  ⟨hm, fun k tk hk => h.ofTable k tk (hsub k tk hk),
   fun g hg hl he => by show tget t' g.a = _; rw [keepA g hg hl he]; exact h.accessIn g hg hl he,
   fun g hg hl he => by show tget t' g.r = _; rw [keepR g hg hl he]; exact h.refreshIn g hg hl he,
   h.shape, h.uniq⟩

theorem tget_tdel_some {t : TokTable} {x k : Nat} {tk : Tok} (h : tget (tdel t x) k = some tk) : tget t k = some tk := by
  by_cases hk : k = x
  · rw [hk, tget_tdel_self] at h; cases h
  · rw [tget_tdel_ne _ _ _ hk] at h; exact h

theorem Sim.accessStep (cfg : Cfg) {s : TState} {gs : List Grant} (h : Sim s gs) (k : Nat) :
    Sim (s.step cfg (.access k)) gs := by
  simp only [TState.step]
  rcases access_cases s.t k s.now with h1 | ⟨tok, hgt, hta, hexp, h1⟩
  · rw [h1]; exact h
  · rw [h1]
    have hshT := h.tm.shape (k, tok) (tget_mem hgt)
    simp only at hshT
    apply h.delete _ (fun _ _ hk => tget_tdel_some hk) (h.tm.tdel _)
    · intro g hg hl he
      apply tget_tdel_ne
      intro e
      have := h.accessIn g hg hl he
      rw [e, hta, hgt] at this
      have e2 : tok.aexp = g.aexp := by rw [Option.some.inj this]; rfl
      rw [e2] at hexp
      exact hexp he
    · intro g hg hl _
      apply tget_tdel_ne
      have := h.shape g hg
      omega

/-- what the sweep leaves in place -/
theorem sweep_keeps (s : TState) (hm : TM s.t s.next) (k : Nat) (tk : Tok) (hg : tget s.t k = some tk)
    (hok : (k = tk.a ∧ ¬ s.now > tk.aexp) ∨ (k = tk.r ∧ ¬ s.now > tk.rexp)) :
    tget (expCheck s.t s.now) k = some tk := by
  rw [expCheck_eq]
  have hmem := tget_mem hg
  have hsh := hm.shape (k, tk) hmem
  simp only at hsh
  have fold : ∀ (l : List (Nat × Tok)) (acc : TokTable), (∀ e ∈ l, e ∈ s.t) → tget acc k = some tk →
      tget (l.foldl (sweepStep s.now) acc) k = some tk := by
    intro l
    induction l with
    | nil => intro acc _ h; exact h
    | cons e l ih =>
      intro acc hsub h
      simp only [List.foldl_cons]
      apply ih _ (fun x hx => hsub x (List.mem_cons_of_mem _ hx))
      have he : e ∈ s.t := hsub e (List.mem_cons_self ..)
      have hse := hm.shape e he
      have same : e.2.a = tk.a → e.2 = tk := fun ea => hm.ident e he (k, tk) hmem ea
      have h1 : s.now > e.2.aexp → e.2.a ≠ k := by
        intro hexp e1
        rcases hok with ⟨hk, hne⟩ | ⟨hk, _⟩
        · have := same (by rw [e1, hk]); rw [this] at hexp; exact hne hexp
        · omega
      have h2 : s.now > e.2.rexp → e.2.r ≠ k := by
        intro hexp e1
        rcases hok with ⟨hk, _⟩ | ⟨hk, hne⟩
        · omega
        · have := same (by omega); rw [this] at hexp; exact hne hexp
      unfold sweepStep
      simp only
      by_cases c1 : s.now > e.2.aexp
      · simp only [c1, if_true]
        by_cases c2 : s.now > e.2.rexp
        · simp only [c2, if_true]
          rw [tget_tdel_ne _ _ _ (fun x => h2 c2 x.symm), tget_tdel_ne _ _ _ (fun x => h1 c1 x.symm)]; exact h
        · simp only [c2, if_false]
          rw [tget_tdel_ne _ _ _ (fun x => h1 c1 x.symm)]; exact h
      · simp only [c1, if_false]
        by_cases c2 : s.now > e.2.rexp
        · simp only [c2, if_true]
          rw [tget_tdel_ne _ _ _ (fun x => h2 c2 x.symm)]; exact h
        · simp only [c2, if_false]; exact h
  exact fold s.t s.t (fun _ h => h) hg

theorem sweep_sub (t : TokTable) (now : Int) (k : Nat) (tk : Tok) (h : tget (expCheck t now) k = some tk) :
    tget t k = some tk := by
  rw [expCheck_eq] at h
  have fold : ∀ (l : List (Nat × Tok)) (acc : TokTable), tget (l.foldl (sweepStep now) acc) k = some tk → tget acc k = some tk := by
    intro l
    induction l with
    | nil => intro acc h; exact h
    | cons e l ih =>
      intro acc h
      simp only [List.foldl_cons] at h
      have := ih _ h
      unfold sweepStep at this
      simp only at this
      split at this <;> split at this <;>
        first | exact this | exact tget_tdel_some this | exact tget_tdel_some (tget_tdel_some this)
  exact fold t t h

theorem Sim.sweepStep' (cfg : Cfg) {s : TState} {gs : List Grant} (h : Sim s gs) : Sim (s.step cfg .sweep) gs := by
  simp only [TState.step]
  apply h.delete _ (sweep_sub s.t s.now) (by rw [expCheck_eq]; exact TM.sweepFold s.now s.t s.t h.tm)
  · intro g hg hl he
    have hin := h.accessIn g hg hl he
    rw [hin]
    exact sweep_keeps s h.tm g.a (tokOf g) hin (Or.inl ⟨rfl, by show ¬ s.now > g.aexp; omega⟩)
  · intro g hg hl he
    have hin := h.refreshIn g hg hl he
    rw [hin]
    exact sweep_keeps s h.tm g.r (tokOf g) hin (Or.inr ⟨rfl, by show ¬ s.now > g.rexp; omega⟩)


/-- the grant a new token corresponds to -/
def newGrant (cfg : Cfg) (u : List Char) (next : Nat) (now : Int) : Grant :=
  { user := u, a := next, r := next + 1, aexp := now + cfg.accessTTL, rexp := now + cfg.refreshTTL, live := true }

theorem tget_newToken (cfg : Cfg) (t : TokTable) (n : Nat) (u : List Char) (now : Int) (k : Nat) :
    tget (newToken cfg t n u now).1 k =
      if k = n + 1 ∨ k = n then some (tokOf (newGrant cfg u n now)) else tget t k := by
  unfold Auth.newToken
  simp only
  by_cases h1 : k = n + 1
  · rw [h1, tget_tput_self]; simp [tokOf, newGrant]
  · by_cases h2 : k = n
    · rw [h2, tget_tput_ne _ _ _ _ (by omega), tget_tput_self]; simp [tokOf, newGrant]
    · rw [tget_tput_ne _ _ _ _ h1, tget_tput_ne _ _ _ _ h2]; simp [h1, h2]

/-- adding a fresh token and its grant -/
theorem Sim.addToken (cfg : Cfg) (hTTL : cfg.accessTTL ≤ cfg.refreshTTL) {s : TState} {gs : List Grant} (h : Sim s gs)
    (u : List Char) :
    Sim { s with t := (newToken cfg s.t s.next u s.now).1, next := s.next + 2 } (newGrant cfg u s.next s.now :: gs) := by
  have hev := h.tm.even
  refine ⟨h.tm.newToken cfg u s.now, ?_, ?_, ?_, ?_, ?_⟩
  · intro k tk hk
    simp only at hk
    rw [tget_newToken] at hk
    by_cases hc : k = s.next + 1 ∨ k = s.next
    · simp only [hc, if_true, Option.some.injEq] at hk
      exact ⟨_, List.mem_cons_self .., rfl, hk⟩
    · simp only [hc, if_false] at hk
      obtain ⟨g, hg, hl, ht⟩ := h.ofTable k tk hk
      exact ⟨g, List.mem_cons_of_mem _ hg, hl, ht⟩
  · intro g hg hl he
    simp only
    rw [tget_newToken]
    rcases List.mem_cons.mp hg with hg | hg
    · rw [hg]; simp [newGrant]
    · have hs := h.shape g hg
      have : ¬ (g.a = s.next + 1 ∨ g.a = s.next) := by omega
      simp only [this, if_false]
      exact h.accessIn g hg hl he
  · intro g hg hl he
    simp only
    rw [tget_newToken]
    rcases List.mem_cons.mp hg with hg | hg
    · rw [hg]; simp [newGrant]
    · have hs := h.shape g hg
      have : ¬ (g.r = s.next + 1 ∨ g.r = s.next) := by omega
      simp only [this, if_false]
      exact h.refreshIn g hg hl he
  · intro g hg
    rcases List.mem_cons.mp hg with hg | hg
    · rw [hg]
      exact ⟨rfl, hev, by show s.next + 1 < s.next + 2; omega,
             by show s.now + cfg.accessTTL ≤ s.now + cfg.refreshTTL; omega⟩
    · have := h.shape g hg
      exact ⟨this.1, this.2.1, by show g.r < s.next + 2; omega, this.2.2.2⟩
  · intro g hg g' hg' ha hl hl'
    rcases List.mem_cons.mp hg with hg | hg <;> rcases List.mem_cons.mp hg' with hg' | hg'
    · rw [hg, hg']
    · exfalso; have := h.shape g' hg'; rw [hg] at ha; simp only [newGrant] at ha; omega
    · exfalso; have := h.shape g hg; rw [hg'] at ha; simp only [newGrant] at ha; omega
    · exact h.uniq g hg g' hg' ha hl hl'

/-- using up the grant whose refresh secret is `k` -/
def kill (k : Nat) (x : Grant) : Grant := if x.live && decide (x.r = k) then { x with live := false } else x

theorem kill_fields (k : Nat) (x : Grant) :
    (kill k x).a = x.a ∧ (kill k x).r = x.r ∧ (kill k x).aexp = x.aexp ∧ (kill k x).rexp = x.rexp ∧ (kill k x).user = x.user := by
  unfold kill; split <;> simp

theorem kill_live (k : Nat) (x : Grant) (h : (kill k x).live = true) : kill k x = x ∧ x.live = true ∧ x.r ≠ k := by
  unfold kill at h ⊢
  by_cases hc : (x.live && decide (x.r = k)) = true
  · simp [hc] at h
  · simp only [hc, Bool.false_eq_true, if_false] at h ⊢
    refine ⟨by first | rfl | trivial, h, ?_⟩
    intro e; apply hc; simp [h, e]

/-- removing both secrets of a record whose grant is used up (or expired) -/
theorem Sim.dropRecord {s : TState} {gs : List Grant} (h : Sim s gs) (old : Tok) (g : Grant) (hg : g ∈ gs)
    (hl : g.live = true) (ht : tokOf g = old) (dead : Bool)
    (hdead : dead = false → ¬ g.rexp > s.now) :
    Sim { s with t := tdel (tdel s.t old.a) old.r } (if dead then gs.map (kill old.r) else gs) := by
  have hga : g.a = old.a := by rw [← ht]; rfl
  have hgr : g.r = old.r := by rw [← ht]; rfl
  have hsg := h.shape g hg
  have hsub : ∀ k tk, tget (tdel (tdel s.t old.a) old.r) k = some tk → tget s.t k = some tk :=
    fun k tk hk => tget_tdel_some (tget_tdel_some hk)
  -- a live grant other than `g` keeps its secrets
  have other : ∀ x ∈ gs, x.live = true → x ≠ g →
      tget (tdel (tdel s.t old.a) old.r) x.a = tget s.t x.a ∧ tget (tdel (tdel s.t old.a) old.r) x.r = tget s.t x.r := by
    intro x hx hxl hne
    have hsx := h.shape x hx
    have h1 : x.a ≠ old.a := by
      intro e; exact hne (h.uniq x hx g hg (by rw [e, hga]) hxl hl)
    constructor
    · rw [tget_tdel_ne _ _ _ (by omega), tget_tdel_ne _ _ _ h1]
    · rw [tget_tdel_ne _ _ _ (by omega), tget_tdel_ne _ _ _ (by omega)]
  cases dead with
  | false =>
    simp only [Bool.false_eq_true, if_false]
    have hexp := hdead rfl
    refine ⟨(h.tm.tdel _).tdel _, fun k tk hk => h.ofTable k tk (hsub k tk hk), ?_, ?_, h.shape, h.uniq⟩
    · intro x hx hxl he
      by_cases hxg : x = g
      · exfalso; rw [hxg] at he; have : g.aexp > s.now := he; omega
      · show tget (tdel (tdel s.t old.a) old.r) x.a = _
        rw [(other x hx hxl hxg).1]; exact h.accessIn x hx hxl he
    · intro x hx hxl he
      by_cases hxg : x = g
      · exfalso; rw [hxg] at he; exact hexp he
      · show tget (tdel (tdel s.t old.a) old.r) x.r = _
        rw [(other x hx hxl hxg).2]; exact h.refreshIn x hx hxl he
  | true =>
    simp only [if_true]
    refine ⟨(h.tm.tdel _).tdel _, ?_, ?_, ?_, ?_, ?_⟩
    · intro k tk hk
      have hk0 := hsub k tk hk
      obtain ⟨x, hx, hxl, hxt⟩ := h.ofTable k tk hk0
      -- the record's grant is not the one used up: its secrets were both removed
      have hne : x ≠ g := by
        intro e
        have : tk = old := by rw [← hxt, e, ht]
        have hkey := h.tm.key (k, tk) (tget_mem hk0)
        simp only at hkey
        rw [this] at hkey
        rcases hkey with hk' | hk'
        · rw [hk', tget_tdel_none _ _ _ (tget_tdel_self _ _)] at hk; cases hk
        · rw [hk', tget_tdel_self] at hk; cases hk
      have hxr : x.r ≠ old.r := by
        intro e; exact hne (h.uniq_r x g hx hg (by rw [e, hgr]) hxl hl)
      refine ⟨x, ?_, hxl, hxt⟩
      have : kill old.r x = x := by unfold kill; simp [hxr]
      rw [← this]; exact List.mem_map_of_mem hx
    · intro y hy hyl he
      obtain ⟨x, hx, rfl⟩ := List.mem_map.mp hy
      obtain ⟨hkx, hxl, hxr⟩ := kill_live _ _ hyl
      rw [hkx] at he ⊢
      have hne : x ≠ g := fun e => hxr (by rw [e, hgr])
      show tget (tdel (tdel s.t old.a) old.r) x.a = _
      rw [(other x hx hxl hne).1]; exact h.accessIn x hx hxl he
    · intro y hy hyl he
      obtain ⟨x, hx, rfl⟩ := List.mem_map.mp hy
      obtain ⟨hkx, hxl, hxr⟩ := kill_live _ _ hyl
      rw [hkx] at he ⊢
      have hne : x ≠ g := fun e => hxr (by rw [e, hgr])
      show tget (tdel (tdel s.t old.a) old.r) x.r = _
      rw [(other x hx hxl hne).2]; exact h.refreshIn x hx hxl he
    · intro y hy
      obtain ⟨x, hx, rfl⟩ := List.mem_map.mp hy
      have := h.shape x hx
      have kf := kill_fields old.r x
      rw [kf.1, kf.2.1, kf.2.2.1, kf.2.2.2.1]; exact this
    · intro y hy y' hy' ha hyl hyl'
      obtain ⟨x, hx, rfl⟩ := List.mem_map.mp hy
      obtain ⟨x', hx', rfl⟩ := List.mem_map.mp hy'
      obtain ⟨e1, l1, _⟩ := kill_live _ _ hyl
      obtain ⟨e2, l2, _⟩ := kill_live _ _ hyl'
      rw [e1, e2] at ha ⊢
      exact h.uniq x hx x' hx' ha l1 l2

/-- one operation on both sides -/
theorem Sim.step (cfg : Cfg) (hTTL : cfg.accessTTL ≤ cfg.refreshTTL) {s : TState} {gs : List Grant} (h : Sim s gs)
    (op : TokOp) : Sim (s.step cfg op) (gstep cfg gs s.next s.now op) := by
  cases op with
  | login u => exact h.addToken cfg hTTL u
  | access k => exact h.accessStep cfg k
  | sweep => exact h.sweepStep' cfg
  | tick d => exact h.tick d
  | refresh k =>
    simp only [gstep]
    -- what the monitor finds
    cases hf : gs.find? (fun g => g.live && decide (g.r = k) && decide (g.rexp > s.now)) with
    | none =>
      -- no live unexpired grant has this refresh secret: the monitor changes nothing
      have hspec : refreshGrant gs s.now k = (gs, none) := by unfold refreshGrant; rw [hf]
      rw [hspec]
      simp only
      have noGrant : ∀ g ∈ gs, g.live = true → g.r = k → ¬ g.rexp > s.now := by
        intro g hg hl hr he
        have := List.find?_eq_none.mp hf g hg
        simp [hl, hr, he] at this
      rcases refresh_cases cfg s.t s.next k s.now with ⟨h1, h2⟩ | ⟨old, hgo, hk, hcase⟩
      · simp only [TState.step]; rw [h1, h2]; exact h
      · obtain ⟨g, hg, hl, ht⟩ := h.ofTable k old hgo
        have hgr : g.r = old.r := by rw [← ht]; rfl
        have hexp : ¬ old.rexp > s.now := by
          have := noGrant g hg hl (by rw [hgr, hk])
          have e : g.rexp = old.rexp := by rw [← ht]; rfl
          rw [e] at this; exact this
        rcases hcase with ⟨h1, h2⟩ | ⟨h1, _⟩
        · simp only [TState.step]; rw [h1, h2]
          have hdead : false = false → ¬ g.rexp > s.now := by
            intro _
            have e : g.rexp = old.rexp := by rw [← ht]; rfl
            rw [e]; exact hexp
          have := h.dropRecord old g hg hl ht false hdead
          simp only [Bool.false_eq_true, if_false] at this
          exact this
        · -- a new token is only issued for an unexpired refresh secret
          exfalso
          unfold refreshToken at h1
          rw [hgo] at h1
          simp only [hk, if_true, hexp, if_false] at h1
          have := congrArg (fun t => tget t s.next) h1
          rw [tget_newToken] at this
          simp only [or_true, if_true] at this
          have hlt : tget (tdel (tdel s.t old.a) old.r) s.next = none := by
            cases hx : tget (tdel (tdel s.t old.a) old.r) s.next with
            | none => rfl
            | some v =>
              have hx' := tget_tdel_some (tget_tdel_some hx)
              have := h.tm.shape _ (tget_mem hx')
              have hk' := h.tm.key _ (tget_mem hx')
              omega
          rw [hlt] at this; cases this
    | some g =>
      have hgm := List.mem_of_find?_eq_some hf
      have hp := List.find?_some hf
      simp only [Bool.and_eq_true, decide_eq_true_eq] at hp
      have hspec : refreshGrant gs s.now k = (gs.map (kill k), some g.user) := by
        unfold refreshGrant; rw [hf]; rfl
      rw [hspec]
      simp only
      -- the table holds the record under `k`
      have hin := h.refreshIn g hgm hp.1.1 hp.2
      rw [hp.1.2] at hin
      have hr : (tokOf g).r = k := hp.1.2
      have hexp : (tokOf g).rexp > s.now := hp.2
      have hmodel : (refreshToken cfg s.t s.next k s.now) =
          ((newToken cfg (tdel (tdel s.t (tokOf g).a) (tokOf g).r) s.next (tokOf g).user s.now).1, s.next + 2,
           some (newToken cfg (tdel (tdel s.t (tokOf g).a) (tokOf g).r) s.next (tokOf g).user s.now).2.2) := by
        unfold refreshToken
        rw [hin]
        simp only [hr, if_true, hexp]
        rfl
      simp only [TState.step, hmodel]
      have hd := h.dropRecord (tokOf g) g hgm hp.1.1 rfl true (by intro e; cases e)
      simp only [if_true] at hd
      rw [hr] at hd
      have := hd.addToken cfg hTTL g.user
      have hgk : g.r = k := hp.1.2
      simpa [newGrant, tokOf, hgk] using this

/-- along every history the two sides stay related -/
def grun (cfg : Cfg) : TState → List Grant → List TokOp → TState × List Grant
  | s, gs, [] => (s, gs)
  | s, gs, op :: ops => grun cfg (s.step cfg op) (gstep cfg gs s.next s.now op) ops

theorem Sim.run (cfg : Cfg) (hTTL : cfg.accessTTL ≤ cfg.refreshTTL) (ops : List TokOp) :
    ∀ (s : TState) (gs : List Grant), Sim s gs → Sim (grun cfg s gs ops).1 (grun cfg s gs ops).2 := by
  induction ops with
  | nil => intro s gs h; exact h
  | cons op ops ih => intro s gs h; exact ih _ _ (h.step cfg hTTL op)

end IpcHub.Auth
