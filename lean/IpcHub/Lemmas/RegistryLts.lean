/-
Proofs about the interleaving model of media.Regist / media.Unregist
(Model/RegistryLts.lean): under the lock every complete run is linearizable, the locked
system never deadlocks, and without the lock there is a non-serial outcome.
Core Lean only.
-/
import IpcHub.Model.RegistryLts
namespace IpcHub.RegistryLts
open IpcHub.Registry

/-! ### sequential runs -/

theorem seqRun_append (st : State) (l1 l2 : List ROp) :
    seqRun st (l1 ++ l2) = seqRun (seqRun st l1) l2 := by
  induction l1 generalizing st with
  | nil => rfl
  | cons o os ih => simp [seqRun, ih]

/-! ### list facts about `modify` -/

theorem map_modify_inv {α β : Type} (f : α → β) (g : α → α) (hg : ∀ a, f (g a) = f a)
    (l : List α) (t : Nat) : (l.modify t g).map f = l.map f := by
  induction l generalizing t with
  | nil => simp
  | cons a l ih =>
    cases t with
    | zero => simp [hg]
    | succ t => simp [ih]

theorem filter_modify_same {α : Type} (p : α → Bool) (g : α → α) (l : List α) (t : Nat) (th : α)
    (h : l[t]? = some th) (h1 : p th = false) (h2 : p (g th) = false) :
    (l.modify t g).filter p = l.filter p := by
  induction l generalizing t with
  | nil => simp
  | cons a l ih =>
    cases t with
    | zero =>
      simp at h; subst h
      simp [h1, h2]
    | succ t =>
      simp at h
      simp [List.filter_cons, ih t h]

theorem filter_modify_drop {α β : Type} (p : α → Bool) (g : α → α) (f : α → β) (l : List α)
    (t : Nat) (th : α) (h : l[t]? = some th) (h1 : p th = true) (h2 : p (g th) = false) :
    ((l.filter p).map f).Perm (f th :: ((l.modify t g).filter p).map f) := by
  induction l generalizing t with
  | nil => simp at h
  | cons a l ih =>
    cases t with
    | zero =>
      simp at h; subst h
      simp [h1, h2]
    | succ t =>
      simp at h
      have ih' := ih t h
      simp only [List.modify_succ_cons, List.filter_cons]
      cases hp : p a with
      | false => simpa using ih'
      | true =>
        simp only [if_true, List.map_cons]
        exact (List.Perm.cons _ ih').trans (List.Perm.swap _ _ _)

/-! ### the remaining work of a thread -/

/-- the state that results when a thread at `pc` runs the rest of its body alone -/
def fin (op : ROp) (pc : PC) (st : State) : State :=
  match pc with
  | .start => st
  | .locked => seqStep st op
  | .loaded old =>
    match st.streams[op.sid]? with
    | none => st
    | some s =>
      match op with
      | .regist i => retireOld { st with reg := store st.reg s.path i } old
      | .unregist i => closeStream { st with reg := delete st.reg s.path } i false
  | .stored old =>
    match op with
    | .regist _ => retireOld st old
    | .unregist i => closeStream st i false
  | .unlocking => st
  | .done => st

def idle (pc : PC) : Prop := pc = .start ∨ pc = .done

/-- the invariant of the locked system -/
structure Inv (st0 : State) (ops : List ROp) (c : CState) : Prop where
  ops_eq : c.threads.map (·.op) = ops
  perm : (c.lin ++ (c.threads.filter (fun th => th.pc = .start)).map (·.op)).Perm ops
  idl : ∀ j th, c.threads[j]? = some th → c.holder ≠ some j → idle th.pc
  act : ∀ t, c.holder = some t →
    ∃ th, c.threads[t]? = some th ∧ ¬ idle th.pc ∧ fin th.op th.pc c.st = seqRun st0 c.lin
  free : c.holder = none → c.st = seqRun st0 c.lin

theorem inv_init (st0 : State) (ops : List ROp) : Inv st0 ops (initC st0 ops) := by
  refine ⟨?_, ?_, ?_, ?_, ?_⟩
  · simp [initC, Function.comp_def]
  · simp [initC, List.filter_map, Function.comp_def]
    rw [List.filter_eq_self.2 (fun _ _ => rfl)]
  · intro j th h _
    simp [initC] at h
    obtain ⟨o, _, rfl⟩ := h
    exact Or.inl rfl
  · intro t h; simp [initC] at h
  · intro _; simp [initC, seqRun]


theorem ops_setPc (c : CState) (t : Nat) (pc : PC) :
    (setPc c t pc).threads.map (fun x => x.op) = c.threads.map (fun x => x.op) :=
  map_modify_inv (fun x : Thread => x.op) (fun th => { th with pc := pc }) (fun _ => rfl) _ _

theorem getElem?_setPc (c : CState) (t : Nat) (pc : PC) (j : Nat) :
    (setPc c t pc).threads[j]? =
      (fun a : Thread => if t = j then { a with pc := pc } else a) <$> c.threads[j]? := by
  simp [setPc, List.getElem?_modify]

theorem holder_eq_of_active {st0 ops c t th} (hI : Inv st0 ops c) (hth : c.threads[t]? = some th)
    (hact : ¬ idle th.pc) : c.holder = some t := by
  apply Classical.byContradiction
  intro h
  exact hact (hI.idl t th hth h)

theorem inv_mid {st0 ops c t th} (hI : Inv st0 ops c) (hth : c.threads[t]? = some th)
    (hact : ¬ idle th.pc) (pc' : PC) (st' : State) (hpc' : ¬ idle pc')
    (hfin : fin th.op pc' st' = fin th.op th.pc c.st) :
    Inv st0 ops { setPc c t pc' with st := st' } := by
  have hh := holder_eq_of_active hI hth hact
  have hs : th.pc ≠ .start := fun h => hact (Or.inl h)
  have hs' : pc' ≠ .start := fun h => hpc' (Or.inl h)
  obtain ⟨th2, hth2, _, hfin2⟩ := hI.act t hh
  rw [hth] at hth2; cases hth2
  refine ⟨?_, ?_, ?_, ?_, ?_⟩
  · exact (ops_setPc _ _ _).trans hI.ops_eq
  · simp only [setPc]
    rw [filter_modify_same _ _ _ t th hth (by simp [hs]) (by simp [hs'])]
    exact hI.perm
  · intro j th' hj hne
    have hne' : c.holder ≠ some j := hne
    have htj : t ≠ j := by intro e; subst e; exact hne' hh
    have := getElem?_setPc c t pc' j
    simp only [htj, if_false] at this
    have hj' : (setPc c t pc').threads[j]? = some th' := hj
    rw [this] at hj'
    simp at hj'
    exact hI.idl j th' hj' hne'
  · intro t' ht'
    have ht'' : c.holder = some t' := ht'
    rw [hh] at ht''; cases ht''
    refine ⟨{ th with pc := pc' }, ?_, hpc', ?_⟩
    · show (setPc c t pc').threads[t]? = _
      rw [getElem?_setPc, hth]; simp
    · show fin th.op pc' st' = seqRun st0 c.lin
      rw [hfin, hfin2]
  · intro h
    have : c.holder = none := h
    rw [hh] at this; cases this

theorem inv_start {st0 ops c t th} (hI : Inv st0 ops c) (hth : c.threads[t]? = some th)
    (hpc : th.pc = .start) (hh : c.holder = none) :
    Inv st0 ops { setPc c t .locked with holder := some t, lin := c.lin ++ [th.op] } := by
  refine ⟨?_, ?_, ?_, ?_, ?_⟩
  · exact (ops_setPc _ _ _).trans hI.ops_eq
  · simp only [setPc]
    have := filter_modify_drop (fun th : Thread => decide (th.pc = .start))
      (fun th => { th with pc := PC.locked }) (·.op) c.threads t th hth (by simp [hpc]) (by simp)
    refine List.Perm.trans ?_ hI.perm
    rw [List.append_assoc]
    exact List.Perm.append_left _ this.symm
  · intro j th' hj hne
    have htj : t ≠ j := by intro e; subst e; exact hne rfl
    have := getElem?_setPc c t .locked j
    simp only [htj, if_false] at this
    have hj' : (setPc c t .locked).threads[j]? = some th' := hj
    rw [this] at hj'
    simp at hj'
    exact hI.idl j th' hj' (by rw [hh]; simp)
  · intro t' ht'
    have ht'' : some t = some t' := ht'
    cases ht''
    refine ⟨{ th with pc := .locked }, ?_, ?_, ?_⟩
    · show (setPc c t .locked).threads[t]? = _
      rw [getElem?_setPc, hth]; simp
    · simp [idle]
    · show seqStep c.st th.op = seqRun st0 (c.lin ++ [th.op])
      rw [seqRun_append, ← hI.free hh]; rfl
  · intro h
    have : some t = none := h
    cases this

theorem inv_unlock {st0 ops c t th} (hI : Inv st0 ops c) (hth : c.threads[t]? = some th)
    (hpc : th.pc = .unlocking) :
    Inv st0 ops { setPc c t .done with holder := none } := by
  have hact : ¬ idle th.pc := by simp [idle, hpc]
  have hh := holder_eq_of_active hI hth hact
  obtain ⟨th2, hth2, _, hfin2⟩ := hI.act t hh
  rw [hth] at hth2; cases hth2
  refine ⟨?_, ?_, ?_, ?_, ?_⟩
  · exact (ops_setPc _ _ _).trans hI.ops_eq
  · simp only [setPc]
    rw [filter_modify_same _ _ _ t th hth (by simp [hpc]) (by simp)]
    exact hI.perm
  · intro j th' hj _
    have hj' : (setPc c t .done).threads[j]? = some th' := hj
    rw [getElem?_setPc] at hj'
    by_cases htj : t = j
    · subst htj
      rw [hth] at hj'; simp at hj'; subst hj'
      exact Or.inr rfl
    · simp only [htj, if_false] at hj'
      simp at hj'
      exact hI.idl j th' hj' (by rw [hh]; intro e; cases e; exact htj rfl)
  · intro t' ht'
    have : (none : Option Nat) = some t' := ht'
    cases this
  · intro _
    show c.st = seqRun st0 c.lin
    rw [← hfin2, hpc]; rfl

theorem inv_step {st0 ops c c' t} (hI : Inv st0 ops c) (h : stepThread true c t = some c') :
    Inv st0 ops c' := by
  cases hth : c.threads[t]? with
  | none => simp [stepThread, hth] at h
  | some th =>
    obtain ⟨op, pc⟩ := th
    cases pc with
    | start =>
      simp only [stepThread, hth, if_true] at h
      split at h
      · rename_i hh
        cases h
        exact inv_start hI hth rfl hh
      · cases h
    | done => simp [stepThread, hth] at h
    | unlocking =>
      simp only [stepThread, hth, if_true] at h
      cases h
      exact inv_unlock hI hth rfl
    | locked =>
      have hact : ¬ idle (Thread.mk op .locked).pc := by simp [idle]
      cases op with
      | regist i =>
        simp only [stepThread, hth, ROp.sid] at h
        split at h
        · rename_i hs
          cases h
          refine inv_mid hI hth hact .unlocking c.st (by simp [idle]) ?_
          simp [fin, seqStep, regist, hs]
        · rename_i s hs
          split at h
          · rename_i hcur
            cases h
            refine inv_mid hI hth hact .unlocking c.st (by simp [idle]) ?_
            simp [fin, seqStep, regist, hs, hcur]
          · rename_i hcur
            cases h
            refine inv_mid hI hth hact (.loaded _) c.st (by simp [idle]) ?_
            simp [fin, seqStep, regist, hs, hcur, ROp.sid]
      | unregist i =>
        simp only [stepThread, hth, ROp.sid] at h
        split at h
        · rename_i hs
          cases h
          refine inv_mid hI hth hact .unlocking c.st (by simp [idle]) ?_
          simp [fin, seqStep, unregist, hs]
        · rename_i s hs
          split at h
          · rename_i hcur
            cases h
            refine inv_mid hI hth hact (.loaded _) c.st (by simp [idle]) ?_
            simp [fin, seqStep, unregist, hs, hcur, ROp.sid]
          · rename_i hcur
            cases h
            refine inv_mid hI hth hact (.stored none) c.st (by simp [idle]) ?_
            simp [fin, seqStep, unregist, hs, hcur]
    | loaded old =>
      have hact : ¬ idle (Thread.mk op (.loaded old)).pc := by simp [idle]
      cases op with
      | regist i =>
        simp only [stepThread, hth, ROp.sid] at h
        split at h
        · rename_i hs
          cases h
          refine inv_mid hI hth hact .unlocking c.st (by simp [idle]) ?_
          simp [fin, hs, ROp.sid]
        · rename_i s hs
          cases h
          refine inv_mid hI hth hact (.stored old) _ (by simp [idle]) ?_
          simp [fin, hs, ROp.sid]
      | unregist i =>
        simp only [stepThread, hth, ROp.sid] at h
        split at h
        · rename_i hs
          cases h
          refine inv_mid hI hth hact .unlocking c.st (by simp [idle]) ?_
          simp [fin, hs, ROp.sid]
        · rename_i s hs
          cases h
          refine inv_mid hI hth hact (.stored none) _ (by simp [idle]) ?_
          simp [fin, hs, ROp.sid]
    | stored old =>
      have hact : ¬ idle (Thread.mk op (.stored old)).pc := by simp [idle]
      cases op with
      | regist i =>
        simp only [stepThread, hth] at h
        cases h
        refine inv_mid hI hth hact .unlocking _ (by simp [idle]) ?_
        simp [fin]
      | unregist i =>
        simp only [stepThread, hth] at h
        cases h
        refine inv_mid hI hth hact .unlocking _ (by simp [idle]) ?_
        simp [fin]

theorem inv_runSched {st0 ops c} (hI : Inv st0 ops c) (sched : List Nat) :
    Inv st0 ops (runSched true c sched) := by
  induction sched generalizing c with
  | nil => exact hI
  | cons t ts ih =>
    simp only [runSched]
    apply ih
    cases h : stepThread true c t with
    | none => exact hI
    | some c' => exact inv_step hI h

/-- every state reachable under the lock satisfies the invariant -/
theorem inv_reachable (st0 : State) (ops : List ROp) (sched : List Nat) :
    Inv st0 ops (runSched true (initC st0 ops) sched) :=
  inv_runSched (inv_init st0 ops) sched

theorem allDone_iff (c : CState) : allDone c = true ↔ ∀ th ∈ c.threads, th.pc = .done := by
  simp [allDone]

/-- when all threads are done, nobody holds the lock -/
theorem holder_none_of_allDone {st0 ops c} (hI : Inv st0 ops c) (hd : allDone c = true) :
    c.holder = none := by
  cases hh : c.holder with
  | none => rfl
  | some t =>
    obtain ⟨th, hth, hact, _⟩ := hI.act t hh
    exact absurd (Or.inr ((allDone_iff c).1 hd th (List.mem_of_getElem? hth))) hact

/-- **Linearizability under registLock.**  For every initial registry state, every list of
    Regist/Unregist calls (one thread each) and every schedule: once all threads have
    finished, the shared state is the sequential execution of the operations in the order
    in which they entered the critical section, and that order is a permutation of the
    operations. -/
theorem linearizable (st0 : State) (ops : List ROp) (sched : List Nat) :
    let c := runSched true (initC st0 ops) sched
    allDone c = true → c.st = seqRun st0 c.lin ∧ c.lin.Perm ops := by
  intro c hd
  have hI : Inv st0 ops c := inv_reachable st0 ops sched
  refine ⟨hI.free (holder_none_of_allDone hI hd), ?_⟩
  have hp := hI.perm
  have hnil : c.threads.filter (fun th => decide (th.pc = .start)) = [] := by
    rw [List.filter_eq_nil_iff]
    intro th hth
    simp [(allDone_iff c).1 hd th hth]
  rw [hnil] at hp
  simpa using hp

/-- the final state is a serial outcome: some permutation of the operations, run
    sequentially, yields it -/
theorem serial_outcome (st0 : State) (ops : List ROp) (sched : List Nat)
    (hd : allDone (runSched true (initC st0 ops) sched) = true) :
    ∃ l : List ROp, l.Perm ops ∧ (runSched true (initC st0 ops) sched).st = seqRun st0 l :=
  ⟨_, (linearizable st0 ops sched hd).2, (linearizable st0 ops sched hd).1⟩

/-- **No deadlock under registLock.**  In every reachable state in which some thread has
    not finished, some thread has an enabled step. -/
theorem quiescent_progress (st0 : State) (ops : List ROp) (sched : List Nat) :
    let c := runSched true (initC st0 ops) sched
    allDone c = false → ∃ t, (stepThread true c t).isSome = true := by
  intro c hd
  have hI : Inv st0 ops c := inv_reachable st0 ops sched
  cases hh : c.holder with
  | some t =>
    obtain ⟨th, hth, hact, _⟩ := hI.act t hh
    refine ⟨t, ?_⟩
    obtain ⟨op, pc⟩ := th
    cases pc with
    | start => exact absurd (Or.inl rfl) hact
    | done => exact absurd (Or.inr rfl) hact
    | unlocking => simp [stepThread, hth]
    | locked =>
      cases op <;> simp only [stepThread, hth] <;> split <;> (try split) <;> rfl
    | loaded old =>
      cases op <;> simp only [stepThread, hth] <;> split <;> rfl
    | stored old =>
      cases op <;> simp [stepThread, hth]
  | none =>
    have : ∃ th ∈ c.threads, th.pc ≠ .done := by
      simpa [allDone] using hd
    obtain ⟨th, hmem, hne⟩ := this
    obtain ⟨t, hth⟩ := List.getElem?_of_mem hmem
    refine ⟨t, ?_⟩
    have hid := hI.idl t th hth (by rw [hh]; simp)
    rcases hid with hs | hdn
    · simp [stepThread, hth, hs, hh]
    · exact absurd hdn hne

/-! ### without the lock: a non-serial outcome -/

def cexPath : Path := ['/', 'a']

def cexStream : Stream :=
  { path := cexPath, status := .ok, rtp := [], flv := [], seed := 0, hls := none }

/-- three live streams on the same path; stream 0 is the registered one -/
def cexSt : State :=
  { streams := [cexStream, cexStream, cexStream], reg := [(cexPath, 0)], tasks := [], now := 0 }

def cexOps : List ROp := [.regist 1, .regist 2]

/-- the unlocked run: thread 0 (Regist 1) is paused between its Load and its Store while
    thread 1 (Regist 2) runs to completion -/
def cexFinal : CState := runSched false (initC cexSt cexOps) pauseSchedule

/-- **Without registLock the outcome is not serial.**  After the pause schedule both
    Regist calls have returned, the path maps to stream 1, stream 0 is retired, and stream 2
    is still StreamOK although it is not (and never will be found) in the registry, with no
    idle task watching it; in either serial order exactly one of the streams 1, 2 stays
    StreamOK. -/
theorem unlocked_counterexample :
    allDone cexFinal = true ∧
    cexFinal.lin = [.regist 1, .regist 2] ∧
    cexFinal.st.reg = [(cexPath, 1)] ∧
    load cexFinal.st.reg cexPath = some 1 ∧
    isOk cexFinal.st 0 = false ∧ isOk cexFinal.st 1 = true ∧ isOk cexFinal.st 2 = true ∧
    pendingTasks cexFinal.st 2 = 0 ∧
    -- serial order Regist 1; Regist 2
    (load (seqRun cexSt [.regist 1, .regist 2]).reg cexPath = some 2 ∧
      isOk (seqRun cexSt [.regist 1, .regist 2]) 1 = false ∧
      isOk (seqRun cexSt [.regist 1, .regist 2]) 2 = true) ∧
    -- serial order Regist 2; Regist 1
    (load (seqRun cexSt [.regist 2, .regist 1]).reg cexPath = some 1 ∧
      isOk (seqRun cexSt [.regist 2, .regist 1]) 1 = true ∧
      isOk (seqRun cexSt [.regist 2, .regist 1]) 2 = false) := by
  decide

theorem perm_pair {α : Type} {x y : α} {l : List α} (h : l.Perm [x, y]) :
    l = [x, y] ∨ l = [y, x] := by
  have hl := h.length_eq
  match l, hl with
  | [a, b], _ =>
    have ha : a ∈ [x, y] := h.mem_iff.1 (by simp)
    have hx : x ∈ [a, b] := h.mem_iff.2 (by simp)
    have hy : y ∈ [a, b] := h.mem_iff.2 (by simp)
    have hb : b ∈ [x, y] := h.mem_iff.1 (by simp)
    simp only [List.mem_cons, List.not_mem_nil, or_false] at ha hb hx hy
    by_cases hxy : x = y
    · subst hxy
      simp only [or_self] at ha hb
      subst ha hb
      exact Or.inl rfl
    · rcases ha with rfl | rfl
      · rcases hy with e | e
        · exact absurd e.symm hxy
        · subst e; exact Or.inl rfl
      · rcases hx with e | e
        · exact absurd e hxy
        · subst e; exact Or.inr rfl

/-- the unlocked outcome is not the sequential execution of any permutation of the two
    operations (so `linearizable`/`serial_outcome` fail for `locked = false`) -/
theorem unlocked_not_serial :
    allDone cexFinal = true ∧ ∀ l : List ROp, l.Perm cexOps → cexFinal.st.streams ≠ (seqRun cexSt l).streams := by
  refine ⟨by decide, ?_⟩
  intro l hl
  rcases perm_pair hl with rfl | rfl <;> decide

end IpcHub.RegistryLts
