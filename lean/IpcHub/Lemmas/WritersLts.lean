/-
The no-tearing invariant of the writers LTS (Model/Writers.lean), by induction over
arbitrary schedules.
-/
import IpcHub.Model.Writers
namespace IpcHub.Writers

theorem writesOf_append (a b : List Op) : writesOf (a ++ b) = writesOf a ++ writesOf b := by
  induction a with
  | nil => rfl
  | cons o r ih => cases o <;> simp [writesOf, ih]

theorem bodyOk_append (a b : List Op) : bodyOk (a ++ b) = (bodyOk a && bodyOk b) := by
  induction a with
  | nil => simp [bodyOk]
  | cons o r ih => cases o <;> simp [bodyOk, ih]

theorem progOf_cons (j : Job) (r : List Job) : progOf (j :: r) = .lock :: (j.body ++ [.unlock] ++ progOf r) := by
  simp [progOf, jobOps]

/-- the chunks of the completed critical sections, in the order in which they completed -/
def doneChunks (done : List (Nat × Job)) : List Bytes := done.flatMap (fun p => writesOf p.2.body)

theorem doneChunks_append (a b : List (Nat × Job)) : doneChunks (a ++ b) = doneChunks a ++ doneChunks b := by
  simp [doneChunks]

theorem doneChunks_flatten (done : List (Nat × Job)) :
    (doneChunks done).flatten = (done.map (fun p => p.2.msg)).flatten := by
  induction done with
  | nil => rfl
  | cons p r ih =>
    have : doneChunks (p :: r) = writesOf p.2.body ++ doneChunks r := by simp [doneChunks]
    rw [this, List.flatten_append, ih]
    simp [Job.msg]

/-- what thread `t` has completed according to the log -/
def doneOf (done : List (Nat × Job)) (t : Nat) : List Job := (done.filter (fun p => p.1 == t)).map (·.2)

/-- the invariant: the log of completed critical sections accounts for every chunk written,
    except the chunks of the one section in progress (the holder's) -/
def Inv (jobs : Nat → List Job) (st : St) : Prop :=
  ∃ (k : Nat → Nat) (done : List (Nat × Job)),
    (∀ t, doneOf done t = (jobs t).take (k t)) ∧
    match st.holder with
    | none => st.out = doneChunks done ∧ ∀ t, st.threads t = progOf ((jobs t).drop (k t))
    | some h =>
      ∃ j pre post, (jobs h)[k h]? = some j ∧ j.body = pre ++ post ∧
        st.out = doneChunks done ++ writesOf pre ∧
        st.threads h = post ++ [.unlock] ++ progOf ((jobs h).drop (k h + 1)) ∧
        ∀ t, t ≠ h → st.threads t = progOf ((jobs t).drop (k t))

theorem inv_init (jobs : Nat → List Job) : Inv jobs (initSt (fun t => progOf (jobs t))) := by
  refine ⟨fun _ => 0, [], ?_, ?_⟩
  · intro t; simp [doneOf]
  · simp [initSt, doneChunks]

theorem setThread_same (f : Nat → List Op) (t : Nat) (v : List Op) : setThread f t v t = v := by
  simp [setThread]

theorem setThread_other (f : Nat → List Op) (t x : Nat) (v : List Op) (h : x ≠ t) : setThread f t v x = f x := by
  simp [setThread, h]

theorem drop_eq_cons_getElem? {α} (l : List α) (n : Nat) (a : α) (r : List α) (h : l.drop n = a :: r) :
    l[n]? = some a ∧ l.drop (n + 1) = r := by
  constructor
  · have := congrArg List.head? h
    simpa [List.head?_drop] using this
  · have : l.drop (n + 1) = (l.drop n).drop 1 := by simp [List.drop_drop]
    rw [this, h]; rfl

theorem take_succ_of_getElem? {α} (l : List α) (n : Nat) (a : α) (h : l[n]? = some a) :
    l.take (n + 1) = l.take n ++ [a] := by
  rw [List.take_add_one, h]; rfl

theorem inv_step (jobs : Nat → List Job) (hok : ∀ t, ∀ j ∈ jobs t, bodyOk j.body = true)
    (st : St) (t : Nat) (hinv : Inv jobs st) : Inv jobs (step st t) := by
  obtain ⟨k, done, hdone, hm⟩ := hinv
  cases hh : st.holder with
  | none =>
    rw [hh] at hm
    obtain ⟨hout, hthr⟩ := hm
    cases hd : (jobs t).drop (k t) with
    | nil =>
      have ht : st.threads t = [] := by rw [hthr t, hd]; rfl
      have : step st t = st := by simp [step, ht]
      rw [this]
      exact ⟨k, done, hdone, by rw [hh]; exact ⟨hout, hthr⟩⟩
    | cons j rest =>
      have ht : st.threads t = .lock :: (j.body ++ [.unlock] ++ progOf rest) := by
        rw [hthr t, hd, progOf_cons]
      obtain ⟨hget, hrest⟩ := drop_eq_cons_getElem? _ _ _ _ hd
      have hs : step st t = ⟨some t, setThread st.threads t (j.body ++ [.unlock] ++ progOf rest), st.out⟩ := by
        simp [step, ht, hh]
      rw [hs]
      refine ⟨k, done, hdone, ?_⟩
      refine ⟨j, [], j.body, hget, by simp, by simp [hout, writesOf], ?_, ?_⟩
      · simp [setThread_same, hrest]
      · intro x hx
        simp only [setThread_other _ _ _ _ hx]
        exact hthr x
  | some h =>
    rw [hh] at hm
    obtain ⟨j, pre, post, hget, hbody, hout, hth, hoth⟩ := hm
    by_cases hth' : t = h
    · subst hth'
      have hjmem : j ∈ jobs t := List.mem_of_getElem? hget
      have hbok : bodyOk (pre ++ post) = true := by rw [← hbody]; exact hok t j hjmem
      cases post with
      | nil =>
        -- the unlock: the section is complete and enters the log
        have ht : st.threads t = .unlock :: progOf ((jobs t).drop (k t + 1)) := by simpa using hth
        have hs : step st t = ⟨none, setThread st.threads t (progOf ((jobs t).drop (k t + 1))), st.out⟩ := by
          simp [step, ht]
        rw [hs]
        refine ⟨fun x => if x = t then k t + 1 else k x, done ++ [(t, j)], ?_, ?_⟩
        · intro x
          by_cases hx : x = t
          · subst hx
            simp only [if_true]
            rw [take_succ_of_getElem? _ _ _ hget, ← hdone x]
            simp [doneOf, List.filter_append]
          · simp only [if_neg hx]
            rw [← hdone x]
            have hne : (t == x) = false := by
              simp only [beq_eq_false_iff_ne, ne_eq]
              exact fun h => hx h.symm
            simp [doneOf, List.filter_append, hne]
        · simp only
          refine ⟨?_, ?_⟩
          · rw [doneChunks_append, hout]
            simp [doneChunks, hbody]
          · intro x
            by_cases hx : x = t
            · subst hx; simp [setThread_same]
            · simp only [setThread_other _ _ _ _ hx, if_neg hx]; exact hoth x hx
      | cons op post' =>
        have hop : bodyOk (op :: post') = true := by
          rw [bodyOk_append] at hbok; simp at hbok; exact hbok.2
        have ht : st.threads t = op :: (post' ++ [.unlock] ++ progOf ((jobs t).drop (k t + 1))) := by
          simpa using hth
        cases op with
        | lock => simp [bodyOk] at hop
        | unlock => simp [bodyOk] at hop
        | write bs =>
          have hs : step st t = ⟨st.holder, setThread st.threads t (post' ++ [.unlock] ++ progOf ((jobs t).drop (k t + 1))), st.out ++ [bs]⟩ := by
            simp [step, ht]
          rw [hs]
          refine ⟨k, done, hdone, ?_⟩
          simp only [hh]
          refine ⟨j, pre ++ [.write bs], post', hget, by simp [hbody], ?_, by simp [setThread_same], ?_⟩
          · rw [hout, writesOf_append]; simp [writesOf]
          · intro x hx; simp only [setThread_other _ _ _ _ hx]; exact hoth x hx
        | flush =>
          have hs : step st t = ⟨st.holder, setThread st.threads t (post' ++ [.unlock] ++ progOf ((jobs t).drop (k t + 1))), st.out⟩ := by
            simp [step, ht]
          rw [hs]
          refine ⟨k, done, hdone, ?_⟩
          simp only [hh]
          refine ⟨j, pre ++ [.flush], post', hget, by simp [hbody], ?_, by simp [setThread_same], ?_⟩
          · rw [hout, writesOf_append]; simp [writesOf]
          · intro x hx; simp only [setThread_other _ _ _ _ hx]; exact hoth x hx
    · -- another goroutine: at a section boundary, i.e. finished or blocked on the mutex
      have hx := hoth t hth'
      have : step st t = st := by
        cases hd : (jobs t).drop (k t) with
        | nil => simp [step, hx, hd, progOf]
        | cons j' r' => simp [step, hx, hd, progOf_cons, hh]
      rw [this]
      exact ⟨k, done, hdone, by rw [hh]; exact ⟨j, pre, post, hget, hbody, hout, hth, hoth⟩⟩

theorem inv_exec (jobs : Nat → List Job) (hok : ∀ t, ∀ j ∈ jobs t, bodyOk j.body = true)
    (st : St) (hinv : Inv jobs st) (sched : List Nat) : Inv jobs (exec st sched) := by
  induction sched generalizing st with
  | nil => exact hinv
  | cons t ts ih => exact ih (step st t) (inv_step jobs hok st t hinv)

end IpcHub.Writers
