/-
Byte-level facts used by the C06 round-trip proofs: header bit manipulation of the FU-A / FU /
STAP-A / AP packetisers against the depacketizers' reconstruction, 16-bit size fields.
Each is a finite statement over one byte (and a few flags), checked exhaustively by `decide`
over `n < 256` and transferred to `UInt8`.
-/
import IpcHub.Spec.Packetise
namespace IpcHub.DepackBytes
open IpcHub.Depack IpcHub.Packetise

theorem forall_uint8 (P : UInt8 → Prop) (h : ∀ n : Nat, n < 256 → P (UInt8.ofNat n)) (b : UInt8) : P b := by
  have := h b.toNat (UInt8.toNat_lt b)
  simpa using this

set_option maxRecDepth 200000

/-! ### H.264 -/

theorem fua_ind_type (h : UInt8) : ((h &&& 0xe0) ||| 28) &&& 0x1f = 28 :=
  forall_uint8 (fun h => ((h &&& 0xe0) ||| 28) &&& 0x1f = 28) (by decide) h

theorem fua_start_bit (h : UInt8) (f l : Bool) :
    (((fuFlags f l ||| (h &&& 0x1f)) >>> (7 : UInt8)) &&& 1 = 1) ↔ f = true := by
  revert h
  cases f <;> cases l <;>
    exact forall_uint8 _ (by decide)

theorem fua_end_bit (h : UInt8) (f l : Bool) :
    (((fuFlags f l ||| (h &&& 0x1f)) >>> (6 : UInt8)) &&& 1 = 1) ↔ l = true := by
  revert h
  cases f <;> cases l <;>
    exact forall_uint8 _ (by decide)

theorem fua_rebuild (h : UInt8) (f l : Bool) :
    (((h &&& 0xe0) ||| 28) &&& 0xe0) ||| ((fuFlags f l ||| (h &&& 0x1f)) &&& 0x1f) = h := by
  revert h
  cases f <;> cases l <;>
    exact forall_uint8 _ (by decide)

theorem or24_type (m : UInt8) (hm : m &&& 0x9f = 0) : (m ||| 24) &&& 0x1f = 24 := by
  revert m
  exact forall_uint8 _ (by decide)

theorem nri_mask (b : UInt8) : nri b &&& 0x9f = 0 := by
  revert b
  exact forall_uint8 _ (by decide)

theorem stapaHdr_type (ns : List Bytes) : stapaHdr ns &&& 0x1f = 24 := by
  unfold stapaHdr
  apply or24_type
  have : ∀ (l : List Bytes) (m : UInt8), m &&& 0x9f = 0 →
      (l.foldl (fun m n => match n with | [] => m | b :: _ => if nri b > m then nri b else m) m) &&& 0x9f = 0 := by
    intro l
    induction l with
    | nil => intro m hm; simpa using hm
    | cons n l ih =>
      intro m hm
      simp only [List.foldl_cons]
      apply ih
      cases n with
      | nil => exact hm
      | cons b bs =>
        simp only
        split
        · exact nri_mask b
        · exact hm
  exact this ns 0 (by decide)

/-! ### H.265 -/

theorem fu_ind_type (h0 : UInt8) : nalType265 ((h0 &&& 0x81) ||| 98) = 49 := by
  revert h0
  exact forall_uint8 _ (by decide)

theorem fu_start_bit (h0 : UInt8) (f l : Bool) :
    (((fuFlags f l ||| ((h0 >>> (1 : UInt8)) &&& 0x3f)) >>> (7 : UInt8)) &&& 1 = 1) ↔ f = true := by
  revert h0
  cases f <;> cases l <;>
    exact forall_uint8 _ (by decide)

theorem fu_end_bit (h0 : UInt8) (f l : Bool) :
    (((fuFlags f l ||| ((h0 >>> (1 : UInt8)) &&& 0x3f)) >>> (6 : UInt8)) &&& 1 = 1) ↔ l = true := by
  revert h0
  cases f <;> cases l <;>
    exact forall_uint8 _ (by decide)

theorem fu_rebuild (h0 : UInt8) (f l : Bool) :
    (((h0 &&& 0x81) ||| 98) &&& 0x81) ||| (((fuFlags f l ||| ((h0 >>> (1 : UInt8)) &&& 0x3f)) &&& 0x3f) <<< (1 : UInt8)) = h0 := by
  revert h0
  cases f <;> cases l <;>
    exact forall_uint8 _ (by decide)

theorem ap_type (x : UInt8) : nalType265 (96 ||| (x &&& 1)) = 48 := by
  revert x
  exact forall_uint8 _ (by decide)

/-! ### 16-bit sizes -/

theorem be16_hi_lo (n : Nat) (hn : n < 65536) : be16 (hi8 n) (lo8 n) = n := by
  unfold be16 hi8 lo8
  have h1 : (UInt8.ofNat (n / 256)).toNat = n / 256 := by
    rw [UInt8.toNat_ofNat']; omega
  have h2 : (UInt8.ofNat (n % 256)).toNat = n % 256 := by
    rw [UInt8.toNat_ofNat']; omega
  rw [h1, h2]; omega

end IpcHub.DepackBytes
