/-
C11: concrete worlds for the proved counter-examples of the behaviour BEFORE each `fix:` commit
(the model with the corresponding source fact switched off).  The same cases are replayed on the
implementation from corpus/C11/*.case on every run.
-/
import IpcHub.Spec.Monitor
import IpcHub.Model.AuthInst
namespace IpcHub.Auth.Witness
open IpcHub.PathMatch IpcHub.Auth IpcHub.Monitor

def user (name pull push : String) : UserIn :=
  { name := name.toList, password := .plain "pw".toList, admin := false, push := push.toList, pull := pull.toList }

/-- a world with the users of `hist` (most recent first), one token pair (0, 1) per name in `logins`
    (in order: 0/1, 2/3, ...), and the given registered streams -/
def world (cfg : Auth.Cfg) (hist : List AdminOp) (logins : List String) (streams : List String) : World :=
  let users := hist.foldr (fun op us => match op with
    | .save u upd => saveUser cfg us u upd
    | .del n => delUser cfg us n) []
  let (toks, next) := logins.foldl (fun (acc : TokTable × Nat) n =>
    let r := newToken cfg acc.1 acc.2 n.toList 0
    (r.1, r.2.1)) ([], 0)
  { authOn := true, users := users, toks := toks, next := next, now := 0,
    streams := streams.map (fun k => { key := k.toList, segs := [1, 2, 3], owner := none }) }

def sworld (cfg : Auth.Cfg) (hist : List AdminOp) (logins : List String) : SWorld :=
  { authOn := true, hist := hist, now := 0,
    grants := (logins.zipIdx.map (fun (n, i) =>
      ({ user := n.toList, a := 2 * i, r := 2 * i + 1, aexp := cfg.accessTTL, rexp := cfg.refreshTTL, live := true } : Grant))).reverse }

/-- the configuration `c11_model_flags` establishes for the current tree, written out (so that
    evaluating a witness does not re-compare the generated skeletons) -/
def cfgFixed : Auth.Cfg :=
  { pm := IpcHub.PathMatch.genCfg, initResets := true, tsPermDir := true, permCanonical := true,
    wsRtspChecks := true, digestShowsNewNonce := true, wspJoinChecks := true, wspPlayChecks := true,
    identityReplaces := true, accessTTL := 7200, refreshTTL := 604800,
    noAuth := ["/api/v1/login", "/api/v1/refreshtoken", "/api/v1/runtime", "/api/v1/server"].map String.toList,
    streamQueryPrefix := "/api/v1/streams".toList }

def env : Env :=
  { lower := asciiLower, isSpace := asciiSpace, canon := canonicalPath cfgFixed,
    openPaths := ["/api/v1/login", "/api/v1/refreshtoken", "/api/v1/runtime", "/api/v1/server"].map String.toList,
    streamQueryPrefix := "/api/v1/streams".toList }

/-- the configurations of the code before each repair -/
def cfgAppend : Auth.Cfg := { cfgFixed with initResets := false }
def cfgTsRaw : Auth.Cfg := { cfgFixed with tsPermDir := false, permCanonical := false }
def cfgRawPath : Auth.Cfg := { cfgFixed with permCanonical := false }
def cfgWsOpen : Auth.Cfg := { cfgFixed with wsRtspChecks := false }
def cfgStaleNonce : Auth.Cfg := { cfgFixed with digestShowsNewNonce := false }
def cfgJoinAny : Auth.Cfg := { cfgFixed with wspJoinChecks := false }
def cfgWspNoRecheck : Auth.Cfg := { cfgFixed with wspPlayChecks := false }
/-- `authInterceptor` appending the verified name (`r.Header.Add`) instead of replacing (`Set`) -/
def cfgHeaderAdd : Auth.Cfg := { cfgFixed with identityReplaces := false }

end IpcHub.Auth.Witness
