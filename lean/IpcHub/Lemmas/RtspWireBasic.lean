/- Helper lemmas for C14: byte-string primitives of Model/RtspWire.lean -/
import IpcHub.Model.RtspWire
namespace IpcHub.RtspWire

local notation "Bytes" => List UInt8

theorem indexNat?_append_cons (a : Bytes) (b : UInt8) (c : Bytes) (h : b ∉ a) :
    indexNat? (a ++ b :: c) b = some a.length := by
  induction a with
  | nil => simp [indexNat?]
  | cons x xs ih =>
    have hx : x ≠ b := fun e => h (by simp [e])
    have hxs : b ∉ xs := fun m => h (by simp [m])
    simp [indexNat?, hx, ih hxs]

theorem indexNat?_none (a : Bytes) (b : UInt8) (h : b ∉ a) : indexNat? a b = none := by
  induction a with
  | nil => simp [indexNat?]
  | cons x xs ih =>
    have hx : x ≠ b := fun e => h (by simp [e])
    have hxs : b ∉ xs := fun m => h (by simp [m])
    simp [indexNat?, hx, ih hxs]

theorem indexByte_append_cons (a : Bytes) (b : UInt8) (c : Bytes) (h : b ∉ a) :
    indexByte (a ++ b :: c) b = a.length := by
  simp [indexByte, indexNat?_append_cons a b c h]

theorem indexByte_none (a : Bytes) (b : UInt8) (h : b ∉ a) : indexByte a b = -1 := by
  simp [indexByte, indexNat?_none a b h]

theorem indexNat?_bound (a : Bytes) (b : UInt8) (i : Nat) (h : indexNat? a b = some i) : i < a.length := by
  induction a generalizing i with
  | nil => simp [indexNat?] at h
  | cons x xs ih =>
    simp only [indexNat?] at h
    split at h
    · simp at h; subst h; simp
    · cases hq : indexNat? xs b with
      | none => simp [hq] at h
      | some j => simp [hq] at h; subst h; have := ih j hq; simp; omega

theorem indexByte_range (a : Bytes) (b : UInt8) : -1 ≤ indexByte a b ∧ indexByte a b < a.length := by
  unfold indexByte
  cases h : indexNat? a b with
  | none => simp; omega
  | some i => have := indexNat?_bound a b i h; simp; omega

/-! slices -/

theorem slice_ok (s : Bytes) (lo hi : Nat) (h1 : lo ≤ hi) (h2 : hi ≤ s.length) :
    slice s lo hi = .ok ((s.take hi).drop lo) := by
  unfold slice
  have : (0:Int) ≤ (lo:Int) ∧ (lo:Int) ≤ (hi:Int) ∧ (hi:Int) ≤ (s.length:Int) := by omega
  simp [this]

theorem sliceFrom_ok (s : Bytes) (lo : Nat) (h : lo ≤ s.length) : sliceFrom s lo = .ok (s.drop lo) := by
  unfold sliceFrom
  rw [slice_ok s lo s.length h (Nat.le_refl _)]
  simp

theorem slice_ne_panic_of (s : Bytes) (lo hi : Int) (h : 0 ≤ lo ∧ lo ≤ hi ∧ hi ≤ s.length) :
    ∃ r, slice s lo hi = .ok r := by
  unfold slice; simp [h]

/-! breakLF / readLine -/

theorem breakLF_append (l rest : Bytes) (h : (0x0A : UInt8) ∉ l) :
    breakLF (l ++ 0x0A :: rest) = (l, some rest) := by
  induction l with
  | nil => simp [breakLF]
  | cons x xs ih =>
    have hx : x ≠ 0x0A := fun e => h (by simp [e])
    have hxs : (0x0A : UInt8) ∉ xs := fun m => h (by simp [m])
    simp [breakLF, hx, ih hxs]

theorem breakLF_noLF (l : Bytes) (h : (0x0A : UInt8) ∉ l) : breakLF l = (l, none) := by
  induction l with
  | nil => simp [breakLF]
  | cons x xs ih =>
    have hx : x ≠ 0x0A := fun e => h (by simp [e])
    have hxs : (0x0A : UInt8) ∉ xs := fun m => h (by simp [m])
    simp [breakLF, hx, ih hxs]

theorem dropLastCR_append (l : Bytes) : dropLastCR (l ++ [0x0D]) = l := by
  simp [dropLastCR]

/-- a CRLF-terminated line within the limit is read exactly, leaving what follows -/
theorem readLine_crlf (cfg : Cfg) (l rest : Bytes) (h : (0x0A : UInt8) ∉ l)
    (hlim : ∀ m, cfg.maxLine = some m → l.length ≤ m) :
    readLine cfg (l ++ crlf ++ rest) = .ok (l, rest) := by
  have e : l ++ crlf ++ rest = (l ++ [0x0D]) ++ 0x0A :: rest := by simp [crlf]
  have hn : (0x0A : UInt8) ∉ l ++ [0x0D] := by simp [h]
  unfold readLine
  rw [e, breakLF_append _ _ hn]
  have hne : (l ++ [0x0D] ++ 0x0A :: rest).isEmpty = false := by simp
  simp only [hne, dropLastCR_append]
  cases hm : cfg.maxLine with
  | none => simp
  | some m => have := hlim m hm; simp; omega

end IpcHub.RtspWire
