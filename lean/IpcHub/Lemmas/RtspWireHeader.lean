/- Helper lemmas for C14: a written header block is read back field by field -/
import IpcHub.Lemmas.RtspWireText
import IpcHub.Lemmas.RtspWireFrame
namespace IpcHub.RtspWire
open IpcHub.RtspSpec (fieldNameOK fieldValueOK tokenChar)

local notation "Bytes" => List UInt8

/-! ### what the specification's field predicates give -/

theorem headOK_of_all (s : Bytes) (h : ∀ b ∈ s, b < 0x80 ∧ isAsciiSpace b = false) : headOK s ∧ headOK s.reverse := by
  constructor
  · intro b hb
    cases s with
    | nil => simp at hb
    | cons x t => simp at hb; subst hb; exact h x (by simp)
  · intro b hb
    have : b ∈ s.reverse := by
      cases hr : s.reverse with
      | nil => simp [hr] at hb
      | cons x t => simp [hr] at hb; subst hb; simp
    exact h b (by simpa using this)

theorem tokenChar_props (b : UInt8) (h : tokenChar b = true) :
    b < 0x80 ∧ isAsciiSpace b = false ∧ b ≠ 0x3A ∧ b ≠ 0x0A ∧ b ≠ 0x0D ∧ b ≠ 0x20 := by
  unfold tokenChar at h
  simp only [Bool.and_eq_true, decide_eq_true_eq, bne_iff_ne, ne_eq] at h
  obtain ⟨⟨h1, h2⟩, h3⟩ := h
  have l1 : (0x21 : UInt8).toNat ≤ b.toNat := UInt8.le_iff_toNat_le.mp h1
  have l2 : b.toNat ≤ (0x7E : UInt8).toNat := UInt8.le_iff_toNat_le.mp h2
  have e1 : (0x21 : UInt8).toNat = 33 := by decide
  have e2 : (0x7E : UInt8).toNat = 126 := by decide
  rw [e1] at l1; rw [e2] at l2
  have ne : ∀ c : UInt8, c.toNat < 33 ∨ c.toNat > 126 → b ≠ c := by
    intro c hc e; subst e; omega
  refine ⟨?_, ?_, h3, ne 0x0A (by decide), ne 0x0D (by decide), ne 0x20 (by decide)⟩
  · exact UInt8.lt_iff_toNat_lt.mpr (by have : (0x80 : UInt8).toNat = 128 := by decide
                                        omega)
  · unfold isAsciiSpace
    simp [ne 0x20 (by decide), ne 0x09 (by decide), ne 0x0A (by decide), ne 0x0B (by decide), ne 0x0C (by decide), ne 0x0D (by decide)]

structure NameFacts (k : Bytes) : Prop where
  ne : k ≠ []
  noColon : (0x3A : UInt8) ∉ k
  noLF : (0x0A : UInt8) ∉ k
  noCR : (0x0D : UInt8) ∉ k
  noSP : (0x20 : UInt8) ∉ k
  head : headOK k
  last : headOK k.reverse

theorem nameFacts (k : Bytes) (h : fieldNameOK k = true) : NameFacts k := by
  unfold fieldNameOK at h
  simp only [Bool.and_eq_true, Bool.not_eq_true', List.all_eq_true] at h
  obtain ⟨h1, h2⟩ := h
  have hp := fun b hb => tokenChar_props b (h2 b hb)
  have ho := headOK_of_all k (fun b hb => ⟨(hp b hb).1, (hp b hb).2.1⟩)
  exact {
    ne := by intro e; subst e; simp at h1
    noColon := fun m => (hp _ m).2.2.1 rfl
    noLF := fun m => (hp _ m).2.2.2.1 rfl
    noCR := fun m => (hp _ m).2.2.2.2.1 rfl
    noSP := fun m => (hp _ m).2.2.2.2.2 rfl
    head := ho.1
    last := ho.2 }

structure ValueFacts (v : Bytes) : Prop where
  noLF : (0x0A : UInt8) ∉ v
  noCR : (0x0D : UInt8) ∉ v
  head : headOK v
  last : headOK v.reverse

theorem printable_props (b : UInt8) (h1 : 0x20 ≤ b) (h2 : b ≤ 0x7E) :
    b < 0x80 ∧ b ≠ 0x0A ∧ b ≠ 0x0D ∧ (b ≠ 0x20 → isAsciiSpace b = false) := by
  have l1 : (0x20 : UInt8).toNat ≤ b.toNat := UInt8.le_iff_toNat_le.mp h1
  have l2 : b.toNat ≤ (0x7E : UInt8).toNat := UInt8.le_iff_toNat_le.mp h2
  have e1 : (0x20 : UInt8).toNat = 32 := by decide
  have e2 : (0x7E : UInt8).toNat = 126 := by decide
  rw [e1] at l1; rw [e2] at l2
  have ne : ∀ c : UInt8, c.toNat < 32 ∨ c.toNat > 126 → b ≠ c := by
    intro c hc e; subst e; omega
  refine ⟨?_, ne 0x0A (by decide), ne 0x0D (by decide), ?_⟩
  · exact UInt8.lt_iff_toNat_lt.mpr (by have : (0x80 : UInt8).toNat = 128 := by decide
                                        omega)
  · intro h20
    unfold isAsciiSpace
    simp [h20, ne 0x09 (by decide), ne 0x0A (by decide), ne 0x0B (by decide), ne 0x0C (by decide), ne 0x0D (by decide)]

theorem edge_props (b : UInt8) (h1 : 0x21 ≤ b) (h2 : b ≤ 0x7E) : b < 0x80 ∧ isAsciiSpace b = false := by
  have l1 : (0x21 : UInt8).toNat ≤ b.toNat := UInt8.le_iff_toNat_le.mp h1
  have e1 : (0x21 : UInt8).toNat = 33 := by decide
  have e0 : (0x20 : UInt8).toNat = 32 := by decide
  rw [e1] at l1
  have h20 : (0x20 : UInt8) ≤ b := by
    apply UInt8.le_iff_toNat_le.mpr
    rw [e0]; omega
  have hne : b ≠ 0x20 := by
    intro e; subst e
    rw [e0] at l1; omega
  exact ⟨(printable_props b h20 h2).1, (printable_props b h20 h2).2.2.2 hne⟩

theorem text_props (b : UInt8) (h : ((0x20 ≤ b && b ≤ 0x7E) || 0x80 ≤ b) = true) : b ≠ 0x0A ∧ b ≠ 0x0D := by
  simp only [Bool.or_eq_true, Bool.and_eq_true, decide_eq_true_eq] at h
  rcases h with ⟨h1, h2⟩ | h3
  · exact ⟨(printable_props b h1 h2).2.1, (printable_props b h1 h2).2.2.1⟩
  · have l : (0x80 : UInt8).toNat ≤ b.toNat := UInt8.le_iff_toNat_le.mp h3
    have e : (0x80 : UInt8).toNat = 128 := by decide
    rw [e] at l
    constructor <;> (intro e'; subst e'; revert l; decide)

theorem valueFacts (v : Bytes) (h : fieldValueOK v = true) : ValueFacts v := by
  unfold fieldValueOK at h
  simp only [Bool.and_eq_true, List.all_eq_true] at h
  obtain ⟨⟨h1, h2⟩, h3⟩ := h
  refine { noLF := fun m => (text_props _ (h1 _ m)).1 rfl, noCR := fun m => (text_props _ (h1 _ m)).2 rfl, head := ?_, last := ?_ }
  · intro b hb
    rw [hb] at h2
    simp only [Bool.and_eq_true, decide_eq_true_eq] at h2
    exact edge_props b h2.1 h2.2
  · intro b hb
    have hl : v.getLast? = some b := by
      rw [List.getLast?_eq_head?_reverse]; exact hb
    rw [hl] at h3
    simp only [Bool.and_eq_true, decide_eq_true_eq] at h3
    exact edge_props b h3.1 h3.2

/-! ### one field line -/

/-- the field line `name ": " value` is split at the first colon into the name and the value -/
theorem header_line_split (cfg : Cfg) (k v : Bytes) (hk : NameFacts k) (hv : ValueFacts v) :
    let kv := k ++ [0x3A, 0x20] ++ v
    indexByte kv 0x3A = k.length ∧ slice kv 0 k.length = .ok k ∧ sliceFrom kv ((k.length : Int) + 1) = .ok (0x20 :: v) ∧
    canonicalKV k = k ∧ canonicalKV (0x20 :: v) = v := by
  intro kv
  have e : kv = k ++ 0x3A :: (0x20 :: v) := by simp [kv]
  refine ⟨?_, ?_, ?_, canonicalKV_id k hk.noLF hk.noCR hk.head hk.last, canonicalKV_blank v hv.noLF hv.noCR hv.head hv.last⟩
  · rw [e]; exact indexByte_append_cons k 0x3A _ hk.noColon
  · have := slice_ok kv 0 k.length (Nat.zero_le _) (by simp [kv])
    simp only [Int.natCast_zero] at this
    rw [this, e]; simp
  · have := sliceFrom_ok kv (k.length + 1) (by simp [kv])
    rw [show ((k.length : Int) + 1) = ((k.length + 1 : Nat) : Int) by simp, this, e]
    simp

/-- `h.add k v` appends when the key is new -/
theorem Header.add_new (h : Header) (k v : Bytes) (hn : k ∉ h.map (·.1)) : h.add k v = h ++ [(k, [v])] := by
  induction h with
  | nil => simp [Header.add]
  | cons x t ih =>
    have hx : x.1 ≠ k := fun e => hn (by simp [e])
    have ht : k ∉ t.map (·.1) := fun m => hn (by simp [m])
    simp [Header.add, hx, ih ht]

def encodeLine (f : Bytes × Bytes) : Bytes := f.1 ++ [0x3A, 0x20] ++ f.2 ++ crlf

theorem encodeFields_cons (f : Bytes × Bytes) (fs : List (Bytes × Bytes)) :
    IpcHub.RtspSpec.encodeFields (f :: fs) = encodeLine f ++ IpcHub.RtspSpec.encodeFields fs := by
  simp [IpcHub.RtspSpec.encodeFields, encodeLine, crlf, IpcHub.RtspSpec.crlf]

/-- every field of a block of well-formed field lines within the line limit -/
def FieldsOK (cfg : Cfg) (fields : List (Bytes × Bytes)) : Prop :=
  ∀ f ∈ fields, fieldNameOK f.1 = true ∧ fieldValueOK f.2 = true ∧
    ∀ m, cfg.maxLine = some m → f.1.length + 2 + f.2.length ≤ m

/-- reading a written header block: the fields are added one by one under their canonical
    names, and the stream is left right behind the blank line -/
theorem readHeaderAux_fields (cfg : Cfg) (fields : List (Bytes × Bytes)) (rest : Bytes) (h0 : Header) (fuel : Nat)
    (hf : fuel > fields.length) (hok : FieldsOK cfg fields) :
    readHeaderAux cfg fuel (IpcHub.RtspSpec.encodeFields fields ++ rest) h0 =
      .ok (fields.foldl (fun h f => h.add (canonKey cfg f.1) f.2) h0, rest) := by
  induction fields generalizing h0 fuel with
  | nil =>
    cases fuel with
    | zero => simp at hf
    | succ fuel =>
      have : IpcHub.RtspSpec.encodeFields [] ++ rest = ([] : Bytes) ++ crlf ++ rest := by
        simp [IpcHub.RtspSpec.encodeFields, crlf, IpcHub.RtspSpec.crlf]
      rw [this, readHeaderAux, readLine_crlf cfg [] rest (by simp) (by intro m _; simp)]
      simp
  | cons f fs ih =>
    cases fuel with
    | zero => simp at hf
    | succ fuel =>
      obtain ⟨hn, hv, hl⟩ := hok f (by simp)
      have hk := nameFacts f.1 hn
      have hvf := valueFacts f.2 hv
      have hnoLF : (0x0A : UInt8) ∉ f.1 ++ [0x3A, 0x20] ++ f.2 := by
        simp [hk.noLF, hvf.noLF]
      have e : IpcHub.RtspSpec.encodeFields (f :: fs) ++ rest =
          (f.1 ++ [0x3A, 0x20] ++ f.2) ++ crlf ++ (IpcHub.RtspSpec.encodeFields fs ++ rest) := by
        rw [encodeFields_cons]; simp [encodeLine]
      have hlim : ∀ m, cfg.maxLine = some m → (f.1 ++ [0x3A, 0x20] ++ f.2).length ≤ m := by
        intro m hm; have := hl m hm; simp; omega
      rw [e, readHeaderAux, readLine_crlf cfg _ _ hnoLF hlim]
      obtain ⟨s1, s2, s3, s4, s5⟩ := header_line_split cfg f.1 f.2 hk hvf
      have hne : (f.1 ++ [0x3A, 0x20] ++ f.2).isEmpty = false := by
        cases hh : f.1 with
        | nil => exact absurd hh hk.ne
        | cons x t => simp
      have hi : ¬ ((f.1.length : Int) < 0) := by omega
      simp only [hne, Bool.false_eq_true, if_false, s1, hi, s2, s3, s4, s5]
      have hkne : f.1.isEmpty = false := by
        cases hh : f.1 with
        | nil => exact absurd hh hk.ne
        | cons x t => simp
      simp only [hkne, Bool.false_eq_true, if_false]
      rw [ih _ fuel (by simp at hf; omega) (fun g hg => hok g (by simp [hg]))]
      simp

/-- with pairwise different canonical names and an empty start, the result is the list of
    fields under their canonical names, in the order written -/
theorem foldl_add_distinct (cfg : Cfg) (fields : List (Bytes × Bytes)) (h0 : Header)
    (hd : (h0.map (·.1) ++ fields.map (fun f => canonKey cfg f.1)).Nodup) :
    fields.foldl (fun h f => h.add (canonKey cfg f.1) f.2) h0 =
      h0 ++ fields.map (fun f => (canonKey cfg f.1, [f.2])) := by
  induction fields generalizing h0 with
  | nil => simp
  | cons f fs ih =>
    simp only [List.foldl_cons, List.map_cons]
    have hnew : canonKey cfg f.1 ∉ h0.map (·.1) := by
      intro m
      have := List.nodup_append.mp hd
      exact this.2.2 _ m _ (by simp) rfl
    rw [Header.add_new h0 _ _ hnew]
    have hd' : ((h0 ++ [(canonKey cfg f.1, [f.2])]).map (·.1) ++ fs.map (fun f => canonKey cfg f.1)).Nodup := by
      simpa using hd
    rw [ih _ hd']
    simp

theorem readHeader_fields (cfg : Cfg) (fields : List (Bytes × Bytes)) (rest : Bytes)
    (hok : FieldsOK cfg fields) (hd : (fields.map (fun f => canonKey cfg f.1)).Nodup) :
    readHeader cfg (IpcHub.RtspSpec.encodeFields fields ++ rest) =
      .ok (fields.map (fun f => (canonKey cfg f.1, [f.2])), rest) := by
  unfold readHeader
  have hlen : (IpcHub.RtspSpec.encodeFields fields ++ rest).length + 1 > fields.length := by
    have : (IpcHub.RtspSpec.encodeFields fields).length ≥ fields.length := by
      induction fields with
      | nil => simp
      | cons f fs ih =>
        rw [encodeFields_cons]
        have := ih (fun g hg => hok g (by simp [hg])) (by simp at hd; exact hd.2)
        simp [encodeLine, crlf]; omega
    simp; omega
  rw [readHeaderAux_fields cfg fields rest [] _ hlen hok, foldl_add_distinct cfg fields [] (by simpa using hd)]
  simp

end IpcHub.RtspWire
