import IpcHub.Lemmas.MediaCache
namespace IpcHub.Media

/-! ### what the cache holds, as a function of the accepted history (C02) -/

inductive PK where
  | nonvideo | fault | vps | sps | pps | key | other
  deriving DecidableEq, Repr

/-- the cache's view of one packet: channel, classifier verdict, and the priority order of CachePack -/
def pktKind (k : NalConsts) (hevc : Bool) (p : Pkt) : PK :=
  if p.ch ≠ 0 then .nonvideo else
  match (if hevc then classify265 k p.payload else classify264 k p.payload) with
  | none => .fault
  | some f =>
    if hevc && f.vps then .vps else if f.sps then .sps else if f.pps then .pps
    else if f.key then .key else .other

/-- the suffix of a list starting at its LAST element satisfying `q` ([] if there is none) -/
def suffixFromLast {α} (q : α → Bool) : List α → List α
  | [] => []
  | x :: xs =>
    match suffixFromLast q xs with
    | [] => if q x then x :: xs else []
    | r :: rs => r :: rs

theorem suffixFromLast_snoc {α} (q : α → Bool) (l : List α) (a : α) :
    suffixFromLast q (l ++ [a]) =
      if q a then [a] else (match suffixFromLast q l with | [] => [] | r :: rs => (r :: rs) ++ [a]) := by
  induction l with
  | nil => simp [suffixFromLast]
  | cons x xs ih =>
    simp only [List.cons_append, suffixFromLast, ih]
    by_cases ha : q a = true
    · simp [ha]
    · simp only [ha, Bool.false_eq_true, if_false]
      cases hs : suffixFromLast q xs with
      | nil => simp; split <;> simp
      | cons r rs => simp

theorem rev_ind {α} {P : List α → Prop} (h0 : P []) (hs : ∀ l a, P l → P (l ++ [a])) : ∀ l, P l := by
  intro l
  have : ∀ r : List α, P r.reverse := by
    intro r
    induction r with
    | nil => exact h0
    | cons a r ih => simpa using hs _ a ih
  simpa using this l.reverse

/-- CachePack, by the kind of the packet -/
def packK (c : Cache) (p : Pkt) : PK → Option (Cache × Bool)
  | .nonvideo => some (c, false)
  | .fault => none
  | .vps => some ({ c with vps := some p }, false)
  | .sps => some ({ c with sps := some p }, false)
  | .pps => some ({ c with pps := some p }, false)
  | .key => if c.cacheGop then some ({ c with gop := [p] }, true) else some (c, true)
  | .other => if c.cacheGop then (if c.gop.length > 0 then some ({ c with gop := c.gop ++ [p] }, false) else some (c, false))
              else some (c, false)

theorem pack_kind (k : NalConsts) (c : Cache) (p : Pkt) :
    c.pack k p = packK c p (pktKind k c.hevc p) := by
  unfold Cache.pack pktKind Cache.classify
  by_cases hch : p.ch ≠ 0
  · simp [hch, packK]
  · simp only [hch, if_false]
    cases hcl : (if c.hevc = true then classify265 k p.payload else classify264 k p.payload) with
    | none => simp [packK]
    | some f =>
      simp only
      by_cases h1 : (c.hevc && f.vps) = true
      · simp [h1, packK]
      · simp only [h1, Bool.false_eq_true, if_false]
        by_cases h2 : f.sps = true
        · simp [h2, packK]
        · simp only [h2, Bool.false_eq_true, if_false]
          by_cases h3 : f.pps = true
          · simp [h3, packK]
          · simp only [h3, Bool.false_eq_true, if_false]
            by_cases h4 : f.key = true
            · simp [h4, packK]
            · have h4' : f.key = false := by simpa using h4
              simp [h4', packK]

/-- the specification of the cache contents -/
structure CacheSpec (k : NalConsts) (hevc gop : Bool) (ps : List Pkt) (c : Cache) : Prop where
  cfg : c.hevc = hevc ∧ c.cacheGop = gop
  vps : c.vps = (ps.filter (fun p => pktKind k hevc p = .vps)).getLast?
  sps : c.sps = (ps.filter (fun p => pktKind k hevc p = .sps)).getLast?
  pps : c.pps = (ps.filter (fun p => pktKind k hevc p = .pps)).getLast?
  gopS : c.gop = if gop then
      suffixFromLast (fun p => pktKind k hevc p = .key)
        (ps.filter (fun p => pktKind k hevc p = .key ∨ pktKind k hevc p = .other))
    else []

theorem getLast?_filter_snoc {α} (q : α → Bool) (l : List α) (a : α) :
    ((l ++ [a]).filter q).getLast? = if q a then some a else (l.filter q).getLast? := by
  rw [List.filter_append]
  by_cases h : q a = true
  · simp [h]
  · simp [h]

theorem cacheSpec_packAll (k : NalConsts) (hevc gop : Bool) (ps : List Pkt) :
    CacheSpec k hevc gop ps (packAll k { hevc := hevc, cacheGop := gop } ps) := by
  induction ps using rev_ind with
  | h0 => exact ⟨⟨rfl, rfl⟩, by simp [packAll], by simp [packAll], by simp [packAll], by simp [packAll, suffixFromLast]⟩
  | hs ps p ih =>
    rw [packAll_append, pack_kind]
    obtain ⟨⟨hh, hg⟩, hv, hs, hp, hgop⟩ := ih
    rw [hh]
    cases hk : pktKind k hevc p with
    | nonvideo =>
      simp only [packK]
      refine ⟨⟨hh, hg⟩, ?_, ?_, ?_, ?_⟩
      · rw [getLast?_filter_snoc]; simp [hk, hv]
      · rw [getLast?_filter_snoc]; simp [hk, hs]
      · rw [getLast?_filter_snoc]; simp [hk, hp]
      · rw [hgop, List.filter_append]; simp [hk]
    | fault =>
      simp only [packK]
      refine ⟨⟨hh, hg⟩, ?_, ?_, ?_, ?_⟩
      · rw [getLast?_filter_snoc]; simp [hk, hv]
      · rw [getLast?_filter_snoc]; simp [hk, hs]
      · rw [getLast?_filter_snoc]; simp [hk, hp]
      · rw [hgop, List.filter_append]; simp [hk]
    | vps =>
      simp only [packK]
      refine ⟨⟨hh, hg⟩, ?_, ?_, ?_, ?_⟩
      · rw [getLast?_filter_snoc]; simp [hk]
      · rw [getLast?_filter_snoc]; simp [hk, hs]
      · rw [getLast?_filter_snoc]; simp [hk, hp]
      · simp only; rw [hgop, List.filter_append]; simp [hk]
    | sps =>
      simp only [packK]
      refine ⟨⟨hh, hg⟩, ?_, ?_, ?_, ?_⟩
      · rw [getLast?_filter_snoc]; simp [hk, hv]
      · rw [getLast?_filter_snoc]; simp [hk]
      · rw [getLast?_filter_snoc]; simp [hk, hp]
      · simp only; rw [hgop, List.filter_append]; simp [hk]
    | pps =>
      simp only [packK]
      refine ⟨⟨hh, hg⟩, ?_, ?_, ?_, ?_⟩
      · rw [getLast?_filter_snoc]; simp [hk, hv]
      · rw [getLast?_filter_snoc]; simp [hk, hs]
      · rw [getLast?_filter_snoc]; simp [hk]
      · simp only; rw [hgop, List.filter_append]; simp [hk]
    | key =>
      simp only [packK]
      rw [hg]
      cases gop with
      | false =>
        simp only [Bool.false_eq_true, if_false]
        refine ⟨⟨hh, by first | exact hg | rfl⟩, ?_, ?_, ?_, ?_⟩
        · rw [getLast?_filter_snoc]; simp [hk, hv]
        · rw [getLast?_filter_snoc]; simp [hk, hs]
        · rw [getLast?_filter_snoc]; simp [hk, hp]
        · simpa using hgop
      | true =>
        simp only [if_true]
        refine ⟨⟨hh, by first | exact hg | rfl⟩, ?_, ?_, ?_, ?_⟩
        · rw [getLast?_filter_snoc]; simp [hk, hv]
        · rw [getLast?_filter_snoc]; simp [hk, hs]
        · rw [getLast?_filter_snoc]; simp [hk, hp]
        · simp only [if_true]
          rw [List.filter_append]
          simp only [hk, List.filter_cons, List.filter_nil, decide_true, Bool.true_or, if_true, true_or]
          rw [suffixFromLast_snoc]; simp [hk]
    | other =>
      simp only [packK]
      rw [hg]
      cases gop with
      | false =>
        simp only [Bool.false_eq_true, if_false]
        refine ⟨⟨hh, by first | exact hg | rfl⟩, ?_, ?_, ?_, ?_⟩
        · rw [getLast?_filter_snoc]; simp [hk, hv]
        · rw [getLast?_filter_snoc]; simp [hk, hs]
        · rw [getLast?_filter_snoc]; simp [hk, hp]
        · simpa using hgop
      | true =>
        simp only [if_true] at hgop ⊢
        have hsn : suffixFromLast (fun p => decide (pktKind k hevc p = PK.key))
            (List.filter (fun p => decide (pktKind k hevc p = PK.key ∨ pktKind k hevc p = PK.other)) (ps ++ [p]))
            = (match (packAll k { hevc := hevc, cacheGop := true } ps).gop with | [] => [] | r :: rs => (r :: rs) ++ [p]) := by
          rw [List.filter_append]
          simp only [hk, List.filter_cons, List.filter_nil, decide_true, Bool.or_true, if_true, or_true]
          rw [suffixFromLast_snoc, ← hgop]; simp only [hk]
          cases (packAll k { hevc := hevc, cacheGop := true } ps).gop <;> simp
        cases hgl : (packAll k { hevc := hevc, cacheGop := true } ps).gop with
        | nil =>
          rw [hgl] at hsn
          simp only [hgl, List.length_nil, gt_iff_lt, Nat.lt_irrefl, if_false]
          refine ⟨⟨hh, by first | exact hg | rfl⟩, ?_, ?_, ?_, ?_⟩
          · rw [getLast?_filter_snoc]; simp [hk, hv]
          · rw [getLast?_filter_snoc]; simp [hk, hs]
          · rw [getLast?_filter_snoc]; simp [hk, hp]
          · simp only [if_true]; rw [hsn]; exact hgl
        | cons r rs =>
          rw [hgl] at hsn
          simp only [hgl, List.length_cons, gt_iff_lt, Nat.zero_lt_succ, if_true]
          refine ⟨⟨hh, by first | exact hg | rfl⟩, ?_, ?_, ?_, ?_⟩
          · rw [getLast?_filter_snoc]; simp [hk, hv]
          · rw [getLast?_filter_snoc]; simp [hk, hs]
          · rw [getLast?_filter_snoc]; simp [hk, hp]
          · simp only [if_true]; rw [hsn]

end IpcHub.Media
