import IpcHub.Lemmas.MediaCache
import IpcHub.Spec.MediaKinds
namespace IpcHub.Media

/-! ### what the cache holds, as a function of the accepted history (C02) -/

/-- the suffix of a list starting at its LAST element satisfying `q` ([] if there is none) -/
def suffixFromLast {α} (q : α → Bool) : List α → List α
  | [] => []
  | x :: xs =>
    match suffixFromLast q xs with
    | [] => if q x then x :: xs else []
    | r :: rs => r :: rs

theorem suffixFromLast_snoc {α} (q : α → Bool) (l : List α) (a : α) :
    suffixFromLast q (l ++ [a]) =
      if q a then [a] else (match suffixFromLast q l with | [] => [] | r :: rs => (r :: rs) ++ [a]) := by
  induction l with
  | nil => simp [suffixFromLast]
  | cons x xs ih =>
    simp only [List.cons_append, suffixFromLast, ih]
    by_cases ha : q a = true
    · simp [ha]
    · simp only [ha, Bool.false_eq_true, if_false]
      cases hs : suffixFromLast q xs with
      | nil => simp; split <;> simp
      | cons r rs => simp

theorem rev_ind {α} {P : List α → Prop} (h0 : P []) (hs : ∀ l a, P l → P (l ++ [a])) : ∀ l, P l := by
  intro l
  have : ∀ r : List α, P r.reverse := by
    intro r
    induction r with
    | nil => exact h0
    | cons a r ih => simpa using hs _ a ih
  simpa using this l.reverse

def runAfter (k : NalConsts) (hevc : Bool) : Option Nat → List Pkt → Option Nat
  | run, [] => run
  | run, p :: ps => runAfter k hevc (nextRun k hevc run p) ps

theorem ann_snoc (k : NalConsts) (hevc : Bool) (run : Option Nat) (ps : List Pkt) (p : Pkt) :
    ann k hevc run (ps ++ [p]) = ann k hevc run ps ++ [(p, effKind k hevc (runAfter k hevc run ps) p)] := by
  induction ps generalizing run with
  | nil => simp [ann, runAfter]
  | cons q qs ih => simp [ann, runAfter, ih]

theorem runAfter_snoc (k : NalConsts) (hevc : Bool) (run : Option Nat) (ps : List Pkt) (p : Pkt) :
    runAfter k hevc run (ps ++ [p]) = nextRun k hevc (runAfter k hevc run ps) p := by
  induction ps generalizing run with
  | nil => simp [runAfter]
  | cons q qs ih => simp [runAfter, ih]

/-- the GOP the specification prescribes for an annotated history: everything of kind key/other
    from the last key-frame START on -/
def gopOf (l : List (Pkt × PK)) : List Pkt :=
  (suffixFromLast (fun x => decide (x.2 = PK.key))
    (l.filter (fun x => decide (x.2 = PK.key ∨ x.2 = PK.other)))).map (·.1)

theorem gopOf_snoc (l : List (Pkt × PK)) (p : Pkt) (kd : PK) :
    gopOf (l ++ [(p, kd)]) =
      (match kd with
       | .key => [p]
       | .other => (match gopOf l with | [] => [] | r :: rs => (r :: rs) ++ [p])
       | _ => gopOf l) := by
  unfold gopOf
  rw [List.filter_append]
  cases kd with
  | key => simp [suffixFromLast_snoc]
  | other =>
    simp only [List.filter_cons, List.filter_nil, decide_true, Bool.or_true, if_true, or_true]
    rw [suffixFromLast_snoc]
    simp only [reduceCtorEq, decide_false, Bool.false_eq_true, if_false]
    cases suffixFromLast (fun x => decide (x.2 = PK.key))
        (List.filter (fun x => decide (x.2 = PK.key ∨ x.2 = PK.other)) l) with
    | nil => simp
    | cons r rs => simp
  | nonvideo => simp
  | fault => simp
  | vps => simp
  | sps => simp
  | pps => simp

/-- CachePack, by the (effective) kind of the packet -/
def packK (c : Cache) (p : Pkt) : PK → Option (Cache × Bool)
  | .nonvideo => some (c, false)
  | .fault => none
  | .vps => some ({ c with vps := some p }, false)
  | .sps => some ({ c with sps := some p }, false)
  | .pps => some ({ c with pps := some p }, false)
  | .key => if c.cacheGop then some ({ c with gop := [p] }, true) else some (c, true)
  | .other => if c.cacheGop then (if c.gop.length > 0 then some ({ c with gop := c.gop ++ [p] }, false) else some (c, false))
              else some (c, false)

theorem pack_kind (k : NalConsts) (c : Cache) (p : Pkt) :
    c.pack k p = (packK c p (effKind k c.hevc c.keyRun p)).map
      (fun r => ({ r.1 with keyRun := nextRun k c.hevc c.keyRun p }, r.2)) := by
  unfold Cache.pack effKind nextRun pktKind Cache.classify Cache.keyFragment isKeyFragment
  by_cases hch : p.ch ≠ 0
  · simp [hch, packK]
  · simp only [hch, if_false]
    cases hcl : (if c.hevc = true then classify265 k p.payload else classify264 k p.payload) with
    | none => simp [packK]
    | some f =>
      simp only
      by_cases h1 : (c.hevc && f.vps) = true
      · simp [h1, packK]
      · simp only [h1, Bool.false_eq_true, if_false]
        by_cases h2 : f.sps = true
        · simp [h2, packK]
        · simp only [h2, Bool.false_eq_true, if_false]
          by_cases h3 : f.pps = true
          · simp [h3, packK]
          · simp only [h3, Bool.false_eq_true, if_false]
            by_cases h4 : f.key = true
            · by_cases hr : c.keyRun = some p.ts
              · cases hg : c.cacheGop
                · simp [h4, hr, packK, hg]
                · by_cases hl : 0 < c.gop.length <;> simp [h4, hr, packK, hg, hl]
              · cases hg : c.cacheGop <;> simp [h4, hr, packK, hg]
            · have h4' : f.key = false := by simpa using h4
              cases hg : c.cacheGop
              · simp [h4', packK, hg]
              · by_cases hl : 0 < c.gop.length <;> simp [h4', packK, hg, hl]

/-- the specification of the cache contents -/
structure CacheSpec (k : NalConsts) (hevc gop : Bool) (ps : List Pkt) (c : Cache) : Prop where
  cfg : c.hevc = hevc ∧ c.cacheGop = gop
  run : c.keyRun = runAfter k hevc none ps
  vps : c.vps = (ps.filter (fun p => pktKind k hevc p = .vps)).getLast?
  sps : c.sps = (ps.filter (fun p => pktKind k hevc p = .sps)).getLast?
  pps : c.pps = (ps.filter (fun p => pktKind k hevc p = .pps)).getLast?
  gopS : c.gop = if gop then gopOf (ann k hevc none ps) else []

theorem getLast?_filter_snoc {α} (q : α → Bool) (l : List α) (a : α) :
    ((l ++ [a]).filter q).getLast? = if q a then some a else (l.filter q).getLast? := by
  rw [List.filter_append]
  by_cases h : q a = true
  · simp [h]
  · simp [h]

theorem cacheSpec_packAll (k : NalConsts) (hevc gop : Bool) (ps : List Pkt) :
    CacheSpec k hevc gop ps (packAll k { hevc := hevc, cacheGop := gop } ps) := by
  induction ps using rev_ind with
  | h0 => exact ⟨⟨rfl, rfl⟩, by simp [packAll, runAfter], by simp [packAll], by simp [packAll], by simp [packAll], by simp [packAll, ann, gopOf, suffixFromLast]⟩
  | hs ps p ih =>
    rw [packAll_append, pack_kind]
    obtain ⟨⟨hh, hg⟩, hrun, hv, hs, hp, hgop⟩ := ih
    rw [hh, hrun]
    have hrun' : nextRun k hevc (runAfter k hevc none ps) p = runAfter k hevc none (ps ++ [p]) := (runAfter_snoc ..).symm
    -- the effective kind differs from the packet's own kind only for a continuing key slice
    cases hk : pktKind k hevc p with
    | nonvideo =>
      have he : effKind k hevc (runAfter k hevc none ps) p = .nonvideo := by simp [effKind, hk]
      simp only [he, packK, Option.map_some]
      refine ⟨⟨hh, hg⟩, hrun', ?_, ?_, ?_, ?_⟩
      · rw [getLast?_filter_snoc]; simp [hk, hv]
      · rw [getLast?_filter_snoc]; simp [hk, hs]
      · rw [getLast?_filter_snoc]; simp [hk, hp]
      · rw [ann_snoc, gopOf_snoc, he]; exact hgop
    | fault =>
      have he : effKind k hevc (runAfter k hevc none ps) p = .fault := by simp [effKind, hk]
      simp only [he, packK, Option.map_none]
      refine ⟨⟨hh, hg⟩, ?_, ?_, ?_, ?_, ?_⟩
      · rw [runAfter_snoc]; simp [nextRun, hk, hrun]
      · rw [getLast?_filter_snoc]; simp [hk, hv]
      · rw [getLast?_filter_snoc]; simp [hk, hs]
      · rw [getLast?_filter_snoc]; simp [hk, hp]
      · rw [ann_snoc, gopOf_snoc, he]; exact hgop
    | vps =>
      have he : effKind k hevc (runAfter k hevc none ps) p = .vps := by simp [effKind, hk]
      simp only [he, packK, Option.map_some]
      refine ⟨⟨hh, hg⟩, hrun', ?_, ?_, ?_, ?_⟩
      · rw [getLast?_filter_snoc]; simp [hk]
      · rw [getLast?_filter_snoc]; simp [hk, hs]
      · rw [getLast?_filter_snoc]; simp [hk, hp]
      · rw [ann_snoc, gopOf_snoc, he]; exact hgop
    | sps =>
      have he : effKind k hevc (runAfter k hevc none ps) p = .sps := by simp [effKind, hk]
      simp only [he, packK, Option.map_some]
      refine ⟨⟨hh, hg⟩, hrun', ?_, ?_, ?_, ?_⟩
      · rw [getLast?_filter_snoc]; simp [hk, hv]
      · rw [getLast?_filter_snoc]; simp [hk]
      · rw [getLast?_filter_snoc]; simp [hk, hp]
      · rw [ann_snoc, gopOf_snoc, he]; exact hgop
    | pps =>
      have he : effKind k hevc (runAfter k hevc none ps) p = .pps := by simp [effKind, hk]
      simp only [he, packK, Option.map_some]
      refine ⟨⟨hh, hg⟩, hrun', ?_, ?_, ?_, ?_⟩
      · rw [getLast?_filter_snoc]; simp [hk, hv]
      · rw [getLast?_filter_snoc]; simp [hk, hs]
      · rw [getLast?_filter_snoc]; simp [hk]
      · rw [ann_snoc, gopOf_snoc, he]; exact hgop
    | key =>
      have hvv : ((ps ++ [p]).filter (fun p => pktKind k hevc p = .vps)).getLast? = (packAll k { hevc := hevc, cacheGop := gop } ps).vps := by
        rw [getLast?_filter_snoc]; simp [hk, hv]
      have hss : ((ps ++ [p]).filter (fun p => pktKind k hevc p = .sps)).getLast? = (packAll k { hevc := hevc, cacheGop := gop } ps).sps := by
        rw [getLast?_filter_snoc]; simp [hk, hs]
      have hpp : ((ps ++ [p]).filter (fun p => pktKind k hevc p = .pps)).getLast? = (packAll k { hevc := hevc, cacheGop := gop } ps).pps := by
        rw [getLast?_filter_snoc]; simp [hk, hp]
      by_cases hr : runAfter k hevc none ps = some p.ts
      · -- a further slice of the running key frame: stored like any packet of the GOP
        have he : effKind k hevc (runAfter k hevc none ps) p = .other := by simp [effKind, hk, hr]
        simp only [he, packK]
        rw [hg]
        cases gop with
        | false =>
          simp only [Bool.false_eq_true, if_false, Option.map_some]
          exact ⟨⟨hh, by first | exact hg | rfl⟩, hrun', hvv.symm, hss.symm, hpp.symm, by simpa using hgop⟩
        | true =>
          simp only [if_true] at hgop ⊢
          have hsn : gopOf (ann k hevc none (ps ++ [p])) =
              (match (packAll k { hevc := hevc, cacheGop := true } ps).gop with | [] => [] | r :: rs => (r :: rs) ++ [p]) := by
            rw [ann_snoc, gopOf_snoc, he, ← hgop]
          cases hgl : (packAll k { hevc := hevc, cacheGop := true } ps).gop with
          | nil =>
            rw [hgl] at hsn
            simp only [List.length_nil, gt_iff_lt, Nat.lt_irrefl, if_false, Option.map_some]
            exact ⟨⟨hh, by first | exact hg | rfl⟩, hrun', hvv.symm, hss.symm, hpp.symm, by simp only [if_true]; rw [hsn]; exact hgl⟩
          | cons r rs =>
            rw [hgl] at hsn
            simp only [List.length_cons, gt_iff_lt, Nat.zero_lt_succ, if_true, Option.map_some]
            exact ⟨⟨hh, by first | exact hg | rfl⟩, hrun', hvv.symm, hss.symm, hpp.symm, by simp only [if_true]; rw [hsn]⟩
      · have he : effKind k hevc (runAfter k hevc none ps) p = .key := by simp [effKind, hk, hr]
        simp only [he, packK]
        rw [hg]
        cases gop with
        | false =>
          simp only [Bool.false_eq_true, if_false, Option.map_some]
          exact ⟨⟨hh, by first | exact hg | rfl⟩, hrun', hvv.symm, hss.symm, hpp.symm, by simpa using hgop⟩
        | true =>
          simp only [if_true, Option.map_some]
          exact ⟨⟨hh, by first | exact hg | rfl⟩, hrun', hvv.symm, hss.symm, hpp.symm, by simp only [if_true]; rw [ann_snoc, gopOf_snoc, he]⟩
    | other =>
      have he : effKind k hevc (runAfter k hevc none ps) p = .other := by simp [effKind, hk]
      have hvv : ((ps ++ [p]).filter (fun p => pktKind k hevc p = .vps)).getLast? = (packAll k { hevc := hevc, cacheGop := gop } ps).vps := by
        rw [getLast?_filter_snoc]; simp [hk, hv]
      have hss : ((ps ++ [p]).filter (fun p => pktKind k hevc p = .sps)).getLast? = (packAll k { hevc := hevc, cacheGop := gop } ps).sps := by
        rw [getLast?_filter_snoc]; simp [hk, hs]
      have hpp : ((ps ++ [p]).filter (fun p => pktKind k hevc p = .pps)).getLast? = (packAll k { hevc := hevc, cacheGop := gop } ps).pps := by
        rw [getLast?_filter_snoc]; simp [hk, hp]
      simp only [he, packK]
      rw [hg]
      cases gop with
      | false =>
        simp only [Bool.false_eq_true, if_false, Option.map_some]
        exact ⟨⟨hh, by first | exact hg | rfl⟩, hrun', hvv.symm, hss.symm, hpp.symm, by simpa using hgop⟩
      | true =>
        simp only [if_true] at hgop ⊢
        have hsn : gopOf (ann k hevc none (ps ++ [p])) =
            (match (packAll k { hevc := hevc, cacheGop := true } ps).gop with | [] => [] | r :: rs => (r :: rs) ++ [p]) := by
          rw [ann_snoc, gopOf_snoc, he, ← hgop]
        cases hgl : (packAll k { hevc := hevc, cacheGop := true } ps).gop with
        | nil =>
          rw [hgl] at hsn
          simp only [List.length_nil, gt_iff_lt, Nat.lt_irrefl, if_false, Option.map_some]
          exact ⟨⟨hh, by first | exact hg | rfl⟩, hrun', hvv.symm, hss.symm, hpp.symm, by simp only [if_true]; rw [hsn]; exact hgl⟩
        | cons r rs =>
          rw [hgl] at hsn
          simp only [List.length_cons, gt_iff_lt, Nat.zero_lt_succ, if_true, Option.map_some]
          exact ⟨⟨hh, by first | exact hg | rfl⟩, hrun', hvv.symm, hss.symm, hpp.symm, by simp only [if_true]; rw [hsn]⟩

/-- is this packet a video slice packet (what the GOP consists of) -/
def isSlice (k : NalConsts) (hevc : Bool) (p : Pkt) : Bool :=
  decide (pktKind k hevc p = .key ∨ pktKind k hevc p = .other)

/-- the key run left by a history is either closed or carries the timestamp of a key-frame slice
    packet of that history (it is opened by key slices only) -/
theorem runAfter_from_key (k : NalConsts) (hevc : Bool) (ps : List Pkt) (t : Nat)
    (h : runAfter k hevc none ps = some t) : ∃ q ∈ ps, pktKind k hevc q = .key ∧ q.ts = t := by
  induction ps using rev_ind generalizing t with
  | h0 => simp [runAfter] at h
  | hs ps p ih =>
    rw [runAfter_snoc] at h
    unfold nextRun at h
    cases hk : pktKind k hevc p <;> simp only [hk] at h
    case key => exact ⟨p, by simp, hk, by simpa using h⟩
    case other =>
      split at h
      · obtain ⟨q, hq, h1, h2⟩ := ih t h
        exact ⟨q, by simp [hq], h1, h2⟩
      · simp at h
    all_goals
      obtain ⟨q, hq, h1, h2⟩ := ih t h
      exact ⟨q, by simp [hq], h1, h2⟩

end IpcHub.Media
