/-
Correctness of the patricia tree model (C19): the tree built by `newTree` from a non-empty
set of byte strings matches, in prefix mode, exactly the inputs that start with one of the
strings and, in exact mode, exactly the members of the set.  Core Lean only.
-/
import IpcHub.Model.Patricia

namespace IpcHub.Patricia

/-! ### longest common prefix -/

theorem lcp2_prefix_left (a b : Bytes) : lcp2 a b <+: a := by
  induction a generalizing b with
  | nil => simp [lcp2]
  | cons x xs ih =>
    cases b with
    | nil => simp [lcp2]
    | cons y ys =>
      simp only [lcp2]
      split
      · exact List.cons_prefix_cons.mpr ⟨rfl, ih ys⟩
      · exact List.nil_prefix

theorem lcp2_prefix_right (a b : Bytes) : lcp2 a b <+: b := by
  induction a generalizing b with
  | nil => simp [lcp2]
  | cons x xs ih =>
    cases b with
    | nil => simp [lcp2]
    | cons y ys =>
      simp only [lcp2]
      split
      · next h => subst h; exact List.cons_prefix_cons.mpr ⟨rfl, ih ys⟩
      · exact List.nil_prefix

theorem lcpAll_prefix (S : List Bytes) (s : Bytes) (hs : s ∈ S) : lcpAll S <+: s := by
  induction S with
  | nil => cases hs
  | cons x xs ih =>
    cases xs with
    | nil =>
      simp only [List.mem_singleton] at hs
      subst hs
      simp [lcpAll]
    | cons y ys =>
      simp only [lcpAll]
      rcases List.mem_cons.mp hs with h | h
      · subst h; exact lcp2_prefix_left _ _
      · exact List.IsPrefix.trans (lcp2_prefix_right _ _) (ih h)

theorem splitPrefix_eq (S : List Bytes) :
    splitPrefix S = (lcpAll S, S.map (·.drop (lcpAll S).length)) := by
  unfold splitPrefix
  split
  · simp [lcpAll]
  · next rest =>
    cases rest with
    | nil => simp [lcpAll]
    | cons y ys => simp [lcpAll, lcp2]
  · simp [lcpAll]
  · rfl

/-! ### maxLen -/

theorem foldl_max_le (S : List Bytes) (m n : Nat) :
    S.foldl (fun m s => max m s.length) m ≤ n ↔ m ≤ n ∧ ∀ s ∈ S, s.length ≤ n := by
  induction S generalizing m with
  | nil => simp
  | cons x xs ih =>
    simp only [List.foldl_cons, ih, List.mem_cons, forall_eq_or_imp, Nat.max_le]
    constructor
    · rintro ⟨⟨a, b⟩, c⟩; exact ⟨a, b, c⟩
    · rintro ⟨a, b, c⟩; exact ⟨⟨a, b⟩, c⟩

theorem maxLen_le_iff (S : List Bytes) (n : Nat) :
    maxLen S ≤ n ↔ ∀ s ∈ S, s.length ≤ n := by
  simp [maxLen, foldl_max_le]

theorem length_le_maxLen {S : List Bytes} {s : Bytes} (hs : s ∈ S) : s.length ≤ maxLen S :=
  (maxLen_le_iff S (maxLen S)).mp (Nat.le_refl _) s hs

/-! ### group -/

theorem mem_group (c : UInt8) (rests : List Bytes) (t : Bytes) :
    t ∈ group c rests ↔ (c :: t) ∈ rests := by
  unfold group
  simp only [List.mem_filterMap]
  constructor
  · rintro ⟨r, hr, h⟩
    cases r with
    | nil => simp at h
    | cons c' t' =>
      simp only at h
      split at h
      · next hc => subst hc; cases h; exact hr
      · cases h
  · intro h
    exact ⟨c :: t, h, by simp⟩

/-! ### the specification -/

/-- what `matchNode` must compute for the set `S` -/
def spec (S : List Bytes) (b : Bytes) (prefixMode : Bool) : Bool :=
  if prefixMode then S.any (fun s => s.isPrefixOf b) else S.contains b

theorem spec_true_iff (S : List Bytes) (b : Bytes) (m : Bool) :
    spec S b m = true ↔ ∃ s ∈ S, if m then s <+: b else s = b := by
  unfold spec
  cases m
  · simp
  · simp

/-! ### matchNode on a present node -/

theorem matchNode_mk_not_prefix (p : Bytes) (t : Bool) (next : UInt8 → Node) (b : Bytes)
    (m : Bool) (h : ¬ p <+: b) : matchNode (.mk p t next) b m = false := by
  have hp : 0 < p.length := by
    cases p with
    | nil => exact absurd List.nil_prefix h
    | cons _ _ => simp
  have hne : (b.take (if p.length > b.length then b.length else p.length) != p) = true := by
    rw [bne_iff_ne]
    intro heq
    apply h
    rw [← heq]
    exact List.take_prefix _ _
  simp [matchNode, hp, hne]

theorem matchNode_mk_append (p : Bytes) (t : Bool) (next : UInt8 → Node) (b' : Bytes)
    (m : Bool) :
    matchNode (.mk p t next) (p ++ b') m =
      if t && (m || b'.isEmpty) then true
      else match b' with
        | [] => false
        | c :: r => matchNode (next c) r m := by
  have hl : (if p.length > (p ++ b').length then (p ++ b').length else p.length) = p.length := by
    have : ¬ p.length > (p ++ b').length := by simp
    rw [if_neg this]
  rw [matchNode]
  simp only [hl]
  cases b' with
  | nil => simp
  | cons c r =>
    have : ¬ (p.length + (r.length + 1) ≤ p.length) := by omega
    simp [this]

/-! ### the specification, structurally -/

theorem spec_nil (b : Bytes) (m : Bool) : spec [] b m = false := by
  cases m <;> simp [spec]

/-- strip a prefix common to all strings -/
theorem spec_append (S : List Bytes) (p b' : Bytes) (m : Bool) (hp : ∀ s ∈ S, p <+: s) :
    spec S (p ++ b') m = spec (S.map (·.drop p.length)) b' m := by
  rw [Bool.eq_iff_iff, spec_true_iff, spec_true_iff]
  constructor
  · rintro ⟨s, hs, h⟩
    obtain ⟨r, rfl⟩ := hp s hs
    refine ⟨r, List.mem_map.mpr ⟨p ++ r, hs, by simp⟩, ?_⟩
    cases m
    · simpa using h
    · simpa [List.prefix_append_right_inj] using h
  · rintro ⟨r, hr, h⟩
    obtain ⟨s, hs, rfl⟩ := List.mem_map.mp hr
    obtain ⟨r, rfl⟩ := hp s hs
    refine ⟨p ++ r, hs, ?_⟩
    cases m
    · simpa using h
    · simpa [List.prefix_append_right_inj] using h

/-- one step of the trie walk on the specification side -/
theorem spec_step (rests : List Bytes) (b' : Bytes) (m : Bool) :
    spec rests b' m =
      if rests.any (·.isEmpty) && (m || b'.isEmpty) then true
      else match b' with
        | [] => false
        | c :: r => spec (group c rests) r m := by
  cases b' with
  | nil =>
    rw [Bool.eq_iff_iff, spec_true_iff]
    cases m <;> simp [List.isEmpty_iff]
  | cons c r =>
    by_cases hany : rests.any (·.isEmpty) = true
    · cases m
      · simp only [hany, List.isEmpty_cons, Bool.or_false, Bool.and_false, Bool.false_eq_true,
          if_false]
        rw [Bool.eq_iff_iff, spec_true_iff, spec_true_iff]
        simp [mem_group]
      · simp only [hany, Bool.true_or, Bool.and_true, if_true]
        rw [spec_true_iff]
        obtain ⟨x, hx, hx'⟩ := List.any_eq_true.mp hany
        refine ⟨x, hx, ?_⟩
        simp [List.isEmpty_iff.mp hx']
    · simp only [hany, Bool.false_and, Bool.false_eq_true, if_false]
      rw [Bool.eq_iff_iff, spec_true_iff, spec_true_iff]
      cases m
      · simp [mem_group]
      · simp only [if_true]
        constructor
        · rintro ⟨x, hx, hpre⟩
          cases x with
          | nil =>
            exact absurd (List.any_eq_true.mpr ⟨[], hx, rfl⟩) hany
          | cons c' t =>
            obtain ⟨rfl, ht⟩ := List.cons_prefix_cons.mp hpre
            exact ⟨t, (mem_group _ _ _).mpr hx, ht⟩
        · rintro ⟨t, ht, hpre⟩
          exact ⟨c :: t, (mem_group _ _ _).mp ht, List.cons_prefix_cons.mpr ⟨rfl, hpre⟩⟩

/-! ### newNode -/

theorem newNode_single (fuel : Nat) (s : Bytes) :
    newNode fuel [s] = .mk s true (fun _ => .absent) := by
  rw [newNode]

theorem newNode_succ (fuel : Nat) (x y : Bytes) (ys : List Bytes) :
    newNode (fuel + 1) (x :: y :: ys) =
      .mk (lcpAll (x :: y :: ys))
        (((x :: y :: ys).map (·.drop (lcpAll (x :: y :: ys)).length)).any (·.isEmpty))
        (fun c =>
          if (group c ((x :: y :: ys).map (·.drop (lcpAll (x :: y :: ys)).length))).isEmpty
          then .absent
          else newNode fuel
            (group c ((x :: y :: ys).map (·.drop (lcpAll (x :: y :: ys)).length)))) := by
  rw [newNode]
  simp only [splitPrefix_eq]

/-- the strings below a child are strictly shorter -/
theorem maxLen_group_lt (S : List Bytes) (n : Nat) (c : UInt8)
    (hg : group c (S.map (·.drop n)) ≠ []) :
    maxLen (group c (S.map (·.drop n))) < maxLen S := by
  have hle : ∀ t ∈ group c (S.map (·.drop n)), t.length + 1 ≤ maxLen S := by
    intro t ht
    obtain ⟨s, hs, hst⟩ := List.mem_map.mp ((mem_group _ _ _).mp ht)
    have h1 := length_le_maxLen hs
    have h2 : (List.drop n s).length = (c :: t).length := by rw [hst]
    simp only [List.length_drop, List.length_cons] at h2
    omega
  obtain ⟨t, ht⟩ := List.exists_mem_of_ne_nil _ hg
  have h0 := hle t ht
  have : maxLen (group c (S.map (·.drop n))) ≤ maxLen S - 1 := by
    rw [maxLen_le_iff]
    intro t' ht'
    have := hle t' ht'
    omega
  omega

/-! ### the main theorem, both modes at once -/

theorem matchNode_newNode (fuel : Nat) (S : List Bytes) (hS : S ≠ []) (hf : maxLen S < fuel)
    (b : Bytes) (m : Bool) : matchNode (newNode fuel S) b m = spec S b m := by
  induction fuel generalizing S b with
  | zero => omega
  | succ fuel ih =>
    match S, hS with
    | [s], _ =>
      rw [newNode_single]
      by_cases hp : s <+: b
      · obtain ⟨b', rfl⟩ := hp
        rw [matchNode_mk_append, spec_append [s] s b' m (by simp), spec_step]
        simp only [List.map_cons, List.map_nil, List.drop_length, List.any_cons, List.isEmpty_nil,
          List.any_nil, Bool.or_false, Bool.true_and]
        cases b' with
        | nil => rfl
        | cons c r => simp [matchNode, group, spec_nil]
      · rw [matchNode_mk_not_prefix _ _ _ _ _ hp]
        symm
        rw [Bool.eq_false_iff]
        intro h
        obtain ⟨s', hs', h'⟩ := (spec_true_iff _ _ _).mp h
        simp only [List.mem_singleton] at hs'
        subst hs'
        cases m
        · simp only [Bool.false_eq_true, if_false] at h'; subst h'; exact hp (List.prefix_refl _)
        · simp only [if_true] at h'; exact hp h'
    | x :: y :: ys, _ =>
      rw [newNode_succ]
      generalize hSd : x :: y :: ys = S at *
      have hpre : ∀ s ∈ S, lcpAll S <+: s := lcpAll_prefix S
      by_cases hp : lcpAll S <+: b
      · obtain ⟨b', rfl⟩ := hp
        rw [matchNode_mk_append, spec_append S _ b' m hpre, spec_step]
        cases b' with
        | nil => rfl
        | cons c r =>
          simp only
          by_cases hg : group c (S.map (·.drop (lcpAll S).length)) = []
          · simp [hg, matchNode, spec_nil]
          · have hne : (group c (S.map (·.drop (lcpAll S).length))).isEmpty = false := by
              simpa [List.isEmpty_iff] using hg
            simp only [hne, Bool.false_eq_true, if_false]
            rw [ih _ hg (by have := maxLen_group_lt S _ c hg; omega)]
      · rw [matchNode_mk_not_prefix _ _ _ _ _ hp]
        symm
        rw [Bool.eq_false_iff]
        intro h
        obtain ⟨s, hs, h⟩ := (spec_true_iff _ _ _).mp h
        cases m
        · simp only [Bool.false_eq_true, if_false] at h; subst h; exact hp (hpre _ hs)
        · simp only [if_true] at h; exact hp ((hpre _ hs).trans h)

/-! ### truncation of the input to `maxDepth` bytes -/

theorem spec_take (S : List Bytes) (b : Bytes) (m : Bool) :
    spec S (b.take (maxLen S + 1)) m = spec S b m := by
  rw [Bool.eq_iff_iff, spec_true_iff, spec_true_iff]
  cases m
  · simp only [Bool.false_eq_true, if_false]
    constructor
    · rintro ⟨s, hs, h⟩
      have h1 := length_le_maxLen hs
      have h2 : s.length = (b.take (maxLen S + 1)).length := by rw [h]
      rw [List.length_take] at h2
      have : b.take (maxLen S + 1) = b := List.take_of_length_le (by omega)
      exact ⟨s, hs, by rw [h, this]⟩
    · rintro ⟨s, hs, rfl⟩
      have h1 := length_le_maxLen hs
      exact ⟨s, hs, (List.take_of_length_le (by omega)).symm⟩
  · simp only [if_true]
    constructor
    · rintro ⟨s, hs, h⟩
      exact ⟨s, hs, h.trans (List.take_prefix _ _)⟩
    · rintro ⟨s, hs, h⟩
      have h1 := length_le_maxLen hs
      refine ⟨s, hs, ?_⟩
      rw [List.prefix_take_iff]
      exact ⟨h, by omega⟩

/-! ### the required statements -/

/-- the node-level statements the two below follow from (any fuel above the longest string) -/
theorem matchNode_newNode_prefix (fuel : Nat) (S : List Bytes) (hS : S ≠ [])
    (hf : maxLen S < fuel) (b : Bytes) :
    matchNode (newNode fuel S) b true = S.any (fun s => s.isPrefixOf b) := by
  rw [matchNode_newNode fuel S hS hf]; rfl

theorem matchNode_newNode_exact (fuel : Nat) (S : List Bytes) (hS : S ≠ [])
    (hf : maxLen S < fuel) (b : Bytes) :
    matchNode (newNode fuel S) b false = S.contains b := by
  rw [matchNode_newNode fuel S hS hf]; rfl

/-- prefix mode: the tree built from a non-empty string set matches exactly the inputs that
    start with one of the strings (for every set, every input, no bound) -/
theorem matchInput_prefix (S : List Bytes) (hS : S ≠ []) (b : Bytes) :
    (newTree S).matchInput b true = S.any (fun s => s.isPrefixOf b) := by
  show matchNode (newNode (maxLen S + 1) S) (b.take (maxLen S + 1)) true = _
  rw [matchNode_newNode _ S hS (Nat.lt_succ_self _), spec_take]; rfl

/-- exact mode: it matches exactly the members of the set -/
theorem matchInput_exact (S : List Bytes) (hS : S ≠ []) (b : Bytes) :
    (newTree S).matchInput b false = S.contains b := by
  show matchNode (newNode (maxLen S + 1) S) (b.take (maxLen S + 1)) false = _
  rw [matchNode_newNode _ S hS (Nat.lt_succ_self _), spec_take]; rfl

end IpcHub.Patricia
