/-
C11 helper lemmas, part C: every entry-point decision function of the model is judged `ok` by the
reference monitor, in any model state that is related to the monitor state (`Rel`).
-/
import IpcHub.Lemmas.AuthUsers
namespace IpcHub.Auth
open IpcHub.PathMatch IpcHub.PatternLang IpcHub.Monitor

def actOf : Right → Action
  | .pull => .pull
  | .push => .push

/-- the model decides a fresh user's permission like the documented pattern language (C16) -/
theorem any_initMatchers_eq_spec (pm : PathMatch.Cfg) (h : pm.pathTrims = false) (hd : pm.isSpace ';' = false)
    (right : List Char) (admin : Bool) (path : List Char) :
    (initMatchers pm (effectiveRight admin right)).any (fun m => m.matches pm (trim pm.isSpace path))
      = specPermits pm.lower pm.isSpace right admin path := by
  have : implPermits pm right admin path = specPermits pm.lower pm.isSpace right admin path := by
    unfold implPermits specPermits effectiveRight
    rw [initMatchers_eq pm hd, List.any_map]
    apply any_congr_mem
    intro pat hp
    exact matches_eq pm h pat _ (patterns_trimmed _ _ _ hp)
  simpa [implPermits] using this

/-- the relation between a model world and the monitor's state that the decision theorems need -/
structure Rel (cfg : Cfg) (e : Env) (w : World) (sw : SWorld) : Prop where
  authOn : w.authOn = sw.authOn
  perm : ∀ n p (r : Right),
    (match getUser cfg w.users n with
      | none => false
      | some u => u.validatePermission cfg p r) = allowed e sw.hist n (actOf r) p
  admin : ∀ n,
    (match getUser cfg w.users n with
      | none => false
      | some u => u.admin) = allowed e sw.hist n .admin []
  pw : ∀ n, (getUser cfg w.users n).map (·.password) = (lastSaved e.lower sw.hist n).map (·.password)
  tok : ∀ t, (accessCheck w.toks t w.now).2 = validAccess sw.grants sw.now t

/-- the parts of `Rel` that concern users survive any change of the token table -/
theorem Rel.of_users_eq {cfg : Cfg} {e : Env} {w w' : World} {sw : SWorld} (r : Rel cfg e w sw)
    (hu : w'.users = w.users) (ha : w'.authOn = w.authOn) :
    (∀ n p (rt : Right), (match getUser cfg w'.users n with
        | none => false
        | some u => u.validatePermission cfg p rt) = allowed e sw.hist n (actOf rt) p) ∧
    (∀ n, (match getUser cfg w'.users n with
        | none => false
        | some u => u.admin) = allowed e sw.hist n .admin []) ∧ w'.authOn = sw.authOn := by
  rw [hu, ha]; exact ⟨r.perm, r.admin, r.authOn⟩

theorem authInterceptor_spec {cfg : Cfg} {e : Env} {w : World} {sw : SWorld} (r : Rel cfg e w sw) (tok : TokRef) :
    (authInterceptor w tok).2 = who sw tok ∧ (authInterceptor w tok).1.users = w.users ∧
    (authInterceptor w tok).1.streams = w.streams ∧ (authInterceptor w tok).1.authOn = w.authOn := by
  cases tok with
  | none => simp [authInterceptor, who]
  | some t =>
    have ht := r.tok t
    simp only [authInterceptor, who]
    cases hac : accessCheck w.toks t w.now with
    | mk tt res =>
      rw [hac] at ht
      exact ⟨ht, trivial, trivial, trivial⟩

/-- a stream found in the registry under `path` has the canonical form of `path` as its key -/
theorem getOrCreate_key (cfg : Cfg) (w : World) (p : List Char) (s : StreamEnt)
    (h : w.getOrCreate cfg p = some s) : s.key = canonicalPath cfg p := by
  unfold World.getOrCreate World.stream? at h
  have := List.find?_some h
  simpa using this

section
variable (cfg : Cfg) (e : Env) (hcanon : e.canon = canonicalPath cfg)
include hcanon

/-- whatever the dispatcher serves is the resource the URL names -/
theorem streamsDispatch_serve (w : World) (path : List Char) (k : Kind) (key : List Char)
    (h : streamsDispatch cfg w path = .serve k key) : resourceOf e path = some key := by
  unfold streamsDispatch at h
  unfold resourceOf
  cases hx : extractStreamPathAndExt path with
  | none => rw [hx] at h; simp at h
  | some se =>
    obtain ⟨sp, ext⟩ := se
    rw [hx] at h
    simp only at h ⊢
    by_cases h1 : ext = ".flv".toList
    · have hts : ¬ ext = ".ts".toList := by rw [h1]; decide
      simp only [h1, if_true] at h
      simp only [h1] at hts
      rw [h1]; simp only [hts, if_false]
      cases hg : w.getOrCreate cfg sp with
      | none => rw [hg] at h; simp at h
      | some s =>
        rw [hg] at h
        simp only [HttpOut.serve.injEq] at h
        rw [hcanon, ← getOrCreate_key cfg w sp s hg, h.2]
    · simp only [h1, if_false] at h
      by_cases h2 : ext = ".m3u8".toList
      · have hts : ¬ ext = ".ts".toList := by rw [h2]; decide
        simp only [h2, if_true] at h
        simp only [h2] at hts
        rw [h2]; simp only [hts, if_false]
        cases hg : w.getOrCreate cfg sp with
        | none => rw [hg] at h; simp at h
        | some s =>
          rw [hg] at h
          simp only [HttpOut.serve.injEq] at h
          rw [hcanon, ← getOrCreate_key cfg w sp s hg, h.2]
      · simp only [h2, if_false] at h
        by_cases h3 : ext = ".ts".toList
        · simp only [h3, if_true] at h ⊢
          cases hs : splitLastSlash sp with
          | none => rw [hs] at h; simp at h
          | some ds =>
            obtain ⟨dir, seqStr⟩ := ds
            rw [hs] at h
            simp only at h ⊢
            cases ha : atoi seqStr with
            | none => rw [ha] at h; simp at h
            | some seq =>
              rw [ha] at h
              simp only at h
              cases hg : w.getOrCreate cfg dir with
              | none => rw [hg] at h; simp at h
              | some s =>
                rw [hg] at h
                simp only at h
                by_cases hc : s.segs.contains seq = true
                · simp only [hc, if_true, HttpOut.serve.injEq] at h
                  rw [hcanon, ← getOrCreate_key cfg w dir s hg, h.2]
                · have hc' : s.segs.contains seq = false := by simpa using hc
                  rw [hc'] at h
                  simp at h
        · exfalso
          simp only [h3, if_false] at h
          cases h

omit hcanon in
/-- with both repairs in place the interceptor validates exactly the resource the URL names -/
theorem permPath_resource (hts : cfg.tsPermDir = true) (hpc : cfg.permCanonical = true) (hcanon : e.canon = canonicalPath cfg)
    (path sp ext key : List Char)
    (hx : extractStreamPathAndExt path = some (sp, ext)) (hres : resourceOf e path = some key) :
    permPath cfg sp ext = key := by
  unfold resourceOf at hres
  rw [hx] at hres
  simp only at hres
  unfold permPath
  simp only [hts, hpc, Bool.true_and, if_true]
  by_cases h3 : ext = ".ts".toList
  · simp only [h3, if_true, decide_true] at hres ⊢
    cases hs : splitLastSlash sp with
    | none => rw [hs] at hres; simp at hres
    | some ds =>
      obtain ⟨dir, seqStr⟩ := ds
      rw [hs] at hres
      simp only [Option.some.injEq] at hres
      simp only [← hres, hcanon]
  · simp only [h3, if_false, decide_false, Option.some.injEq] at hres ⊢
    simp [← hres, hcanon, h3]

end

/-- the dispatcher never answers 401 / 403 itself -/
theorem streamsDispatch_cases (cfg : Cfg) (w : World) (path : List Char) :
    (∃ k key, streamsDispatch cfg w path = .serve k key) ∨ (∃ c, streamsDispatch cfg w path = .noMedia c) ∨
      streamsDispatch cfg w path = .panic := by
  unfold streamsDispatch
  repeat' split
  all_goals simp

/-- HTTP streams: whatever `httpStream` does is accepted by the monitor -/
theorem httpStream_ok (cfg : Cfg) (e : Env) (hcanon : e.canon = canonicalPath cfg)
    (hts : cfg.tsPermDir = true) (hpc : cfg.permCanonical = true)
    (w : World) (sw : SWorld) (r : Rel cfg e w sw) (m : HMethod) (path : List Char) (tok : TokRef) :
    judgeHttp e sw path tok (httpStream cfg w m path tok).2 = .ok := by
  unfold judgeHttp
  cases hon : sw.authOn with
  | false => simp
  | true =>
  simp only [Bool.not_true, Bool.false_eq_true, if_false]
  have hwon : w.authOn = true := by rw [r.authOn]; exact hon
  unfold httpStream
  by_cases hred : muxRedirects m path = true
  · simp [hred]
  simp only [hred, Bool.false_eq_true, if_false]
  unfold streamInterceptor
  by_cases hxd : pathBase path = "crossdomain.xml".toList
  · simp [hxd]
  simp only [hxd, if_false, hwon, Bool.not_true, Bool.false_eq_true]
  obtain ⟨hwho, husers, hstreams, hauth⟩ := authInterceptor_spec r tok
  cases hai : authInterceptor w tok with
  | mk w' res =>
    rw [hai] at hwho husers hstreams hauth
    simp only at hwho husers hstreams hauth
    cases res with
    | none =>
      simp only
      -- 401: nobody is authenticated
      rw [← hwho]
      cases resourceOf e path <;> simp [mayPull]
    | some name =>
      simp only
      unfold permissionInterceptor
      cases hx : extractStreamPathAndExt path with
      | none => simp
      | some se =>
        obtain ⟨sp, ext⟩ := se
        simp only
        have hperm := r.perm name (permPath cfg sp ext) .pull
        rw [← husers] at hperm
        cases hgu : getUser cfg w'.users name with
        | none =>
          rw [hgu] at hperm
          simp only at hperm ⊢
          cases hres : resourceOf e path with
          | none => simp
          | some key =>
            have hpp := permPath_resource cfg e hts hpc hcanon path sp ext key hx hres
            rw [hpp] at hperm
            simp [mayPull, ← hwho, actOf] at hperm ⊢
            simp [← hperm]
        | some u =>
          rw [hgu] at hperm
          simp only at hperm ⊢
          cases hv : u.validatePermission cfg (permPath cfg sp ext) .pull with
          | false =>
            rw [hv] at hperm
            simp only
            cases hres : resourceOf e path with
            | none => simp
            | some key =>
              have hpp := permPath_resource cfg e hts hpc hcanon path sp ext key hx hres
              rw [hpp] at hperm
              simp [mayPull, ← hwho, actOf] at hperm ⊢
              simp [← hperm]
          | true =>
            rw [hv] at hperm
            simp only
            rcases streamsDispatch_cases cfg w' path with ⟨k, key, hd⟩ | ⟨c, hd⟩ | hd
            · rw [hd]
              have hres := streamsDispatch_serve cfg e hcanon w' path k key hd
              have hpp := permPath_resource cfg e hts hpc hcanon path sp ext key hx hres
              rw [hpp] at hperm
              simp [mayPull, ← hwho, actOf] at hperm ⊢
              simp [← hperm]
            · rw [hd]
            · rw [hd]

/-- /api/: whatever `apiGate` does is accepted by the monitor -/
theorem apiGate_ok (cfg : Cfg) (e : Env) (hlower : e.lower = cfg.pm.lower)
    (hopen : e.openPaths = cfg.noAuth) (hpre : e.streamQueryPrefix = cfg.streamQueryPrefix)
    (w : World) (sw : SWorld) (r : Rel cfg e w sw) (m : HMethod) (isGet : Bool) (path : List Char) (tok : TokRef) :
    judgeApi e sw isGet path tok (apiGate cfg w m isGet path tok).2 = .ok := by
  unfold apiGate
  by_cases hred : muxRedirects m path = true
  · simp [hred, judgeApi]
  simp only [hred, Bool.false_eq_true, if_false]
  by_cases hxd : pathBase path = "crossdomain.xml".toList
  · simp [hxd, judgeApi]
  simp only [hxd, if_false]
  have hop : isOpenPath e path = true ↔ lowerStr cfg path ∈ cfg.noAuth := by
    simp [isOpenPath, hopen, hlower, lowerStr]
  by_cases hna : lowerStr cfg path ∈ cfg.noAuth
  · have hc : cfg.noAuth.contains (lowerStr cfg path) = true := by simpa using hna
    have ho : isOpenPath e path = true := hop.mpr hna
    simp [hna, judgeApi, ho]
  have hc : cfg.noAuth.contains (lowerStr cfg path) = false := by simpa using hna
  simp only [hc, Bool.false_eq_true, if_false]
  have hop' : isOpenPath e path = false := by
    cases h : isOpenPath e path with
    | false => rfl
    | true => exact absurd (hop.mp h) hna
  obtain ⟨hwho, husers, _, _⟩ := authInterceptor_spec r tok
  cases hai : authInterceptor w tok with
  | mk w' res =>
    rw [hai] at hwho husers
    simp only at hwho husers
    cases res with
    | none =>
      simp only
      simp [judgeApi, hop', ← hwho]
    | some name =>
      simp only
      have hadm := r.admin name
      rw [← husers] at hadm
      unfold roleInterceptor
      by_cases hq : (isGet && isPrefix cfg.streamQueryPrefix path) = true
      · simp only [hq, if_true]
        simp [judgeApi, ← hwho, isStreamQuery, hpre, hq]
      · simp only [hq, Bool.false_eq_true, if_false]
        have hq' : isStreamQuery e isGet path = false := by
          simp only [isStreamQuery, hpre]; simpa using hq
        cases hgu : getUser cfg w'.users name with
        | none =>
          rw [hgu] at hadm
          simp only at hadm ⊢
          simp [judgeApi, hop', ← hwho, hq', isAdmin, ← hadm]
        | some u =>
          rw [hgu] at hadm
          simp only at hadm ⊢
          by_cases hua : u.admin = true
          · rw [hua] at hadm
            simp [hua, judgeApi, ← hwho, hq', isAdmin, ← hadm]
          · have hua' : u.admin = false := by simpa using hua
            rw [hua'] at hadm
            simp [hua', judgeApi, hop', ← hwho, hq', isAdmin, ← hadm]

/-! ## the client's own `user_name_in_token` header has no influence once the interceptor replaces it -/

theorem streamInterceptorH_eq (cfg : Cfg) (h : cfg.identityReplaces = true) (w : World) (path : List Char)
    (tok : TokRef) (hdr : List (List Char)) :
    streamInterceptorH cfg w path tok hdr = streamInterceptor cfg w path tok := by
  unfold streamInterceptorH streamInterceptor
  simp only [identitySeen_replaces cfg h]

theorem httpStreamH_eq (cfg : Cfg) (h : cfg.identityReplaces = true) (w : World) (m : HMethod) (path : List Char)
    (tok : TokRef) (hdr : List (List Char)) :
    httpStreamH cfg w m path tok hdr = httpStream cfg w m path tok := by
  unfold httpStreamH httpStream
  rw [streamInterceptorH_eq cfg h]

theorem apiGateH_eq (cfg : Cfg) (h : cfg.identityReplaces = true) (w : World) (m : HMethod) (isGet : Bool)
    (path : List Char) (tok : TokRef) (hdr : List (List Char)) :
    apiGateH cfg w m isGet path tok hdr = apiGate cfg w m isGet path tok := by
  unfold apiGateH apiGate
  simp only [identitySeen_replaces cfg h]

theorem wsUpgradeH_eq (cfg : Cfg) (h : cfg.identityReplaces = true) (w : World) (path : List Char)
    (tok : TokRef) (sub : WsSub) (hdr : List (List Char)) :
    wsUpgradeH cfg w path tok sub hdr = wsUpgrade cfg w path tok sub := by
  unfold wsUpgradeH wsUpgrade
  rw [streamInterceptorH_eq cfg h]

/-- without a client header the two agree whatever the interceptor does -/
theorem httpStreamH_nil (cfg : Cfg) (w : World) (m : HMethod) (path : List Char) (tok : TokRef) :
    httpStreamH cfg w m path tok [] = httpStream cfg w m path tok := by
  unfold httpStreamH httpStream streamInterceptorH streamInterceptor
  simp only [identitySeen_nil]

end IpcHub.Auth
