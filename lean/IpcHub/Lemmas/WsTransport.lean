/-
Lemmas about the model of the WebSocket transport's `Read` (Model/WsTransport.lean): when the
message reader is kept until it reports `io.EOF`, reading loses, duplicates and reorders nothing,
for every cut of the stream into messages and pieces and every sequence of buffer lengths.
-/
import IpcHub.Model.WsTransport
namespace IpcHub.WsTransport

local notation "Bytes" => List UInt8

theorem readCur_lossless (cfg : Cfg) (h : cfg.dropOnlyAtEOF = true) (cap : Nat) (m : Msg) (rest : List Msg) :
    (readCur cfg cap m rest).1 ++ pending (readCur cfg cap m rest).2 = m.flatten ++ (rest.map List.flatten).flatten := by
  cases m with
  | nil => simp [readCur, pending]
  | cons c cs =>
    by_cases hle : c.length ≤ cap
    · simp [readCur, hle, h, pending]
    · simp only [readCur, hle, if_false, pending, Option.getD_some, List.flatten_cons]
      rw [← List.append_assoc, ← List.append_assoc, List.take_append_drop]

theorem read_lossless (cfg : Cfg) (h : cfg.dropOnlyAtEOF = true) (cap : Nat) (s : St) (b : Bytes) (s' : St)
    (hr : read cfg cap s = some (b, s')) : b ++ pending s' = pending s := by
  obtain ⟨cur, rest⟩ := s
  cases cur with
  | some m =>
    simp only [read, Option.some.injEq] at hr
    have := readCur_lossless cfg h cap m rest
    rw [hr] at this
    simpa [pending] using this
  | none =>
    cases rest with
    | nil => simp [read] at hr
    | cons m ms =>
      simp only [read, Option.some.injEq] at hr
      have := readCur_lossless cfg h cap m ms
      rw [hr] at this
      simpa [pending] using this

/-- what has been returned so far, followed by what is still to come, is what was sent -/
theorem drain_lossless (cfg : Cfg) (h : cfg.dropOnlyAtEOF = true) (caps : List Nat) (s : St) :
    (drain cfg caps s).1 ++ pending (drain cfg caps s).2 = pending s := by
  induction caps generalizing s with
  | nil => simp [drain]
  | cons cap caps ih =>
    unfold drain
    cases hr : read cfg cap s with
    | none => simp
    | some p =>
      obtain ⟨b, s'⟩ := p
      simp only [List.append_assoc]
      rw [ih s', read_lossless cfg h cap s b s' hr]

theorem msgSteps_pos (m : Msg) : 1 ≤ msgSteps m := by unfold msgSteps; omega

theorem readCur_steps (cfg : Cfg) (cap : Nat) (hc : 1 ≤ cap) (m : Msg) (rest : List Msg) :
    steps (readCur cfg cap m rest).2 < msgSteps m + (rest.map msgSteps).sum := by
  cases m with
  | nil => simp [readCur, steps, msgSteps]
  | cons c cs =>
    by_cases hle : c.length ≤ cap
    · simp only [readCur, hle, if_true]
      split <;> simp [steps, msgSteps] <;> omega
    · simp only [readCur, hle, if_false, steps, msgSteps, List.map_cons, List.sum_cons, List.length_drop]
      omega

theorem read_steps (cfg : Cfg) (cap : Nat) (hc : 1 ≤ cap) (s : St) (b : Bytes) (s' : St)
    (hr : read cfg cap s = some (b, s')) : steps s' < steps s := by
  obtain ⟨cur, rest⟩ := s
  cases cur with
  | some m =>
    simp only [read, Option.some.injEq] at hr
    have := readCur_steps cfg cap hc m rest
    rw [hr] at this
    simpa [steps] using this
  | none =>
    cases rest with
    | nil => simp [read] at hr
    | cons m ms =>
      simp only [read, Option.some.injEq] at hr
      have := readCur_steps cfg cap hc m ms
      rw [hr] at this
      simpa [steps] using this

theorem read_none_pending (cfg : Cfg) (cap : Nat) (s : St) (hr : read cfg cap s = none) : pending s = [] := by
  obtain ⟨cur, rest⟩ := s
  cases cur with
  | some m => simp [read] at hr
  | none =>
    cases rest with
    | nil => simp [pending]
    | cons m ms => simp [read] at hr

theorem steps_zero_pending (s : St) (h : steps s = 0) : pending s = [] := by
  obtain ⟨cur, rest⟩ := s
  cases cur with
  | some m => have := msgSteps_pos m; simp [steps] at h; omega
  | none =>
    cases rest with
    | nil => simp [pending]
    | cons m ms => have := msgSteps_pos m; simp [steps] at h; omega

/-- enough reads with buffers of at least one byte deliver everything -/
theorem drain_complete (cfg : Cfg) (caps : List Nat) (hc : ∀ cap ∈ caps, 1 ≤ cap) (s : St)
    (hn : steps s ≤ caps.length) : pending (drain cfg caps s).2 = [] := by
  induction caps generalizing s with
  | nil => simp at hn; simpa [drain] using steps_zero_pending s hn
  | cons cap caps ih =>
    unfold drain
    cases hr : read cfg cap s with
    | none => simpa using read_none_pending cfg cap s hr
    | some p =>
      obtain ⟨b, s'⟩ := p
      have hlt := read_steps cfg cap (hc cap (by simp)) s b s' hr
      simp only [List.length_cons] at hn
      exact ih (fun c hcm => hc c (by simp [hcm])) s' (by omega)

theorem deliver_eq (cfg : Cfg) (h : cfg.dropOnlyAtEOF = true) (cap : Nat) (hc : 1 ≤ cap) (msgs : List Msg) :
    deliver cfg cap msgs = (msgs.map List.flatten).flatten := by
  unfold deliver
  have hl := drain_lossless cfg h (List.replicate (steps ⟨none, msgs⟩) cap) ⟨none, msgs⟩
  have hcpl := drain_complete cfg (List.replicate (steps ⟨none, msgs⟩) cap)
    (fun c hcm => by rw [List.eq_of_mem_replicate hcm]; exact hc) ⟨none, msgs⟩ (by simp)
  rw [hcpl] at hl
  simpa [pending] using hl

theorem cutPieces_flatten (ns : List Nat) (s : Bytes) : (cutPieces ns s).flatten = s := by
  induction ns generalizing s with
  | nil => unfold cutPieces; split <;> simp_all
  | cons n ns ih => simp [cutPieces, ih, List.take_append_drop]

theorem cutMsgs_flatten (plan : List (List Nat)) (s : Bytes) : ((cutMsgs plan s).map List.flatten).flatten = s := by
  induction plan generalizing s with
  | nil => unfold cutMsgs; split <;> simp_all
  | cons m ms ih => simp [cutMsgs, ih, cutPieces_flatten, List.take_append_drop]

end IpcHub.WsTransport
