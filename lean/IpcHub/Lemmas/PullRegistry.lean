/-
Composition of the pull client with the registry: two clients whose handshakes succeeded both
call media.Regist for the same path from their play goroutines.
-/
import IpcHub.Lemmas.Registry
import IpcHub.Lemmas.RegistryLts
namespace IpcHub.Registry
open IpcHub.CanonPath IpcHub.RegistryLts

/-- streams other than the displaced owner are untouched by Regist -/
theorem regist_streams_of_fresh (st : State) (a b : Nat) (sa : Stream)
    (ha : st.streams[a]? = some sa) (hfresh : load st.reg sa.path ≠ some b) :
    (regist st a).streams[b]? = st.streams[b]? := by
  unfold regist
  simp only [ha]
  split
  · rfl
  · rw [streams_retireOld_of_ne _ _ _ hfresh]

/-- two registrations on one path, one after the other: the second one owns the path and is live,
    the first one is retired -/
theorem two_regist_seq (st0 : State) (hw : WF st0) (a b : Nat) (sa sb : Stream)
    (ha : st0.streams[a]? = some sa) (hb : st0.streams[b]? = some sb) (hpath : sb.path = sa.path)
    (hoka : sa.status = .ok) (hokb : sb.status = .ok) (hne : a ≠ b)
    (hfresh : load st0.reg sa.path ≠ some b) :
    load (regist (regist st0 a) b).reg sa.path = some b ∧ isOk (regist (regist st0 a) b) b = true ∧
      retired (regist (regist st0 a) b) a := by
  have h1 := regist_newest_wins ha hoka
  have hb' : (regist st0 a).streams[b]? = some sb := by
    rw [regist_streams_of_fresh st0 a b sa ha hfresh]; exact hb
  have hw1 : WF (regist st0 a) := step_wf asciiCfg good st0 (.regist a) hw
  have h2 := regist_newest_wins hb' hokb
  rw [hpath] at h2
  refine ⟨h2.1, h2.2, ?_⟩
  have hl : load (regist st0 a).reg sb.path = some a := by rw [hpath]; exact h1.1
  have hd := regist_displaced hw1 hb' hl hne
  by_cases hc : ccOf (regist st0 a) a ≤ 0
  · exact Or.inl (hd.1 hc)
  · have : ccOf (regist st0 a) a > 0 := by omega
    exact Or.inr (hd.2 this).2

/-- two on-demand pulls (or two publishers) racing to register fresh streams a and b on one path, any
    interleaving of the two Regist bodies under the lock: when both are done exactly one of them owns
    the path and is live, and the other one is retired (closed at once when it has no consumer,
    otherwise watched by a replaced-task) -/
theorem two_regist_race (st0 : State) (hw : WF st0) (a b : Nat) (sa sb : Stream)
    (ha : st0.streams[a]? = some sa) (hb : st0.streams[b]? = some sb) (hpath : sb.path = sa.path)
    (hoka : sa.status = .ok) (hokb : sb.status = .ok) (hne : a ≠ b)
    (hfa : load st0.reg sa.path ≠ some a) (hfb : load st0.reg sa.path ≠ some b)
    (sched : List Nat)
    (hd : allDone (runSched true (initC st0 [.regist a, .regist b]) sched) = true) :
    let st := (runSched true (initC st0 [.regist a, .regist b]) sched).st
    (load st.reg sa.path = some b ∧ isOk st b = true ∧ retired st a) ∨
    (load st.reg sa.path = some a ∧ isOk st a = true ∧ retired st b) := by
  obtain ⟨l, hp, hst⟩ := serial_outcome st0 _ sched hd
  intro st
  have hst' : st = seqRun st0 l := hst
  rcases perm_pair hp with h | h
  · left
    rw [hst', h]
    exact two_regist_seq st0 hw a b sa sb ha hb hpath hoka hokb hne hfb
  · right
    rw [hst', h]
    have := two_regist_seq st0 hw b a sb sa hb ha hpath.symm hokb hoka (Ne.symm hne) (by rw [hpath]; exact hfa)
    rw [hpath] at this
    exact this

end IpcHub.Registry
