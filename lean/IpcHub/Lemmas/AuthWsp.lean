/-
C11 helper lemmas, part E: WebSocket upgrades on /streams/, and WSP control / data channels.
-/
import IpcHub.Lemmas.AuthRtsp
namespace IpcHub.Auth
open IpcHub.PathMatch IpcHub.PatternLang IpcHub.Monitor

theorem permPath_not_ts (cfg : Cfg) (hpc : cfg.permCanonical = true) (sp ext : List Char)
    (h : ext ≠ ".ts".toList) : permPath cfg sp ext = canonicalPath cfg sp := by
  unfold permPath
  have h' : ¬ ext = ['.', 't', 's'] := h
  simp [hpc, h']

/-- WebSocket upgrade: whatever `wsUpgrade` does is accepted by the monitor -/
theorem wsUpgrade_ok (cfg : Cfg) (e : Env) (hcanon : e.canon = canonicalPath cfg)
    (hts : cfg.tsPermDir = true) (hpc : cfg.permCanonical = true)
    (w : World) (sw : SWorld) (r : Rel cfg e w sw) (path : List Char) (tok : TokRef) (sub : WsSub) :
    judgeWs e sw path tok (wsUpgrade cfg w path tok sub).2 = .ok := by
  unfold judgeWs
  cases hon : sw.authOn with
  | false => simp
  | true =>
  simp only [Bool.not_true, Bool.false_eq_true, if_false]
  have hwon : w.authOn = true := by rw [r.authOn]; exact hon
  unfold wsUpgrade
  by_cases hred : muxRedirects .get path = true
  · simp [hred]
  simp only [hred, Bool.false_eq_true, if_false]
  unfold streamInterceptor
  by_cases hxd : pathBase path = "crossdomain.xml".toList
  · simp [hxd]
  simp only [hxd, if_false, hwon, Bool.not_true, Bool.false_eq_true]
  obtain ⟨hwho, husers, hstreams, hauth⟩ := authInterceptor_spec r tok
  cases hai : authInterceptor w tok with
  | mk w' res =>
    rw [hai] at hwho husers hstreams hauth
    simp only at hwho husers hstreams hauth
    cases res with
    | none =>
      simp only
      rw [← hwho]
      cases resourceOf e path <;> simp [mayPull]
    | some name =>
      simp only
      unfold permissionInterceptor
      cases hx : extractStreamPathAndExt path with
      | none => simp
      | some se =>
        obtain ⟨sp, ext⟩ := se
        simp only
        have hperm := r.perm name (permPath cfg sp ext) .pull
        rw [← husers] at hperm
        cases hgu : getUser cfg w'.users name with
        | none =>
          rw [hgu] at hperm
          simp only at hperm ⊢
          cases hres : resourceOf e path with
          | none => simp
          | some key =>
            have hpp := permPath_resource cfg e hts hpc hcanon path sp ext key hx hres
            rw [hpp] at hperm
            have : allowed e sw.hist name .pull key = false := hperm.symm
            simp [mayPull, ← hwho, this]
        | some u =>
          rw [hgu] at hperm
          simp only at hperm ⊢
          cases hv : u.validatePermission cfg (permPath cfg sp ext) .pull with
          | false =>
            rw [hv] at hperm
            simp only
            cases hres : resourceOf e path with
            | none => simp
            | some key =>
              have hpp := permPath_resource cfg e hts hpc hcanon path sp ext key hx hres
              rw [hpp] at hperm
              have : allowed e sw.hist name .pull key = false := hperm.symm
              simp [mayPull, ← hwho, this]
          | true =>
            rw [hv] at hperm
            simp only [hx]
            have hsome : who sw tok = some name := hwho.symm
            cases sub with
            | rtsp => simp [hsome]
            | control => simp [hsome]
            | data => simp [hsome]
            | none =>
              simp only
              by_cases hflv : ext = ".flv".toList
              · simp only [hflv, if_true]
                cases hgo : w'.getOrCreate cfg sp with
                | none => simp [hsome]
                | some st =>
                  simp only
                  have hkey : st.key = canonicalPath cfg sp := getOrCreate_key cfg w' sp st hgo
                  have hpp : permPath cfg sp ext = canonicalPath cfg sp :=
                    permPath_not_ts cfg hpc sp ext (by rw [hflv]; decide)
                  rw [hpp] at hperm
                  have : allowed e sw.hist name .pull (canonicalPath cfg sp) = true := hperm.symm
                  simp [mayPull, ← hwho, hkey, this]
              · have hflv' : ¬ ext = ['.', 'f', 'l', 'v'] := hflv
                simp [hflv', hsome]

/-- the invariants of a WSP session -/
structure WspInv (cfg : Cfg) (w : World) (s : WspSess) : Prop where
  /-- a joined data channel belongs to the control channel's user -/
  data : (cfg.wspJoinChecks && w.authOn) = true → ∀ d, s.data = some d → d.user = s.conn.user
  /-- once something was described, the session path is the path of the control channel -/
  sdp : s.hasSdp = true → s.path = s.conn.path
  ready : s.status ≠ .init → s.hasSdp = true
  /-- the control channel was opened on a canonical path -/
  canon : canonicalPath cfg s.conn.path = s.conn.path

section
variable (cfg : Cfg) (e : Env) (w : World) (sw : SWorld)
variable (hcanon : e.canon = canonicalPath cfg) (hplay : cfg.wspPlayChecks = true) (hjoin : cfg.wspJoinChecks = true)
variable (r : Rel cfg e w sw)

include r hplay in
theorem wspPermitted_allowed (hon : sw.authOn = true) (s : WspSess) :
    wspPermitted cfg w s = allowed e sw.hist s.conn.user .pull s.conn.path := by
  have hwon : w.authOn = true := by rw [r.authOn]; exact hon
  unfold wspPermitted
  simp only [hplay, hwon, Bool.and_self, Bool.not_true, Bool.false_eq_true, if_false]
  have := r.perm s.conn.user s.conn.path .pull
  exact this

include hcanon hplay hjoin r in
/-- WSP control channel: whatever `wspStep` does is accepted by the monitor -/
theorem wspStep_ok (s : WspSess) (inv : WspInv cfg w s) (m : Method) (ctrl : Ctrl) (trOk : Bool) :
    judgeWsp e sw s.conn s.data (wspStep cfg w s m ctrl trOk).2 = .ok := by
  unfold judgeWsp
  cases hon : sw.authOn with
  | false => simp
  | true =>
  simp only [Bool.not_true, Bool.false_eq_true, if_false]
  have hwon : w.authOn = true := by rw [r.authOn]; exact hon
  have hperm := wspPermitted_allowed cfg e w sw hplay r hon
  have hp := inv.canon
  unfold wspStep
  by_cases h1 : m = .options
  · simp [h1]
  simp only [h1, if_false]
  by_cases h2 : m = .teardown
  · simp [h2]
  simp only [h2, if_false]
  cases hal : wspMethodAllowed s.status m with
  | false => simp
  | true =>
  simp only [Bool.not_true, Bool.false_eq_true, if_false]
  cases m with
  | describe =>
    simp only
    cases hgo : w.getOrCreate cfg s.conn.path with
    | none => simp
    | some st =>
      simp only
      have hkey : st.key = s.conn.path := by rw [getOrCreate_key cfg w _ st hgo, hp]
      rw [show wspPermitted cfg w { s with path := s.conn.path } = wspPermitted cfg w s from rfl, hperm]
      cases ha : allowed e sw.hist s.conn.user .pull s.conn.path with
      | false => simp [mayPull, hcanon, hp, ha]
      | true => simp [mayPull, hkey, ha]
  | setup =>
    simp only
    by_cases h3 : (!s.hasSdp || decide (ctrl = .unknown)) = true
    · simp [h3]
    · simp only [h3, Bool.false_eq_true, if_false]
      cases trOk <;> simp
  | play =>
    simp only
    by_cases h3 : s.status = .playing
    · simp [h3]
    simp only [h3, if_false]
    -- PLAY is only let through once the session is ready, i.e. after a DESCRIBE
    have hni : s.status ≠ .init := by
      intro hi; rw [hi] at hal; simp [wspMethodAllowed] at hal
    have hsp : s.path = s.conn.path := inv.sdp (inv.ready hni)
    rw [hsp]
    cases hgo : w.getOrCreate cfg s.conn.path with
    | none => simp
    | some st =>
      simp only
      have hkey : st.key = s.conn.path := by rw [getOrCreate_key cfg w _ st hgo, hp]
      rw [hperm]
      cases ha : allowed e sw.hist s.conn.user .pull s.conn.path with
      | false => simp [mayPull, hcanon, hp, ha]
      | true =>
        simp only [Bool.not_true, Bool.false_eq_true, if_false]
        cases hatt : s.attached with
        | some k => simp
        | none =>
          simp only [Option.isNone_none, if_true]
          cases hdd : s.data with
          | none => simp [mayPull, hkey, ha]
          | some d =>
            have hdu := inv.data (by simp [hjoin, hwon]) d hdd
            simp [mayPull, hkey, ha, hdu]
  | pause => simp
  | options => exact absurd rfl h1
  | teardown => exact absurd rfl h2
  | announce => simp
  | record => simp
  | other => simp

include hcanon hplay hjoin r in
/-- WSP data channel: whatever `wspJoin` does is accepted by the monitor -/
theorem wspJoin_ok (s : WspSess) (inv : WspInv cfg w s)
    (hatt : ∀ k, s.attached = some k → k = s.conn.path) (dc : WsConn) :
    judgeJoin e sw (some (s.conn, s.attached)) dc (wspJoin cfg w (some s) dc).1 = .ok := by
  unfold judgeJoin
  cases hon : sw.authOn with
  | false => simp
  | true =>
  simp only [Bool.not_true, Bool.false_eq_true, if_false]
  have hwon : w.authOn = true := by rw [r.authOn]; exact hon
  have hperm := wspPermitted_allowed cfg e w sw hplay r hon s
  unfold wspJoin wspAccepts
  simp only [hjoin, hwon, Bool.and_self, Bool.not_true, Bool.false_eq_true, if_false]
  by_cases hu : dc.user = s.conn.user
  · by_cases hpa : dc.path = s.conn.path
    · cases ha : allowed e sw.hist s.conn.user .pull s.conn.path with
      | false =>
        rw [hperm, ha]
        simp [hu, hpa, mayPull, hcanon, inv.canon, ha]
      | true =>
        rw [hperm, ha]
        simp only [hu, hpa, decide_true, Bool.and_self, Bool.not_true, Bool.false_eq_true, if_false]
        cases hk : s.attached with
        | none => simp
        | some k =>
          have := hatt k hk
          simp [mayPull, this, ha]
    · simp [hu, hpa]
  · simp [hu]

omit hcanon hplay hjoin r in
/-- the WSP invariants (including: what is being consumed is the control channel's path) are
    preserved by every control-channel request -/
theorem wspStep_keeps (s : WspSess) (inv : WspInv cfg w s)
    (hatt : ∀ k, s.attached = some k → k = s.conn.path) (m : Method) (ctrl : Ctrl) (trOk : Bool) :
    WspInv cfg w (wspStep cfg w s m ctrl trOk).1 ∧
    (∀ k, (wspStep cfg w s m ctrl trOk).1.attached = some k → k = s.conn.path) ∧
    (wspStep cfg w s m ctrl trOk).1.conn = s.conn := by
  have same : WspInv cfg w s ∧ (∀ k, s.attached = some k → k = s.conn.path) ∧ s.conn = s.conn := ⟨inv, hatt, rfl⟩
  unfold wspStep
  by_cases h1 : m = .options
  · simp only [h1, if_true]; (first | exact same | exact ⟨inv, hatt, trivial⟩)
  simp only [h1, if_false]
  by_cases h2 : m = .teardown
  · simp only [h2, if_true]; (first | exact same | exact ⟨inv, hatt, trivial⟩)
  simp only [h2, if_false]
  cases hal : wspMethodAllowed s.status m with
  | false => simp only [Bool.not_false, if_true]; (first | exact same | exact ⟨inv, hatt, trivial⟩)
  | true =>
  simp only [Bool.not_true, Bool.false_eq_true, if_false]
  cases m with
  | describe =>
    simp only
    have base : WspInv cfg w { s with path := s.conn.path } :=
      ⟨inv.data, fun _ => rfl, inv.ready, inv.canon⟩
    cases hgo : w.getOrCreate cfg s.conn.path with
    | none => exact ⟨base, hatt, by first | rfl | trivial⟩
    | some st =>
      simp only
      cases wspPermitted cfg w { s with path := s.conn.path } with
      | false => exact ⟨base, hatt, by first | rfl | trivial⟩
      | true => exact ⟨⟨inv.data, fun _ => rfl, fun _ => rfl, inv.canon⟩, hatt, by first | rfl | trivial⟩
  | setup =>
    simp only
    by_cases h3 : (!s.hasSdp || decide (ctrl = .unknown)) = true
    · simp only [h3, if_true]; (first | exact same | exact ⟨inv, hatt, trivial⟩)
    · simp only [h3, Bool.false_eq_true, if_false]
      have hsdp : s.hasSdp = true := by
        cases hh : s.hasSdp with
        | true => rfl
        | false => simp [hh] at h3
      cases trOk with
      | false => simp only [Bool.not_false, if_true]; (first | exact same | exact ⟨inv, hatt, trivial⟩)
      | true =>
        simp only [Bool.not_true, Bool.false_eq_true, if_false]
        exact ⟨⟨inv.data, inv.sdp, fun _ => hsdp, inv.canon⟩, hatt, by first | rfl | trivial⟩
  | play =>
    simp only
    by_cases h3 : s.status = .playing
    · simp only [h3, if_true]; (first | exact same | exact ⟨inv, hatt, trivial⟩)
    simp only [h3, if_false]
    have hni : s.status ≠ .init := by
      intro hi; rw [hi] at hal; simp [wspMethodAllowed] at hal
    have hsdp : s.hasSdp = true := inv.ready hni
    have hsp : s.path = s.conn.path := inv.sdp hsdp
    cases hgo : w.getOrCreate cfg s.path with
    | none => (first | exact same | exact ⟨inv, hatt, trivial⟩)
    | some st =>
      simp only
      cases wspPermitted cfg w s with
      | false => simp only [Bool.not_false, if_true]; (first | exact same | exact ⟨inv, hatt, trivial⟩)
      | true =>
        simp only [Bool.not_true, Bool.false_eq_true, if_false]
        refine ⟨⟨inv.data, inv.sdp, fun _ => hsdp, inv.canon⟩, ?_, by first | rfl | trivial⟩
        intro k hk
        simp only [Option.some.injEq] at hk
        cases ha : s.attached with
        | some k0 => rw [ha] at hk; simp only [Option.getD_some] at hk; rw [← hk]; exact hatt k0 ha
        | none =>
          rw [ha] at hk; simp only [Option.getD_none] at hk
          rw [← hk, getOrCreate_key cfg w _ st hgo, hsp]; exact inv.canon
  | pause => (first | exact same | exact ⟨inv, hatt, trivial⟩)
  | options => exact absurd rfl h1
  | teardown => exact absurd rfl h2
  | announce => (first | exact same | exact ⟨inv, hatt, trivial⟩)
  | record => (first | exact same | exact ⟨inv, hatt, trivial⟩)
  | other => (first | exact same | exact ⟨inv, hatt, trivial⟩)

omit hcanon hplay r in
/-- ... and by a JOIN -/
theorem wspJoin_keeps (s : WspSess) (inv : WspInv cfg w s) (dc : WsConn) (s' : WspSess)
    (h : (wspJoin cfg w (some s) dc).2 = some s') :
    WspInv cfg w s' ∧ s'.attached = s.attached ∧ s'.conn = s.conn := by
  unfold wspJoin at h
  cases hacc : wspAccepts cfg w s dc with
  | false => simp [hacc] at h
  | true =>
    simp only [hacc, Bool.not_true, Bool.false_eq_true, if_false, Option.some.injEq] at h
    subst h
    refine ⟨⟨?_, inv.sdp, inv.ready, inv.canon⟩, rfl, rfl⟩
    intro hc d hd
    simp only [Option.some.injEq] at hd
    subst hd
    unfold wspAccepts at hacc
    simp only [hc, Bool.not_true, Bool.false_eq_true, if_false, Bool.and_eq_true, decide_eq_true_eq] at hacc
    exact hacc.1.1

end
end IpcHub.Auth
