/- CanonicalPath keeps a trailing '/': a request that ends in '/' (after the blanks around it are
   trimmed) has a canonical form that ends in '/' (C17: "a path that itself ends in '/' resolves
   to nothing") -/
import IpcHub.Lemmas.PathCanon2
namespace IpcHub.PathCanon

/-- trimming keeps a last character that is not a blank -/
theorem trimLeft_getLast (p : Char → Bool) (c : Char) (hc : p c = false) :
    ∀ (s : List Char), s.getLast? = some c → (trimLeft p s).getLast? = some c := by
  intro s
  induction s with
  | nil => intro h; simp at h
  | cons x xs ih =>
    intro h
    by_cases hx : p x = true
    · simp only [trimLeft, hx, if_true]
      cases xs with
      | nil =>
        simp at h; subst h; rw [hc] at hx; cases hx
      | cons y ys =>
        apply ih
        simpa [List.getLast?_cons_cons] using h
    · simp only [trimLeft, hx]
      exact h

theorem trimRight_getLast (p : Char → Bool) (c : Char) (hc : p c = false)
    (s : List Char) (h : s.getLast? = some c) : trimRight p s = s := by
  obtain ⟨pre, hpre⟩ := List.getLast?_eq_some_iff.1 h
  unfold trimRight
  rw [hpre]
  simp [trimLeft, hc]

theorem trim_getLast (p : Char → Bool) (c : Char) (hc : p c = false)
    (s : List Char) (h : s.getLast? = some c) : (trim p s).getLast? = some c := by
  unfold trim
  have h1 := trimLeft_getLast p c hc s h
  rw [trimRight_getLast p c hc _ h1]; exact h1

theorem finish_trailing (q : List Char) (h : q.getLast? = some '/') : (finish q).getLast? = some '/' := by
  unfold finish
  simp only
  by_cases hnp : cleanRooted q = ['/']
  · simp [hnp]
  · simp only [h, hnp, ne_eq, not_false_eq_true, and_self, if_true]
    split
    · exact h
    · simp

/-- one pass: a request whose trimmed form ends in '/' gives a path that ends in '/' -/
theorem canonStep_trailing (cfg : Cfg) (hc : CharLaws cfg) (p : List Char)
    (h : (trim cfg.isSpace p).getLast? = some '/') : (canonStep cfg p).getLast? = some '/' := by
  rw [canonStep_eq]
  have hm : ((trim cfg.isSpace p).map cfg.lower).getLast? = some '/' := by
    rw [List.getLast?_map, h]; simp [hc.lower_slash]
  split
  · rfl
  · apply finish_trailing
    split
    · rw [List.getLast?_cons]
      rw [hm]; rfl
    · exact hm

theorem canonIter_trailing (cfg : Cfg) (hc : CharLaws cfg) : ∀ (n : Nat) (p : List Char),
    p.getLast? = some '/' → (canonIter cfg n p).getLast? = some '/' := by
  intro n
  induction n with
  | zero => intro p h; exact h
  | succ n ih =>
    intro p h
    have hs : (canonStep cfg p).getLast? = some '/' :=
      canonStep_trailing cfg hc p (trim_getLast _ _ hc.slash_not_space p h)
    simp only [canonIter]
    split
    · exact hs
    · exact ih _ hs

/-- utils.CanonicalPath: a request that ends in '/' once the blanks around it are trimmed has a
    canonical form that ends in '/' -/
theorem canonicalPath_trailing (cfg : Cfg) (hc : CharLaws cfg) (p : List Char)
    (h : (trim cfg.isSpace p).getLast? = some '/') : (canonicalPath cfg p).getLast? = some '/' := by
  unfold canonicalPath
  split
  · -- the loop: first pass, then further passes on a path that already ends in '/'
    have hs := canonStep_trailing cfg hc p h
    cases hn : p.length + 3 with
    | zero => omega
    | succ n =>
      simp only [canonIter]
      split
      · exact hs
      · exact canonIter_trailing cfg hc n _ hs
  · exact canonStep_trailing cfg hc p h

end IpcHub.PathCanon
