/- canonical paths contain no double slash: the remainder after a directory pattern never starts with a slash (C17 URL join) -/
import IpcHub.Lemmas.PathCanon2
namespace IpcHub.PathCanon

/-- no two consecutive slashes -/
def noDS : List Char → Bool
  | [] => true
  | c :: rest => !(c == '/' && rest.head? == some '/') && noDS rest

theorem noDS_append : ∀ (a b : List Char), noDS a = true → noDS b = true →
    (a.getLast? ≠ some '/' ∨ b.head? ≠ some '/') → noDS (a ++ b) = true := by
  intro a
  induction a with
  | nil => intro b _ hb _; simpa using hb
  | cons c cs ih =>
    intro b ha hb hj
    simp only [noDS, Bool.and_eq_true, Bool.not_eq_true'] at ha
    simp only [List.cons_append, noDS, Bool.and_eq_true, Bool.not_eq_true']
    cases cs with
    | nil =>
      refine ⟨?_, ih b ha.2 hb (Or.inl (by simp))⟩
      simp only [List.nil_append]
      rcases hj with h | h
      · simp at h; simp [h]
      · cases b with
        | nil => simp
        | cons x xs => simp at h; simp [h]
    | cons d ds =>
      refine ⟨by simpa using ha.1, ih b ha.2 hb ?_⟩
      rcases hj with h | h
      · left; simpa using h
      · right; exact h

/-- a string without slashes -/
theorem noDS_of_no_slash : ∀ (s : List Char), '/' ∉ s → noDS s = true := by
  intro s
  induction s with
  | nil => intro _; rfl
  | cons c cs ih =>
    intro h
    simp only [List.mem_cons, not_or] at h
    simp only [noDS, Bool.and_eq_true, Bool.not_eq_true', ih h.2, and_true]
    have : c ≠ '/' := fun e => h.1 e.symm
    simp [this]

/-- in a string without double slashes, what follows a slash does not start with a slash -/
theorem noDS_split : ∀ (pre rest : List Char), noDS (pre ++ '/' :: rest) = true → rest.head? ≠ some '/' := by
  intro pre
  induction pre with
  | nil =>
    intro rest h
    simp only [List.nil_append, noDS, Bool.and_eq_true, Bool.not_eq_true'] at h
    intro e; simp [e] at h
  | cons c cs ih =>
    intro rest h
    simp only [List.cons_append, noDS, Bool.and_eq_true] at h
    exact ih rest h.2

theorem splitSlash_no_slash : ∀ (s : List Char), ∀ seg ∈ splitSlash s, '/' ∉ seg := by
  intro s
  induction s with
  | nil => intro seg h; simp [splitSlash] at h; subst h; simp
  | cons c cs ih =>
    intro seg h
    unfold splitSlash at h
    by_cases hc : c = '/'
    · simp only [hc, if_true, List.mem_cons] at h
      rcases h with rfl | h
      · simp
      · exact ih seg h
    · simp only [hc, if_false] at h
      cases hsp : splitSlash cs with
      | nil => exact absurd hsp (splitSlash_ne_nil cs)
      | cons s0 ss =>
        rw [hsp] at h ih
        simp only [List.mem_cons] at h
        rcases h with rfl | h
        · have := ih s0 List.mem_cons_self
          simp only [List.mem_cons, not_or]
          exact ⟨fun e => hc e.symm, this⟩
        · exact ih seg (List.mem_cons_of_mem _ h)

/-- kept elements are non-empty and come from the stack or the input -/
theorem foldl_cleanStep_mem : ∀ (segs st : List (List Char)), ∀ seg ∈ segs.foldl cleanStep st,
    seg ∈ st ∨ (seg ∈ segs ∧ seg ≠ []) := by
  intro segs
  induction segs with
  | nil => intro st seg h; exact Or.inl h
  | cons s rest ih =>
    intro st seg h
    simp only [List.foldl_cons] at h
    by_cases h1 : s = [] ∨ s = ['.']
    · have hs : cleanStep st s = st := by simp [cleanStep, h1]
      rw [hs] at h
      rcases ih st seg h with h' | ⟨h', h''⟩
      · exact Or.inl h'
      · exact Or.inr ⟨List.mem_cons_of_mem _ h', h''⟩
    · by_cases h2 : s = ['.', '.']
      · have hs : cleanStep st s = st.tail := by simp [cleanStep, h2]
        rw [hs] at h
        rcases ih st.tail seg h with h' | ⟨h', h''⟩
        · exact Or.inl (List.mem_of_mem_tail h')
        · exact Or.inr ⟨List.mem_cons_of_mem _ h', h''⟩
      · have hs : cleanStep st s = s :: st := by simp [cleanStep, h1, h2]
        rw [hs] at h
        rcases ih (s :: st) seg h with h' | ⟨h', h''⟩
        · rcases List.mem_cons.1 h' with rfl | h'
          · exact Or.inr ⟨List.mem_cons_self, fun e => h1 (Or.inl e)⟩
          · exact Or.inl h'
        · exact Or.inr ⟨List.mem_cons_of_mem _ h', h''⟩

/-- "/s1/s2/…" of non-empty slash-free elements has no double slash and does not end in a slash -/
theorem joinSegs_noDS : ∀ (segs : List (List Char)), segs ≠ [] → (∀ seg ∈ segs, seg ≠ [] ∧ '/' ∉ seg) →
    noDS (joinSegs segs) = true ∧ (joinSegs segs).getLast? ≠ some '/' ∧ (joinSegs segs).head? = some '/' := by
  intro segs
  induction segs with
  | nil => intro h; exact absurd rfl h
  | cons s ss ih =>
    intro _ hall
    obtain ⟨hne, hns⟩ := hall s List.mem_cons_self
    have hs_last : s.getLast? ≠ some '/' := by
      intro e
      exact hns (List.mem_of_getLast? e)
    have hs_head : s.head? ≠ some '/' := by
      intro e
      exact hns (List.mem_of_head? e)
    by_cases hss : ss = []
    · subst hss
      simp only [joinSegs, List.append_nil]
      refine ⟨?_, ?_, rfl⟩
      · simp only [noDS, Bool.and_eq_true, Bool.not_eq_true']
        refine ⟨?_, noDS_of_no_slash s hns⟩
        cases s with
        | nil => exact absurd rfl hne
        | cons x xs => simp at hs_head; simp [hs_head]
      · cases s with
        | nil => exact absurd rfl hne
        | cons x xs => simpa using hs_last
    · obtain ⟨h1, h2, h3⟩ := ih hss (fun seg h => hall seg (List.mem_cons_of_mem _ h))
      simp only [joinSegs]
      have hne2 : joinSegs ss ≠ [] := by intro e; rw [e] at h3; cases h3
      refine ⟨?_, ?_, rfl⟩
      · simp only [noDS, Bool.and_eq_true, Bool.not_eq_true']
        refine ⟨?_, noDS_append s (joinSegs ss) (noDS_of_no_slash s hns) h1 (Or.inl hs_last)⟩
        cases s with
        | nil => exact absurd rfl hne
        | cons x xs => simp at hs_head; simp [hs_head]
      · have : '/' :: (s ++ joinSegs ss) = ('/' :: s) ++ joinSegs ss := rfl
        rw [this, List.getLast?_append]
        cases hl : (joinSegs ss).getLast? with
        | none => exact absurd (List.getLast?_eq_none_iff.1 hl) hne2
        | some x => rw [hl] at h2; simpa using h2


theorem cleanRooted_noDS (q : List Char) :
    noDS (cleanRooted q) = true ∧ (cleanRooted q = ['/'] ∨ (cleanRooted q).getLast? ≠ some '/') := by
  unfold cleanRooted
  split
  · exact ⟨by decide, Or.inl rfl⟩
  · rename_i s ss heq
    have hall : ∀ seg ∈ s :: ss, seg ≠ [] ∧ '/' ∉ seg := by
      intro seg hseg
      rw [← heq] at hseg
      unfold cleanSegs at hseg
      rcases foldl_cleanStep_mem (splitSlash q) [] seg (List.mem_reverse.1 hseg) with h | ⟨h1, h2⟩
      · cases h
      · exact ⟨h2, splitSlash_no_slash q seg h1⟩
    obtain ⟨h1, h2, _⟩ := joinSegs_noDS (s :: ss) (by simp) hall
    exact ⟨h1, Or.inr h2⟩

theorem hasPrefix_iff : ∀ (s pre : List Char), hasPrefix s pre = true → ∃ r, s = pre ++ r := by
  intro s pre
  induction pre generalizing s with
  | nil => intro _; exact ⟨s, rfl⟩
  | cons b bs ih =>
    intro h
    cases s with
    | nil => simp [hasPrefix] at h
    | cons a as =>
      simp only [hasPrefix, Bool.and_eq_true, decide_eq_true_eq] at h
      obtain ⟨r, hr⟩ := ih as h.2
      exact ⟨r, by rw [h.1, hr]; rfl⟩

theorem finish_noDS (q : List Char) : noDS (finish q) = true := by
  obtain ⟨h1, h2⟩ := cleanRooted_noDS q
  have happ : cleanRooted q ≠ ['/'] → noDS (cleanRooted q ++ ['/']) = true := by
    intro hne
    apply noDS_append _ _ h1 (by decide)
    rcases h2 with h | h
    · exact absurd h hne
    · exact Or.inl h
  unfold finish
  simp only
  split
  · rename_i hc
    split
    · rename_i hf
      obtain ⟨r, hr⟩ := hasPrefix_iff _ _ hf.2
      have hlen : r.length = 1 := by
        have := congrArg List.length hr
        simp only [List.length_append] at this
        omega
      obtain ⟨c, rfl⟩ : ∃ c, r = [c] := by
        cases r with
        | nil => simp at hlen
        | cons c cs => cases cs with
          | nil => exact ⟨c, rfl⟩
          | cons d ds => simp at hlen
      have hlast := hc.1
      rw [hr] at hlast
      simp at hlast
      rw [hr, hlast]
      exact happ hc.2
    · exact happ hc.2
  · exact h1

theorem canonStep_noDS (cfg : Cfg) (p : List Char) : noDS (canonStep cfg p) = true := by
  rw [canonStep_eq]
  split
  · decide
  · exact finish_noDS _

theorem canonIter_range (cfg : Cfg) : ∀ (n : Nat) (x : List Char), ∃ y, canonIter cfg n (canonStep cfg x) = canonStep cfg y := by
  intro n
  induction n with
  | zero => intro x; exact ⟨x, rfl⟩
  | succ n ih =>
    intro x
    unfold canonIter
    simp only
    split
    · exact ⟨canonStep cfg x, rfl⟩
    · exact ih (canonStep cfg x)

/-- a canonical path never contains two consecutive slashes -/
theorem canonicalPath_noDS (cfg : Cfg) (p : List Char) : noDS (canonicalPath cfg p) = true := by
  unfold canonicalPath
  split
  · show noDS (canonIter cfg (p.length + 2 + 1) p) = true
    unfold canonIter
    simp only
    split
    · exact canonStep_noDS cfg p
    · obtain ⟨y, hy⟩ := canonIter_range cfg (p.length + 2) p
      rw [hy]; exact canonStep_noDS cfg y
  · exact canonStep_noDS cfg p

end IpcHub.PathCanon
