/-
profile_tier_level: the Go parser consumes exactly the bits the standard's syntax lays out.
-/
import IpcHub.Lemmas.Consume
import IpcHub.Model.Hevc
import IpcHub.Spec.HevcSyntax
namespace IpcHub.Hevc
open IpcHub.Bits IpcHub.BitSyntax IpcHub.HevcSyntax

theorem profileTail_consumes (p : Profile) (m : List Nat) : Consumes (profileTail p m) 44 := by
  unfold profileTail
  dsimp only
  refine Consumes.bindSub (a := 43) ?_ (by omega) (fun _ => ?_)
  · consume_bits
  · consume_bits

theorem profileHead_consumes : Consumes profileHead 40 := by
  unfold profileHead
  consume_bits

theorem sourceFlags_consumes (p : Profile) : Consumes (sourceFlags p) 4 := by
  unfold sourceFlags
  consume_bits


@[simp] theorem length_encProfile (p : ProfileSyn) : (encProfile p).length = 88 := by
  simp [encProfile, flag]

/-- one profile part (general with its 48-bit peek, or a sub-layer without) -/
theorem profilePart_consumes (m : List Nat) :
    Consumes (do let h ← profileHead; let h ← sourceFlags h; profileTail h m) 88 := by
  refine Consumes.bindSub profileHead_consumes (by omega) (fun h => ?_)
  refine Consumes.bindSub (sourceFlags_consumes h) (by omega) (fun h' => ?_)
  exact profileTail_consumes h' m

theorem subLayerFlags_enc (subs : List SubLayerSyn) (r : List Bool) :
    subLayerFlags subs.length (encSubLayerFlags subs ++ r)
      = .ok (subs.map (fun s => (s.profile_present_flag.toNat, s.level_present_flag.toNat)), r) := by
  induction subs with
  | nil => simp [subLayerFlags, encSubLayerFlags]
  | cons s rest ih =>
    simp [subLayerFlags, encSubLayerFlags, readBit_flag, ih]

theorem skipPairs_zeros (n : Nat) (r : List Bool) :
    skipPairs n (List.replicate (2 * n) false ++ r) = .ok ((), r) := by
  induction n with
  | zero => simp [skipPairs]
  | succ n ih =>
    have : List.replicate (2 * (n + 1)) false = false :: false :: List.replicate (2 * n) false := by
      rw [show 2 * (n + 1) = (2 * n + 1) + 1 by omega, List.replicate_succ, List.replicate_succ]
    rw [this]
    simp only [skipPairs, bind_apply, List.cons_append]
    have h2 : skip 2 (false :: false :: (List.replicate (2 * n) false ++ r)) = .ok ((), List.replicate (2 * n) false ++ r) := by
      simp [skip]
    rw [h2]; exact ih

theorem subLayerBodies_enc (subs : List SubLayerSyn) (r : List Bool) :
    ∃ res, subLayerBodies (subs.map (fun s => (s.profile_present_flag.toNat, s.level_present_flag.toNat)))
      (encSubLayerBodies subs ++ r) = .ok (res, r) := by
  induction subs generalizing r with
  | nil => exact ⟨[], by simp [subLayerBodies, encSubLayerBodies]⟩
  | cons s rest ih =>
    simp only [List.map_cons, subLayerBodies, encSubLayerBodies, List.append_assoc, bind_apply]
    -- profile part
    have hprof : ∀ r', ∃ pr, (if s.profile_present_flag.toNat = 1 then
          (do let h ← profileHead; let h ← sourceFlags h; profileTail h [5]) else pure {})
        ((if s.profile_present_flag then encProfile s.profile else []) ++ r') = .ok (pr, r') := by
      intro r'
      cases s.profile_present_flag
      · exact ⟨{}, by simp⟩
      · simpa using profilePart_consumes [5] (encProfile s.profile) r' (length_encProfile _)
    have hlvl : ∀ r', ∃ lv, (if s.level_present_flag.toNat = 1 then readU 8 8 else pure 0)
        ((if s.level_present_flag then u 8 s.level_idc else []) ++ r') = .ok (lv, r') := by
      intro r'
      cases s.level_present_flag
      · exact ⟨0, by simp⟩
      · simpa using Consumes.readU 8 8 (by omega) (u 8 s.level_idc) r' (length_u _ _)
    obtain ⟨pr, hpr⟩ := hprof ((if s.level_present_flag then u 8 s.level_idc else []) ++ (encSubLayerBodies rest ++ r))
    obtain ⟨lv, hlv⟩ := hlvl (encSubLayerBodies rest ++ r)
    obtain ⟨others, ho⟩ := ih r
    rw [hpr]; simp only [hlv, ho]
    exact ⟨_, rfl⟩

theorem ptlGeneral_consumes : Consumes ptlGeneral 96 := by
  unfold ptlGeneral
  refine Consumes.bindSub profileHead_consumes (by omega) (fun h => ?_)
  refine Consumes.peek_bind (by omega) (by omega) (fun c => ?_)
  refine Consumes.bindSub (sourceFlags_consumes h) (by omega) (fun h' => ?_)
  refine Consumes.bindSub (profileTail_consumes h' _) (by omega) (fun g => ?_)
  consume_bits

/-- profile_tier_level(1, n) is consumed exactly, whatever its contents -/
theorem ptl_enc (p : PtlSyn) (r : List Bool) :
    ∃ q, ptl p.sub_layers.length (encPtl p ++ r) = .ok (q, r) := by
  obtain ⟨⟨g, cons, lvl⟩, hg⟩ := ptlGeneral_consumes (encProfile p.general ++ u 8 p.general_level_idc)
    (encSubLayerFlags p.sub_layers ++ ((if p.sub_layers.length > 0 then List.replicate (2 * (8 - p.sub_layers.length)) false else []) ++
      (encSubLayerBodies p.sub_layers ++ r))) (by simp)
  obtain ⟨subs, hs⟩ := subLayerBodies_enc p.sub_layers r
  have hskip : (if p.sub_layers.length > 0 then skipPairs (8 - p.sub_layers.length) else pure ())
      ((if p.sub_layers.length > 0 then List.replicate (2 * (8 - p.sub_layers.length)) false else []) ++
        (encSubLayerBodies p.sub_layers ++ r)) = .ok ((), encSubLayerBodies p.sub_layers ++ r) := by
    split
    · exact skipPairs_zeros _ _
    · rfl
  refine ⟨{ general := g, constraintFlags := cons, levelIdc := lvl, subLayers := subs }, ?_⟩
  simp only [List.append_assoc] at hg
  simp only [ptl, encPtl, bind_apply, List.append_assoc, hg, subLayerFlags_enc, hskip, hs, pure_apply]

end IpcHub.Hevc
