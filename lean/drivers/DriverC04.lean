import IpcHub.Drv.Main
import IpcHub.Drv.C04
def main : IO Unit := IpcHub.Drv.mainLoop IpcHub.Drv.C04.handle
