import IpcHub.Drv.Main
import IpcHub.Drv.C10
def main : IO Unit := IpcHub.Drv.mainLoop IpcHub.Drv.C10.handle
