import IpcHub.Drv.Main
import IpcHub.Drv.C09
def main : IO Unit := IpcHub.Drv.mainLoop IpcHub.Drv.C09.handle
