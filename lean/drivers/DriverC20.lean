import IpcHub.Drv.Main
import IpcHub.Drv.C20
def main : IO Unit := IpcHub.Drv.mainLoop IpcHub.Drv.C20.handle
