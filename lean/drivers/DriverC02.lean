import IpcHub.Drv.Main
import IpcHub.Drv.C02
def main : IO Unit := IpcHub.Drv.mainLoop IpcHub.Drv.C02.handle
