import IpcHub.Drv.Main
import IpcHub.Drv.C05
def main : IO Unit := IpcHub.Drv.mainLoop IpcHub.Drv.C05.handle
