import IpcHub.Drv.Main
import IpcHub.Drv.C11
def main : IO Unit := IpcHub.Drv.mainLoop IpcHub.Drv.C11.handle
