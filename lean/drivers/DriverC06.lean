import IpcHub.Drv.Main
import IpcHub.Drv.C06
def main : IO Unit := IpcHub.Drv.mainLoop IpcHub.Drv.C06.handle
