import IpcHub.Drv.Main
import IpcHub.Drv.C12
def main : IO Unit := IpcHub.Drv.mainLoop IpcHub.Drv.C12.handle
