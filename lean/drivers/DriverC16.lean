import IpcHub.Drv.Main
import IpcHub.Drv.C16
def main : IO Unit := IpcHub.Drv.mainLoop IpcHub.Drv.C16.handle
