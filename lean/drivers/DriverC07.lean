import IpcHub.Drv.Main
import IpcHub.Drv.C07
def main : IO Unit := IpcHub.Drv.mainLoop IpcHub.Drv.C07.handle
