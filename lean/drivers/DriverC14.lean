import IpcHub.Drv.Main
import IpcHub.Drv.C14
def main : IO Unit := IpcHub.Drv.mainLoop IpcHub.Drv.C14.handle
