import IpcHub.Drv.Main
import IpcHub.Drv.C03
def main : IO Unit := IpcHub.Drv.mainLoop IpcHub.Drv.C03.handle
