import IpcHub.Drv.Main
import IpcHub.Drv.C17
def main : IO Unit := IpcHub.Drv.mainLoop IpcHub.Drv.C17.handle
