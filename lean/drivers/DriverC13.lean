import IpcHub.Drv.Main
import IpcHub.Drv.C13
def main : IO Unit := IpcHub.Drv.mainLoop IpcHub.Drv.C13.handle
