import IpcHub.Drv.Main
import IpcHub.Drv.C08
def main : IO Unit := IpcHub.Drv.mainLoop IpcHub.Drv.C08.handle
