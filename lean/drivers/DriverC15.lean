import IpcHub.Drv.Main
import IpcHub.Drv.C15
def main : IO Unit := IpcHub.Drv.mainLoop IpcHub.Drv.C15.handle
