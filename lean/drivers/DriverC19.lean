import IpcHub.Drv.Main
import IpcHub.Drv.C19
def main : IO Unit := IpcHub.Drv.mainLoop IpcHub.Drv.C19.handle
