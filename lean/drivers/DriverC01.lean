import IpcHub.Drv.Main
import IpcHub.Drv.C01
def main : IO Unit := IpcHub.Drv.mainLoop IpcHub.Drv.C01.handle
