import IpcHub.Drv.Main
import IpcHub.Drv.C18
def main : IO Unit := IpcHub.Drv.mainLoop IpcHub.Drv.C18.handle
