-- Root of the IpcHub library: every property module (models, specs, lemmas come in transitively).
import IpcHub.Props.C01
import IpcHub.Props.C02
import IpcHub.Props.C03
import IpcHub.Props.C04
import IpcHub.Props.C16
