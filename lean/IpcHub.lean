-- Root of the IpcHub library: every property module (models, specs, lemmas come in transitively).
import IpcHub.Props.C16
