import IpcHub.Drv.C16

def dispatch (line : String) : String :=
  match (line.trimAscii.toString.splitOn " ").filter (· ≠ "") with
  | "c16" :: rest => IpcHub.Drv.C16.handle rest
  | _ => "bad-op"

partial def loop (hin hout : IO.FS.Stream) : IO Unit := do
  let line ← hin.getLine
  if line.isEmpty then return ()
  hout.putStrLn (dispatch line)
  loop hin hout

def main : IO Unit := do
  let hin ← IO.getStdin
  let hout ← IO.getStdout
  loop hin hout
  hout.flush
