#!/usr/bin/env python3
"""Prints the markdown table of /verif/seeded/*/meta.json (used for DESIGN.md §10.3)."""
import json, os, glob
V = os.path.dirname(os.path.dirname(os.path.abspath(__file__)))
rows = []
for d in sorted(glob.glob(os.path.join(V, "seeded", "*"))):
    m = json.load(open(os.path.join(d, "meta.json")))
    rows.append((os.path.basename(d), m["property"], m["what"], m["needs_to_manifest"], m["caught_by"]))
print("| seed | change | needs, to manifest | how the check of that property reports it |")
print("|---|---|---|---|")
for sid, pid, what, needs, caught in rows:
    print("| %s | %s | %s | %s |" % (sid, what.replace("|", "\\|"), needs.replace("|", "\\|"), caught.replace("|", "\\|")))
