#!/bin/sh
# seed_eval_b.sh <ID><suffix> (e.g. C05c): confirm the wave-2 seed in /tmp/seed-<IDb>, run ./check <ID> on a copy with the patch
i=$1; p=$(echo $i | cut -c1-3)
/verif/tools/confirm_seed.sh $i /tmp/seed-$i 2>&1 | grep -A1 "== demo\|build"
rm -rf /tmp/sv-$i && mkdir -p /tmp/sv-$i && cp -r /repo /tmp/sv-$i/repo && git -C /tmp/sv-$i/repo apply /tmp/seed-$i/_out/patch.diff || { echo APPLYFAIL; exit 1; }
h=$(python3 -c "import hashlib;print(hashlib.md5('/tmp/sv-$i/repo'.encode()).hexdigest()[:8])")
cd /verif; rm -f replays/$p-quick-1.$h.*
VERIF_REPO=/tmp/sv-$i/repo flock /verif/.build/sweep-$p.lock ./check $p | grep -v KNOWN | tail -1
grep -h "^# class" replays/$p-quick-1.$h.case 2>/dev/null | cut -c1-240 | head -3
grep -v "^warning\|^Hint\|apply\]\|^Note\|^$\|^⚠\|^  \|^trace" replays/$p-quick-1.$h.broken.txt 2>/dev/null | head -12
rm -rf /tmp/sv-$i
