#!/bin/sh
# sweep_props.sh <tier> <seed> <ID>…: the checks of the given properties on /repo, one after the other
tier=$1; seed=$2; shift 2
cd /verif
for p in "$@"; do
  VERIF_SEED=$seed flock .build/sweep-$p.lock ./check $p --tier $tier 2>&1 | grep -v "^KNOWN-FINDING" | tail -1
done
