#!/bin/sh
# mut.sh <scratch-repo> <file> <sed-expr> <props...>: apply a one-line mutant in a scratch copy and run checks
R=$1; f=$2; e=$3; shift 3
cd $R && git checkout -q -- . && sed -i "$e" $f && git diff --stat | tail -1
export GOFLAGS=-mod=mod GOPROXY=off GOSUMDB=off GOTOOLCHAIN=local
go build ./... || exit 1
h=$(python3 -c "import hashlib;print(hashlib.md5('$R'.encode()).hexdigest()[:8])")
for p in "$@"; do (cd /verif && rm -f replays/$p-quick-1.$h.*; VERIF_REPO=$R ./check $p | grep -v KNOWN | tail -1 | cut -c1-120; grep -h "^# class" /verif/replays/$p-quick-1.$h.case 2>/dev/null | cut -c1-200 | head -2); done
cd $R && git checkout -q -- .
