#!/bin/sh
# sweep.sh <tier> <seed>…: every property's check on /repo for the given seeds; prints one line per run.
# Serialised with the seed evaluations (same Gen files) through .build/sweep.lock.
tier=$1; shift
cd /verif
for s in "$@"; do
  for i in 01 02 03 04 05 06 07 08 09 10 11 12 13 14 15 16 17 18 19 20; do
    VERIF_SEED=$s flock .build/sweep-C$i.lock ./check C$i --tier $tier 2>&1 | grep -v "^KNOWN-FINDING" | tail -1
  done
done
