#!/bin/sh
# seed_eval.sh <ID>: confirm the seed in /tmp/seed-<ID>, run ./check against a copy with the patch
ID=$1
/verif/tools/confirm_seed.sh $ID /tmp/seed-$ID 2>&1 | tail -9
rm -rf /tmp/sv-$ID && mkdir -p /tmp/sv-$ID && cp -r /repo /tmp/sv-$ID/repo && git -C /tmp/sv-$ID/repo apply /tmp/seed-$ID/_out/patch.diff || exit 1
h=$(python3 -c "import hashlib;print(hashlib.md5('/tmp/sv-$ID/repo'.encode()).hexdigest()[:8])")
cd /verif && rm -f replays/$ID-quick-1.$h.*; VERIF_REPO=/tmp/sv-$ID/repo ./check $ID | grep -v KNOWN | tail -2
grep -h "^# class" replays/$ID-quick-1.$h.case 2>/dev/null | cut -c1-260 | head -4
head -12 replays/$ID-quick-1.$h.broken.txt 2>/dev/null
rm -rf /tmp/sv-$ID
