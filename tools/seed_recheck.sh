#!/bin/sh
# seed_recheck.sh <seed-id> [tier]: runs ./check of the seed's property on a scratch copy of /repo with
# /verif/seeded/<seed-id>/patch.diff applied, and prints the verdict line and the first classes of the replay.
# (Serialised with the sweeps through .build/sweep.lock; the scratch copy is removed afterwards.)
i=$1; tier=${2:-quick}; p=$(echo $i | cut -c1-3)
S=/tmp/sr-$i-$$; rm -rf $S; mkdir -p $S && cp -r /repo $S/repo && { git -C $S/repo apply /verif/seeded/$i/patch.diff 2>/dev/null || git -C $S/repo apply -3 /verif/seeded/$i/patch.diff 2>/dev/null; } || { echo "APPLYFAIL $i"; rm -rf $S; exit 2; }
h=$(python3 -c "import hashlib;print(hashlib.md5('$S/repo'.encode()).hexdigest()[:8])")
cd /verif
VERIF_REPO=$S/repo flock /verif/.build/sweep-$p.lock ./check $p --tier $tier | grep -v KNOWN | tail -1 | sed "s/^/$i: /"
grep -h "^# class" replays/$p-$tier-1.$h.case 2>/dev/null | cut -c1-200 | head -2
grep -v "^warning\|^Hint\|apply\]\|^Note\|^$\|^⚠\|^  \|^trace\|^✔" replays/$p-$tier-1.$h.broken.txt 2>/dev/null | head -8
rm -rf $S
