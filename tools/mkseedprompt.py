#!/usr/bin/env python3
"""mkseedprompt.py <ID> <suffix>: the brief for a further seeding agent (suffix c, d, …): the
wave-1 brief of the property, re-targeted at /tmp/seed-<ID><suffix>, plus one sentence that rules
out the places earlier seeds of this property already used (from seeded/<ID>*/meta.json)."""
import sys, os, json, glob
V = os.path.dirname(os.path.dirname(os.path.abspath(__file__)))
pid, suf = sys.argv[1], sys.argv[2]
s = open(os.path.join(V, "tools", "seedprompts", pid + ".txt")).read()
s = s.replace("/tmp/seed-" + pid, "/tmp/seed-" + pid + suf)
used = []
for d in sorted(glob.glob(os.path.join(V, "seeded", pid + "*"))):
    used.append(json.load(open(os.path.join(d, "meta.json")))["what"])
ex = ("\n\nEarlier rounds of this study already used the following changes for this property; yours must be in a DIFFERENT "
      "function or mechanism and manifest through a different kind of input, sequence or interleaving (be inventive: look at the "
      "less obvious code the property depends on — helper packages, the other protocol variants, error and shutdown paths, "
      "configuration-dependent branches):\n" + "".join("  - %s\n" % u for u in used))
s = s.replace("\n\nThen write a DEMONSTRATION", ex + "\nThen write a DEMONSTRATION", 1)
print(s)
