#!/bin/sh
# confirm_seed.sh <ID> <worktree>: re-checks a seeded change in its scratch worktree:
# builds, baseline tests with the change, demo fails with / passes without the change.
export GOFLAGS=-mod=mod GOPROXY=off GOSUMDB=off GOTOOLCHAIN=local
ID=$1; W=$2; cd $W || exit 2
git apply -R --check _out/patch.diff 2>/dev/null || { git checkout -q -- . ; git apply _out/patch.diff || exit 2; }
echo "== build (changed)"; go build ./... && go build -tags verif ./... && echo build-ok
echo "== tests (changed)"; go test -vet=off -count=1 ./... 2>&1 | grep -E "^(FAIL|ok|---)" | grep -v "^ok" | sort | uniq -c
echo "== demo (changed)"; sh _out/run.sh >/tmp/confirm-$ID-changed.log 2>&1; echo "exit=$?"
git apply -R _out/patch.diff
echo "== demo (unchanged)"; sh _out/run.sh >/tmp/confirm-$ID-unchanged.log 2>&1; echo "exit=$?"
git apply _out/patch.diff
