#!/bin/sh
# store_seed.sh <seed-id>: confirm the seed in /tmp/seed-<id> (builds, baseline tests, demo with/without),
# copy its deliverables to /verif/seeded/<id>/ and remove the worktree. meta.json is written separately.
i=$1
/verif/tools/confirm_seed.sh $i /tmp/seed-$i > /tmp/confirm-$i.txt 2>&1
grep -A1 "== demo\|== build" /tmp/confirm-$i.txt | tr '\n' ' '; echo
grep -A8 "== tests" /tmp/confirm-$i.txt | grep -v "== demo" | tr '\n' ' '; echo
d=/verif/seeded/$i; mkdir -p $d
for f in /tmp/seed-$i/_out/*; do if [ -d "$f" ]; then cp $f/* $d/; else cp $f $d/; fi; done
git -C /repo worktree remove --force /tmp/seed-$i; git -C /repo worktree prune
