#!/bin/sh
# seed_regress.sh: every stored seeded change must be reported by the quick check of its property
for d in /verif/seeded/*/; do /verif/tools/seed_recheck.sh $(basename $d) quick 2>&1 | head -1; done
