#!/bin/sh
# seed_regress.sh [lanes]: every stored (non-retired) seeded change must be reported by the quick check of
# its property; properties are spread over <lanes> parallel lanes (same-property seeds stay sequential).
lanes=${1:-4}
cd /verif; mkdir -p .build/sweeps; rm -f .build/sweeps/regress-lane*.txt
props=$(ls seeded | cut -c1-3 | sort -u)
n=0
for p in $props; do
  lane=$((n % lanes)); n=$((n+1))
  echo $p >> .build/sweeps/regress-lane$lane.props
done
for l in $(seq 0 $((lanes-1))); do
  ( for p in $(cat .build/sweeps/regress-lane$l.props 2>/dev/null); do
      for d in seeded/$p*; do
        s=$(basename $d)
        if grep -q '"retired"' $d/meta.json; then echo "$s: retired"; continue; fi
        timeout 2400 tools/seed_recheck.sh $s quick 2>&1 | head -1
      done
    done > .build/sweeps/regress-lane$l.txt 2>&1 ) &
done
wait
rm -f .build/sweeps/regress-lane*.props
cat .build/sweeps/regress-lane*.txt | sort
