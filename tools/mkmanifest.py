#!/usr/bin/env python3
"""Regenerates /verif/MANIFEST.json from the table below (keeps it valid at all times)."""
import json, os
V = os.path.dirname(os.path.dirname(os.path.abspath(__file__)))
TB = ("Lean 4.33.0 kernel + axioms propext/Classical.choice/Quot.sound only (audited per theorem on every run); "
      "the go/ast translator; the correspondence harness and its generators; hand-written Lean model validated by "
      "differential runs against the real packages, not verified; see DESIGN.md §7")
CLAIMED = {}
md = os.path.join(V, "manifest.d")
for fn in sorted(os.listdir(md)):
    if fn.endswith(".json"):
        c = json.load(open(os.path.join(md, fn)))
        CLAIMED[fn[:-5]] = dict(text=c["text"], ref=c.get("ref", ""), note=TB + ". " + c.get("note", ""))
# merged index of the known findings
kf = []
kd = os.path.join(V, "known_findings.d")
for fn in sorted(os.listdir(kd)):
    if fn.endswith(".json"):
        kf += json.load(open(os.path.join(kd, fn))).get("findings", [])
json.dump({"comment": "Merged index of known_findings.d/*.json (the committed sources; never written at run time by a check). status=open: genuine defect recorded, not repaired — the check prints KNOWN-FINDING for exactly this class and exits 0. status=fixed: repaired by the named fix: commit in /repo; suppresses nothing.",
           "findings": kf}, open(os.path.join(V, "known_findings.json"), "w"), indent=1)
TODO = {}
import subprocess
try:
    out = subprocess.run(["git", "-C", "/repo", "log", "--format=%h %s", "--grep=^verif hooks:"], capture_output=True, text=True).stdout
    HOOK_COMMITS = [l.strip() for l in out.splitlines() if l.strip()][::-1]
    json.dump({"source_commits": HOOK_COMMITS}, open(os.path.join(V, "hooks.json"), "w"), indent=1)
except Exception:
    HOOK_COMMITS = json.load(open(os.path.join(V, "hooks.json")))["source_commits"] if os.path.exists(os.path.join(V, "hooks.json")) else []
ids = ["C%02d" % i for i in range(1, 21)]
checks = []
for i in ids:
    if i in CLAIMED:
        c = CLAIMED[i]
        checks.append({
            "property_id": i,
            "quick_cmd": "./check %s --tier quick" % i,
            "thorough_cmd": "./check %s --tier thorough" % i,
            "evidence_file": "/verif/evidence/%s.json" % i,
            "replay_cmd_template": "./check %s --replay {path}" % i,
            "engine": "lean-proof+correspondence",
            "level_claimed": {"category": "proof", "text": c["text"], "design_ref": c["ref"]},
            "level_note": c["note"],
            "technique": "Lean 4 machine-checked proof over a model tied to the source by regenerated facts and differential correspondence",
        })
na = [{"property_id": i, "reason": TODO.get(i, "model, theorems and correspondence for this property are not built yet in this round (planned, see DESIGN.md §5); not a statement that proof cannot apply")} for i in ids if i not in CLAIMED]
m = {
 "version": 1,
 "setup_cmd": "./setup.sh",
 "hooks": {
  "guard": "verif",
  "enable": "go build -tags verif (the harness links /repo through a replace directive)",
  "baseline_off_cmd": "cd /repo && go build ./... && go test -mod=mod -json -vet=off -count=1 -timeout 25m ./...",
  "source_commits": HOOK_COMMITS,
  "add_only": True,
 },
 "engines": [{"name": "lean-proof+correspondence", "path": "/verif/check", "serves_properties": [c["property_id"] for c in checks],
              "kind_free_text": "Lean 4 theorems (lean/IpcHub/Props) over executable models; translator (harness/cmd/translator) regenerates source facts; harness (harness/cmd/harness) runs the real Go packages against the compiled Lean driver"}],
 "checks": checks,
 "notes": "All checks share ./check <id>; VERIF_SEED and VERIF_TIER are honoured. known_findings.json lists open/fixed genuine defects.",
 "not_applicable": na,
}
json.dump(m, open(os.path.join(V, "MANIFEST.json"), "w"), indent=1)
print("MANIFEST.json:", len(checks), "checks,", len(na), "not_applicable")
