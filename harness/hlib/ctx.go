// Package hlib is the shared library of the per-property correspondence binaries (harness/cmd/cXX).
package hlib

import (
	"bufio"
	"encoding/hex"
	"encoding/json"
	"flag"
	"fmt"
	"io/ioutil"
	"os"
	"os/exec"
	"path/filepath"
	"sort"
	"strings"
	"time"
)

// Finding is one disagreement: kind "corr" (implementation ≠ model) or "oracle"
// (implementation ≠ specification, i.e. the property fails on the implementation).
type Finding struct {
	Kind   string `json:"kind"`
	Class  string `json:"class"` // signature class, matched against known_findings.json
	Case   string `json:"case"`  // replayable case line(s)
	Impl   string `json:"impl"`
	Model  string `json:"model,omitempty"`
	Spec   string `json:"spec,omitempty"`
	Detail string `json:"detail,omitempty"`
}

// Result is what the harness hands to ./check
type Result struct {
	Property     string         `json:"property"`
	Tier         string         `json:"tier"`
	Seed         uint64         `json:"seed"`
	Evaluations  int            `json:"evaluations"`
	Distinct     int            `json:"distinct_nontrivial"`
	Rule         string         `json:"rule"`
	Samples      []string       `json:"samples"`
	Distribution map[string]int `json:"distribution"`
	Findings     []Finding      `json:"findings"`
	FindingCount map[string]int `json:"finding_count"`
	Exhaustive   bool           `json:"exhaustive"`
	Notes        []string       `json:"notes"`
	WallS        float64        `json:"wall_s"`
}

type Ctx struct {
	ID, Tier   string
	Seed       uint64
	DriverPath string
	Out        string
	Replay     string
	Search     bool
	Corpus     string
	Rng        *Rng
	Res        Result
	distinct   map[string]bool
	start      time.Time
	maxFind    int
}

func newCtx(id, tier string, seed uint64, driver, out, replay string, search bool, corpus string) *Ctx {
	c := &Ctx{ID: id, Tier: tier, Seed: seed, DriverPath: driver, Out: out, Replay: replay, Search: search, Corpus: corpus}
	c.Rng = NewRng(seed)
	c.Res = Result{Property: id, Tier: tier, Seed: seed, Distribution: map[string]int{}, FindingCount: map[string]int{}, Samples: []string{}, Findings: []Finding{}, Notes: []string{}}
	c.distinct = map[string]bool{}
	c.start = time.Now()
	c.maxFind = 40
	return c
}

func (c *Ctx) Thorough() bool { return c.Tier == "thorough" }

// Budget scales a quick-tier count
func (c *Ctx) Budget(quick, thorough int) int {
	n := quick
	if c.Thorough() {
		n = thorough
	}
	if c.Search {
		n *= 4
	}
	return n
}

func (c *Ctx) Count(key string)         { c.Res.Distribution[key]++ }
func (c *Ctx) CountN(key string, n int) { c.Res.Distribution[key] += n }

// Eval records one evaluated case; key identifies it for distinctness; nontrivial by the caller's rule
func (c *Ctx) Eval(key string, nontrivial bool) {
	c.Res.Evaluations++
	if nontrivial && !c.distinct[key] {
		c.distinct[key] = true
		c.Res.Distinct++
	}
}

func (c *Ctx) Sample(s string) {
	if len(c.Res.Samples) < 12 {
		c.Res.Samples = append(c.Res.Samples, s)
	}
}

func (c *Ctx) Note(s string) { c.Res.Notes = append(c.Res.Notes, s) }

func (c *Ctx) Find(f Finding) {
	k := f.Kind + ":" + f.Class
	c.Res.FindingCount[k]++
	// keep the first few of every class (shortest case preferred)
	n := 0
	for i, g := range c.Res.Findings {
		if g.Kind == f.Kind && g.Class == f.Class {
			n++
			if len(f.Case) < len(g.Case) && n >= 3 {
				c.Res.Findings[i] = f
				return
			}
		}
	}
	if n < 3 {
		c.Res.Findings = append(c.Res.Findings, f)
	}
}

func (c *Ctx) Finish() {
	c.Res.WallS = time.Since(c.start).Seconds()
	sort.Slice(c.Res.Findings, func(i, j int) bool { return c.Res.Findings[i].Class < c.Res.Findings[j].Class })
	b, _ := json.MarshalIndent(&c.Res, "", " ")
	if c.Out != "" {
		if err := ioutil.WriteFile(c.Out, b, 0644); err != nil {
			fmt.Fprintln(os.Stderr, "write result:", err)
			os.Exit(3)
		}
	} else {
		os.Stdout.Write(b)
		fmt.Println()
	}
}

// CorpusLines returns the lines of every *.case file of this property (minimised past failures)
func (c *Ctx) CorpusLines() []string {
	var lines []string
	files, _ := filepath.Glob(filepath.Join(c.Corpus, c.ID, "*.case"))
	sort.Strings(files)
	if c.Replay != "" {
		files = []string{c.Replay}
	}
	for _, f := range files {
		b, err := ioutil.ReadFile(f)
		if err != nil {
			continue
		}
		for _, l := range strings.Split(string(b), "\n") {
			l = strings.TrimSpace(l)
			if l == "" || strings.HasPrefix(l, "#") {
				continue
			}
			lines = append(lines, l)
		}
	}
	return lines
}

// ---- driver ----

// Drive pipes the lines to the Lean driver and returns one output line per input line.
func (c *Ctx) Drive(lines []string) []string {
	if len(lines) == 0 {
		return nil
	}
	cmd := exec.Command(c.DriverPath)
	stdin, err := cmd.StdinPipe()
	if err != nil {
		Fatal("driver stdin: %v", err)
	}
	stdout, err := cmd.StdoutPipe()
	if err != nil {
		Fatal("driver stdout: %v", err)
	}
	cmd.Stderr = os.Stderr
	if err := cmd.Start(); err != nil {
		Fatal("driver start: %v", err)
	}
	go func() {
		w := bufio.NewWriterSize(stdin, 1<<20)
		for _, l := range lines {
			w.WriteString(l)
			w.WriteByte('\n')
		}
		w.Flush()
		stdin.Close()
	}()
	outs := make([]string, 0, len(lines))
	sc := bufio.NewReaderSize(stdout, 1<<20)
	for {
		l, err := sc.ReadString('\n')
		if len(l) > 0 {
			outs = append(outs, strings.TrimRight(l, "\r\n"))
		}
		if err != nil {
			break
		}
	}
	cmd.Wait()
	if len(outs) != len(lines) {
		Fatal("driver returned %d lines for %d inputs (driver crashed?)", len(outs), len(lines))
	}
	return outs
}

// kv parses "a=1 b=2" into a map
func KV(s string) map[string]string {
	m := map[string]string{}
	for _, f := range strings.Fields(s) {
		i := strings.IndexByte(f, '=')
		if i > 0 {
			m[f[:i]] = f[i+1:]
		} else {
			m[f] = ""
		}
	}
	return m
}

func Hx(b []byte) string {
	if len(b) == 0 {
		return "-"
	}
	return hex.EncodeToString(b)
}

func Unhx(s string) []byte {
	if s == "-" {
		return nil
	}
	b, err := hex.DecodeString(s)
	if err != nil {
		Fatal("bad hex %q", s)
	}
	return b
}

func B01(b bool) string {
	if b {
		return "1"
	}
	return "0"
}

func Fatal(f string, a ...interface{}) {
	fmt.Fprintf(os.Stderr, "harness: "+f+"\n", a...)
	os.Exit(3)
}

// ---- PRNG: splitmix64, every random choice derives from VERIF_SEED ----

type Rng struct{ s uint64 }

// NewRng: the seed is scrambled first — the generator steps its state by a constant, so nearby
// raw seeds would give the same stream shifted by a few draws (VERIF_SEED=1,2,3 nearly identical runs)
func NewRng(seed uint64) *Rng {
	z := seed + 0x632BE59BD9B4E019
	z = (z ^ (z >> 30)) * 0xBF58476D1CE4E5B9
	z = (z ^ (z >> 27)) * 0x94D049BB133111EB
	return &Rng{s: z ^ (z >> 31)}
}
func (r *Rng) U64() uint64 {
	r.s += 0x9E3779B97F4A7C15
	z := r.s
	z = (z ^ (z >> 30)) * 0xBF58476D1CE4E5B9
	z = (z ^ (z >> 27)) * 0x94D049BB133111EB
	return z ^ (z >> 31)
}
func (r *Rng) Intn(n int) int {
	if n <= 0 {
		return 0
	}
	return int(r.U64() % uint64(n))
}
func (r *Rng) Bool() bool         { return r.U64()&1 == 1 }
func (r *Rng) Chance(p int) bool  { return r.Intn(100) < p }
func (r *Rng) Pick(s string) byte { return s[r.Intn(len(s))] }
func (r *Rng) Bytes(n int) []byte {
	b := make([]byte, n)
	for i := range b {
		b[i] = byte(r.U64())
	}
	return b
}

// Main parses the common flags, runs the property's runner and writes the result.
func Main(id string, run func(*Ctx)) {
	tier := flag.String("tier", "quick", "quick|thorough")
	seed := flag.Uint64("seed", 1, "PRNG seed")
	driver := flag.String("driver", "/verif/lean/.lake/build/bin/driver_"+strings.ToLower(id), "Lean driver executable")
	out := flag.String("out", "", "result JSON file")
	replay := flag.String("replay", "", "replay a case file instead of generating")
	search := flag.Bool("search", false, "enlarged budget: search for a failing input after a broken proof/correspondence")
	corpus := flag.String("corpus", "/verif/corpus", "corpus directory")
	flag.Parse()
	ctx := newCtx(id, *tier, *seed, *driver, *out, *replay, *search, *corpus)
	run(ctx)
	ctx.Finish()
}
