package main

// C08 — FLV output is valid FLV and carries the source frames faithfully.
//
// Implementation under test (real code, in process): flv.NewMuxer and its worker goroutine,
// the H.264/H.265/AAC packetizers, VideoData/AudioData/ScriptData marshalling, the decoder
// configuration records, amf writers, flv.NewWriter / Writer.WriteFlvTag / writeTag, the FLV
// cache a joining client is replayed from (media/cache.FlvCache), and the HTTP-FLV service.
//
// Each case is run on the implementation, then the same input is given to the Lean driver:
//   model=…  bytes predicted by the Lean model (Model/Flv.lean)   → "corr" finding on mismatch
//   spec=…   Spec.checkMux / checkClient evaluated on the implementation's bytes (when the
//            hypotheses of the theorem hold for the input: app=1) → "oracle" finding on failure

import (
	"fmt"
	"math"
	"os"
	"strings"
	"time"

	. "verifharness/hlib"

	"github.com/cnotch/ipchub/av/format/flv"
	"github.com/cnotch/xlog"
)

func main() { Main("C08", runC08) }

func float64frombits(u uint64) float64 { return math.Float64frombits(u) }

type pending struct {
	line    string
	kind    string // mux | wr
	impl    string // canonical implementation outcome
	implHex string // the hex of the bytes the implementation wrote
	gen     string
	class   string
	detail  string
	key     string
	nontri  bool
}

// Muxer.videoMetaReady for the case's parameter sets (classification of the input only)
func ready(c *muxCase) bool {
	if c.codec == "h265" {
		return len(c.vps) > 0 && len(c.sps) > 0 && len(c.pps) > 0 && (c.w != 0 || hevcSpsDecodes(c.sps))
	}
	return len(c.sps) >= 4 && len(c.pps) > 0 && (c.w != 0 || avcSpsDecodes(c.sps))
}

// index of the first frame that can be carried (-1: none)
func startIndex(c *muxCase) int {
	if c.known < len(c.frames) && ready(c) {
		return c.known
	}
	return -1
}

func muxClass(c *muxCase) string {
	if len(c.frames) > 0 && (c.known > 0 || !ready(c)) {
		return "seqhdr-without-paramsets"
	}
	return "mux-" + c.codec
}

func wrClass(c *wrCase) string {
	if len(c.tags) > 0 {
		if uint32(c.tags[0].time) == 0xffffffff && len(c.tags) > 1 {
			return "first-ts-sentinel"
		}
		for _, t := range c.tags[1:] {
			if t.time < c.tags[0].time {
				return "older-than-first-wraps"
			}
		}
	}
	return "wr"
}

func shortHex(b []byte) string {
	h := Hx(b)
	if len(h) > 160 {
		return h[:120] + "…" + h[len(h)-32:] + fmt.Sprintf("(%dB)", len(b))
	}
	return h
}

func firstDiff(a, b []byte) int {
	n := len(a)
	if len(b) < n {
		n = len(b)
	}
	for i := 0; i < n; i++ {
		if a[i] != b[i] {
			return i
		}
	}
	if len(a) != len(b) {
		return n
	}
	return -1
}

func runC08(c *Ctx) {
	xlog.ReplaceGlobal(xlog.New(xlog.NewNopCore())) // the streams of the service cases log through the global logger
	installHooks()
	c.Res.Rule = "case = (stream metadata, parameter sets, frame sequence with NAL types/sizes/PTS/DTS, index at which the parameter sets become known) run through the real flv.Muxer+flv.Writer, " +
		"or the same plus (GOP caching, clients joining after k tags / frames, backlogged or not) run through the real flv.Muxer + cache.FlvCache + one flv.Writer per client, resp. a real media.Stream with HTTP-FLV / WebSocket-FLV clients; " +
		"or (type flags, arbitrary tag sequence handed to one client) run through the real flv.Writer; " +
		"distinct by the op line without the implementation's bytes; non-trivial when at least one media tag is written"
	var batch []pending
	var driverTime, implTime time.Duration
	driverBytes := 0
	kindBytes := map[string]int{}
	flush := func() {
		if len(batch) == 0 {
			return
		}
		lines := make([]string, len(batch))
		for i := range batch {
			lines[i] = batch[i].line
		}
		if f := os.Getenv("C08_DUMP"); f != "" { // debugging aid: keep the op lines
			if fh, err := os.OpenFile(f, os.O_APPEND|os.O_CREATE|os.O_WRONLY, 0644); err == nil {
				fh.WriteString(strings.Join(lines, "\n") + "\n")
				fh.Close()
			}
		}
		td := time.Now()
		outs := c.Drive(lines)
		driverTime += time.Since(td)
		for i, l := range lines {
			driverBytes += len(l)
			kindBytes[batch[i].gen] += len(l)
		}
		for i, p := range batch {
			m := KV(outs[i])
			c.Eval(p.key, p.nontri)
			model := m["model"]
			if model == "same" {
				model = p.implHex
			}
			if p.kind == "mux" && m["dead"] == "1" {
				model += "+dead"
			}
			if outs[i] == "bad-op" {
				c.Find(Finding{Kind: "corr", Class: "bad-op", Case: trimCase(p.line), Impl: p.impl, Model: "bad-op", Detail: p.detail})
				continue
			}
			if model != p.impl {
				d := ""
				if model != "err" && p.impl != "err" && !strings.HasSuffix(p.impl, "hang") {
					mb, ib := Unhx(strings.TrimSuffix(model, "+dead")), Unhx(strings.TrimSuffix(p.impl, "+dead"))
					d = fmt.Sprintf(" first difference at byte %d (impl %d bytes, model %d bytes)", firstDiff(mb, ib), len(ib), len(mb))
				}
				c.Find(Finding{Kind: "corr", Class: p.kind, Case: trimCase(p.line), Impl: shorten(p.impl), Model: shorten(model), Spec: m["spec"], Detail: p.detail + d})
			}
			if m["app"] == "1" {
				c.Count(p.kind + "-hypotheses-hold")
				if m["spec"] != "ok" {
					c.Find(Finding{Kind: "oracle", Class: p.class, Case: trimCase(p.line), Impl: shorten(p.impl), Model: shorten(model), Spec: "checkMux/checkClient must hold: " + m["spec"], Detail: p.detail})
				}
				if m["mspec"] != "ok" {
					c.Count(p.kind + "-model-violates-spec")
				}
			} else {
				c.Count(p.kind + "-outside-hypotheses")
			}
		}
		batch = batch[:0]
	}
	size := 0
	add := func(p pending) {
		batch = append(batch, p)
		size += len(p.line)
		if len(batch) >= 400 || size > 24<<20 {
			flush()
			size = 0
		}
	}

	samples := 0
	doMux := func(mc *muxCase) *muxResult {
		ti := time.Now()
		res := runMux(mc, waitBudget)
		if res.hang {
			// the budget of a wait expired: run the case once more, alone, with the long budget
			c.Count("mux-wait-expired-rerun")
			res = runMux(mc, longWaitBudget)
		}
		implTime += time.Since(ti)
		impl := "err"
		switch {
		case res.newErr != "":
			c.Count("mux-new-error")
		case res.hang:
			// still stuck after the long budget: the worker neither died nor came back to its queue
			impl = Hx(res.out) + "+hang"
			c.Count("mux-hang")
			c.Find(Finding{Kind: "oracle", Class: "mux-worker-stuck", Case: mc.line("gen", "", nil), Impl: "the muxer worker did not come back to its queue within " + longWaitBudget.String() + " (two runs)", Spec: "every frame is taken and the worker survives"})
		default:
			impl = Hx(res.out)
			if res.dead {
				impl += "+dead"
				c.Count("mux-worker-died")
			}
		}
		line := mc.line("gen", res.date, res.out)
		key := mc.line("gen", "", nil)
		ntags := len(res.tags)
		c.Count("mux-codec-" + mc.codec)
		if mc.aac {
			c.Count("mux-with-aac")
		} else {
			c.Count("mux-without-aac")
		}
		if len(mc.frames) > 0 && mc.frames[0].mt == 1 {
			c.Count("mux-audio-first")
		}
		if res.date != "" && !res.dateOK {
			c.Count("mux-creationdate-not-now")
		}
		c.Count(fmt.Sprintf("mux-tags-%s", bucket(ntags)))
		detail := fmt.Sprintf("codec=%s aac=%v sps=%dB pps=%dB vps=%dB known=%d frames=%s tags=%d %s", mc.codec, mc.aac, len(mc.sps), len(mc.pps), len(mc.vps), mc.known, frameSummary(mc), ntags, res.panicMsg)
		if samples < 5 && ntags > 3 && len(line) < 3000 {
			samples++
			c.Sample(detail + " out=" + shortHex(res.out))
		}
		add(pending{line: line, kind: "mux", gen: mc.gen, impl: impl, implHex: Hx(res.out), class: muxClass(mc), detail: detail, key: key, nontri: ntags > 3})
		return &res
	}
	wsamples := 0
	doWr := func(wc *wrCase) {
		tags := make([]*flv.Tag, len(wc.tags))
		for i, t := range wc.tags {
			tags[i] = &flv.Tag{TagType: byte(t.typ), Timestamp: uint32(t.time), DataSize: uint32(len(t.data)), Data: t.data}
		}
		res := runWriter(byte(wc.flags), tags)
		impl := Hx(res.out)
		if res.newErr {
			impl = "err"
			c.Count("wr-new-error")
		} else if res.panicked != "" {
			impl = "panic:" + res.panicked
		}
		line := wc.line("gen", res.out)
		c.Count(wc.gen + "-tags-" + bucket(len(wc.tags)))
		detail := fmt.Sprintf("%s flags=%d tags=%s", wc.gen, wc.flags, tagSummary(wc))
		if wsamples < 4 && len(wc.tags) > 2 && len(line) < 2500 {
			wsamples++
			c.Sample(detail + " out=" + shortHex(res.out))
		}
		add(pending{line: line, kind: "wr", gen: wc.gen, impl: impl, implHex: Hx(res.out), class: wrClass(wc), detail: detail, key: wc.line("gen", nil), nontri: len(wc.tags) > 0})
	}
	// a join scenario: one driver line per client
	jsamples := 0
	doJoin := func(jc *joinCase, res *muxResult) {
		mc := jc.mc
		var outs []joinOutcome
		date, problem := "", ""
		ti := time.Now()
		if jc.via == "cache" {
			if res == nil {
				r := runMux(mc, waitBudget)
				res = &r
			}
			if res.hang || res.newErr != "" {
				return // the mux case itself reports it
			}
			flags := byte(flv.TypeFlagsVideo)
			if mc.aac {
				flags |= flv.TypeFlagsAudio
			}
			outs, problem = runJoinCache(jc, res.tags, flags)
			date = res.date
			if problem != "" {
				c.Count("join-cache-writer-error")
			}
		} else {
			var info svcInfo
			outs, info, problem = runJoinService(jc, waitBudget)
			if problem != "" {
				c.Count("svc-wait-expired-rerun")
				outs, info, problem = runJoinService(jc, longWaitBudget)
			}
			implTime += time.Since(ti)
			if problem != "" {
				// twice, the second time alone with the long budget: a worker or consumer is stuck
				c.Find(Finding{Kind: "oracle", Class: "svc-stuck", Case: jc.line(0, 0, "", nil), Impl: problem + " (two runs, the second with a budget of " + longWaitBudget.String() + ")",
					Spec: "every client is served", Detail: fmt.Sprintf("via=%s gop=%v sched=%s frames=%s", jc.via, jc.gop, jc.sched(), frameSummary(mc))})
				return
			}
			date = info.date
			for _, ct := range info.ctypes {
				if ct != "video/x-flv" {
					c.Count("http-flv-content-type-not-video/x-flv")
				}
			}
		}
		for i, o := range outs {
			mode := "eager"
			if jc.clients[i].lazy {
				mode = "backlogged"
			}
			after := 0
			for j := range outs {
				if j != i && outs[j].k > o.k {
					after++
				}
			}
			c.Count(fmt.Sprintf("join-%s-gop=%v-%s-joined-after-%s-tags", jc.via, jc.gop, mode, bucket(o.k)))
			if after > 0 && jc.clients[i].lazy {
				c.Count(fmt.Sprintf("join-%s-backlogged-while-others-join", jc.via))
			}
			line := jc.line(i, o.k, date, o.out)
			detail := fmt.Sprintf("via=%s gop=%v sched=%s client=%d(%s) joined-after-tags=%d codec=%s aac=%v known=%d frames=%s", jc.via, jc.gop, jc.sched(), i, mode, o.k, mc.codec, mc.aac, mc.known, frameSummary(mc))
			if jsamples < 3 && len(line) < 3000 && o.k > 3 {
				jsamples++
				c.Sample(detail + " out=" + shortHex(o.out))
			}
			cls := fmt.Sprintf("join-%s-%s", jc.via, mode)
			if after > 0 {
				cls += "-others-join-later"
			}
			add(pending{line: line, kind: "join", gen: "join-" + jc.via, impl: Hx(o.out), implHex: Hx(o.out), class: cls, detail: detail, key: jc.line(i, o.k, "", nil), nontri: len(o.out) > 13})
		}
	}

	// ---- corpus / replay first ----
	for _, l := range c.CorpusLines() {
		if jc := parseJoinLine(l); jc != nil {
			doJoin(jc, nil)
			c.Count("corpus-join")
		} else if mc := parseMuxLine(l); mc != nil {
			doMux(mc)
			c.Count("corpus-mux")
		} else if wc := parseWrLine(l); wc != nil {
			doWr(wc)
			c.Count("corpus-wr")
		}
	}

	// ---- generated frame sequences through the real muxer + writer, and — with the tags the
	//      real muxer produced — a client joining at every tag through the real FlvCache ----
	if c.Thorough() {
		bigPct, wrBigPermille = 20, 12
	}
	nMux := c.Budget(2200, 15000)
	for i := 0; i < nMux; i++ {
		mc := genMuxCase(c.Rng, c.Count, c.Thorough())
		res := doMux(mc)
		if i%3 == 0 && !res.dead && !res.hang && res.newErr == "" && len(res.tags) > 0 && (len(res.out) < 6000 || i%60 == 0) {
			for _, gop := range []bool{true, false} {
				doJoin(genJoinCase(c.Rng, mc, "cache", gop, len(res.tags), res.tags), res)
			}
		}
	}
	// ---- the services end to end: a media.Stream, clients attached through ConsumeByHTTP /
	//      ConsumeByWebsocket after k frames, cache_gop on and off ----
	nSvc := c.Budget(250, 2500)
	for i := 0; i < nSvc; i++ {
		mc := genMuxCase(c.Rng, func(string) {}, false)
		mc.known = 0
		// the AAC packetizer's template is built when the stream is created, from what the SDP says
		mc.asr, mc.ass, mc.ach = 44100, 16, 2
		if mc.codec == "other" || !ready(mc) || len(mc.frames) == 0 {
			continue
		}
		okc := true
		for _, f := range mc.frames {
			if f.mt == 0 && len(f.payload) == 0 || len(f.payload) > 4000 {
				okc = false
			}
		}
		if !okc {
			continue
		}
		via := "http"
		if c.Rng.Chance(35) {
			via = "ws"
		}
		doJoin(genJoinCase(c.Rng, mc, via, c.Rng.Bool(), len(mc.frames), nil), nil)
	}
	// ---- generated tag sequences through the real writer ----
	nWr := c.Budget(3500, 30000)
	for i := 0; i < nWr; i++ {
		doWr(genWrCase(c.Rng, c.Count))
	}
	flush()
	c.Note(fmt.Sprintf("time: implementation (muxer runs) %.1fs, Lean driver %.1fs for %d MB of op lines %v", implTime.Seconds(), driverTime.Seconds(), driverBytes>>20, kindBytes))
}

func bucket(n int) string {
	switch {
	case n == 0:
		return "0"
	case n <= 3:
		return "1-3"
	case n <= 8:
		return "4-8"
	case n <= 20:
		return "9-20"
	}
	return ">20"
}

func frameSummary(mc *muxCase) string {
	var b strings.Builder
	for i, f := range mc.frames {
		if i >= 12 {
			fmt.Fprintf(&b, "…(%d)", len(mc.frames))
			break
		}
		k := "x"
		if f.mt == 0 {
			k = "v"
		} else if f.mt == 1 {
			k = "a"
		}
		h := ""
		if len(f.payload) > 0 {
			h = fmt.Sprintf("%02x", f.payload[0])
		}
		fmt.Fprintf(&b, "%s[%s;%dB;dts=%dms;pts-dts=%dms] ", k, h, len(f.payload), f.dts/msNs, f.pts/msNs-f.dts/msNs)
	}
	return b.String()
}

func tagSummary(wc *wrCase) string {
	var b strings.Builder
	for i, t := range wc.tags {
		if i >= 12 {
			fmt.Fprintf(&b, "…(%d)", len(wc.tags))
			break
		}
		fmt.Fprintf(&b, "%d@%d(%dB) ", t.typ, t.time, len(t.data))
	}
	return b.String()
}

// keep findings readable: cases longer than 20 kB are cut in the evidence (the replay keeps the
// shortest ones anyway)
func trimCase(l string) string { return l }

func shorten(s string) string {
	if len(s) > 200 {
		return s[:150] + "…" + s[len(s)-40:] + fmt.Sprintf("(%d hex chars)", len(s))
	}
	return s
}

// genJoinCase: one to four clients on one stream.  Join points (`n`: number of tags for
// via=cache, of frames for the services) are drawn over the whole stream with the interesting
// ones favoured: before anything, inside the configuration prefix, right after a key frame, at
// the end.  A client is backlogged with probability 2/5; with several clients the earliest one
// is backlogged half of the time, so that later joins happen while its replay is unwritten.
func genJoinCase(r *Rng, mc *muxCase, via string, gop bool, n int, tags []*flv.Tag) *joinCase {
	jc := &joinCase{mc: mc, gop: gop, via: via}
	var keys []int // join points right after a key frame
	if tags != nil {
		for i, t := range tags {
			if t.IsH2645KeyFrame() && !t.IsH2645SequenceHeader() {
				keys = append(keys, i+1)
			}
		}
	} else {
		for i, f := range mc.frames {
			if f.mt == 0 && len(f.payload) > 0 && isKeyNal(mc.codec, f.payload[0]) {
				keys = append(keys, i+1)
			}
		}
	}
	nc := 1 + r.Intn(2)
	if r.Chance(35) {
		nc = 3 + r.Intn(2)
	}
	for i := 0; i < nc; i++ {
		var at int
		switch x := r.Intn(100); {
		case x < 10:
			at = 0
		case x < 20:
			at = r.Intn(4)
		case x < 45 && len(keys) > 0:
			at = keys[r.Intn(len(keys))] + r.Intn(3)
		case x < 52:
			at = n
		default:
			at = r.Intn(n + 1)
		}
		if at > n {
			at = n
		}
		jc.clients = append(jc.clients, joinClient{at: at, lazy: r.Chance(40)})
	}
	if nc > 1 && r.Chance(50) {
		first := 0
		for i, cl := range jc.clients {
			if cl.at < jc.clients[first].at {
				first = i
			}
		}
		jc.clients[first].lazy = true
	}
	return jc
}

func isKeyNal(codec string, b0 byte) bool {
	if codec == "h265" {
		t := (b0 >> 1) & 0x3f
		return t >= 16 && t <= 21
	}
	return b0&0x1f == 5
}
