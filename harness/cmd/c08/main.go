package main

// C08 — FLV output is valid FLV and carries the source frames faithfully.
//
// Implementation under test (real code, in process): flv.NewMuxer and its worker goroutine,
// the H.264/H.265/AAC packetizers, VideoData/AudioData/ScriptData marshalling, the decoder
// configuration records, amf writers, flv.NewWriter / Writer.WriteFlvTag / writeTag, the FLV
// cache a joining client is replayed from (media/cache.FlvCache), and the HTTP-FLV service.
//
// Each case is run on the implementation, then the same input is given to the Lean driver:
//   model=…  bytes predicted by the Lean model (Model/Flv.lean)   → "corr" finding on mismatch
//   spec=…   Spec.checkMux / checkClient evaluated on the implementation's bytes (when the
//            hypotheses of the theorem hold for the input: app=1) → "oracle" finding on failure

import (
	"fmt"
	"math"
	"os"
	"strings"
	"time"

	. "verifharness/hlib"

	"github.com/cnotch/ipchub/av/format/flv"
	"github.com/cnotch/xlog"
)

func main() { Main("C08", runC08) }

func float64frombits(u uint64) float64 { return math.Float64frombits(u) }

type pending struct {
	line    string
	kind    string // mux | wr
	impl    string // canonical implementation outcome
	implHex string // the hex of the bytes the implementation wrote
	gen     string
	class   string
	detail  string
	key     string
	nontri  bool
}

func ready(c *muxCase) bool {
	if c.codec == "h265" {
		return len(c.vps) > 0 && len(c.sps) > 0 && len(c.pps) > 0
	}
	return len(c.sps) >= 4 && len(c.pps) > 0
}

// index of the first frame that can be carried (-1: none)
func startIndex(c *muxCase) int {
	if c.known < len(c.frames) && ready(c) {
		return c.known
	}
	return -1
}

func muxClass(c *muxCase) string {
	if len(c.frames) > 0 && (c.known > 0 || !ready(c)) {
		return "seqhdr-without-paramsets"
	}
	return "mux-" + c.codec
}

func wrClass(c *wrCase) string {
	if len(c.tags) > 0 {
		if uint32(c.tags[0].time) == 0xffffffff && len(c.tags) > 1 {
			return "first-ts-sentinel"
		}
		for _, t := range c.tags[1:] {
			if t.time < c.tags[0].time {
				return "older-than-first-wraps"
			}
		}
	}
	return "wr"
}

func shortHex(b []byte) string {
	h := Hx(b)
	if len(h) > 160 {
		return h[:120] + "…" + h[len(h)-32:] + fmt.Sprintf("(%dB)", len(b))
	}
	return h
}

func firstDiff(a, b []byte) int {
	n := len(a)
	if len(b) < n {
		n = len(b)
	}
	for i := 0; i < n; i++ {
		if a[i] != b[i] {
			return i
		}
	}
	if len(a) != len(b) {
		return n
	}
	return -1
}

func runC08(c *Ctx) {
	xlog.ReplaceGlobal(xlog.New(xlog.NewNopCore())) // the streams of the service cases log through the global logger
	c.Res.Rule = "case = (stream metadata, parameter sets, frame sequence with NAL types/sizes/PTS/DTS, index at which the parameter sets become known) run through the real flv.Muxer+flv.Writer, " +
		"or (type flags, tag sequence as delivered to one client — generated, or produced by the real muxer and replayed from the real FlvCache at every join point) run through the real flv.Writer; " +
		"distinct by the op line without the implementation's bytes; non-trivial when at least one media tag is written"
	var batch []pending
	var driverTime, implTime time.Duration
	driverBytes := 0
	kindBytes := map[string]int{}
	flush := func() {
		if len(batch) == 0 {
			return
		}
		lines := make([]string, len(batch))
		for i := range batch {
			lines[i] = batch[i].line
		}
		if f := os.Getenv("C08_DUMP"); f != "" { // debugging aid: keep the op lines
			if fh, err := os.OpenFile(f, os.O_APPEND|os.O_CREATE|os.O_WRONLY, 0644); err == nil {
				fh.WriteString(strings.Join(lines, "\n") + "\n")
				fh.Close()
			}
		}
		td := time.Now()
		outs := c.Drive(lines)
		driverTime += time.Since(td)
		for i, l := range lines {
			driverBytes += len(l)
			kindBytes[batch[i].gen] += len(l)
		}
		for i, p := range batch {
			m := KV(outs[i])
			c.Eval(p.key, p.nontri)
			model := m["model"]
			if model == "same" {
				model = p.implHex
			}
			if p.kind == "mux" && m["dead"] == "1" {
				model += "+dead"
			}
			if outs[i] == "bad-op" {
				c.Find(Finding{Kind: "corr", Class: "bad-op", Case: trimCase(p.line), Impl: p.impl, Model: "bad-op", Detail: p.detail})
				continue
			}
			if model != p.impl {
				d := ""
				if model != "err" && p.impl != "err" && !strings.HasSuffix(p.impl, "hang") {
					mb, ib := Unhx(strings.TrimSuffix(model, "+dead")), Unhx(strings.TrimSuffix(p.impl, "+dead"))
					d = fmt.Sprintf(" first difference at byte %d (impl %d bytes, model %d bytes)", firstDiff(mb, ib), len(ib), len(mb))
				}
				c.Find(Finding{Kind: "corr", Class: p.kind, Case: trimCase(p.line), Impl: shorten(p.impl), Model: shorten(model), Spec: m["spec"], Detail: p.detail + d})
			}
			if m["app"] == "1" {
				c.Count(p.kind + "-hypotheses-hold")
				if m["spec"] != "ok" {
					c.Find(Finding{Kind: "oracle", Class: p.class, Case: trimCase(p.line), Impl: shorten(p.impl), Model: shorten(model), Spec: "checkMux/checkClient must hold: " + m["spec"], Detail: p.detail})
				}
				if m["mspec"] != "ok" {
					c.Count(p.kind + "-model-violates-spec")
				}
			} else {
				c.Count(p.kind + "-outside-hypotheses")
			}
		}
		batch = batch[:0]
	}
	size := 0
	add := func(p pending) {
		batch = append(batch, p)
		size += len(p.line)
		if len(batch) >= 400 || size > 24<<20 {
			flush()
			size = 0
		}
	}

	samples := 0
	doMux := func(mc *muxCase) *muxResult {
		ti := time.Now()
		res := runMux(mc)
		implTime += time.Since(ti)
		impl := "err"
		switch {
		case res.newErr != "":
			c.Count("mux-new-error")
		case res.hang:
			impl = Hx(res.out) + "+hang"
			c.Count("mux-hang")
		default:
			impl = Hx(res.out)
			if res.dead {
				impl += "+dead"
				c.Count("mux-worker-died")
			}
		}
		line := mc.line("gen", res.date, res.out)
		key := mc.line("gen", "", nil)
		ntags := len(res.tags)
		c.Count("mux-codec-" + mc.codec)
		if mc.aac {
			c.Count("mux-with-aac")
		} else {
			c.Count("mux-without-aac")
		}
		if len(mc.frames) > 0 && mc.frames[0].mt == 1 {
			c.Count("mux-audio-first")
		}
		if res.date != "" && !res.dateOK {
			c.Count("mux-creationdate-not-now")
		}
		c.Count(fmt.Sprintf("mux-tags-%s", bucket(ntags)))
		detail := fmt.Sprintf("codec=%s aac=%v sps=%dB pps=%dB vps=%dB known=%d frames=%s tags=%d %s", mc.codec, mc.aac, len(mc.sps), len(mc.pps), len(mc.vps), mc.known, frameSummary(mc), ntags, res.panicMsg)
		if samples < 5 && ntags > 3 && len(line) < 3000 {
			samples++
			c.Sample(detail + " out=" + shortHex(res.out))
		}
		add(pending{line: line, kind: "mux", gen: mc.gen, impl: impl, implHex: Hx(res.out), class: muxClass(mc), detail: detail, key: key, nontri: ntags > 3})
		return &res
	}
	wsamples := 0
	var svcOut []byte // set: the bytes come from the HTTP-FLV / WebSocket-FLV service instead of a bare flv.Writer
	doWr := func(wc *wrCase) {
		tags := make([]*flv.Tag, len(wc.tags))
		for i, t := range wc.tags {
			tags[i] = &flv.Tag{TagType: byte(t.typ), Timestamp: uint32(t.time), DataSize: uint32(len(t.data)), Data: t.data}
		}
		var res wrResult
		if svcOut != nil {
			res.out = svcOut
		} else {
			res = runWriter(byte(wc.flags), tags)
		}
		impl := Hx(res.out)
		if res.newErr {
			impl = "err"
			c.Count("wr-new-error")
		} else if res.panicked != "" {
			impl = "panic:" + res.panicked
		}
		line := wc.line("gen", res.out)
		c.Count(wc.gen + "-tags-" + bucket(len(wc.tags)))
		detail := fmt.Sprintf("%s flags=%d tags=%s", wc.gen, wc.flags, tagSummary(wc))
		if wsamples < 4 && len(wc.tags) > 2 && len(line) < 2500 {
			wsamples++
			c.Sample(detail + " out=" + shortHex(res.out))
		}
		add(pending{line: line, kind: "wr", gen: wc.gen, impl: impl, implHex: Hx(res.out), class: wrClass(wc), detail: detail, key: wc.line("gen", nil), nontri: len(wc.tags) > 0})
		if wc.mc != nil && !res.newErr && res.panicked == "" {
			// the same bytes against the join-aware statement (configuration before media, each
			// media tag = a source frame of some tail of the sequence)
			jl := wc.mc.line("join", "", res.out)
			cls := "join-order-or-fidelity"
			if wrClass(wc) != "wr" {
				cls = wrClass(wc)
			}
			add(pending{line: jl, kind: "join", gen: wc.gen + "-oracle", impl: impl, implHex: Hx(res.out), class: cls, detail: detail + " frames=" + frameSummary(wc.mc), key: jl, nontri: len(wc.tags) > 3})
		}
	}

	// ---- corpus / replay first ----
	for _, l := range c.CorpusLines() {
		if mc := parseMuxLine(l); mc != nil {
			doMux(mc)
			c.Count("corpus-mux")
		} else if wc := parseWrLine(l); wc != nil {
			doWr(wc)
			c.Count("corpus-wr")
		}
	}

	// ---- generated frame sequences through the real muxer + writer, and — with the tags the
	//      real muxer produced — a client joining at every tag through the real FlvCache ----
	if c.Thorough() {
		bigPct, wrBigPermille = 20, 12
	}
	nMux := c.Budget(2200, 15000)
	for i := 0; i < nMux; i++ {
		mc := genMuxCase(c.Rng, c.Count, c.Thorough())
		res := doMux(mc)
		if i%3 == 0 && !res.dead && res.newErr == "" && (len(res.out) < 6000 || i%60 == 0) {
			for _, wc := range joinCases(c, mc, res) {
				doWr(wc)
			}
		}
	}
	// ---- the services end to end: a media.Stream, a client attached through ConsumeByHTTP /
	//      ConsumeByWebsocket after k frames, cache_gop on and off ----
	nSvc := c.Budget(250, 2500)
	for i := 0; i < nSvc; i++ {
		mc := genMuxCase(c.Rng, func(string) {}, false)
		mc.known = 0
		if mc.codec == "other" || !ready(mc) || len(mc.frames) == 0 {
			continue
		}
		okc := true
		for _, f := range mc.frames {
			if f.mt == 0 && len(f.payload) == 0 || len(f.payload) > 4000 {
				okc = false
			}
		}
		if !okc {
			continue
		}
		k := c.Rng.Intn(len(mc.frames) + 1)
		gop, ws := c.Rng.Bool(), c.Rng.Chance(35)
		sr := runService(mc, k, gop, ws)
		kind := "http-flv"
		if ws {
			kind = "ws-flv"
		}
		if sr.problem != "" {
			c.Find(Finding{Kind: "corr", Class: kind, Case: mc.line("gen", "", nil), Impl: sr.problem, Model: "a served client", Detail: fmt.Sprintf("k=%d gop=%v", k, gop)})
			continue
		}
		c.Count(fmt.Sprintf("%s-joined-after-%s-frames-gop=%v", kind, bucket(k), gop))
		if !ws && sr.ctype != "video/x-flv" {
			c.Count("http-flv-content-type-not-video/x-flv")
		}
		sr.wc.mc = mc
		svcOut = sr.out
		if svcOut == nil {
			svcOut = []byte{}
		}
		doWr(sr.wc)
		svcOut = nil
	}
	// ---- generated tag sequences through the real writer ----
	nWr := c.Budget(3500, 30000)
	for i := 0; i < nWr; i++ {
		doWr(genWrCase(c.Rng, c.Count))
	}
	flush()
	c.Note(fmt.Sprintf("time: implementation (muxer runs) %.1fs, Lean driver %.1fs for %d MB of op lines %v", implTime.Seconds(), driverTime.Seconds(), driverBytes>>20, kindBytes))
}

func bucket(n int) string {
	switch {
	case n == 0:
		return "0"
	case n <= 3:
		return "1-3"
	case n <= 8:
		return "4-8"
	case n <= 20:
		return "9-20"
	}
	return ">20"
}

func frameSummary(mc *muxCase) string {
	var b strings.Builder
	for i, f := range mc.frames {
		if i >= 12 {
			fmt.Fprintf(&b, "…(%d)", len(mc.frames))
			break
		}
		k := "x"
		if f.mt == 0 {
			k = "v"
		} else if f.mt == 1 {
			k = "a"
		}
		h := ""
		if len(f.payload) > 0 {
			h = fmt.Sprintf("%02x", f.payload[0])
		}
		fmt.Fprintf(&b, "%s[%s;%dB;dts=%dms;pts-dts=%dms] ", k, h, len(f.payload), f.dts/msNs, f.pts/msNs-f.dts/msNs)
	}
	return b.String()
}

func tagSummary(wc *wrCase) string {
	var b strings.Builder
	for i, t := range wc.tags {
		if i >= 12 {
			fmt.Fprintf(&b, "…(%d)", len(wc.tags))
			break
		}
		fmt.Fprintf(&b, "%d@%d(%dB) ", t.typ, t.time, len(t.data))
	}
	return b.String()
}

// keep findings readable: cases longer than 20 kB are cut in the evidence (the replay keeps the
// shortest ones anyway)
func trimCase(l string) string { return l }

func shorten(s string) string {
	if len(s) > 200 {
		return s[:150] + "…" + s[len(s)-40:] + fmt.Sprintf("(%d hex chars)", len(s))
	}
	return s
}

// joinCases: the tags the real muxer produced for mc are fed to the real FlvCache as the stream
// does (CachePack, then delivery); a client joining before tag k is handed PushTo's replay and
// then the live tags k….  Source times of the tags are known from the frames.
func joinCases(c *Ctx, mc *muxCase, res *muxResult) []*wrCase {
	if startIndex(mc) < 0 || mc.known != 0 || len(res.tags) > 40 {
		return nil
	}
	times, ok := tagTimes(mc, len(res.tags))
	if !ok {
		return nil // the mux comparison reports the disagreement
	}
	var out []*wrCase
	flags := 4
	if mc.aac {
		flags = 5
	}
	for _, gop := range []bool{true, false} {
		for k := 0; k <= len(res.tags); k++ {
			if len(res.tags) > 10 && !c.Rng.Chance(30) {
				continue
			}
			wc := deliveredCase(res.tags, times, k, gop, flags)
			wc.mc = mc
			wc.gen = "join"
			if gop {
				wc.gen = "join-gop"
			}
			c.Count(fmt.Sprintf("%s-replayed-%s", wc.gen, bucket(wc.replayed)))
			for _, t := range wc.tags {
				if t.time < wc.tags[0].time {
					c.Count(wc.gen + "-has-tag-older-than-first")
					break
				}
			}
			out = append(out, wc)
		}
	}
	return out
}
