package main

// Running the REAL ipchub FLV code for one case: flv.NewMuxer (its worker goroutine),
// the packetizers, flv.NewWriter / Writer.WriteFlvTag, amf — in process.

import (
	"bytes"
	"fmt"
	"math"
	"strings"
	"sync"
	"sync/atomic"
	"time"

	"github.com/cnotch/ipchub/av/codec"
	"github.com/cnotch/ipchub/av/codec/h264"
	"github.com/cnotch/ipchub/av/codec/hevc"
	"github.com/cnotch/ipchub/av/format/flv"
	"github.com/cnotch/xlog"
)

// ---- a logger core that tells the harness what the muxer worker is doing ----

type probeCore struct {
	idle int64 // "flvmuxer:receive nil frame": the worker popped from an empty queue
	dead int64 // "flvmuxer routine panic": the worker goroutine is gone
	mu   sync.Mutex
	msgs []string
}

func (p *probeCore) Enabled(l xlog.Level) bool { return l >= xlog.WarnLevel }
func (p *probeCore) Sync() error               { return nil }
func (p *probeCore) Write(e xlog.Entry) error {
	switch {
	case strings.Contains(e.Message, "receive nil frame"):
		atomic.AddInt64(&p.idle, 1)
	case strings.Contains(e.Message, "routine panic"):
		p.mu.Lock()
		m := e.Message
		if i := strings.IndexByte(m, '\n'); i > 0 {
			m = m[:i]
		}
		p.msgs = append(p.msgs, m)
		p.mu.Unlock()
		atomic.AddInt64(&p.dead, 1)
	}
	return nil
}

// lockedBuf is the io.Writer of the client connection
type lockedBuf struct {
	mu sync.Mutex
	b  bytes.Buffer
}

func (l *lockedBuf) Write(p []byte) (int, error) {
	l.mu.Lock()
	defer l.mu.Unlock()
	return l.b.Write(p)
}
func (l *lockedBuf) Bytes() []byte {
	l.mu.Lock()
	defer l.mu.Unlock()
	return append([]byte(nil), l.b.Bytes()...)
}

// fwdWriter forwards the muxer's tags to the client's flv.Writer (created once TypeFlags is
// known) and keeps the tags
type fwdWriter struct {
	mu   sync.Mutex
	w    flv.TagWriter
	tags []*flv.Tag
}

func (f *fwdWriter) WriteFlvTag(t *flv.Tag) error {
	f.mu.Lock()
	defer f.mu.Unlock()
	f.tags = append(f.tags, t)
	if f.w != nil {
		return f.w.WriteFlvTag(t)
	}
	return nil
}

// waitIdle returns once the worker has processed every one of the `pushed` frames — it has come
// back to its queue pushed+1 times (schedule point flvmuxer.beforePop) — or has died.  The
// condition is exact; the budget only bounds the wait for a worker that is stuck.
func waitIdle(pushed int, p *probeCore, budget time.Duration) string {
	if waitUntil(budget, func() bool {
		return atomic.LoadInt64(&p.dead) > 0 || hooks.muxReturned() >= pushed+1
	}) {
		return ""
	}
	return "hang"
}

type muxResult struct {
	newErr   string // NewMuxer / NewWriter error
	out      []byte // everything written to the client connection
	dead     bool
	hang     bool
	panicMsg string
	date     string // the creationdate string found in the output ("" if none)
	dateOK   bool   // … lies between the start and the end of the run
	tags     []*flv.Tag
}

func (c *muxCase) videoMeta(withParams bool) *codec.VideoMeta {
	vm := &codec.VideoMeta{Codec: c.codecName(), Width: c.w, Height: c.h, FrameRate: c.fr, DataRate: c.vdr, ClockRate: 90000}
	if withParams {
		vm.Sps, vm.Pps, vm.Vps = c.sps, c.pps, c.vps
	}
	return vm
}

func (c *muxCase) audioMeta() *codec.AudioMeta {
	return &codec.AudioMeta{Codec: c.acodecName(), SampleRate: c.asr, SampleSize: c.ass, Channels: c.ach, DataRate: c.adr, Sps: c.asc}
}

// runMux drives flv.NewMuxer + flv.NewWriter with the frames of the case.
func runMux(c *muxCase, budget time.Duration) (res muxResult) {
	hooks.newEpoch(nil)
	probe := &probeCore{}
	logger := xlog.New(probe)
	vm := c.videoMeta(c.known == 0)
	am := c.audioMeta()
	buf := &lockedBuf{}
	fw := &fwdWriter{}
	t0 := time.Now().Add(-time.Second)
	m, err := flv.NewMuxer(vm, am, fw, logger)
	if err != nil {
		res.newErr = "newmuxer"
		return
	}
	w, err := flv.NewWriter(buf, m.TypeFlags())
	if err != nil {
		res.newErr = "newwriter"
		m.Close()
		return
	}
	fw.mu.Lock()
	fw.w = w
	fw.mu.Unlock()
	for i := range c.frames {
		if i == c.known && c.known > 0 {
			// the depacketizer stores the parameter sets in the shared metadata right before it
			// forwards the first video frame; everything pushed so far has been processed
			if waitIdle(i, probe, budget) == "hang" {
				res.hang = true
				break
			}
			vm.Sps, vm.Pps, vm.Vps = c.sps, c.pps, c.vps
		}
		f := &c.frames[i]
		m.WriteFrame(&codec.Frame{MediaType: codec.MediaType(f.mt), Dts: f.dts, Pts: f.pts, Payload: f.payload})
	}
	if !res.hang && waitIdle(len(c.frames), probe, budget) == "hang" {
		res.hang = true
	}
	res.dead = atomic.LoadInt64(&probe.dead) > 0
	probe.mu.Lock()
	if len(probe.msgs) > 0 {
		res.panicMsg = probe.msgs[0]
	}
	probe.mu.Unlock()
	// Close wakes the worker through its queue; its goroutine ends by itself and a late event of
	// it is ignored (hooks.newEpoch)
	m.Close()
	res.out = buf.Bytes()
	fw.mu.Lock()
	res.tags = fw.tags
	fw.mu.Unlock()
	res.date = findDate(res.out)
	if res.date != "" {
		if t, err := time.Parse(time.RFC3339, res.date); err == nil {
			res.dateOK = !t.Before(t0.Truncate(time.Second)) && !t.After(time.Now().Add(2*time.Second))
		}
	}
	return
}

// findDate extracts the value of the "creationdate" property (an AMF0 short string)
func findDate(out []byte) string {
	key := []byte("creationdate")
	i := bytes.Index(out, key)
	if i < 0 {
		return ""
	}
	p := i + len(key)
	if p+3 > len(out) || out[p] != 0x02 {
		return ""
	}
	n := int(out[p+1])<<8 | int(out[p+2])
	if p+3+n > len(out) {
		return ""
	}
	return string(out[p+3 : p+3+n])
}

// ---- what hevc.H265RawVPS/SPS.Decode make of the parameter sets (inputs of the model) ----

func ptlStr(p *hevc.H265RawProfileTierLevel) string {
	return fmt.Sprintf("%d,%d,%d,%d,%d,%d", p.General_profile_space, p.General_tier_flag, p.General_profile_idc,
		p.GeneralProfileCompatibilityFlags, p.GeneralConstraintIndicatorFlags, p.General_level_idc)
}

func hevcInfo(vps, sps []byte) (hv, hs string) {
	hv, hs = "-", "-"
	func() {
		defer func() { recover() }()
		var v hevc.H265RawVPS
		if err := v.Decode(vps); err == nil {
			hv = fmt.Sprintf("%d,%s", v.Vps_max_sub_layers_minus1, ptlStr(&v.Profile_tier_level))
		}
	}()
	func() {
		defer func() { recover() }()
		var s hevc.H265RawSPS
		if err := s.Decode(sps); err == nil {
			hs = fmt.Sprintf("%d,%d,%s,%d,%d,%d", s.Sps_max_sub_layers_minus1, s.Sps_temporal_id_nesting_flag,
				ptlStr(&s.Profile_tier_level), s.Chroma_format_idc, s.Bit_depth_luma_minus8, s.Bit_depth_chroma_minus8)
		}
	}()
	return
}

// does h264.RawSPS.Decode accept the SPS?  (an input of the model: Muxer.videoMetaReady asks it
// when the width is not known)
func avcSpsDecodes(sps []byte) (ok bool) {
	defer func() {
		if recover() != nil {
			ok = false
		}
	}()
	var s h264.RawSPS
	return s.Decode(sps) == nil
}

func hevcSpsDecodes(sps []byte) (ok bool) {
	defer func() {
		if recover() != nil {
			ok = false
		}
	}()
	var s hevc.H265RawSPS
	return s.Decode(sps) == nil
}

func f64hex(f float64) string { return fmt.Sprintf("%016x", math.Float64bits(f)) }

// ---- writer-level run: flv.NewWriter + WriteFlvTag per tag ----

type wrResult struct {
	newErr   bool
	out      []byte
	panicked string
}

func runWriter(flags byte, tags []*flv.Tag) (res wrResult) {
	defer func() {
		if r := recover(); r != nil {
			res.panicked = fmt.Sprint(r)
		}
	}()
	var buf bytes.Buffer
	w, err := flv.NewWriter(&buf, flags)
	if err != nil {
		res.newErr = true
		res.out = buf.Bytes()
		return
	}
	for _, t := range tags {
		if err := w.WriteFlvTag(t); err != nil {
			res.panicked = "error:" + err.Error()
			break
		}
	}
	res.out = buf.Bytes()
	return
}
