package main

// Observation of the implementation's worker goroutines through the schedule points that are
// compiled into /repo with the build tag `verif` (utils/verifhook): the harness waits for the
// EVENT "the worker has come back to its queue after the n-th item" instead of sleeping or reading
// goroutine dumps.
//
//   flvmuxer.beforePop      flv.Muxer.process is about to Pop: called once when the worker starts
//                           and once after every item it has taken (processed, or dropped)
//   consume.beforePop(cid)  media.consumption.consume, the same for one consumer
//   stream.write.cached     Stream.cacheAndSend has cached a pack (an FLV tag in this harness: the
//                           scenarios feed frames, not RTP packets) and is about to broadcast it
//   stream.join.added(cid)  startConsume has snapshotted the cache into the new consumer's queue
//                           and registered it (the lock is released; its goroutine starts next)

import (
	"os"
	"runtime"
	"sync"
	"time"

	"github.com/cnotch/ipchub/media"
	"github.com/cnotch/ipchub/utils/verifhook"
)

type hookState struct {
	mu       sync.Mutex
	muxPops  map[uint64]int // goroutine id of a muxer worker → beforePop events
	retired  map[uint64]bool
	consPops map[uint32]int
	cached   int
	joined   []uint32
	replayed map[uint32]int // cid → queue length at stream.join.added (= size of the cache replay)
	stream   *media.Stream  // the stream of the running service scenario
}

var debugHooks = os.Getenv("C08_DEBUG") != ""

var hooks = &hookState{muxPops: map[uint64]int{}, retired: map[uint64]bool{}, consPops: map[uint32]int{}, replayed: map[uint32]int{}}

// goid: the id of the calling goroutine ("goroutine 123 [running]:…")
func goid() uint64 {
	var buf [64]byte
	n := runtime.Stack(buf[:], false)
	var id uint64
	for _, ch := range buf[len("goroutine "):n] {
		if ch < '0' || ch > '9' {
			break
		}
		id = id*10 + uint64(ch-'0')
	}
	return id
}

func installHooks() {
	verifhook.Set(func(point string, id uint32) {
		switch point {
		case "flvmuxer.beforePop":
			g := goid()
			hooks.mu.Lock()
			if !hooks.retired[g] {
				hooks.muxPops[g]++
			}
			hooks.mu.Unlock()
		case "consume.beforePop":
			hooks.mu.Lock()
			hooks.consPops[id]++
			hooks.mu.Unlock()
		case "stream.write.cached":
			hooks.mu.Lock()
			hooks.cached++
			hooks.mu.Unlock()
		case "stream.join.added":
			hooks.mu.Lock()
			s := hooks.stream
			hooks.mu.Unlock()
			n := -1
			if s != nil {
				_, fl, _, _ := s.VerifTables()
				for _, c := range fl {
					if uint32(c.CID) == id {
						n = c.QueueLen
					}
				}
			}
			hooks.mu.Lock()
			hooks.joined = append(hooks.joined, id)
			hooks.replayed[id] = n
			hooks.mu.Unlock()
		}
	})
}

// newEpoch: the workers seen so far belong to finished cases (a late event of theirs is ignored);
// counters start again.
func (h *hookState) newEpoch(s *media.Stream) {
	h.mu.Lock()
	for g := range h.muxPops {
		h.retired[g] = true
	}
	h.muxPops = map[uint64]int{}
	h.consPops = map[uint32]int{}
	h.cached = 0
	h.joined = nil
	h.replayed = map[uint32]int{}
	h.stream = s
	h.mu.Unlock()
}

func (h *hookState) setStream(s *media.Stream) {
	h.mu.Lock()
	h.stream = s
	h.mu.Unlock()
}

// muxReturned: how often the muxer worker of the running case has come back to its queue
func (h *hookState) muxReturned() int {
	h.mu.Lock()
	defer h.mu.Unlock()
	n := 0
	for _, v := range h.muxPops {
		n += v
	}
	if len(h.muxPops) > 1 && debugHooks {
		println("DEBUG: several muxer workers in one epoch", len(h.muxPops), n)
	}
	return n
}

func (h *hookState) consReturned(cid uint32) int {
	h.mu.Lock()
	defer h.mu.Unlock()
	return h.consPops[cid]
}

func (h *hookState) cachedTags() int {
	h.mu.Lock()
	defer h.mu.Unlock()
	return h.cached
}

func (h *hookState) joinedCount() int {
	h.mu.Lock()
	defer h.mu.Unlock()
	return len(h.joined)
}

func (h *hookState) joinedAt(i int) (cid uint32, replayed int) {
	h.mu.Lock()
	defer h.mu.Unlock()
	return h.joined[i], h.replayed[h.joined[i]]
}

// Waiting budgets.  The conditions are exact (event counts), so a budget only bounds how long a
// worker that is really stuck is waited for; it costs nothing when the event arrives.  A case whose
// budget expires is run once more, alone, with the long budget, and only a worker that is still
// stuck then is reported.
const (
	waitBudget     = 60 * time.Second
	longWaitBudget = 240 * time.Second
)

// waitUntil polls an exact condition: yield first, then sleep in small steps
func waitUntil(budget time.Duration, cond func() bool) bool {
	deadline := time.Now().Add(budget)
	for i := 0; ; i++ {
		if cond() {
			return true
		}
		switch {
		case i < 200:
			runtime.Gosched()
		case i < 2000:
			time.Sleep(20 * time.Microsecond)
		default:
			time.Sleep(time.Millisecond)
		}
		if i&63 == 63 && time.Now().After(deadline) {
			return cond()
		}
	}
}
