package main

// Synthesis of small but syntactically complete H.265 VPS / SPS NAL units (ITU-T H.265 §7.3.2.1,
// §7.3.2.2, §7.3.3) with chosen profile/tier/level, sub-layer counts, chroma format and bit
// depths, so that HEVCDecoderConfigurationRecord.init/applyPLT are exercised with VPS and SPS
// that differ from each other (the fixed test vectors always agree).

type bitWriter struct {
	buf  []byte
	nbit uint
}

func (w *bitWriter) bit(b uint) {
	if w.nbit%8 == 0 {
		w.buf = append(w.buf, 0)
	}
	if b&1 == 1 {
		w.buf[len(w.buf)-1] |= 1 << (7 - w.nbit%8)
	}
	w.nbit++
}

func (w *bitWriter) u(n uint, v uint64) {
	for i := int(n) - 1; i >= 0; i-- {
		w.bit(uint(v>>uint(i)) & 1)
	}
}

func (w *bitWriter) ue(v uint64) {
	v++
	n := uint(0)
	for x := v; x > 1; x >>= 1 {
		n++
	}
	w.u(n, 0)
	w.u(n+1, v)
}

func (w *bitWriter) trailing() {
	w.bit(1)
	for w.nbit%8 != 0 {
		w.bit(0)
	}
}

// emulation prevention: 00 00 0x (x ≤ 3) → 00 00 03 0x
func escapeRBSP(hdr, rbsp []byte) []byte {
	out := append([]byte{}, hdr...)
	zeros := 0
	for _, b := range rbsp {
		if zeros >= 2 && b <= 3 {
			out = append(out, 3)
			zeros = 0
		}
		out = append(out, b)
		if b == 0 {
			zeros++
		} else {
			zeros = 0
		}
	}
	return out
}

type hevcPTL struct {
	space, tier, idc uint
	level            uint
	compatExtra      uint32
}

func (w *bitWriter) ptl(p hevcPTL, maxSubLayersMinus1 uint) {
	w.u(2, uint64(p.space))
	w.u(1, uint64(p.tier))
	w.u(5, uint64(p.idc))
	w.u(32, uint64(uint32(1)<<(31-p.idc%32)|p.compatExtra))
	w.u(4, 0x9) // progressive_source, frame_only_constraint
	w.u(43, 0)
	w.u(1, 0)
	w.u(8, uint64(p.level))
	for i := uint(0); i < maxSubLayersMinus1; i++ {
		w.u(2, 0) // no sub-layer profile / level
	}
	if maxSubLayersMinus1 > 0 {
		for i := maxSubLayersMinus1; i < 8; i++ {
			w.u(2, 0)
		}
	}
}

func synthVPS(p hevcPTL, maxSubLayersMinus1 uint) []byte {
	w := &bitWriter{}
	w.u(4, 0) // vps_video_parameter_set_id
	w.u(1, 1) // vps_base_layer_internal_flag
	w.u(1, 1) // vps_base_layer_available_flag
	w.u(6, 0) // vps_max_layers_minus1
	w.u(3, uint64(maxSubLayersMinus1))
	w.u(1, 1) // vps_temporal_id_nesting_flag
	w.u(16, 0xffff)
	w.ptl(p, maxSubLayersMinus1)
	w.u(1, 0) // vps_sub_layer_ordering_info_present_flag
	w.ue(0)
	w.ue(0)
	w.ue(0)
	w.u(6, 0) // vps_max_layer_id
	w.ue(0)   // vps_num_layer_sets_minus1
	w.u(1, 0) // vps_timing_info_present_flag
	w.u(1, 0) // vps_extension_flag
	w.trailing()
	return escapeRBSP([]byte{0x40, 0x01}, w.buf)
}

func synthSPS(p hevcPTL, maxSubLayersMinus1, nesting, chroma, lumaM8, chromaM8 uint) []byte {
	w := &bitWriter{}
	w.u(4, 0) // sps_video_parameter_set_id
	w.u(3, uint64(maxSubLayersMinus1))
	w.u(1, uint64(nesting))
	w.ptl(p, maxSubLayersMinus1)
	w.ue(0) // sps_seq_parameter_set_id
	w.ue(uint64(chroma))
	if chroma == 3 {
		w.u(1, 0)
	}
	w.ue(64) // pic_width_in_luma_samples
	w.ue(64) // pic_height_in_luma_samples
	w.u(1, 0)
	w.ue(uint64(lumaM8))
	w.ue(uint64(chromaM8))
	w.ue(4)   // log2_max_pic_order_cnt_lsb_minus4
	w.u(1, 0) // sps_sub_layer_ordering_info_present_flag
	w.ue(0)
	w.ue(0)
	w.ue(0)
	w.ue(0) // log2_min_luma_coding_block_size_minus3
	w.ue(0)
	w.ue(0) // log2_min_luma_transform_block_size_minus2
	w.ue(0)
	w.ue(0)
	w.ue(0)
	w.u(1, 0) // scaling_list_enabled_flag
	w.u(1, 0) // amp_enabled_flag
	w.u(1, 0) // sample_adaptive_offset_enabled_flag
	w.u(1, 0) // pcm_enabled_flag
	w.ue(0)   // num_short_term_ref_pic_sets
	w.u(1, 0) // long_term_ref_pics_present_flag
	w.u(1, 0) // sps_temporal_mvp_enabled_flag
	w.u(1, 0) // strong_intra_smoothing_enabled_flag
	w.u(1, 0) // vui_parameters_present_flag
	w.u(1, 0) // sps_extension_present_flag
	w.trailing()
	return escapeRBSP([]byte{0x42, 0x01}, w.buf)
}
