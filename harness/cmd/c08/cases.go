package main

// Case representation, op-line (de)serialisation and the structure-aware generators.

import (
	"encoding/base64"
	"fmt"
	"strconv"
	"strings"

	. "verifharness/hlib"
)

type frame struct {
	mt       int
	dts, pts int64 // ns
	payload  []byte
}

type muxCase struct {
	codec         string // "h264", "h265", anything else is rejected by NewMuxer
	w, h          int
	fr, vdr       float64
	sps, pps, vps []byte
	aac           bool
	asr, ass, ach int
	adr           float64
	asc           []byte
	known         int // index of the frame from which the parameter sets are in the metadata
	frames        []frame
	gen           string // generator label (distribution only)
}

func (c *muxCase) codecName() string {
	switch c.codec {
	case "h264":
		return "H264"
	case "h265":
		return "H265"
	}
	return "MJPEG"
}

func (c *muxCase) acodecName() string {
	if c.aac {
		return "AAC"
	}
	return "PCMA"
}

// line renders the driver op line; date and impl come from the implementation's run
func (c *muxCase) line(cfg, date string, impl []byte) string {
	var b strings.Builder
	hv, hs := "-", "-"
	if c.codec == "h265" {
		hv, hs = hevcInfo(c.vps, c.sps)
	}
	fmt.Fprintf(&b, "c08 mux cfg=%s codec=%s w=%d h=%d fr=%s vdr=%s sps=%s pps=%s vps=%s hv=%s hs=%s sv=%s aac=%s asr=%d ass=%d ach=%d adr=%s asc=%s date=%s known=%d impl=%s",
		cfg, c.codec, c.w, c.h, f64hex(c.fr), f64hex(c.vdr), Hx(c.sps), Hx(c.pps), Hx(c.vps), hv, hs, B01(c.codec != "h265" && avcSpsDecodes(c.sps)),
		B01(c.aac), c.asr, c.ass, c.ach, f64hex(c.adr), Hx(c.asc), Hx([]byte(date)), c.known, Hx(impl))
	if cfg == "join" {
		b.WriteString(" join=1")
	}
	for _, f := range c.frames {
		fmt.Fprintf(&b, " f:%d:%d:%d:%s", f.mt, f.dts, f.pts, Hx(f.payload))
	}
	return b.String()
}

func kvs(fields []string) map[string]string {
	m := map[string]string{}
	for _, f := range fields {
		if i := strings.IndexByte(f, '='); i > 0 {
			m[f[:i]] = f[i+1:]
		}
	}
	return m
}

func f64from(h string) float64 {
	u, _ := strconv.ParseUint(h, 16, 64)
	return float64frombits(u)
}

// parseMuxLine rebuilds a case from an op line (corpus / replay); impl= and date= are ignored
func parseMuxLine(l string) *muxCase {
	fs := strings.Fields(l)
	if len(fs) < 2 || fs[0] != "c08" || fs[1] != "mux" {
		return nil
	}
	m := kvs(fs)
	c := &muxCase{codec: m["codec"], gen: "corpus"}
	c.w, _ = strconv.Atoi(m["w"])
	c.h, _ = strconv.Atoi(m["h"])
	c.fr, c.vdr, c.adr = f64from(m["fr"]), f64from(m["vdr"]), f64from(m["adr"])
	c.sps, c.pps, c.vps, c.asc = Unhx(m["sps"]), Unhx(m["pps"]), Unhx(m["vps"]), Unhx(m["asc"])
	c.aac = m["aac"] == "1"
	c.asr, _ = strconv.Atoi(m["asr"])
	c.ass, _ = strconv.Atoi(m["ass"])
	c.ach, _ = strconv.Atoi(m["ach"])
	c.known, _ = strconv.Atoi(m["known"])
	for _, f := range fs {
		if strings.HasPrefix(f, "f:") {
			p := strings.Split(f, ":")
			if len(p) != 5 {
				return nil
			}
			var fr frame
			fr.mt, _ = strconv.Atoi(p[1])
			fr.dts, _ = strconv.ParseInt(p[2], 10, 64)
			fr.pts, _ = strconv.ParseInt(p[3], 10, 64)
			fr.payload = Unhx(p[4])
			c.frames = append(c.frames, fr)
		}
	}
	return c
}

// ---- writer-level cases ----

type srcTag struct {
	typ  int
	time int64 // source time in ms (the tag keeps the low 32 bits)
	data []byte
}

type wrCase struct {
	flags    int
	tags     []srcTag
	gen      string
	replayed int      // join cases: number of tags replayed from the cache
	mc       *muxCase // join / service cases: the stream and frames the tags come from
}

func (c *wrCase) line(cfg string, impl []byte) string {
	var b strings.Builder
	fmt.Fprintf(&b, "c08 wr cfg=%s flags=%d impl=%s", cfg, c.flags, Hx(impl))
	for _, t := range c.tags {
		fmt.Fprintf(&b, " t:%d:%d:%s", t.typ, t.time, Hx(t.data))
	}
	return b.String()
}

func parseWrLine(l string) *wrCase {
	fs := strings.Fields(l)
	if len(fs) < 2 || fs[0] != "c08" || fs[1] != "wr" {
		return nil
	}
	m := kvs(fs)
	c := &wrCase{gen: "corpus"}
	c.flags, _ = strconv.Atoi(m["flags"])
	for _, f := range fs {
		if strings.HasPrefix(f, "t:") {
			p := strings.Split(f, ":")
			if len(p) != 4 {
				return nil
			}
			var t srcTag
			t.typ, _ = strconv.Atoi(p[1])
			t.time, _ = strconv.ParseInt(p[2], 10, 64)
			t.data = Unhx(p[3])
			c.tags = append(c.tags, t)
		}
	}
	return c
}

// ---- generators ----

func b64(s string) []byte {
	b, err := base64.StdEncoding.DecodeString(s)
	if err != nil {
		panic(err)
	}
	return b
}

// real-world parameter sets (the vectors of av/codec/{h264,hevc}/*_test.go)
var (
	h264SPS = [][]byte{
		b64("Z01AH6sSB4CL9wgAAAMACAAAAwGUeMGMTA=="),
		{0x67, 0x42, 0xc0, 0x1e, 0xd9, 0x00, 0xa0, 0x47, 0xfe, 0xc8},
		{0x67, 0x64, 0x00, 0x28, 0xac, 0xd9, 0x40, 0x78, 0x02, 0x27, 0xe5, 0xc0, 0x44, 0x00, 0x00, 0x03, 0x00, 0x04, 0x00, 0x00, 0x03, 0x00, 0xf0, 0x3c, 0x60, 0xc6, 0x58},
	}
	h264PPS = [][]byte{{0x68, 0xee, 0x3c, 0x80}, {0x68, 0xcb, 0x83, 0xcb, 0x20}, {0x68, 0xeb, 0xe3, 0xcb, 0x22, 0xc0}}
	hevcVPS = [][]byte{
		b64("QAEMAf//AWAAAAMAkAAAAwAAAwBdlZgJ"),
		b64("QAEMAf//BAgAAAMAnQgAAAMAAF2VmAk="),
	}
	hevcSPS = [][]byte{
		b64("QgEBAWAAAAMAkAAAAwAAAwBdoAKAgC0WWVmkkyuAQAAA+kAAF3AC"),
		b64("QgEBBAgAAAMAnQgAAAMAAF2wAoCALRZZWaSTK4BAAAADAEAAAAeC"),
	}
	hevcPPS = [][]byte{{0x44, 0x01, 0xc1, 0x72, 0xb4, 0x62, 0x40}, {0x44, 0x01, 0xc0, 0x73, 0xc0, 0x4c, 0x90}}
)

func pickBytes(r *Rng, pool [][]byte) []byte {
	return append([]byte(nil), pool[r.Intn(len(pool))]...)
}

// payload size classes: 1 byte … > 64 KiB
func genSize(r *Rng, big bool) (int, string) {
	if big && !r.Chance(bigPct) {
		big = false
	}
	switch x := r.Intn(100); {
	case x < 8:
		return 1, "1"
	case x < 14:
		return 2 + r.Intn(3), "2-4"
	case x < 74:
		return 5 + r.Intn(120), "5-124"
	case x < 80:
		return 253 + r.Intn(6), "253-258"
	case x < 86:
		return 259 + r.Intn(1800), "259-2058"
	case x < 88:
		return 2059 + r.Intn(20000), "2059-22058"
	case x < 93 && big:
		return 65526 + r.Intn(12), "65526-65537"
	case x < 97 && big:
		return 65538 + r.Intn(70000), ">64KiB"
	default:
		return 10 + r.Intn(50), "5-124"
	}
}

func nalHeader(r *Rng, codec string) ([]byte, string) {
	if codec == "h265" {
		types := []int{0, 1, 8, 9, 15, 16, 17, 18, 19, 20, 21, 22, 23, 24, 32, 33, 34, 35, 39, 40, 48, 50, 53, 63}
		t := types[r.Intn(len(types))]
		if r.Chance(15) {
			t = r.Intn(64)
		}
		b0 := byte(t<<1) | byte(r.Intn(2)) | byte(r.Intn(2))<<7
		return []byte{b0, byte(r.Intn(8))}, fmt.Sprintf("h265-nal-%d", t)
	}
	types := []int{1, 1, 5, 5, 6, 7, 8, 9, 2, 4, 12, 21}
	t := types[r.Intn(len(types))]
	if r.Chance(15) {
		t = r.Intn(32)
	}
	return []byte{byte(t) | byte(r.Intn(8))<<5}, fmt.Sprintf("h264-nal-%d", t)
}

const msNs = int64(1000000)

// share of video frames drawn from the size classes around and above 64 KiB
var bigPct = 10

// per-mille of generated writer-level tags with a body around 64 KiB
var wrBigPermille = 6

// time regimes of a frame sequence: start DTS in ms
func genBaseMs(r *Rng) (int64, string) {
	switch x := r.Intn(100); {
	case x < 45:
		return int64(r.Intn(100000)), "t-small"
	case x < 50:
		return int64(1)<<31 - 2000 - int64(r.Intn(100000)), "t-below-2^31"
	case x < 55:
		return 0, "t-zero"
	case x < 67:
		return (int64(1) << 31) - int64(r.Intn(400)) + 150, "t-near-2^31"
	case x < 82:
		return (int64(1) << 32) - int64(r.Intn(400)) + 150, "t-near-2^32"
	case x < 88:
		return int64(1)<<32 + int64(r.Intn(100000)), "t-above-2^32"
	case x < 92:
		return -int64(r.Intn(300)), "t-negative"
	case x < 96:
		return int64(1)<<40 + int64(r.Intn(1<<30)), "t-huge"
	default:
		return 3*(int64(1)<<32) - int64(r.Intn(200)), "t-near-3*2^32"
	}
}

func genMuxCase(r *Rng, count func(string), thorough bool) *muxCase {
	c := &muxCase{gen: "mux"}
	switch x := r.Intn(100); {
	case x < 52:
		c.codec = "h264"
	case x < 96:
		c.codec = "h265"
	default:
		c.codec = "other"
	}
	c.w, c.h = []int{0, 1, 352, 640, 1280, 1920, 3840, 7680, 65535, 1 << 20}[r.Intn(10)], []int{0, 1, 288, 480, 720, 1080, 2160, 4320}[r.Intn(8)]
	c.fr = []float64{0, 25, 29.97, 30, 59.94, 15.5, 1e-3}[r.Intn(7)]
	c.vdr = []float64{0, 512, 2048.5, 1e6}[r.Intn(4)]
	c.aac = r.Chance(60)
	c.asr = []int{5512, 11025, 22050, 44100, 48000, 8000, 16000, 0, 44101}[r.Intn(9)]
	c.ass = []int{8, 16, 16, 0, 32}[r.Intn(5)]
	c.ach = []int{0, 1, 2, 2, 6}[r.Intn(5)]
	c.adr = []float64{0, 64, 128.25}[r.Intn(3)]
	c.asc = [][]byte{{0x12, 0x10}, {0x11, 0x90}, {0x13, 0x90, 0x56, 0xe5, 0xa0}, {}, {0xff}}[r.Intn(5)]
	if r.Chance(3) {
		c.asc = r.Bytes(r.Intn(40))
	}
	// parameter sets
	if c.codec == "h265" {
		c.vps, c.sps, c.pps = pickBytes(r, hevcVPS), pickBytes(r, hevcSPS), pickBytes(r, hevcPPS)
		if r.Chance(50) { // synthesised VPS / SPS: profile, tier, level, sub-layers, chroma, depths vary
			rp := func() hevcPTL {
				return hevcPTL{space: uint(r.Intn(4)), tier: uint(r.Intn(2)), idc: uint([]int{1, 2, 3, 4, 9, 0, 31, 17}[r.Intn(8)]),
					level: uint([]int{30, 60, 93, 120, 150, 153, 186, 0, 255}[r.Intn(9)]), compatExtra: uint32(r.Intn(4)) << uint(r.Intn(28))}
			}
			pv := rp()
			ps := pv
			mv, ms := uint(r.Intn(7)), uint(0)
			ms = mv
			if r.Chance(45) {
				ps = rp()
				ms = uint(r.Intn(7))
				count("h265-synth-vps-sps-differ")
			} else {
				count("h265-synth-vps-sps-agree")
			}
			nest := uint(1)
			if ms > 0 && r.Chance(50) {
				nest = 0
			}
			c.vps = synthVPS(pv, mv)
			c.sps = synthSPS(ps, ms, nest, uint(r.Intn(4)), uint(r.Intn(8)), uint(r.Intn(8)))
			count(fmt.Sprintf("h265-synth-sublayers-vps%d-sps%d", mv, ms))
		}
		if r.Chance(20) { // perturb the profile/tier/level region (still decoded by the real decoder)
			i := 3 + r.Intn(12)
			if i < len(c.sps) {
				c.sps[i] ^= byte(1 << uint(r.Intn(8)))
			}
			j := 6 + r.Intn(12)
			if j < len(c.vps) {
				c.vps[j] ^= byte(1 << uint(r.Intn(8)))
			}
			count("h265-ps-perturbed")
		}
		if r.Chance(5) {
			c.sps = append([]byte{0x42, 0x01}, r.Bytes(r.Intn(30))...)
			count("h265-sps-random")
		}
		if r.Chance(5) {
			c.vps = append([]byte{0x40, 0x01}, r.Bytes(r.Intn(30))...)
			count("h265-vps-random")
		}
	} else {
		c.sps, c.pps = pickBytes(r, h264SPS), pickBytes(r, h264PPS)
		if r.Chance(25) {
			c.sps = append([]byte{0x67}, r.Bytes(3+r.Intn(40))...)
		}
	}
	switch x := r.Intn(100); {
	case x < 5: // unusable SPS
		c.sps = c.sps[:min(r.Intn(4), len(c.sps))]
		count(fmt.Sprintf("sps-len-%d", len(c.sps)))
	case x < 7:
		c.sps = c.sps[:min(4, len(c.sps))]
		count(fmt.Sprintf("sps-len-%d", len(c.sps)))
	case x < 10:
		c.pps = nil
		count("pps-empty")
	case x < 12 && c.codec == "h265":
		c.vps = nil
		count("vps-empty")
	case x < 14 && thorough:
		n := 65534 + r.Intn(3)
		c.sps = append(append([]byte{}, c.sps...), 0, 0, 0, 0)[:4]
		c.sps = append(c.sps, r.Bytes(n-4)...)
		count(fmt.Sprintf("sps-len-%d", n))
	case x < 15 && thorough:
		n := 65534 + r.Intn(3)
		c.pps = r.Bytes(n)
		count(fmt.Sprintf("pps-len-%d", n))
	}
	// frames
	n := r.Intn(9)
	if r.Chance(15) {
		n = 9 + r.Intn(30)
	}
	if r.Chance(4) {
		n = 0
	}
	base, regime := genBaseMs(r)
	count(regime)
	tv, ta := base, base+int64(r.Intn(80))-40
	audioFirst := r.Chance(35)
	for i := 0; i < n; i++ {
		var f frame
		x := r.Intn(100)
		if i == 0 && audioFirst {
			x = 70
		}
		switch {
		case x < 60:
			f.mt = 0
		case x < 95:
			f.mt = 1
		default:
			f.mt = []int{2, 3, -1, 99}[r.Intn(4)]
		}
		sub := int64(r.Intn(1000000))
		if r.Chance(30) {
			sub = 0
		}
		if f.mt == 0 {
			hdr, lbl := nalHeader(r, c.codec)
			count(lbl)
			sz, sl := genSize(r, true)
			count("vsize-" + sl)
			f.payload = append(hdr, r.Bytes(sz)...)[:max(sz, 1)]
			if sz == 1 {
				f.payload = hdr[:1]
			}
			if r.Chance(2) {
				f.payload = nil
				count("vsize-0")
			}
			f.dts = tv*msNs + sub
			off := int64(0)
			switch y := r.Intn(100); {
			case y < 40:
				off, lbl = 0, "cts-0"
			case y < 65:
				off, lbl = int64(r.Intn(200)), "cts-pos"
			case y < 85:
				off, lbl = -int64(1+r.Intn(200)), "cts-neg(pts<dts)"
			case y < 90:
				off, lbl = (1<<23)-2+int64(r.Intn(4)), "cts-near-2^23"
			case y < 95:
				off, lbl = -(1<<23)-2+int64(r.Intn(4)), "cts-near--2^23"
			default:
				off, lbl = int64(r.Intn(1<<26))-(1<<25), "cts-wide"
			}
			count(lbl)
			f.pts = (tv+off)*msNs + int64(r.Intn(1000000))
			if r.Chance(50) {
				f.pts = (tv+off)*msNs + sub
			}
			if r.Chance(85) {
				tv += int64(20 + r.Intn(30))
			} else if r.Chance(50) {
				tv -= int64(r.Intn(40)) // DTS going backwards
			}
		} else {
			sz, sl := genSize(r, false)
			if r.Chance(3) {
				sz, sl = 0, "0"
			}
			count("asize-" + sl)
			f.payload = r.Bytes(sz)
			f.pts = ta*msNs + sub
			f.dts = f.pts
			if r.Chance(5) {
				f.dts = f.pts - int64(r.Intn(50))*msNs // the AAC packetizer must use PTS
			}
			ta += int64(18 + r.Intn(10))
			if r.Chance(10) {
				ta = tv - int64(r.Intn(60))
			}
		}
		c.frames = append(c.frames, f)
	}
	// when do the parameter sets become known?
	if r.Chance(30) && n > 0 {
		c.known = 1 + r.Intn(n)
		if r.Chance(70) { // realistic: right before a video frame
			for i, f := range c.frames {
				if f.mt == 0 && i > 0 {
					c.known = i
					break
				}
			}
		}
		count("params-in-band")
	} else {
		count("params-from-sdp")
	}
	return c
}

func min(a, b int) int {
	if a < b {
		return a
	}
	return b
}

func max(a, b int) int {
	if a > b {
		return a
	}
	return b
}

// writer-level: arbitrary tag sequences as a joining client can be handed them
func genWrCase(r *Rng, count func(string)) *wrCase {
	c := &wrCase{gen: "wr"}
	c.flags = []int{5, 5, 4, 1, 0, 7, 0xff, 2, 0xfa}[r.Intn(9)]
	if r.Chance(70) {
		c.flags = []int{5, 4}[r.Intn(2)]
	}
	n := r.Intn(10)
	var t0 int64
	switch x := r.Intn(100); {
	case x < 25:
		t0 = int64(r.Intn(100000))
		count("wr-t0-small")
	case x < 35:
		t0 = 0
		count("wr-t0-zero")
	case x < 50:
		t0 = 0xffffffff + int64(r.Intn(3)) - 1
		count("wr-t0-near-0xffffffff")
	case x < 60:
		t0 = 0xffffffff
		count("wr-t0-sentinel")
	case x < 75:
		t0 = (int64(1) << 32) - int64(r.Intn(300))
		count("wr-t0-below-2^32")
	case x < 85:
		t0 = (int64(1) << 31) - int64(r.Intn(300)) + 100
		count("wr-t0-near-2^31")
	case x < 92:
		t0 = int64(5)<<32 + 0xffffffff
		count("wr-t0-sentinel-mod-2^32")
	default:
		t0 = int64(1)<<41 + int64(r.Intn(1<<20))
		count("wr-t0-huge")
	}
	t := t0
	for i := 0; i < n; i++ {
		var s srcTag
		s.typ = []int{8, 9, 9, 18}[r.Intn(4)]
		s.time = t
		sz := r.Intn(60)
		if r.Chance(10) {
			sz = 0
		} else if r.Chance(10) {
			sz = 250 + r.Intn(10)
		} else if r.Intn(1000) < wrBigPermille {
			sz = 65530 + r.Intn(12)
			count("wr-data-near-64KiB")
		}
		s.data = r.Bytes(sz)
		c.tags = append(c.tags, s)
		switch x := r.Intn(100); {
		case x < 50:
			t += int64(r.Intn(50))
		case x < 60:
			count("wr-same-time")
		case x < 80:
			t = t0 - int64(1+r.Intn(500)) // older than the first
			count("wr-older-than-first")
		case x < 88:
			t = t0 + int64(r.Intn(1000))
		case x < 93:
			t = t0 + (int64(1) << 31) - 2 + int64(r.Intn(4)) // window edge
			count("wr-window-edge")
		case x < 96:
			t = t0 - (int64(1) << 31) - 2 + int64(r.Intn(4))
			count("wr-window-edge-neg")
		default:
			t = t0 + int64(r.Intn(1<<30))
		}
	}
	return c
}
