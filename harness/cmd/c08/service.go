package main

// The HTTP-FLV and WebSocket-FLV services end to end, in process: a media.Stream created from an
// SDP (its own flv.Muxer worker, its FlvCache), frames written with Stream.WriteFrame, a client
// attached through service/flv.ConsumeByHTTP / ConsumeByWebsocket after `k` frames (so it is
// replayed from the cache and then fed live), bytes captured from the ResponseWriter / the
// WebSocket connection.

import (
	"encoding/base64"
	"fmt"
	"net"
	"net/http"
	"runtime"
	"strings"
	"sync"
	"sync/atomic"
	"time"

	"github.com/cnotch/ipchub/av/codec"
	"github.com/cnotch/ipchub/av/format/flv"
	"github.com/cnotch/ipchub/config"
	"github.com/cnotch/ipchub/media"
	"github.com/cnotch/ipchub/media/cache"
	"github.com/cnotch/ipchub/network/websocket"
	flvsvc "github.com/cnotch/ipchub/service/flv"
	"github.com/cnotch/queue"
	"github.com/cnotch/xlog"
)

// goroutinesParked: every goroutine whose stack mentions `fn` is parked in sync.Cond.Wait
// (present = at least one such goroutine exists)
func goroutinesParked(fn string) (present, parked bool) {
	n, p := goroutineCount(fn)
	return n > 0, n > 0 && p == n
}

// goroutineCount: how many goroutines mention fn in their stack, and how many of them are parked
// in sync.Cond.Wait
func goroutineCount(fn string) (n, nparked int) {
	buf := make([]byte, 1<<17)
	for {
		n := runtime.Stack(buf, true)
		if n < len(buf) {
			buf = buf[:n]
			break
		}
		buf = make([]byte, 2*len(buf))
	}
	for _, blk := range strings.Split(string(buf), "\n\n") {
		if !strings.Contains(blk, fn) {
			continue
		}
		n++
		head := blk
		if i := strings.IndexByte(blk, '\n'); i > 0 {
			head = blk[:i]
		}
		if strings.Contains(head, "[sync.Cond.Wait") {
			nparked++
		}
	}
	return
}

// waitParked: all goroutines running fn have drained their queues and wait in Pop.  A Push wakes
// its consumer synchronously (the goroutine becomes runnable inside Signal), so "parked after the
// last push" means "everything pushed has been processed".  Generous deadline, hang guard only.
func waitParked(fn string) bool {
	deadline := time.Now().Add(30 * time.Second)
	for i := 0; ; i++ {
		if present, parked := goroutinesParked(fn); present && parked {
			return true
		}
		if i < 100 {
			runtime.Gosched()
		} else {
			time.Sleep(20 * time.Microsecond)
		}
		if i&255 == 255 && time.Now().After(deadline) {
			return false
		}
	}
}

func waitGone(fn string) {
	for i := 0; i < 40000; i++ {
		if present, _ := goroutinesParked(fn); !present {
			return
		}
		if i < 50 {
			runtime.Gosched()
		} else {
			time.Sleep(50 * time.Microsecond)
		}
	}
}

// ---- client ends ----

type captureRW struct {
	mu   sync.Mutex
	hdr  http.Header
	buf  []byte
	code int
}

func (c *captureRW) Header() http.Header  { return c.hdr }
func (c *captureRW) WriteHeader(code int) { c.code = code }
func (c *captureRW) Write(p []byte) (int, error) {
	c.mu.Lock()
	defer c.mu.Unlock()
	c.buf = append(c.buf, p...)
	return len(p), nil
}
func (c *captureRW) bytes() []byte {
	c.mu.Lock()
	defer c.mu.Unlock()
	return append([]byte(nil), c.buf...)
}

type fakeAddr struct{}

func (fakeAddr) Network() string { return "tcp" }
func (fakeAddr) String() string  { return "192.0.2.1:4242" }

// fakeWS is the server side of a WebSocket connection: writes are captured, Read blocks until Close
type fakeWS struct {
	captureRW
	closed chan struct{}
	once   sync.Once
	writes int64
}

func newFakeWS() *fakeWS { return &fakeWS{closed: make(chan struct{})} }
func (f *fakeWS) Read(p []byte) (int, error) {
	<-f.closed
	return 0, net.ErrClosed
}
func (f *fakeWS) Write(p []byte) (int, error) {
	atomic.AddInt64(&f.writes, 1)
	return f.captureRW.Write(p)
}
func (f *fakeWS) Close() error                       { f.once.Do(func() { close(f.closed) }); return nil }
func (f *fakeWS) LocalAddr() net.Addr                { return fakeAddr{} }
func (f *fakeWS) RemoteAddr() net.Addr               { return fakeAddr{} }
func (f *fakeWS) SetDeadline(t time.Time) error      { return nil }
func (f *fakeWS) SetReadDeadline(t time.Time) error  { return nil }
func (f *fakeWS) SetWriteDeadline(t time.Time) error { return nil }
func (f *fakeWS) Subprotocol() string                { return "" }
func (f *fakeWS) Path() string                       { return "" }
func (f *fakeWS) Username() string                   { return "" }

// probe sees every FLV tag the stream broadcasts (the very *flv.Tag values the client is sent)
type probe struct {
	mu   sync.Mutex
	tags []*flv.Tag
}

func (p *probe) Consume(pack media.Pack) {
	p.mu.Lock()
	p.tags = append(p.tags, pack.(*flv.Tag))
	p.mu.Unlock()
}
func (p *probe) Close() error { return nil }

func sdpFor(c *muxCase) string {
	var b strings.Builder
	b.WriteString("v=0\r\no=- 0 0 IN IP4 127.0.0.1\r\ns=c08\r\nc=IN IP4 127.0.0.1\r\nt=0 0\r\n")
	if c.codec == "h265" {
		b.WriteString("m=video 0 RTP/AVP 96\r\na=rtpmap:96 H265/90000\r\n")
		fmt.Fprintf(&b, "a=fmtp:96 sprop-vps=%s;sprop-sps=%s;sprop-pps=%s\r\n", base64.StdEncoding.EncodeToString(c.vps),
			base64.StdEncoding.EncodeToString(c.sps), base64.StdEncoding.EncodeToString(c.pps))
	} else {
		b.WriteString("m=video 0 RTP/AVP 96\r\na=rtpmap:96 H264/90000\r\n")
		fmt.Fprintf(&b, "a=fmtp:96 packetization-mode=1;sprop-parameter-sets=%s,%s\r\n", base64.StdEncoding.EncodeToString(c.sps),
			base64.StdEncoding.EncodeToString(c.pps))
	}
	b.WriteString("a=control:streamid=0\r\n")
	if c.aac {
		fmt.Fprintf(&b, "m=audio 0 RTP/AVP 97\r\na=rtpmap:97 MPEG4-GENERIC/%d/2\r\n", 44100)
		b.WriteString("a=fmtp:97 profile-level-id=1;mode=AAC-hbr;sizelength=13;indexlength=3;indexdeltalength=3;config=1210\r\na=control:streamid=1\r\n")
	}
	return b.String()
}

var svcSeq int64

type svcResult struct {
	out      []byte
	wc       *wrCase // the tag sequence the client must have been handed, with source times
	problem  string
	ctype    string
	wsWrites int64
}

// runService: frames[:k] are written before the client attaches (ws: through the WebSocket
// service), the rest after; cache_gop as given.  Only used for cases whose parameter sets are
// known from the SDP on and usable.
func runService(c *muxCase, k int, gop, ws bool) (res svcResult) {
	config.VerifSetCacheGop(gop)
	path := fmt.Sprintf("/c08/s%d", atomic.AddInt64(&svcSeq, 1))
	s := media.NewStream(path, sdpFor(c))
	if s.FlvTypeFlags() == 0 {
		res.problem = "stream without flv muxer"
		return
	}
	// the metadata of the case (the SDP only fixes the codecs)
	s.Video.Width, s.Video.Height, s.Video.FrameRate, s.Video.DataRate = c.w, c.h, c.fr, c.vdr
	s.Video.Sps, s.Video.Pps, s.Video.Vps = c.sps, c.pps, c.vps
	s.Audio.SampleRate, s.Audio.SampleSize, s.Audio.Channels, s.Audio.DataRate, s.Audio.Sps = c.asr, c.ass, c.ach, c.adr, c.asc
	media.Regist(s)
	defer func() {
		media.Unregist(s)
		s.Close()
		waitGone("media.(*consumption).consume")
		waitGone("flv.(*Muxer).process")
	}()
	pr := &probe{}
	s.StartConsume(pr, media.FLVPacket, "probe")
	push := func(fs []frame) {
		for i := range fs {
			f := &fs[i]
			s.WriteFrame(&codec.Frame{MediaType: codec.MediaType(f.mt), Dts: f.dts, Pts: f.pts, Payload: f.payload})
		}
	}
	push(c.frames[:k])
	if !waitParked("flv.(*Muxer).process") || !waitParked("media.(*consumption).consume") {
		res.problem = "hang before join"
		return
	}
	pr.mu.Lock()
	ktags := len(pr.tags)
	pr.mu.Unlock()
	// the client
	logger := xlog.New(xlog.NewNopCore())
	done := make(chan struct{})
	var rw *captureRW
	var wsc *fakeWS
	if ws {
		wsc = newFakeWS()
		rw = &wsc.captureRW
		go func() {
			defer close(done)
			flvsvc.ConsumeByWebsocket(logger, path, "192.0.2.1:4242", wsConn{wsc})
		}()
	} else {
		rw = &captureRW{hdr: http.Header{}}
		go func() {
			defer close(done)
			flvsvc.ConsumeByHTTP(logger, path, "192.0.2.1:4242", rw)
		}()
	}
	// attached once the flv table holds the probe and the client
	deadline := time.Now().Add(30 * time.Second)
	for {
		_, fl, _, _ := s.VerifTables()
		if len(fl) >= 2 {
			// registered; its consume goroutine is started right after the registration
			if n, _ := goroutineCount("media.(*consumption).consume"); n >= 2 {
				break
			}
		}
		select {
		case <-done:
			res.problem = "service returned before attaching"
			return
		default:
		}
		if time.Now().After(deadline) {
			res.problem = "client never attached"
			return
		}
		runtime.Gosched()
	}
	push(c.frames[k:])
	if !waitParked("flv.(*Muxer).process") || !waitParked("media.(*consumption).consume") {
		res.problem = "hang after join"
		return
	}
	res.out = rw.bytes()
	if !ws {
		res.ctype = rw.hdr.Get("Content-Type")
	} else {
		res.wsWrites = atomic.LoadInt64(&wsc.writes)
	}
	// what the client must have been handed: the replay of the cache as it stood after the first
	// ktags tags (computed with a second, identical FlvCache), then the live tags
	pr.mu.Lock()
	tags := append([]*flv.Tag(nil), pr.tags...)
	pr.mu.Unlock()
	times, ok := tagTimes(c, len(tags))
	if !ok {
		res.problem = fmt.Sprintf("the stream produced %d tags, not the number the frames call for", len(tags))
		return
	}
	flags := 4
	if c.aac {
		flags = 5
	}
	res.wc = deliveredCase(tags, times, ktags, gop, flags)
	res.wc.gen = "http-flv"
	if ws {
		res.wc.gen = "ws-flv"
	}
	// detach
	media.Unregist(s)
	s.Close()
	select {
	case <-done:
	case <-time.After(20 * time.Second):
		res.problem = "service did not return after the stream was closed"
	}
	return
}

// wsConn adapts fakeWS to websocket.Conn
type wsConn struct{ *fakeWS }

func (w wsConn) TextTransport() websocket.Conn { return w }

// source time of every tag of a run whose parameter sets are usable from the start
func tagTimes(c *muxCase, ntags int) ([]int64, bool) {
	var times []int64
	npre := 2
	if c.aac {
		npre = 3
	}
	for i := 0; i < npre; i++ {
		times = append(times, 0)
	}
	s := startIndex(c)
	if s < 0 {
		return nil, ntags == 0
	}
	for _, f := range c.frames[s:] {
		if f.mt == 0 {
			times = append(times, f.dts/msNs)
		} else if f.mt == 1 && c.aac {
			times = append(times, f.pts/msNs)
		}
	}
	return times, len(times) == ntags
}

// deliveredCase: the tags handed to a client that joins after tags[:k] went through the cache
func deliveredCase(tags []*flv.Tag, times []int64, k int, gop bool, flags int) *wrCase {
	tm := map[*flv.Tag]int64{}
	for i, t := range tags {
		tm[t] = times[i]
	}
	fc := cache.NewFlvCache(gop)
	for _, t := range tags[:k] {
		fc.CachePack(t)
	}
	q := queue.NewSyncQueue()
	fc.PushTo(q)
	var delivered []*flv.Tag
	for q.Queue().Len() > 0 {
		e, _ := q.Queue().Pop()
		delivered = append(delivered, e.(*flv.Tag))
	}
	nReplay := len(delivered)
	delivered = append(delivered, tags[k:]...)
	// source time of the replayed copies of the configuration tags = that of the first cached GOP
	// tag (PushTo stamps them with gop[0].Timestamp), 0 without a cached GOP
	// … and without a cached GOP the stream's current time: the source time of the latest media tag
	var init int64
	found := false
	for _, t := range delivered[:nReplay] {
		if v, ok := tm[t]; ok {
			init, found = v, true
			break
		}
	}
	if !found {
		for i := k - 1; i >= 0; i-- {
			if t := tags[i]; !t.IsMetadata() && !t.IsH2645SequenceHeader() && !t.IsAACSequenceHeader() {
				init = times[i]
				break
			}
		}
	}
	wc := &wrCase{flags: flags}
	for _, t := range delivered {
		v, ok := tm[t]
		if !ok {
			v = init
		}
		wc.tags = append(wc.tags, srcTag{typ: int(t.TagType), time: v, data: t.Data})
	}
	wc.replayed = nReplay
	return wc
}
