package main

// Clients that join a running stream.  One scenario = one stream fed with the frames of a mux
// case, GOP caching on or off, and one or more clients that join at different points; every client
// is judged on its own: the bytes it received against the Lean model's prediction for its join
// point (Model/FlvJoin.joinBytes: muxer → FlvCacheM.expected → writer) and against the statement
// (Spec.checkJoinedAt).  A client can be `lazy`: backlogged — what it was handed at its join is
// still in its queue, unwritten, while the stream goes on and other clients join.
//
//   via=cache   the real flv.Muxer's tags through the real cache.FlvCache exactly as
//               media.Stream does it (CachePack then a push to every attached client's queue;
//               PushTo into a new client's queue), every client with its own real flv.Writer; no
//               goroutines besides the muxer's: a lazy client's queue is written out at the end
//   via=http    a real media.Stream in process (its own muxer worker, its FlvCache, one consume
//   via=ws      goroutine per client), clients attached through service/flv.ConsumeByHTTP /
//               ConsumeByWebsocket; a lazy client's connection stops accepting bytes in the middle
//               of its first tags and goes on when everything else has happened

import (
	"bytes"
	"encoding/base64"
	"fmt"
	"net"
	"net/http"
	"sort"
	"strconv"
	"strings"
	"sync"
	"sync/atomic"
	"time"

	"github.com/cnotch/ipchub/av/codec"
	"github.com/cnotch/ipchub/av/format/flv"
	"github.com/cnotch/ipchub/config"
	"github.com/cnotch/ipchub/media"
	"github.com/cnotch/ipchub/media/cache"
	"github.com/cnotch/ipchub/network/websocket"
	flvsvc "github.com/cnotch/ipchub/service/flv"
	"github.com/cnotch/queue"
	"github.com/cnotch/xlog"
)

type joinClient struct {
	at   int  // via=cache: tags written before the join; via=http/ws: frames fed before the join
	lazy bool // backlogged until everything else has happened
}

type joinCase struct {
	mc      *muxCase
	gop     bool
	via     string
	clients []joinClient
}

type joinOutcome struct {
	k   int    // tags the stream had written when the client joined
	out []byte // what the client received
}

func (jc *joinCase) sched() string {
	var p []string
	for _, c := range jc.clients {
		m := "E"
		if c.lazy {
			m = "L"
		}
		p = append(p, fmt.Sprintf("%d%s", c.at, m))
	}
	return strings.Join(p, ",")
}

func b01(b bool) string {
	if b {
		return "1"
	}
	return "0"
}

// line: the driver op line of client `who` (the scenario rides along for the replay)
func (jc *joinCase) line(who, k int, date string, impl []byte) string {
	l := jc.mc.line("gen", date, impl)
	return strings.Replace(l, "c08 mux ", fmt.Sprintf("c08 joinat gop=%s k=%d via=%s sched=%s who=%d ", b01(jc.gop), k, jc.via, jc.sched(), who), 1)
}

func parseJoinLine(l string) *joinCase {
	fs := strings.Fields(l)
	if len(fs) < 2 || fs[0] != "c08" || fs[1] != "joinat" {
		return nil
	}
	mc := parseMuxLine(strings.Replace(l, "c08 joinat ", "c08 mux ", 1))
	if mc == nil {
		return nil
	}
	m := kvs(fs)
	jc := &joinCase{mc: mc, gop: m["gop"] == "1", via: m["via"]}
	if jc.via == "" {
		jc.via = "cache"
	}
	for _, e := range strings.Split(m["sched"], ",") {
		if len(e) < 2 {
			continue
		}
		at, err := strconv.Atoi(e[:len(e)-1])
		if err != nil {
			return nil
		}
		jc.clients = append(jc.clients, joinClient{at: at, lazy: e[len(e)-1] == 'L'})
	}
	if len(jc.clients) == 0 { // a hand-written line: one client at tag k
		k, _ := strconv.Atoi(m["k"])
		jc.via = "cache"
		jc.clients = []joinClient{{at: k}}
	}
	return jc
}

// ---- via=cache ----

type cacheClient struct {
	q   *queue.SyncQueue
	w   *flv.Writer
	buf bytes.Buffer
	err string
}

func (c *cacheClient) drain() {
	for c.q.Queue().Len() > 0 {
		e, _ := c.q.Queue().Pop()
		if c.err != "" {
			continue
		}
		func() {
			defer func() {
				if r := recover(); r != nil {
					c.err = fmt.Sprint("panic: ", r)
				}
			}()
			if err := c.w.WriteFlvTag(e.(*flv.Tag)); err != nil {
				c.err = err.Error()
			}
		}()
	}
}

// runJoinCache: tags = what the real muxer produced for jc.mc
func runJoinCache(jc *joinCase, muxTags []*flv.Tag, flags byte) (outs []joinOutcome, problem string) {
	// private copies: a scenario must not see what another one did to the tag objects
	tags := make([]*flv.Tag, len(muxTags))
	for i, t := range muxTags {
		ct := *t
		tags[i] = &ct
	}
	fc := cache.NewFlvCache(jc.gop)
	cl := make([]*cacheClient, len(jc.clients))
	outs = make([]joinOutcome, len(jc.clients))
	order := make([]int, len(jc.clients))
	for i := range order {
		order[i] = i
		if jc.clients[i].at > len(tags) { // a join point beyond the end of the stream: at the end
			jc.clients[i].at = len(tags)
		}
	}
	sort.SliceStable(order, func(a, b int) bool { return jc.clients[order[a]].at < jc.clients[order[b]].at })
	next := 0
	join := func(k int) {
		for next < len(order) && jc.clients[order[next]].at <= k {
			i := order[next]
			next++
			c := &cacheClient{q: queue.NewSyncQueue()}
			w, err := flv.NewWriter(&c.buf, flags)
			if err != nil {
				c.err = "NewWriter: " + err.Error()
			}
			c.w = w
			fc.PushTo(c.q) // Stream.startConsume: snapshot, then registration
			cl[i] = c
			outs[i].k = k
		}
		for i, c := range cl {
			if c != nil && !jc.clients[i].lazy {
				c.drain()
			}
		}
	}
	for k, t := range tags {
		join(k)
		fc.CachePack(t) // Stream.cacheAndSend: cache, then broadcast
		for _, c := range cl {
			if c != nil {
				c.q.Queue().Push(t)
			}
		}
	}
	join(len(tags))
	for i, c := range cl {
		c.drain()
		outs[i].out = append([]byte(nil), c.buf.Bytes()...)
		if c.err != "" && problem == "" {
			problem = fmt.Sprintf("client %d: %s", i, c.err)
		}
	}
	return
}

// ---- via=http / via=ws: client ends ----

// gate: the client's connection accepts `free` writes and then blocks until opened
type gate struct {
	free int64
	n    int64
	ch   chan struct{}
	once sync.Once
}

func newGate(free int) *gate { return &gate{free: int64(free), ch: make(chan struct{})} }
func (g *gate) open()        { g.once.Do(func() { close(g.ch) }) }
func (g *gate) pass() {
	if g == nil {
		return
	}
	if atomic.AddInt64(&g.n, 1) > g.free {
		<-g.ch
	}
}

type captureRW struct {
	mu   sync.Mutex
	hdr  http.Header
	buf  []byte
	code int
	g    *gate
}

func (c *captureRW) Header() http.Header  { return c.hdr }
func (c *captureRW) WriteHeader(code int) { c.code = code }
func (c *captureRW) Write(p []byte) (int, error) {
	c.g.pass()
	c.mu.Lock()
	defer c.mu.Unlock()
	c.buf = append(c.buf, p...)
	return len(p), nil
}
func (c *captureRW) bytes() []byte {
	c.mu.Lock()
	defer c.mu.Unlock()
	return append([]byte(nil), c.buf...)
}

type fakeAddr struct{}

func (fakeAddr) Network() string { return "tcp" }
func (fakeAddr) String() string  { return "192.0.2.1:4242" }

// fakeWS is the server side of a WebSocket connection: writes are captured, Read blocks until Close
type fakeWS struct {
	captureRW
	closed chan struct{}
	once   sync.Once
}

func newFakeWS(g *gate) *fakeWS {
	f := &fakeWS{closed: make(chan struct{})}
	f.g = g
	return f
}
func (f *fakeWS) Read(p []byte) (int, error) {
	<-f.closed
	return 0, net.ErrClosed
}
func (f *fakeWS) Close() error                       { f.once.Do(func() { close(f.closed) }); return nil }
func (f *fakeWS) LocalAddr() net.Addr                { return fakeAddr{} }
func (f *fakeWS) RemoteAddr() net.Addr               { return fakeAddr{} }
func (f *fakeWS) SetDeadline(t time.Time) error      { return nil }
func (f *fakeWS) SetReadDeadline(t time.Time) error  { return nil }
func (f *fakeWS) SetWriteDeadline(t time.Time) error { return nil }
func (f *fakeWS) Subprotocol() string                { return "" }
func (f *fakeWS) Path() string                       { return "" }
func (f *fakeWS) Username() string                   { return "" }

// wsConn adapts fakeWS to websocket.Conn
type wsConn struct{ *fakeWS }

func (w wsConn) TextTransport() websocket.Conn { return w }

// probe sees every FLV tag the stream broadcasts
type probe struct {
	mu   sync.Mutex
	tags []*flv.Tag
}

func (p *probe) Consume(pack media.Pack) {
	p.mu.Lock()
	p.tags = append(p.tags, pack.(*flv.Tag))
	p.mu.Unlock()
}
func (p *probe) Close() error { return nil }

func sdpFor(c *muxCase) string {
	var b strings.Builder
	b.WriteString("v=0\r\no=- 0 0 IN IP4 127.0.0.1\r\ns=c08\r\nc=IN IP4 127.0.0.1\r\nt=0 0\r\n")
	if c.codec == "h265" {
		b.WriteString("m=video 0 RTP/AVP 96\r\na=rtpmap:96 H265/90000\r\n")
		fmt.Fprintf(&b, "a=fmtp:96 sprop-vps=%s;sprop-sps=%s;sprop-pps=%s\r\n", base64.StdEncoding.EncodeToString(c.vps),
			base64.StdEncoding.EncodeToString(c.sps), base64.StdEncoding.EncodeToString(c.pps))
	} else {
		b.WriteString("m=video 0 RTP/AVP 96\r\na=rtpmap:96 H264/90000\r\n")
		fmt.Fprintf(&b, "a=fmtp:96 packetization-mode=1;sprop-parameter-sets=%s,%s\r\n", base64.StdEncoding.EncodeToString(c.sps),
			base64.StdEncoding.EncodeToString(c.pps))
	}
	b.WriteString("a=control:streamid=0\r\n")
	if c.aac {
		fmt.Fprintf(&b, "m=audio 0 RTP/AVP 97\r\na=rtpmap:97 MPEG4-GENERIC/%d/2\r\n", 44100)
		b.WriteString("a=fmtp:97 profile-level-id=1;mode=AAC-hbr;sizelength=13;indexlength=3;indexdeltalength=3;config=1210\r\na=control:streamid=1\r\n")
	}
	return b.String()
}

var svcSeq int64

type svcInfo struct {
	ctypes []string // Content-Type of the HTTP clients
	date   string
	ntags  int
}

// runJoinService: only for cases whose parameter sets are known from the SDP on and usable.
// Every wait is for an exact event count (hooks.go); `problem` names the first wait whose budget
// expired — the caller runs the scenario again with the long budget before it believes it.
func runJoinService(jc *joinCase, budget time.Duration) (outs []joinOutcome, info svcInfo, problem string) {
	c := jc.mc
	ws := jc.via == "ws"
	config.VerifSetCacheGop(jc.gop)
	path := fmt.Sprintf("/c08/s%d", atomic.AddInt64(&svcSeq, 1))
	hooks.newEpoch(nil)
	s := media.NewStream(path, sdpFor(c))
	if s.FlvTypeFlags() == 0 {
		problem = "stream without flv muxer"
		s.Close()
		return
	}
	hooks.setStream(s)
	// the metadata of the case (the SDP only fixes the codecs)
	s.Video.Width, s.Video.Height, s.Video.FrameRate, s.Video.DataRate = c.w, c.h, c.fr, c.vdr
	s.Video.Sps, s.Video.Pps, s.Video.Vps = c.sps, c.pps, c.vps
	s.Audio.SampleRate, s.Audio.SampleSize, s.Audio.Channels, s.Audio.DataRate, s.Audio.Sps = c.asr, c.ass, c.ach, c.adr, c.asc
	media.Regist(s)
	var gates []*gate
	var dones []chan struct{}
	defer func() {
		for _, g := range gates {
			g.open()
		}
		media.Unregist(s)
		s.Close()
		hooks.setStream(nil)
	}()
	pr := &probe{}
	prCid := uint32(s.StartConsume(pr, media.FLVPacket, "probe"))
	pushed := 0
	feed := func(upto int) bool {
		for ; pushed < upto && pushed < len(c.frames); pushed++ {
			f := &c.frames[pushed]
			s.WriteFrame(&codec.Frame{MediaType: codec.MediaType(f.mt), Dts: f.dts, Pts: f.pts, Payload: f.payload})
		}
		// the muxer worker has taken every frame fed so far: all their tags are cached and broadcast
		return waitUntil(budget, func() bool { return hooks.muxReturned() >= pushed+1 })
	}
	order := make([]int, len(jc.clients))
	for i := range order {
		order[i] = i
	}
	sort.SliceStable(order, func(a, b int) bool { return jc.clients[order[a]].at < jc.clients[order[b]].at })
	outs = make([]joinOutcome, len(jc.clients))
	rws := make([]*captureRW, len(jc.clients))
	cids := make([]uint32, len(jc.clients))
	replayed := make([]int, len(jc.clients))
	logger := xlog.New(xlog.NewNopCore())
	for _, i := range order {
		cl := jc.clients[i]
		if !feed(cl.at) {
			problem = "muxer worker did not take the frames fed before a join"
			return
		}
		var g *gate
		if cl.lazy {
			// NewWriter's two writes (FLV header, PreviousTagSize0) precede the join; the connection
			// stalls somewhere in the client's first tags
			g = newGate(2 + (i*5+cl.at)%7)
			gates = append(gates, g)
		}
		done := make(chan struct{})
		dones = append(dones, done)
		before := hooks.joinedCount()
		if ws {
			wsc := newFakeWS(g)
			rws[i] = &wsc.captureRW
			go func() {
				defer close(done)
				flvsvc.ConsumeByWebsocket(logger, path, "192.0.2.1:4242", wsConn{wsc})
			}()
		} else {
			rw := &captureRW{hdr: http.Header{}, g: g}
			rws[i] = rw
			go func() {
				defer close(done)
				flvsvc.ConsumeByHTTP(logger, path, "192.0.2.1:4242", rw)
			}()
		}
		returned := false
		if !waitUntil(budget, func() bool {
			if hooks.joinedCount() > before {
				return true
			}
			select {
			case <-done:
				returned = true
				return true
			default:
			}
			return false
		}) {
			problem = "client never attached"
			return
		}
		if returned && hooks.joinedCount() <= before {
			problem = "service returned before attaching"
			return
		}
		cids[i], replayed[i] = hooks.joinedAt(before)
		outs[i].k = hooks.cachedTags() // nothing is in flight: the muxer worker is back at its queue
	}
	if !feed(len(c.frames)) {
		problem = "muxer worker did not take the frames fed after the joins"
		return
	}
	total := hooks.cachedTags()
	info.ntags = total
	for _, g := range gates {
		g.open()
	}
	// every consumer has written all it was handed: its goroutine has come back to its queue once
	// more than the number of packs put there (the replay at its join + every tag cached since)
	if !waitUntil(budget, func() bool {
		if hooks.consReturned(prCid) < total+1 {
			return false
		}
		for i := range jc.clients {
			if replayed[i] < 0 || hooks.consReturned(cids[i]) < replayed[i]+(total-outs[i].k)+1 {
				return false
			}
		}
		return true
	}) {
		problem = "a consumer did not write out what it was handed"
		return
	}
	for i := range jc.clients {
		outs[i].out = rws[i].bytes()
		if !ws {
			info.ctypes = append(info.ctypes, rws[i].hdr.Get("Content-Type"))
		}
	}
	pr.mu.Lock()
	for _, t := range pr.tags {
		if t.IsMetadata() {
			info.date = findDate(t.Data)
		}
	}
	pr.mu.Unlock()
	// detach: closing the stream ends the services
	media.Unregist(s)
	s.Close()
	for _, d := range dones {
		d := d
		if !waitUntil(budget, func() bool {
			select {
			case <-d:
				return true
			default:
				return false
			}
		}) {
			problem = "service did not return after the stream was closed"
			return
		}
	}
	return
}
