package main

// The implementation side of the C11 correspondence: a fresh "world" per case built from the
// REAL packages (auth manager, token manager behind the real /api/ handlers, the service mux
// with its interceptors, the RTSP accept handler on net.Pipe, WebSocket upgrades through an
// httptest server), and an executor that turns one operation string into the outcome the
// implementation showed.

import (
	"bufio"
	"bytes"
	"context"
	"crypto/md5"
	"encoding/hex"
	"encoding/json"
	"fmt"
	"io"
	"net"
	"net/http"
	"net/http/httptest"
	"net/url"
	"strconv"
	"strings"
	"sync"
	"time"

	. "verifharness/hlib"

	"github.com/cnotch/ipchub/av/format/hls"
	rtspfmt "github.com/cnotch/ipchub/av/format/rtsp"
	"github.com/cnotch/ipchub/config"
	"github.com/cnotch/ipchub/media"
	"github.com/cnotch/ipchub/provider/auth"
	"github.com/cnotch/ipchub/service"
	"github.com/cnotch/ipchub/utils"
	"github.com/cnotch/xlog"
	"github.com/gorilla/websocket"
)

// Every wait below is for an EVENT (a response, a consumer attaching, a stream leaving the registry);
// the limits are only ever waited out when the event does not happen at all.  A limit that expired
// marks the world `slow`: the runner then discards the case and runs it again, alone, with limits
// three times as long, and reports only what that second run shows (see run in main.go).
const (
	waitLimitBase = 60 * time.Second
	hangLimitBase = 150 * time.Second // one whole operation, through execW
)

var waitLimit = waitLimitBase
var hangLimit = hangLimitBase

type prov struct{}

func (p *prov) LoadAll() ([]*auth.User, error)                { return nil, nil }
func (p *prov) Flush(full, saves, removes []*auth.User) error { return nil }

var (
	svcOnce sync.Once
	svc     *service.Service
	handler http.Handler
	httpSrv *httptest.Server
)

func setupService() {
	svcOnce.Do(func() {
		xlog.ReplaceGlobal(xlog.New(xlog.NewNopCore()))
		config.VerifSetAuth(true)
		auth.Reset(&prov{})
		var err error
		svc, err = service.NewService(context.Background(), xlog.L())
		if err != nil {
			Fatal("NewService: %v", err)
		}
		handler = svc.VerifHandler()
		httpSrv = httptest.NewServer(handler)
	})
}

func md5hex(s string) string {
	d := md5.Sum([]byte(s))
	return hex.EncodeToString(d[:])
}

func sdpFor(name string) string {
	return "v=0\r\no=- 0 0 IN IP4 127.0.0.1\r\ns=" + name + "\r\nc=IN IP4 127.0.0.1\r\nt=0 0\r\n" +
		"m=video 0 RTP/AVP 96\r\na=rtpmap:96 H264/90000\r\na=fmtp:96 packetization-mode=1; sprop-parameter-sets=Z2QAH6zZQFAFuhAAAAMAEAAAAwPI8YMZYA==,aO+8sA==; profile-level-id=64001F\r\na=control:streamid=0\r\n" +
		"m=audio 0 RTP/AVP 97\r\na=rtpmap:97 MPEG4-GENERIC/44100/2\r\na=fmtp:97 profile-level-id=1;mode=AAC-hbr;sizelength=13;indexlength=3;indexdeltalength=3; config=121056E500\r\na=control:streamid=1\r\n"
}

type tokPair struct{ a, r string }

type wsClient struct {
	c    *websocket.Conn
	sub  string
	path string
}

type rtspClient struct {
	key       string
	pipe      net.Conn
	rd        *bufio.Reader
	ws        *wsClient
	nonce     string
	firstN    string
	cseq      int
	published *media.Stream
	dead      bool
	barrier   bool // the exchange in flight is the harness's own barrier: a client would not have sent it, its nonce is not taken
}

type wspClient struct {
	ctl   *wsClient
	chan_ string
	seq   int
}

type world struct {
	slow    bool // some wait limit expired during this case
	wedged  bool // an operation never returned: the goroutine executing it is still blocked
	tokens  []tokPair
	streams map[string]*media.Stream // every stream object the harness knows, by registry key
	ws      []*wsClient
	rtsp    map[string]*rtspClient
	wsp     []*wspClient
	cleanup []func()
}

// guarded runs a call into the implementation's global state under the hang watchdog
func guarded(f func()) bool {
	done := make(chan struct{})
	go func() { defer close(done); f() }()
	t := time.NewTimer(hangLimit)
	defer t.Stop()
	select {
	case <-done:
		return true
	case <-t.C:
		return false
	}
}

func newWorld() *world {
	setupService()
	w := &world{streams: map[string]*media.Stream{}, rtsp: map[string]*rtspClient{}}
	if !guarded(func() {
		config.VerifSetAuth(true)
		auth.Reset(&prov{})
		media.UnregistAll()
		svc.VerifResetTokens()
	}) {
		w.slow, w.wedged = true, true // a lock of the implementation is never released: nothing can be executed
	}
	return w
}

func (w *world) close() {
	for _, c := range w.rtsp {
		c.closeConn()
	}
	for _, c := range w.ws {
		c.c.Close()
	}
	if !w.wedged {
		guarded(media.UnregistAll)
	}
	for i := len(w.cleanup) - 1; i >= 0; i-- {
		w.cleanup[i]()
	}
}

func addSegments(s *media.Stream, key string) {
	if pl, ok := s.Hlsable().(*hls.Playlist); ok && pl != nil {
		for i := 1; i <= 3; i++ {
			pl.VerifAddSegment(i, 5, fmt.Sprintf("/streams%s/%d.ts", key, i), []byte("TS:"+key))
		}
	}
}

// snapshot of the consumer tables of every known stream
func (w *world) counts() map[string][2]int {
	m := map[string][2]int{}
	for k, s := range w.streams {
		r, f, _, _ := s.VerifTables()
		m[k] = [2]int{len(r), len(f)}
	}
	return m
}

// waitAttach waits until some stream has more consumers of the given table than before (which one),
// or until done is closed / the time limit passes
func (w *world) waitAttach(before map[string][2]int, table int, done <-chan struct{}) string {
	deadline := time.Now().Add(waitLimit)
	for {
		for k, s := range w.streams {
			r, f, _, _ := s.VerifTables()
			n := [2]int{len(r), len(f)}
			if n[table] > before[k][table] {
				return k
			}
		}
		select {
		case <-done:
			// one last look: the handler may have attached and returned
			for k, s := range w.streams {
				r, f, _, _ := s.VerifTables()
				n := [2]int{len(r), len(f)}
				if n[table] > before[k][table] {
					return k
				}
			}
			return ""
		default:
		}
		if time.Now().After(deadline) {
			w.slow = true
			return ""
		}
		time.Sleep(200 * time.Microsecond)
	}
}

// which stream has more consumers in `table` (0 RTP, 1 FLV) than in the snapshot, right now
func (w *world) attachedNow(before map[string][2]int, table int) string {
	for k, s := range w.streams {
		r, f, _, _ := s.VerifTables()
		n := [2]int{len(r), len(f)}
		if n[table] > before[k][table] {
			return k
		}
	}
	return ""
}

// the registry key whose SDP a response body carries ("" if none): harness streams are named S<hex
// of the key>, published ones P<session>-<cseq>
func (w *world) sdpKey(body string) (string, bool) {
	for _, l := range strings.Split(body, "\n") {
		l = strings.TrimSpace(l)
		if strings.HasPrefix(l, "s=S") {
			if k, e := hex.DecodeString(l[3:]); e == nil {
				return string(k), true
			}
		} else if strings.HasPrefix(l, "s=P") {
			for k, s := range w.streams {
				if strings.Contains(s.Sdp(), l) {
					return k, true
				}
			}
			return "?", true
		}
	}
	return "", false
}

func (w *world) stopFlvConsumers() {
	for _, s := range w.streams {
		_, f, _, _ := s.VerifTables()
		for _, c := range f {
			s.StopConsume(c.CID)
		}
	}
}

func (w *world) tokStr(ref string) string {
	if ref == "-" || ref == "" {
		return ""
	}
	k, _ := strconv.Atoi(ref[1:])
	switch ref[0] {
	case 'A':
		if k < len(w.tokens) {
			return w.tokens[k].a
		}
	case 'R':
		if k < len(w.tokens) {
			return w.tokens[k].r
		}
	case 'X':
		return fmt.Sprintf("%032x", 0xdead0000+k)
	}
	return "unissued-" + ref
}

func secretStr(s string) string {
	raw := string(Unhx(s[1:]))
	if s[0] == 'm' {
		return md5hex(raw)
	}
	return raw
}

type recorder struct {
	*httptest.ResponseRecorder
	mu sync.Mutex
}

func (r *recorder) Write(b []byte) (int, error) {
	r.mu.Lock()
	defer r.mu.Unlock()
	return r.ResponseRecorder.Write(b)
}
func (r *recorder) body() string {
	r.mu.Lock()
	defer r.mu.Unlock()
	return r.Body.String()
}

// serve runs the real mux on a hand-built request (URL.Path is exactly `path`)
func serve(method, path, rawQuery string, body []byte, hdr http.Header) (rec *recorder, done chan struct{}, panicked *bool) {
	req := httptest.NewRequest(method, "/", bytes.NewReader(body))
	req.URL = &url.URL{Path: path, RawQuery: rawQuery}
	req.RequestURI = req.URL.RequestURI()
	for k, vs := range hdr {
		for _, v := range vs {
			// Add canonicalises the key exactly like the server's header reader does for a request off the wire
			req.Header.Add(k, v)
		}
	}
	rec = &recorder{ResponseRecorder: httptest.NewRecorder()}
	done = make(chan struct{})
	p := false
	panicked = &p
	go func() {
		defer func() {
			if r := recover(); r != nil {
				p = true
			}
			close(done)
		}()
		handler.ServeHTTP(rec, req)
	}()
	return
}

func methodName(m string) string {
	switch m {
	case "G":
		return "GET"
	case "C":
		return "CONNECT"
	}
	return "POST"
}

func tokenQuery(t string) string {
	if t == "" {
		return ""
	}
	return "token=" + url.QueryEscape(t)
}

// ---- operations ----

// the spellings of the internal identity header a client may use: net/http maps every one of them to
// the same key (textproto.CanonicalMIMEHeaderKey), on the wire and in Header.Add / Get / Set
var identityKeys = []string{"user_name_in_token", "User_name_in_token", "USER_NAME_IN_TOKEN", "User_Name_In_Token"}

// splitHdr takes an optional last field `H<hex>[,<hex>...]` off an op: the values of the identity
// header the client sends itself
func splitHdr(f []string) ([]string, http.Header) {
	n := len(f)
	if n == 0 || !strings.HasPrefix(f[n-1], "H") {
		return f, nil
	}
	k := identityKeys[len(f[n-1])%len(identityKeys)]
	h := http.Header{}
	for _, v := range strings.Split(f[n-1][1:], ",") {
		h[k] = append(h[k], string(Unhx(v)))
	}
	return f[:n-1], h
}

func (w *world) waitDone(done chan struct{}) bool {
	t := time.NewTimer(waitLimit)
	defer t.Stop()
	select {
	case <-done:
		return true
	case <-t.C:
		w.slow = true
		return false
	}
}

// execW runs one operation under a watchdog: an operation that never returns (a lock never released,
// a handler that blocks) becomes the outcome "hung"; the world is unusable afterwards.
func (w *world) execW(op string) string {
	if w.wedged {
		return "skipped"
	}
	ch := make(chan string, 1)
	go func() {
		defer func() {
			if r := recover(); r != nil {
				ch <- "harness-panic"
			}
		}()
		ch <- w.exec(op)
	}()
	t := time.NewTimer(hangLimit)
	defer t.Stop()
	select {
	case r := <-ch:
		return r
	case <-t.C:
		w.slow, w.wedged = true, true
		return "hung"
	}
}

func (w *world) exec(op string) string {
	f, hdr := splitHdr(strings.Split(op, ":"))
	switch f[0] {
	case "auth":
		config.VerifSetAuth(f[1] == "1")
		return ""
	case "st":
		key := string(Unhx(f[1]))
		s := media.NewStream(key, sdpFor("S"+hex.EncodeToString([]byte(key))))
		media.Regist(s)
		addSegments(s, s.Path())
		w.streams[s.Path()] = s
		return ""
	case "sv":
		auth.Save(&auth.User{Name: string(Unhx(f[1])), Admin: f[2] == "1", PushAccess: string(Unhx(f[3])), PullAccess: string(Unhx(f[4])), Password: secretStr(f[5])}, f[6] == "1")
		return ""
	case "dl":
		auth.Del(string(Unhx(f[1])))
		return ""
	case "ag":
		n, _ := strconv.ParseInt(f[1], 10, 64)
		svc.VerifTokens().VerifAge(n)
		return ""
	case "ex":
		svc.VerifTokens().ExpCheck()
		return ""
	case "li":
		b, _ := json.Marshal(map[string]string{"username": string(Unhx(f[1])), "password": secretStr(f[2])})
		rec, done, _ := serve("POST", "/api/v1/login", "", b, nil)
		if !w.waitDone(done) {
			return "hung"
		}
		return w.issued(rec)
	case "rf":
		rec, done, _ := serve("GET", "/api/v1/refreshtoken", tokenQuery(w.tokStr(f[1])), nil, nil)
		if !w.waitDone(done) {
			return "hung"
		}
		return w.issued(rec)
	case "hs":
		return w.httpStream(methodName(f[1]), string(Unhx(f[2])), w.tokStr(f[3]), hdr)
	case "ap":
		m := map[string]string{"G": "GET", "D": "DELETE", "P": "POST", "C": "CONNECT"}[f[1]]
		rec, done, _ := serve(m, string(Unhx(f[2])), tokenQuery(w.tokStr(f[3])), nil, hdr)
		if !w.waitDone(done) {
			return "hung"
		}
		return apiOutcome(rec)
	case "asv":
		u := map[string]interface{}{"name": string(Unhx(f[2])), "admin": f[3] == "1", "push": string(Unhx(f[4])), "pull": string(Unhx(f[5])), "password": secretStr(f[6])}
		b, _ := json.Marshal(u)
		q := tokenQuery(w.tokStr(f[1]))
		if f[7] == "1" {
			if q != "" {
				q += "&"
			}
			q += "update_password=1"
		}
		rec, done, _ := serve("POST", "/api/v1/users", q, b, hdr)
		if !w.waitDone(done) {
			return "hung"
		}
		return apiOutcome(rec)
	case "adl":
		rec, done, _ := serve("DELETE", "/api/v1/users/"+string(Unhx(f[2])), tokenQuery(w.tokStr(f[1])), nil, hdr)
		if !w.waitDone(done) {
			return "hung"
		}
		return apiOutcome(rec)
	case "ws":
		return w.wsUpgrade(f[1], string(Unhx(f[2])), w.tokStr(f[3]), hdr)
	case "ro":
		c1, c2 := net.Pipe()
		svc.VerifAcceptRTSP(c2)
		w.rtsp["n"+f[1]] = &rtspClient{key: "n" + f[1], pipe: c1, rd: bufio.NewReader(c1)}
		return ""
	case "rc":
		if c := w.rtsp[f[1]]; c != nil {
			c.closeConn()
			w.waitUnpublished(c)
			delete(w.rtsp, f[1])
		}
		return ""
	case "rt":
		return w.rtspRequest(f)
	case "wc":
		return w.wspInit(f[1])
	case "wd":
		return w.wspJoin(f[1], f[2])
	case "wr":
		return w.wspWrap(f)
	}
	return "bad-op"
}

func (w *world) issued(rec *recorder) string {
	if rec.Code != 200 {
		return "no"
	}
	var t struct {
		A string `json:"access_token"`
		R string `json:"refresh_token"`
	}
	if json.Unmarshal([]byte(rec.body()), &t) != nil || t.A == "" || t.R == "" {
		return "no"
	}
	w.tokens = append(w.tokens, tokPair{t.A, t.R})
	return "t" + strconv.Itoa(len(w.tokens)-1)
}

func apiOutcome(rec *recorder) string {
	switch {
	case rec.Code == 301:
		return "301"
	case strings.HasPrefix(rec.body(), "<?xml") && rec.Header().Get("Content-Type") == "application/xml":
		return "xd"
	case rec.Header().Get("Access-Control-Allow-Origin") == "*":
		return "pass" // the request reached the API router
	case rec.Code == 401:
		return "401"
	case rec.Code == 403:
		return "403"
	}
	return "code" + strconv.Itoa(rec.Code)
}

func (w *world) httpStream(method, path, tok string, hdr http.Header) string {
	before := w.counts()
	rec, done, panicked := serve(method, path, tokenQuery(tok), nil, hdr)
	// an FLV request blocks while it is being served: wait for the end of the handler or for a consumer
	key := w.waitAttach(before, 1, done)
	if key != "" {
		// a consumer of `key` was attached to this response: media of `key` is being delivered,
		// whatever status line and header went out before
		w.stopFlvConsumers()
		w.waitDone(done)
		return "sv.flv." + Hx([]byte(key))
	}
	if !w.waitDone(done) {
		return "hung"
	}
	if *panicked {
		return "panic"
	}
	body := rec.body()
	// media is recognised by what the body IS, not by the status code or content type that came with it
	switch {
	case strings.HasPrefix(body, "TS:"):
		return "sv.ts." + Hx([]byte(body[3:]))
	case strings.HasPrefix(body, "#EXTM3U"):
		// which stream's playlist: the segment URIs are /streams<key>/<seq>.ts
		for _, l := range strings.Split(body, "\n") {
			if strings.HasPrefix(l, "/streams") {
				l = strings.SplitN(l, "?", 2)[0]
				i := strings.LastIndex(l, "/")
				return "sv.m3u8." + Hx([]byte(l[len("/streams"):i]))
			}
		}
		return "m3u8-without-segments"
	case strings.HasPrefix(body, "FLV"):
		return "flv-header-without-consumer"
	case rec.Code == 301:
		return "301"
	case strings.HasPrefix(body, "<?xml") && rec.Header().Get("Content-Type") == "application/xml":
		return "xd"
	case rec.Code == 401:
		return "401"
	case rec.Code == 403:
		return "403"
	case rec.Code == 200:
		return "ok-without-media"
	}
	return "nm." + strconv.Itoa(rec.Code)
}

func isTimeout(err error) bool {
	ne, ok := err.(net.Error)
	return ok && ne.Timeout()
}

func (w *world) wsUpgrade(sub, path, tok string, hdr http.Header) string {
	d := websocket.Dialer{HandshakeTimeout: waitLimit}
	if sub != "none" {
		d.Subprotocols = []string{sub}
	}
	u := url.URL{Scheme: "ws", Host: strings.TrimPrefix(httpSrv.URL, "http://"), Path: path, RawQuery: tokenQuery(tok)}
	before := w.counts()
	c, resp, err := d.Dial(u.String(), hdr)
	if err != nil {
		if resp == nil {
			w.slow = true // no HTTP answer at all: the handshake limit, or the loop-back socket failed
			return "dial-error"
		}
		b, _ := io.ReadAll(resp.Body)
		switch {
		case resp.StatusCode == 301:
			return "301"
		case resp.StatusCode == 200 && strings.HasPrefix(string(b), "<?xml"):
			return "xd"
		case resp.StatusCode == 401:
			return "401"
		case resp.StatusCode == 403:
			return "403"
		}
		return "code" + strconv.Itoa(resp.StatusCode)
	}
	j := len(w.ws)
	wc := &wsClient{c: c, sub: sub, path: path}
	w.ws = append(w.ws, wc)
	if sub == "rtsp" {
		w.rtsp["w"+strconv.Itoa(j)] = &rtspClient{key: "w" + strconv.Itoa(j), ws: wc}
		return "up." + strconv.Itoa(j)
	}
	if sub == "control" || sub == "data" {
		return "up." + strconv.Itoa(j)
	}
	// no sub-protocol: FLV over WebSocket, or closed by the server
	c.SetReadDeadline(time.Now().Add(waitLimit))
	_, msg, err := c.ReadMessage()
	if err != nil {
		if isTimeout(err) {
			w.slow = true
			return "ws-silent"
		}
		return "cl." + strconv.Itoa(j)
	}
	if !bytes.HasPrefix(msg, []byte("FLV")) {
		return "ws-foreign-message"
	}
	key := w.waitAttach(before, 1, nil)
	if key == "" {
		return "flv-header-without-consumer"
	}
	w.stopFlvConsumers()
	return "fl." + strconv.Itoa(j) + "." + Hx([]byte(key))
}

// ---- RTSP ----

func (c *rtspClient) closeConn() {
	if c.dead {
		return
	}
	c.dead = true
	if c.pipe != nil {
		c.pipe.Close()
	}
	if c.ws != nil {
		c.ws.c.Close()
	}
}

// roundTrip sends one request and reads one response: status code, headers, body ("" code = no response)
func (c *rtspClient) roundTrip(req string, expectResponse bool) (code int, hdr map[string]string, body string, err error) {
	if c.dead {
		return 0, nil, "", fmt.Errorf("session closed")
	}
	var rd *bufio.Reader
	if c.ws != nil {
		if err = c.ws.c.WriteMessage(websocket.BinaryMessage, []byte(req)); err != nil {
			return
		}
		c.ws.c.SetReadDeadline(time.Now().Add(waitLimit))
		var msg []byte
		if _, msg, err = c.ws.c.ReadMessage(); err != nil {
			return
		}
		rd = bufio.NewReader(bytes.NewReader(msg))
	} else {
		c.pipe.SetDeadline(time.Now().Add(waitLimit))
		if _, err = io.WriteString(c.pipe, req); err != nil {
			return
		}
		rd = c.rd
	}
	line, err := rd.ReadString('\n')
	if err != nil {
		return
	}
	f := strings.SplitN(strings.TrimSpace(line), " ", 3)
	if len(f) < 2 {
		err = fmt.Errorf("bad status line %q", line)
		return
	}
	code, _ = strconv.Atoi(f[1])
	hdr = map[string]string{}
	for {
		l, e := rd.ReadString('\n')
		if e != nil {
			err = e
			return
		}
		l = strings.TrimRight(l, "\r\n")
		if l == "" {
			break
		}
		if i := strings.Index(l, ":"); i > 0 {
			hdr[strings.ToLower(strings.TrimSpace(l[:i]))] = strings.TrimSpace(l[i+1:])
		}
	}
	if n, _ := strconv.Atoi(hdr["content-length"]); n > 0 {
		b := make([]byte, n)
		if _, err = io.ReadFull(rd, b); err != nil {
			return
		}
		body = string(b)
	}
	if a := hdr["www-authenticate"]; a != "" && !c.barrier {
		if i := strings.Index(a, `nonce="`); i >= 0 {
			n := a[i+7:]
			if j := strings.Index(n, `"`); j >= 0 {
				n = n[:j]
			}
			if c.firstN == "" {
				c.firstN = n
			}
			c.nonce = n
		}
	}
	return
}

var trText = map[string]string{
	"t/-/0": "RTP/AVP/TCP;unicast;interleaved=0-1",
	"t/r/0": "RTP/AVP/TCP;unicast;interleaved=0-1;mode=record",
	"t/p/0": "RTP/AVP/TCP;unicast;interleaved=0-1;mode=play",
	"t/-/1": "RTP/AVP/TCP;unicast;interleaved=x",
	"t/r/1": "RTP/AVP/TCP;unicast;mode=record;interleaved=x",
	"u/-/0": "RTP/AVP;unicast;client_port=5000-5001",
	"u/r/0": "RTP/AVP;unicast;client_port=5000-5001;mode=record",
	"m/-/0": "RTP/AVP;multicast",
	"x/-/0": "RTP/SAVP;unicast",
	"x/-/1": "nonsense",
}

// rt:<sess>:<method>:<urlpath>:<cred>:<ct>:<sdp>:<ctrl>:<tr>
func (w *world) rtspRequest(f []string) string {
	c := w.rtsp[f[1]]
	if c == nil {
		return "no-session"
	}
	method, p := f[2], string(Unhx(f[3]))
	if method == "OTHER" {
		method = "GET_PARAMETER"
	}
	u := &url.URL{Scheme: "rtsp", Host: "h", Path: p}
	if method == "SETUP" {
		switch f[7] {
		case "v":
			u.Path = strings.TrimSuffix(p, "/") + "/streamid=0"
		case "a":
			u.Path = strings.TrimSuffix(p, "/") + "/streamid=1"
		default:
			u.Path = strings.TrimSuffix(p, "/") + "/bogus=7"
		}
	}
	c.cseq++
	var b strings.Builder
	fmt.Fprintf(&b, "%s %s RTSP/1.0\r\nCSeq: %d\r\n", method, u.String(), c.cseq)
	if f[4] != "-" {
		cf := strings.Split(f[4], "/")
		user, secret := string(Unhx(cf[0])), secretStr(cf[1])
		nonce := c.nonce
		if cf[2] != "1" {
			nonce = "00000000000000000000000000000000"
			if c.firstN != "" && c.firstN != c.nonce {
				nonce = c.firstN
			}
		}
		resp := rtspfmt.FormatDigestAuthResponse("ipchub", nonce, method, u.String(), user, secret)
		fmt.Fprintf(&b, "Authorization: Digest username=\"%s\", realm=\"ipchub\", nonce=\"%s\", uri=\"%s\", response=\"%s\"\r\n", user, nonce, u.String(), resp)
	}
	body := ""
	sdpName := ""
	switch method {
	case "ANNOUNCE":
		if f[5] == "1" {
			b.WriteString("Content-Type: application/sdp\r\n")
		} else {
			b.WriteString("Content-Type: text/plain\r\n")
		}
		if f[6] == "1" {
			sdpName = "P" + f[1] + "-" + strconv.Itoa(c.cseq)
			body = sdpFor(sdpName)
		} else {
			body = "this is not sdp\r\n"
		}
	case "SETUP":
		t, ok := trText[f[8]]
		if !ok {
			return "bad-transport-spec"
		}
		b.WriteString("Transport: " + t + "\r\n")
	}
	if body != "" {
		fmt.Fprintf(&b, "Content-Length: %d\r\n", len(body))
	}
	b.WriteString("\r\n")
	b.WriteString(body)

	before := w.counts()
	known := map[*media.Stream]bool{}
	for _, s := range w.streams {
		known[s] = true
	}
	code, _, rbody, err := c.roundTrip(b.String(), true)
	if err != nil {
		if isTimeout(err) {
			w.slow = true
		}
		return "io:" + strings.ReplaceAll(err.Error(), " ", "_")
	}
	if method == "TEARDOWN" {
		if code == 200 {
			w.waitUnpublished(c)
			c.dead = true
		}
		return strconv.Itoa(code) + "/-"
	}
	// Barrier: the session handles its requests one after the other, and some handlers act AFTER they
	// have written the response (PLAY attaches the consumer then).  OPTIONS is answered in every state
	// without touching the session; once its answer is here, everything the request did has happened.
	c.cseq++
	c.barrier = true
	if _, _, _, berr := c.roundTrip(fmt.Sprintf("OPTIONS %s RTSP/1.0\r\nCSeq: %d\r\n\r\n", u.String(), c.cseq), true); berr != nil && isTimeout(berr) {
		w.slow = true
	}
	c.barrier = false
	// What the request DID, whatever its status code says: an SDP in the body, a consumer attached to
	// this connection, a stream in the registry that was not there.
	eff := "-"
	if k, ok := w.sdpKey(rbody); ok {
		eff = "d." + Hx([]byte(k))
		if k == "?" {
			eff = "d.?"
		}
	}
	if k := w.attachedNow(before, 0); k != "" {
		eff = "p." + Hx([]byte(k))
	}
	_, infos := media.Infos("", 100000, false)
	for _, si := range infos {
		if s := media.Get(si.Path); s != nil && !known[s] {
			eff = "b." + Hx([]byte(s.Path()))
			w.streams[s.Path()] = s
			addSegments(s, s.Path())
			c.published = s
		}
	}
	return strconv.Itoa(code) + "/" + eff
}

// after a pushing session ended, its stream leaves the registry asynchronously
func (w *world) waitUnpublished(c *rtspClient) {
	if c.published == nil {
		return
	}
	s := c.published
	c.published = nil
	deadline := time.Now().Add(waitLimit)
	for media.Get(s.Path()) == s {
		if !time.Now().Before(deadline) {
			w.slow = true
			break
		}
		time.Sleep(200 * time.Microsecond)
	}
	if w.streams[s.Path()] == s {
		delete(w.streams, s.Path())
	}
}

// ---- WSP ----

func wspExchange(c *websocket.Conn, msg string) (string, error) {
	if err := c.WriteMessage(websocket.TextMessage, []byte(msg)); err != nil {
		return "", err
	}
	c.SetReadDeadline(time.Now().Add(waitLimit))
	_, b, err := c.ReadMessage()
	return string(b), err
}

func wspCode(resp string) string {
	f := strings.Fields(strings.SplitN(resp, "\r\n", 2)[0])
	if len(f) >= 2 {
		return f[1]
	}
	return "?"
}

func (w *world) wspInit(j string) string {
	i, _ := strconv.Atoi(j)
	if i >= len(w.ws) {
		return "err"
	}
	resp, err := wspExchange(w.ws[i].c, "WSP/1.1 INIT\r\nproto: rtsp\r\nseq: 1\r\n\r\n")
	if err != nil {
		if isTimeout(err) {
			w.slow = true
		}
		return "io"
	}
	ch := ""
	for _, l := range strings.Split(resp, "\r\n") {
		if strings.HasPrefix(l, "channel:") {
			ch = strings.TrimSpace(l[8:])
		}
	}
	if wspCode(resp) != "200" || ch == "" {
		return "err"
	}
	w.wsp = append(w.wsp, &wspClient{ctl: w.ws[i], chan_: ch, seq: 1})
	return "ch." + strconv.Itoa(len(w.wsp)-1)
}

func (w *world) wspJoin(j, chref string) string {
	i, _ := strconv.Atoi(j)
	if i >= len(w.ws) {
		return "err"
	}
	ch := "424242"
	if k, err := strconv.Atoi(chref); err == nil && k < len(w.wsp) {
		ch = w.wsp[k].chan_
	}
	resp, err := wspExchange(w.ws[i].c, "WSP/1.1 JOIN\r\nchannel: "+ch+"\r\nseq: 1\r\n\r\n")
	if err != nil {
		if isTimeout(err) {
			w.slow = true
		}
		return "io"
	}
	return wspCode(resp)
}

// wr:<i>:<method>:<ctrl>:<trok>
func (w *world) wspWrap(f []string) string {
	i, _ := strconv.Atoi(f[1])
	if i >= len(w.wsp) {
		return "err"
	}
	c := w.wsp[i]
	c.seq++
	method := f[2]
	if method == "OTHER" {
		method = "GET_PARAMETER"
	}
	p := c.ctl.path
	// the stream path of the ws URL: /streams<path>
	// (the session takes its path from the WebSocket connection, not from this URL: the wrapped requests
	// name the stream by its registry key, as a player that follows the SDP's control URLs does)
	p = utils.CanonicalPath(strings.TrimPrefix(p, "/streams"))
	u := "rtsp://h" + p
	if method == "SETUP" {
		switch f[3] {
		case "v":
			u += "/streamid=0"
		case "a":
			u += "/streamid=1"
		default:
			u += "/bogus=7"
		}
	}
	var b strings.Builder
	fmt.Fprintf(&b, "%s %s RTSP/1.0\r\nCSeq: %d\r\n", method, u, c.seq)
	if method == "SETUP" {
		if f[4] == "1" {
			b.WriteString("Transport: RTP/AVP/TCP;unicast;interleaved=0-1\r\n")
		} else {
			b.WriteString("Transport: nonsense\r\n")
		}
	}
	b.WriteString("\r\n")
	before := w.counts()
	resp, err := wspExchange(c.ctl.c, fmt.Sprintf("WSP/1.1 WRAP\r\nseq: %d\r\n\r\n%s", c.seq, b.String()))
	if err != nil {
		if isTimeout(err) {
			w.slow = true
		}
		return "io"
	}
	i2 := strings.Index(resp, "\r\n\r\n")
	if i2 < 0 {
		return "malformed"
	}
	inner := resp[i2+4:]
	code := wspCode(inner)
	// what the request did, whatever its status code says (StartConsume happens before the response is written)
	eff := "-"
	if k, ok := w.sdpKey(inner); ok {
		eff = "d." + Hx([]byte(k))
		if k == "?" {
			eff = "d.?"
		}
	}
	if k := w.attachedNow(before, 0); k != "" {
		eff = "p." + Hx([]byte(k))
	}
	return code + "/" + eff
}
